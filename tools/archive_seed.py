#!/usr/bin/env python3
"""archive_seed.py <NAME e.g. C14-1> <ID> <caught|missed-then-caught|missed> "<keys / note>" "<confirm result>" """
import json, os, shutil, subprocess, sys
name, pid, status, note, confirm = sys.argv[1:6]
src = f"/tmp/seedout/{name}"; dst = f"/verif/seeded/{name}"
os.makedirs(dst, exist_ok=True)
for f in os.listdir(src):
    if f in ("TASK.txt", "wip.patch"): continue
    shutil.copy(os.path.join(src, f), dst)
m = json.load(open(os.path.join(src, "meta.json")))
m["verified_by_coordinator"] = {
    "confirmation": confirm,
    "how": "tools/confirm_seed.sh in a scratch git worktree of /repo: patch applies and builds, demo FAILS with the change, `go test -vet=off -count=1 -timeout 25m ./...` PASSES with the change, demo PASSES without it",
    "check_run": f"tools/try_seed.sh (rsync copy of /repo + patch, VERIF_REPO=<copy> ./check {pid} --tier quick, VERIF_SEED=1)",
    "result": status,
    "detail": note,
}
json.dump(m, open(os.path.join(dst, "meta.json"), "w"), indent=1)
wt = f"/tmp/seedwt-{name}"
if os.path.isdir(wt):
    subprocess.call(["git", "-C", "/repo", "worktree", "remove", "--force", wt])
shutil.rmtree(src, ignore_errors=True)
print("archived", name)
