#!/bin/bash
# usage: tools/run_all.sh quick|thorough [seed]  -> runs every claimed check from /verif against /repo, prints one line each
cd "$(dirname "$0")/.."
tier=${1:-quick}; export VERIF_SEED=${2:-1}
for i in 01 02 03 04 05 06 07 08 09 10 11 12 13 14 15 16 17 18 19 20; do
  s=$(date +%s); ./check C$i --tier $tier > .run/all-C$i-$tier.log 2>&1; rc=$?
  echo "C$i $tier seed=$VERIF_SEED exit=$rc wall=$(( $(date +%s)-s ))s known=$(grep -c '^KNOWN-FINDING' .run/all-C$i-$tier.log) $(grep -E '^(OK|VIOLATION|INCONCLUSIVE)' .run/all-C$i-$tier.log | head -1 | cut -c1-120)"
done
