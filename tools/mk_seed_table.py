#!/usr/bin/env python3
"""Regenerates the seeded-change table in DESIGN.md (between the SEED-TABLE markers) from seeded/*/meta.json."""
import json, glob, os, re
ROOT = os.path.dirname(os.path.dirname(os.path.abspath(__file__)))
rows = []
for d in sorted(glob.glob(os.path.join(ROOT, "seeded", "*", "meta.json")), key=lambda p: (p.split("/")[-2].split("-")[0], int(p.split("/")[-2].split("-")[1]))):
    name = d.split("/")[-2]
    m = json.load(open(d)); v = m.get("verified_by_coordinator", {})
    summ = re.sub(r"\s+", " ", m.get("summary", "")).strip()
    needs = re.sub(r"\s+", " ", m.get("needs", "")).strip()
    if len(summ) > 230: summ = summ[:227] + "..."
    if len(needs) > 200: needs = needs[:197] + "..."
    res = v.get("result", "?")
    if res.startswith("VIOLATION"): res = "caught"
    det = v.get("detail") or v.get("caught_by") or ""
    if isinstance(det, list): det = "; ".join(det)
    det = re.sub(r"\s+", " ", det)
    if len(det) > 330: det = det[:327] + "..."
    rows.append(f"| {name} | {summ} | {needs} | **{res}** — {det} |")
table = "| seed | change (written by an independent agent that saw only the property text) | needs | result of `./check <ID>` (quick, seed 1) on a scratch copy with the change |\n|---|---|---|---|\n" + "\n".join(rows)
n = len(rows); missed = sum(1 for r in rows if "missed-then-caught" in r); never = sum(1 for r in rows if "**missed**" in r)
cross = sum(1 for r in rows if "**caught-by-C" in r)
head = f"{n} seeded changes; {n - missed - never - cross} caught at first run by the check of the property they were written against, {cross} not seen by that check but caught at first run by the check of the property whose statement the change violates (result column `caught-by-Cnn`), {missed} missed at first and caught after the check was strengthened, {never} still missed.\n\n"
p = os.path.join(ROOT, "DESIGN.md"); s = open(p).read()
a, b = "<!-- SEED-TABLE-BEGIN -->", "<!-- SEED-TABLE-END -->"
assert a in s and b in s
s = s[:s.index(a) + len(a)] + "\n" + head + table + "\n" + s[s.index(b):]
open(p, "w").write(s); print(head.strip())
