#!/bin/bash
# usage: apply_fix.sh <name-without-ext> [test packages...]   (patch /tmp/fixes/<name>.diff, message /tmp/fixes/<name>.msg)
set -u
export GOFLAGS=-mod=mod GOPROXY=off GOSUMDB=off GOTOOLCHAIN=local
N=$1; shift
cd /repo || exit 2
[ -z "$(git status --porcelain)" ] || { echo "SKIP $N: /repo dirty"; exit 1; }
git apply --check "/tmp/fixes/$N.diff" 2>/tmp/fixes/$N.err || { echo "SKIP $N: does not apply: $(head -2 /tmp/fixes/$N.err)"; exit 1; }
before=$(python3 /verif/tools/audit_fixes.py | grep -c MISSING)
git apply "/tmp/fixes/$N.diff"
if ! go build ./... 2>/tmp/fixes/$N.err; then echo "SKIP $N: build fails"; head -5 /tmp/fixes/$N.err; git checkout -- .; exit 1; fi
[ -z "$(gofmt -l $(git diff --name-only))" ] || { echo "note $N: gofmt differences"; gofmt -w $(git diff --name-only); }
# guard against stale patches that silently revert earlier fixes: lines added by earlier fix commits must survive
after=$(python3 /verif/tools/audit_fixes.py | grep -c MISSING)
if [ "$after" -gt "$before" ] && [ -z "${AUDIT_OK:-}" ]; then echo "SKIP $N: patch removes lines added by earlier fix commits ($before -> $after)"; python3 /verif/tools/audit_fixes.py | tail -6; git checkout -- .; exit 1; fi
if [ $# -gt 0 ]; then
  if ! go test -vet=off -count=1 "$@" >/tmp/fixes/$N.testlog 2>&1; then echo "SKIP $N: tests fail"; grep -E "^(--- FAIL|FAIL|panic)" /tmp/fixes/$N.testlog | head; git checkout -- .; exit 1; fi
fi
git commit -qa -F "/tmp/fixes/$N.msg" && echo "APPLIED $N $(git log --oneline | head -1 | cut -c1-7)"
