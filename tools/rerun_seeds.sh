#!/bin/bash
# usage: tools/rerun_seeds.sh [parallel=3] [name-regex]  -> re-runs every archived seeded change against the current checks
# (scratch copy of /repo + patch, VERIF_REPO run of the property's quick tier); prints one line per seed. Detection-power regression test.
cd "$(dirname "$0")/.."
P=${1:-3}; RX=${2:-.}
one() {
  d=$1; name=$(basename $d); id=${name%-*}
  o=$(jq -r '.caught_by_check // empty' "/verif/$d/meta.json"); [ -n "$o" ] && id=$o   # change written against one property, decided by the check of the property it violates
  S=/tmp/reseed-$name-$$
  rsync -a --exclude .git /repo/ "$S/" || { echo "$name ERROR rsync"; return; }
  if ! (cd "$S" && patch -p1 -s --no-backup-if-mismatch < "/verif/$d/patch.diff" >/dev/null 2>&1); then echo "$name PATCH-DOES-NOT-APPLY (lattigo changed underneath)"; rm -rf "$S"; return; fi
  start=$(date +%s)
  VERIF_REPO="$S" ./check "$id" > "/tmp/reseed-$name.log" 2>&1; rc=$?
  k=$(grep -E "^  prop=" "/tmp/reseed-$name.log" | head -2 | sed 's/^  prop=[^ ]* key=//' | tr '\n' ' ')
  echo "$name exit=$rc wall=$(( $(date +%s)-start ))s $k"
  rm -rf "$S" "/tmp/reseed-$name.log"
}
export -f one
ls -d seeded/*/ | sed 's#/$##' | grep -E "$RX" | xargs -P "$P" -I{} bash -c 'one {}'
