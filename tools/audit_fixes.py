import subprocess,re,sys
commits=subprocess.check_output(['git','-C','/repo','log','--format=%h','e4e1d02..HEAD']).decode().split()
for c in reversed(commits):
    diff=subprocess.check_output(['git','-C','/repo','show','--format=','--unified=0',c]).decode(errors='replace')
    f=None; missing=[]
    for line in diff.splitlines():
        if line.startswith('+++ b/'): f=line[6:]; 
        elif line.startswith('+') and not line.startswith('+++'):
            t=line[1:].strip()
            if len(t)<25 or t.startswith('//'): continue
            try: cur=open('/repo/'+f).read()
            except: continue
            if t not in cur: missing.append((f,t[:90]))
    if missing:
        print(c, subprocess.check_output(['git','-C','/repo','log','-1','--format=%s',c]).decode().strip()[:70])
        for m in missing[:4]: print('    MISSING', m)
