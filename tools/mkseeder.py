#!/usr/bin/env python3
import json,sys,subprocess,os
pid, n, flavour = sys.argv[1], sys.argv[2], sys.argv[3]
p=[json.loads(l) for l in open('/verif/properties.jsonl') if json.loads(l)['id']==pid][0]
wt=f"/tmp/seedwt-{pid}-{n}"; out=f"/tmp/seedout/{pid}-{n}"
if not os.path.isdir(wt):
    subprocess.check_call(["git","-C","/repo","worktree","add","--detach",wt,"HEAD"],stdout=subprocess.DEVNULL,stderr=subprocess.DEVNULL)
t=open('/verif/tools/seeder_prompt.txt').read()
for k,v in {"__WT__":wt,"__OUT__":out,"__ID__":pid,"__TITLE__":p['title'],"__STATEMENT__":p['statement'],"__QUANT__":p['quantifier']['text'],"__FILES__":", ".join(p['anchors']['files']),"__FLAVOUR__":flavour}.items():
    t=t.replace(k,v)
os.makedirs('/verif/tools/prompts',exist_ok=True)
f=f"/verif/tools/prompts/seed-{pid}-{n}.txt"
open(f,'w').write(t); print(f)
