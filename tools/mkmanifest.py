#!/usr/bin/env python3
"""Regenerates MANIFEST.json from tools/manifest_meta.json and the set of check packages that exist."""
import json, os
ROOT = os.path.dirname(os.path.dirname(os.path.abspath(__file__)))
meta = json.load(open(os.path.join(ROOT, "tools", "manifest_meta.json")))
props = [json.loads(l) for l in open(os.path.join(ROOT, "properties.jsonl")) if l.strip()]
checks, na = [], []
for p in props:
    pid = p["id"]
    m = meta["checks"].get(pid)
    pm = os.path.join(ROOT, "checks", pid.lower(), "manifest.json")
    if os.path.exists(pm):
        m = json.load(open(pm))
        m["claimed"] = bool(m.get("ready"))
    built = os.path.isdir(os.path.join(ROOT, "checks", pid.lower())) and m and m.get("claimed", True)
    if not built:
        na.append({"property_id": pid, "reason": (m or {}).get("na_reason", "check not built yet in this session (work in progress; see DESIGN.md section 3 for the planned generator/oracle)")})
        continue
    checks.append({
        "property_id": pid,
        "quick_cmd": "./check %s --tier quick" % pid,
        "thorough_cmd": "./check %s --tier thorough" % pid,
        "evidence_file": "/verif/evidence/%s.json" % pid,
        "replay_cmd_template": "./check %s --replay {path}" % pid,
        "engine": "rapid-harness",
        "level_claimed": {"category": "exploration", "text": m["level_text"], "design_ref": m.get("design_ref", "DESIGN.md §3 " + pid)},
        "level_note": m["level_note"],
        "technique": m["technique"],
    })
man = {
    "version": 1,
    "setup_cmd": "./setup.sh",
    "hooks": {
        "guard": "verif",
        "enable": "go test -tags verif (no source hooks exist: lattigo randomness is made deterministic from outside by replacing crypto/rand.Reader in the harness)",
        "baseline_off_cmd": "cd /repo && go test -json -vet=off -count=1 -timeout 25m ./...",
        "source_commits": [],
        "add_only": True,
    },
    "engines": [{"name": "rapid-harness", "path": "/verif/internal/h", "serves_properties": [c["property_id"] for c in checks],
                 "kind_free_text": "property-based testing with pgregory.net/rapid v1.3.0 (stateless + generated operation sequences), cases are plain JSON data, shrunk failures become replay files; native go fuzzing for the byte-level decoder target of C08 (thorough tier)"}],
    "checks": checks,
    "notes": meta.get("notes", ""),
    "not_applicable": na,
}
json.dump(man, open(os.path.join(ROOT, "MANIFEST.json"), "w"), indent=1)
print("checks:", [c["property_id"] for c in checks], "not_applicable:", [n["property_id"] for n in na])
