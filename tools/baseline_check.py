#!/usr/bin/env python3
"""Runs lattigo's own suite (go test -json) on /repo and compares with the pinned stable_pass list in /root/.vp/BASELINE.json."""
import json, subprocess, os, sys
env = dict(os.environ, GOFLAGS="-mod=mod", GOPROXY="off", GOSUMDB="off", GOTOOLCHAIN="local")
base = json.load(open("/root/.vp/BASELINE.json"))
want = set(base["stable_pass"])
p = subprocess.run(["go", "test", "-json", "-vet=off", "-count=1", "-timeout", "25m", "./..."], cwd="/repo", env=env,
                   capture_output=True, text=True)
res = {}
for line in p.stdout.splitlines():
    try:
        e = json.loads(line)
    except Exception:
        continue
    if e.get("Test") and e.get("Action") in ("pass", "fail", "skip"):
        res[e["Package"] + "::" + e["Test"]] = e["Action"]
missing = sorted(t for t in want if res.get(t) != "pass")
failed = sorted(t for t, a in res.items() if a == "fail")
print(f"go test exit={p.returncode} tests seen={len(res)} pinned={len(want)} pinned-not-passing={len(missing)} failed={len(failed)}")
for t in missing[:20]:
    print("  NOT PASSING:", t, res.get(t))
for t in failed[:20]:
    print("  FAILED:", t)
sys.exit(0 if not missing and not failed and p.returncode == 0 else 1)
