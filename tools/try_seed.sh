#!/bin/bash
# usage: try_seed.sh <dir-with-patch.diff> <ID> [extra ./check args]   -> runs the check against a scratch copy of /repo + patch
D=$(realpath "$1"); ID=$2; shift 2
S=/tmp/tryseed-$(basename "$D")-$$
rsync -a --exclude .git /repo/ "$S/" || exit 2
if ! (cd "$S" && patch -p1 -s < "$D/patch.diff"); then echo "TRYSEED $(basename $D): patch does not apply"; rm -rf "$S"; exit 2; fi
cd /verif
start=$(date +%s)
VERIF_REPO="$S" ./check "$ID" "$@" > "/tmp/tryseed-$(basename $D)-$ID.log" 2>&1
rc=$?
echo "TRYSEED $(basename $D) on $ID: exit=$rc wall=$(( $(date +%s) - start ))s"
grep -E "^VIOLATION|^  prop=|^INCONCLUSIVE" "/tmp/tryseed-$(basename $D)-$ID.log" | head -8
rm -rf "$S"
