#!/bin/bash
# usage: confirm_seed.sh <seeded-dir> <demo-dest-pkg-dir relative to repo> [demo-run-regex]
# Confirms in a scratch worktree: patch applies, builds, demo FAILS with it, full suite PASSES with it, demo PASSES without it.
set -u
export GOFLAGS=-mod=mod GOPROXY=off GOSUMDB=off GOTOOLCHAIN=local
SD=$(realpath "$1"); DEST=$2; RX=${3:-.}
WT=/tmp/confirm-$(basename "$SD")-$$
git -C /repo worktree add --detach "$WT" HEAD >/dev/null 2>&1 || { echo "worktree failed"; exit 2; }
cleanup() { git -C /repo worktree remove --force "$WT" >/dev/null 2>&1; }
trap cleanup EXIT
cd "$WT"
git apply "$SD/patch.diff" 2>/dev/null || patch -p1 -s < "$SD/patch.diff" || { echo "RESULT patch does not apply"; exit 1; }
mkdir -p "$DEST"
go build ./... || { echo "RESULT does not build"; exit 1; }
demo=$(ls "$SD"/demo*_test.go 2>/dev/null | head -1)
cp "$demo" "$DEST/zz_seed_demo_test.go"
if go test -vet=off -count=1 -run "$RX" "./$DEST/" >/tmp/confirm-$$.log 2>&1; then echo "RESULT demo does NOT fail with the change"; tail -5 /tmp/confirm-$$.log; rm -f /tmp/confirm-$$.log; exit 1; fi
echo "demo fails with change: $(grep -m1 -E -- '--- FAIL|FAIL' /tmp/confirm-$$.log)"
rm "$DEST/zz_seed_demo_test.go"
if ! go test -vet=off -count=1 -timeout 25m ./... >/tmp/confirm-$$.log 2>&1; then echo "RESULT existing suite FAILS with the change"; grep -E "^(FAIL|--- FAIL)" /tmp/confirm-$$.log | head; rm -f /tmp/confirm-$$.log; exit 1; fi
echo "suite passes with change"
git checkout -- . 
mkdir -p "$DEST"
cp "$demo" "$DEST/zz_seed_demo_test.go"
if ! go test -vet=off -count=1 -run "$RX" "./$DEST/" >/tmp/confirm-$$.log 2>&1; then echo "RESULT demo fails WITHOUT the change"; tail -5 /tmp/confirm-$$.log; rm -f /tmp/confirm-$$.log; exit 1; fi
rm -f /tmp/confirm-$$.log
echo "RESULT confirmed"
