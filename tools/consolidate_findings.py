#!/usr/bin/env python3
"""Merge known_findings.d/*.json into known_findings.json (the single committed known-findings file)."""
import json, glob, os, sys
ROOT = os.path.dirname(os.path.dirname(os.path.abspath(__file__)))
main = json.load(open(os.path.join(ROOT, "known_findings.json")))
by_key = {(f["property"], f["key"]): f for f in main["findings"]}
for path in sorted(glob.glob(os.path.join(ROOT, "known_findings.d", "*.json"))):
    for f in json.load(open(path)).get("findings", []):
        by_key[(f["property"], f["key"])] = f
out = []
for (pid, key), f in sorted(by_key.items()):
    e = {"property": pid, "key": key, "status": f["status"]}
    if f.get("commit"):
        e["commit"] = f["commit"]
    what = f.get("what", "")
    if f["status"] == "fixed":
        if not what.startswith("fixed:"):
            what = "fixed: property=%s %s %s" % (pid, f.get("commit", "?"), what)
    e["what"] = what
    for k in ("replay", "patch", "note"):
        if f.get(k):
            e[k] = f[k]
    out.append(e)
json.dump({"findings": out}, open(os.path.join(ROOT, "known_findings.json"), "w"), indent=1)
known = [e for e in out if e["status"] == "known"]
fixed = [e for e in out if e["status"] == "fixed"]
pend = [e for e in fixed if e.get("commit") in (None, "", "PENDING")]
print("total", len(out), "known", len(known), "fixed", len(fixed), "pending-commit", len(pend))
for e in known: print("  KNOWN", e["property"], e["key"])
for e in pend: print("  PENDING", e["property"], e["key"])
if "--remove-d" in sys.argv:
    for path in glob.glob(os.path.join(ROOT, "known_findings.d", "*.json")):
        os.remove(path)
