package c12

import (
	"fmt"
	"math"
	"math/bits"
	"sort"
	"strings"
	"sync"
	"testing"

	"verif/internal/h"

	"github.com/tuneinsight/lattigo/v6/circuits/common/lintrans"
	"github.com/tuneinsight/lattigo/v6/core/rlwe"
	"github.com/tuneinsight/lattigo/v6/ring"
	"pgregory.net/rapid"
)

func TestMain(m *testing.M) { h.Main(m, "C12") }

func TestReplay(t *testing.T) { h.ReplayAll(t) }

// LT is the plain-data description of one linear transformation: the set of non-zero diagonals (indices in
// (-n, n), distinct residues modulo n), how their entries are filled, the BSGS ratio, the encoding level and scale.
type LT struct {
	Diags []int  `json:"diags"`          // diagonal indices as handed to lattigo (may be negative)
	Ent   string `json:"ent"`            // "rand" | "ones" | "sparse"
	Seed  uint64 `json:"seed"`           // expands to the diagonal entries
	Ratio int    `json:"ratio"`          // LogBabyStepGiantStepRatio (-1: naive algorithm)
	LevQ  int    `json:"levelQ"`         // encoding level
	Scale uint64 `json:"scale"`          // bgv: plaintext scale in [1,t-1]; ckks: 0 => scale = Q[output level], else 2^Scale
	Perm  []PM   `json:"perm,omitempty"` // if set the diagonals come from Permutation.GetDiagonals (Diags holds the expected residues)
}

// PM is one entry of a (partial) permutation: out[To] = Scaling * in[From] (row-local indices).
type PM struct {
	Row  int    `json:"row,omitempty"`
	From int    `json:"from"`
	To   int    `json:"to"`
	Seed uint64 `json:"s"` // expands to the scaling value
}

// modes of evaluation
var modes = []string{"eval", "evalInPlace", "evalNew", "many", "manyNew", "seq", "seqNew", "seqInPlace", "manyLastInPlace"}

// receiver kinds of the modes that take a caller-provided receiver (eval, many, seq): fresh zero ciphertext at or above
// the output level; fresh below the output level; the output of the previous round of the case (an object with a
// history); a degree-2 ciphertext full of data at or above the output level.
var recvKinds = []string{"", "", "low", "prev", "deg2"}

func inPlace(m string) bool { return strings.HasSuffix(m, "InPlace") }

func isSeq(m string) bool  { return strings.HasPrefix(m, "seq") }
func isMany(m string) bool { return strings.HasPrefix(m, "many") }

// genDiagSet draws a set of diagonal indices in (-n, n) with pairwise distinct residues modulo n.
func genDiagSet(t *rapid.T, n int, label string) (idx []int, class string) {
	kind := rapid.IntRange(0, 19).Draw(t, label+"_setkind") % 11 // 10: the empty set (all-zero matrix), rare
	signed := func(r int, neg bool) int {
		if neg && r != 0 {
			return r - n
		}
		return r
	}
	switch kind {
	case 10:
		if rapid.IntRange(0, 1).Draw(t, label+"_empty") == 0 {
			return []int{}, "empty"
		}
		return []int{0}, "zero"
	case 0:
		return []int{0}, "zero"
	case 1:
		r := rapid.IntRange(0, n-1).Draw(t, label+"_single")
		return []int{signed(r, rapid.Bool().Draw(t, label+"_neg"))}, "singleton"
	case 2:
		// dense: every diagonal, random representation
		negmask := rapid.Uint64().Draw(t, label+"_negmask")
		for r := 0; r < n; r++ {
			idx = append(idx, signed(r, negmask>>(uint(r)%64)&1 == 1))
		}
		return idx, "dense"
	case 3:
		// only negative indices
		rs := rapid.SliceOfNDistinct(rapid.IntRange(1, n-1), 1, minInt(n-1, 12), rapid.ID[int]).Draw(t, label+"_neg")
		for _, r := range rs {
			idx = append(idx, r-n)
		}
		return idx, "neg"
	case 4:
		// only positive indices >= n/2
		lo := n / 2
		if lo < 1 {
			lo = 1
		}
		rs := rapid.SliceOfNDistinct(rapid.IntRange(lo, n-1), 1, minInt(n-lo, 12), rapid.ID[int]).Draw(t, label+"_hi")
		return rs, "high"
	case 5:
		// the list used by lattigo's own tests (needs n >= 32 for distinct residues)
		if n >= 32 {
			return []int{-15, -4, -1, 0, 1, 2, 3, 4, 15}, "repo"
		}
		fallthrough
	default:
		maxn := n
		if maxn > 24 && kind != 9 {
			maxn = 24
		}
		rs := rapid.SliceOfNDistinct(rapid.IntRange(0, n-1), 1, maxn, rapid.ID[int]).Draw(t, label+"_res")
		negmask := rapid.Uint64().Draw(t, label+"_negmask")
		for i, r := range rs {
			idx = append(idx, signed(r, negmask>>(uint(i)%64)&1 == 1))
		}
		return idx, "random"
	}
}

func minInt(a, b int) int {
	if a < b {
		return a
	}
	return b
}

func maxInt(a, b int) int {
	if a > b {
		return a
	}
	return b
}

func genRatio(t *rapid.T, label string) int {
	switch rapid.IntRange(0, 7).Draw(t, label+"_ratiokind") {
	case 0:
		return 1
	case 1, 2:
		return -1
	case 3:
		return 0
	case 4:
		return 2
	case 5:
		return 3
	default:
		return rapid.IntRange(-1, 5).Draw(t, label+"_ratio")
	}
}

func genEnt(t *rapid.T, label string) string {
	return []string{"rand", "rand", "ones", "sparse"}[rapid.IntRange(0, 3).Draw(t, label+"_ent")]
}

// biasedLevel draws a level in [lo, max] biased to max.
func biasedLevel(t *rapid.T, lo, max int, label string) int {
	if lo >= max {
		return max
	}
	if rapid.IntRange(0, 2).Draw(t, label+"_top") == 0 {
		return max
	}
	return rapid.IntRange(lo, max).Draw(t, label)
}

// residues normalises a diagonal list modulo n.
func residues(d []int, n int) []int {
	out := make([]int, len(d))
	for i, k := range d {
		out[i] = ((k % n) + n) % n
	}
	sort.Ints(out)
	return out
}

// validDiagSet checks the input-domain rule of the property (indices in (-n,n), distinct residues; the empty set is the
// all-zero matrix).
func validDiagSet(d []int, n int) bool {
	seen := map[int]bool{}
	for _, k := range d {
		if k <= -n || k >= n {
			return false
		}
		r := ((k % n) + n) % n
		if seen[r] {
			return false
		}
		seen[r] = true
	}
	return true
}

// setClass describes the index set for the non-trivial rule.
func setClass(d []int, n int) (hasNeg, hasHigh bool) {
	for _, k := range d {
		if k < 0 {
			hasNeg = true
		}
		if k >= n/2 && k > 0 {
			hasHigh = true
		}
	}
	return
}

func sizeClass(k, n int) string {
	switch {
	case k == 0:
		return "0"
	case k == 1:
		return "1"
	case k == n:
		return "all"
	case k <= 4:
		return "2-4"
	case k <= 16:
		return "5-16"
	default:
		return ">16"
	}
}

// recKeySet is an evaluation-key set holding exactly the advertised Galois keys and recording every lookup.
type recKeySet struct {
	mu      sync.Mutex
	inner   *rlwe.MemEvaluationKeySet
	asked   map[uint64]bool
	missing map[uint64]bool
}

func newRecKeySet(keys []*rlwe.GaloisKey) *recKeySet {
	return &recKeySet{inner: rlwe.NewMemEvaluationKeySet(nil, keys...), asked: map[uint64]bool{}, missing: map[uint64]bool{}}
}

func (r *recKeySet) GetGaloisKey(galEl uint64) (*rlwe.GaloisKey, error) {
	r.mu.Lock()
	defer r.mu.Unlock()
	r.asked[galEl] = true
	k, err := r.inner.GetGaloisKey(galEl)
	if err != nil {
		r.missing[galEl] = true
	}
	return k, err
}
func (r *recKeySet) GetGaloisKeysList() []uint64 { return r.inner.GetGaloisKeysList() }
func (r *recKeySet) GetRelinearizationKey() (*rlwe.RelinearizationKey, error) {
	return r.inner.GetRelinearizationKey()
}
func (r *recKeySet) ShallowCopy() rlwe.EvaluationKeySet { return r }

func (r *recKeySet) missingList() []uint64 {
	var out []uint64
	for g := range r.missing {
		out = append(out, g)
	}
	sort.Slice(out, func(i, j int) bool { return out[i] < out[j] })
	return out
}

func dedupU64(a []uint64) []uint64 {
	seen := map[uint64]bool{}
	var out []uint64
	for _, x := range a {
		if !seen[x] {
			seen[x] = true
			out = append(out, x)
		}
	}
	sort.Slice(out, func(i, j int) bool { return out[i] < out[j] })
	return out
}

// ksNoiseBound is a hard (probability-1) bound on the infinity norm of the additive key-switching and rounding
// error polynomial of ONE linear transformation (either algorithm), before the plaintext scaling of the scheme:
//
//	nd diagonals, ring degree N, plaintext-diagonal coefficient bound dmax, error bound be, #Q primes used for the
//	hoisted decomposition nq, alpha = levelP+1, qd = largest digit modulus (product of alpha consecutive Q primes), P =
//	product of the P primes used.
//
// Every rotated copy of the input carries E = sum_digits digit*e with |digit| < (alpha+1)*qd (approximate basis
// extension adds at most alpha multiples of qd); it is multiplied by a diagonal (N*dmax) and
// divided by P; each giant step adds one more key switch (E/P) plus the rounding of the hoisted ModDown times the
// secret (N*(alpha+1)); the final ModDown adds (alpha+1)*(N+1).
func ksNoiseBound(nd, N int, dmax, be float64, nq, alpha int, logqd float64, logP float64) float64 {
	beta := math.Ceil(float64(nq) / float64(alpha))
	eb := beta * float64(N) * float64(alpha+1) * be * math.Exp2(logqd-logP)
	fnd := float64(nd)
	return fnd*(float64(N)*dmax+1)*eb + (fnd+1)*float64(N+1)*float64(alpha+1)
}

// ksNoiseEnvelope bounds the same quantity with failure probability < 2^-70 per coefficient, using only the
// independence and sub-gaussianity (proxy sigma^2) of the error coefficients of the Galois keys, which are sampled
// independently of the ciphertext: a coefficient of sum_{keys,digits} (G*digit)*e is a linear form in the e's with
// weights of 2-norm ||G*digit||_2 <= max_root|G| * ||digit||_2 <= m*dslot * sqrt(N)*(alpha+1)*qd, where G is the sum of
// the m (<= nd) plaintext diagonals that share a key and dslot bounds their values at the roots of X^N+1 (the slots).
// No assumption on the digits or on the plaintext is made. k = 10 standard deviations: 2*exp(-50) < 2^-70.
func ksNoiseEnvelope(nd, N int, dslot, sigma float64, nq, alpha int, logqd float64, logP float64) float64 {
	const k = 10
	beta := math.Ceil(float64(nq) / float64(alpha))
	a := float64(alpha+1) * math.Exp2(logqd-logP)
	fnd := float64(nd)
	return k*sigma*math.Sqrt(beta*float64(N))*a*fnd*(dslot+1) + (fnd+1)*float64(N+1)*float64(alpha+1)
}

func log2u(x uint64) float64 { return math.Log2(float64(x)) }

func sumLog2(q []uint64) float64 {
	s := 0.0
	for _, x := range q {
		s += log2u(x)
	}
	return s
}

func maxU64(q []uint64) uint64 {
	var m uint64
	for _, x := range q {
		if x > m {
			m = x
		}
	}
	return m
}

func mulmod(a, b, q uint64) uint64 {
	hi, lo := bits.Mul64(a%q, b%q)
	_, r := bits.Div64(hi, lo, q)
	return r
}

func powmod(a, e, q uint64) uint64 {
	r := uint64(1) % q
	a %= q
	for e > 0 {
		if e&1 == 1 {
			r = mulmod(r, a, q)
		}
		a = mulmod(a, a, q)
		e >>= 1
	}
	return r
}

func ltDescriptor(lts []LT, n int, maxLevel int) string {
	var sb strings.Builder
	for i, lt := range lts {
		neg, high := setClass(lt.Diags, n)
		if i > 0 {
			sb.WriteString("+")
		}
		fmt.Fprintf(&sb, "%s/neg=%v/high=%v/r=%d/ent=%s/lvl<max=%v/perm=%v", sizeClass(len(lt.Diags), n), neg, high, lt.Ratio, lt.Ent, lt.LevQ < maxLevel, lt.Perm != nil)
	}
	return sb.String()
}

// keyPBuffer: the evaluator keeps the P-part of its accumulator in BuffQP[5].Q / BuffQP[5].P, i.e. in polynomials
// allocated with the number of limbs of Q; when the parameters have fewer Q primes than P primes in use the code indexes
// out of range.
const keyPBuffer = "C12:MultiplyByDiagMatrix:P-accumulator-in-Q-sized-buffer:#Q<#P:index-out-of-range"

// guardPBuffer runs f; a runtime panic raised while len(Q) < levelP+1 is returned as a message (specific finding), any
// other panic is passed on to the harness.
func guardPBuffer(nQ, levelP int, f func()) (msg string) {
	defer func() {
		if r := recover(); r != nil {
			if nQ < levelP+1 {
				msg = fmt.Sprintf("panic with #Q=%d < #P in use=%d: %v", nQ, levelP+1, r)
				return
			}
			panic(r)
		}
	}()
	f()
	return ""
}

// keyDiag0: MultiplyByDiagMatrix (naive algorithm, LogBabyStepGiantStepRatio < 0) with the main diagonal as only
// non-zero diagonal never initialises its QP accumulator (the loop over the rotated diagonals is empty) but still
// reduces and ModDowns it, then adds ct*diag on top: the result contains whatever the receiver and BuffQP[5] held.
const keyDiag0 = "C12:MultiplyByDiagMatrix:only-diagonal-0:uninitialised-accumulator"

func hasOnlyDiag0Naive(lts []LT, n int) bool {
	for _, l := range lts {
		if l.Ratio < 0 && len(l.Diags) == 1 && residues(l.Diags, n)[0] == 0 {
			return true
		}
	}
	return false
}

// keyManyClobber: EvaluateMany decomposes ctIn once into the evaluator's own BuffDecompQP and reuses it for every
// transformation, but the giant steps of MultiplyByDiagMatrixBSGS call GadgetProductLazy, which uses BuffDecompQP[0]
// as scratch space. Every transformation evaluated after one with a giant step reads a corrupted first digit.
const keyManyClobber = "C12:EvaluateMany:hoisted-decomposition-clobbered-by-giant-step"

// clobberedFrom returns the index of the first transformation of an EvaluateMany call that is evaluated after a
// BSGS transformation with a giant step (a diagonal residue >= N1), len(lts) if there is none. n1 holds the N1
// values lattigo chose (attribution of a failure only, not part of the oracle).
func clobberedFrom(n1 []int, lts []LT, n int) int {
	for k := range lts {
		if n1[k] > 0 {
			for _, r := range residues(lts[k].Diags, n) {
				if r >= n1[k] {
					return k + 1
				}
			}
		}
	}
	return len(lts)
}

// maxDigitLog2 returns log2 of the largest digit modulus of the RNS gadget decomposition of Q[0..] with alpha primes per digit.
func maxDigitLog2(Q []uint64, alpha int) float64 {
	best := 0.0
	for i := 0; i < len(Q); i += alpha {
		j := minInt(i+alpha, len(Q))
		if s := sumLog2(Q[i:j]); s > best {
			best = s
		}
	}
	return best
}

// keyCI61 (historical, fixed by lattigo commit f32bb8f): in the conjugate-invariant ring of degree >= 128 a 61-bit Q
// prime made plain key switching / rotation return garbage (conjugate-invariant NTTLazy exceeded its documented range for
// odd log2(N)). The replay replays/C12/ci-ring-61bit-q-rotation-wrong.json must pass; no failure is attributed to this
// key any more.
const keyCI61 = "C12:ckks:conjugate-invariant:61-bit-Q:core-key-switch-wrong"

var _ = keyCI61

// denseSet returns all n diagonals with a random sign representation.
func denseSet(t *rapid.T, n int, label string) []int {
	negmask := rapid.Uint64().Draw(t, label+"_negmask")
	idx := make([]int, n)
	for r := 0; r < n; r++ {
		idx[r] = r
		if r != 0 && negmask>>(uint(r)%64)&1 == 1 {
			idx[r] = r - n
		}
	}
	return idx
}

// keyEmpty: a transformation without any non-zero diagonal (the zero matrix, e.g. the diagonals of an empty permutation)
// must give an encryption of zero or an error; the naive algorithm indexes keys[0] of an empty list (panic) and the BSGS
// algorithm ModDowns an accumulator it never wrote.
const keyEmpty = "C12:lintrans:empty-diagonal-set:panic-or-garbage"

// keyNoP: without auxiliary primes in use (parameters without P, or LevelP = -1 for keys and transformation) the
// evaluation must work or return an error; it dereferences the nil P ring / indexes ModulusAtLevel[-1] instead.
const keyNoP = "C12:lintrans:LevelP=-1:panic-instead-of-error"

func hasEmptySet(lts []LT) bool {
	for _, l := range lts {
		if l.Perm == nil && len(l.Diags) == 0 {
			return true
		}
	}
	return false
}

// guard runs f; if it panics and keyFor() names a specific finding class for this case, the panic is returned as
// (key, message); any other panic is passed on to the harness.
func guard(keyFor func() string, f func()) (key, msg string) {
	defer func() {
		if r := recover(); r != nil {
			if k := keyFor(); k != "" {
				key, msg = k, fmt.Sprintf("panic: %v", r)
				return
			}
			panic(r)
		}
	}()
	f()
	return "", ""
}

// snapshots ---------------------------------------------------------------------------------------------------------

func fnvU64(hh uint64, v []uint64) uint64 {
	for _, x := range v {
		hh ^= x
		hh *= 0x100000001b3
	}
	return hh
}

func hashPoly(hh uint64, p ring.Poly) uint64 {
	for _, c := range p.Coeffs {
		hh = fnvU64(hh^uint64(len(c)), c)
	}
	return hh
}

// hashCt covers the polynomials, the level/degree and the scale of a ciphertext.
func hashCt(ct *rlwe.Ciphertext) uint64 {
	hh := uint64(0xcbf29ce484222325) ^ uint64(len(ct.Value))
	for _, v := range ct.Value {
		hh = hashPoly(hh, v)
	}
	f, _ := ct.Scale.Value.Float64()
	return fnvU64(hh, []uint64{math.Float64bits(f), uint64(ct.LogDimensions.Cols), uint64(ct.LogDimensions.Rows)})
}

// hashLT covers the encoded diagonals and the public fields of a linear transformation.
func hashLT(lt lintrans.LinearTransformation) uint64 {
	hh := uint64(0xcbf29ce484222325)
	keys := make([]int, 0, len(lt.Vec))
	for k := range lt.Vec {
		keys = append(keys, k)
	}
	sort.Ints(keys)
	for _, k := range keys {
		hh = fnvU64(hh, []uint64{uint64(k)})
		hh = hashPoly(hh, lt.Vec[k].Q)
		hh = hashPoly(hh, lt.Vec[k].P)
	}
	f, _ := lt.Scale.Value.Float64()
	return fnvU64(hh, []uint64{math.Float64bits(f), uint64(lt.N1), uint64(lt.LevelQ), uint64(lt.LevelP + 1), uint64(lt.LogBabyStepGiantStepRatio + 64)})
}

func hashKeys(keys []*rlwe.GaloisKey) uint64 {
	hh := uint64(0xcbf29ce484222325)
	for _, k := range keys {
		hh = fnvU64(hh, []uint64{k.GaloisElement, k.NthRoot})
		for _, row := range k.Value {
			for _, el := range row {
				for _, p := range el {
					hh = hashPoly(hh, p.Q)
					hh = hashPoly(hh, p.P)
				}
			}
		}
	}
	return hh
}
