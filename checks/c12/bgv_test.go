package c12

import (
	"fmt"
	"math"
	"math/bits"
	"strings"
	"testing"

	"verif/internal/h"

	bgvlt "github.com/tuneinsight/lattigo/v6/circuits/bgv/lintrans"
	"github.com/tuneinsight/lattigo/v6/circuits/common/lintrans"
	"github.com/tuneinsight/lattigo/v6/core/rlwe"
	"github.com/tuneinsight/lattigo/v6/schemes/bgv"
	"pgregory.net/rapid"
)

// BGVRound is one evaluation: an input ciphertext, 1-3 transformations, a mode and a receiver kind. Keys are generated per
// round for exactly the elements advertised for the round; all rounds of a case share the secret key and the evaluator
// buffers (evaluator re-used with transformations of different shapes), and a round may use the outputs of the previous
// round as receivers.
type BGVRound struct {
	LevelP   int    `json:"levelP"` // -1: no auxiliary prime in use
	CtLevel  int    `json:"ctLevel"`
	CtScale  uint64 `json:"ctScale"`
	Signed   bool   `json:"signed,omitempty"` // diagonals handed over as []int64 (centred) instead of []uint64
	LTs      []LT   `json:"lts"`
	Mode     string `json:"mode"`
	OutExtra int    `json:"outExtra,omitempty"` // receiver allocated this many levels above (recv "low": below) the expected output level
	Recv     string `json:"recv,omitempty"`     // receiver kind, see recvKinds
	GalSrc   string `json:"galSrc"`             // "lt": LinearTransformation.GaloisElements, "func": lintrans.GaloisElements
	Seed     uint64 `json:"seed"`
}

// BGVCase is one generated scenario for the integer scheme: parameters, a first round (inline fields) and further rounds.
type BGVCase struct {
	P h.BGVSpec `json:"params"`
	BGVRound
	BFV  bool       `json:"bfv,omitempty"`  // scale-invariant (BFV-style) evaluator: Rescale is documented as a nop
	Warm bool       `json:"warm,omitempty"` // the evaluator (shared buffers) has been used before
	More []BGVRound `json:"more,omitempty"`
}

func (c BGVCase) RandSeed() uint64 { return c.Seed }

// ringTLogN mirrors bgv.NewParameters: the plaintext ring has degree min(N, order/2), order = largest power of two
// with t = 1 mod order.
func ringTLogN(t uint64, logN int) int {
	tz := bits.TrailingZeros64(t - 1) // t = 1 mod 2^tz
	l := tz - 1
	if l > logN {
		l = logN
	}
	return l
}

func genBGV(t *rapid.T) BGVCase {
	var c BGVCase
	maxLogN := 6
	if h.Thorough() {
		maxLogN = 8
	}
	logN := rapid.IntRange(4, maxLogN).Draw(t, "logN")
	if rapid.IntRange(0, 7).Draw(t, "logN7") == 0 {
		logN = 7
	}
	// stress flavour (1 in 10): many diagonals per baby-step group with 60/61-bit primes, so that the lazy
	// accumulators of the evaluator run into their overflow margins
	stress := rapid.IntRange(0, 9).Draw(t, "stress") == 0
	if stress {
		logN = maxInt(7, maxLogN)
	}
	nQ := rapid.IntRange(1, 4).Draw(t, "nQ")
	nP := rapid.IntRange(1, 3).Draw(t, "nP")
	m := uint64(2) << logN
	used := map[uint64]bool{}
	qs := h.GenSizes(t, nQ, 36, 60, "q")
	if qs[0] < 45 {
		qs[0] += 15
	}
	ps := h.GenSizes(t, nP, 45, 61, "p")
	if stress {
		qs = h.GenSizes(t, nQ, 60, 61, "qs")
		ps = h.GenSizes(t, nP, 60, 61, "ps")
	}
	Q := h.GenPrimes(t, qs, m, used, "q")
	P := h.GenPrimes(t, ps, m, used, "p")
	// plaintext modulus: t = 1 mod 2^(lt+1) for a plaintext ring of degree 2^lt (sparse packing when lt < logN)
	lt := logN
	if !stress && rapid.IntRange(0, 2).Draw(t, "sparseT") == 0 {
		lt = rapid.IntRange(3, logN).Draw(t, "logNT")
	}
	minb := h.MinPrimeBits(uint64(2) << lt)
	tb := rapid.IntRange(minb, 20).Draw(t, "tbits")
	if rapid.IntRange(0, 3).Draw(t, "tsmall") == 0 {
		tb = minb
	}
	T := h.GenPlainModulus(t, lt, tb, used)
	c.P = h.BGVSpec{RLWESpec: h.RLWESpec{LogN: logN, Q: Q, P: P, Xs: h.DefaultXs, Xe: h.DefaultXe, NTT: true}, T: T}
	n := 1 << (ringTLogN(T, logN) - 1) // columns per row

	c.BFV = rapid.IntRange(0, 3).Draw(t, "bfv") == 0
	c.Warm = rapid.IntRange(0, 3).Draw(t, "warm") != 0
	// one case in twenty-four has no auxiliary prime in use: parameters without P, or LevelP = -1 for keys and transformations
	noP := 0
	if !stress && rapid.IntRange(0, 11).Draw(t, "noP") == 7 {
		noP = 1 + rapid.IntRange(0, 1).Draw(t, "noPkind")
		if noP == 1 {
			c.P.P = nil
			nP = 0
		}
	}
	c.BGVRound = genBGVRound(t, "", nQ, nP, noP != 0, T, n, stress, c.BFV)
	if !stress {
		for i, k := 0, rapid.IntRange(0, 5).Draw(t, "moreRounds"); i < k-3; i++ {
			c.More = append(c.More, genBGVRound(t, fmt.Sprintf("r%d_", i+1), nQ, nP, noP != 0, T, n, false, c.BFV))
		}
	}
	return c
}

func genBGVRound(t *rapid.T, pre string, nQ, nP int, noP bool, T uint64, n int, stress, bfv bool) BGVRound {
	var c BGVRound
	c.LevelP = biasedLevel(t, 0, nP-1, pre+"levelP")
	if noP || nP == 0 {
		c.LevelP = -1
	}
	c.CtLevel = biasedLevel(t, 0, nQ-1, pre+"ctLevel")
	c.CtScale = 1
	if rapid.Bool().Draw(t, pre+"ctScaled") {
		c.CtScale = rapid.Uint64Range(1, T-1).Draw(t, pre+"ctScale")
	}
	c.Signed = rapid.IntRange(0, 3).Draw(t, pre+"signed") == 0
	c.Mode = modes[rapid.IntRange(0, len(modes)-1).Draw(t, pre+"mode")]
	nLT := 1
	if isMany(c.Mode) || isSeq(c.Mode) {
		nLT = rapid.IntRange(1, 3).Draw(t, pre+"nLT")
	}
	if isSeq(c.Mode) && !bfv {
		if c.CtLevel == 0 {
			c.Mode = "evalNew"
			nLT = 1
		} else if nLT > c.CtLevel {
			nLT = c.CtLevel
		}
	}
	for i := 0; i < nLT; i++ {
		lbl := fmt.Sprintf("%slt%d", pre, i)
		var l LT
		if stress {
			l.Diags, l.Ent = denseSet(t, n, lbl), "rand"
		} else if rapid.IntRange(0, 5).Draw(t, lbl+"_perm") == 0 {
			l.Perm, l.Diags = genPerm(t, n, 2, lbl)
			l.Ent = "perm"
		} else {
			l.Diags, _ = genDiagSet(t, n, lbl)
			l.Ent = genEnt(t, lbl)
		}
		l.Seed = rapid.Uint64().Draw(t, lbl+"_seed")
		l.Ratio = genRatio(t, lbl)
		if stress {
			l.Ratio = rapid.IntRange(1, 4).Draw(t, lbl+"_stressRatio")
		}
		lo := 0
		if isSeq(c.Mode) && !bfv {
			lo = nLT - i
		}
		l.LevQ = biasedLevel(t, lo, nQ-1, lbl+"_levelQ")
		l.Scale = 1
		if rapid.Bool().Draw(t, lbl+"_scaled") {
			l.Scale = rapid.Uint64Range(1, T-1).Draw(t, lbl+"_scale")
		}
		c.LTs = append(c.LTs, l)
	}
	c.OutExtra = rapid.IntRange(0, 2).Draw(t, pre+"outExtra")
	c.Recv = recvKinds[rapid.IntRange(0, len(recvKinds)-1).Draw(t, pre+"recv")]
	if pre != "" && rapid.Bool().Draw(t, pre+"recvPrev") {
		c.Recv = "prev" // later rounds: half of the receivers are outputs of the previous round
	}
	c.GalSrc = []string{"lt", "func"}[rapid.IntRange(0, 1).Draw(t, pre+"galSrc")]
	c.Seed = rapid.Uint64().Draw(t, pre+"seed")
	return c
}

// genPerm draws a partial permutation per row and returns it with the residues of the diagonals it occupies.
func genPerm(t *rapid.T, n, rows int, label string) ([]PM, []int) {
	var pms []PM
	seen := map[int]bool{}
	var diags []int
	base := make([]int, n)
	for i := range base {
		base[i] = i
	}
	for r := 0; r < rows; r++ {
		to := rapid.Permutation(base).Draw(t, fmt.Sprintf("%s_perm%d", label, r))
		from := rapid.Permutation(base).Draw(t, fmt.Sprintf("%s_from%d", label, r))
		cnt := rapid.IntRange(0, n).Draw(t, fmt.Sprintf("%s_cnt%d", label, r))
		if r == rows-1 && len(pms) == 0 && cnt == 0 {
			cnt = 1
		}
		for j := 0; j < cnt; j++ {
			pm := PM{Row: r, From: from[j], To: to[j], Seed: rapid.Uint64().Draw(t, fmt.Sprintf("%s_s%d_%d", label, r, j))}
			pms = append(pms, pm)
			d := ((pm.From-pm.To)%n + n) % n
			if !seen[d] {
				seen[d] = true
				diags = append(diags, d)
			}
		}
	}
	return pms, diags
}

func (c BGVCase) valid(n int) string {
	if len(c.P.Q) == 0 {
		return "levels"
	}
	for _, r := range append([]BGVRound{c.BGVRound}, c.More...) {
		if why := r.valid(len(c.P.Q), len(c.P.P), c.P.T, n); why != "" {
			return why
		}
	}
	return ""
}

func (c BGVRound) valid(nQ, nP int, T uint64, n int) string {
	if c.LevelP < -1 || c.LevelP >= nP || c.CtLevel < 0 || c.CtLevel >= nQ || len(c.LTs) == 0 {
		return "levels"
	}
	if c.CtScale == 0 || c.CtScale >= T {
		return "ctScale"
	}
	ok := false
	for _, m := range modes {
		ok = ok || m == c.Mode
	}
	if !ok {
		return "mode"
	}
	ok = false
	for _, m := range recvKinds {
		ok = ok || m == c.Recv
	}
	if !ok {
		return "recv"
	}
	if !isMany(c.Mode) && !isSeq(c.Mode) && len(c.LTs) != 1 {
		return "nLT"
	}
	for _, l := range c.LTs {
		if l.LevQ < 0 || l.LevQ >= nQ || l.Scale == 0 || l.Scale >= T {
			return "lt"
		}
		if l.Perm != nil {
			sf, st := map[[2]int]bool{}, map[[2]int]bool{}
			for _, pm := range l.Perm {
				if pm.Row < 0 || pm.Row > 1 || pm.From < 0 || pm.From >= n || pm.To < 0 || pm.To >= n || sf[[2]int{pm.Row, pm.From}] || st[[2]int{pm.Row, pm.To}] {
					return "perm"
				}
				sf[[2]int{pm.Row, pm.From}], st[[2]int{pm.Row, pm.To}] = true, true
			}
			if len(l.Perm) == 0 {
				return "perm"
			}
		} else if !validDiagSet(l.Diags, n) {
			return "diags"
		}
	}
	return ""
}

// bgvDiag expands the entries of diagonal k (2 rows of n).
func bgvDiagEntries(l LT, k, n int, T uint64) []uint64 {
	rng := h.NewSplitMix(l.Seed ^ (uint64(uint32(int32(k))) * 0x9e3779b97f4a7c15))
	out := make([]uint64, 2*n)
	switch l.Ent {
	case "ones":
		for i := range out {
			out[i] = 1
		}
	case "sparse":
		for i := range out {
			if rng.Intn(4) == 0 {
				out[i] = rng.Uint64() % T
			}
		}
		out[rng.Intn(2*n)] = 1 + rng.Uint64()%(T-1)
	default:
		for i := range out {
			out[i] = rng.Uint64() % T
		}
	}
	return out
}

func centred(v []uint64, T uint64) []int64 {
	out := make([]int64, len(v))
	for i, x := range v {
		if x > T/2 {
			out[i] = int64(x) - int64(T)
		} else {
			out[i] = int64(x)
		}
	}
	return out
}

// bgvApply is the plaintext model: y[r][j] = sum_k d_k[r][j] * x[r][(j+k) mod n] mod T, per row.
func bgvApply(diags map[int][]uint64, x []uint64, n int, T uint64) []uint64 {
	y := make([]uint64, 2*n)
	for k, d := range diags {
		kk := ((k % n) + n) % n
		for r := 0; r < 2; r++ {
			for j := 0; j < n; j++ {
				y[r*n+j] = (y[r*n+j] + mulmod(d[r*n+j], x[r*n+(j+kk)%n], T)) % T
			}
		}
	}
	return y
}

func bgvApplyPerm(pms []PM, x []uint64, n int, T uint64) []uint64 {
	y := make([]uint64, 2*n)
	for _, pm := range pms {
		y[pm.Row*n+pm.To] = mulmod(permScaling(pm, T), x[pm.Row*n+pm.From], T)
	}
	return y
}

func permScaling(pm PM, T uint64) uint64 {
	return 1 + h.NewSplitMix(pm.Seed).Uint64()%(T-1)
}

// bgvEnv is what the rounds of a case share: keys, encoder and the evaluator whose buffers every round re-uses.
type bgvEnv struct {
	params bgv.Parameters
	kgen   *rlwe.KeyGenerator
	sk     *rlwe.SecretKey
	enc    *rlwe.Encryptor
	dec    *rlwe.Decryptor
	ecd    *bgv.Encoder
	base   *bgv.Evaluator
	prev   []*rlwe.Ciphertext // outputs of the previous round
}

func runBGV(c BGVCase, rec *h.Rec) error {
	T := c.P.T
	n := 1 << (ringTLogN(T, c.P.LogN) - 1)
	if why := c.valid(n); why != "" {
		rec.Class("invalid-case:" + why)
		return nil
	}
	params, err := c.P.Build()
	if err != nil {
		rec.Class("params-rejected")
		return nil
	}
	if params.MaxSlots() != 2*n {
		return h.Failf("C12:harness:bgv:slots-model", "MaxSlots=%d, harness expects %d", params.MaxSlots(), 2*n)
	}
	env := &bgvEnv{params: params}
	env.kgen = rlwe.NewKeyGenerator(params)
	env.sk = env.kgen.GenSecretKeyNew()
	env.enc = rlwe.NewEncryptor(params, env.sk)
	env.dec = rlwe.NewDecryptor(params, env.sk)
	env.ecd = bgv.NewEncoder(params)
	env.base = bgv.NewEvaluator(params, nil, c.BFV)
	if c.Warm && len(c.P.P) > 0 {
		// the evaluator has a history: its shared buffers are not zero (as in any real program)
		wk := rlwe.NewMemEvaluationKeySet(nil, env.kgen.GenGaloisKeyNew(params.GaloisElement(1), env.sk))
		wpt := bgv.NewPlaintext(params, params.MaxLevel())
		wct, _ := env.enc.EncryptNew(wpt)
		if _, err := env.base.WithKey(wk).RotateColumnsNew(wct, 1); err != nil {
			return h.Failf("C12:harness:bgv:warmup", "%v", err)
		}
	}
	rounds := append([]BGVRound{c.BGVRound}, c.More...)
	rec.Classf("rounds=%d", len(rounds))
	desc, nontrivial := "", len(rounds) > 1
	for ri, r := range rounds {
		cc := c
		cc.BGVRound = r
		d, nt, stop, err := runBGVRound(cc, ri, env, rec)
		if err != nil || stop {
			return err
		}
		if ri == 0 {
			desc = d
		}
		nontrivial = nontrivial || nt
	}
	if nontrivial && desc != "" {
		rec.NonTrivial(fmt.Sprintf("%s/rounds=%d", desc, len(rounds)))
	}
	return nil
}

// runBGVRound evaluates and checks one round. It returns the descriptor of the round ("" if a comparison was not
// discriminating), whether the round is non-trivial by the rule, and stop=true when the case ends early without a failure
// (listed finding, accepted error).
func runBGVRound(c BGVCase, ri int, env *bgvEnv, rec *h.Rec) (desc string, nontrivial, stop bool, err error) {
	T := c.P.T
	n := 1 << (ringTLogN(T, c.P.LogN) - 1)
	params := env.params
	kgen, sk, enc, dec, ecd := env.kgen, env.sk, env.enc, env.dec, env.ecd
	N := params.N()
	maxLevel := params.MaxLevel()
	tag := "C12:bgv:" + c.Mode
	noP := c.LevelP < 0
	empty := hasEmptySet(c.LTs)
	// a panic is a listed/specific finding only in these classes; anything else goes to the harness as panic@site
	panicKey := func() string {
		switch {
		case noP:
			return keyNoP
		case empty:
			return keyEmpty
		case len(c.P.Q) < c.LevelP+1:
			return keyPBuffer
		}
		return ""
	}
	finding := func(key, msg string) (string, bool, bool, error) {
		if rec.Known(key, msg) {
			rec.Class("known=" + key)
			return "", false, true, nil
		}
		return "", false, true, h.Failf(key, "%s", msg)
	}

	// input vector
	rng := h.NewSplitMix(c.Seed)
	x := make([]uint64, 2*n)
	for i := range x {
		x[i] = rng.Uint64() % T
	}
	pt := bgv.NewPlaintext(params, c.CtLevel)
	pt.Scale = params.NewScale(c.CtScale)
	if err := ecd.Encode(x, pt); err != nil {
		return "", false, true, h.Failf(tag+":encode-input", "%v", err)
	}
	ct, err := enc.EncryptNew(pt)
	if err != nil {
		return "", false, true, h.Failf(tag+":encrypt-input", "%v", err)
	}

	// transformations and keys (inside the guard: without P or with an empty set already the construction may panic)
	lts := make([]bgvlt.LinearTransformation, len(c.LTs))
	models := make([]func([]uint64) []uint64, len(c.LTs))
	var galEls []uint64
	var keys []*rlwe.GaloisKey
	var setupErr error
	build := func() (string, bool, bool, error) {
		for i, l := range c.LTs {
			var idxList []int
			dmodel := map[int][]uint64{}
			var diagonals interface{}
			if l.Perm != nil {
				var perm bgvlt.Permutation[uint64]
				for _, pm := range l.Perm {
					perm[pm.Row] = append(perm[pm.Row], bgvlt.PermutationMapping[uint64]{From: pm.From, To: pm.To, Scaling: permScaling(pm, T)})
				}
				d := perm.GetDiagonals(params.LogMaxSlots())
				// the diagonals of a permutation: entry [To] of diagonal (From-To) mod n carries the scaling, everything else is zero
				want := map[int][]uint64{}
				for _, pm := range l.Perm {
					k := ((pm.From-pm.To)%n + n) % n
					if want[k] == nil {
						want[k] = make([]uint64, 2*n)
					}
					want[k][pm.Row*n+pm.To] = permScaling(pm, T)
				}
				if len(d) != len(want) {
					return "", false, true, h.Failf("C12:bgv:Permutation.GetDiagonals:index-set", "got %d diagonals, want %d", len(d), len(want))
				}
				for k, w := range want {
					g, ok := d[k]
					if !ok || len(g) != len(w) {
						return "", false, true, h.Failf("C12:bgv:Permutation.GetDiagonals:index-set", "diagonal %d missing or of length %d (want %d)", k, len(g), len(w))
					}
					for j := range w {
						if g[j] != w[j] {
							return "", false, true, h.Failf("C12:bgv:Permutation.GetDiagonals:entries", "diagonal %d entry %d: got %d want %d", k, j, g[j], w[j])
						}
					}
				}
				for _, k := range residues(l.Diags, n) {
					if _, ok := d[k]; ok {
						idxList = append(idxList, k)
					}
				}
				if len(idxList) != len(d) {
					idxList = bgvlt.Diagonals[uint64](d).DiagonalsIndexList()
				}
				diagonals = d
				pms := l.Perm
				models[i] = func(v []uint64) []uint64 { return bgvApplyPerm(pms, v, n, T) }
			} else {
				idxList = append(idxList, l.Diags...)
				for _, k := range l.Diags {
					dmodel[k] = bgvDiagEntries(l, k, n, T)
				}
				if c.Signed {
					d := bgvlt.Diagonals[int64]{}
					for k, v := range dmodel {
						d[k] = centred(v, T)
					}
					diagonals = d
				} else {
					d := bgvlt.Diagonals[uint64]{}
					for k, v := range dmodel {
						d[k] = append([]uint64(nil), v...)
					}
					diagonals = d
				}
				models[i] = func(v []uint64) []uint64 { return bgvApply(dmodel, v, n, T) }
			}
			ltp := bgvlt.Parameters{
				DiagonalsIndexList:        idxList,
				LevelQ:                    l.LevQ,
				LevelP:                    c.LevelP,
				Scale:                     params.NewScale(l.Scale),
				LogDimensions:             params.LogMaxDimensions(),
				LogBabyStepGiantStepRatio: l.Ratio,
			}
			lts[i] = bgvlt.NewLinearTransformation(params, ltp)
			switch d := diagonals.(type) {
			case bgvlt.Diagonals[uint64]:
				err = bgvlt.Encode(ecd, d, lts[i])
			case bgvlt.Diagonals[int64]:
				err = bgvlt.Encode(ecd, d, lts[i])
			}
			if err != nil {
				return "", false, true, h.Failf("C12:bgv:Encode:error", "diags=%v ratio=%d: %v", idxList, l.Ratio, err)
			}
			if c.GalSrc == "func" {
				galEls = append(galEls, lintrans.GaloisElements(params, idxList, n, l.Ratio)...)
			} else {
				galEls = append(galEls, lts[i].GaloisElements(params)...)
			}
		}
		galEls = dedupU64(galEls)
		lp := c.LevelP
		keys = kgen.GenGaloisKeysNew(galEls, sk, rlwe.EvaluationKeyParameters{LevelP: &lp})
		return "", false, false, nil
	}
	var bd string
	var bstop bool
	pk, pmsg := guard(panicKey, func() { bd, _, bstop, setupErr = build() })
	_ = bd
	if pk != "" {
		return finding(pk, fmt.Sprintf("while building the transformations/keys: %s (lts=%s levelP=%d #P=%d)", pmsg, describeLTs(c.LTs), c.LevelP, len(c.P.P)))
	}
	if bstop {
		if setupErr != nil && (noP || empty) {
			// an error is an acceptable answer for a transformation lattigo cannot represent
			rec.Classf("error-accepted(noP=%v,empty-set=%v)", noP, empty)
			return "", false, true, nil
		}
		return "", false, true, setupErr
	}
	ks := newRecKeySet(keys)
	evl := env.base.WithKey(ks)
	// (WithKey used to drop the ScaleInvariant flag - a finding of C10 fixed by lattigo commit 75065df; the flag is not
	// re-set here, so a regression shows as a level/scale failure of the sequential modes)
	ltEval := bgvlt.NewEvaluator(evl)

	// receivers (before the expectations: a receiver below the output level caps the level, as for every evaluator method)
	nOut := len(c.LTs)
	if isSeq(c.Mode) {
		nOut = 1
	}
	docLevel := func(i int) int { return minInt(c.CtLevel, c.LTs[i].LevQ) }
	recv := make([]*rlwe.Ciphertext, nOut)
	takesRecv := c.Mode == "eval" || c.Mode == "many" || c.Mode == "seq" || c.Mode == "manyLastInPlace"
	recvClass := ""
	if takesRecv {
		recvClass = "fresh"
		for i := range recv {
			lvl := docLevel(i)
			switch {
			case c.Mode == "manyLastInPlace" && i == nOut-1:
				recv[i] = ct
			case c.Recv == "low":
				recv[i] = bgv.NewCiphertext(params, 1, maxInt(0, lvl-1-c.OutExtra))
				recvClass = "below-output-level"
			case c.Recv == "prev" && i < len(env.prev) && env.prev[i] != ct:
				recv[i] = env.prev[i]
				recvClass = "previous-output"
			case c.Recv == "deg2":
				r := bgv.NewCiphertext(params, 2, minInt(maxLevel, lvl+c.OutExtra))
				jr := h.NewSplitMix(c.Seed ^ 0xdead)
				for _, v := range r.Value {
					for li, q := range c.P.Q[:r.Level()+1] {
						for j := range v.Coeffs[li] {
							v.Coeffs[li][j] = jr.Uint64() % q
						}
					}
				}
				r.Scale = params.NewScale(1 + jr.Uint64()%(T-1))
				recv[i] = r
				recvClass = "degree-2-with-data"
			default:
				recv[i] = bgv.NewCiphertext(params, 1, minInt(maxLevel, lvl+c.OutExtra))
			}
		}
	}
	capLevel := func(i, lvl int) int {
		if takesRecv && recv[i] != ct {
			return minInt(lvl, recv[i].Level())
		}
		return lvl
	}

	// expected levels / scales / values and the hard noise bound
	type stage struct {
		level int
		scale uint64
		want  []uint64
		ok    bool // noise bound far below the modulus
	}
	be := c.P.Xe.AbsBound()
	alpha := maxInt(c.LevelP+1, 1)
	logP := 0.0
	if !noP {
		logP = sumLog2(c.P.P[:c.LevelP+1])
	}
	logqd := maxDigitLog2(c.P.Q[:c.CtLevel+1], alpha)
	ft := float64(T)
	step := func(vin float64, nd int) float64 {
		return float64(nd)*float64(N)*ft*vin + ft*math.Min(ksNoiseBound(nd, N, ft, be, c.CtLevel+1, alpha, logqd, logP), ksNoiseEnvelope(nd, N, float64(N)*ft, c.P.Xe.Sigma, c.CtLevel+1, alpha, logqd, logP))
	}
	fits := func(v float64, level int) bool { return !noP && math.Log2(v) < sumLog2(c.P.Q[:level+1])-2 }
	nd := func(i int) int {
		if c.LTs[i].Perm != nil {
			return len(residues(c.LTs[i].Diags, n))
		}
		return len(c.LTs[i].Diags)
	}
	v0 := ft * (1 + be)
	var exp []stage
	if isSeq(c.Mode) {
		cur, lvl, sc, v, ok := x, capLevel(0, c.CtLevel), c.CtScale, v0, true
		for i, l := range c.LTs {
			lvl = minInt(lvl, l.LevQ)
			cur = models[i](cur)
			v = step(v, nd(i))
			ok = ok && fits(v, lvl)
			if c.BFV {
				// scale-invariant evaluator: Rescale is a nop, the level and the scale factor stay
				sc = mulmod(sc, l.Scale, T)
				continue
			}
			if lvl == 0 {
				rec.Class("invalid-case:seq-levels")
				return "", false, true, nil
			}
			q := c.P.Q[lvl]
			sc = mulmod(mulmod(sc, l.Scale, T), powmod(q%T, T-2, T), T)
			v = v/float64(q) + ft*float64(N+1)
			lvl--
			ok = ok && fits(v, lvl)
		}
		exp = []stage{{lvl, sc, cur, ok}}
	} else {
		for i, l := range c.LTs {
			lvl := capLevel(i, docLevel(i))
			v := step(v0, nd(i))
			exp = append(exp, stage{lvl, mulmod(c.CtScale, l.Scale, T), models[i](x), fits(v, lvl)})
		}
	}

	// snapshots of everything the call must leave alone
	hct := hashCt(ct)
	hlts := make([]uint64, len(lts))
	for i := range lts {
		hlts[i] = hashLT(lintrans.LinearTransformation(lts[i]))
	}
	hkeys := hashKeys(keys)

	// evaluation
	var outs []*rlwe.Ciphertext
	pk, pmsg = guard(panicKey, func() {
		switch c.Mode {
		case "eval":
			err = ltEval.Evaluate(ct, lts[0], recv[0])
			outs = recv
		case "evalInPlace":
			err = ltEval.Evaluate(ct, lts[0], ct)
			outs = []*rlwe.Ciphertext{ct}
		case "evalNew":
			var o *rlwe.Ciphertext
			o, err = ltEval.EvaluateNew(ct, lts[0])
			outs = []*rlwe.Ciphertext{o}
		case "many", "manyLastInPlace":
			err = ltEval.EvaluateMany(ct, lts, recv)
			outs = recv
		case "manyNew":
			outs, err = ltEval.EvaluateManyNew(ct, lts)
		case "seq":
			err = ltEval.EvaluateSequential(ct, lts, recv[0])
			outs = recv
		case "seqInPlace":
			err = ltEval.EvaluateSequential(ct, lts, ct)
			outs = []*rlwe.Ciphertext{ct}
		case "seqNew":
			var o *rlwe.Ciphertext
			o, err = ltEval.EvaluateSequentialNew(ct, lts)
			outs = []*rlwe.Ciphertext{o}
		}
	})
	if pk != "" {
		return finding(pk, fmt.Sprintf("%s (mode=%s lts=%s levelP=%d #Q=%d #P=%d)", pmsg, c.Mode, describeLTs(c.LTs), c.LevelP, len(c.P.Q), len(c.P.P)))
	}
	if err != nil {
		if miss := ks.missingList(); len(miss) != 0 {
			return "", false, true, h.Failf("C12:bgv:GaloisElements:insufficient:"+c.GalSrc, "keys for exactly the advertised elements %v generated, evaluation asked for %v: %v (lts=%s)", galEls, miss, err, describeLTs(c.LTs))
		}
		if noP || empty {
			rec.Classf("error-accepted(noP=%v,empty-set=%v)", noP, empty)
			return "", false, true, nil
		}
		return "", false, true, h.Failf(tag+":error", "%v (recv=%s)", err, recvClass)
	}
	if len(outs) != len(exp) {
		return "", false, true, h.Failf(tag+":output-count", "got %d outputs, want %d", len(outs), len(exp))
	}
	if !inPlace(c.Mode) && hashCt(ct) != hct {
		return "", false, true, h.Failf(tag+":input-ciphertext-modified", "the input ciphertext changed during an out-of-place evaluation (lts=%s)", describeLTs(c.LTs))
	}
	for i := range lts {
		if hashLT(lintrans.LinearTransformation(lts[i])) != hlts[i] {
			return "", false, true, h.Failf(tag+":transformation-modified", "linear transformation %d changed during the evaluation", i)
		}
	}
	if hashKeys(keys) != hkeys {
		return "", false, true, h.Failf(tag+":galois-key-modified", "a Galois key changed during the evaluation")
	}

	// classes
	rec.Classf("mode=%s", c.Mode)
	if ri == 0 {
		rec.Classf("logN=%d/logn=%d", c.P.LogN, bits.Len(uint(n))-1)
	} else {
		rec.Classf("later-round/mode=%s", c.Mode)
	}
	rec.Classf("nLT=%d", len(c.LTs))
	if recvClass != "" {
		rec.Classf("receiver=%s", recvClass)
	}
	nontrivial = len(c.LTs) > 1
	for _, l := range c.LTs {
		neg, high := setClass(l.Diags, n)
		rec.Classf("ratio=%d", l.Ratio)
		rec.Classf("ndiag=%s", sizeClass(len(l.Diags), n))
		if l.Perm != nil {
			rec.Class("perm")
		}
		if neg {
			rec.Class("has-negative-index")
		}
		if high {
			rec.Class("has-index>=n/2")
		}
		if l.LevQ < maxLevel {
			rec.Class("levelQ<max")
		}
		if c.LevelP >= 0 && c.LevelP < len(c.P.P)-1 {
			rec.Classf("levelP<max/%s", map[bool]string{true: "naive", false: "bsgs"}[l.Ratio < 0])
		}
		nontrivial = nontrivial || neg || high || l.Ratio != 1 || l.LevQ < maxLevel
	}
	if 2*n < N {
		rec.Classf("sparse-packing/mode=%s", c.Mode)
	}
	if c.BFV {
		rec.Class("scale-invariant-evaluator")
	}
	if noP {
		rec.Classf("levelP=-1(#P=%d):returned-without-error(values not compared)", len(c.P.P))
	}

	allOK := true
	n1s := make([]int, len(lts))
	for i := range lts {
		n1s[i] = lts[i].N1
	}
	for i, o := range outs {
		e := exp[i]
		if o.Level() != e.level {
			return "", false, true, h.Failf(tag+":output-level", "output %d at level %d, want min(ct level, LevelQ, receiver level)%s = %d (recv=%s)", i, o.Level(), map[bool]string{true: " minus one per rescale"}[isSeq(c.Mode) && !c.BFV], e.level, recvClass)
		}
		if got := o.Scale.Uint64(); got != e.scale {
			return "", false, true, h.Failf(tag+":output-scale", "output %d has scale %d, want ct.Scale*lt.Scale%s = %d (mod t) (recv=%s)", i, got, map[bool]string{true: "/q per rescale"}[isSeq(c.Mode) && !c.BFV], e.scale, recvClass)
		}
		if !e.ok {
			allOK = false
			if !noP {
				rec.Class("noise-bound-not-below-Q(not compared)")
			}
			continue
		}
		got := make([]uint64, 2*n)
		if err := ecd.Decode(dec.DecryptNew(o), got); err != nil {
			return "", false, true, h.Failf(tag+":decode", "%v", err)
		}
		for j := range got {
			if got[j] != e.want[j] {
				key := tag + ":wrong-product"
				switch {
				case empty:
					key = keyEmpty
				case hasOnlyDiag0Naive(c.LTs, n):
					key = keyDiag0
				case isMany(c.Mode) && i >= clobberedFrom(n1s, c.LTs, n):
					key = keyManyClobber
				case recvClass == "degree-2-with-data":
					key = tag + ":wrong-product:receiver-of-degree-2"
				case recvClass == "previous-output" || recvClass == "below-output-level":
					key = tag + ":wrong-product:receiver-" + recvClass
				case ri > 0:
					key = tag + ":wrong-product:later-round"
				}
				return finding(key, fmt.Sprintf("round %d output %d slot %d (row %d col %d): got %d want %d; recv=%s lts=%s x[:4]=%v", ri, i, j, j/n, j%n, got[j], e.want[j], recvClass, describeLTs(c.LTs), x[:4]))
			}
		}
	}
	env.prev = outs
	if allOK {
		desc = fmt.Sprintf("bgv/%s/bfv=%v/N=%d/n=%d/lp<max=%v/ctl<max=%v/recv=%s/%s", c.Mode, c.BFV, N, n, c.LevelP < len(c.P.P)-1, c.CtLevel < maxLevel, recvClass, ltDescriptor(c.LTs, n, maxLevel))
	}
	return desc, nontrivial, false, nil
}

func describeLTs(lts []LT) string {
	var sb strings.Builder
	for i, l := range lts {
		if i > 0 {
			sb.WriteString(" ; ")
		}
		fmt.Fprintf(&sb, "{diags=%v ratio=%d levelQ=%d scale=%d ent=%s}", l.Diags, l.Ratio, l.LevQ, l.Scale, l.Ent)
	}
	return sb.String()
}

var propBGV = h.NewProp("TestPropBGVLinearTransformation", h.Budget{Quick: 900, Thorough: 16000}, genBGV, runBGV)

func TestPropBGVLinearTransformation(t *testing.T) { propBGV.Check(t) }
