package c12

import (
	"fmt"
	"math"
	"math/cmplx"
	"strings"
	"testing"

	"verif/internal/h"

	ckkslt "github.com/tuneinsight/lattigo/v6/circuits/ckks/lintrans"
	"github.com/tuneinsight/lattigo/v6/circuits/common/lintrans"
	"github.com/tuneinsight/lattigo/v6/core/rlwe"
	"github.com/tuneinsight/lattigo/v6/ring"
	"github.com/tuneinsight/lattigo/v6/schemes/ckks"
	"pgregory.net/rapid"
)

// CKKSCase is one generated scenario for the approximate scheme. LT.Scale: 0 => the transformation is encoded at
// scale Q[output level] (so that a rescale restores the input scale), otherwise at scale 2^Scale.
type CKKSRound struct {
	LevelP     int    `json:"levelP"` // -1: no auxiliary prime in use
	CtLevel    int    `json:"ctLevel"`
	LogSlots   int    `json:"logSlots"`   // LogDimensions.Cols of the ciphertext and of the transformations
	CtLogScale int    `json:"ctLogScale"` // the input is encrypted at scale 2^CtLogScale
	Real       bool   `json:"real,omitempty"`
	LTs        []LT   `json:"lts"`
	Mode       string `json:"mode"`
	OutExtra   int    `json:"outExtra,omitempty"`
	Recv       string `json:"recv,omitempty"` // receiver kind, see recvKinds
	GalSrc     string `json:"galSrc"`         // "lt" | "func" | "pkg"
	Seed       uint64 `json:"seed"`
}

// CKKSCase: parameters, a first round (inline fields) and further rounds on the same keys and evaluator buffers (see BGVRound).
type CKKSCase struct {
	P h.CKKSSpec `json:"params"`
	CKKSRound
	Warm bool        `json:"warm,omitempty"`
	More []CKKSRound `json:"more,omitempty"`
}

func (c CKKSCase) RandSeed() uint64 { return c.Seed }

const ckksMargin = 3.0 // bits kept between |scale*value| and Q/2

func dmaxOf(l LT, real bool) float64 {
	if l.Ent == "ones" {
		return 1
	}
	if real {
		return 1
	}
	return math.Sqrt2
}

func ndOf(l LT, n int) int {
	if l.Perm != nil {
		return len(residues(l.Diags, n))
	}
	return len(l.Diags)
}

func ltLogScale(l LT, Q []uint64, level int) float64 {
	if l.Scale == 0 {
		return log2u(Q[level])
	}
	return float64(l.Scale)
}

func genCKKS(t *rapid.T) CKKSCase {
	var c CKKSCase
	maxLogN := 6
	if h.Thorough() {
		maxLogN = 8
	}
	logN := rapid.IntRange(4, maxLogN).Draw(t, "logN")
	if rapid.IntRange(0, 7).Draw(t, "logN7") == 0 {
		logN = 7
	}
	stress := rapid.IntRange(0, 9).Draw(t, "stress") == 0 // see genBGV
	if stress {
		logN = maxInt(7, maxLogN)
	}
	nQ := rapid.IntRange(1, 4).Draw(t, "nQ")
	nP := rapid.IntRange(1, 3).Draw(t, "nP")
	// (the conjugate-invariant ring of degree >= 128 with a 61-bit Q prime used to hit a key-switching defect of the core
	// library, keyCI61, fixed by lattigo commit f32bb8f; the stress flavour produces that combination)
	ci := rapid.IntRange(0, 5).Draw(t, "conjugateInvariant") == 0
	m := uint64(2) << logN
	maxLogSlots := logN - 1
	if ci {
		m <<= 1
		maxLogSlots = logN
	}
	used := map[uint64]bool{}
	// three quarters of the cases use special primes well above the digits of Q (small key-switching noise, sharp
	// tolerance); the others any admissible combination
	var qs, ps []int
	if rapid.IntRange(0, 3).Draw(t, "anyP") == 0 {
		qs = h.GenSizes(t, nQ, 32, 58, "q")
		qs[0] = rapid.IntRange(52, 60).Draw(t, "q0")
		ps = h.GenSizes(t, nP, 50, 61, "p")
	} else {
		qs = h.GenSizes(t, nQ, 32, 48, "q")
		qs[0] = rapid.IntRange(52, 55).Draw(t, "q0")
		ps = h.GenSizes(t, nP, 59, 61, "p")
	}
	if stress {
		qs = h.GenSizes(t, nQ, 60, 61, "qs")
		ps = h.GenSizes(t, nP, 60, 61, "ps")
	}
	Q := h.GenPrimes(t, qs, m, used, "q")
	P := h.GenPrimes(t, ps, m, used, "p")
	c.P = h.CKKSSpec{RLWESpec: h.RLWESpec{LogN: logN, Q: Q, P: P, CI: ci, Xs: h.DefaultXs, Xe: h.DefaultXe, NTT: true}, LogScale: 40}

	c.Warm = rapid.IntRange(0, 3).Draw(t, "warm") != 0
	noP := 0
	if !stress && rapid.IntRange(0, 11).Draw(t, "noP") == 7 {
		noP = 1 + rapid.IntRange(0, 1).Draw(t, "noPkind")
		if noP == 1 {
			c.P.P = nil
			nP = 0
		}
	}
	c.CKKSRound = genCKKSRound(t, "", Q, nP, noP != 0, ci, maxLogSlots, stress)
	if !stress {
		for i, k := 0, rapid.IntRange(0, 5).Draw(t, "moreRounds"); i < k-3; i++ {
			c.More = append(c.More, genCKKSRound(t, fmt.Sprintf("r%d_", i+1), Q, nP, noP != 0, ci, maxLogSlots, false))
		}
	}
	return c
}

func genCKKSRound(t *rapid.T, pre string, Q []uint64, nP int, noP, ci bool, maxLogSlots int, stress bool) CKKSRound {
	var c CKKSRound
	nQ := len(Q)
	c.LogSlots = maxLogSlots
	if !stress && rapid.IntRange(0, 2).Draw(t, pre+"sparse") == 0 {
		c.LogSlots = rapid.IntRange(1, maxLogSlots).Draw(t, pre+"logSlots")
	}
	n := 1 << c.LogSlots
	c.LevelP = biasedLevel(t, 0, nP-1, pre+"levelP")
	if noP || nP == 0 {
		c.LevelP = -1
	}
	c.CtLevel = biasedLevel(t, 0, nQ-1, pre+"ctLevel")
	c.Real = ci || rapid.IntRange(0, 3).Draw(t, pre+"real") == 0
	c.Mode = modes[rapid.IntRange(0, len(modes)-1).Draw(t, pre+"mode")]
	nLT := 1
	if isMany(c.Mode) || isSeq(c.Mode) {
		nLT = rapid.IntRange(1, 3).Draw(t, pre+"nLT")
	}
	if isSeq(c.Mode) {
		if c.CtLevel == 0 {
			c.Mode = "evalNew"
			nLT = 1
		} else if nLT > c.CtLevel {
			nLT = c.CtLevel
		}
	}
	// structure first
	for i := 0; i < nLT; i++ {
		lbl := fmt.Sprintf("%slt%d", pre, i)
		var l LT
		if stress {
			l.Diags, l.Ent = denseSet(t, n, lbl), "rand"
		} else if rapid.IntRange(0, 5).Draw(t, lbl+"_perm") == 0 {
			l.Perm, l.Diags = genPerm(t, n, 1, lbl)
			l.Ent = "perm"
		} else {
			l.Diags, _ = genDiagSet(t, n, lbl)
			l.Ent = genEnt(t, lbl)
		}
		l.Seed = rapid.Uint64().Draw(t, lbl+"_seed")
		l.Ratio = genRatio(t, lbl)
		if stress {
			l.Ratio = rapid.IntRange(1, 4).Draw(t, lbl+"_stressRatio")
		}
		lo := 0
		if isSeq(c.Mode) {
			lo = nLT - i
		}
		l.LevQ = biasedLevel(t, lo, nQ-1, lbl+"_levelQ")
		c.LTs = append(c.LTs, l)
	}
	c.OutExtra = rapid.IntRange(0, 2).Draw(t, pre+"outExtra")
	c.Recv = recvKinds[rapid.IntRange(0, len(recvKinds)-1).Draw(t, pre+"recv")]
	if pre != "" && rapid.Bool().Draw(t, pre+"recvPrev") {
		c.Recv = "prev" // later rounds: half of the receivers are outputs of the previous round
	}
	if isSeq(c.Mode) && c.Recv == "low" {
		c.Recv = ""
	}
	// level of output i: a receiver below the output level caps it
	effLevel := func(i int) int {
		lvl := minInt(c.CtLevel, c.LTs[i].LevQ)
		if c.Recv == "low" && (c.Mode == "eval" || c.Mode == "many" || (c.Mode == "manyLastInPlace" && i < len(c.LTs)-1)) {
			lvl = maxInt(0, lvl-1-c.OutExtra)
		}
		return lvl
	}
	// then scales that fit below the modulus
	logQ := func(level int) float64 { return sumLog2(Q[:level+1]) }
	x0 := math.Sqrt2
	if isSeq(c.Mode) {
		lvl0 := minInt(c.CtLevel, c.LTs[0].LevQ)
		ub := minInt(45, int(logQ(lvl0))-30)
		c.CtLogScale = rapid.IntRange(minInt(25, ub), ub).Draw(t, pre+"ctLogScale")
		lvl, ls, vmax := c.CtLevel, float64(c.CtLogScale), x0
		for i := range c.LTs {
			l := &c.LTs[i]
			lvl = minInt(lvl, l.LevQ)
			vmax *= float64(maxInt(1, ndOf(*l, n))) * dmaxOf(*l, c.Real)
			budget := int(logQ(lvl) - ls - math.Log2(vmax) - ckksMargin - 1)
			lq := log2u(Q[lvl])
			lo := maxInt(20, int(math.Ceil(25+lq-ls)))
			hi := minInt(58, budget)
			if lq <= float64(budget) && (lo > hi || rapid.Bool().Draw(t, fmt.Sprintf("%slt%d_scaleQ", pre, i))) {
				l.Scale = 0
			} else if lo <= hi {
				l.Scale = uint64(rapid.IntRange(lo, hi).Draw(t, fmt.Sprintf("%slt%d_logScale", pre, i)))
			} else {
				// no admissible scale: stop the sequence here
				c.LTs = c.LTs[:i]
				break
			}
			ls += ltLogScale(*l, Q, lvl) - lq
			lvl--
		}
		if len(c.LTs) == 0 {
			// cannot happen with q0 >= 52 bits and level >= 1, kept for safety: degenerate to a plain evaluation
			c.Mode = "evalNew"
			c.LTs = []LT{{Diags: []int{1}, Ent: "ones", Ratio: 1, LevQ: c.CtLevel, Scale: 10}}
		}
	} else {
		minLogQ := math.Inf(1)
		for i := range c.LTs {
			minLogQ = math.Min(minLogQ, logQ(effLevel(i)))
		}
		ub := minInt(45, int(minLogQ)-30)
		c.CtLogScale = rapid.IntRange(minInt(25, ub), ub).Draw(t, pre+"ctLogScale")
		for i := range c.LTs {
			l := &c.LTs[i]
			lvl := effLevel(i)
			vmax := x0 * float64(maxInt(1, ndOf(*l, n))) * dmaxOf(*l, c.Real)
			budget := int(logQ(lvl) - float64(c.CtLogScale) - math.Log2(vmax) - ckksMargin - 1)
			if log2u(Q[lvl]) <= float64(budget) && rapid.IntRange(0, 2).Draw(t, fmt.Sprintf("%slt%d_scaleQ", pre, i)) == 0 {
				l.Scale = 0
			} else {
				hi := minInt(58, budget)
				l.Scale = uint64(rapid.IntRange(minInt(20, hi), hi).Draw(t, fmt.Sprintf("%slt%d_logScale", pre, i)))
			}
		}
	}
	c.GalSrc = []string{"lt", "func", "pkg"}[rapid.IntRange(0, 2).Draw(t, pre+"galSrc")]
	c.Seed = rapid.Uint64().Draw(t, pre+"seed")
	return c
}

func (c CKKSCase) valid() string {
	if len(c.P.Q) == 0 {
		return "levels"
	}
	for _, r := range append([]CKKSRound{c.CKKSRound}, c.More...) {
		if why := r.valid(c.P); why != "" {
			return why
		}
	}
	return ""
}

func (c CKKSRound) valid(P h.CKKSSpec) string {
	nQ, nP := len(P.Q), len(P.P)
	if c.LevelP < -1 || c.LevelP >= nP || c.CtLevel < 0 || c.CtLevel >= nQ || len(c.LTs) == 0 {
		return "levels"
	}
	maxLogSlots := P.LogN - 1
	if P.CI {
		maxLogSlots = P.LogN
		if !c.Real {
			return "ci-needs-real"
		}
	}
	if c.LogSlots < 1 || c.LogSlots > maxLogSlots || c.CtLogScale < 1 || c.CtLogScale > 60 {
		return "dims"
	}
	n := 1 << c.LogSlots
	ok := false
	for _, m := range modes {
		ok = ok || m == c.Mode
	}
	if !ok {
		return "mode"
	}
	ok = false
	for _, m := range recvKinds {
		ok = ok || m == c.Recv
	}
	if !ok {
		return "recv"
	}
	if !isMany(c.Mode) && !isSeq(c.Mode) && len(c.LTs) != 1 {
		return "nLT"
	}
	for _, l := range c.LTs {
		if l.LevQ < 0 || l.LevQ >= nQ || l.Scale > 60 {
			return "lt"
		}
		if l.Perm != nil {
			sf, st := map[int]bool{}, map[int]bool{}
			for _, pm := range l.Perm {
				if pm.Row != 0 || pm.From < 0 || pm.From >= n || pm.To < 0 || pm.To >= n || sf[pm.From] || st[pm.To] {
					return "perm"
				}
				sf[pm.From], st[pm.To] = true, true
			}
			if len(l.Perm) == 0 {
				return "perm"
			}
		} else if !validDiagSet(l.Diags, n) {
			return "diags"
		}
	}
	return ""
}

func unitComplex(rng *h.SplitMix, real bool) complex128 {
	re := 2*rng.Float64() - 1
	if real {
		return complex(re, 0)
	}
	return complex(re, 2*rng.Float64()-1)
}

func ckksDiagEntries(l LT, k, n int, real bool) []complex128 {
	rng := h.NewSplitMix(l.Seed ^ (uint64(uint32(int32(k))) * 0x9e3779b97f4a7c15))
	out := make([]complex128, n)
	switch l.Ent {
	case "ones":
		for i := range out {
			out[i] = 1
		}
	case "sparse":
		for i := range out {
			if rng.Intn(4) == 0 {
				out[i] = unitComplex(rng, real)
			}
		}
		out[rng.Intn(n)] = complex(0.5+rng.Float64()/2, 0)
	default:
		for i := range out {
			out[i] = unitComplex(rng, real)
		}
	}
	return out
}

func ckksPermScaling(pm PM, real bool) complex128 {
	return unitComplex(h.NewSplitMix(pm.Seed), real)
}

// ckksApply is the plaintext model y[j] = sum_k d_k[j] * x[(j+k) mod n].
func ckksApply(diags map[int][]complex128, x []complex128, n int) []complex128 {
	y := make([]complex128, n)
	for k, d := range diags {
		kk := ((k % n) + n) % n
		for j := 0; j < n; j++ {
			y[j] += d[j] * x[(j+kk)%n]
		}
	}
	return y
}

// ckksEnv is what the rounds of a case share (see bgvEnv).
type ckksEnv struct {
	params ckks.Parameters
	kgen   *rlwe.KeyGenerator
	sk     *rlwe.SecretKey
	enc    *rlwe.Encryptor
	dec    *rlwe.Decryptor
	ecd    *ckks.Encoder
	base   *ckks.Evaluator
	prev   []*rlwe.Ciphertext
}

func runCKKS(c CKKSCase, rec *h.Rec) error {
	if why := c.valid(); why != "" {
		rec.Class("invalid-case:" + why)
		return nil
	}
	params, err := c.P.Build()
	if err != nil {
		rec.Class("params-rejected")
		return nil
	}
	if params.LogMaxSlots() != map[bool]int{false: c.P.LogN - 1, true: c.P.LogN}[c.P.CI] || params.LevelsConsumedPerRescaling() != 1 {
		return h.Failf("C12:harness:ckks:params-model", "LogMaxSlots=%d levelsPerRescale=%d", params.LogMaxSlots(), params.LevelsConsumedPerRescaling())
	}
	env := &ckksEnv{params: params}
	env.kgen = rlwe.NewKeyGenerator(params)
	env.sk = env.kgen.GenSecretKeyNew()
	env.enc = rlwe.NewEncryptor(params, env.sk)
	env.dec = rlwe.NewDecryptor(params, env.sk)
	env.ecd = ckks.NewEncoder(params)
	env.base = ckks.NewEvaluator(params, nil)
	if c.Warm && len(c.P.P) > 0 {
		wk := rlwe.NewMemEvaluationKeySet(nil, env.kgen.GenGaloisKeyNew(params.GaloisElement(1), env.sk))
		wct, _ := env.enc.EncryptNew(ckks.NewPlaintext(params, params.MaxLevel()))
		if _, err := env.base.WithKey(wk).RotateNew(wct, 1); err != nil {
			return h.Failf("C12:harness:ckks:warmup", "%v", err)
		}
	}
	rounds := append([]CKKSRound{c.CKKSRound}, c.More...)
	rec.Classf("rounds=%d", len(rounds))
	desc, nontrivial := "", len(rounds) > 1
	for ri, r := range rounds {
		cc := c
		cc.CKKSRound = r
		d, nt, stop, err := runCKKSRound(cc, ri, env, rec)
		if err != nil || stop {
			return err
		}
		if ri == 0 {
			desc = d
		}
		nontrivial = nontrivial || nt
	}
	if nontrivial && desc != "" {
		rec.NonTrivial(fmt.Sprintf("%s/rounds=%d", desc, len(rounds)))
	}
	return nil
}

// runCKKSRound: see runBGVRound.
func runCKKSRound(c CKKSCase, ri int, env *ckksEnv, rec *h.Rec) (desc string, nontrivial, stop bool, err error) {
	params := env.params
	kgen, sk, enc, dec, ecd := env.kgen, env.sk, env.enc, env.dec, env.ecd
	N := params.N()
	n := 1 << c.LogSlots
	Q := c.P.Q
	maxLevel := params.MaxLevel()
	tag := "C12:ckks:" + c.Mode
	// ring-degree factor of the noise bounds: products in the conjugate-invariant ring of degree N are products of
	// the unfolded (anti-symmetric) polynomials in the standard ring of degree 2N, whose 2N coefficients are pairwise
	// dependent (factor 2 on the variance proxy): 4N is a safe stand-in for N
	if c.P.CI {
		N *= 4
	}
	noP := c.LevelP < 0
	empty := hasEmptySet(c.LTs)
	panicKey := func() string {
		switch {
		case noP:
			return keyNoP
		case empty:
			return keyEmpty
		case len(Q) < c.LevelP+1:
			return keyPBuffer
		}
		return ""
	}
	finding := func(key, msg string) (string, bool, bool, error) {
		if rec.Known(key, msg) {
			rec.Class("known=" + key)
			return "", false, true, nil
		}
		return "", false, true, h.Failf(key, "%s", msg)
	}
	dims := ring.Dimensions{Rows: 0, Cols: c.LogSlots}

	// receivers (a receiver below the output level caps the level, as for every evaluator method)
	nOut := len(c.LTs)
	if isSeq(c.Mode) {
		nOut = 1
	}
	docLevel := func(i int) int { return minInt(c.CtLevel, c.LTs[i].LevQ) }
	recv := make([]*rlwe.Ciphertext, nOut)
	takesRecv := c.Mode == "eval" || c.Mode == "many" || c.Mode == "seq" || c.Mode == "manyLastInPlace"
	recvClass := ""
	if takesRecv {
		recvClass = "fresh"
		for i := range recv {
			lvl := docLevel(i)
			switch {
			case c.Mode == "manyLastInPlace" && i == nOut-1:
				// the input itself, set below
			case c.Recv == "low" && !isSeq(c.Mode):
				recv[i] = ckks.NewCiphertext(params, 1, maxInt(0, lvl-1-c.OutExtra))
				recvClass = "below-output-level"
			case c.Recv == "prev" && i < len(env.prev):
				recv[i] = env.prev[i]
				recvClass = "previous-output"
			case c.Recv == "deg2":
				r := ckks.NewCiphertext(params, 2, minInt(maxLevel, lvl+c.OutExtra))
				jr := h.NewSplitMix(c.Seed ^ 0xdead)
				for _, v := range r.Value {
					for li, q := range Q[:r.Level()+1] {
						for j := range v.Coeffs[li] {
							v.Coeffs[li][j] = jr.Uint64() % q
						}
					}
				}
				r.Scale = rlwe.NewScale(12345)
				recv[i] = r
				recvClass = "degree-2-with-data"
			default:
				recv[i] = ckks.NewCiphertext(params, 1, minInt(maxLevel, lvl+c.OutExtra))
			}
		}
	}
	capOf := func(i int) int {
		if takesRecv && recv[i] != nil {
			return recv[i].Level()
		}
		return maxLevel
	}
	startLevel := c.CtLevel
	if isSeq(c.Mode) {
		startLevel = minInt(startLevel, capOf(0))
	}

	// plan: levels, scales, magnitudes and the hard error bound -----------------------------------------------------
	be := c.P.Xe.AbsBound()
	alpha := maxInt(c.LevelP+1, 1)
	logP := 0.0
	if !noP {
		logP = sumLog2(c.P.P[:c.LevelP+1])
	}
	logqd := maxDigitLog2(Q[:c.CtLevel+1], alpha)
	Np := float64(2 * n) // number of coefficients of the sub-ring that carries the n slots
	logQ := func(level int) float64 { return sumLog2(Q[:level+1]) }
	x0 := math.Sqrt2
	if c.Real {
		x0 = 1
	}
	sct := math.Exp2(float64(c.CtLogScale))
	// |slots(decrypted input) - S*x| <= delta0: error term (<= be per coefficient), rounding (1/2), float64 encoder
	delta0 := Np * (be + 0.5 + sct*x0*math.Exp2(-45))
	type plan struct {
		level    int
		logScale float64
		vmax     float64
		delta    float64 // bound on |slots(decrypted output) - scale*y|
		dom      string  // dominating error term (diagnostics)
	}
	// one transformation applied to (level, logScale, vmax, delta)
	apply := func(in plan, l LT, cap int) (out plan, fits bool) {
		lvl := minInt(in.level, l.LevQ)
		lls := ltLogScale(l, Q, lvl) // scale 0 = Q[documented output level], whatever the receiver
		lvl = minInt(lvl, cap)
		slt := math.Exp2(lls)
		sin := math.Exp2(in.logScale)
		nd := float64(maxInt(1, ndOf(l, n))) // (the empty set: bounds of a single zero diagonal)
		dmax := dmaxOf(l, c.Real)
		dk := Np * (0.5 + slt*dmax*math.Exp2(-45))
		eks := math.Min(ksNoiseBound(int(nd), N, 2*slt*dmax+1, be, c.CtLevel+1, alpha, logqd, logP),
			ksNoiseEnvelope(int(nd), N, slt*dmax+Np/2, c.P.Xe.Sigma, c.CtLevel+1, alpha, logqd, logP))
		out.level = lvl
		out.logScale = in.logScale + lls
		out.vmax = nd * dmax * in.vmax
		out.delta = nd*(in.vmax*sin*dk+dmax*slt*in.delta+dk*in.delta) + Np*eks
		t1, t2, t3 := nd*in.vmax*sin*dk, nd*dmax*slt*in.delta, Np*eks
		switch {
		case t1 >= t2 && t1 >= t3:
			out.dom = fmt.Sprintf("diag-rounding(ltLogScale=%d)", int(lls/5)*5)
		case t2 >= t3:
			out.dom = fmt.Sprintf("input-noise(ctLogScale=%d)", int(in.logScale/5)*5)
		default:
			out.dom = fmt.Sprintf("keyswitch(logP-logqd=%d)", int((logP-logqd)/5)*5)
		}
		fits = out.logScale+math.Log2(out.vmax)+ckksMargin <= logQ(lvl) && math.Log2(out.delta)+ckksMargin <= logQ(lvl)
		return
	}
	in0 := plan{startLevel, float64(c.CtLogScale), x0, delta0, ""}
	if in0.logScale+math.Log2(x0)+ckksMargin > logQ(c.CtLevel) {
		rec.Class("invalid-case:input-overflow")
		return "", false, true, nil
	}
	var plans []plan
	if isSeq(c.Mode) {
		cur := in0
		for _, l := range c.LTs {
			out, fits := apply(cur, l, maxLevel)
			if !fits || out.level == 0 {
				rec.Class("invalid-case:overflow-or-levels")
				return "", false, true, nil
			}
			q := float64(Q[out.level])
			out.delta = out.delta/q + Np*float64(N+2)/2
			out.logScale -= math.Log2(q)
			out.level--
			cur = out
		}
		plans = []plan{cur}
	} else {
		for i, l := range c.LTs {
			out, fits := apply(in0, l, capOf(i))
			if !fits {
				rec.Class("invalid-case:overflow")
				return "", false, true, nil
			}
			plans = append(plans, out)
		}
	}

	// keys, input --------------------------------------------------------------------------------------------------
	rng := h.NewSplitMix(c.Seed)
	x := make([]complex128, n)
	for i := range x {
		x[i] = unitComplex(rng, c.Real)
	}
	pt := ckks.NewPlaintext(params, c.CtLevel)
	pt.Scale = rlwe.NewScale(sct)
	pt.LogDimensions = dims
	if err := ecd.Encode(x, pt); err != nil {
		return "", false, true, h.Failf(tag+":encode-input", "%v", err)
	}
	ct, err := enc.EncryptNew(pt)
	if err != nil {
		return "", false, true, h.Failf(tag+":encrypt-input", "%v", err)
	}
	if c.Mode == "manyLastInPlace" {
		recv[nOut-1] = ct
	}

	// transformations ----------------------------------------------------------------------------------------------
	lts := make([]ckkslt.LinearTransformation, len(c.LTs))
	models := make([]func([]complex128) []complex128, len(c.LTs))
	wantScale := make([]rlwe.Scale, len(c.LTs))
	var galEls []uint64
	var keys []*rlwe.GaloisKey
	build := func() error {
		lvl := startLevel
		for i, l := range c.LTs {
			outLvl := minInt(c.CtLevel, l.LevQ)
			if isSeq(c.Mode) {
				outLvl = minInt(lvl, l.LevQ)
				lvl = outLvl - 1
			}
			var scale rlwe.Scale
			if l.Scale == 0 {
				scale = rlwe.NewScale(Q[outLvl])
			} else {
				scale = rlwe.NewScale(math.Exp2(float64(l.Scale)))
			}
			wantScale[i] = scale

			dmodel := map[int][]complex128{}
			var idxList []int
			if l.Perm != nil {
				var perm ckkslt.Permutation[complex128]
				for _, pm := range l.Perm {
					perm = append(perm, ckkslt.PermutationMapping[complex128]{From: pm.From, To: pm.To, Scaling: ckksPermScaling(pm, c.Real)})
				}
				d := perm.GetDiagonals(c.LogSlots)
				want := map[int][]complex128{}
				for _, pm := range l.Perm {
					k := ((pm.From-pm.To)%n + n) % n
					if want[k] == nil {
						want[k] = make([]complex128, n)
					}
					want[k][pm.To] = ckksPermScaling(pm, c.Real)
				}
				if len(d) != len(want) {
					return h.Failf("C12:ckks:Permutation.GetDiagonals:index-set", "got %d diagonals, want %d", len(d), len(want))
				}
				for k, w := range want {
					g, ok := d[k]
					if !ok || len(g) != len(w) {
						return h.Failf("C12:ckks:Permutation.GetDiagonals:index-set", "diagonal %d missing or of length %d (want %d)", k, len(g), len(w))
					}
					for j := range w {
						if g[j] != w[j] {
							return h.Failf("C12:ckks:Permutation.GetDiagonals:entries", "diagonal %d entry %d: got %v want %v", k, j, g[j], w[j])
						}
					}
				}
				for _, k := range residues(l.Diags, n) {
					if _, ok := d[k]; ok {
						idxList = append(idxList, k)
					}
				}
				if len(idxList) != len(d) {
					return h.Failf("C12:ckks:harness:perm-diags", "case lists residues %v, permutation occupies %d diagonals", l.Diags, len(d))
				}
				for k, v := range d {
					dmodel[k] = v
				}
				pms, real := l.Perm, c.Real
				models[i] = func(v []complex128) []complex128 {
					y := make([]complex128, n)
					for _, pm := range pms {
						y[pm.To] = ckksPermScaling(pm, real) * v[pm.From]
					}
					return y
				}
			} else {
				idxList = append(idxList, l.Diags...)
				for _, k := range l.Diags {
					dmodel[k] = ckksDiagEntries(l, k, n, c.Real)
				}
				models[i] = func(v []complex128) []complex128 { return ckksApply(dmodel, v, n) }
			}
			ltp := ckkslt.Parameters{
				DiagonalsIndexList:        idxList,
				LevelQ:                    l.LevQ,
				LevelP:                    c.LevelP,
				Scale:                     scale,
				LogDimensions:             dims,
				LogBabyStepGiantStepRatio: l.Ratio,
			}
			lts[i] = ckkslt.NewTransformation(params, ltp)
			if c.Real && l.Perm == nil {
				d := ckkslt.Diagonals[float64]{}
				for k, v := range dmodel {
					f := make([]float64, n)
					for j := range v {
						f[j] = real(v[j])
					}
					d[k] = f
				}
				err = ckkslt.Encode(ecd, d, lts[i])
			} else {
				d := ckkslt.Diagonals[complex128]{}
				for k, v := range dmodel {
					d[k] = append([]complex128(nil), v...)
				}
				err = ckkslt.Encode(ecd, d, lts[i])
			}
			if err != nil {
				return h.Failf("C12:ckks:Encode:error", "diags=%v ratio=%d: %v", idxList, l.Ratio, err)
			}
			switch c.GalSrc {
			case "func":
				galEls = append(galEls, lintrans.GaloisElements(params, idxList, n, l.Ratio)...)
			case "pkg":
				galEls = append(galEls, ckkslt.GaloisElements(params, ltp)...)
			default:
				galEls = append(galEls, lts[i].GaloisElements(params)...)
			}
		}
		galEls = dedupU64(galEls)
		lp := c.LevelP
		keys = kgen.GenGaloisKeysNew(galEls, sk, rlwe.EvaluationKeyParameters{LevelP: &lp})
		return nil
	}
	var setupErr error
	pk, pmsg := guard(panicKey, func() { setupErr = build() })
	if pk != "" {
		return finding(pk, fmt.Sprintf("while building the transformations/keys: %s (lts=%s levelP=%d #P=%d)", pmsg, describeLTs(c.LTs), c.LevelP, len(c.P.P)))
	}
	if setupErr != nil {
		if _, isFailure := setupErr.(*h.Failure); !isFailure || ((noP || empty) && strings.HasSuffix(setupErr.(*h.Failure).Key, "Encode:error")) {
			rec.Classf("error-accepted(noP=%v,empty-set=%v)", noP, empty)
			return "", false, true, nil
		}
		return "", false, true, setupErr
	}
	ks := newRecKeySet(keys)
	ltEval := ckkslt.NewEvaluator(env.base.WithKey(ks))

	// expected values
	var wants [][]complex128
	if isSeq(c.Mode) {
		cur := x
		for i := range c.LTs {
			cur = models[i](cur)
		}
		wants = [][]complex128{cur}
	} else {
		for i := range c.LTs {
			wants = append(wants, models[i](x))
		}
	}

	// snapshots of everything the call must leave alone
	hct := hashCt(ct)
	hlts := make([]uint64, len(lts))
	for i := range lts {
		hlts[i] = hashLT(lintrans.LinearTransformation(lts[i]))
	}
	hkeys := hashKeys(keys)

	var outs []*rlwe.Ciphertext
	pk, pmsg = guard(panicKey, func() {
		switch c.Mode {
		case "eval":
			err = ltEval.Evaluate(ct, lts[0], recv[0])
			outs = recv
		case "evalInPlace":
			err = ltEval.Evaluate(ct, lts[0], ct)
			outs = []*rlwe.Ciphertext{ct}
		case "evalNew":
			var o *rlwe.Ciphertext
			o, err = ltEval.EvaluateNew(ct, lts[0])
			outs = []*rlwe.Ciphertext{o}
		case "many", "manyLastInPlace":
			err = ltEval.EvaluateMany(ct, lts, recv)
			outs = recv
		case "manyNew":
			outs, err = ltEval.EvaluateManyNew(ct, lts)
		case "seq":
			err = ltEval.EvaluateSequential(ct, lts, recv[0])
			outs = recv
		case "seqInPlace":
			err = ltEval.EvaluateSequential(ct, lts, ct)
			outs = []*rlwe.Ciphertext{ct}
		case "seqNew":
			var o *rlwe.Ciphertext
			o, err = ltEval.EvaluateSequentialNew(ct, lts)
			outs = []*rlwe.Ciphertext{o}
		}
	})
	if pk != "" {
		return finding(pk, fmt.Sprintf("%s (mode=%s lts=%s levelP=%d #Q=%d #P=%d)", pmsg, c.Mode, describeLTs(c.LTs), c.LevelP, len(Q), len(c.P.P)))
	}
	if err != nil {
		if miss := ks.missingList(); len(miss) != 0 {
			return "", false, true, h.Failf("C12:ckks:GaloisElements:insufficient:"+c.GalSrc, "keys for exactly the advertised elements %v generated, evaluation asked for %v: %v (lts=%s)", galEls, miss, err, describeLTs(c.LTs))
		}
		if noP || empty {
			rec.Classf("error-accepted(noP=%v,empty-set=%v)", noP, empty)
			return "", false, true, nil
		}
		return "", false, true, h.Failf(tag+":error", "%v (recv=%s)", err, recvClass)
	}
	if len(outs) != len(plans) {
		return "", false, true, h.Failf(tag+":output-count", "got %d outputs, want %d", len(outs), len(plans))
	}
	if !inPlace(c.Mode) && hashCt(ct) != hct {
		return "", false, true, h.Failf(tag+":input-ciphertext-modified", "the input ciphertext changed during an out-of-place evaluation (lts=%s)", describeLTs(c.LTs))
	}
	for i := range lts {
		if hashLT(lintrans.LinearTransformation(lts[i])) != hlts[i] {
			return "", false, true, h.Failf(tag+":transformation-modified", "linear transformation %d changed during the evaluation", i)
		}
	}
	if hashKeys(keys) != hkeys {
		return "", false, true, h.Failf(tag+":galois-key-modified", "a Galois key changed during the evaluation")
	}

	// classes ------------------------------------------------------------------------------------------------------
	rec.Classf("mode=%s", c.Mode)
	if ri == 0 {
		rec.Classf("logN=%d/logSlots=%d", c.P.LogN, c.LogSlots)
	} else {
		rec.Classf("later-round/mode=%s", c.Mode)
	}
	rec.Classf("nLT=%d", len(c.LTs))
	if recvClass != "" {
		rec.Classf("receiver=%s", recvClass)
	}
	nontrivial = len(c.LTs) > 1
	for _, l := range c.LTs {
		neg, high := setClass(l.Diags, n)
		rec.Classf("ratio=%d", l.Ratio)
		rec.Classf("ndiag=%s", sizeClass(len(l.Diags), n))
		if l.Perm != nil {
			rec.Class("perm")
		}
		if neg {
			rec.Class("has-negative-index")
		}
		if high {
			rec.Class("has-index>=n/2")
		}
		if l.LevQ < maxLevel {
			rec.Class("levelQ<max")
		}
		if l.Scale == 0 {
			rec.Class("ltscale=Q[level]")
		} else {
			rec.Class("ltscale=2^k")
		}
		if c.LevelP >= 0 && c.LevelP < len(c.P.P)-1 {
			rec.Classf("levelP<max/%s", map[bool]string{true: "naive", false: "bsgs"}[l.Ratio < 0])
		}
		nontrivial = nontrivial || neg || high || l.Ratio != 1 || l.LevQ < maxLevel
	}
	if c.LogSlots < params.LogMaxSlots() {
		rec.Class("sparse-packing")
	}
	if noP {
		rec.Classf("levelP=-1(#P=%d):returned-without-error(values not compared)", len(c.P.P))
	}
	if c.P.CI {
		rec.Class("conjugate-invariant-ring")
	}

	n1s := make([]int, len(lts))
	for i := range lts {
		n1s[i] = lts[i].N1
	}
	discriminating := true
	worst := 0.0
	for i, o := range outs {
		p := plans[i]
		if o.Level() != p.level {
			return "", false, true, h.Failf(tag+":output-level", "output %d at level %d, want min(ct level, LevelQ, receiver level)%s = %d (recv=%s)", i, o.Level(), map[bool]string{true: " minus one per rescale"}[isSeq(c.Mode)], p.level, recvClass)
		}
		if o.LogDimensions != dims {
			return "", false, true, h.Failf(tag+":output-dims", "output %d has LogDimensions %v, want %v", i, o.LogDimensions, dims)
		}
		// scale: exact product (and exact quotient by the consumed primes for the sequential evaluation)
		if !isSeq(c.Mode) {
			want := pt.Scale.Mul(wantScale[i])
			if o.Scale.Cmp(want) != 0 {
				return "", false, true, h.Failf(tag+":output-scale", "output %d has scale %v, want ct.Scale*lt.Scale = %v", i, &o.Scale.Value, &want.Value)
			}
		} else {
			want := pt.Scale
			lvl := startLevel
			for j, l := range c.LTs {
				lvl = minInt(lvl, l.LevQ)
				want = want.Mul(wantScale[j]).Div(rlwe.NewScale(Q[lvl]))
				lvl--
			}
			if d := math.Abs(o.Scale.Float64()/want.Float64() - 1); d > 1e-12 {
				return "", false, true, h.Failf(tag+":output-scale", "output has scale %v, want prod(lt.Scale/q)*ct.Scale = %v", &o.Scale.Value, &want.Value)
			}
		}
		if noP {
			discriminating = false
			continue
		}
		tol := p.delta/math.Exp2(p.logScale) + math.Exp2(-40)*(1+p.vmax)
		if tol > math.Exp2(-6) {
			discriminating = false
			rec.Class("tolerance>2^-6(cannot discriminate)")
			rec.Class("tolerance>2^-6:dominated-by:" + p.dom)
		}
		got := make([]complex128, n)
		if err := ecd.Decode(dec.DecryptNew(o), got); err != nil {
			return "", false, true, h.Failf(tag+":decode", "%v", err)
		}
		for j := range got {
			e := cmplx.Abs(got[j] - wants[i][j])
			if e/tol > worst {
				worst = e / tol
			}
			if !(e <= tol) {
				key := tag + ":wrong-product"
				switch {
				case empty:
					key = keyEmpty
				case hasOnlyDiag0Naive(c.LTs, n):
					key = keyDiag0
				case isMany(c.Mode) && i >= clobberedFrom(n1s, c.LTs, n):
					key = keyManyClobber
				case recvClass == "degree-2-with-data":
					key = tag + ":wrong-product:receiver-of-degree-2"
				case recvClass == "previous-output" || recvClass == "below-output-level":
					key = tag + ":wrong-product:receiver-" + recvClass
				case ri > 0:
					key = tag + ":wrong-product:later-round"
				}
				return finding(key, fmt.Sprintf("round %d output %d slot %d: got %v want %v, |diff|=%.3g > tolerance %.3g (hard noise bound); recv=%s lts=%s", ri, i, j, got[j], wants[i][j], e, tol, recvClass, describeLTs(c.LTs)))
			}
		}
	}
	rec.Classf("err/tol<=2^%d", int(math.Ceil(math.Log2(worst+1e-300))))
	env.prev = outs
	if discriminating {
		desc = fmt.Sprintf("ckks/%s/ci=%v/N=%d/n=%d/real=%v/lp<max=%v/ctl<max=%v/recv=%s/%s", c.Mode, c.P.CI, params.N(), n, c.Real, c.LevelP < len(c.P.P)-1, c.CtLevel < maxLevel, recvClass, ltDescriptor(c.LTs, n, maxLevel))
	}
	return desc, nontrivial, false, nil
}

var propCKKS = h.NewProp("TestPropCKKSLinearTransformation", h.Budget{Quick: 900, Thorough: 16000}, genCKKS, runCKKS)

func TestPropCKKSLinearTransformation(t *testing.T) { propCKKS.Check(t) }
