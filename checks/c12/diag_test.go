package c12

import (
	"fmt"
	"math/cmplx"
	"testing"

	"verif/internal/h"

	bgvlt "github.com/tuneinsight/lattigo/v6/circuits/bgv/lintrans"
	ckkslt "github.com/tuneinsight/lattigo/v6/circuits/ckks/lintrans"
	"pgregory.net/rapid"
)

// DiagEvalCase exercises the plaintext helper Diagonals.Evaluate (the reference lattigo's own tests compare the
// homomorphic result with) against the harness model.
type DiagEvalCase struct {
	Scheme string `json:"scheme"` // "bgv" (2 rows of n, arithmetic mod T) | "ckks" (1 row of n, complex128)
	LogN   int    `json:"logn"`   // n = 2^LogN columns
	T      uint64 `json:"t,omitempty"`
	LT     LT     `json:"lt"`
	Seed   uint64 `json:"seed"`
}

func genDiagEval(t *rapid.T) DiagEvalCase {
	var c DiagEvalCase
	c.Scheme = []string{"bgv", "ckks"}[rapid.IntRange(0, 1).Draw(t, "scheme")]
	c.LogN = rapid.IntRange(1, 7).Draw(t, "logn")
	c.T = []uint64{17, 257, 65537, 1152921504606830593}[rapid.IntRange(0, 3).Draw(t, "t")]
	c.LT.Diags, _ = genDiagSet(t, 1<<c.LogN, "lt")
	c.LT.Ent = genEnt(t, "lt")
	c.LT.Seed = rapid.Uint64().Draw(t, "ltseed")
	c.Seed = rapid.Uint64().Draw(t, "seed")
	return c
}

func runDiagEval(c DiagEvalCase, rec *h.Rec) error {
	if c.LogN < 1 || c.LogN > 10 || !validDiagSet(c.LT.Diags, 1<<c.LogN) || (c.Scheme == "bgv" && c.T < 2) {
		rec.Class("invalid-case")
		return nil
	}
	n := 1 << c.LogN
	rng := h.NewSplitMix(c.Seed)
	neg, high := setClass(c.LT.Diags, n)
	rec.Classf("scheme=%s", c.Scheme)
	rec.Classf("ndiag=%s", sizeClass(len(c.LT.Diags), n))
	switch c.Scheme {
	case "bgv":
		T := c.T
		x := make([]uint64, 2*n)
		for i := range x {
			x[i] = rng.Uint64() % T
		}
		model := map[int][]uint64{}
		d := bgvlt.Diagonals[uint64]{}
		for _, k := range c.LT.Diags {
			model[k] = bgvDiagEntries(c.LT, k, n, T)
			d[k] = append([]uint64(nil), model[k]...)
		}
		newVec := func(size int) []uint64 { return make([]uint64, size) }
		add := func(a, b, out []uint64) {
			for i := range out {
				out[i] = (a[i]%T + b[i]%T) % T
			}
		}
		muladd := func(a, b, out []uint64) {
			for i := range out {
				out[i] = (out[i]%T + mulmod(a[i], b[i], T)) % T
			}
		}
		xin := append([]uint64(nil), x...)
		got := d.Evaluate(xin, newVec, add, muladd)
		want := bgvApply(model, x, n, T)
		if len(got) != len(want) {
			return h.Failf("C12:bgv:Diagonals.Evaluate:length", "got %d values, want %d", len(got), len(want))
		}
		for j := range want {
			if got[j] != want[j] {
				return h.Failf("C12:bgv:Diagonals.Evaluate:wrong-product", "slot %d: got %d want %d (diags=%v n=%d t=%d)", j, got[j], want[j], c.LT.Diags, n, T)
			}
		}
		for j := range x {
			if xin[j] != x[j] {
				return h.Failf("C12:bgv:Diagonals.Evaluate:input-modified", "input slot %d changed", j)
			}
		}
	case "ckks":
		x := make([]complex128, n)
		for i := range x {
			x[i] = unitComplex(rng, false)
		}
		model := map[int][]complex128{}
		d := ckkslt.Diagonals[complex128]{}
		for _, k := range c.LT.Diags {
			model[k] = ckksDiagEntries(c.LT, k, n, false)
			d[k] = append([]complex128(nil), model[k]...)
		}
		newVec := func(size int) []complex128 { return make([]complex128, size) }
		add := func(a, b, out []complex128) {
			for i := range out {
				out[i] = a[i] + b[i]
			}
		}
		muladd := func(a, b, out []complex128) {
			for i := range out {
				out[i] += a[i] * b[i]
			}
		}
		got := d.Evaluate(append([]complex128(nil), x...), newVec, add, muladd)
		want := ckksApply(model, x, n)
		if len(got) != len(want) {
			return h.Failf("C12:ckks:Diagonals.Evaluate:length", "got %d values, want %d", len(got), len(want))
		}
		tol := 1e-12 * float64(len(c.LT.Diags)+1) // both sides are complex128 sums of at most n products of magnitude <= 2
		for j := range want {
			if e := cmplx.Abs(got[j] - want[j]); !(e <= tol) {
				return h.Failf("C12:ckks:Diagonals.Evaluate:wrong-product", "slot %d: got %v want %v (diags=%v n=%d)", j, got[j], want[j], c.LT.Diags, n)
			}
		}
	default:
		rec.Class("invalid-case")
		return nil
	}
	if neg || high {
		rec.NonTrivial(fmt.Sprintf("diageval/%s/n=%d/%s/neg=%v/high=%v/ent=%s", c.Scheme, n, sizeClass(len(c.LT.Diags), n), neg, high, c.LT.Ent))
	}
	return nil
}

var propDiagEval = h.NewProp("TestPropDiagonalsEvaluate", h.Budget{Quick: 2000, Thorough: 40000}, genDiagEval, runDiagEval)

func TestPropDiagonalsEvaluate(t *testing.T) { propDiagEval.Check(t) }
