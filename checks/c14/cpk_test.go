package c14

import (
	"bytes"
	"fmt"
	"math/big"
	"testing"

	"verif/internal/h"

	"github.com/tuneinsight/lattigo/v6/core/rlwe"
	"github.com/tuneinsight/lattigo/v6/multiparty"
	"github.com/tuneinsight/lattigo/v6/ring/ringqp"
	"pgregory.net/rapid"
)

// CPKCase: collective public-key generation.
type CPKCase struct {
	Common
	Sched   Sched `json:"sched"`
	CtLevel int   `json:"ctLevel"`
}

func (c CPKCase) RandSeed() uint64 { return c.Seed }

func genCPK(t *rapid.T) CPKCase {
	var c CPKCase
	c.Common = genCommon(t)
	c.Sched = genSched(t, c.Parties, "s")
	c.CtLevel = rapid.IntRange(0, len(c.Params.Q)-1).Draw(t, "ctLevel")
	return c
}

func cpkOps(p multiparty.PublicKeyGenProtocol, c Common) aggOps[multiparty.PublicKeyGenShare] {
	rng := c.junk()
	return aggOps[multiparty.PublicKeyGenShare]{
		clone: func(s multiparty.PublicKeyGenShare) multiparty.PublicKeyGenShare {
			return multiparty.PublicKeyGenShare{Value: *s.Value.CopyNew()}
		},
		alloc: func() multiparty.PublicKeyGenShare {
			s := p.AllocateShare()
			if c.DirtyOut {
				dirtyQP(s.Value, c.Params, rng)
			}
			return s
		},
		add: func(a, b multiparty.PublicKeyGenShare, out *multiparty.PublicKeyGenShare) error {
			p.AggregateShares(a, b, out)
			return nil
		},
		hop: func(s multiparty.PublicKeyGenShare, mode int) (multiparty.PublicKeyGenShare, error) {
			var out multiparty.PublicKeyGenShare
			b, err := hopBytes(mode, s.MarshalBinary, func(w *bytes.Buffer) (int64, error) { return s.WriteTo(w) }, s.BinarySize())
			if err != nil {
				return out, err
			}
			if mode == 1 {
				err = out.UnmarshalBinary(b)
			} else {
				_, err = out.ReadFrom(bytes.NewReader(b))
			}
			return out, err
		},
	}
}

func runCPK(c CPKCase, rec *h.Rec) error {
	if c.CtLevel < 0 || c.CtLevel >= len(c.Params.Q) {
		return fmt.Errorf("ctLevel out of range")
	}
	if err := validPre(c.Params, c.Pre); err != nil {
		return err
	}
	w, err := newWorld(c.Common)
	if err != nil {
		return err
	}
	params, n := w.params, w.n

	junk := c.junk()
	protos := make([]multiparty.PublicKeyGenProtocol, n)
	crps := make([]multiparty.PublicKeyGenCRP, n)
	shares := make([]multiparty.PublicKeyGenShare, n)
	var pre0 []ringqp.Poly
	for i := 0; i < n; i++ {
		if i == 0 || !c.Shallow {
			protos[i] = multiparty.NewPublicKeyGenProtocol(params)
		} else {
			protos[i] = protos[0].ShallowCopy()
		}
		crs, err := crsPRNG(c.CRS)
		if err != nil {
			return err
		}
		pre := runPre(params, c.Pre, crs)
		crps[i] = protos[i].SampleCRP(crs)
		if i == 0 {
			pre0 = pre
		} else if !eqQPList(pre, pre0) || !eqQP(crps[i].Value, crps[0].Value) {
			return h.Failf("C14:CRS:parties-read-different-polynomials", "party %d read other reference polynomials than party 0 after the same %d+1 SampleCRP calls (CKG)", i, len(c.Pre))
		}
		shares[i] = protos[i].AllocateShare()
		switch c.Receiver {
		case 1:
			dirtyQP(shares[i].Value, c.Params, junk)
		case 2:
			protos[i].GenShare(w.sks[i], protos[i].SampleCRP(junkCRS(c.Common)), &shares[i])
		}
		var in inputSnap
		in.snap("secret-key", w.sks[i].Value)
		in.snap("crp", crps[i].Value)
		protos[i].GenShare(w.sks[i], crps[i], &shares[i])
		if err := in.check("CKG", "GenShare", i); err != nil {
			return err
		}
	}

	ops := cpkOps(protos[0], c.Common)
	ref, _ := refAggregate(shares, ops)
	got, err := runSched(shares, c.Sched, ops)
	if err != nil {
		return h.Failf("C14:CKG:aggregation-failed", "%v", err)
	}
	{
		cong, unred := congQP(ref.Value, got.Value, c.Params.Q, c.Params.P)
		if err := scheduleVerdict(rec, "CKG", eqQP(ref.Value, got.Value), cong, unred, c.Sched.descr()); err != nil {
			return err
		}
	}

	pk := rlwe.NewPublicKey(params)
	if c.DirtyOut {
		dirtyQP(pk.Value[0], c.Params, junk)
		dirtyQP(pk.Value[1], c.Params, junk)
	}
	protos[n-1].GenPublicKey(got, crps[n-1], pk)

	// pk0 + s*pk1 = sum of the parties' errors
	be := int64(c.Params.Xe.AbsBound())
	rowBound := big.NewInt(int64(n) * be)
	norm, err := pkCheck(params, pk, w.skIdeal, rowBound)
	if err != nil {
		return h.Failf("C14:CKG:not-a-key-of-the-ideal-secret", "%v", err)
	}
	rec.Note("pkNoise", norm.String())

	// functional use: the single-party encryptor with the collective key, decrypted with the ideal secret
	sI := skToBig(params, w.skIdeal)
	s1 := new(big.Int).Mul(l1(sI), big.NewInt(ciFactor(c.Params)))
	u1 := new(big.Int).Mul(secretL1(c.Params, 1), big.NewInt(ciFactor(c.Params)))
	bound := new(big.Int).Mul(u1, rowBound)                // u * E
	bound.Add(bound, big.NewInt(be))                       // e0
	bound.Add(bound, new(big.Int).Mul(s1, big.NewInt(be))) // e1 * s
	rd := new(big.Int).Add(s1, big.NewInt(1))
	bound.Add(bound, rd.Mul(rd, big.NewInt(2))) // division by P
	bound.Add(bound, big.NewInt(1))

	Q := levelModulus(c.Params, c.CtLevel)
	m := uniformVec(h.NewSplitMix(c.MsgSeed), params.N(), Q)
	pt := plaintextOf(params, m, c.CtLevel)
	ct := rlwe.NewCiphertext(params, 1, c.CtLevel)
	if err := rlwe.NewEncryptor(params, pk).Encrypt(pt, ct); err != nil {
		return h.Failf("C14:CKG:encrypt-error", "Encrypt with the collective key: %v", err)
	}
	disc := discriminating(bound, Q)
	if diff := decryptDiff(params, w.skIdeal, ct, m); disc && diff.Cmp(bound) > 0 {
		return h.Failf("C14:CKG:encryption-does-not-decrypt", "pk-encryption decrypted with the ideal secret is off by 2^%d > bound 2^%d (Q=2^%d)", diff.BitLen(), bound.BitLen(), Q.BitLen())
	}

	rec.Class(nClass(n))
	rec.Class(c.receiverClass())
	rec.Class(ringClass(c.Params))
	rec.Class(c.Sched.descr())
	rec.Classf("pre=%d", len(c.Pre))
	if !disc {
		rec.Class("functional-not-discriminating")
	}
	if c.Sched.nontrivial() || c.Receiver != 0 || c.DirtyOut {
		rec.NonTrivial(fmt.Sprintf("ckg|%s|%s|%s|nP=%d|%s|pre=%d|shallow=%v", nClass(n), ringClass(c.Params), c.Sched.descr(), len(c.Params.P), sizeClass(c.Params.Q), len(c.Pre), c.Shallow) + "|" + c.receiverClass())
	}
	return nil
}

var propCPK = h.NewProp("TestPropCollectivePublicKey", h.Budget{Quick: 400, Thorough: 8000}, genCPK, runCPK)

func TestPropCollectivePublicKey(t *testing.T) { propCPK.Check(t) }
