package c14

import (
	"fmt"
	"math/big"

	"verif/internal/h"

	"github.com/tuneinsight/lattigo/v6/core/rlwe"
	"github.com/tuneinsight/lattigo/v6/multiparty"
	"github.com/tuneinsight/lattigo/v6/ring"
	"github.com/tuneinsight/lattigo/v6/ring/ringqp"
)

// world holds the parties of one case.
type world struct {
	spec    h.RLWESpec
	params  rlwe.Parameters
	n       int
	kgen    *rlwe.KeyGenerator
	sks     []*rlwe.SecretKey
	skIdeal *rlwe.SecretKey
}

// newSecrets draws n secrets with the single-party key generator and their sum, the ideal secret.
func newSecrets(params rlwe.Parameters, kgen *rlwe.KeyGenerator, n int) ([]*rlwe.SecretKey, *rlwe.SecretKey) {
	sks := make([]*rlwe.SecretKey, n)
	ideal := rlwe.NewSecretKey(params)
	for i := range sks {
		sks[i] = kgen.GenSecretKeyNew()
		params.RingQP().Add(ideal.Value, sks[i].Value, ideal.Value)
	}
	return sks, ideal
}

func newWorld(c Common) (*world, error) {
	if c.Parties < 1 || c.Parties > 16 {
		return nil, fmt.Errorf("parties out of range")
	}
	params, err := c.Params.Build()
	if err != nil {
		return nil, fmt.Errorf("parameters rejected: %w", err)
	}
	w := &world{spec: c.Params, params: params, n: c.Parties}
	w.kgen = rlwe.NewKeyGenerator(params)
	w.sks, w.skIdeal = newSecrets(params, w.kgen, w.n)
	return w, nil
}

// validKey checks that the key specification lies in the domain the generator draws from.
func validKey(s h.RLWESpec, k KeySpec) error {
	if k.LevelQ < 0 || k.LevelQ >= len(s.Q) {
		return fmt.Errorf("levelQ out of range")
	}
	if k.LevelP < -1 || k.LevelP >= len(s.P) {
		return fmt.Errorf("levelP out of range")
	}
	if k.W < 0 || k.W > 30 {
		return fmt.Errorf("w out of range")
	}
	return nil
}

// runPre performs the preliminary SampleCRP calls of one party on its own CRS instance, with its own protocol
// instances, and returns everything it read.
func runPre(params rlwe.Parameters, pre []PreCall, crs multiparty.CRS) []ringqp.Poly {
	var out []ringqp.Poly
	for _, p := range pre {
		switch p.Kind {
		case "pk":
			out = append(out, multiparty.NewPublicKeyGenProtocol(params).SampleCRP(crs).Value)
		case "evk":
			out = append(out, flatMatrix(multiparty.NewEvaluationKeyGenProtocol(params).SampleCRP(crs, p.Key.evk()).Value)...)
		case "rlk":
			out = append(out, flatMatrix(multiparty.NewRelinearizationKeyGenProtocol(params).SampleCRP(crs, p.Key.evk()).Value)...)
		case "gal":
			out = append(out, flatMatrix(multiparty.NewGaloisKeyGenProtocol(params).SampleCRP(crs, p.Key.evk()).Value)...)
		}
	}
	return out
}

func validPre(s h.RLWESpec, pre []PreCall) error {
	for _, p := range pre {
		switch p.Kind {
		case "pk":
		case "evk", "rlk", "gal":
			if err := validKey(s, p.Key); err != nil {
				return err
			}
		default:
			return fmt.Errorf("unknown pre-call kind %q", p.Kind)
		}
	}
	return nil
}

// ---------------------------------------------------------------------------------------------------------------
// oracles on the finished keys

// qpLimbs returns the limbs and moduli (Q then P) of p at the level of rqp.
func qpLimbs(rqp ringqp.Ring, p ringqp.Poly) ([][]uint64, []uint64) {
	var limbs [][]uint64
	var ms []uint64
	lq := rqp.RingQ.Level()
	limbs = append(limbs, p.Q.Coeffs[:lq+1]...)
	ms = append(ms, moduli(rqp.RingQ)...)
	if rqp.RingP != nil {
		lp := rqp.RingP.Level()
		limbs = append(limbs, p.P.Coeffs[:lp+1]...)
		ms = append(ms, moduli(rqp.RingP)...)
	}
	return limbs, ms
}

// centredNormQP returns the infinity norm of the centred representative of p (coefficient domain) modulo Q*P.
func centredNormQP(rqp ringqp.Ring, p ringqp.Poly) *big.Int {
	limbs, ms := qpLimbs(rqp, p)
	return h.InfNorm(h.VecCenter(h.CRT(limbs, ms), h.ProdU(ms)))
}

// rowCheck verifies every row (i,j) of a gadget ciphertext of degree 1:
//
//	b_ij + a_ij*sOut - P * 2^(w*j) * [limb in RNS group i] * sIn  =  e_ij   with |e_ij| <= bound   (mod Q_levelQ * P_levelP)
//
// sIn is given by its residues modulo every q of the chain in the NTT + Montgomery domain (as lattigo stores secrets),
// sOut as a secret-key polynomial. The gadget factors are recomputed here with math/big. Returns the largest norm seen.
func rowCheck(params rlwe.Parameters, g *rlwe.GadgetCiphertext, k KeySpec, sIn ring.Poly, sOut ringqp.Poly, bound *big.Int) (*big.Int, error) {
	return rowCheckAcc(params, g, k, sIn, sOut, bound, nil)
}

// noiseAcc pools the error coefficients of key rows (for the statistical noise oracle).
type noiseAcc struct {
	n     int
	sum   float64
	sumsq float64
}

func (a *noiseAcc) add(errs []*big.Int) {
	for _, e := range errs {
		f, _ := new(big.Float).SetInt(e).Float64()
		a.n++
		a.sum += f
		a.sumsq += f * f
	}
}

// meanSquare is the second moment about zero (the errors are centred distributions).
func (a *noiseAcc) meanSquare() float64 { return a.sumsq / float64(a.n) }

// centredQP returns the centred coefficients of p (coefficient domain) modulo Q*P.
func centredQP(rqp ringqp.Ring, p ringqp.Poly) []*big.Int {
	limbs, ms := qpLimbs(rqp, p)
	return h.VecCenter(h.CRT(limbs, ms), h.ProdU(ms))
}

// rowCheckAcc is rowCheck that also pools the row errors into acc (when not nil and the row is within the bound).
func rowCheckAcc(params rlwe.Parameters, g *rlwe.GadgetCiphertext, k KeySpec, sIn ring.Poly, sOut ringqp.Poly, bound *big.Int, acc *noiseAcc) (*big.Int, error) {
	rqp := params.RingQP().AtLevel(k.LevelQ, k.LevelP)
	rq := rqp.RingQ
	qs := moduli(rq)
	N := rq.N()

	sInC := ring.NewPoly(N, k.LevelQ)
	for u := 0; u <= k.LevelQ; u++ {
		copy(sInC.Coeffs[u], sIn.Coeffs[u])
	}
	rq.IMForm(sInC, sInC)
	rq.INTT(sInC, sInC)

	P := big.NewInt(1)
	if k.LevelP >= 0 {
		P = h.ProdU(moduli(rqp.RingP))
	}
	alpha := k.LevelP + 1
	if alpha < 1 {
		alpha = 1
	}
	wantRows := (k.LevelQ + alpha) / alpha
	if len(g.Value) != wantRows {
		return nil, fmt.Errorf("key has %d RNS rows, want %d", len(g.Value), wantRows)
	}
	if g.LevelQ() != k.LevelQ || g.LevelP() != k.LevelP {
		return nil, fmt.Errorf("key levels (%d,%d), want (%d,%d)", g.LevelQ(), g.LevelP(), k.LevelQ, k.LevelP)
	}

	maxNorm := new(big.Int)
	t := rqp.NewPoly()
	for i := range g.Value {
		for j := range g.Value[i] {
			row := g.Value[i][j]
			if len(row) != 2 {
				return nil, fmt.Errorf("row (%d,%d) has degree %d, want 1", i, j, len(row)-1)
			}
			t.CopyLvl(k.LevelQ, k.LevelP, row[0])
			rqp.MulCoeffsMontgomeryThenAdd(row[1], sOut, t)
			rqp.IMForm(t, t)
			rqp.INTT(t, t)
			for u := i * alpha; u < (i+1)*alpha && u <= k.LevelQ; u++ {
				q := qs[u]
				f := new(big.Int).Lsh(P, uint(k.W*j))
				fu := f.Mod(f, h.BU(q)).Uint64()
				tu, su := t.Q.Coeffs[u], sInC.Coeffs[u]
				for x := 0; x < N; x++ {
					tu[x] = submod(tu[x], mulmod(fu, su[x], q), q)
				}
			}
			errs := centredQP(rqp, t)
			norm := h.InfNorm(errs)
			if norm.Cmp(maxNorm) > 0 {
				maxNorm = norm
			}
			if norm.Cmp(bound) > 0 {
				return maxNorm, fmt.Errorf("row (%d,%d): |b + a*sOut - gadget*sIn| = 2^%d exceeds the bound %v", i, j, norm.BitLen(), bound)
			}
			if acc != nil {
				acc.add(errs)
			}
		}
	}
	return maxNorm, nil
}

// encryptSK encrypts the integer polynomial m (coefficients in [0,Q_level)) under sk with the single-party encryptor.
func encryptSK(params rlwe.Parameters, sk *rlwe.SecretKey, m []*big.Int, level int) (*rlwe.Ciphertext, error) {
	pt := plaintextOf(params, m, level)
	ct := rlwe.NewCiphertext(params, 1, level)
	if err := rlwe.NewEncryptor(params, sk).Encrypt(pt, ct); err != nil {
		return nil, err
	}
	return ct, nil
}

func plaintextOf(params rlwe.Parameters, m []*big.Int, level int) *rlwe.Plaintext {
	pt := rlwe.NewPlaintext(params, level)
	rq := params.RingQ().AtLevel(level)
	p := bigToPoly(rq, m, pt.IsNTT)
	for i := 0; i <= level; i++ {
		copy(pt.Value.Coeffs[i], p.Coeffs[i])
	}
	return pt
}

// decryptDiff decrypts ct with the single-party decryptor under sk and returns the infinity norm of the centred
// difference to the expected plaintext polynomial, modulo Q at the ciphertext's level.
func decryptDiff(params rlwe.Parameters, sk *rlwe.SecretKey, ct *rlwe.Ciphertext, want []*big.Int) *big.Int {
	pt := rlwe.NewDecryptor(params, sk).DecryptNew(ct)
	rq := params.RingQ().AtLevel(ct.Level())
	got := polyToBig(rq, pt.Value, pt.IsNTT)
	Q := h.ProdU(moduli(rq))
	return h.InfNorm(h.VecCenter(h.VecSub(got, want), Q))
}

func levelModulus(s h.RLWESpec, level int) *big.Int { return h.ProdU(s.Q[:level+1]) }

// ---------------------------------------------------------------------------------------------------------------
// inputs of a share generation must come back untouched

// inputSnap is a deep copy of the inputs a party hands to GenShare / GenShareRoundOne / GenShareRoundTwo.
type inputSnap struct {
	names []string
	live  [][]ringqp.Poly
	copy  [][]ringqp.Poly
}

// snap records a named group of polynomials (the live values are kept to be compared later).
func (s *inputSnap) snap(name string, ps ...ringqp.Poly) {
	cp := make([]ringqp.Poly, len(ps))
	for i := range ps {
		cp[i] = *ps[i].CopyNew()
	}
	s.names = append(s.names, name)
	s.live = append(s.live, ps)
	s.copy = append(s.copy, cp)
}

// check reports the first input that is no longer bit-identical to its snapshot.
func (s *inputSnap) check(tag, call string, party int) error {
	for g := range s.names {
		if !eqQPList(s.live[g], s.copy[g]) {
			return h.Failf("C14:"+tag+":"+call+"-modifies-input:"+s.names[g], "party %d: %s changed its input %q (a party's secret / the reference polynomials / a received aggregate must be read-only)", party, call, s.names[g])
		}
	}
	return nil
}

// gadgetPolys lists every polynomial of a gadget ciphertext.
func gadgetPolys(g *rlwe.GadgetCiphertext) []ringqp.Poly {
	var out []ringqp.Poly
	for i := range g.Value {
		for j := range g.Value[i] {
			out = append(out, g.Value[i][j]...)
		}
	}
	return out
}

// pkCheck verifies pk0 + s*pk1 = e with |e| <= bound over Q*P and returns the norm.
func pkCheck(params rlwe.Parameters, pk *rlwe.PublicKey, s *rlwe.SecretKey, bound *big.Int) (*big.Int, error) {
	return pkCheckAcc(params, pk, s, bound, nil)
}

func pkCheckAcc(params rlwe.Parameters, pk *rlwe.PublicKey, s *rlwe.SecretKey, bound *big.Int, acc *noiseAcc) (*big.Int, error) {
	rqp := *params.RingQP()
	t := rqp.NewPoly()
	t.Copy(pk.Value[0])
	rqp.MulCoeffsMontgomeryThenAdd(pk.Value[1], s.Value, t)
	rqp.IMForm(t, t)
	rqp.INTT(t, t)
	errs := centredQP(rqp, t)
	norm := h.InfNorm(errs)
	if norm.Cmp(bound) > 0 {
		return norm, fmt.Errorf("|pk0 + s*pk1| = 2^%d > n*B = %v", norm.BitLen(), bound)
	}
	if acc != nil {
		acc.add(errs)
	}
	return norm, nil
}
