package c14

import (
	"fmt"
	"math"
	"math/big"
	"testing"

	"verif/internal/h"

	"github.com/tuneinsight/lattigo/v6/core/rlwe"
	"github.com/tuneinsight/lattigo/v6/multiparty"
	"github.com/tuneinsight/lattigo/v6/ring/ringqp"
	"pgregory.net/rapid"
)

// StatCase: the same parties generate the same kind of key again and again with the SAME protocol instances (party 0's
// and ShallowCopies of it) until at least minSamples row-error coefficients are pooled; the pooled second moment is
// compared with n times the single-party variance (the class is the case: protocol, key parameters, n, distributions).
type StatCase struct {
	Common
	Kind  string  `json:"kind"` // "pk" | "evk" | "gal" | "rlk"
	Key   KeySpec `json:"key"`
	GalEl uint64  `json:"galEl,omitempty"`
}

func (c StatCase) RandSeed() uint64 { return c.Seed }

const (
	statMinSamples = 4096
	statMaxSamples = 40000
)

func genStat(t *rapid.T) StatCase {
	var c StatCase
	c.Params = genParamsMin(t, 6)
	c.Seed = rapid.Uint64().Draw(t, "seed")
	c.Parties = rapid.IntRange(1, 8).Draw(t, "parties")
	c.CRS = rapid.Uint64().Draw(t, "crs")
	c.Shallow = true
	if rapid.Bool().Draw(t, "keepBuffers") {
		c.Receiver = 2
	}
	c.DirtyOut = rapid.Bool().Draw(t, "dirtyOut")
	c.Kind = []string{"pk", "evk", "gal", "rlk"}[rapid.IntRange(0, 3).Draw(t, "kind")]
	if c.Kind != "pk" {
		c.Key = genKey(t, c.Params, "key")
	}
	if c.Kind == "gal" {
		c.GalEl = genGalEl(t, c.Params)
	}
	return c
}

// distVar is the variance of one coefficient: a rounded Gaussian truncated at >= 6 sigma has variance sigma^2 + 1/12 up
// to 1e-8 (Sheppard), a ternary coefficient is +-1 with probability p/2 each.
func distVar(d h.DistSpec) (float64, bool) {
	switch d.Kind {
	case "gauss":
		if d.Bound < 5*d.Sigma || d.Sigma < 1 {
			return 0, false
		}
		return d.Sigma*d.Sigma + 1.0/12, true
	case "ternaryP":
		return d.P, true
	}
	return 0, false
}

// autocorr returns c_0 = |s|_2^2 and rho = sum_k c_k^2 / c_0^2 for the negacyclic autocorrelation c_k of s: the second
// moment of (e*s) pooled over the N coefficients of one product has a relative variance of 2*rho/N for Gaussian e.
func autocorr(s []*big.Int) (c0, rho float64) {
	n := len(s)
	v := make([]float64, n)
	for i := range s {
		v[i], _ = new(big.Float).SetInt(s[i]).Float64()
	}
	var sum float64
	for k := 0; k < n; k++ {
		var ck float64
		for j := 0; j < n; j++ {
			i := j + k
			if i >= n {
				ck -= v[j] * v[i-n]
			} else {
				ck += v[j] * v[i]
			}
		}
		if k == 0 {
			c0 = ck
		}
		sum += ck * ck
	}
	if c0 == 0 {
		return 0, 1
	}
	return c0, sum / (c0 * c0)
}

func runStat(c StatCase, rec *h.Rec) error {
	if c.Kind != "pk" {
		if err := validKey(c.Params, c.Key); err != nil {
			return err
		}
	}
	if c.Kind == "gal" {
		if err := validGalEl(c.Params, c.GalEl); err != nil {
			return err
		}
	}
	w, err := newWorld(c.Common)
	if err != nil {
		return err
	}
	params, n := w.params, w.n
	N := params.N()
	ek := c.Key.evk()
	skOuts, skOutIdeal := newSecrets(params, w.kgen, n)
	idealIn := w.skIdeal.CopyNew()
	sI := skToBig(params, idealIn)
	be := int64(c.Params.Xe.AbsBound())
	nB := big.NewInt(int64(n) * be)

	rows := 1
	if c.Kind != "pk" {
		for _, d := range digitsOf(rlwe.NewGadgetCiphertext(params, 0, c.Key.LevelQ, c.Key.LevelP, c.Key.W)) {
			rows += d
		}
		rows--
	}
	perKey := rows * N
	v, okVar := distVar(c.Params.Xe)
	want := float64(n) * v
	lo, hi := 0.8, 1.25
	need := statMinSamples

	// instances: party 0's and ShallowCopies of it, used for every repetition
	pkP := make([]multiparty.PublicKeyGenProtocol, n)
	evkP := make([]multiparty.EvaluationKeyGenProtocol, n)
	galP := make([]multiparty.GaloisKeyGenProtocol, n)
	rlkP := make([]multiparty.RelinearizationKeyGenProtocol, n)
	for i := 0; i < n; i++ {
		if i == 0 {
			pkP[i] = multiparty.NewPublicKeyGenProtocol(params)
			evkP[i] = multiparty.NewEvaluationKeyGenProtocol(params)
			galP[i] = multiparty.NewGaloisKeyGenProtocol(params)
			rlkP[i] = multiparty.NewRelinearizationKeyGenProtocol(params)
		} else {
			pkP[i] = pkP[0].ShallowCopy()
			evkP[i] = evkP[0].ShallowCopy()
			galP[i] = galP[0].ShallowCopy()
			rlkP[i] = rlkP[0].ShallowCopy()
		}
	}
	crs := make([]multiparty.CRS, n)
	for i := range crs {
		if crs[i], err = crsPRNG(c.CRS); err != nil {
			return err
		}
	}
	var skSnap inputSnap
	for i := 0; i < n; i++ {
		skSnap.snap("secret-key", w.sks[i].Value)
		skSnap.snap("output-secret-key", skOuts[i].Value)
	}
	sameCRP := func(rep, i int, got, first []ringqp.Poly) error {
		if i > 0 && !eqQPList(got, first) {
			return h.Failf("C14:CRS:parties-read-different-polynomials", "repetition %d (%s): party %d read other reference polynomials than party 0", rep, c.Kind, i)
		}
		return nil
	}

	// with Receiver != 0 every party keeps ONE share buffer per protocol (and one ephemeral key) for all repetitions:
	// from the second repetition on GenShare writes into an object holding the previous share (party 0: the previous aggregate)
	keep := c.Receiver != 0
	pkSh := make([]multiparty.PublicKeyGenShare, n)
	evkSh := make([]multiparty.EvaluationKeyGenShare, n)
	galSh := make([]multiparty.GaloisKeyGenShare, n)
	r1Sh := make([]multiparty.RelinearizationKeyGenShare, n)
	r2Sh := make([]multiparty.RelinearizationKeyGenShare, n)
	ephSh := make([]*rlwe.SecretKey, n)
	if keep {
		for i := 0; i < n; i++ {
			switch c.Kind {
			case "pk":
				pkSh[i] = pkP[i].AllocateShare()
			case "evk":
				evkSh[i] = evkP[i].AllocateShare(ek)
			case "gal":
				galSh[i] = galP[i].AllocateShare(ek)
			case "rlk":
				ephSh[i], r1Sh[i], r2Sh[i] = rlkP[i].AllocateShare(ek)
			}
		}
	}
	junk := c.junk()

	var sOutGal *rlwe.SecretKey
	if c.Kind == "gal" {
		gInv := new(big.Int).ModInverse(h.BU(c.GalEl), h.BU(c.Params.NthRoot())).Uint64()
		sOutGal = bigToSk(params, ringAut(sI, gInv, c.Params.CI))
	}
	s2 := params.RingQ().NewPoly()
	params.RingQ().MulCoeffsMontgomery(idealIn.Value.Q, idealIn.Value.Q, s2)
	ci := big.NewInt(ciFactor(c.Params))
	s1 := new(big.Int).Mul(l1(sI), ci)
	u1 := new(big.Int).Mul(secretL1(c.Params, n), ci)
	erowRLK := new(big.Int).Add(s1, u1)
	erowRLK.Add(erowRLK, big.NewInt(1))
	erowRLK.Mul(erowRLK, nB)

	judged := okVar
	reason := ""
	if !okVar {
		reason = "error-variance-unknown"
	}
	if c.Kind == "rlk" {
		QP := h.ProdU(c.Params.Q[:c.Key.LevelQ+1])
		if c.Key.LevelP >= 0 {
			QP.Mul(QP, h.ProdU(c.Params.P[:c.Key.LevelP+1]))
		}
		switch {
		case c.Params.CI:
			judged, reason = false, "rlk-ci-ring"
		case !discriminating(erowRLK, QP):
			judged, reason = false, "rlk-rows-not-discriminating"
		}
		lo, hi = 0.7, 1.4
	}

	var acc noiseAcc
	var wantSum float64 // for rlk: sum over repetitions of the per-coefficient variance (the ephemeral secrets change)
	reps := 0
	for acc.n < need && acc.n+perKey <= statMaxSamples+perKey && reps < 400 {
		rep := reps
		reps++
		switch c.Kind {
		case "pk":
			var agg multiparty.PublicKeyGenShare
			var crp0 multiparty.PublicKeyGenCRP
			for i := 0; i < n; i++ {
				crp := pkP[i].SampleCRP(crs[i])
				if i == 0 {
					crp0 = crp
				}
				if err := sameCRP(rep, i, []ringqp.Poly{crp.Value}, []ringqp.Poly{crp0.Value}); err != nil {
					return err
				}
				sh := pkSh[i]
				if !keep {
					sh = pkP[i].AllocateShare()
				}
				pkP[i].GenShare(w.sks[i], crp, &sh)
				if i == 0 {
					agg = sh
				} else {
					pkP[0].AggregateShares(agg, sh, &agg)
				}
			}
			pk := rlwe.NewPublicKey(params)
			if c.DirtyOut {
				dirtyQP(pk.Value[0], c.Params, junk)
				dirtyQP(pk.Value[1], c.Params, junk)
			}
			pkP[0].GenPublicKey(agg, crp0, pk)
			if _, err := pkCheckAcc(params, pk, idealIn, nB, &acc); err != nil {
				return h.Failf("C14:STAT:pk:not-a-key-of-the-ideal-secret", "repetition %d with re-used protocol instances: %v", rep, err)
			}
		case "evk":
			var agg multiparty.EvaluationKeyGenShare
			var crp0 multiparty.EvaluationKeyGenCRP
			for i := 0; i < n; i++ {
				crp := evkP[i].SampleCRP(crs[i], ek)
				if i == 0 {
					crp0 = crp
				}
				if err := sameCRP(rep, i, flatMatrix(crp.Value), flatMatrix(crp0.Value)); err != nil {
					return err
				}
				sh := evkSh[i]
				if !keep {
					sh = evkP[i].AllocateShare(ek)
				}
				if err := evkP[i].GenShare(w.sks[i], skOuts[i], crp, &sh); err != nil {
					return h.Failf("C14:EVK:GenShare-error", "repetition %d party %d: %v", rep, i, err)
				}
				if i == 0 {
					agg = sh
				} else if err := evkP[0].AggregateShares(agg, sh, &agg); err != nil {
					return h.Failf("C14:EVK:aggregation-failed", "repetition %d: %v", rep, err)
				}
			}
			evk := rlwe.NewEvaluationKey(params, ek)
			if c.DirtyOut {
				dirtyGadget(&evk.GadgetCiphertext, c.Params, junk)
			}
			if err := evkP[0].GenEvaluationKey(agg, crp0, evk); err != nil {
				return h.Failf("C14:GenEvaluationKey:error", "repetition %d: %v", rep, err)
			}
			if _, err := rowCheckAcc(params, &evk.GadgetCiphertext, c.Key, idealIn.Value.Q, skOutIdeal.Value, nB, &acc); err != nil {
				return h.Failf("C14:STAT:evk:not-a-key-of-the-ideal-secret", "repetition %d with re-used protocol instances: %v", rep, err)
			}
		case "gal":
			var agg multiparty.GaloisKeyGenShare
			var crp0 multiparty.GaloisKeyGenCRP
			for i := 0; i < n; i++ {
				crp := galP[i].SampleCRP(crs[i], ek)
				if i == 0 {
					crp0 = crp
				}
				if err := sameCRP(rep, i, flatMatrix(crp.Value), flatMatrix(crp0.Value)); err != nil {
					return err
				}
				sh := galSh[i]
				if !keep {
					sh = galP[i].AllocateShare(ek)
				}
				if err := galP[i].GenShare(w.sks[i], c.GalEl, crp, &sh); err != nil {
					return h.Failf("C14:GKG:GenShare-error", "repetition %d party %d: %v", rep, i, err)
				}
				if i == 0 {
					agg = sh
				} else if err := galP[0].AggregateShares(agg, sh, &agg); err != nil {
					return h.Failf("C14:GKG:aggregation-failed", "repetition %d: %v", rep, err)
				}
			}
			gk := rlwe.NewGaloisKey(params, ek)
			if c.DirtyOut {
				dirtyGadget(&gk.GadgetCiphertext, c.Params, junk)
			}
			if err := galP[0].GenGaloisKey(agg, crp0, gk); err != nil {
				return h.Failf("C14:GenEvaluationKey:error", "repetition %d: %v", rep, err)
			}
			if _, err := rowCheckAcc(params, &gk.GadgetCiphertext, c.Key, idealIn.Value.Q, sOutGal.Value, nB, &acc); err != nil {
				return h.Failf("C14:STAT:gal:not-a-key-of-the-ideal-secret", "repetition %d with re-used protocol instances: %v", rep, err)
			}
		case "rlk":
			eph := make([]*rlwe.SecretKey, n)
			r2 := make([]multiparty.RelinearizationKeyGenShare, n)
			var acc1, acc2 multiparty.RelinearizationKeyGenShare
			uIdeal := rlwe.NewSecretKey(params)
			for i := 0; i < n; i++ {
				crp := rlkP[i].SampleCRP(crs[i], ek)
				var r1 multiparty.RelinearizationKeyGenShare
				if keep {
					eph[i], r1, r2[i] = ephSh[i], r1Sh[i], r2Sh[i]
				} else {
					eph[i], r1, r2[i] = rlkP[i].AllocateShare(ek)
				}
				rlkP[i].GenShareRoundOne(w.sks[i], crp, eph[i], &r1)
				params.RingQP().AtLevel(c.Key.LevelQ, c.Key.LevelP).Add(uIdeal.Value, eph[i].Value, uIdeal.Value)
				if i == 0 {
					acc1 = r1
				} else {
					if err := callErr(rlkP[0].AggregateShares, acc1, r1, &acc1); err != nil {
						return h.Failf("C14:RKG:aggregation-failed", "repetition %d round one: %v", rep, err)
					}
				}
			}
			for i := 0; i < n; i++ {
				rlkP[i].GenShareRoundTwo(eph[i], w.sks[i], acc1, &r2[i])
				if i == 0 {
					acc2 = r2[0]
				} else {
					if err := callErr(rlkP[0].AggregateShares, acc2, r2[i], &acc2); err != nil {
						return h.Failf("C14:RKG:aggregation-failed", "repetition %d round two: %v", rep, err)
					}
				}
			}
			rlk := rlwe.NewRelinearizationKey(params, ek)
			if c.DirtyOut {
				dirtyGadget(&rlk.GadgetCiphertext, c.Params, junk)
			}
			if err := callErr(rlkP[0].GenRelinearizationKey, acc1, acc2, rlk); err != nil {
				return h.Failf("C14:RKG:GenRelinearizationKey-error", "repetition %d: %v", rep, err)
			}
			var racc noiseAcc
			_, err := rowCheckAcc(params, &rlk.GadgetCiphertext, c.Key, s2, idealIn.Value, erowRLK, &racc)
			if err != nil && judged {
				return h.Failf("C14:STAT:rlk:not-a-key-of-the-ideal-secret", "repetition %d with re-used protocol instances: %v", rep, err)
			}
			if judged {
				// per-coefficient variance of e0*s + e1 + u*e2 (standard ring): n*v*(|s|^2 + 1 + |u|^2); the number of
				// effectively independent samples shrinks by the autocorrelation factor rho of s and u
				cs, rhoS := autocorr(sI)
				cu, rhoU := autocorr(skToBigAt(params, uIdeal, c.Key.LevelQ))
				rho := math.Max(1, math.Max(rhoS, rhoU))
				if rep == 0 {
					need = int(float64(statMinSamples) * 1.5 * rho)
					if need > statMaxSamples {
						judged, reason = false, "rlk-too-correlated"
					}
				}
				wantSum += float64(racc.n) * float64(n) * v * (cs + 1 + cu)
			}
			acc.n += racc.n
			acc.sum += racc.sum
			acc.sumsq += racc.sumsq
		}
		if err := skSnap.check("STAT", "protocol-run("+c.Kind+")", rep); err != nil {
			return err
		}
		if !judged && reps >= 2 {
			break // the hard checks of two uses of the same instances are still made
		}
	}
	if judged && acc.n < need {
		judged, reason = false, "too-few-samples"
	}
	if judged {
		if c.Kind == "rlk" {
			want = wantSum / float64(acc.n)
		}
		ratio := acc.meanSquare() / want
		rec.Note("varianceRatio", ratio)
		rec.Classf("%s:ratio~%.2f", c.Kind, math.Round(ratio*20)/20)
		if ratio < lo || ratio > hi {
			return h.Failf("C14:STAT:"+c.Kind+":row-noise-variance", "pooled second moment of %d row-error coefficients over %d keys = %.4g, expected n x single-party variance = %.4g (ratio %.3f outside [%.2f, %.2f]; n=%d, Xe=%+v)", acc.n, reps, acc.meanSquare(), want, ratio, lo, hi, n, c.Params.Xe)
		}
	}

	rec.Class(c.Kind)
	rec.Class(c.receiverClass())
	rec.Class(nClass(n))
	rec.Class(ringClass(c.Params))
	rec.Class("xe=" + c.Params.Xe.Kind)
	if c.Kind != "pk" {
		rec.Class(keyClass(c.Params, c.Key))
	}
	if judged {
		rec.Class("judged")
		rec.NonTrivial(fmt.Sprintf("stat|%s|%s|%s|xe=%s%v|%s|reps=%d", c.Kind, nClass(n), ringClass(c.Params), c.Params.Xe.Kind, c.Params.Xe.Sigma, keyClass(c.Params, c.Key), reps) + "|" + c.receiverClass())
	} else {
		rec.Class("unjudged:" + reason)
	}
	return nil
}

var propStat = h.NewProp("TestPropCollectiveKeyNoiseStatistics", h.Budget{Quick: 100, Thorough: 1500}, genStat, runStat)

func TestPropCollectiveKeyNoiseStatistics(t *testing.T) { propStat.Check(t) }
