package c14

import (
	"fmt"
	"slices"
	"testing"

	"verif/internal/h"

	"github.com/tuneinsight/lattigo/v6/core/rlwe"
	"github.com/tuneinsight/lattigo/v6/multiparty"
	"pgregory.net/rapid"
)

// FinCase: the key finalisation (GenEvaluationKey / GenGaloisKey / GenRelinearizationKey) is handed an aggregated share
// together with a CRP, a second-round share or a key container made for other key parameters.
type FinCase struct {
	RejectCase
	Which string `json:"which"` // the object that follows KeyB: "crp" | "key" (evk, gal); "round2" | "key" (rkg)
}

func (c FinCase) RandSeed() uint64 { return c.Seed }

func genFin(t *rapid.T) FinCase {
	var c FinCase
	c.RejectCase = genRejectBase(t, false)
	if c.Proto == "rkg1" || c.Proto == "rkg2" {
		c.Proto = "rkg"
		c.Which = []string{"round2", "key"}[rapid.IntRange(0, 1).Draw(t, "which")]
	} else {
		c.Which = []string{"crp", "key"}[rapid.IntRange(0, 1).Draw(t, "which")]
	}
	c.Swap, c.Out = false, 0
	return c
}

func shapeOf(params rlwe.Parameters, k KeySpec) []int {
	g := rlwe.NewGadgetCiphertext(params, 0, k.LevelQ, k.LevelP, k.W)
	return append([]int{g.LevelQ(), g.LevelP()}, digitsOf(g)...)
}

func runFin(c FinCase, rec *h.Rec) error {
	if err := validKey(c.Params, c.KeyA); err != nil {
		return err
	}
	if err := validKey(c.Params, c.KeyB); err != nil {
		return err
	}
	differs := false
	switch c.Mismatch {
	case "w":
		differs = c.KeyA.W != c.KeyB.W && c.KeyA.LevelP <= 0 && c.KeyA.LevelQ == c.KeyB.LevelQ && c.KeyA.LevelP == c.KeyB.LevelP
	case "levelQ":
		differs = c.KeyA.LevelQ != c.KeyB.LevelQ
	case "levelP":
		differs = c.KeyA.LevelP != c.KeyB.LevelP
	}
	if !differs {
		return fmt.Errorf("case has no mismatch of kind %q", c.Mismatch)
	}
	if c.Proto == "gal" {
		if err := validGalEl(c.Params, c.GalA); err != nil {
			return err
		}
	}
	w, err := newWorld(Common{Params: c.Params, Parties: 1})
	if err != nil {
		return err
	}
	params := w.params
	ekA, ekB := c.KeyA.evk(), c.KeyB.evk()
	pick := func(which string) rlwe.EvaluationKeyParameters {
		if c.Which == which {
			return ekB
		}
		return ekA
	}
	// a CRP is nothing but a matrix of uniform polynomials: one made for another base-2 decomposition that happens to
	// have the same shape IS a valid CRP for this key, not a mismatch
	if c.Which == "crp" && slices.Equal(shapeOf(params, c.KeyA), shapeOf(params, c.KeyB)) {
		rec.Class("crp-of-identical-shape:not-a-mismatch")
		return nil
	}

	var call func() error
	tag := ""
	switch c.Proto {
	case "evk":
		tag = "EVK"
		p := multiparty.NewEvaluationKeyGenProtocol(params)
		skOuts, _ := newSecrets(params, w.kgen, 1)
		crs, _ := crsPRNG(c.CRS)
		crpA := p.SampleCRP(crs, ekA)
		sh := p.AllocateShare(ekA)
		if err := p.GenShare(w.sks[0], skOuts[0], crpA, &sh); err != nil {
			return h.Failf("C14:EVK:GenShare-error", "%v", err)
		}
		crs2, _ := crsPRNG(c.CRS)
		crp := p.SampleCRP(crs2, pick("crp"))
		evk := rlwe.NewEvaluationKey(params, pick("key"))
		call = func() error { return p.GenEvaluationKey(sh, crp, evk) }
	case "gal":
		tag = "GKG"
		p := multiparty.NewGaloisKeyGenProtocol(params)
		crs, _ := crsPRNG(c.CRS)
		crpA := p.SampleCRP(crs, ekA)
		sh := p.AllocateShare(ekA)
		if err := p.GenShare(w.sks[0], c.GalA, crpA, &sh); err != nil {
			return h.Failf("C14:GKG:GenShare-error", "%v", err)
		}
		crs2, _ := crsPRNG(c.CRS)
		crp := p.SampleCRP(crs2, pick("crp"))
		gk := rlwe.NewGaloisKey(params, pick("key"))
		call = func() error { return p.GenGaloisKey(sh, crp, gk) }
	case "rkg":
		tag = "RKG"
		p := multiparty.NewRelinearizationKeyGenProtocol(params)
		var r1, r2 [2]multiparty.RelinearizationKeyGenShare
		for i, ek := range []rlwe.EvaluationKeyParameters{ekA, ekB} {
			crs, _ := crsPRNG(c.CRS)
			crp := p.SampleCRP(crs, ek)
			eph, a, b := p.AllocateShare(ek)
			p.GenShareRoundOne(w.sks[0], crp, eph, &a)
			p.GenShareRoundTwo(eph, w.sks[0], a, &b)
			r1[i], r2[i] = a, b
		}
		round2 := r2[0]
		if c.Which == "round2" {
			round2 = r2[1]
		}
		rlk := rlwe.NewRelinearizationKey(params, pick("key"))
		// (before the fix GenRelinearizationKey had no error result: it could only combine or panic)
		call = func() error { return callErr(p.GenRelinearizationKey, r1[0], round2, rlk) }
	default:
		return fmt.Errorf("unknown protocol")
	}

	panicked, pmsg, err := protect(call)
	outcome := "rejected"
	switch {
	case panicked:
		outcome = "panic"
	case err == nil:
		outcome = "silently-finalised"
	}
	rec.Class(tag + ":" + c.Which + ":" + c.Mismatch + ":" + outcome)
	if outcome != "rejected" {
		key := fmt.Sprintf("C14:reject-finalize:%s:%s:%s:%s", tag, c.Which, c.Mismatch, outcome)
		msg := fmt.Sprintf("key finalisation with a share for %+v and a %s for %+v: %s %s", c.KeyA, c.Which, c.KeyB, outcome, pmsg)
		if !rec.Known(key, msg) {
			return h.Failf(key, "%s", msg)
		}
		rec.Class("known=" + key)
	}
	rec.NonTrivial(fmt.Sprintf("fin|%s|%s|%s|%s|%s|%s", c.Proto, c.Which, c.Mismatch, ringClass(c.Params), keyClass(c.Params, c.KeyA), keyClass(c.Params, c.KeyB)))
	return nil
}

var propFin = h.NewProp("TestPropMismatchedFinalisationRejected", h.Budget{Quick: 400, Thorough: 5000}, genFin, runFin)

func TestPropMismatchedFinalisationRejected(t *testing.T) { propFin.Check(t) }
