package c14

import (
	"bytes"
	"encoding/binary"
	"fmt"
	"math/big"
	"math/bits"
	"reflect"
	"testing"

	"verif/internal/h"

	"github.com/tuneinsight/lattigo/v6/core/rlwe"
	"github.com/tuneinsight/lattigo/v6/ring"
	"github.com/tuneinsight/lattigo/v6/ring/ringqp"
	"github.com/tuneinsight/lattigo/v6/utils/sampling"
	"pgregory.net/rapid"
)

func TestMain(m *testing.M) { h.Main(m, "C14") }

func TestReplay(t *testing.T) { h.ReplayAll(t) }

// ---------------------------------------------------------------------------------------------------------------
// plain-data case parts

// KeySpec is the plain-data form of rlwe.EvaluationKeyParameters.
type KeySpec struct {
	LevelQ int `json:"levelQ"`
	LevelP int `json:"levelP"` // -1: no auxiliary modulus
	W      int `json:"w"`      // BaseTwoDecomposition (0: none)
}

func (k KeySpec) evk() rlwe.EvaluationKeyParameters {
	lq, lp, w := k.LevelQ, k.LevelP, k.W
	return rlwe.EvaluationKeyParameters{LevelQ: &lq, LevelP: &lp, BaseTwoDecomposition: &w}
}

// PreCall is one SampleCRP call made on the common reference string before the one the protocol run uses
// (moves the read position of the CRS; every party makes the same calls).
type PreCall struct {
	Kind string  `json:"kind"` // "pk" | "evk" | "rlk" | "gal"
	Key  KeySpec `json:"key"`
}

// Sched describes how the n shares are aggregated: the order of the leaves, a binary tree given as n-1 merge steps
// over the shrinking list of partial aggregates, optional serialisation hops and the output aliasing per merge.
type Sched struct {
	Perm   []int    `json:"perm"`   // leaf order (a permutation of 0..n-1)
	Merges [][2]int `json:"merges"` // step k merges entries a and b of the current list (taken modulo its length)
	Ser    []int    `json:"ser"`    // 2n-1 entries (leaves, then merge results): 0 none, 1 Marshal/Unmarshal, 2 WriteTo/ReadFrom
	Alias  []int    `json:"alias"`  // n-1 entries: 0 fresh output, 1 output = first operand (what lattigo's tests do)
}

// Common is shared by all protocol cases.
type Common struct {
	Params  h.RLWESpec `json:"params"`
	Seed    uint64     `json:"seed"`
	Parties int        `json:"parties"`
	CRS     uint64     `json:"crs"`
	Shallow bool       `json:"shallow"` // parties 1.. use ShallowCopy of party 0's protocol instead of their own instance
	Pre     []PreCall  `json:"pre,omitempty"`
	MsgSeed uint64     `json:"msgSeed"`
	// Receiver: history of the share objects handed to GenShare / GenShareRoundOne / Two as output:
	// 0 freshly allocated, 1 pre-filled with arbitrary residues, 2 already used as the output of an earlier share
	// generation (other CRP / Galois element), as a party that keeps one buffer per protocol does.
	Receiver int `json:"receiver,omitempty"`
	// DirtyOut: the fresh outputs of AggregateShares and the key containers given to the finalisers are pre-filled.
	DirtyOut bool `json:"dirtyOut,omitempty"`
}

// junk returns the generator of the arbitrary earlier contents of a case.
func (c Common) junk() *h.SplitMix { return h.NewSplitMix(c.MsgSeed ^ 0x6a756e6b) }

func (c Common) receiverClass() string {
	return "receiver=" + []string{"fresh", "prefilled", "earlier-share"}[c.Receiver%3] + fmt.Sprintf(",outputs-prefilled=%v", c.DirtyOut)
}

// dirtyPoly overwrites every limb of p with arbitrary reduced residues.
func dirtyPoly(p ring.Poly, ms []uint64, rng *h.SplitMix) {
	for i := range p.Coeffs {
		for j := range p.Coeffs[i] {
			p.Coeffs[i][j] = rng.Uint64() % ms[i]
		}
	}
}

func dirtyQP(p ringqp.Poly, s h.RLWESpec, rng *h.SplitMix) {
	dirtyPoly(p.Q, s.Q, rng)
	dirtyPoly(p.P, s.P, rng)
}

func dirtyGadget(g *rlwe.GadgetCiphertext, s h.RLWESpec, rng *h.SplitMix) {
	for i := range g.Value {
		for j := range g.Value[i] {
			for k := range g.Value[i][j] {
				dirtyQP(g.Value[i][j][k], s, rng)
			}
		}
	}
}

// junkCRS is a second reference string, used only to give receivers an earlier life.
func junkCRS(c Common) *sampling.KeyedPRNG {
	p, err := crsPRNG(c.CRS ^ 0x5555aaaa5555aaaa)
	if err != nil {
		panic(err)
	}
	return p
}

// ---------------------------------------------------------------------------------------------------------------
// generators

func maxLogN() int {
	if h.Thorough() {
		return 9
	}
	return 7
}

// genParams draws an RLWE literal: 1-4 Q primes of mixed sizes, 0-2 P primes (mostly at least as large as the largest
// Q prime, as every caller chooses them), both ring types, both NTT flags, assorted secret / error distributions.
func genParams(t *rapid.T) h.RLWESpec { return genParamsMin(t, 4) }

// genParamsMin is genParams with a lower bound on log2 N.
func genParamsMin(t *rapid.T, minLogN int) h.RLWESpec {
	var s h.RLWESpec
	s.LogN = rapid.IntRange(minLogN, maxLogN()).Draw(t, "logN")
	s.CI = rapid.IntRange(0, 3).Draw(t, "ringType") == 0
	s.NTT = rapid.Bool().Draw(t, "nttFlag")
	m := s.NthRoot()
	minb := h.MinPrimeBits(m) + 6
	if minb < 16 {
		minb = 16
	}
	nQ := rapid.IntRange(1, 4).Draw(t, "nQ")
	nP := rapid.IntRange(0, 2).Draw(t, "nP")
	used := map[uint64]bool{}
	var qsz []int
	switch rapid.IntRange(0, 3).Draw(t, "qShape") {
	case 0: // one big prime then equal smaller ones
		b0 := rapid.IntRange(45, 60).Draw(t, "q0")
		b := rapid.IntRange(25, 45).Draw(t, "qi")
		qsz = make([]int, nQ)
		for i := range qsz {
			qsz[i] = b
		}
		qsz[0] = b0
	case 1: // equal sizes
		b := rapid.IntRange(minb, 60).Draw(t, "qeq")
		qsz = make([]int, nQ)
		for i := range qsz {
			qsz[i] = b
		}
	default:
		qsz = h.GenSizes(t, nQ, minb, 60, "q")
	}
	s.Q = h.GenPrimes(t, qsz, m, used, "q")
	if nP > 0 {
		maxq := 0
		for _, q := range s.Q {
			if b := bits.Len64(q); b > maxq {
				maxq = b
			}
		}
		var psz []int
		switch rapid.IntRange(0, 4).Draw(t, "pShape") {
		case 0: // arbitrary sizes
			psz = h.GenSizes(t, nP, minb, 61, "p")
		case 1:
			psz = make([]int, nP)
			for i := range psz {
				psz[i] = 61
			}
		default:
			psz = h.GenSizes(t, nP, maxq, 61, "p")
		}
		s.P = h.GenPrimes(t, psz, m, used, "p")
	}
	s.Xs = h.GenDist(t, true, s.N(), "xs")
	// error distributions: Gaussians of several widths and (rarely used by callers, accepted by lattigo) ternary
	s.Xe = h.GenDist(t, false, s.N(), "xe")
	return s
}

// genKey draws evaluation-key parameters the protocols accept for the parameter set.
func genKey(t *rapid.T, s h.RLWESpec, label string) KeySpec {
	var k KeySpec
	maxQ, maxP := len(s.Q)-1, len(s.P)-1
	if rapid.IntRange(0, 1).Draw(t, label+"LQmax") == 0 {
		k.LevelQ = maxQ
	} else {
		k.LevelQ = rapid.IntRange(0, maxQ).Draw(t, label+"LQ")
	}
	// LevelP = -1 (key without auxiliary modulus) is what parameter sets without P use; it is also accepted, and
	// generated now and then, for parameter sets that have a P.
	if maxP < 0 || rapid.IntRange(0, 7).Draw(t, label+"LPnone") == 0 {
		k.LevelP = -1
	} else if rapid.IntRange(0, 1).Draw(t, label+"LPmax") == 0 {
		k.LevelP = maxP
	} else {
		k.LevelP = rapid.IntRange(0, maxP).Draw(t, label+"LP")
	}
	wk := rapid.IntRange(0, 7).Draw(t, label+"wKind")
	switch {
	case k.LevelP > 0:
		// the base-2 decomposition is ignored with more than one P prime; the value is only carried along
		if wk == 0 {
			k.W = rapid.IntRange(4, 24).Draw(t, label+"w")
		}
	case k.LevelP == 0:
		if wk >= 3 {
			k.W = rapid.IntRange(4, 24).Draw(t, label+"w")
		}
	default: // no P: a base-2 decomposition is what callers use
		if wk >= 1 {
			k.W = rapid.IntRange(4, 24).Draw(t, label+"w")
		}
	}
	return k
}

func genPre(t *rapid.T, s h.RLWESpec) []PreCall {
	n := rapid.IntRange(0, 2).Draw(t, "nPre")
	if rapid.IntRange(0, 2).Draw(t, "preNone") == 0 {
		n = 0
	}
	out := make([]PreCall, n)
	kinds := []string{"pk", "evk", "rlk", "gal"}
	for i := range out {
		out[i].Kind = kinds[rapid.IntRange(0, 3).Draw(t, fmt.Sprintf("preKind%d", i))]
		if out[i].Kind != "pk" {
			out[i].Key = genKey(t, s, fmt.Sprintf("pre%d", i))
		}
	}
	return out
}

func genCommon(t *rapid.T) Common {
	var c Common
	c.Params = genParams(t)
	c.Seed = rapid.Uint64().Draw(t, "seed")
	switch rapid.IntRange(0, 5).Draw(t, "nKind") {
	case 0:
		c.Parties = 1
	case 1:
		c.Parties = 8
	default:
		c.Parties = rapid.IntRange(2, 8).Draw(t, "parties")
	}
	c.CRS = rapid.Uint64().Draw(t, "crs")
	c.Shallow = rapid.Bool().Draw(t, "shallow")
	c.Pre = genPre(t, c.Params)
	c.MsgSeed = rapid.Uint64().Draw(t, "msgSeed")
	if r := rapid.IntRange(0, 3).Draw(t, "receiver"); r >= 2 {
		c.Receiver = r - 1
	}
	c.DirtyOut = rapid.Bool().Draw(t, "dirtyOut")
	return c
}

func genSched(t *rapid.T, n int, label string) Sched {
	var s Sched
	ids := make([]int, n)
	for i := range ids {
		ids[i] = i
	}
	if rapid.IntRange(0, 3).Draw(t, label+"permId") == 0 {
		s.Perm = ids
	} else {
		s.Perm = rapid.Permutation(ids).Draw(t, label+"perm")
	}
	leftDeep := rapid.IntRange(0, 2).Draw(t, label+"leftDeep") == 0
	serKind := rapid.IntRange(0, 2).Draw(t, label+"serKind") // 0 never, 1 sometimes, 2 always
	s.Merges = make([][2]int, 0, n)
	s.Alias = make([]int, 0, n)
	for k := 0; k < n-1; k++ {
		l := n - k
		a, b := 0, 1
		if !leftDeep {
			a = rapid.IntRange(0, l-1).Draw(t, fmt.Sprintf("%sma%d", label, k))
			b = rapid.IntRange(0, l-2).Draw(t, fmt.Sprintf("%smb%d", label, k))
			if b >= a {
				b++
			}
		}
		s.Merges = append(s.Merges, [2]int{a, b})
		s.Alias = append(s.Alias, rapid.IntRange(0, 1).Draw(t, fmt.Sprintf("%sal%d", label, k)))
	}
	s.Ser = make([]int, 2*n-1)
	for i := range s.Ser {
		switch serKind {
		case 1:
			if rapid.IntRange(0, 2).Draw(t, fmt.Sprintf("%sserOn%d", label, i)) == 0 {
				s.Ser[i] = rapid.IntRange(1, 2).Draw(t, fmt.Sprintf("%sser%d", label, i))
			}
		case 2:
			s.Ser[i] = rapid.IntRange(1, 2).Draw(t, fmt.Sprintf("%sser%d", label, i))
		}
	}
	return s
}

// valid reports whether the schedule is well-formed for n shares (hand-edited replay files).
func (s Sched) valid(n int) error {
	if len(s.Perm) != n || len(s.Merges) != n-1 || len(s.Alias) != n-1 || len(s.Ser) != 2*n-1 {
		return fmt.Errorf("schedule sizes do not match %d parties", n)
	}
	seen := make([]bool, n)
	for _, p := range s.Perm {
		if p < 0 || p >= n || seen[p] {
			return fmt.Errorf("perm is not a permutation")
		}
		seen[p] = true
	}
	for _, m := range s.Merges {
		if m[0] < 0 || m[1] < 0 {
			return fmt.Errorf("negative merge index")
		}
	}
	return nil
}

// shape classifies the schedule: identity permutation?, tree shape, serialisation hops.
func (s Sched) shape() (permID bool, tree string, ser bool) {
	permID = true
	for i, p := range s.Perm {
		if p != i {
			permID = false
		}
	}
	n := len(s.Perm)
	leaf := make([]bool, n)
	for i := range leaf {
		leaf[i] = true
	}
	tree = "left-deep"
	for _, m := range s.Merges {
		l := len(leaf)
		a, b := m[0]%l, m[1]%l
		if a == b {
			b = (a + 1) % l
		}
		if !(a == 0 && b == 1) && tree == "left-deep" {
			tree = "caterpillar"
		}
		if !leaf[a] && !leaf[b] {
			tree = "bushy"
		}
		leaf[a] = false
		leaf = append(leaf[:b], leaf[b+1:]...)
	}
	if n < 2 {
		tree = "single"
	}
	for _, v := range s.Ser {
		if v != 0 {
			ser = true
		}
	}
	return
}

func (s Sched) nontrivial() bool {
	id, tree, ser := s.shape()
	return len(s.Perm) >= 2 && (!id || tree == "caterpillar" || tree == "bushy") || ser
}

func (s Sched) descr() string {
	id, tree, ser := s.shape()
	return fmt.Sprintf("perm=%v,tree=%s,ser=%v", !id, tree, ser)
}

// aggOps are the share-type specific operations the schedule interpreter needs.
type aggOps[T any] struct {
	clone func(T) T
	alloc func() T
	add   func(a, b T, out *T) error
	hop   func(x T, mode int) (T, error)
}

// runSched aggregates (copies of) the leaves following the schedule.
func runSched[T any](leaves []T, s Sched, ops aggOps[T]) (res T, err error) {
	n := len(leaves)
	if err = s.valid(n); err != nil {
		return res, err
	}
	cur := make([]T, n)
	for i := range cur {
		x := ops.clone(leaves[s.Perm[i]])
		if s.Ser[i] != 0 {
			if x, err = ops.hop(x, s.Ser[i]); err != nil {
				return res, fmt.Errorf("serialisation hop of share %d: %w", s.Perm[i], err)
			}
		}
		cur[i] = x
	}
	for k, m := range s.Merges {
		l := len(cur)
		a, b := m[0]%l, m[1]%l
		if a == b {
			b = (a + 1) % l
		}
		var out T
		if s.Alias[k] == 1 {
			out = cur[a]
		} else {
			out = ops.alloc()
		}
		if err = ops.add(cur[a], cur[b], &out); err != nil {
			return res, fmt.Errorf("AggregateShares at merge %d: %w", k, err)
		}
		if s.Ser[n+k] != 0 {
			if out, err = ops.hop(out, s.Ser[n+k]); err != nil {
				return res, fmt.Errorf("serialisation hop of partial aggregate %d: %w", k, err)
			}
		}
		cur[a] = out
		cur = append(cur[:b], cur[b+1:]...)
	}
	return cur[0], nil
}

// refAggregate is the aggregation lattigo's own tests perform: index order, into the first share.
func refAggregate[T any](leaves []T, ops aggOps[T]) (T, error) {
	acc := ops.clone(leaves[0])
	for i := 1; i < len(leaves); i++ {
		if err := ops.add(acc, leaves[i], &acc); err != nil {
			return acc, err
		}
	}
	return acc, nil
}

// hopBytes serialises with the chosen method and returns the bytes.
func hopBytes(mode int, marshal func() ([]byte, error), writeTo func(*bytes.Buffer) (int64, error), size int) ([]byte, error) {
	if mode == 1 {
		b, err := marshal()
		if err != nil {
			return nil, err
		}
		if len(b) != size {
			return nil, fmt.Errorf("MarshalBinary wrote %d bytes, BinarySize says %d", len(b), size)
		}
		return b, nil
	}
	var buf bytes.Buffer
	n, err := writeTo(&buf)
	if err != nil {
		return nil, err
	}
	if int(n) != buf.Len() {
		return nil, fmt.Errorf("WriteTo reports %d bytes, wrote %d", n, buf.Len())
	}
	return buf.Bytes(), nil
}

// ---------------------------------------------------------------------------------------------------------------
// bit-exact comparison

func eqPoly(a, b ring.Poly) bool {
	if len(a.Coeffs) != len(b.Coeffs) {
		return false
	}
	for i := range a.Coeffs {
		if len(a.Coeffs[i]) != len(b.Coeffs[i]) {
			return false
		}
		for j := range a.Coeffs[i] {
			if a.Coeffs[i][j] != b.Coeffs[i][j] {
				return false
			}
		}
	}
	return true
}

func eqQP(a, b ringqp.Poly) bool { return eqPoly(a.Q, b.Q) && eqPoly(a.P, b.P) }

func eqQPList(a, b []ringqp.Poly) bool {
	if len(a) != len(b) {
		return false
	}
	for i := range a {
		if !eqQP(a[i], b[i]) {
			return false
		}
	}
	return true
}

// eqGadget compares two gadget ciphertexts bit by bit (structure, BaseTwoDecomposition, every coefficient).
func eqGadget(a, b *rlwe.GadgetCiphertext) bool {
	if a.BaseTwoDecomposition != b.BaseTwoDecomposition || len(a.Value) != len(b.Value) {
		return false
	}
	for i := range a.Value {
		if len(a.Value[i]) != len(b.Value[i]) {
			return false
		}
		for j := range a.Value[i] {
			if !eqQPList(a.Value[i][j], b.Value[i][j]) {
				return false
			}
		}
	}
	return true
}

// congPoly reports whether a and b are congruent limb by limb modulo ms (same shape required), and counts the
// coefficients of a and of b that are not reduced (>= modulus).
func congPoly(a, b ring.Poly, ms []uint64) (cong bool, unreduced int) {
	if len(a.Coeffs) != len(b.Coeffs) || len(a.Coeffs) > len(ms) {
		return false, 0
	}
	cong = true
	for i := range a.Coeffs {
		if len(a.Coeffs[i]) != len(b.Coeffs[i]) {
			return false, 0
		}
		q := ms[i]
		for j := range a.Coeffs[i] {
			x, y := a.Coeffs[i][j], b.Coeffs[i][j]
			if x >= q {
				unreduced++
			}
			if y >= q {
				unreduced++
			}
			if x%q != y%q {
				cong = false
			}
		}
	}
	return
}

// congQP is congPoly on both halves of a QP polynomial; qs and ps are the full moduli chains.
func congQP(a, b ringqp.Poly, qs, ps []uint64) (bool, int) {
	c1, u1 := congPoly(a.Q, b.Q, qs)
	c2, u2 := congPoly(a.P, b.P, ps)
	return c1 && c2, u1 + u2
}

// congGadget compares two gadget ciphertexts of equal structure modulo the moduli.
func congGadget(a, b *rlwe.GadgetCiphertext, qs, ps []uint64) (cong bool, unreduced int) {
	if a.BaseTwoDecomposition != b.BaseTwoDecomposition || len(a.Value) != len(b.Value) {
		return false, 0
	}
	cong = true
	for i := range a.Value {
		if len(a.Value[i]) != len(b.Value[i]) {
			return false, 0
		}
		for j := range a.Value[i] {
			if len(a.Value[i][j]) != len(b.Value[i][j]) {
				return false, 0
			}
			for k := range a.Value[i][j] {
				c, u := congQP(a.Value[i][j][k], b.Value[i][j][k], qs, ps)
				cong = cong && c
				unreduced += u
			}
		}
	}
	return
}

// scheduleVerdict turns the comparison of the scheduled aggregate with the index-order aggregate into a failure:
// not congruent modulo the moduli = the aggregate itself depends on the schedule; congruent but not bit-identical =
// only its representation does (some share coefficients are not reduced below the modulus).
func scheduleVerdict(rec *h.Rec, tag string, bitEqual, cong bool, unreduced int, descr string) error {
	if bitEqual {
		return nil
	}
	if !cong {
		return h.Failf("C14:"+tag+":aggregate-depends-on-schedule", "aggregate differs from the index-order aggregate, also modulo the moduli (%s)", descr)
	}
	key := "C14:" + tag + ":aggregate-representation-depends-on-schedule"
	msg := fmt.Sprintf("aggregate is congruent to the index-order aggregate but not bit-identical: %d coefficients of the two aggregates are >= their modulus (%s)", unreduced, descr)
	if rec.Known(key, msg) {
		rec.Class("known=" + tag + "-unreduced-shares")
		return nil
	}
	return h.Failf(key, "%s", msg)
}

func flatMatrix(m [][]ringqp.Poly) []ringqp.Poly {
	var out []ringqp.Poly
	for i := range m {
		out = append(out, m[i]...)
	}
	return out
}

// ---------------------------------------------------------------------------------------------------------------
// ring helpers (lattigo NTT / Montgomery conversions are trusted here: they are the subject of C01)

func moduli(r *ring.Ring) []uint64 { return r.ModuliChain()[:r.Level()+1] }

// polyToBig returns the coefficients of p (at the level of r) as integers in [0,Q).
func polyToBig(r *ring.Ring, p ring.Poly, isNTT bool) []*big.Int {
	lvl := r.Level()
	c := ring.NewPoly(r.N(), lvl)
	for i := 0; i <= lvl; i++ {
		copy(c.Coeffs[i], p.Coeffs[i])
	}
	if isNTT {
		r.INTT(c, c)
	}
	return h.CRT(c.Coeffs[:lvl+1], moduli(r))
}

// bigToPoly writes integer coefficients (any sign) into a new polynomial at the level of r.
func bigToPoly(r *ring.Ring, v []*big.Int, toNTT bool) ring.Poly {
	lvl := r.Level()
	p := ring.NewPoly(r.N(), lvl)
	limbs := h.ToRNS(v, moduli(r))
	for i := 0; i <= lvl; i++ {
		copy(p.Coeffs[i], limbs[i])
	}
	if toNTT {
		r.NTT(p, p)
	}
	return p
}

// skToBig returns the secret as centred integers (the key is stored in the NTT and Montgomery domain).
func skToBig(params rlwe.Parameters, sk *rlwe.SecretKey) []*big.Int {
	r := params.RingQ()
	c := *sk.Value.Q.CopyNew()
	r.IMForm(c, c)
	r.INTT(c, c)
	return h.VecCenter(h.CRT(c.Coeffs, moduli(r)), h.ProdU(moduli(r)))
}

// skToBigAt is skToBig restricted to the first level+1 limbs of Q (an ephemeral relinearisation secret is only valid
// up to the level of the key being generated).
func skToBigAt(params rlwe.Parameters, sk *rlwe.SecretKey, level int) []*big.Int {
	r := params.RingQ().AtLevel(level)
	c := ring.NewPoly(r.N(), level)
	for i := 0; i <= level; i++ {
		copy(c.Coeffs[i], sk.Value.Q.Coeffs[i])
	}
	r.IMForm(c, c)
	r.INTT(c, c)
	return h.VecCenter(h.CRT(c.Coeffs, moduli(r)), h.ProdU(moduli(r)))
}

// bigToSk builds a secret key (NTT + Montgomery, Q and P) from small integer coefficients.
func bigToSk(params rlwe.Parameters, v []*big.Int) *rlwe.SecretKey {
	sk := rlwe.NewSecretKey(params)
	rq := params.RingQ()
	q := bigToPoly(rq, v, true)
	rq.MForm(q, q)
	sk.Value.Q.Copy(q)
	if rp := params.RingP(); rp != nil {
		p := bigToPoly(rp, v, true)
		rp.MForm(p, p)
		sk.Value.P.Copy(p)
	}
	return sk
}

func l1(a []*big.Int) *big.Int {
	s := new(big.Int)
	for _, x := range a {
		s.Add(s, new(big.Int).Abs(x))
	}
	return s
}

// ringAut applies X -> X^g in Z[X]/(X^N+1), or for ci in Z[X+X^-1]/(X^2N+1) given by its N-coefficient form.
func ringAut(a []*big.Int, g uint64, ci bool) []*big.Int {
	if !ci {
		return h.Automorphism(a, g)
	}
	return h.Automorphism(h.CIUnfold(a), g)[:len(a)]
}

func uniformVec(rng *h.SplitMix, n int, Q *big.Int) []*big.Int {
	out := make([]*big.Int, n)
	words := (Q.BitLen() + 63) / 64
	for i := range out {
		x := new(big.Int)
		for w := 0; w <= words; w++ {
			x.Lsh(x, 64)
			x.Or(x, h.BU(rng.Uint64()))
		}
		out[i] = x.Mod(x, Q)
	}
	return out
}

func mulmod(a, b, q uint64) uint64 {
	hi, lo := bits.Mul64(a%q, b%q)
	_, r := bits.Div64(hi, lo, q)
	return r
}

func submod(a, b, q uint64) uint64 {
	a %= q
	b %= q
	if a >= b {
		return a - b
	}
	return a + q - b
}

// callErr calls f(args...) by reflection and returns its last result when that is a non-nil error. It lets the check
// compile against both signatures of RelinearizationKeyGenProtocol.AggregateShares / GenRelinearizationKey (without
// and with an error result).
func callErr(f any, args ...any) error {
	in := make([]reflect.Value, len(args))
	for i, a := range args {
		in[i] = reflect.ValueOf(a)
	}
	out := reflect.ValueOf(f).Call(in)
	if len(out) == 0 {
		return nil
	}
	if err, ok := out[len(out)-1].Interface().(error); ok {
		return err
	}
	return nil
}

func crsPRNG(key uint64) (*sampling.KeyedPRNG, error) {
	var k [11]byte
	binary.LittleEndian.PutUint64(k[:8], key)
	copy(k[8:], "c14")
	return sampling.NewKeyedPRNG(k[:])
}

// ---------------------------------------------------------------------------------------------------------------
// noise calculus (hard worst-case bounds, integers)

// ringMulFactor: |a*b|_inf <= |a|_inf * |b|_1 in the standard ring; in the conjugate-invariant ring the N-coefficient
// form stands for a polynomial of degree 2N with at most twice the 1-norm.
func ciFactor(s h.RLWESpec) int64 {
	if s.CI {
		return 2
	}
	return 1
}

// secretL1 bounds the 1-norm of the sum of n secrets drawn from Xs.
func secretL1(s h.RLWESpec, n int) *big.Int {
	return big.NewInt(int64(float64(n) * h.SecretL1(s.Xs, s.N())))
}

// digitsOf returns the base-2 digit count of every row of a gadget ciphertext.
func digitsOf(g *rlwe.GadgetCiphertext) []int {
	out := make([]int, len(g.Value))
	for i := range g.Value {
		out[i] = len(g.Value[i])
	}
	return out
}

func unequal(d []int) bool {
	for _, x := range d {
		if x != d[0] {
			return true
		}
	}
	return false
}

// ksBound bounds the infinity norm of the noise one gadget product with a key (levelQ, levelP, w), whose rows carry an
// error of norm <= erow, adds to a ciphertext at level lvl decrypted under a secret of 1-norm s1 (already including the
// conjugate-invariant factor). Digits: w>0 (effective only for levelP<=0): values < 2^w; otherwise residues modulo the
// product of the group's primes, with slack for the approximate basis extension (|d| <= 2*Qgroup).
func ksBound(s h.RLWESpec, k KeySpec, digits []int, lvl int, erow, s1 *big.Int) *big.Int {
	if lvl > k.LevelQ {
		lvl = k.LevelQ
	}
	n := int64(s.N()) * ciFactor(s)
	sum := new(big.Int)
	nbPi := k.LevelP + 1
	if nbPi < 1 {
		nbPi = 1
	}
	if k.W > 0 && k.LevelP <= 0 {
		for i := 0; i <= lvl; i++ {
			d := new(big.Int).Lsh(big.NewInt(1), uint(k.W))
			sum.Add(sum, d.Mul(d, big.NewInt(int64(digits[i]))))
		}
	} else {
		for st := 0; st <= lvl; st += nbPi {
			g := big.NewInt(2)
			for i := st; i < st+nbPi && i <= lvl; i++ {
				g.Mul(g, h.BU(s.Q[i]))
			}
			sum.Add(sum, g)
		}
	}
	sum.Mul(sum, big.NewInt(n))
	sum.Mul(sum, erow)
	if k.LevelP >= 0 {
		sum.Div(sum, h.ProdU(s.P[:k.LevelP+1]))
		// division by P: each of the two components is rounded with an error of at most 1 + 1/2
		rd := new(big.Int).Add(s1, big.NewInt(1))
		rd.Mul(rd, big.NewInt(2))
		sum.Add(sum, rd)
	}
	return sum.Add(sum, big.NewInt(1))
}

// discriminating reports whether bound < m/16 (otherwise the case cannot tell right from wrong).
func discriminating(bound, m *big.Int) bool {
	return new(big.Int).Lsh(bound, 4).Cmp(m) < 0
}

// ---------------------------------------------------------------------------------------------------------------
// histogram classes

func sizeClass(qs []uint64) string {
	lo, hi := 64, 0
	for _, q := range qs {
		b := bits.Len64(q)
		if b < lo {
			lo = b
		}
		if b > hi {
			hi = b
		}
	}
	if hi-lo <= 2 {
		return "equal"
	}
	return "mixed"
}

func wClass(w int) string {
	switch {
	case w == 0:
		return "w0"
	case w <= 8:
		return "w4-8"
	case w <= 16:
		return "w9-16"
	}
	return "w17-24"
}

func nClass(n int) string {
	switch {
	case n == 1:
		return "n1"
	case n <= 3:
		return "n2-3"
	case n <= 7:
		return "n4-7"
	}
	return "n8"
}

func ringClass(s h.RLWESpec) string {
	if s.CI {
		return "ci"
	}
	return "std"
}

func keyClass(s h.RLWESpec, k KeySpec) string {
	lq, lp := "max", "max"
	if k.LevelQ < len(s.Q)-1 {
		lq = "low"
	}
	if k.LevelP < len(s.P)-1 {
		lp = "low"
	}
	if k.LevelP == -1 {
		lp = "unused"
	}
	if len(s.P) == 0 {
		lp = "none"
	}
	return fmt.Sprintf("lq=%s,lp=%s(%d),%s", lq, lp, k.LevelP+1, wClass(k.W))
}
