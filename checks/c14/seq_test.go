package c14

import (
	"fmt"
	"math/big"
	"testing"

	"verif/internal/h"

	"github.com/tuneinsight/lattigo/v6/core/rlwe"
	"github.com/tuneinsight/lattigo/v6/multiparty"
	"github.com/tuneinsight/lattigo/v6/ring/ringqp"
	"pgregory.net/rapid"
)

// SeqCase: the same parties, with the same secrets and one CRS instance each, generate SEVERAL collective keys one
// after the other. The ideal secrets are computed once, before the first protocol run.
type SeqCase struct {
	Common
	Steps []SeqStep `json:"steps"`
}

// SeqStep is one protocol run.
type SeqStep struct {
	Kind  string  `json:"kind"` // "pk" | "evk" | "gal" | "rlk"
	Key   KeySpec `json:"key"`
	GalEl uint64  `json:"galEl,omitempty"`
}

func (c SeqCase) RandSeed() uint64 { return c.Seed }

func genSeq(t *rapid.T) SeqCase {
	var c SeqCase
	c.Common = genCommon(t)
	c.Pre = nil
	if c.Parties > 4 {
		c.Parties = 1 + c.Parties%4
	}
	n := rapid.IntRange(2, 4).Draw(t, "nSteps")
	kinds := []string{"pk", "evk", "gal", "gal", "rlk"}
	// one key specification reused by most steps (a second Galois element for the same key parameters is the common use)
	base := genKey(t, c.Params, "base")
	for i := 0; i < n; i++ {
		var s SeqStep
		s.Kind = kinds[rapid.IntRange(0, len(kinds)-1).Draw(t, fmt.Sprintf("kind%d", i))]
		if s.Kind != "pk" {
			if rapid.IntRange(0, 2).Draw(t, fmt.Sprintf("own%d", i)) == 0 {
				s.Key = genKey(t, c.Params, fmt.Sprintf("k%d", i))
			} else {
				s.Key = base
			}
		}
		if s.Kind == "gal" {
			s.GalEl = genGalElLabel(t, c.Params, fmt.Sprintf("s%d", i))
		}
		c.Steps = append(c.Steps, s)
	}
	return c
}

func runSeq(c SeqCase, rec *h.Rec) error {
	if len(c.Steps) < 1 || len(c.Steps) > 8 {
		return fmt.Errorf("steps out of range")
	}
	for _, s := range c.Steps {
		switch s.Kind {
		case "pk":
		case "evk", "rlk":
			if err := validKey(c.Params, s.Key); err != nil {
				return err
			}
		case "gal":
			if err := validKey(c.Params, s.Key); err != nil {
				return err
			}
			if err := validGalEl(c.Params, s.GalEl); err != nil {
				return err
			}
		default:
			return fmt.Errorf("unknown step kind")
		}
	}
	w, err := newWorld(c.Common)
	if err != nil {
		return err
	}
	params, n := w.params, w.n
	skOuts, skOutIdeal := newSecrets(params, w.kgen, n)

	// everything the oracles need is derived from the secrets NOW
	idealIn := w.skIdeal.CopyNew()
	idealOut := skOutIdeal.CopyNew()
	sI := skToBig(params, idealIn)
	ci := big.NewInt(ciFactor(c.Params))
	s1 := new(big.Int).Mul(l1(sI), ci)
	u1 := new(big.Int).Mul(secretL1(c.Params, n), ci)
	s2 := params.RingQ().NewPoly()
	params.RingQ().MulCoeffsMontgomery(idealIn.Value.Q, idealIn.Value.Q, s2)
	be := int64(c.Params.Xe.AbsBound())
	nB := big.NewInt(int64(n) * be)
	var skSnap inputSnap
	for i := 0; i < n; i++ {
		skSnap.snap("secret-key", w.sks[i].Value)
		skSnap.snap("output-secret-key", skOuts[i].Value)
	}

	// one protocol instance of every kind per party (own instances, or ShallowCopies of party 0's), RE-USED by every step
	pkP := make([]multiparty.PublicKeyGenProtocol, n)
	evkP := make([]multiparty.EvaluationKeyGenProtocol, n)
	galP := make([]multiparty.GaloisKeyGenProtocol, n)
	rlkP := make([]multiparty.RelinearizationKeyGenProtocol, n)
	for i := 0; i < n; i++ {
		if i == 0 || !c.Shallow {
			pkP[i] = multiparty.NewPublicKeyGenProtocol(params)
			evkP[i] = multiparty.NewEvaluationKeyGenProtocol(params)
			galP[i] = multiparty.NewGaloisKeyGenProtocol(params)
			rlkP[i] = multiparty.NewRelinearizationKeyGenProtocol(params)
		} else {
			pkP[i] = pkP[0].ShallowCopy()
			evkP[i] = evkP[0].ShallowCopy()
			galP[i] = galP[0].ShallowCopy()
			rlkP[i] = rlkP[0].ShallowCopy()
		}
	}

	// one CRS instance per party for the whole sequence
	crs := make([]multiparty.CRS, n)
	for i := range crs {
		if crs[i], err = crsPRNG(c.CRS); err != nil {
			return err
		}
	}
	sameCRP := func(step, i int, got, first []ringqp.Poly) error {
		if i > 0 && !eqQPList(got, first) {
			return h.Failf("C14:CRS:parties-read-different-polynomials", "step %d (%s): party %d read other reference polynomials than party 0", step, c.Steps[step].Kind, i)
		}
		return nil
	}

	junk := c.junk()
	desc := c.receiverClass()
	for k, st := range c.Steps {
		tag := fmt.Sprintf("step %d (%s %+v galEl %d)", k, st.Kind, st.Key, st.GalEl)
		ek := st.Key.evk()
		desc += "," + st.Kind
		if st.Kind != "pk" {
			desc += ":" + keyClass(c.Params, st.Key)
		}
		switch st.Kind {
		case "pk":
			var acc multiparty.PublicKeyGenShare
			var crp0 multiparty.PublicKeyGenCRP
			ps := pkP
			p := ps[0]
			for i := 0; i < n; i++ {
				crp := ps[i].SampleCRP(crs[i])
				if i == 0 {
					crp0 = crp
				}
				if err := sameCRP(k, i, []ringqp.Poly{crp.Value}, []ringqp.Poly{crp0.Value}); err != nil {
					return err
				}
				sh := ps[i].AllocateShare()
				if c.Receiver != 0 {
					dirtyQP(sh.Value, c.Params, junk)
				}
				ps[i].GenShare(w.sks[i], crp, &sh)
				if i == 0 {
					acc = sh
				} else {
					p.AggregateShares(acc, sh, &acc)
				}
			}
			pk := rlwe.NewPublicKey(params)
			if c.DirtyOut {
				dirtyQP(pk.Value[0], c.Params, junk)
				dirtyQP(pk.Value[1], c.Params, junk)
			}
			p.GenPublicKey(acc, crp0, pk)
			if _, err := pkCheck(params, pk, idealIn, nB); err != nil {
				return h.Failf("C14:SEQ:pk:not-a-key-of-the-ideal-secret", "%s: %v", tag, err)
			}
		case "evk":
			var acc multiparty.EvaluationKeyGenShare
			var crp0 multiparty.EvaluationKeyGenCRP
			ps := evkP
			p := ps[0]
			for i := 0; i < n; i++ {
				crp := ps[i].SampleCRP(crs[i], ek)
				if i == 0 {
					crp0 = crp
				}
				if err := sameCRP(k, i, flatMatrix(crp.Value), flatMatrix(crp0.Value)); err != nil {
					return err
				}
				sh := ps[i].AllocateShare(ek)
				if c.Receiver != 0 {
					dirtyGadget(&sh.GadgetCiphertext, c.Params, junk)
				}
				if c.Receiver != 0 {
					dirtyGadget(&sh.GadgetCiphertext, c.Params, junk)
				}
				if err := ps[i].GenShare(w.sks[i], skOuts[i], crp, &sh); err != nil {
					return h.Failf("C14:EVK:GenShare-error", "%s party %d: %v", tag, i, err)
				}
				if i == 0 {
					acc = sh
				} else if err := p.AggregateShares(acc, sh, &acc); err != nil {
					return h.Failf("C14:EVK:aggregation-failed", "%s: %v", tag, err)
				}
			}
			evk := rlwe.NewEvaluationKey(params, ek)
			if c.DirtyOut {
				dirtyGadget(&evk.GadgetCiphertext, c.Params, junk)
			}
			if err := p.GenEvaluationKey(acc, crp0, evk); err != nil {
				return h.Failf("C14:GenEvaluationKey:error", "%s: %v", tag, err)
			}
			if _, err := rowCheck(params, &evk.GadgetCiphertext, st.Key, idealIn.Value.Q, idealOut.Value, nB); err != nil {
				return h.Failf("C14:SEQ:evk:not-a-key-of-the-ideal-secret", "%s: %v", tag, err)
			}
		case "gal":
			gInv := new(big.Int).ModInverse(h.BU(st.GalEl), h.BU(c.Params.NthRoot())).Uint64()
			sOut := bigToSk(params, ringAut(sI, gInv, c.Params.CI))
			var acc multiparty.GaloisKeyGenShare
			var crp0 multiparty.GaloisKeyGenCRP
			ps := galP
			p := ps[0]
			for i := 0; i < n; i++ {
				crp := ps[i].SampleCRP(crs[i], ek)
				if i == 0 {
					crp0 = crp
				}
				if err := sameCRP(k, i, flatMatrix(crp.Value), flatMatrix(crp0.Value)); err != nil {
					return err
				}
				sh := ps[i].AllocateShare(ek)
				if err := ps[i].GenShare(w.sks[i], st.GalEl, crp, &sh); err != nil {
					return h.Failf("C14:GKG:GenShare-error", "%s party %d: %v", tag, i, err)
				}
				if i == 0 {
					acc = sh
				} else if err := p.AggregateShares(acc, sh, &acc); err != nil {
					return h.Failf("C14:GKG:aggregation-failed", "%s: %v", tag, err)
				}
			}
			gk := rlwe.NewGaloisKey(params, ek)
			if c.DirtyOut {
				dirtyGadget(&gk.GadgetCiphertext, c.Params, junk)
			}
			if err := p.GenGaloisKey(acc, crp0, gk); err != nil {
				return h.Failf("C14:GenEvaluationKey:error", "%s: %v", tag, err)
			}
			if _, err := rowCheck(params, &gk.GadgetCiphertext, st.Key, idealIn.Value.Q, sOut.Value, nB); err != nil {
				return h.Failf("C14:SEQ:gal:not-a-key-of-the-ideal-secret", "%s: %v", tag, err)
			}
		case "rlk":
			ps := rlkP
			p := ps[0]
			eph := make([]*rlwe.SecretKey, n)
			r2 := make([]multiparty.RelinearizationKeyGenShare, n)
			var acc1, acc2 multiparty.RelinearizationKeyGenShare
			var crp0 multiparty.RelinearizationKeyGenCRP
			for i := 0; i < n; i++ {
				crp := ps[i].SampleCRP(crs[i], ek)
				if i == 0 {
					crp0 = crp
				}
				if err := sameCRP(k, i, flatMatrix(crp.Value), flatMatrix(crp0.Value)); err != nil {
					return err
				}
				var r1 multiparty.RelinearizationKeyGenShare
				eph[i], r1, r2[i] = ps[i].AllocateShare(ek)
				if c.Receiver != 0 {
					dirtyGadget(&r1.GadgetCiphertext, c.Params, junk)
					dirtyGadget(&r2[i].GadgetCiphertext, c.Params, junk)
					dirtyQP(eph[i].Value, c.Params, junk)
				}
				ps[i].GenShareRoundOne(w.sks[i], crp, eph[i], &r1)
				if i == 0 {
					acc1 = r1
				} else {
					if err := callErr(p.AggregateShares, acc1, r1, &acc1); err != nil {
						return h.Failf("C14:RKG:aggregation-failed", "%s round one: %v", tag, err)
					}
				}
			}
			for i := 0; i < n; i++ {
				ps[i].GenShareRoundTwo(eph[i], w.sks[i], acc1, &r2[i])
				if i == 0 {
					acc2 = r2[0]
				} else {
					if err := callErr(p.AggregateShares, acc2, r2[i], &acc2); err != nil {
						return h.Failf("C14:RKG:aggregation-failed", "%s round two: %v", tag, err)
					}
				}
			}
			rlk := rlwe.NewRelinearizationKey(params, ek)
			if c.DirtyOut {
				dirtyGadget(&rlk.GadgetCiphertext, c.Params, junk)
			}
			if err := callErr(p.GenRelinearizationKey, acc1, acc2, rlk); err != nil {
				return h.Failf("C14:RKG:GenRelinearizationKey-error", "%s: %v", tag, err)
			}
			erow := new(big.Int).Add(s1, u1)
			erow.Add(erow, big.NewInt(1))
			erow.Mul(erow, nB)
			QP := h.ProdU(c.Params.Q[:st.Key.LevelQ+1])
			if st.Key.LevelP >= 0 {
				QP.Mul(QP, h.ProdU(c.Params.P[:st.Key.LevelP+1]))
			}
			if _, err := rowCheck(params, &rlk.GadgetCiphertext, st.Key, s2, idealIn.Value, erow); err != nil && discriminating(erow, QP) {
				return h.Failf("C14:SEQ:rlk:not-a-key-of-the-ideal-secret", "%s: %v", tag, err)
			}
		}
		// no protocol run may have touched a party's secret
		if err := skSnap.check("SEQ", "protocol-run("+st.Kind+")", k); err != nil {
			return err
		}
	}

	rec.Class(nClass(n))
	rec.Class(c.receiverClass())
	rec.Class(ringClass(c.Params))
	rec.Classf("steps=%d", len(c.Steps))
	noPw := false
	for _, st := range c.Steps {
		rec.Class("step:" + st.Kind)
		if st.Kind != "pk" && st.Key.LevelP == -1 && st.Key.W > 0 {
			noPw = true
		}
	}
	if noPw {
		rec.Class("has-step-levelP-1-w>0")
	}
	if len(c.Steps) >= 2 {
		rec.NonTrivial(fmt.Sprintf("seq|%s|%s|%s", nClass(n), ringClass(c.Params), desc))
	}
	return nil
}

var propSeq = h.NewProp("TestPropSeveralKeysFromTheSameSecrets", h.Budget{Quick: 500, Thorough: 10000}, genSeq, runSeq)

func TestPropSeveralKeysFromTheSameSecrets(t *testing.T) { propSeq.Check(t) }
