package c14

import (
	"fmt"
	"testing"

	"verif/internal/h"

	"github.com/tuneinsight/lattigo/v6/multiparty"
	"pgregory.net/rapid"
)

// RejectCase: two shares generated for different Galois elements, levels or decompositions are handed to AggregateShares.
type RejectCase struct {
	Params   h.RLWESpec `json:"params"`
	Seed     uint64     `json:"seed"`
	CRS      uint64     `json:"crs"`
	Proto    string     `json:"proto"`    // "evk" | "gal" | "rkg1" | "rkg2"
	Mismatch string     `json:"mismatch"` // "galEl" | "levelQ" | "levelP" | "w"
	KeyA     KeySpec    `json:"keyA"`
	KeyB     KeySpec    `json:"keyB"`
	GalA     uint64     `json:"galA,omitempty"`
	GalB     uint64     `json:"galB,omitempty"`
	Swap     bool       `json:"swap"` // aggregate (B, A) instead of (A, B)
	Out      int        `json:"out"`  // 0: fresh output allocated like the first operand, 1: output = first operand, 2: fresh like the second
}

func (c RejectCase) RandSeed() uint64 { return c.Seed }

func genReject(t *rapid.T) RejectCase { return genRejectBase(t, true) }

// genRejectBase draws two key specifications differing in exactly one attribute.
func genRejectBase(t *rapid.T, allowGalEl bool) RejectCase {
	var c RejectCase
	c.Params = genParams(t)
	c.Seed = rapid.Uint64().Draw(t, "seed")
	c.CRS = rapid.Uint64().Draw(t, "crs")
	c.Proto = []string{"evk", "gal", "rkg1", "rkg2"}[rapid.IntRange(0, 3).Draw(t, "proto")]
	kinds := []string{"w"}
	if len(c.Params.Q) >= 2 {
		kinds = append(kinds, "levelQ")
	}
	if len(c.Params.P) >= 1 {
		kinds = append(kinds, "levelP")
	}
	if c.Proto == "gal" && allowGalEl {
		kinds = append(kinds, "galEl", "galEl")
	}
	c.Mismatch = kinds[rapid.IntRange(0, len(kinds)-1).Draw(t, "mismatch")]
	c.KeyA = genKey(t, c.Params, "key")
	if c.Proto == "gal" {
		c.GalA = genGalEl(t, c.Params)
		c.GalB = c.GalA
	}
	c.KeyB = c.KeyA
	switch c.Mismatch {
	case "w":
		// the base-2 decomposition is only effective with at most one P prime
		if c.KeyA.LevelP > 0 {
			c.KeyA.LevelP = 0
		}
		c.KeyB = c.KeyA
		ws := []int{0, 4, 5, 7, 8, 12, 13, 16, 20, 24}
		c.KeyA.W = ws[rapid.IntRange(0, len(ws)-1).Draw(t, "wA")]
		d := rapid.IntRange(1, len(ws)-1).Draw(t, "wBoff")
		for i, v := range ws {
			if v == c.KeyA.W {
				c.KeyB.W = ws[(i+d)%len(ws)]
			}
		}
	case "levelQ":
		m := len(c.Params.Q)
		c.KeyA.LevelQ = rapid.IntRange(0, m-1).Draw(t, "lqA")
		c.KeyB.LevelQ = (c.KeyA.LevelQ + rapid.IntRange(1, m-1).Draw(t, "lqBoff")) % m
	case "levelP":
		m := len(c.Params.P)
		// levels -1 (no auxiliary modulus used) .. m-1
		c.KeyA.LevelP = rapid.IntRange(-1, m-1).Draw(t, "lpA")
		c.KeyB.LevelP = (c.KeyA.LevelP+1+rapid.IntRange(1, m).Draw(t, "lpBoff"))%(m+1) - 1
	case "galEl":
		for i := 0; c.GalB == c.GalA; i++ {
			c.GalB = genGalElLabel(t, c.Params, fmt.Sprintf("B%d", i))
		}
	}
	c.Swap = rapid.Bool().Draw(t, "swap")
	c.Out = rapid.IntRange(0, 2).Draw(t, "out")
	return c
}

// genGalElLabel is genGalEl with distinct draw labels.
func genGalElLabel(t *rapid.T, s h.RLWESpec, label string) uint64 {
	m := s.NthRoot()
	if s.CI {
		return powmod(5, rapid.Uint64Range(1, uint64(s.N())-1).Draw(t, "galKci"+label), m)
	}
	return 2*rapid.Uint64Range(1, m/2-1).Draw(t, "galOdd"+label) + 1
}

func runReject(c RejectCase, rec *h.Rec) error {
	if err := validKey(c.Params, c.KeyA); err != nil {
		return err
	}
	if err := validKey(c.Params, c.KeyB); err != nil {
		return err
	}
	differs := false
	switch c.Mismatch {
	case "w":
		differs = c.KeyA.W != c.KeyB.W && c.KeyA.LevelP <= 0 && c.KeyA.LevelQ == c.KeyB.LevelQ && c.KeyA.LevelP == c.KeyB.LevelP && c.GalA == c.GalB
	case "levelQ":
		differs = c.KeyA.LevelQ != c.KeyB.LevelQ
	case "levelP":
		differs = c.KeyA.LevelP != c.KeyB.LevelP
	case "galEl":
		differs = c.Proto == "gal" && c.GalA != c.GalB
	}
	if !differs {
		return fmt.Errorf("case has no mismatch of kind %q", c.Mismatch)
	}
	if c.Proto == "gal" {
		if err := validGalEl(c.Params, c.GalA); err != nil {
			return err
		}
		if err := validGalEl(c.Params, c.GalB); err != nil {
			return err
		}
	}
	params, err := c.Params.Build()
	if err != nil {
		return fmt.Errorf("parameters rejected: %w", err)
	}
	// two parties, each generating its share consistently for its own key parameters
	w, err := newWorld(Common{Params: c.Params, Parties: 2})
	if err != nil {
		return err
	}
	keys := [2]KeySpec{c.KeyA, c.KeyB}
	gals := [2]uint64{c.GalA, c.GalB}
	first, second := 0, 1
	if c.Swap {
		first, second = 1, 0
	}

	var call func() error
	tag := ""
	switch c.Proto {
	case "evk":
		tag = "EVK"
		p := multiparty.NewEvaluationKeyGenProtocol(params)
		skOuts, _ := newSecrets(params, w.kgen, 2)
		var sh [2]multiparty.EvaluationKeyGenShare
		for i := 0; i < 2; i++ {
			crs, _ := crsPRNG(c.CRS)
			crp := p.SampleCRP(crs, keys[i].evk())
			sh[i] = p.AllocateShare(keys[i].evk())
			if err := p.GenShare(w.sks[i], skOuts[i], crp, &sh[i]); err != nil {
				return h.Failf("C14:EVK:GenShare-error", "party %d: %v", i, err)
			}
		}
		out := p.AllocateShare(keys[first].evk())
		switch c.Out {
		case 1:
			out = sh[first]
		case 2:
			out = p.AllocateShare(keys[second].evk())
		}
		call = func() error { return p.AggregateShares(sh[first], sh[second], &out) }
	case "gal":
		tag = "GKG"
		p := multiparty.NewGaloisKeyGenProtocol(params)
		var sh [2]multiparty.GaloisKeyGenShare
		for i := 0; i < 2; i++ {
			crs, _ := crsPRNG(c.CRS)
			crp := p.SampleCRP(crs, keys[i].evk())
			sh[i] = p.AllocateShare(keys[i].evk())
			if err := p.GenShare(w.sks[i], gals[i], crp, &sh[i]); err != nil {
				return h.Failf("C14:GKG:GenShare-error", "party %d: %v", i, err)
			}
		}
		out := p.AllocateShare(keys[first].evk())
		switch c.Out {
		case 1:
			out = sh[first]
		case 2:
			out = p.AllocateShare(keys[second].evk())
		}
		call = func() error { return p.AggregateShares(sh[first], sh[second], &out) }
	case "rkg1", "rkg2":
		tag = "RKG"
		p := multiparty.NewRelinearizationKeyGenProtocol(params)
		var r1, r2 [2]multiparty.RelinearizationKeyGenShare
		for i := 0; i < 2; i++ {
			crs, _ := crsPRNG(c.CRS)
			crp := p.SampleCRP(crs, keys[i].evk())
			eph, a, b := p.AllocateShare(keys[i].evk())
			p.GenShareRoundOne(w.sks[i], crp, eph, &a)
			p.GenShareRoundTwo(eph, w.sks[i], a, &b)
			r1[i], r2[i] = a, b
		}
		sh := r1
		if c.Proto == "rkg2" {
			sh = r2
		}
		alloc := func(k KeySpec) multiparty.RelinearizationKeyGenShare {
			_, a, b := p.AllocateShare(k.evk())
			if c.Proto == "rkg2" {
				return b
			}
			return a
		}
		out := alloc(keys[first])
		switch c.Out {
		case 1:
			out = sh[first]
		case 2:
			out = alloc(keys[second])
		}
		// (before the fix RelinearizationKeyGenProtocol.AggregateShares had no error result: it could only combine or panic)
		call = func() error { return callErr(p.AggregateShares, sh[first], sh[second], &out) }
	default:
		return fmt.Errorf("unknown protocol")
	}

	panicked, pmsg, err := protect(call)
	outcome := "rejected"
	switch {
	case panicked:
		outcome = "panic"
	case err == nil:
		outcome = "silently-combined"
	}
	rec.Class(tag + ":" + c.Mismatch + ":" + outcome)
	if outcome != "rejected" {
		key := fmt.Sprintf("C14:reject:%s:%s:%s", tag, c.Mismatch, outcome)
		msg := fmt.Sprintf("AggregateShares on shares generated for %+v (galEl %d) and %+v (galEl %d): %s %s", keys[first], gals[first], keys[second], gals[second], outcome, pmsg)
		if !rec.Known(key, msg) {
			return h.Failf(key, "%s", msg)
		}
		rec.Class("known=" + key)
	}
	rec.NonTrivial(fmt.Sprintf("reject|%s|%s|swap=%v|out=%d|%s|%s|%s", c.Proto, c.Mismatch, c.Swap, c.Out, ringClass(c.Params), keyClass(c.Params, c.KeyA), keyClass(c.Params, c.KeyB)))
	return nil
}

var propReject = h.NewProp("TestPropMismatchedSharesRejected", h.Budget{Quick: 500, Thorough: 6000}, genReject, runReject)

func TestPropMismatchedSharesRejected(t *testing.T) { propReject.Check(t) }
