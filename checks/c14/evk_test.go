package c14

import (
	"bytes"
	"fmt"
	"math/big"
	"testing"

	"verif/internal/h"

	"github.com/tuneinsight/lattigo/v6/core/rlwe"
	"github.com/tuneinsight/lattigo/v6/multiparty"
	"github.com/tuneinsight/lattigo/v6/ring/ringqp"
	"pgregory.net/rapid"
)

// EVKCase: collective generic evaluation key (skIn -> skOut) or Galois key.
type EVKCase struct {
	Common
	Kind    string  `json:"kind"` // "evk" | "gal"
	Key     KeySpec `json:"key"`
	GalEl   uint64  `json:"galEl,omitempty"`
	GalLift uint64  `json:"galLift,omitempty"` // the protocol and the evaluator are given galEl + galLift*NthRoot (an unreduced Galois element)
	Sched   Sched   `json:"sched"`
	CtLevel int     `json:"ctLevel"`
}

func (c EVKCase) RandSeed() uint64 { return c.Seed }

func powmod(a, e, m uint64) uint64 {
	r := uint64(1)
	a %= m
	for ; e > 0; e >>= 1 {
		if e&1 == 1 {
			r = r * a % m
		}
		a = a * a % m
	}
	return r
}

// genGalEl draws a Galois element: any odd residue below 2N in the standard ring (powers of 5 and the conjugation 2N-1
// preferred), a power of 5 modulo 4N in the conjugate-invariant ring; never 1.
func genGalEl(t *rapid.T, s h.RLWESpec) uint64 {
	m := s.NthRoot()
	n := uint64(s.N())
	kind := rapid.IntRange(0, 3).Draw(t, "galKind")
	if s.CI || kind <= 1 {
		k := rapid.Uint64Range(1, n/2-1).Draw(t, "galK")
		if s.CI {
			k = rapid.Uint64Range(1, n-1).Draw(t, "galKci")
		}
		return powmod(5, k, m)
	}
	if kind == 2 {
		return m - 1
	}
	return 2*rapid.Uint64Range(1, m/2-1).Draw(t, "galOdd") + 1
}

func validGalEl(s h.RLWESpec, g uint64) error {
	m := s.NthRoot()
	if g&1 == 0 || g >= m || g == 1 {
		return fmt.Errorf("galois element out of range")
	}
	if s.CI && g&3 != 1 {
		return fmt.Errorf("galois element of the conjugate-invariant ring must be 1 mod 4")
	}
	return nil
}

func genEVK(t *rapid.T) EVKCase {
	var c EVKCase
	c.Common = genCommon(t)
	if rapid.Bool().Draw(t, "gal") {
		c.Kind = "gal"
		c.GalEl = genGalEl(t, c.Params)
		switch rapid.IntRange(0, 9).Draw(t, "galLiftKind") {
		case 0:
			c.GalLift = 1
		case 1:
			c.GalLift = rapid.Uint64Range(2, 1<<40).Draw(t, "galLift")
		}
	} else {
		c.Kind = "evk"
	}
	c.Key = genKey(t, c.Params, "key")
	c.Sched = genSched(t, c.Parties, "s")
	c.CtLevel = rapid.IntRange(0, c.Key.LevelQ).Draw(t, "ctLevel")
	return c
}

func evkOps(p multiparty.EvaluationKeyGenProtocol, ek rlwe.EvaluationKeyParameters, c Common) aggOps[multiparty.EvaluationKeyGenShare] {
	rng := c.junk()
	return aggOps[multiparty.EvaluationKeyGenShare]{
		clone: func(s multiparty.EvaluationKeyGenShare) multiparty.EvaluationKeyGenShare {
			return multiparty.EvaluationKeyGenShare{GadgetCiphertext: *s.GadgetCiphertext.CopyNew()}
		},
		alloc: func() multiparty.EvaluationKeyGenShare {
			s := p.AllocateShare(ek)
			if c.DirtyOut {
				dirtyGadget(&s.GadgetCiphertext, c.Params, rng)
			}
			return s
		},
		add: p.AggregateShares,
		hop: func(s multiparty.EvaluationKeyGenShare, mode int) (multiparty.EvaluationKeyGenShare, error) {
			var out multiparty.EvaluationKeyGenShare
			b, err := hopBytes(mode, s.MarshalBinary, func(w *bytes.Buffer) (int64, error) { return s.WriteTo(w) }, s.BinarySize())
			if err != nil {
				return out, err
			}
			if mode == 1 {
				err = out.UnmarshalBinary(b)
			} else {
				_, err = out.ReadFrom(bytes.NewReader(b))
			}
			return out, err
		},
	}
}

func galOps(p multiparty.GaloisKeyGenProtocol, ek rlwe.EvaluationKeyParameters, c Common) aggOps[multiparty.GaloisKeyGenShare] {
	rng := c.junk()
	return aggOps[multiparty.GaloisKeyGenShare]{
		clone: func(s multiparty.GaloisKeyGenShare) multiparty.GaloisKeyGenShare {
			return multiparty.GaloisKeyGenShare{GaloisElement: s.GaloisElement,
				EvaluationKeyGenShare: multiparty.EvaluationKeyGenShare{GadgetCiphertext: *s.GadgetCiphertext.CopyNew()}}
		},
		alloc: func() multiparty.GaloisKeyGenShare {
			s := p.AllocateShare(ek)
			if c.DirtyOut {
				dirtyGadget(&s.GadgetCiphertext, c.Params, rng)
				s.GaloisElement = rng.Uint64() | 1
			}
			return s
		},
		add: p.AggregateShares,
		hop: func(s multiparty.GaloisKeyGenShare, mode int) (multiparty.GaloisKeyGenShare, error) {
			var out multiparty.GaloisKeyGenShare
			b, err := hopBytes(mode, s.MarshalBinary, func(w *bytes.Buffer) (int64, error) { return s.WriteTo(w) }, s.BinarySize())
			if err != nil {
				return out, err
			}
			if mode == 1 {
				err = out.UnmarshalBinary(b)
			} else {
				_, err = out.ReadFrom(bytes.NewReader(b))
			}
			return out, err
		},
	}
}

// protect runs f and turns a panic into (true, message).
func protect(f func() error) (panicked bool, msg string, err error) {
	defer func() {
		if r := recover(); r != nil {
			panicked, msg = true, fmt.Sprint(r)
		}
	}()
	err = f()
	return
}

// finalize runs the protocol's key finalisation (GenEvaluationKey / GenGaloisKey) and checks that the key consists of
// exactly the aggregated share rows and the reference polynomials. The known defect "digit count of row 0 used for every
// row" is routed to its finding keys; the key is then completed on the harness side so that the search goes on.
func finalize(rec *h.Rec, gen func() error, share *rlwe.GadgetCiphertext, crp [][]ringqp.Poly, evk *rlwe.EvaluationKey) (completed bool, err error) {
	digits := digitsOf(share)
	uneq := unequal(digits)
	panicked, pmsg, err := protect(gen)
	_ = completed
	fix := func() {
		for i := range share.Value {
			for j := range share.Value[i] {
				evk.Value[i][j][0].Copy(share.Value[i][j][0])
				evk.Value[i][j][1].Copy(crp[i][j])
			}
		}
	}
	if panicked {
		key, msg := "C14:GenEvaluationKey:panic", fmt.Sprintf("GenEvaluationKey panicked: %s (digits per row %v)", pmsg, digits)
		if uneq {
			key = "C14:GenEvaluationKey:unequal-digit-counts:panic"
		}
		if rec.Known(key, msg) {
			rec.Class("known=GenEvaluationKey-unequal-digits-panic")
			fix()
			return true, nil
		}
		return false, h.Failf(key, "%s", msg)
	}
	if err != nil {
		return false, h.Failf("C14:GenEvaluationKey:error", "finalisation of matching share, CRP and key failed: %v", err)
	}
	if len(evk.Value) != len(share.Value) {
		return false, h.Failf("C14:GenEvaluationKey:shape", "key has %d rows, share %d", len(evk.Value), len(share.Value))
	}
	for i := range share.Value {
		if len(evk.Value[i]) != len(share.Value[i]) || len(crp[i]) != len(share.Value[i]) {
			return false, h.Failf("C14:GenEvaluationKey:shape", "row %d: key %d / crp %d / share %d digits", i, len(evk.Value[i]), len(crp[i]), len(share.Value[i]))
		}
		for j := range share.Value[i] {
			if !eqQP(evk.Value[i][j][0], share.Value[i][j][0]) || !eqQP(evk.Value[i][j][1], crp[i][j]) {
				key, msg := "C14:GenEvaluationKey:key-differs-from-share", fmt.Sprintf("key row (%d,%d) is not (aggregated share, reference polynomial); digits per row %v", i, j, digits)
				if uneq {
					key = "C14:GenEvaluationKey:unequal-digit-counts:rows-not-copied"
				}
				if rec.Known(key, msg) {
					rec.Class("known=GenEvaluationKey-unequal-digits-rows-not-copied")
					fix()
					return true, nil
				}
				return false, h.Failf(key, "%s", msg)
			}
		}
	}
	return false, nil
}

func runEVK(c EVKCase, rec *h.Rec) error {
	if err := validKey(c.Params, c.Key); err != nil {
		return err
	}
	if c.CtLevel < 0 || c.CtLevel > c.Key.LevelQ {
		return fmt.Errorf("ctLevel out of range")
	}
	if err := validPre(c.Params, c.Pre); err != nil {
		return err
	}
	if c.Kind == "gal" {
		if err := validGalEl(c.Params, c.GalEl); err != nil {
			return err
		}
		if c.GalLift > 1<<40 {
			return fmt.Errorf("galLift out of range")
		}
	} else if c.Kind != "evk" {
		return fmt.Errorf("unknown kind")
	}
	w, err := newWorld(c.Common)
	if err != nil {
		return err
	}
	params, n := w.params, w.n
	ek := c.Key.evk()
	be := int64(c.Params.Xe.AbsBound())
	rowBound := big.NewInt(int64(n) * be)

	junk := c.junk()
	var evk *rlwe.EvaluationKey
	var gk *rlwe.GaloisKey
	var skIn, skOut *rlwe.SecretKey
	sI := skToBig(params, w.skIdeal)

	var pre0 []ringqp.Poly
	var crp0 []ringqp.Poly
	checkCRS := func(i int, pre []ringqp.Poly, crp [][]ringqp.Poly) error {
		f := flatMatrix(crp)
		if i == 0 {
			pre0, crp0 = pre, f
			return nil
		}
		if !eqQPList(pre, pre0) || !eqQPList(f, crp0) {
			return h.Failf("C14:CRS:parties-read-different-polynomials", "party %d read other reference polynomials than party 0 after the same %d+1 SampleCRP calls (%s)", i, len(c.Pre), c.Kind)
		}
		return nil
	}

	if c.Kind == "evk" {
		skOuts, skOutIdeal := newSecrets(params, w.kgen, n)
		skIn, skOut = w.skIdeal, skOutIdeal
		protos := make([]multiparty.EvaluationKeyGenProtocol, n)
		crps := make([]multiparty.EvaluationKeyGenCRP, n)
		shares := make([]multiparty.EvaluationKeyGenShare, n)
		for i := 0; i < n; i++ {
			if i == 0 || !c.Shallow {
				protos[i] = multiparty.NewEvaluationKeyGenProtocol(params)
			} else {
				protos[i] = protos[0].ShallowCopy()
			}
			crs, err := crsPRNG(c.CRS)
			if err != nil {
				return err
			}
			pre := runPre(params, c.Pre, crs)
			crps[i] = protos[i].SampleCRP(crs, ek)
			if err := checkCRS(i, pre, crps[i].Value); err != nil {
				return err
			}
			shares[i] = protos[i].AllocateShare(ek)
			switch c.Receiver {
			case 1:
				dirtyGadget(&shares[i].GadgetCiphertext, c.Params, junk)
			case 2:
				if err := protos[i].GenShare(skOuts[i], w.sks[i], protos[i].SampleCRP(junkCRS(c.Common), ek), &shares[i]); err != nil {
					return h.Failf("C14:EVK:GenShare-error", "earlier use of the receiver, party %d: %v", i, err)
				}
			}
			var in inputSnap
			in.snap("secret-key-in", w.sks[i].Value)
			in.snap("secret-key-out", skOuts[i].Value)
			in.snap("crp", flatMatrix(crps[i].Value)...)
			if err := protos[i].GenShare(w.sks[i], skOuts[i], crps[i], &shares[i]); err != nil {
				return h.Failf("C14:EVK:GenShare-error", "party %d: %v", i, err)
			}
			if err := in.check("EVK", "GenShare", i); err != nil {
				return err
			}
		}
		ops := evkOps(protos[0], ek, c.Common)
		ref, err := refAggregate(shares, ops)
		if err != nil {
			return h.Failf("C14:EVK:aggregation-failed", "index-order aggregation: %v", err)
		}
		got, err := runSched(shares, c.Sched, ops)
		if err != nil {
			return h.Failf("C14:EVK:aggregation-failed", "%v (%s)", err, c.Sched.descr())
		}
		{
			cong, unred := congGadget(&ref.GadgetCiphertext, &got.GadgetCiphertext, c.Params.Q, c.Params.P)
			if err := scheduleVerdict(rec, "EVK", eqGadget(&ref.GadgetCiphertext, &got.GadgetCiphertext), cong, unred, c.Sched.descr()); err != nil {
				return err
			}
		}
		evk = rlwe.NewEvaluationKey(params, ek)
		if c.DirtyOut {
			dirtyGadget(&evk.GadgetCiphertext, c.Params, junk)
		}
		if _, err := finalize(rec, func() error { return protos[n-1].GenEvaluationKey(got, crps[n-1], evk) },
			&got.GadgetCiphertext, crps[n-1].Value, evk); err != nil {
			return err
		}
	} else {
		g := c.GalEl + c.GalLift*c.Params.NthRoot() // what lattigo is given
		gInv := new(big.Int).ModInverse(h.BU(c.GalEl), h.BU(c.Params.NthRoot())).Uint64()
		skIn, skOut = w.skIdeal, bigToSk(params, ringAut(sI, gInv, c.Params.CI))
		protos := make([]multiparty.GaloisKeyGenProtocol, n)
		crps := make([]multiparty.GaloisKeyGenCRP, n)
		shares := make([]multiparty.GaloisKeyGenShare, n)
		for i := 0; i < n; i++ {
			if i == 0 || !c.Shallow {
				protos[i] = multiparty.NewGaloisKeyGenProtocol(params)
			} else {
				protos[i] = protos[0].ShallowCopy()
			}
			crs, err := crsPRNG(c.CRS)
			if err != nil {
				return err
			}
			pre := runPre(params, c.Pre, crs)
			crps[i] = protos[i].SampleCRP(crs, ek)
			if err := checkCRS(i, pre, crps[i].Value); err != nil {
				return err
			}
			shares[i] = protos[i].AllocateShare(ek)
			switch c.Receiver {
			case 1:
				dirtyGadget(&shares[i].GadgetCiphertext, c.Params, junk)
				shares[i].GaloisElement = junk.Uint64() | 1
			case 2:
				// an earlier share for another Galois element (the inverse one) and another CRP
				if _, _, err := protect(func() error {
					return protos[i].GenShare(w.sks[i], gInv, protos[i].SampleCRP(junkCRS(c.Common), ek), &shares[i])
				}); err != nil {
					return h.Failf("C14:GKG:GenShare-error", "earlier use of the receiver, party %d: %v", i, err)
				}
			}
			var in inputSnap
			in.snap("secret-key", w.sks[i].Value)
			in.snap("crp", flatMatrix(crps[i].Value)...)
			panicked, pmsg, err := protect(func() error { return protos[i].GenShare(w.sks[i], g, crps[i], &shares[i]) })
			if err := in.check("GKG", "GenShare", i); err != nil {
				return err
			}
			if panicked {
				key, msg := "C14:GKG:GenShare:panic", fmt.Sprintf("GaloisKeyGenProtocol.GenShare panicked: %s (key %+v, #P=%d)", pmsg, c.Key, len(c.Params.P))
				if len(c.Params.P) == 0 {
					key = "C14:GKG:GenShare:no-P:panic"
				}
				if !rec.Known(key, msg) {
					return h.Failf(key, "%s", msg)
				}
				// known: parameter sets without P. Go on with what GenShare is documented to compute: the generic
				// protocol with the output secret sigma_{g^-1}(s_i), recomputed here.
				if i == 0 {
					rec.Class("known=GKG-GenShare-noP-panic")
				}
				skOutI := bigToSk(params, ringAut(skToBig(params, w.sks[i]), gInv, c.Params.CI))
				shares[i].GaloisElement = g
				err = protos[i].EvaluationKeyGenProtocol.GenShare(w.sks[i], skOutI, crps[i].EvaluationKeyGenCRP, &shares[i].EvaluationKeyGenShare)
			}
			if err != nil {
				return h.Failf("C14:GKG:GenShare-error", "party %d: %v", i, err)
			}
		}
		ops := galOps(protos[0], ek, c.Common)
		ref, err := refAggregate(shares, ops)
		if err != nil {
			return h.Failf("C14:GKG:aggregation-failed", "index-order aggregation: %v", err)
		}
		got, err := runSched(shares, c.Sched, ops)
		if err != nil {
			return h.Failf("C14:GKG:aggregation-failed", "%v (%s)", err, c.Sched.descr())
		}
		if got.GaloisElement != g {
			return h.Failf("C14:GKG:aggregate-depends-on-schedule", "aggregate carries galEl %d, the index-order aggregate galEl %d (%s)", got.GaloisElement, g, c.Sched.descr())
		}
		{
			cong, unred := congGadget(&ref.GadgetCiphertext, &got.GadgetCiphertext, c.Params.Q, c.Params.P)
			if err := scheduleVerdict(rec, "GKG", eqGadget(&ref.GadgetCiphertext, &got.GadgetCiphertext), cong, unred, c.Sched.descr()); err != nil {
				return err
			}
		}
		gk = rlwe.NewGaloisKey(params, ek)
		if c.DirtyOut {
			dirtyGadget(&gk.GadgetCiphertext, c.Params, junk)
			gk.GaloisElement, gk.NthRoot = junk.Uint64()|1, 4
		}
		completed, err := finalize(rec, func() error { return protos[n-1].GenGaloisKey(got, crps[n-1], gk) },
			&got.GadgetCiphertext, crps[n-1].Value, &gk.EvaluationKey)
		if err != nil {
			return err
		}
		if gk.GaloisElement != g || gk.NthRoot != c.Params.NthRoot() {
			// a key completed on the harness side after a known finalisation defect carries no tag yet
			if !completed {
				return h.Failf("C14:GKG:key-tag", "Galois key tagged (%d, nthRoot %d), want (%d, %d)", gk.GaloisElement, gk.NthRoot, g, c.Params.NthRoot())
			}
			gk.GaloisElement, gk.NthRoot = g, c.Params.NthRoot()
		}
		evk = &gk.EvaluationKey
	}

	// every row is an encryption of the gadget multiple of the ideal input secret under the ideal output secret
	norm, err := rowCheck(params, &evk.GadgetCiphertext, c.Key, skIn.Value.Q, skOut.Value, rowBound)
	if err != nil {
		return h.Failf("C14:"+kindTag(c.Kind)+":not-a-key-of-the-ideal-secret", "%v", err)
	}
	rec.Note("rowNoise", norm.String())

	// functional use by the single-party evaluator
	digits := digitsOf(&evk.GadgetCiphertext)
	sOut := skToBig(params, skOut)
	s1 := new(big.Int).Mul(l1(sOut), big.NewInt(ciFactor(c.Params)))
	bound := ksBound(c.Params, c.Key, digits, c.CtLevel, rowBound, s1)
	bound.Add(bound, big.NewInt(be+1))
	Q := levelModulus(c.Params, c.CtLevel)
	functional := "asserted"
	switch {
	case c.Key.LevelP == -1 && c.Key.W == 0 && c.CtLevel > 0:
		functional = "skipped:noP-w0"
	case !discriminating(bound, Q):
		functional = "not-discriminating"
	}
	if functional == "asserted" {
		m := uniformVec(h.NewSplitMix(c.MsgSeed), params.N(), Q)
		ct, err := encryptSK(params, skIn, m, c.CtLevel)
		if err != nil {
			return err
		}
		out := rlwe.NewCiphertext(params, 1, c.CtLevel)
		var want []*big.Int
		var dec *rlwe.SecretKey
		if c.Kind == "evk" {
			if err := rlwe.NewEvaluator(params, nil).ApplyEvaluationKey(ct, evk, out); err != nil {
				return h.Failf("C14:EVK:apply-error", "ApplyEvaluationKey with the collective key: %v", err)
			}
			want, dec = m, skOut
		} else {
			if err := rlwe.NewEvaluator(params, rlwe.NewMemEvaluationKeySet(nil, gk)).Automorphism(ct, c.GalEl+c.GalLift*c.Params.NthRoot(), out); err != nil {
				return h.Failf("C14:GKG:automorphism-error", "Automorphism with the collective key: %v", err)
			}
			want, dec = h.VecMod(ringAut(m, c.GalEl, c.Params.CI), Q), w.skIdeal
		}
		if diff := decryptDiff(params, dec, out, want); diff.Cmp(bound) > 0 {
			return h.Failf("C14:"+kindTag(c.Kind)+":wrong-result-under-ideal-secret", "single-party evaluator with the collective key: result off by 2^%d > bound 2^%d (Q=2^%d, key %+v, digits %v)", diff.BitLen(), bound.BitLen(), Q.BitLen(), c.Key, digits)
		}
	}

	rec.Class(c.Kind)
	rec.Class(c.receiverClass())
	rec.Class(nClass(n))
	rec.Class(ringClass(c.Params))
	rec.Class(c.Sched.descr())
	rec.Class(keyClass(c.Params, c.Key))
	rec.Class("functional=" + functional)
	if c.GalLift != 0 {
		rec.Class("galois-element-unreduced")
	}
	uneq := c.Key.W > 0 && unequal(digits)
	if uneq {
		rec.Class("unequal-digit-counts")
	}
	if c.Sched.nontrivial() || uneq || c.Receiver != 0 || c.DirtyOut {
		rec.NonTrivial(fmt.Sprintf("%s|%s|%s|%s|%s|%s|uneq=%v|func=%s|ct<key=%v|shallow=%v", c.Kind, nClass(n), ringClass(c.Params), c.Sched.descr(),
			keyClass(c.Params, c.Key), sizeClass(c.Params.Q), uneq, functional, c.CtLevel < c.Key.LevelQ, c.Shallow) + fmt.Sprintf("|lift=%v|%s", c.GalLift != 0, c.receiverClass()))
	}
	return nil
}

func kindTag(k string) string {
	if k == "gal" {
		return "GKG"
	}
	return "EVK"
}

var propEVK = h.NewProp("TestPropCollectiveEvaluationKey", h.Budget{Quick: 1100, Thorough: 20000}, genEVK, runEVK)

func TestPropCollectiveEvaluationKey(t *testing.T) { propEVK.Check(t) }
