package c14

import (
	"bytes"
	"fmt"
	"math/big"
	"testing"

	"verif/internal/h"

	"github.com/tuneinsight/lattigo/v6/core/rlwe"
	"github.com/tuneinsight/lattigo/v6/multiparty"
	"github.com/tuneinsight/lattigo/v6/ring"
	"github.com/tuneinsight/lattigo/v6/ring/ringqp"
	"pgregory.net/rapid"
)

// RKGCase: collective relinearisation key (two rounds).
type RKGCase struct {
	Common
	Key     KeySpec `json:"key"`
	Sched1  Sched   `json:"sched1"`
	Sched2  Sched   `json:"sched2"`
	R1Ser   []int   `json:"r1ser"` // how the round-one aggregate reaches each party: 0 as is, 1 Marshal, 2 WriteTo
	CtLevel int     `json:"ctLevel"`
}

func (c RKGCase) RandSeed() uint64 { return c.Seed }

// unreducedSeen counts round-two shares with residues >= q (read by nothing but ad-hoc probes).
var unreducedSeen int

func genRKG(t *rapid.T) RKGCase {
	var c RKGCase
	c.Common = genCommon(t)
	c.Key = genKey(t, c.Params, "key")
	c.Sched1 = genSched(t, c.Parties, "a")
	c.Sched2 = genSched(t, c.Parties, "b")
	c.R1Ser = make([]int, c.Parties)
	if rapid.Bool().Draw(t, "r1travels") {
		for i := range c.R1Ser {
			c.R1Ser[i] = rapid.IntRange(0, 2).Draw(t, fmt.Sprintf("r1ser%d", i))
		}
	}
	c.CtLevel = rapid.IntRange(0, c.Key.LevelQ).Draw(t, "ctLevel")
	return c
}

func rkgOps(p multiparty.RelinearizationKeyGenProtocol, ek rlwe.EvaluationKeyParameters, round int, c Common) aggOps[multiparty.RelinearizationKeyGenShare] {
	rng := c.junk()
	return aggOps[multiparty.RelinearizationKeyGenShare]{
		clone: func(s multiparty.RelinearizationKeyGenShare) multiparty.RelinearizationKeyGenShare {
			return multiparty.RelinearizationKeyGenShare{GadgetCiphertext: *s.GadgetCiphertext.CopyNew()}
		},
		alloc: func() multiparty.RelinearizationKeyGenShare {
			_, r1, r2 := p.AllocateShare(ek)
			if round == 1 {
				r2 = r1
			}
			if c.DirtyOut {
				dirtyGadget(&r2.GadgetCiphertext, c.Params, rng)
			}
			return r2
		},
		add: func(a, b multiparty.RelinearizationKeyGenShare, out *multiparty.RelinearizationKeyGenShare) error {
			return callErr(p.AggregateShares, a, b, out)
		},
		hop: func(s multiparty.RelinearizationKeyGenShare, mode int) (multiparty.RelinearizationKeyGenShare, error) {
			var out multiparty.RelinearizationKeyGenShare
			b, err := hopBytes(mode, s.MarshalBinary, func(w *bytes.Buffer) (int64, error) { return s.WriteTo(w) }, s.BinarySize())
			if err != nil {
				return out, err
			}
			if mode == 1 {
				err = out.UnmarshalBinary(b)
			} else {
				_, err = out.ReadFrom(bytes.NewReader(b))
			}
			return out, err
		},
	}
}

func runRKG(c RKGCase, rec *h.Rec) error {
	if err := validKey(c.Params, c.Key); err != nil {
		return err
	}
	if c.CtLevel < 0 || c.CtLevel > c.Key.LevelQ {
		return fmt.Errorf("ctLevel out of range")
	}
	if err := validPre(c.Params, c.Pre); err != nil {
		return err
	}
	if len(c.R1Ser) != c.Parties {
		return fmt.Errorf("r1ser size")
	}
	w, err := newWorld(c.Common)
	if err != nil {
		return err
	}
	params, n := w.params, w.n
	ek := c.Key.evk()

	junk := c.junk()
	protos := make([]multiparty.RelinearizationKeyGenProtocol, n)
	crps := make([]multiparty.RelinearizationKeyGenCRP, n)
	eph := make([]*rlwe.SecretKey, n)
	r1 := make([]multiparty.RelinearizationKeyGenShare, n)
	r2 := make([]multiparty.RelinearizationKeyGenShare, n)
	var pre0, crp0 []ringqp.Poly
	for i := 0; i < n; i++ {
		if i == 0 || !c.Shallow {
			protos[i] = multiparty.NewRelinearizationKeyGenProtocol(params)
		} else {
			protos[i] = protos[0].ShallowCopy()
		}
		crs, err := crsPRNG(c.CRS)
		if err != nil {
			return err
		}
		pre := runPre(params, c.Pre, crs)
		crps[i] = protos[i].SampleCRP(crs, ek)
		f := flatMatrix(crps[i].Value)
		if i == 0 {
			pre0, crp0 = pre, f
		} else if !eqQPList(pre, pre0) || !eqQPList(f, crp0) {
			return h.Failf("C14:CRS:parties-read-different-polynomials", "party %d read other reference polynomials than party 0 after the same %d+1 SampleCRP calls (RKG)", i, len(c.Pre))
		}
		eph[i], r1[i], r2[i] = protos[i].AllocateShare(ek)
		switch c.Receiver {
		case 1:
			dirtyGadget(&r1[i].GadgetCiphertext, c.Params, junk)
			dirtyGadget(&r2[i].GadgetCiphertext, c.Params, junk)
			dirtyQP(eph[i].Value, c.Params, junk)
		case 2:
			// an earlier run of both rounds with another CRP into the same ephemeral key and share objects
			protos[i].GenShareRoundOne(w.sks[i], protos[i].SampleCRP(junkCRS(c.Common), ek), eph[i], &r1[i])
			protos[i].GenShareRoundTwo(eph[i], w.sks[i], r1[i], &r2[i])
		}
		var in inputSnap
		in.snap("secret-key", w.sks[i].Value)
		in.snap("crp", f...)
		protos[i].GenShareRoundOne(w.sks[i], crps[i], eph[i], &r1[i])
		if err := in.check("RKG", "GenShareRoundOne", i); err != nil {
			return err
		}
		if _, unred := congGadget(&r1[i].GadgetCiphertext, &r1[i].GadgetCiphertext, c.Params.Q, c.Params.P); unred > 0 {
			return h.Failf("C14:RKG:round1:share-not-reduced", "round-one share of party %d holds %d coefficients >= their modulus", i, unred/2)
		}
	}

	ops1 := rkgOps(protos[0], ek, 1, c.Common)
	ref1, err := refAggregate(r1, ops1)
	if err != nil {
		return h.Failf("C14:RKG:aggregation-failed", "round one, index order: %v", err)
	}
	agg1, err := runSched(r1, c.Sched1, ops1)
	if err != nil {
		return h.Failf("C14:RKG:aggregation-failed", "round one: %v", err)
	}
	{
		cong, unred := congGadget(&ref1.GadgetCiphertext, &agg1.GadgetCiphertext, c.Params.Q, c.Params.P)
		if err := scheduleVerdict(rec, "RKG:round1", eqGadget(&ref1.GadgetCiphertext, &agg1.GadgetCiphertext), cong, unred, c.Sched1.descr()); err != nil {
			return err
		}
	}

	for i := 0; i < n; i++ {
		in := agg1
		if c.R1Ser[i] != 0 {
			if in, err = ops1.hop(agg1, c.R1Ser[i]); err != nil {
				return h.Failf("C14:RKG:aggregation-failed", "round-one aggregate to party %d: %v", i, err)
			}
		}
		var snap inputSnap
		snap.snap("secret-key", w.sks[i].Value)
		snap.snap("ephemeral-key", eph[i].Value)
		snap.snap("round-one-aggregate", gadgetPolys(&in.GadgetCiphertext)...)
		protos[i].GenShareRoundTwo(eph[i], w.sks[i], in, &r2[i])
		if err := snap.check("RKG", "GenShareRoundTwo", i); err != nil {
			return err
		}
		// a share with residues >= q makes the bytes of the aggregate depend on the order of aggregation
		if _, unred := congGadget(&r2[i].GadgetCiphertext, &r2[i].GadgetCiphertext, c.Params.Q, c.Params.P); unred > 0 {
			unreducedSeen++
			key, msg := "C14:RKG:round2:aggregate-representation-depends-on-schedule", fmt.Sprintf("round-two share of party %d holds %d coefficients >= their modulus", i, unred/2)
			if !rec.Known(key, msg) {
				return h.Failf(key, "%s", msg)
			}
		}
	}
	ops2 := rkgOps(protos[0], ek, 2, c.Common)
	ref2, err := refAggregate(r2, ops2)
	if err != nil {
		return h.Failf("C14:RKG:aggregation-failed", "round two, index order: %v", err)
	}
	agg2, err := runSched(r2, c.Sched2, ops2)
	if err != nil {
		return h.Failf("C14:RKG:aggregation-failed", "round two: %v", err)
	}
	{
		cong, unred := congGadget(&ref2.GadgetCiphertext, &agg2.GadgetCiphertext, c.Params.Q, c.Params.P)
		if err := scheduleVerdict(rec, "RKG:round2", eqGadget(&ref2.GadgetCiphertext, &agg2.GadgetCiphertext), cong, unred, c.Sched2.descr()); err != nil {
			return err
		}
	}

	rlk := rlwe.NewRelinearizationKey(params, ek)
	if c.DirtyOut {
		dirtyGadget(&rlk.GadgetCiphertext, c.Params, junk)
	}
	if err := callErr(protos[n-1].GenRelinearizationKey, agg1, agg2, rlk); err != nil {
		return h.Failf("C14:RKG:GenRelinearizationKey-error", "finalisation of matching shares and key failed: %v", err)
	}

	// rows: b + a*s - P*2^(wj)*s^2 = e0*s + e1 + u*e2 with e0,e1,e2 sums of n errors, u the sum of n ephemeral secrets
	be := int64(c.Params.Xe.AbsBound())
	nB := big.NewInt(int64(n) * be)
	sI := skToBig(params, w.skIdeal)
	ci := big.NewInt(ciFactor(c.Params))
	s1 := new(big.Int).Mul(l1(sI), ci)
	u1 := new(big.Int).Mul(secretL1(c.Params, n), ci)
	erow := new(big.Int).Add(s1, u1)
	erow.Add(erow, big.NewInt(1))
	erow.Mul(erow, nB)

	rqFull := params.RingQ()
	s2 := rqFull.NewPoly()
	rqFull.MulCoeffsMontgomery(w.skIdeal.Value.Q, w.skIdeal.Value.Q, s2)
	QP := h.ProdU(c.Params.Q[:c.Key.LevelQ+1])
	if c.Key.LevelP >= 0 {
		QP.Mul(QP, h.ProdU(c.Params.P[:c.Key.LevelP+1]))
	}
	norm, err := rowCheck(params, &rlk.GadgetCiphertext, c.Key, s2, w.skIdeal.Value, erow)
	rowsDisc := discriminating(erow, QP)
	if err != nil && rowsDisc {
		return h.Failf("C14:RKG:not-a-key-of-the-ideal-secret", "%v", err)
	}
	if norm != nil {
		rec.Note("rowNoise", norm.String())
	}

	digits := digitsOf(&rlk.GadgetCiphertext)
	bound := ksBound(c.Params, c.Key, digits, c.CtLevel, erow, s1)
	bound.Add(bound, big.NewInt(1))
	Q := levelModulus(c.Params, c.CtLevel)
	functional := "asserted"
	switch {
	case c.Key.LevelP == -1 && c.Key.W == 0 && c.CtLevel > 0:
		functional = "skipped:noP-w0"
	case !discriminating(bound, Q):
		functional = "not-discriminating"
	}
	if functional == "asserted" {
		rq := rqFull.AtLevel(c.CtLevel)
		rng := h.NewSplitMix(c.MsgSeed)
		m := uniformVec(rng, params.N(), Q)
		c1 := bigToPoly(rq, uniformVec(rng, params.N(), Q), true)
		c2 := bigToPoly(rq, uniformVec(rng, params.N(), Q), true)
		c0 := bigToPoly(rq, m, true)
		tmp := rq.NewPoly()
		rq.MulCoeffsMontgomery(c1, w.skIdeal.Value.Q, tmp)
		rq.Sub(c0, tmp, c0)
		rq.MulCoeffsMontgomery(c2, s2, tmp)
		rq.Sub(c0, tmp, c0)
		ct := rlwe.NewCiphertext(params, 2, c.CtLevel)
		for d, p := range []ring.Poly{c0, c1, c2} {
			if !ct.IsNTT {
				rq.INTT(p, p)
			}
			for i := 0; i <= c.CtLevel; i++ {
				copy(ct.Value[d].Coeffs[i], p.Coeffs[i])
			}
		}
		out := rlwe.NewCiphertext(params, 1, c.CtLevel)
		if err := rlwe.NewEvaluator(params, rlwe.NewMemEvaluationKeySet(rlk)).Relinearize(ct, out); err != nil {
			return h.Failf("C14:RKG:relinearize-error", "Relinearize with the collective key: %v", err)
		}
		if out.Degree() != 1 {
			return h.Failf("C14:RKG:relinearize-degree", "degree %d after Relinearize", out.Degree())
		}
		if diff := decryptDiff(params, w.skIdeal, out, m); diff.Cmp(bound) > 0 {
			return h.Failf("C14:RKG:wrong-result-under-ideal-secret", "single-party Relinearize with the collective key: result off by 2^%d > bound 2^%d (Q=2^%d, key %+v, digits %v)", diff.BitLen(), bound.BitLen(), Q.BitLen(), c.Key, digits)
		}
	}

	rec.Class(nClass(n))
	rec.Class(c.receiverClass())
	rec.Class(ringClass(c.Params))
	rec.Class("r1:" + c.Sched1.descr())
	rec.Class("r2:" + c.Sched2.descr())
	rec.Class(keyClass(c.Params, c.Key))
	rec.Class("functional=" + functional)
	if !rowsDisc {
		rec.Class("rows-not-discriminating")
	}
	uneq := c.Key.W > 0 && unequal(digits)
	if uneq {
		rec.Class("unequal-digit-counts")
	}
	travels := false
	for _, v := range c.R1Ser {
		travels = travels || v != 0
	}
	if (c.Sched1.nontrivial() || c.Sched2.nontrivial() || uneq || travels || c.Receiver != 0 || c.DirtyOut) && (rowsDisc || functional == "asserted") {
		rec.NonTrivial(fmt.Sprintf("rkg|%s|%s|%s|%s|%s|%s|uneq=%v|func=%s|travels=%v|shallow=%v", nClass(n), ringClass(c.Params), c.Sched1.descr(), c.Sched2.descr(),
			keyClass(c.Params, c.Key), sizeClass(c.Params.Q), uneq, functional, travels, c.Shallow) + "|" + c.receiverClass())
	}
	return nil
}

var propRKG = h.NewProp("TestPropCollectiveRelinearizationKey", h.Budget{Quick: 500, Thorough: 10000}, genRKG, runRKG)

func TestPropCollectiveRelinearizationKey(t *testing.T) { propRKG.Check(t) }
