package c13

import (
	"fmt"
	"math"
	"math/big"
	"os"
	"strings"
	"sync"
	"testing"

	"verif/internal/h"

	"github.com/tuneinsight/lattigo/v6/circuits/ckks/bootstrapping"
	"github.com/tuneinsight/lattigo/v6/circuits/ckks/comparison"
	"github.com/tuneinsight/lattigo/v6/circuits/ckks/inverse"
	"github.com/tuneinsight/lattigo/v6/circuits/ckks/minimax"
	"github.com/tuneinsight/lattigo/v6/circuits/ckks/mod1"
	ckkspoly "github.com/tuneinsight/lattigo/v6/circuits/ckks/polynomial"
	"github.com/tuneinsight/lattigo/v6/core/rlwe"
	"github.com/tuneinsight/lattigo/v6/schemes/ckks"
	"github.com/tuneinsight/lattigo/v6/utils/bignum"
	"pgregory.net/rapid"
)

// genPrec128Spec draws 128-bit-mode parameters as lattigo's composite-circuit tests use them: two 60-bit base primes,
// `pairs` pairs of primes next to 2^b (scale 2^(2b)), two 61-bit P primes.
func genPrec128Spec(t *rapid.T, minLogN, maxLogN, minPairs, maxPairs int) h.CKKSSpec {
	var s h.CKKSSpec
	s.LogN = rapid.IntRange(minLogN, maxLogN).Draw(t, "logN")
	s.CI = rapid.IntRange(0, 2).Draw(t, "ringType") == 0
	s.Xs, s.Xe = h.DefaultXs, h.DefaultXe
	s.NTT = true
	m := s.NthRoot()
	used := map[uint64]bool{}
	b := rapid.IntRange(43, 48).Draw(t, "halfLogScale")
	s.LogScale = 2 * b
	pairs := rapid.IntRange(minPairs, maxPairs).Draw(t, "pairs")
	s.Q = append(h.GenPrimes(t, []int{60, 60}, m, used, "q0"), nearPow2Primes(t, b, 2*pairs, m, used, "q")...)
	s.P = h.GenPrimes(t, []int{61, 61}, m, used, "p")
	return s
}

type compCtx struct {
	params ckks.Parameters
	sk     *rlwe.SecretKey
	eval   *ckks.Evaluator
	ecd    *ckks.Encoder
	enc    *rlwe.Encryptor
	dec    *rlwe.Decryptor
	btp    *bootstrapping.SecretKeyBootstrapper
}

func newCompCtx(spec h.CKKSSpec) (*compCtx, error) {
	params, err := spec.Build()
	if err != nil {
		return nil, err
	}
	c := &compCtx{params: params}
	kgen := rlwe.NewKeyGenerator(params)
	c.sk = kgen.GenSecretKeyNew()
	var gks []*rlwe.GaloisKey
	if !spec.CI {
		gks = append(gks, kgen.GenGaloisKeyNew(params.GaloisElementForComplexConjugation(), c.sk))
	}
	c.eval = ckks.NewEvaluator(params, rlwe.NewMemEvaluationKeySet(kgen.GenRelinearizationKeyNew(c.sk), gks...))
	c.ecd = ckks.NewEncoder(params)
	c.enc = rlwe.NewEncryptor(params, c.sk)
	c.dec = rlwe.NewDecryptor(params, c.sk)
	c.btp = bootstrapping.NewSecretKeyBootstrapper(params, c.sk)
	return c, nil
}

func (c *compCtx) encrypt(v []float64, level int, scale rlwe.Scale) (*rlwe.Ciphertext, error) {
	pt := ckks.NewPlaintext(c.params, level)
	pt.Scale = scale
	if err := c.ecd.Encode(v, pt); err != nil {
		return nil, err
	}
	return c.enc.EncryptNew(pt)
}

func (c *compCtx) decrypt(ct *rlwe.Ciphertext) ([]*big.Float, error) {
	got := make([]*big.Float, c.params.MaxSlots())
	for i := range got {
		got[i] = new(big.Float)
	}
	return got, c.ecd.Decode(c.dec.DecryptNew(ct), got)
}

// ---------------------------------------------------------------------------------------------------------------------
// inverse.Evaluator

// InvCase: 1/x on the stated domain of EvaluatePositiveDomainNew / EvaluateNegativeDomainNew / EvaluateFullDomainNew,
// i.e. |x| in [2^log2min, 2^log2max] (end points included).
type InvCase struct {
	Params  h.CKKSSpec `json:"params"`
	Seed    uint64     `json:"seed"`
	Domain  string     `json:"domain"` // "positive" | "negative" | "full" | "goldschmidt"
	Log2Min int        `json:"log2min"`
	Log2Max int        `json:"log2max"`
	Pattern string     `json:"pattern"`
	ValSeed uint64     `json:"valSeed"`
	Twice   bool       `json:"twice"` // evaluate a second time with the same evaluator and the same input ciphertext
}

func (c InvCase) RandSeed() uint64 { return c.Seed }

func genInv(t *rapid.T) InvCase {
	var c InvCase
	c.Params = genPrec128Spec(t, 4, 5, 5, 6)
	c.Seed = rapid.Uint64().Draw(t, "seed")
	c.Domain = []string{"positive", "negative", "full", "goldschmidt"}[rapid.IntRange(0, 3).Draw(t, "domain")]
	c.Log2Min = -rapid.IntRange(1, 20).Draw(t, "log2min")
	c.Log2Max = rapid.IntRange(0, 10).Draw(t, "log2max")
	c.Pattern = []string{"loguniform", "ends", "uniform"}[rapid.IntRange(0, 2).Draw(t, "pattern")]
	c.ValSeed = rapid.Uint64().Draw(t, "valSeed")
	c.Twice = rapid.IntRange(0, 2).Draw(t, "twice") == 0
	return c
}

func runInv(c InvCase, rec *h.Rec) error {
	cc, err := newCompCtx(c.Params)
	if err != nil {
		return h.Failf("C13:inv:params", "%v", err)
	}
	slots := cc.params.MaxSlots()
	lo, hi := math.Ldexp(1, c.Log2Min), math.Ldexp(1, c.Log2Max)
	if c.Domain == "goldschmidt" {
		// documented input interval [2^log2min, 2 - 2^log2min]
		hi = 2 - lo
	}
	rng := h.NewSplitMix(c.ValSeed)
	x := make([]float64, slots)
	for i := range x {
		var mag float64
		switch {
		case c.Pattern == "ends" && i&1 == 0:
			mag = lo
		case c.Pattern == "ends":
			mag = hi
		case c.Pattern == "uniform":
			mag = lo + (hi-lo)*rng.Float64()
		default:
			mag = math.Exp2(math.Log2(lo) + (math.Log2(hi)-math.Log2(lo))*rng.Float64())
		}
		mag = math.Min(math.Max(mag, lo), hi)
		switch c.Domain {
		case "negative":
			mag = -mag
		case "full":
			if rng.Intn(2) == 0 {
				mag = -mag
			}
		}
		x[i] = mag
	}
	ct, err := cc.encrypt(x, cc.params.MaxLevel(), cc.params.DefaultScale())
	if err != nil {
		return h.Failf("C13:inv:encrypt", "%v", err)
	}
	invEval := inverse.NewEvaluator(cc.params, minimax.NewEvaluator(cc.params, cc.eval, cc.btp))
	rec.Class("domain=" + c.Domain)
	rec.Class("pattern=" + c.Pattern)
	rounds := 1
	if c.Twice {
		rounds = 2
		rec.Class("twice")
	}
	// the second round re-uses the evaluator object AND the input ciphertext: both must have been left intact
	for round := 0; round < rounds; round++ {
		stage := ""
		if round > 0 {
			stage = ":second-use"
		}
		var out *rlwe.Ciphertext
		var pmsg string
		switch c.Domain {
		case "positive":
			out, err, pmsg = guarded(func() (*rlwe.Ciphertext, error) {
				return invEval.EvaluatePositiveDomainNew(ct, float64(c.Log2Min), float64(c.Log2Max))
			})
		case "negative":
			out, err, pmsg = guarded(func() (*rlwe.Ciphertext, error) {
				return invEval.EvaluateNegativeDomainNew(ct, float64(c.Log2Min), float64(c.Log2Max))
			})
		case "full":
			out, err, pmsg = guarded(func() (*rlwe.Ciphertext, error) {
				return invEval.EvaluateFullDomainNew(ct, float64(c.Log2Min), float64(c.Log2Max), minimax.NewPolynomial(comparison.DefaultCompositePolynomialForSign))
			})
		default:
			out, err, pmsg = guarded(func() (*rlwe.Ciphertext, error) { return invEval.GoldschmidtDivisionNew(ct, float64(c.Log2Min)) })
		}
		if err != nil || pmsg != "" {
			key, msg := "C13:inv:"+c.Domain+":error", fmt.Sprintf("log2min %d log2max %d: %v %s", c.Log2Min, c.Log2Max, err, pmsg)
			if c.Domain == "full" && c.Log2Max == 0 && err != nil && strings.Contains(err.Error(), "level is too low") {
				// no interval normalisation (log2max <= 0): nothing bootstraps the Goldschmidt result before the final product with the sign
				key = "C13:inv:full:no-normalization:level-too-low"
				if rec.Known(key, msg) {
					rec.Class("known=" + key)
					return nil
				}
			}
			return h.Failf(key+stage, "%s", msg)
		}
		got, err := cc.decrypt(out)
		if err != nil {
			return h.Failf("C13:inv:decode", "%v", err)
		}
		// relative error: the Goldschmidt truncation error is below N/2/scale by construction of the iteration count; the scheme
		// error is amplified by at most ~1/x^2 absolute, i.e. 1/x relative (<= 2^20): tolerance 2^-30 relative at scale >= 2^86
		for i := range got {
			g, _ := got[i].Float64()
			if rel := math.Abs(g*x[i] - 1); !(rel <= math.Ldexp(1, -30)) {
				return h.Failf("C13:inv:"+c.Domain+":value"+stage, "slot %d: x=%g got %g want %g (relative error 2^%.1f; log2min %d log2max %d)", i, x[i], g, 1/x[i], math.Log2(rel), c.Log2Min, c.Log2Max)
			}
		}
	}
	rec.NonTrivial(fmt.Sprintf("inv|%s|ci=%v|min=%d|max=%d|%s", c.Domain, c.Params.CI, c.Log2Min/4, c.Log2Max/3, c.Pattern))
	return nil
}

var propInv = h.NewProp("TestPropInverseCircuits", h.Budget{Quick: 40, Thorough: 600}, genInv, runInv)

func TestPropInverseCircuits(t *testing.T) { propInv.Check(t) }

// ---------------------------------------------------------------------------------------------------------------------
// mod1.Evaluator with generated literals

// Mod1Case evaluates x mod 1 (as (1/2pi) sin(2 pi x), optionally followed by the arcsine) on x = I + eps, I integer in
// [-K+1, K-1], |eps| <= 2^-LogMessageRatio, the input being normalised to x/K as the evaluator expects.
type Mod1Case struct {
	Params          h.CKKSSpec `json:"params"`
	Seed            uint64     `json:"seed"`
	Type            string     `json:"type"` // "sin" | "cos"
	K               int        `json:"K"`
	Degree          int        `json:"degree"`
	DoubleAngle     int        `json:"doubleAngle"`
	InvDegree       int        `json:"invDegree"`
	LogMessageRatio int        `json:"logMessageRatio"`
	Scaling         float64    `json:"scaling"`
	More            []float64  `json:"more"` // scalings of further evaluations from the SAME mod1.Parameters / evaluator
	ValSeed         uint64     `json:"valSeed"`
}

func (c Mod1Case) RandSeed() uint64 { return c.Seed }

// chebRemainder bounds the error of the degree-n Chebyshev interpolant of (1/2pi) sin/cos(2 pi x) on [-k, k]:
// max|f^(n+1)|/(n+1)! * k^(n+1)/2^n with max|f^(n+1)| = (2pi)^n.
func chebRemainder(k float64, n int) float64 {
	lg, _ := math.Lgamma(float64(n + 2))
	return math.Exp(float64(n)*math.Log(2*math.Pi) + float64(n+1)*math.Log(k) - lg - float64(n)*math.Ln2)
}

// output scalings: 1 goes through EvaluateNew, the others through EvaluateAndScaleNew
var mod1Scalings = []float64{1, 0.5, 2, 1, 0.25, 3, 1.5, 0.75}

// polyFingerprint renders every coefficient of a polynomial exactly (nil stays nil).
func polyFingerprint(p *bignum.Polynomial) string {
	if p == nil {
		return "<nil>"
	}
	var sb strings.Builder
	for _, c := range p.Coeffs {
		if c == nil {
			sb.WriteString("nil;")
			continue
		}
		fmt.Fprintf(&sb, "%s,%s;", c[0].Text('p', 0), c[1].Text('p', 0))
	}
	return sb.String()
}

func genMod1(t *rapid.T) Mod1Case {
	var c Mod1Case
	c.Params.LogN = rapid.IntRange(4, 5).Draw(t, "logN")
	c.Params.Xs, c.Params.Xe = h.DefaultXs, h.DefaultXe
	c.Params.NTT = true
	m := c.Params.NthRoot()
	used := map[uint64]bool{}
	b := rapid.IntRange(52, 58).Draw(t, "logScale")
	c.Params.LogScale = b
	c.Seed = rapid.Uint64().Draw(t, "seed")
	c.Type = []string{"sin", "cos", "cosdiscrete"}[rapid.IntRange(0, 2).Draw(t, "type")]
	c.K = rapid.IntRange(1, 6).Draw(t, "K")
	if c.Type == "cos" {
		c.DoubleAngle = rapid.IntRange(1, 2).Draw(t, "doubleAngle")
	}
	if c.Type == "cosdiscrete" {
		// Han-Ki approximation: nodes clustered around the integers, "requires a minimum degree of 2*(K-1)"
		c.K = rapid.IntRange(2, 8).Draw(t, "Kd")
		c.DoubleAngle = rapid.IntRange(1, 3).Draw(t, "doubleAngleD")
	}
	// smallest degree (biased to 2^k-1, 2^k) whose interpolation error on the (shrunk) interval is below 2^-30
	kk := float64(c.K) / math.Exp2(float64(c.DoubleAngle))
	deg := 3
	for chebRemainder(kk, deg) > math.Ldexp(1, -30) {
		deg++
	}
	deg += rapid.IntRange(0, 6).Draw(t, "degExtra")
	if rapid.Bool().Draw(t, "degPow2") {
		p := 1
		for p < deg {
			p <<= 1
		}
		deg = p - rapid.IntRange(0, 1).Draw(t, "degPow2minus1")
	}
	if c.Type == "cosdiscrete" {
		deg = 2*c.K - 1 + rapid.IntRange(0, 16).Draw(t, "degD")
		if deg > 31 {
			deg = 31
		}
	}
	c.Degree = deg
	if rapid.Bool().Draw(t, "arcsine") && c.Type == "sin" {
		c.InvDegree = []int{3, 5, 7}[rapid.IntRange(0, 2).Draw(t, "invDegree")]
	}
	c.LogMessageRatio = rapid.IntRange(4, 8).Draw(t, "logMessageRatio")
	if c.Type == "cosdiscrete" {
		c.LogMessageRatio = rapid.IntRange(4, 10).Draw(t, "logMessageRatioD")
	}
	c.Scaling = mod1Scalings[rapid.IntRange(0, len(mod1Scalings)-1).Draw(t, "scaling")]
	for i, n := 0, rapid.IntRange(0, 2).Draw(t, "nMore"); i < n; i++ {
		c.More = append(c.More, mod1Scalings[rapid.IntRange(0, len(mod1Scalings)-1).Draw(t, fmt.Sprintf("more%d", i))])
	}
	c.ValSeed = rapid.Uint64().Draw(t, "valSeed")
	depth := advertisedDepth(c.Degree) + c.DoubleAngle
	if c.InvDegree > 0 {
		depth += advertisedDepth(c.InvDegree)
	}
	c.Params.Q = append(h.GenPrimes(t, []int{60}, m, used, "q0"), nearPow2Primes(t, b, depth+rapid.IntRange(0, 1).Draw(t, "spare"), m, used, "q")...)
	c.Params.P = h.GenPrimes(t, []int{61}, m, used, "p")
	return c
}

func runMod1(c Mod1Case, rec *h.Rec) error {
	params, err := c.Params.Build()
	if err != nil {
		return h.Failf("C13:mod1:params", "%v", err)
	}
	lit := mod1.ParametersLiteral{
		LevelQ:          params.MaxLevel(),
		LogScale:        c.Params.LogScale,
		Mod1Type:        mod1.SinContinuous,
		LogMessageRatio: c.LogMessageRatio,
		K:               c.K,
		Mod1Degree:      c.Degree,
		DoubleAngle:     c.DoubleAngle,
		Mod1InvDegree:   c.InvDegree,
	}
	switch c.Type {
	case "cos":
		lit.Mod1Type = mod1.CosContinuous
	case "cosdiscrete":
		lit.Mod1Type = mod1.CosDiscrete
	}
	mp, err := mod1.NewParametersFromLiteral(params, lit)
	if err != nil {
		return h.Failf("C13:mod1:NewParametersFromLiteral", "%v", err)
	}
	q0 := float64(params.Q()[0])
	qDiff := q0 / math.Exp2(math.Round(math.Log2(q0)))
	if math.Abs(mp.QDiff-qDiff) > 1e-12 {
		return h.Failf("C13:mod1:QDiff", "got %v want %v", mp.QDiff, qDiff)
	}
	actualDeg := mp.Mod1Poly.Degree()
	if c.Type != "cosdiscrete" && actualDeg != c.Degree {
		return h.Failf("C13:mod1:degree", "Mod1Degree %d, polynomial of degree %d", c.Degree, actualDeg)
	}
	if c.Type == "cosdiscrete" && (actualDeg > c.Degree || actualDeg < 2*c.K-2) {
		return h.Failf("C13:mod1:degree", "CosDiscrete: K %d Mod1Degree %d, polynomial of degree %d", c.K, c.Degree, actualDeg)
	}
	consumed := advertisedDepth(actualDeg) + c.DoubleAngle + map[bool]int{true: advertisedDepth(c.InvDegree), false: 0}[c.InvDegree > 0]
	if c.Type != "cosdiscrete" && lit.Depth() != consumed || lit.Depth() < consumed {
		return h.Failf("C13:mod1:Depth", "ParametersLiteral.Depth() = %d, the evaluation consumes %d levels", lit.Depth(), consumed)
	}

	// reference model of the circuit itself on lattigo's coefficients (independent arithmetic): Chebyshev polynomial at
	// u (+ the cosine offset), r double-angle steps y -> 2y^2 - s, s -> s^2, then the arcsine polynomial. It separates
	// "the circuit evaluates its polynomials correctly" (noise-level tolerance) from the quality of the approximation.
	polyRef := coeffsOf(mp.Mod1Poly)
	var invRef []bc
	if mp.Mod1InvPoly != nil {
		invRef = coeffsOf(*mp.Mod1InvPoly)
	}
	sPoly := 0.0
	for k, v := range polyRef {
		sPoly += v.abs() * math.Max(1, float64(k*k))
	}
	maxInter := 0.0 // largest intermediate magnitude of the reference model over all slots and evaluations
	pipeline := func(ui, scaling float64) float64 {
		track := func(v float64) {
			if a := math.Abs(v); a > maxInter || a != a {
				maxInter = a
			}
		}
		if c.Type != "sin" {
			ui -= 0.25 / float64(c.K)
		}
		sc := 1.0
		if invRef == nil {
			sc = math.Pow(scaling, 1/math.Exp2(float64(c.DoubleAngle)))
		}
		y := refEval(true, polyRef, bcNew(ui, 0))
		yf, _ := y.re.Float64()
		yf *= sc
		track(yf)
		sq := mp.Sqrt2Pi * sc
		for i := 0; i < c.DoubleAngle; i++ {
			sq *= sq
			track(2 * yf * yf) // the product before the subtraction (at scale^2, same relative headroom)
			yf = 2*yf*yf - sq
			track(yf)
		}
		if invRef != nil {
			acc := 0.0
			for k := len(invRef) - 1; k >= 0; k-- {
				ck, _ := invRef[k].re.Float64()
				acc = acc*yf + ck*scaling
			}
			yf = acc
		}
		return yf
	}

	kgen := rlwe.NewKeyGenerator(params)
	sk := kgen.GenSecretKeyNew()
	eval := ckks.NewEvaluator(params, rlwe.NewMemEvaluationKeySet(kgen.GenRelinearizationKeyNew(sk)))
	ecd := ckks.NewEncoder(params)
	enc := rlwe.NewEncryptor(params, sk)
	dec := rlwe.NewDecryptor(params, sk)

	slots := params.MaxSlots()
	rng := h.NewSplitMix(c.ValSeed)
	epsMax := math.Ldexp(1, -c.LogMessageRatio)
	u, want := make([]float64, slots), make([]float64, slots)
	for i := range u {
		I := float64(rng.Intn(2*c.K-1) - (c.K - 1))
		eps := (2*rng.Float64() - 1) * epsMax
		switch rng.Intn(6) {
		case 0:
			eps = epsMax
		case 1:
			eps = -epsMax
		case 2:
			eps = 0
		}
		switch i {
		case 0:
			I = float64(c.K - 1)
		case 1:
			I = -float64(c.K - 1)
		}
		u[i] = (I + eps) / float64(c.K)
		// model for scaling 1: (qDiff/2pi) sin(2 pi (I+eps)), respectively its arcsine
		want[i] = qDiff / (2 * math.Pi) * math.Sin(2*math.Pi*eps)
		if c.InvDegree > 0 {
			want[i] = qDiff * eps
		}
	}
	pt := ckks.NewPlaintext(params, params.MaxLevel())
	pt.Scale = mp.ScalingFactor()
	if err = ecd.Encode(u, pt); err != nil {
		return h.Failf("C13:mod1:encode", "%v", err)
	}
	ct, err := enc.EncryptNew(pt)
	if err != nil {
		return h.Failf("C13:mod1:encrypt", "%v", err)
	}
	mev := mod1.NewEvaluator(eval, ckkspoly.NewEvaluator(params, eval), mp)
	rec.Classf("type=%s", c.Type)
	rec.Classf("arcsine=%v", c.InvDegree > 0)
	rec.Classf("doubleAngle=%d", c.DoubleAngle)
	rec.Classf("evaluations=%d", 1+len(c.More))
	if c.Degree&(c.Degree-1) == 0 {
		rec.Class("degree=2^k")
	}
	fpPoly, fpInv := polyFingerprint(&mp.Mod1Poly), polyFingerprint(mp.Mod1InvPoly)
	kk := float64(c.K) / math.Exp2(float64(c.DoubleAngle))
	discriminating := true

	// several evaluations from the same Parameters / evaluator / input: each one must match the model for ITS scaling
	for round, scaling := range append([]float64{c.Scaling}, c.More...) {
		var out *rlwe.Ciphertext
		var pmsg string
		if scaling == 1 && round&1 == 0 {
			out, err, pmsg = guarded(func() (*rlwe.Ciphertext, error) { return mev.EvaluateNew(ct) })
		} else {
			out, err, pmsg = guarded(func() (*rlwe.Ciphertext, error) { return mev.EvaluateAndScaleNew(ct, complex(scaling, 0)) })
		}
		stage := ""
		if round > 0 {
			stage = ":repeated"
		}
		if err != nil || pmsg != "" {
			return h.Failf("C13:mod1:"+c.Type+":error"+stage, "evaluation %d (scaling %v): K %d degree %d doubleAngle %d invDegree %d: %v %s", round, scaling, c.K, c.Degree, c.DoubleAngle, c.InvDegree, err, pmsg)
		}
		if wantLevel := params.MaxLevel() - consumed; out.Level() != wantLevel {
			return h.Failf("C13:mod1:level", "output level %d, want LevelQ - %d", out.Level(), wantLevel)
		}
		got := make([]float64, slots)
		if err = ecd.Decode(dec.DecryptNew(out), got); err != nil {
			return h.Failf("C13:mod1:decode", "%v", err)
		}
		// (1) the circuit against its reference model: scheme error only
		tolPipe := math.Ldexp(float64(params.N()), 12) * math.Exp2(-float64(c.Params.LogScale)) * (1 + sPoly) * math.Pow(4, float64(c.DoubleAngle)) * (1 + scaling) * 4
		worstApprox := 0.0
		for i := range got {
			pipeline(u[i], scaling)
		}
		if !(maxInter <= math.Min(4, math.Exp2(float64(60-c.Params.LogScale-2)))) {
			// The interpolant is not a bounded approximation on these inputs (CosDiscrete close to its minimum degree):
			// some slot exceeds a quarter of the headroom q0/scale = 2^(60-LogScale) of the last levels, the plaintext wraps
			// around the modulus and every slot is garbage. Outside what the circuit can represent: unjudged.
			rec.Class("mod1:reference-model-unbounded(unjudged)")
			return nil
		}
		for i := range got {
			w := pipeline(u[i], scaling)
			if e := math.Abs(got[i] - w); !(e <= tolPipe) {
				return h.Failf("C13:mod1:"+c.Type+":circuit"+stage, "evaluation %d of %v: slot %d: x/K=%v got %v, reference evaluation of the same polynomials gives %v (error 2^%.1f, bound 2^%.1f; K %d degree %d doubleAngle %d invDegree %d scaling %v)", round, append([]float64{c.Scaling}, c.More...), i, u[i], got[i], w, math.Log2(e), math.Log2(tolPipe), c.K, actualDeg, c.DoubleAngle, c.InvDegree, scaling)
			}
			worstApprox = math.Max(worstApprox, math.Abs(w-want[i]*scaling))
		}
		if c.Type == "cosdiscrete" {
			// no closed-form bound for the Han-Ki interpolant: the approximation error is recorded, not judged
			rec.Note("cosdiscrete-approx-log2err", math.Log2(worstApprox+1e-300))
			if !(tolPipe < math.Ldexp(1, -10)*scaling*epsMax) {
				discriminating = false
			}
			if p, q := polyFingerprint(&mp.Mod1Poly), polyFingerprint(mp.Mod1InvPoly); p != fpPoly || q != fpInv {
				return h.Failf("C13:mod1:parameters-modified", "after evaluation %d with scaling %v the coefficients held by the Parameters changed", round, scaling)
			}
			continue
		}
		// (2) against the function: interpolation remainder (x 4 per double angle), truncation of the arcsine series, scheme error
		tol := 2*chebRemainder(kk, c.Degree)*math.Pow(4, float64(c.DoubleAngle))*qDiff*scaling + math.Ldexp(1, -20)
		if c.InvDegree > 0 {
			s := math.Sin(2 * math.Pi * epsMax)
			tol += qDiff * scaling / (2 * math.Pi) * math.Pow(s, float64(c.InvDegree+2)) / (1 - s*s)
		}
		for i := range got {
			w := want[i] * scaling // want[] holds the model for scaling 1
			if e := math.Abs(got[i] - w); !(e <= tol) {
				return h.Failf("C13:mod1:"+c.Type+":value"+stage, "evaluation %d of %v: slot %d: x/K=%v got %v want %v (error 2^%.1f, bound 2^%.1f; K %d degree %d doubleAngle %d invDegree %d scaling %v)", round, append([]float64{c.Scaling}, c.More...), i, u[i], got[i], w, math.Log2(e), math.Log2(tol), c.K, c.Degree, c.DoubleAngle, c.InvDegree, scaling)
			}
		}
		if !(tol < math.Ldexp(1, -10)*scaling*epsMax) {
			discriminating = false
		}
		// the evaluator must not modify the polynomials held by the Parameters
		if p, q := polyFingerprint(&mp.Mod1Poly), polyFingerprint(mp.Mod1InvPoly); p != fpPoly || q != fpInv {
			return h.Failf("C13:mod1:parameters-modified", "after evaluation %d with scaling %v the coefficients of Parameters.Mod1Poly (changed: %v) / Mod1InvPoly (changed: %v) differ from those before the call", round, scaling, p != fpPoly, q != fpInv)
		}
	}
	if discriminating {
		rec.NonTrivial(fmt.Sprintf("mod1|%s|K=%d|deg=%d|da=%d|inv=%d|ratio=%d|scal=%v%v", c.Type, c.K, c.Degree, c.DoubleAngle, c.InvDegree, c.LogMessageRatio, c.Scaling, c.More))
	} else {
		rec.Class("not-discriminating")
	}
	return nil
}

var propMod1 = h.NewProp("TestPropMod1Circuit", h.Budget{Quick: 120, Thorough: 3000}, genMod1, runMod1)

func TestPropMod1Circuit(t *testing.T) { propMod1.Check(t) }

// ---------------------------------------------------------------------------------------------------------------------
// minimax.Evaluator with a generated composite polynomial

// MinimaxCase evaluates a composite sign polynomial produced by minimax.GenMinimaxCompositePolynomial.
type MinimaxCase struct {
	Params  h.CKKSSpec `json:"params"`
	Seed    uint64     `json:"seed"`
	Config  int        `json:"config"` // index into minimaxConfigs
	ValSeed uint64     `json:"valSeed"`
	Pattern string     `json:"pattern"`
	Twice   bool       `json:"twice"`
}

func (c MinimaxCase) RandSeed() uint64 { return c.Seed }

type minimaxConfig struct {
	logAlpha, logErr int
	deg              []int
}

// a few small configurations (the multi-interval Remez search takes seconds each; results are cached per process)
var minimaxConfigs = []minimaxConfig{
	{3, 10, []int{3, 7}},
	{4, 10, []int{7, 7}},
	{5, 12, []int{7, 15}},
	// thorough tier only (10-30 s of Remez search each)
	{8, 16, []int{15, 15}},
	{10, 20, []int{7, 15, 15}},
}

// minimaxQuickConfigs is the number of configurations the quick tier draws from.
const minimaxQuickConfigs = 3

var (
	minimaxMu    sync.Mutex
	minimaxCache = map[int][][]*big.Float{}
)

func minimaxCoeffs(i int) [][]*big.Float {
	minimaxMu.Lock()
	defer minimaxMu.Unlock()
	if c, ok := minimaxCache[i]; ok {
		return c
	}
	cfg := minimaxConfigs[i]
	// the generator reports its progress on stdout: silence it
	old := os.Stdout
	if null, err := os.OpenFile(os.DevNull, os.O_WRONLY, 0); err == nil {
		os.Stdout = null
		defer func() { os.Stdout = old; null.Close() }()
	}
	c := minimax.GenMinimaxCompositePolynomial(128, cfg.logAlpha, cfg.logErr, cfg.deg, bignum.Sign)
	minimaxCache[i] = c
	return c
}

func genMinimax(t *rapid.T) MinimaxCase {
	var c MinimaxCase
	c.Params = genPrec128Spec(t, 4, 5, 4, 5)
	c.Seed = rapid.Uint64().Draw(t, "seed")
	nCfg := minimaxQuickConfigs
	if h.Thorough() {
		nCfg = len(minimaxConfigs)
	}
	c.Config = rapid.IntRange(0, nCfg-1).Draw(t, "config")
	c.ValSeed = rapid.Uint64().Draw(t, "valSeed")
	c.Pattern = []string{"uniform", "edge", "mix"}[rapid.IntRange(0, 2).Draw(t, "pattern")]
	c.Twice = rapid.Bool().Draw(t, "twice")
	return c
}

func runMinimax(c MinimaxCase, rec *h.Rec) error {
	cfg := minimaxConfigs[c.Config]
	coeffs := minimaxCoeffs(c.Config)
	if len(coeffs) != len(cfg.deg) {
		return h.Failf("C13:minimax:gen:shape", "%d polynomials for degrees %v", len(coeffs), cfg.deg)
	}
	// composite polynomial as lattigo's NewPolynomial builds it (Chebyshev basis on [-1,1])
	mcp := make(minimax.Polynomial, len(coeffs))
	ref := make([][]bc, len(coeffs))
	lip := 1.0
	for i, cs := range coeffs {
		if len(cs) != cfg.deg[i]+1 {
			return h.Failf("C13:minimax:gen:shape", "polynomial %d has %d coefficients, degree %d requested", i, len(cs), cfg.deg[i])
		}
		mcp[i] = bignum.NewPolynomial(bignum.Chebyshev, cs, &bignum.Interval{A: *bignum.NewFloat(-1, 128), B: *bignum.NewFloat(1, 128)})
		ref[i] = make([]bc, len(cs))
		l := 0.0
		for k, v := range cs {
			ref[i][k] = bc{new(big.Float).SetPrec(refPrec).Set(v), bf(0)}
			f, _ := v.Float64()
			l += math.Abs(f) * float64(k*k)
		}
		lip *= math.Max(1, l)
	}
	cc, err := newCompCtx(c.Params)
	if err != nil {
		return h.Failf("C13:minimax:params", "%v", err)
	}
	cmp := CmpCase{LogAlpha: cfg.logAlpha, Pattern: c.Pattern, ValSeed: c.ValSeed}
	x := cmpValues(cmp, cc.params.MaxSlots(), 1)
	ct, err := cc.encrypt(x, cc.params.MaxLevel(), cc.params.DefaultScale())
	if err != nil {
		return h.Failf("C13:minimax:encrypt", "%v", err)
	}
	mev := minimax.NewEvaluator(cc.params, cc.eval, cc.btp)
	rec.Classf("config=%d", c.Config)
	mcpFP := func() string {
		var sb strings.Builder
		for i := range mcp {
			sb.WriteString(polyFingerprint(&mcp[i]))
			sb.WriteString("|")
		}
		return sb.String()
	}
	fp := mcpFP()
	rounds := 1
	if c.Twice {
		rounds = 2
		rec.Class("twice")
	}
	var tol float64
	// the second round re-uses evaluator, composite polynomial and input ciphertext
	for round := 0; round < rounds; round++ {
		stage := ""
		if round > 0 {
			stage = ":second-use"
		}
		out, err, pmsg := guarded(func() (*rlwe.Ciphertext, error) { return mev.Evaluate(ct, mcp) })
		if err != nil || pmsg != "" {
			return h.Failf("C13:minimax:Evaluate:error"+stage, "config %v: %v %s", cfg, err, pmsg)
		}
		if out.Scale.Cmp(ct.Scale) != 0 {
			return h.Failf("C13:minimax:scale"+stage, "output scale %v != input scale %v", &out.Scale.Value, &ct.Scale.Value)
		}
		got, err := cc.decrypt(out)
		if err != nil {
			return h.Failf("C13:minimax:decode", "%v", err)
		}
		// scheme error through the composition: every stage contributes one unit error, amplified by the Lipschitz
		// constants (sum |c_k| k^2) of the following stages
		tol = math.Ldexp(float64(cc.params.N()), 12) * math.Exp2(-float64(c.Params.LogScale)) * float64(len(coeffs)) * lip
		for i := range got {
			y := bcNew(x[i], 0)
			for _, p := range ref {
				y = refEval(true, p, y)
			}
			w, _ := y.re.Float64()
			g, _ := got[i].Float64()
			if e := math.Abs(g - w); !(e <= tol) {
				return h.Failf("C13:minimax:value"+stage, "slot %d: x=%v got %v, composite polynomial gives %v (error 2^%.1f, bound 2^%.1f; config %v)", i, x[i], g, w, math.Log2(e), math.Log2(tol), cfg)
			}
			// the generated polynomial must at least decide the sign on its stated domain |x| >= 2^-logalpha
			if x[i] != 0 && math.Abs(w-sgn(x[i])) >= 0.5 {
				return h.Failf("C13:minimax:gen:sign", "config %v: P(%v) = %v", cfg, x[i], w)
			}
		}
		if mcpFP() != fp {
			return h.Failf("C13:minimax:polynomial-modified", "the coefficients of the composite polynomial changed during Evaluate")
		}
	}
	if tol < math.Ldexp(1, -10) {
		rec.NonTrivial(fmt.Sprintf("minimax|cfg=%d|ci=%v|logN=%d|%s|pairs=%d", c.Config, c.Params.CI, c.Params.LogN, c.Pattern, (len(c.Params.Q)-2)/2))
	} else {
		rec.Class("not-discriminating")
	}
	return nil
}

var propMinimax = h.NewProp("TestPropMinimaxGenerated", h.Budget{Quick: 8, Thorough: 200}, genMinimax, runMinimax)

func TestPropMinimaxGenerated(t *testing.T) { propMinimax.Check(t) }
