package c13

import (
	"fmt"
	"math"
	"math/big"
	"strings"
	"testing"

	"verif/internal/h"

	ckkspoly "github.com/tuneinsight/lattigo/v6/circuits/ckks/polynomial"
	cpoly "github.com/tuneinsight/lattigo/v6/circuits/common/polynomial"
	"github.com/tuneinsight/lattigo/v6/core/rlwe"
	"github.com/tuneinsight/lattigo/v6/schemes/ckks"
	"github.com/tuneinsight/lattigo/v6/utils/bignum"
	"pgregory.net/rapid"
)

const refPrec = 256

// bc is an independent arbitrary-precision complex number (reference arithmetic, nothing from lattigo).
type bc struct{ re, im *big.Float }

func bf(x float64) *big.Float { return new(big.Float).SetPrec(refPrec).SetFloat64(x) }
func bcNew(re, im float64) bc { return bc{bf(re), bf(im)} }
func (a bc) add(b bc) bc {
	return bc{new(big.Float).SetPrec(refPrec).Add(a.re, b.re), new(big.Float).SetPrec(refPrec).Add(a.im, b.im)}
}
func (a bc) sub(b bc) bc {
	return bc{new(big.Float).SetPrec(refPrec).Sub(a.re, b.re), new(big.Float).SetPrec(refPrec).Sub(a.im, b.im)}
}
func (a bc) mul(b bc) bc {
	n := func() *big.Float { return new(big.Float).SetPrec(refPrec) }
	re := n().Sub(n().Mul(a.re, b.re), n().Mul(a.im, b.im))
	im := n().Add(n().Mul(a.re, b.im), n().Mul(a.im, b.re))
	return bc{re, im}
}
func (a bc) abs() float64 {
	r, _ := a.re.Float64()
	i, _ := a.im.Float64()
	return math.Hypot(r, i)
}

// refEval evaluates sum c_k B_k(x) with B_k = x^k (monomial) or T_k (Chebyshev, first kind) at the already mapped point x.
func refEval(cheb bool, coeffs []bc, x bc) bc {
	acc := bcNew(0, 0)
	if !cheb {
		for k := len(coeffs) - 1; k >= 0; k-- {
			acc = acc.mul(x).add(coeffs[k])
		}
		return acc
	}
	tPrev, tCur := bcNew(1, 0), x
	two := bcNew(2, 0)
	for k := 0; k < len(coeffs); k++ {
		var tk bc
		switch k {
		case 0:
			tk = tPrev
		case 1:
			tk = tCur
		default:
			tk = two.mul(x).mul(tCur).sub(tPrev)
			tPrev, tCur = tCur, tk
		}
		acc = acc.add(coeffs[k].mul(tk))
	}
	return acc
}

// CKKSCase is one homomorphic polynomial evaluation over the complex/real slots.
type CKKSCase struct {
	Params      h.CKKSSpec     `json:"params"`
	Seed        uint64         `json:"seed"`
	Level       int            `json:"level"`
	Short       bool           `json:"short"`
	Degree      int            `json:"degree"`
	Cheb        bool           `json:"cheb"`
	Intervals   [][2]float64   `json:"intervals"` // Chebyshev: one [a,b] per polynomial
	Kind        string         `json:"kind"`      // "bignum" | "poly" | "vector"
	Shapes      []PolyShape    `json:"shapes"`
	Coeffs      [][][2]float64 `json:"coeffs"` // per polynomial, per coefficient (re, im)
	Owners      []int          `json:"owners"`
	ValPattern  string         `json:"valPattern"`
	ValSeed     uint64         `json:"valSeed"`
	InScaleRel  float64        `json:"inScaleRel"`     // input scale = DefaultScale * InScaleRel
	TargetRel   float64        `json:"targetScaleRel"` // target scale = DefaultScale * TargetRel
	TargetIsIn  bool           `json:"targetIsInput"`  // target scale = input scale (as lattigo's tests do)
	FromPB      bool           `json:"fromPB"`
	PBPowers    []int          `json:"pbPowers"`
	Lazy        bool           `json:"lazy"`
	MixedParity bool           `json:"mixedParity"`
	Sparse      bool           `json:"sparse"` // sparse packing with 2^LogSlots slots
	LogSlots    int            `json:"logSlots"`
	Degree2     int            `json:"degree2"` // > 0: a second polynomial evaluated afterwards with the SAME evaluator and input object
	Coeffs2     [][][2]float64 `json:"coeffs2"`
	Target2Rel  float64        `json:"target2Rel"`
	Owners2     []int          `json:"owners2"` // slot mapping of the second polynomial vector (differs from the first)
}

func (c CKKSCase) RandSeed() uint64 { return c.Seed }

// nearPow2Primes draws n distinct primes = 1 mod m as close as possible to 2^b (from below and above).
func nearPow2Primes(t *rapid.T, b, n int, m uint64, used map[uint64]bool, label string) []uint64 {
	cands := append(h.Primes(b, m, 8, true), h.Primes(b+1, m, 8, false)...)
	var out []uint64
	for i := 0; i < n; i++ {
		var avail []uint64
		for _, p := range cands {
			if !used[p] {
				avail = append(avail, p)
			}
		}
		if len(avail) == 0 {
			t.Fatalf("no primes near 2^%d", b)
		}
		p := avail[rapid.IntRange(0, len(avail)-1).Draw(t, fmt.Sprintf("%s%d", label, i))]
		used[p] = true
		out = append(out, p)
	}
	return out
}

var ckksValPatterns = []string{"uniform", "uniform", "uniform", "ends", "zero", "mix", "tiny"}

func genCKKS(t *rapid.T) CKKSCase {
	var c CKKSCase
	maxLogN := 6
	if h.Thorough() {
		maxLogN = 7
	}
	c.Params.LogN = rapid.IntRange(4, maxLogN).Draw(t, "logN")
	c.Params.CI = rapid.IntRange(0, 2).Draw(t, "ringType") == 0
	c.Params.Xs, c.Params.Xe = h.DefaultXs, h.DefaultXe
	c.Params.NTT = true
	m := c.Params.NthRoot()
	used := map[uint64]bool{}
	prec128 := rapid.IntRange(0, 5).Draw(t, "prec128") == 0
	lcpr := 1
	var L int
	if prec128 {
		lcpr = 2
		b := rapid.IntRange(40, 50).Draw(t, "halfLogScale")
		c.Params.LogScale = 2 * b
		pairs := []int{2, 1, 3, 4, 2, 3}[rapid.IntRange(0, 5).Draw(t, "pairs")]
		c.Params.Q = append(h.GenPrimes(t, []int{60, 60}, m, used, "q0"), nearPow2Primes(t, b, 2*pairs, m, used, "q")...)
		c.Params.P = h.GenPrimes(t, []int{61, 61}, m, used, "p")
	} else {
		b := rapid.IntRange(40, 50).Draw(t, "logScale")
		c.Params.LogScale = b
		nL := []int{3, 2, 4, 5, 1, 3, 4, 5}[rapid.IntRange(0, 7).Draw(t, "levels")]
		if h.Thorough() && nL == 5 && rapid.Bool().Draw(t, "deep") {
			nL = 6 // degrees up to 63
		}
		c.Params.Q = append(h.GenPrimes(t, []int{60}, m, used, "q0"), nearPow2Primes(t, b, nL, m, used, "q")...)
		c.Params.P = h.GenPrimes(t, []int{61}, m, used, "p")
	}
	L = len(c.Params.Q) - 1
	maxDepth := L / lcpr // output may sit at level 0 (PREC64) or 1 (PREC128)
	if maxDepth > 6 {
		maxDepth = 6
	}

	c.Seed = rapid.Uint64().Draw(t, "seed")
	c.Degree = genDegree(t, maxDepth)
	depth := advertisedDepth(c.Degree)
	minLevel := depth * lcpr
	if prec128 {
		minLevel++ // the scale (2^80..2^100) does not fit the 60-bit level-0 modulus
	}
	c.Short = rapid.IntRange(0, 7).Draw(t, "short") == 0
	switch {
	case c.Short:
		c.Level = rapid.IntRange(0, depth*lcpr-1).Draw(t, "level")
	case rapid.IntRange(0, 2).Draw(t, "levelMin") == 0:
		c.Level = minLevel
	default:
		c.Level = rapid.IntRange(minLevel, L).Draw(t, "level")
	}

	c.Cheb = rapid.Bool().Draw(t, "cheb")
	c.Kind = []string{"bignum", "poly", "vector", "vector"}[rapid.IntRange(0, 3).Draw(t, "kind")]
	npoly := 1
	if c.Kind == "vector" {
		npoly = rapid.IntRange(1, 3).Draw(t, "npoly")
		c.MixedParity = npoly >= 2 && rapid.IntRange(0, 5).Draw(t, "mixedParity") == 0
	}
	// coefficient field: real, purely imaginary or mixed complex, in both bases (the conjugate-invariant ring is real)
	coeffKind := "real"
	if !c.Params.CI {
		coeffKind = []string{"real", "real", "mixed", "imag", "mixed", "real"}[rapid.IntRange(0, 5).Draw(t, "coeffKind")]
	}
	// sum |c_k| <= 8 keeps |p(x)| * scale far below the level-0 modulus
	amp := math.Min(1, 8/float64(c.Degree+1))
	kinds := []string{"real", "real", "mixed", "imag", "mixed", "real"}
	for i := 0; i < npoly; i++ {
		if i > 0 && !c.Params.CI && rapid.IntRange(0, 2).Draw(t, fmt.Sprintf("ownKind%d", i)) == 0 {
			// polynomials of one vector over different coefficient fields
			coeffKind = kinds[rapid.IntRange(0, 5).Draw(t, fmt.Sprintf("coeffKind%d", i))]
		}
		sh := genShape(t, fmt.Sprintf("shape%d", i), c.Kind != "bignum")
		if i > 0 && !c.MixedParity {
			sh.Parity = c.Shapes[0].Parity
		}
		c.Shapes = append(c.Shapes, sh)
		sel := h.NewSplitMix(c.Seed ^ uint64(i+1)*0x9e37)
		cs := make([][2]float64, c.Degree+1)
		noForce := rapid.IntRange(0, 3).Draw(t, fmt.Sprintf("noForce%d", i)) == 0
		topKept := -1
		for k := range cs {
			// multiples of 2^-10 (rapid's float generator is heavily biased towards tiny magnitudes)
			re := float64(rapid.IntRange(-1024, 1024).Draw(t, fmt.Sprintf("c%d_%d", i, k))) / 1024 * amp
			im := 0.0
			switch coeffKind {
			case "mixed":
				im = float64(rapid.IntRange(-1024, 1024).Draw(t, fmt.Sprintf("ci%d_%d", i, k))) / 1024 * amp
			case "imag":
				re, im = 0, re
			}
			if sh.keepCoeff(k, c.Degree, sel.Uint64()) {
				cs[k] = [2]float64{re, im}
				topKept = k
			}
		}
		if !noForce && topKept >= 1 && cs[topKept] == [2]float64{} {
			cs[topKept] = [2]float64{0.75 * amp, 0} // avoid wasting the case on a (nearly) zero polynomial
		}
		c.Coeffs = append(c.Coeffs, cs)
		if c.Cheb {
			var iv [2]float64
			switch rapid.IntRange(0, 3).Draw(t, fmt.Sprintf("ivStyle%d", i)) {
			case 0:
				iv = [2]float64{-1, 1}
			case 1:
				k := float64(rapid.IntRange(1, 32).Draw(t, fmt.Sprintf("ivK%d", i)))
				iv = [2]float64{-k, k}
			default:
				a := rapid.Float64Range(-64, 64).Draw(t, fmt.Sprintf("ivA%d", i))
				w := rapid.Float64Range(0.125, 64).Draw(t, fmt.Sprintf("ivW%d", i))
				iv = [2]float64{a, a + w}
			}
			c.Intervals = append(c.Intervals, iv)
		}
	}
	slots := c.Params.N()
	if !c.Params.CI {
		slots >>= 1
	}
	if c.Kind == "vector" {
		c.Owners = genOwners(t, slots, npoly)
	} else if rapid.IntRange(0, 3).Draw(t, "sparse") == 0 {
		// sparse packing (the slot-mapped vector kind needs all slots)
		c.Sparse = true
		logMax := c.Params.LogN
		if !c.Params.CI {
			logMax--
		}
		c.LogSlots = rapid.IntRange(0, logMax-1).Draw(t, "logSlots")
	}
	c.ValPattern = ckksValPatterns[rapid.IntRange(0, len(ckksValPatterns)-1).Draw(t, "valPattern")]
	c.ValSeed = rapid.Uint64().Draw(t, "valSeed")

	// scales: the input scale may deviate from the default by at most 1/(4*2^depth) (relative), so that the scale of
	// X^(2^depth) stays within [0.77, 1.3] of the default; the target within [1/2, 2].
	c.InScaleRel, c.TargetRel = 1, 1
	if rapid.IntRange(0, 2).Draw(t, "inScaleK") == 0 {
		d := 1 / float64(int(4)<<depth)
		c.InScaleRel = 1 + rapid.Float64Range(-d, d).Draw(t, "inScaleRel")
	}
	switch rapid.IntRange(0, 3).Draw(t, "targetK") {
	case 0:
		c.TargetRel = rapid.Float64Range(0.5, 2).Draw(t, "targetRel")
	case 1:
		c.TargetIsIn = true
	}
	c.FromPB = rapid.IntRange(0, 2).Draw(t, "fromPB") == 0
	if c.FromPB {
		c.PBPowers = genPowers(t, c.Degree)
	}
	if c.Kind != "bignum" && !c.MixedParity {
		c.Lazy = rapid.IntRange(0, 7).Draw(t, "lazy") == 0
	}
	if !c.Short && !c.MixedParity && rapid.IntRange(0, 2).Draw(t, "second") != 0 {
		// second polynomial: any degree the input level admits (not deeper than the first one plus one)
		d2 := c.Level / lcpr
		if prec128 {
			d2 = (c.Level - 1) / 2
		}
		if d2 > depth+1 {
			d2 = depth + 1
		}
		if d2 > 5 {
			d2 = 5
		}
		if d2 >= 1 {
			c.Degree2 = genDegree2(t, d2)
			amp2 := math.Min(1, 8/float64(c.Degree2+1))
			kind2 := "real"
			if !c.Params.CI {
				kind2 = kinds[rapid.IntRange(0, 5).Draw(t, "coeffKind2")]
			}
			for i := 0; i < npoly; i++ {
				cs := make([][2]float64, c.Degree2+1)
				for k := range cs {
					re := float64(rapid.IntRange(-1024, 1024).Draw(t, fmt.Sprintf("d%d_%d", i, k))) / 1024 * amp2
					im := 0.0
					switch kind2 {
					case "mixed":
						im = float64(rapid.IntRange(-1024, 1024).Draw(t, fmt.Sprintf("di%d_%d", i, k))) / 1024 * amp2
					case "imag":
						re, im = 0, re
					}
					cs[k] = [2]float64{re, im}
				}
				c.Coeffs2 = append(c.Coeffs2, cs)
			}
			if c.Kind == "vector" && !c.Cheb && rapid.Bool().Draw(t, "owners2") {
				// (Chebyshev inputs are pre-mapped with the interval of the polynomial owning the slot: same mapping there)
				c.Owners2 = genOwners(t, slots, npoly)
			}
			c.Target2Rel = 1
			if rapid.Bool().Draw(t, "target2K") {
				c.Target2Rel = rapid.Float64Range(0.5, 2).Draw(t, "target2Rel")
			}
		}
	}
	return c
}

// ckksInputs returns the un-mapped inputs: points of the unit disc (monomial) or of [a,b] (Chebyshev; the interval of
// the polynomial owning the slot, [-1,1]-like for unmapped slots).
func ckksInputs(c CKKSCase, slots int) []complex128 {
	rng := h.NewSplitMix(c.ValSeed)
	out := make([]complex128, slots)
	for i := range out {
		u := 2*rng.Float64() - 1
		v := 2*rng.Float64() - 1
		sel := rng.Intn(4)
		switch c.ValPattern {
		case "zero":
			u, v = 0, 0
		case "ends":
			u, v = float64(2*(i&1)-1), 0
		case "tiny":
			u, v = u/1024, v/1024
		case "mix":
			switch sel {
			case 0:
				u, v = 1, 0
			case 1:
				u, v = -1, 0
			case 2:
				u, v = 0, 0
			}
		}
		if c.Cheb || c.Params.CI {
			v = 0
		} else if math.Hypot(u, v) > 1 {
			u, v = u/math.Sqrt2, v/math.Sqrt2
		}
		if c.Cheb {
			o := 0
			if c.Kind == "vector" {
				o = c.Owners[i]
			}
			if o >= 0 {
				a, b := c.Intervals[o][0], c.Intervals[o][1]
				// u in [-1,1] -> [a,b], the end points are hit exactly
				switch u {
				case -1:
					u = a
				case 1:
					u = b
				default:
					u = a + (b-a)*(u+1)/2
					if u > b {
						u = b
					}
				}
			}
		}
		out[i] = complex(u, v)
	}
	return out
}

func runCKKS(c CKKSCase, rec *h.Rec) error {
	params, err := c.Params.Build()
	if err != nil {
		return h.Failf("C13:ckks:params", "parameters rejected: %v", err)
	}
	slots := params.MaxSlots()
	if c.Sparse {
		slots = 1 << c.LogSlots
	}
	npoly := len(c.Coeffs)
	depth := advertisedDepth(c.Degree)
	lcpr := params.LevelsConsumedPerRescaling()
	wantLcpr := 1
	if c.Params.LogScale > 64 {
		wantLcpr = 2
	}
	if lcpr != wantLcpr {
		return h.Failf("C13:ckks:LevelsConsumedPerRescaling", "got %d for LogDefaultScale %d", lcpr, c.Params.LogScale)
	}
	basis := bignum.Monomial
	if c.Cheb {
		basis = bignum.Chebyshev
	}

	kgen := rlwe.NewKeyGenerator(params)
	sk := kgen.GenSecretKeyNew()
	rlk := kgen.GenRelinearizationKeyNew(sk)
	eval := ckks.NewEvaluator(params, rlwe.NewMemEvaluationKeySet(rlk))
	ecd := ckks.NewEncoder(params)
	enc := rlwe.NewEncryptor(params, sk)
	dec := rlwe.NewDecryptor(params, sk)

	// polynomials
	mkPolys := func(coeffs [][][2]float64, flagged bool) (polys []bignum.Polynomial, refCoeffs [][]bc, S float64) {
		polys = make([]bignum.Polynomial, npoly)
		refCoeffs = make([][]bc, npoly)
		for i := range polys {
			cs := make([]complex128, len(coeffs[i]))
			refCoeffs[i] = make([]bc, len(cs))
			si := 0.0
			for k, v := range coeffs[i] {
				cs[k] = complex(v[0], v[1])
				refCoeffs[i][k] = bcNew(v[0], v[1])
				w := math.Max(1, float64(k))
				if c.Cheb {
					w = math.Max(1, float64(k*k))
				}
				si += math.Hypot(v[0], v[1]) * w
			}
			S = math.Max(S, si) // error amplification: sum |c_k| * w_k
			var iv interface{}
			if c.Cheb {
				iv = &bignum.Interval{A: *bf(c.Intervals[i][0]), B: *bf(c.Intervals[i][1])}
			}
			if lcpr == 2 {
				// 128-bit precision mode: coefficients are handed over as arbitrary-precision numbers (as lattigo's own
				// PREC128 tests do); float64/complex128 coefficients are stored with 53 bits and the Chebyshev
				// factorisation (c_j - c_i) would round at 2^-53.
				hp := make([]*bignum.Complex, len(cs))
				for k, v := range cs {
					hp[k] = &bignum.Complex{bf(real(v)), bf(imag(v))}
				}
				polys[i] = bignum.NewPolynomial(basis, hp, iv)
			} else {
				polys[i] = bignum.NewPolynomial(basis, cs, iv)
			}
			if flagged {
				setParity(&polys[i], c.Shapes[i].Parity)
			}
		}
		return
	}
	mkPol := func(polys []bignum.Polynomial, owners []int) (interface{}, ckkspoly.PolynomialVector, error) {
		switch c.Kind {
		case "bignum":
			return polys[0], ckkspoly.PolynomialVector{}, nil
		case "poly":
			p := ckkspoly.NewPolynomial(polys[0])
			p.Lazy = c.Lazy
			return p, ckkspoly.PolynomialVector{}, nil
		}
		pv, err := ckkspoly.NewPolynomialVector(polys, ownersToMapping(owners, npoly))
		if err != nil {
			return nil, pv, h.Failf("C13:ckks:NewPolynomialVector", "%v", err)
		}
		for i := range pv.Value {
			pv.Value[i].Lazy = c.Lazy
		}
		return pv, pv, nil
	}
	polys, refCoeffs, S := mkPolys(c.Coeffs, true)
	pol, pv, err := mkPol(polys, c.Owners)
	if err != nil {
		return err
	}
	if c.Kind == "vector" && npoly >= 2 && c.Degree >= 2 {
		// polynomials of different degrees are documented to be refused ("polynomial degree must all be the same")
		short := append([]bignum.Polynomial(nil), polys...)
		short[npoly-1].Coeffs = short[npoly-1].Coeffs[:c.Degree]
		_, e, pm := guarded(func() (ckkspoly.PolynomialVector, error) {
			return ckkspoly.NewPolynomialVector(short, ownersToMapping(c.Owners, npoly))
		})
		if e == nil || pm != "" {
			return h.Failf("C13:ckks:NewPolynomialVector:unequal-degrees", "degrees %d and %d accepted (err %v) %s", c.Degree, c.Degree-1, e, pm)
		}
	}

	// inputs, mapped by the documented change of basis (values handed out by lattigo's ChangeOfBasis, cross-checked)
	raw := ckksInputs(c, slots)
	mapped := make([]bc, slots)
	owner := func(i int) int {
		if c.Kind == "vector" {
			return c.Owners[i]
		}
		return 0
	}
	if c.Cheb {
		var scalar, constant []*big.Float
		if c.Kind == "vector" {
			scalar, constant = pv.ChangeOfBasis(slots)
		} else {
			s, k := polys[0].ChangeOfBasis()
			scalar, constant = make([]*big.Float, slots), make([]*big.Float, slots)
			for i := range scalar {
				scalar[i], constant[i] = s, k
			}
		}
		for i := 0; i < slots; i++ {
			o := owner(i)
			ws, wc := bf(0), bf(0)
			if o >= 0 {
				a, b := bf(c.Intervals[o][0]), bf(c.Intervals[o][1])
				w := new(big.Float).SetPrec(refPrec).Sub(b, a)
				ws = new(big.Float).SetPrec(refPrec).Quo(bf(2), w)
				wc = new(big.Float).SetPrec(refPrec).Quo(new(big.Float).SetPrec(refPrec).Neg(new(big.Float).SetPrec(refPrec).Add(a, b)), w)
			}
			for _, pr := range [][2]*big.Float{{scalar[i], ws}, {constant[i], wc}} {
				d := new(big.Float).SetPrec(refPrec).Sub(pr[0], pr[1])
				df, _ := d.Float64()
				wf, _ := pr[1].Float64()
				if math.Abs(df) > math.Ldexp(1+math.Abs(wf), -60) {
					return h.Failf("C13:ckks:ChangeOfBasis", "slot %d (poly %d, interval %v): got %v want %v", i, o, c.Intervals, pr[0], pr[1])
				}
			}
			x := new(big.Float).SetPrec(refPrec).Mul(scalar[i], bf(real(raw[i])))
			x.Add(x, constant[i])
			mapped[i] = bc{x, bf(0)}
		}
	} else {
		for i := range mapped {
			mapped[i] = bcNew(real(raw[i]), imag(raw[i]))
		}
	}

	defScale := params.DefaultScale()
	inScale := rlwe.NewScale(new(big.Float).SetPrec(128).Mul(&defScale.Value, big.NewFloat(c.InScaleRel)))
	target := rlwe.NewScale(new(big.Float).SetPrec(128).Mul(&defScale.Value, big.NewFloat(c.TargetRel)))
	if c.TargetIsIn {
		target = inScale
	}

	encVals := make([]*bignum.Complex, slots)
	for i := range encVals {
		encVals[i] = &bignum.Complex{new(big.Float).Copy(mapped[i].re), new(big.Float).Copy(mapped[i].im)}
	}
	pt := ckks.NewPlaintext(params, c.Level)
	pt.Scale = inScale
	if c.Sparse {
		pt.LogDimensions.Cols = c.LogSlots
	}
	if err = ecd.Encode(encVals, pt); err != nil {
		return h.Failf("C13:ckks:encode", "%v", err)
	}
	ct, err := enc.EncryptNew(pt)
	if err != nil {
		return h.Failf("C13:ckks:encrypt", "%v", err)
	}

	polyEval := ckkspoly.NewEvaluator(params, eval)
	var out *rlwe.Ciphertext
	var pmsg string
	var pb cpoly.PowerBasis
	ctBefore := ctHash(ct)
	if c.FromPB {
		pb = cpoly.NewPowerBasis(ct, basis)
		for _, n := range c.PBPowers {
			if err = pb.GenPower(n, false, eval); err != nil {
				if c.Short {
					rec.Class("short:genpower-refused")
					return nil
				}
				return h.Failf("C13:ckks:GenPower:error", "GenPower(%d) at level %d: %v", n, c.Level, err)
			}
		}
		out, err, pmsg = guarded(func() (*rlwe.Ciphertext, error) { return polyEval.EvaluateFromPowerBasis(pb, pol, target) })
	} else {
		out, err, pmsg = guarded(func() (*rlwe.Ciphertext, error) { return polyEval.Evaluate(ct, pol, target) })
	}

	mode := "ckks"
	rec.Classf("kind=%s", c.Kind)
	rec.Classf("depth=%d", depth)
	rec.Classf("logN=%d", c.Params.LogN)
	rec.Classf("basis=%v", map[bool]string{false: "monomial", true: "chebyshev"}[c.Cheb])
	cplx := false
	for _, cs := range c.Coeffs {
		for _, v := range cs {
			cplx = cplx || v[1] != 0
		}
	}
	if cplx {
		rec.Classf("coeffs=complex:%v", map[bool]string{false: "monomial", true: "chebyshev"}[c.Cheb])
	}
	rec.Classf("prec=%d", 64*lcpr)
	if c.Params.CI {
		rec.Class("ring=ci")
	}
	for _, s := range c.Shapes {
		rec.Class("shape=" + s.class())
	}
	if c.FromPB {
		rec.Class("from-powerbasis")
	}
	if c.Sparse {
		rec.Classf("sparse-packing:logslots=%d", c.LogSlots)
	}

	if pmsg != "" {
		key := "C13:ckks:Evaluate:panic"
		if c.MixedParity {
			key = valueKey("ckks", c.Kind, c.Lazy, c.MixedParity, c.Shapes[0].Parity, c.Degree)
		} else if c.Short {
			key = fmt.Sprintf("C13:ckks:short-levels:panic:prec%d", 64*lcpr)
		}
		if rec.Known(key, pmsg) {
			rec.Class("known=" + key)
			return nil
		}
		return h.Failf(key, "degree %d at level %d (needs %d): %s", c.Degree, c.Level, depth*lcpr, pmsg)
	}
	if c.Short {
		rec.Class("short")
		if err == nil {
			return h.Failf("C13:ckks:short-levels:no-error", "degree %d needs %d levels, input at level %d, Evaluate returned no error (out level %d)", c.Degree, depth*lcpr, c.Level, out.Level())
		}
		rec.NonTrivial(fmt.Sprintf("short|%s|deg=%d|lvl=%d|pb=%v|lcpr=%d", c.Kind, c.Degree, c.Level, c.FromPB, lcpr))
		return nil
	}
	if err != nil {
		return h.Failf("C13:ckks:Evaluate:error", "degree %d at level %d (depth %d x %d): %v", c.Degree, c.Level, depth, lcpr, err)
	}
	// tolerance (see assumptions.txt)
	tolFor := func(S float64, targetRel float64) float64 {
		minRel := 1.0
		for _, r := range []float64{1, c.InScaleRel, targetRel} {
			minRel = math.Min(minRel, r)
		}
		logDeltaMin := float64(c.Params.LogScale) + math.Log2(minRel*0.7)
		epsUnit := math.Ldexp(float64(params.N()), 12) * math.Exp2(-logDeltaMin)
		return epsUnit * (1 + S)
	}
	// depth / scale / value contract of one evaluation; returns (passed, error)
	ownerOf := func(owners []int, i int) int {
		if c.Kind == "vector" {
			return owners[i]
		}
		return 0
	}
	verify := func(out *rlwe.Ciphertext, refCoeffs [][]bc, owners []int, degree int, target rlwe.Scale, tol float64, parity, stage string) (bool, error) {
		depth := advertisedDepth(degree)
		if want := c.Level - depth*lcpr; out.Level() != want {
			return false, h.Failf("C13:ckks:level"+stage, "degree %d: input level %d, output level %d, want %d", degree, c.Level, out.Level(), want)
		}
		if out.Scale.Cmp(target) == 0 {
			rec.Class("scale-exact")
		} else {
			rec.Class("scale-within-2^-100")
			if out.Scale.Log2Delta(target) < 100 {
				return false, h.Failf("C13:ckks:scale"+stage, "output scale %v != target scale %v", &out.Scale.Value, &target.Value)
			}
		}
		if out.Degree() != 1 {
			return false, h.Failf("C13:ckks:degree"+stage, "output ciphertext degree %d", out.Degree())
		}
		if out.LogDimensions != ct.LogDimensions {
			return false, h.Failf("C13:ckks:logdimensions"+stage, "output LogDimensions %v, input %v", out.LogDimensions, ct.LogDimensions)
		}
		got := make([]*bignum.Complex, slots)
		for i := range got {
			got[i] = bignum.NewComplex()
		}
		if err := ecd.Decode(dec.DecryptNew(out), got); err != nil {
			return false, h.Failf("C13:ckks:decode", "%v", err)
		}
		bad, first, worst := 0, "", 0.0
		for i := 0; i < slots; i++ {
			want := bcNew(0, 0)
			if o := ownerOf(owners, i); o >= 0 {
				want = refEval(c.Cheb, refCoeffs[o], mapped[i])
			}
			g := bc{new(big.Float).SetPrec(refPrec).Set(got[i][0]), new(big.Float).SetPrec(refPrec).Set(got[i][1])}
			if c.Params.CI {
				want.im = bf(0)
			}
			e := g.sub(want).abs()
			lim := tol + math.Ldexp(1+want.abs(), -45)
			if lcpr == 2 {
				lim = tol + math.Ldexp(1+want.abs(), -int(params.EncodingPrecision())+10)
			}
			if e/lim > worst {
				worst = e / lim
			}
			if !(e <= lim) {
				if bad == 0 {
					wr, _ := want.re.Float64()
					wi, _ := want.im.Float64()
					gr, _ := g.re.Float64()
					gi, _ := g.im.Float64()
					first = fmt.Sprintf("slot %d (poly %d): x=%v got (%g,%g) want (%g,%g) err 2^%.1f tol 2^%.1f", i, ownerOf(owners, i), raw[i], gr, gi, wr, wi, math.Log2(e), math.Log2(lim))
				}
				bad++
			}
		}
		if stage == "" {
			rec.Note("err/tol", worst)
			switch {
			case worst > 1.0/16:
				rec.Class("err/tol>2^-4")
			case worst > 1.0/256:
				rec.Class("err/tol>2^-8")
			default:
				rec.Class("err/tol<=2^-8")
			}
		}
		if bad != 0 {
			key := valueKey(mode, c.Kind, c.Lazy, c.MixedParity, parity, degree) + stage
			if c.Sparse {
				key += ":sparse"
			}
			msg := fmt.Sprintf("%d/%d slots wrong (degree %d, level %d, cheb %v); %s", bad, slots, degree, c.Level, c.Cheb, first)
			if rec.Known(key, msg) {
				rec.Class("known=" + key)
				return false, nil
			}
			return false, h.Failf(key, "%s", msg)
		}
		return true, nil
	}
	tol := tolFor(S, c.TargetRel)
	if ok, err := verify(out, refCoeffs, c.Owners, c.Degree, target, tol, c.Shapes[0].Parity, ""); !ok {
		return err
	}
	if hh := ctHash(ct); hh != ctBefore {
		return failInput(mode, "first", ctBefore, hh)
	}

	// second polynomial from the same evaluator and the same input object (history: the CoefficientGetter buffer, the
	// evaluator buffers and - from a PowerBasis - the powers generated for the first polynomial)
	if c.Degree2 > 0 {
		rec.Class("second-polynomial")
		polys2, ref2, S2 := mkPolys(c.Coeffs2, false)
		owners2 := c.Owners
		if c.Owners2 != nil {
			owners2 = c.Owners2
			rec.Class("second-polynomial:other-mapping")
		}
		pol2, _, err := mkPol(polys2, owners2)
		if err != nil {
			return err
		}
		target2 := rlwe.NewScale(new(big.Float).SetPrec(128).Mul(&defScale.Value, big.NewFloat(c.Target2Rel)))
		var out2 *rlwe.Ciphertext
		if c.FromPB {
			rec.Class("powerbasis-reused")
			out2, err, pmsg = guarded(func() (*rlwe.Ciphertext, error) { return polyEval.EvaluateFromPowerBasis(pb, pol2, target2) })
		} else {
			out2, err, pmsg = guarded(func() (*rlwe.Ciphertext, error) { return polyEval.Evaluate(ct, pol2, target2) })
		}
		if err != nil || pmsg != "" {
			return h.Failf("C13:ckks:Evaluate:error:second-use", "second polynomial of degree %d (first %d) at level %d, fromPB %v, lazy %v: %v %s", c.Degree2, c.Degree, c.Level, c.FromPB, c.Lazy, err, pmsg)
		}
		if ok, err := verify(out2, ref2, owners2, c.Degree2, target2, tolFor(S2, c.Target2Rel), "general", ":second-use"); !ok {
			return err
		}
		if hh := ctHash(ct); hh != ctBefore {
			return failInput(mode, "second", ctBefore, hh)
		}
		// the first result must not have been touched by the second evaluation
		if ok, err := verify(out, refCoeffs, c.Owners, c.Degree, target, tol, c.Shapes[0].Parity, ":first-result-after-second-use"); !ok {
			return err
		}
	}

	// non-trivial rule of the property
	var why []string
	if c.Degree&(c.Degree+1) != 0 {
		why = append(why, "deg!=2^k-1")
	}
	for _, s := range c.Shapes {
		if s.Parity != "general" || s.Pattern != "dense" {
			why = append(why, "sparse/parity")
			break
		}
	}
	if npoly >= 2 {
		why = append(why, "vector>=2")
	}
	minLevel := depth * lcpr
	if lcpr == 2 {
		minLevel++
	}
	if c.Level == minLevel {
		why = append(why, "level=min")
		rec.Class("level=min")
	}
	if c.TargetRel != 1 || c.InScaleRel != 1 {
		why = append(why, "scale!=default")
		rec.Class("scale!=default")
	}
	if c.Kind == "vector" {
		rec.Class(ownerClass(c.Owners, npoly))
	}
	if c.MixedParity {
		rec.Class("mixed-parity")
	}
	discriminating := tol < 1.0/256 && S > 1.0/16
	if !discriminating {
		rec.Class("not-discriminating")
		if S <= 1.0/16 {
			rec.Class("not-discriminating:coefficients~0")
		} else {
			rec.Class("not-discriminating:tolerance>=2^-8")
		}
	}
	if len(why) > 0 && discriminating {
		shapes := make([]string, len(c.Shapes))
		for i, s := range c.Shapes {
			shapes[i] = s.class()
		}
		rec.NonTrivial(fmt.Sprintf("ckks|cplx=%v|ci=%v|prec=%d|cheb=%v|%s|deg=%d|lvl-min=%d|n=%d|%s|pb=%v%v|lazy=%v|scales=%v,%v,%v|%s", cplx, c.Params.CI, 64*lcpr, c.Cheb, c.Kind, c.Degree, c.Level-minLevel, npoly,
			strings.Join(shapes, ","), c.FromPB, len(c.PBPowers), c.Lazy, c.InScaleRel != 1, c.TargetRel != 1, c.TargetIsIn, c.ValPattern) + fmt.Sprintf("|second=%d|sparse=%v", advertisedDepth(c.Degree2), c.Sparse))
	}
	return nil
}

var propCKKS = h.NewProp("TestPropCKKSPolynomial", h.Budget{Quick: 500, Thorough: 16000}, genCKKS, runCKKS)

func TestPropCKKSPolynomial(t *testing.T) { propCKKS.Check(t) }
