package c13

import (
	"fmt"
	"math/bits"
	"strings"
	"testing"

	"verif/internal/h"

	bgvpoly "github.com/tuneinsight/lattigo/v6/circuits/bgv/polynomial"
	cpoly "github.com/tuneinsight/lattigo/v6/circuits/common/polynomial"
	"github.com/tuneinsight/lattigo/v6/core/rlwe"
	"github.com/tuneinsight/lattigo/v6/schemes/bgv"
	"github.com/tuneinsight/lattigo/v6/utils/bignum"
	"pgregory.net/rapid"
)

// BGVCase is one homomorphic polynomial evaluation over Z_t.
type BGVCase struct {
	Params      h.BGVSpec   `json:"params"`
	Seed        uint64      `json:"seed"`
	Invariant   bool        `json:"invariant"`   // scale-invariant (BFV) tensoring
	Level       int         `json:"level"`       // level of the input ciphertext
	Short       bool        `json:"short"`       // Level < advertised depth: an error is expected
	Degree      int         `json:"degree"`      // len(coeffs)-1
	Kind        string      `json:"kind"`        // "bignum" | "poly" | "vector"
	Shapes      []PolyShape `json:"shapes"`      // one per polynomial
	Coeffs      [][]uint64  `json:"coeffs"`      // one per polynomial, Degree+1 entries
	Owners      []int       `json:"owners"`      // Kind=="vector": per slot the polynomial index or -1
	ValPattern  string      `json:"valPattern"`  // slot values
	ValSeed     uint64      `json:"valSeed"`     //
	InScale     uint64      `json:"inScale"`     // plaintext scale of the input (unit mod t)
	TargetScale uint64      `json:"targetScale"` // requested output scale (unit mod t)
	FromPB      bool        `json:"fromPB"`      // EvaluateFromPowerBasis
	PBPowers    []int       `json:"pbPowers"`    // powers generated beforehand
	Lazy        bool        `json:"lazy"`        // Polynomial.Lazy (lazy relinearisation)
	MixedParity bool        `json:"mixedParity"` // vector whose polynomials carry different parity flags
	Degree2     int         `json:"degree2"`     // > 0: a second polynomial evaluated afterwards with the SAME evaluator and the same
	Coeffs2     [][]uint64  `json:"coeffs2"`     // input object (ciphertext, or the PowerBasis that now holds the powers of the first run)
	Target2     uint64      `json:"target2"`
	AdmitOnly   bool        `json:"admitOnly"` // scale-invariant mode below the noise floor: admission/level/scale only
	Owners2     []int       `json:"owners2"`   // slot mapping of the second polynomial vector (differs from the first)
}

func (c BGVCase) RandSeed() uint64 { return c.Seed }

var bgvValPatterns = []string{"uniform", "uniform", "uniform", "zero", "one", "tminus1", "small", "mix"}

func genDegree(t *rapid.T, maxDepth int) int {
	maxDeg := (1 << maxDepth) - 1
	switch rapid.IntRange(0, 3).Draw(t, "degStyle") {
	case 0:
		// around a power of two: 2^k-1, 2^k, 2^k+1
		k := rapid.IntRange(0, maxDepth).Draw(t, "degK")
		d := (1 << k) + rapid.IntRange(-1, 1).Draw(t, "degOff")
		if d < 1 {
			d = 1
		}
		if d > maxDeg {
			d = maxDeg
		}
		return d
	default:
		// depth first (rapid's integer draws favour small values: count down from the maximum), then a degree of that depth
		depth := maxDepth - rapid.IntRange(0, maxDepth-1).Draw(t, "degDepthDown")
		if depth < maxDepth && rapid.Bool().Draw(t, "degDeep") {
			depth = maxDepth - rapid.IntRange(0, 1).Draw(t, "degDepthDown2")
			if depth < 1 {
				depth = 1
			}
		}
		lo := 1 << (depth - 1)
		return lo + rapid.IntRange(0, lo-1).Draw(t, "degInDepth")
	}
}

func genUnitModT(t *rapid.T, T uint64, label string) uint64 {
	switch rapid.IntRange(0, 3).Draw(t, label+"_k") {
	case 0, 1:
		return 1
	case 2:
		return T - 1
	}
	return rapid.Uint64Range(1, T-1).Draw(t, label)
}

func genBGV(t *rapid.T) BGVCase {
	var c BGVCase
	maxLogN := 6
	if h.Thorough() {
		maxLogN = 7
	}
	logN := rapid.IntRange(4, maxLogN).Draw(t, "logN")
	nQ := []int{4, 3, 5, 6, 2, 4, 5, 6}[rapid.IntRange(0, 7).Draw(t, "nQ")]
	if h.Thorough() && nQ == 6 && rapid.Bool().Draw(t, "deep") {
		nQ = 7 // degrees up to 63
	}
	m := uint64(2) << logN
	used := map[uint64]bool{}
	c.Params.LogN = logN
	c.Params.Q = h.GenPrimes(t, h.GenSizes(t, nQ, 50, 60, "q"), m, used, "q")
	c.Params.P = h.GenPrimes(t, []int{61}, m, used, "p")
	c.Params.Xs, c.Params.Xe = h.DefaultXs, h.DefaultXe
	c.Params.NTT = true
	tbits := []int{logN + 2, 13, 16, 17}[rapid.IntRange(0, 3).Draw(t, "tbits")]
	if tbits < logN+2 {
		tbits = logN + 2
	}
	c.Params.T = h.GenPlainModulus(t, logN, tbits, used)
	T := c.Params.T

	c.Seed = rapid.Uint64().Draw(t, "seed")
	c.Invariant = rapid.IntRange(0, 2).Draw(t, "mode") == 0
	L := nQ - 1
	maxDepth := L
	if maxDepth > 6 {
		maxDepth = 6
	}
	c.Degree = genDegree(t, maxDepth)
	depth := advertisedDepth(c.Degree)

	c.Short = !c.Invariant && rapid.IntRange(0, 7).Draw(t, "short") == 0
	switch {
	case c.Short:
		c.Level = rapid.IntRange(0, depth-1).Draw(t, "level")
	case c.Invariant:
		// scale-invariant mode consumes no level: any level whose modulus holds the noise is in the domain
		// (noise budget in bits, see assumptions.txt; every Q prime has at least 49 bits)
		tb := bits.Len64(T)
		budget := depth*(tb+logN+3) + 2*tb + logN + depth + 23
		min := (budget+48)/49 - 1
		if min > L {
			min = L
		}
		switch k := rapid.IntRange(0, 3).Draw(t, "levelMin"); {
		case k == 0:
			c.Level = min
		case k == 1 && min > 0:
			// any level from 0 up is admissible; below the noise floor only admission, level and scale are judged
			c.Level = rapid.IntRange(0, min-1).Draw(t, "levelLow")
			c.AdmitOnly = true
		default:
			c.Level = rapid.IntRange(min, L).Draw(t, "level")
		}
	case rapid.IntRange(0, 2).Draw(t, "levelMin") == 0:
		c.Level = depth
	default:
		c.Level = rapid.IntRange(depth, L).Draw(t, "level")
	}

	c.Kind = []string{"bignum", "poly", "vector", "vector"}[rapid.IntRange(0, 3).Draw(t, "kind")]
	npoly := 1
	if c.Kind == "vector" {
		npoly = rapid.IntRange(1, 3).Draw(t, "npoly")
	}
	slots := 1 << logN
	c.MixedParity = npoly >= 2 && rapid.IntRange(0, 7).Draw(t, "mixedParity") == 0
	for i := 0; i < npoly; i++ {
		sh := genShape(t, fmt.Sprintf("shape%d", i), c.Kind != "bignum")
		if i > 0 && !c.MixedParity {
			// all polynomials of a vector carry the same parity flag
			sh.Parity = c.Shapes[0].Parity
		}
		c.Shapes = append(c.Shapes, sh)
		raw := rapid.SliceOfN(rapid.Uint64Range(0, T-1), c.Degree+1, c.Degree+1).Draw(t, fmt.Sprintf("coeffs%d", i))
		sel := h.NewSplitMix(c.Seed ^ uint64(i+1)*0x9e37)
		noForce := rapid.IntRange(0, 3).Draw(t, fmt.Sprintf("noForce%d", i)) == 0
		topKept := -1
		for k := range raw {
			if !sh.keepCoeff(k, c.Degree, sel.Uint64()) {
				raw[k] = 0
			} else {
				topKept = k
			}
		}
		if !noForce && topKept >= 1 && raw[topKept] == 0 {
			raw[topKept] = 1 + (c.Seed^uint64(i))%(T-1) // avoid wasting the case on a polynomial of lower degree
		}
		c.Coeffs = append(c.Coeffs, raw)
	}
	if c.Kind == "vector" {
		c.Owners = genOwners(t, slots, npoly)
	}
	c.ValPattern = bgvValPatterns[rapid.IntRange(0, len(bgvValPatterns)-1).Draw(t, "valPattern")]
	c.ValSeed = rapid.Uint64().Draw(t, "valSeed")
	c.InScale = genUnitModT(t, T, "inScale")
	c.TargetScale = genUnitModT(t, T, "targetScale")
	c.FromPB = rapid.IntRange(0, 2).Draw(t, "fromPB") == 0
	if c.FromPB {
		c.PBPowers = genPowers(t, c.Degree)
	}
	if c.Kind != "bignum" && !c.MixedParity {
		c.Lazy = rapid.IntRange(0, 7).Draw(t, "lazy") == 0
	}
	if !c.Short && !c.AdmitOnly && !c.MixedParity && rapid.IntRange(0, 2).Draw(t, "second") != 0 {
		// second polynomial: any degree the remaining budget admits (scale-invariant mode: not deeper than the first one)
		d2 := c.Level
		if c.Invariant || d2 > depth+1 {
			d2 = depth
			if !c.Invariant && depth+1 <= c.Level {
				d2 = depth + 1
			}
		}
		if d2 > 5 {
			d2 = 5
		}
		if d2 >= 1 {
			c.Degree2 = genDegree2(t, d2)
			for i := 0; i < npoly; i++ {
				c.Coeffs2 = append(c.Coeffs2, rapid.SliceOfN(rapid.Uint64Range(0, T-1), c.Degree2+1, c.Degree2+1).Draw(t, fmt.Sprintf("coeffs2_%d", i)))
			}
			c.Target2 = genUnitModT(t, T, "target2")
			if c.Kind == "vector" && rapid.Bool().Draw(t, "owners2") {
				c.Owners2 = genOwners(t, slots, npoly)
			}
		}
	}
	return c
}

// genDegree2 draws the degree of a follow-up polynomial of depth <= maxDepth.
func genDegree2(t *rapid.T, maxDepth int) int {
	depth := maxDepth - rapid.IntRange(0, maxDepth-1).Draw(t, "deg2DepthDown")
	lo := 1 << (depth - 1)
	return lo + rapid.IntRange(0, lo-1).Draw(t, "deg2InDepth")
}

func bgvValues(pat string, seed uint64, n int, T uint64) []uint64 {
	rng := h.NewSplitMix(seed)
	out := make([]uint64, n)
	for i := range out {
		switch pat {
		case "zero":
		case "one":
			out[i] = 1
		case "tminus1":
			out[i] = T - 1
		case "small":
			out[i] = rng.Uint64() % 4
		case "mix":
			switch rng.Intn(4) {
			case 0:
				out[i] = 0
			case 1:
				out[i] = T - 1
			case 2:
				out[i] = 1
			default:
				out[i] = rng.Uint64() % T
			}
		default:
			out[i] = rng.Uint64() % T
		}
	}
	return out
}

func setParity(p *bignum.Polynomial, parity string) {
	switch parity {
	case "odd":
		p.IsEven = false
	case "even":
		p.IsOdd = false
	}
}

func runBGV(c BGVCase, rec *h.Rec) error {
	params, err := c.Params.Build()
	if err != nil {
		return h.Failf("C13:bgv:params", "parameters rejected: %v", err)
	}
	T := params.PlaintextModulus()
	slots := params.MaxSlots()
	npoly := len(c.Coeffs)
	depth := advertisedDepth(c.Degree)
	mode := "bgv"
	if c.Invariant {
		mode = "bfv"
	}

	kgen := rlwe.NewKeyGenerator(params)
	sk := kgen.GenSecretKeyNew()
	rlk := kgen.GenRelinearizationKeyNew(sk)
	eval := bgv.NewEvaluator(params, rlwe.NewMemEvaluationKeySet(rlk), c.Invariant)
	ecd := bgv.NewEncoder(params)
	enc := rlwe.NewEncryptor(params, sk)
	dec := rlwe.NewDecryptor(params, sk)

	values := bgvValues(c.ValPattern, c.ValSeed, slots, T)
	pt := bgv.NewPlaintext(params, c.Level)
	pt.Scale = params.NewScale(c.InScale)
	if err = ecd.Encode(values, pt); err != nil {
		return h.Failf("C13:bgv:encode", "%v", err)
	}
	ct, err := enc.EncryptNew(pt)
	if err != nil {
		return h.Failf("C13:bgv:encrypt", "%v", err)
	}

	// polynomial object
	mkPol := func(coeffs [][]uint64, flagged bool, owners []int) (interface{}, error) {
		parity := func(i int) string {
			if flagged {
				return c.Shapes[i].Parity
			}
			return "general"
		}
		switch c.Kind {
		case "bignum":
			return bignum.NewPolynomial(bignum.Monomial, coeffs[0], nil), nil
		case "poly":
			p := bgvpoly.NewPolynomial(coeffs[0])
			setParity(&p.Polynomial, parity(0))
			p.Lazy = c.Lazy
			return p, nil
		}
		pv, err := bgvpoly.NewPolynomialVector(coeffs, ownersToMapping(owners, npoly))
		if err != nil {
			return nil, h.Failf("C13:bgv:NewPolynomialVector", "%v", err)
		}
		for i := range pv.Value {
			setParity(&pv.Value[i].Polynomial, parity(i))
			pv.Value[i].Lazy = c.Lazy
		}
		return pv, nil
	}
	pol, err := mkPol(c.Coeffs, true, c.Owners)
	if err != nil {
		return err
	}

	polyEval := bgvpoly.NewEvaluator(params, eval)
	target := params.NewScale(c.TargetScale)

	var out *rlwe.Ciphertext
	var pmsg string
	var pb cpoly.PowerBasis
	ctBefore := ctHash(ct)
	if c.FromPB {
		pb = cpoly.NewPowerBasis(ct, bignum.Monomial)
		for _, n := range c.PBPowers {
			if err = pb.GenPower(n, false, eval); err != nil {
				if c.Short {
					// the levels do not suffice for this power either: refusal is what is expected
					rec.Class("short:genpower-refused")
					return nil
				}
				return h.Failf("C13:"+mode+":GenPower:error", "GenPower(%d) at level %d: %v", n, c.Level, err)
			}
		}
		out, err, pmsg = guarded(func() (*rlwe.Ciphertext, error) { return polyEval.EvaluateFromPowerBasis(pb, pol, target) })
	} else {
		out, err, pmsg = guarded(func() (*rlwe.Ciphertext, error) { return polyEval.Evaluate(ct, pol, target) })
	}

	rec.Classf("mode=%s", mode)
	rec.Classf("kind=%s", c.Kind)
	rec.Classf("depth=%d", depth)
	rec.Classf("logN=%d", c.Params.LogN)
	for _, s := range c.Shapes {
		rec.Class("shape=" + s.class())
	}
	if c.FromPB {
		rec.Class("from-powerbasis")
	}

	if pmsg != "" {
		key := "C13:" + mode + ":Evaluate:panic"
		switch {
		case c.MixedParity:
			key = valueKey(mode, c.Kind, c.Lazy, c.MixedParity, c.Shapes[0].Parity, c.Degree)
		case c.Short:
			key = "C13:bgv:short-levels:panic"
		}
		if rec.Known(key, pmsg) {
			rec.Class("known=" + key)
			return nil
		}
		return h.Failf(key, "degree %d at level %d (needs %d): %s", c.Degree, c.Level, depth, pmsg)
	}
	if c.Short {
		rec.Class("short")
		if err == nil {
			return h.Failf("C13:bgv:short-levels:no-error", "degree %d needs %d levels, input at level %d, Evaluate returned no error (out level %d)", c.Degree, depth, c.Level, out.Level())
		}
		rec.NonTrivial(fmt.Sprintf("short|%s|deg=%d|lvl=%d|pb=%v", c.Kind, c.Degree, c.Level, c.FromPB))
		return nil
	}
	entry := "from-ciphertext"
	if c.FromPB {
		entry = "from-powerbasis"
	}
	if err != nil && c.Invariant {
		// the scale-invariant mode consumes no level: every level >= 0 is admissible, at both entry points
		return h.Failf("C13:bfv:admission:"+entry, "scale-invariant mode, degree %d (advertised depth %d) at level %d refused: %v", c.Degree, depth, c.Level, err)
	}
	if err != nil {
		return h.Failf("C13:"+mode+":Evaluate:error", "degree %d at level %d (depth %d): %v", c.Degree, c.Level, depth, err)
	}
	if c.Invariant && c.Level < depth {
		rec.Class("bfv:level<depth:evaluated:" + entry)
	}
	rec.Classf("admitted:%s:%s:level-depth=%d", mode, entry, c.Level-depth)
	if c.AdmitOnly {
		// level below the noise floor of this mode: only admission, level and scale can be judged (the result is noise)
		rec.Class("bfv:admission-only:" + entry)
		if out.Level() != c.Level {
			return h.Failf("C13:bfv:level", "degree %d: input level %d, output level %d (no level is consumed in this mode)", c.Degree, c.Level, out.Level())
		}
		if out.Scale.Cmp(target) != 0 {
			return h.Failf("C13:bfv:scale", "output scale %v != target scale %v", out.Scale.Uint64(), target.Uint64())
		}
		rec.NonTrivial(fmt.Sprintf("bfv-admission|%s|%s|deg=%d|lvl=%d", entry, c.Kind, c.Degree, c.Level))
		return nil
	}

	// depth / scale / value contract of one evaluation
	verify := func(out *rlwe.Ciphertext, coeffs [][]uint64, owners []int, degree int, target rlwe.Scale, stage string) (bool, error) {
		depth := advertisedDepth(degree)
		wantLevel := c.Level - depth
		if c.Invariant {
			wantLevel = c.Level
		}
		if out.Level() != wantLevel {
			return false, h.Failf("C13:"+mode+":level"+stage, "degree %d: input level %d, output level %d, want %d", degree, c.Level, out.Level(), wantLevel)
		}
		if out.Scale.Cmp(target) != 0 {
			return false, h.Failf("C13:"+mode+":scale"+stage, "output scale %v != target scale %v", out.Scale.Uint64(), target.Uint64())
		}
		if out.Degree() != 1 {
			return false, h.Failf("C13:"+mode+":degree"+stage, "output ciphertext degree %d", out.Degree())
		}
		got := make([]uint64, slots)
		if err := ecd.Decode(dec.DecryptNew(out), got); err != nil {
			return false, h.Failf("C13:bgv:decode", "%v", err)
		}
		bad, first := 0, ""
		for i := 0; i < slots; i++ {
			var want uint64
			switch c.Kind {
			case "vector":
				if o := owners[i]; o >= 0 {
					want = hornerModT(coeffs[o], values[i], T)
				}
			default:
				want = hornerModT(coeffs[0], values[i], T)
			}
			if got[i] != want {
				if bad == 0 {
					first = fmt.Sprintf("slot %d: x=%d got %d want %d", i, values[i], got[i], want)
				}
				bad++
			}
		}
		if bad != 0 {
			par := c.Shapes[0].Parity
			if stage != "" {
				par = "general"
			}
			key, msg := valueKey(mode, c.Kind, c.Lazy, c.MixedParity, par, degree)+stage, fmt.Sprintf("%d/%d slots wrong (degree %d, level %d, t=%d); %s", bad, slots, degree, c.Level, T, first)
			if rec.Known(key, msg) {
				rec.Class("known=" + key)
				return false, nil
			}
			return false, h.Failf(key, "%s", msg)
		}
		return true, nil
	}
	if ok, err := verify(out, c.Coeffs, c.Owners, c.Degree, target, ""); !ok {
		return err
	}
	if h := ctHash(ct); h != ctBefore {
		return failInput(mode, "first", ctBefore, h)
	}

	// second polynomial from the same evaluator and the same input object (history: the CoefficientGetter buffer, the
	// evaluator buffers and - from a PowerBasis - the powers generated for the first polynomial)
	if c.Degree2 > 0 {
		rec.Class("second-polynomial")
		owners2 := c.Owners
		if c.Owners2 != nil {
			owners2 = c.Owners2
			rec.Class("second-polynomial:other-mapping")
		}
		pol2, err := mkPol(c.Coeffs2, false, owners2)
		if err != nil {
			return err
		}
		target2 := params.NewScale(c.Target2)
		var out2 *rlwe.Ciphertext
		if c.FromPB {
			rec.Class("powerbasis-reused")
			out2, err, pmsg = guarded(func() (*rlwe.Ciphertext, error) { return polyEval.EvaluateFromPowerBasis(pb, pol2, target2) })
		} else {
			out2, err, pmsg = guarded(func() (*rlwe.Ciphertext, error) { return polyEval.Evaluate(ct, pol2, target2) })
		}
		if err != nil || pmsg != "" {
			key, msg := "C13:"+mode+":Evaluate:error:second-use", fmt.Sprintf("second polynomial of degree %d (first %d) at level %d, fromPB %v: %v %s", c.Degree2, c.Degree, c.Level, c.FromPB, err, pmsg)
			if c.Lazy {
				key = "C13:" + mode + ":Evaluate:error:second-use:lazy"
			}
			if rec.Known(key, msg) {
				rec.Class("known=" + key)
				return nil
			}
			return h.Failf(key, "%s", msg)
		}
		if ok, err := verify(out2, c.Coeffs2, owners2, c.Degree2, target2, ":second-use"); !ok {
			return err
		}
		if h := ctHash(ct); h != ctBefore {
			return failInput(mode, "second", ctBefore, h)
		}
		// the first result must not have been touched by the second evaluation
		if ok, err := verify(out, c.Coeffs, c.Owners, c.Degree, target, ":first-result-after-second-use"); !ok {
			return err
		}
	}

	// non-trivial rule of the property
	var why []string
	if c.Degree&(c.Degree+1) != 0 {
		why = append(why, "deg!=2^k-1")
	}
	for _, s := range c.Shapes {
		if s.Parity != "general" || s.Pattern != "dense" {
			why = append(why, "sparse/parity")
			break
		}
	}
	if npoly >= 2 {
		why = append(why, "vector>=2")
	}
	if c.Level == depth {
		why = append(why, "level=min")
		rec.Class("level=min")
	}
	if c.TargetScale != 1 || c.InScale != 1 {
		why = append(why, "scale!=default")
		rec.Class("scale!=default")
	}
	if c.Kind == "vector" {
		rec.Class(ownerClass(c.Owners, npoly))
	}
	allZero := true
	for _, cs := range c.Coeffs {
		for _, v := range cs[1:] {
			if v != 0 {
				allZero = false
			}
		}
	}
	if allZero {
		rec.Class("all-nonconstant-coeffs-zero")
	}
	if len(why) > 0 && !allZero {
		shapes := make([]string, len(c.Shapes))
		for i, s := range c.Shapes {
			shapes[i] = s.class()
		}
		rec.NonTrivial(fmt.Sprintf("%s|%s|deg=%d|lvl-min=%d|n=%d|%s|pb=%v%v|lazy=%v|scales=%v,%v|%s", mode, c.Kind, c.Degree, c.Level-depth, npoly,
			strings.Join(shapes, ","), c.FromPB, len(c.PBPowers), c.Lazy, c.InScale != 1, c.TargetScale != 1, c.ValPattern) + fmt.Sprintf("|second=%d", advertisedDepth(c.Degree2)))
	}
	return nil
}

func failInput(mode, which, before, after string) error {
	return h.Failf("C13:"+mode+":input-modified", "the input ciphertext changed during the %s evaluation: %s -> %s", which, before, after)
}

var propBGV = h.NewProp("TestPropBGVPolynomial", h.Budget{Quick: 600, Thorough: 20000}, genBGV, runBGV)

func TestPropBGVPolynomial(t *testing.T) { propBGV.Check(t) }
