package c13

import (
	"fmt"
	"math"
	"math/big"
	"testing"

	"verif/internal/h"

	"github.com/tuneinsight/lattigo/v6/utils/bignum"
	"pgregory.net/rapid"
)

// PlainCase exercises the plaintext-side polynomial tools the homomorphic evaluation is built on:
// bignum.Polynomial.Evaluate / Factorize / ChangeOfBasis and bignum.ChebyshevApproximation.
type PlainCase struct {
	Cheb     bool         `json:"cheb"`
	Interval [2]float64   `json:"interval"` // Chebyshev basis
	Coeffs   [][2]float64 `json:"coeffs"`
	Parity   string       `json:"parity"`
	N        int          `json:"n"`      // Factorize(n)
	Points   [][2]float64 `json:"points"` // evaluation points: u in [-1,1] mapped to [a,b] (Chebyshev) or (re,im) in the unit disc
	Func     string       `json:"func"`   // ChebyshevApproximation target
	Nodes    int          `json:"nodes"`
}

var approxFuncs = map[string]func(float64) float64{
	"sin":     math.Sin,
	"exp":     func(x float64) float64 { return math.Exp(x / 8) },
	"runge":   func(x float64) float64 { return 1 / (1 + x*x) },
	"sigmoid": func(x float64) float64 { return 1 / (1 + math.Exp(-x)) },
	"cube":    func(x float64) float64 { return x*x*x - x },
}
var approxNames = []string{"sin", "exp", "runge", "sigmoid", "cube"}

func genPlain(t *rapid.T) PlainCase {
	var c PlainCase
	c.Cheb = rapid.Bool().Draw(t, "cheb")
	switch rapid.IntRange(0, 3).Draw(t, "ivStyle") {
	case 0:
		c.Interval = [2]float64{-1, 1}
	case 1:
		k := float64(rapid.IntRange(1, 32).Draw(t, "ivK"))
		c.Interval = [2]float64{-k, k}
	default:
		a := float64(rapid.IntRange(-4096, 4096).Draw(t, "ivA")) / 64
		w := float64(rapid.IntRange(1, 4096).Draw(t, "ivW")) / 64
		c.Interval = [2]float64{a, a + w}
	}
	deg := rapid.IntRange(0, 40).Draw(t, "degree")
	c.Parity = "general"
	switch rapid.IntRange(0, 5).Draw(t, "parity") {
	case 0:
		c.Parity = "odd"
	case 1:
		c.Parity = "even"
	}
	// coefficient field: real, purely imaginary or mixed complex, in both bases
	coeffKind := []string{"real", "real", "mixed", "imag", "mixed", "real"}[rapid.IntRange(0, 5).Draw(t, "coeffKind")]
	for k := 0; k <= deg; k++ {
		re := float64(rapid.IntRange(-1024, 1024).Draw(t, fmt.Sprintf("c%d", k))) / 1024
		im := 0.0
		switch coeffKind {
		case "mixed":
			im = float64(rapid.IntRange(-1024, 1024).Draw(t, fmt.Sprintf("ci%d", k))) / 1024
		case "imag":
			re, im = 0, re
		}
		if (c.Parity == "odd" && k&1 == 0) || (c.Parity == "even" && k&1 == 1) {
			re, im = 0, 0
		}
		c.Coeffs = append(c.Coeffs, [2]float64{re, im})
	}
	// Factorize requires deg/2 <= n <= deg (callers use n > deg/2; n = floor(deg/2) for odd degrees runs into an index
	// panic instead of the explicit one and is not generated)
	c.N = rapid.IntRange((deg+1)>>1, deg).Draw(t, "n")
	np := rapid.IntRange(1, 6).Draw(t, "npoints")
	for i := 0; i < np; i++ {
		u := float64(rapid.IntRange(-1024, 1024).Draw(t, fmt.Sprintf("u%d", i))) / 1024
		v := 0.0
		if !c.Cheb && rapid.Bool().Draw(t, fmt.Sprintf("cplx%d", i)) {
			v = float64(rapid.IntRange(-1024, 1024).Draw(t, fmt.Sprintf("v%d", i))) / 1024
			if math.Hypot(u, v) > 1 {
				u, v = u/math.Sqrt2, v/math.Sqrt2
			}
		}
		c.Points = append(c.Points, [2]float64{u, v})
	}
	c.Func = approxNames[rapid.IntRange(0, len(approxNames)-1).Draw(t, "func")]
	c.Nodes = rapid.IntRange(1, 48).Draw(t, "nodes")
	return c
}

func coeffsOf(p bignum.Polynomial) []bc {
	out := make([]bc, len(p.Coeffs))
	for i, c := range p.Coeffs {
		out[i] = bcNew(0, 0)
		if c != nil {
			out[i] = bc{new(big.Float).SetPrec(refPrec).Set(c[0]), new(big.Float).SetPrec(refPrec).Set(c[1])}
		}
	}
	return out
}

func runPlain(c PlainCase, rec *h.Rec) error {
	basis := bignum.Monomial
	if c.Cheb {
		basis = bignum.Chebyshev
	}
	a, b := c.Interval[0], c.Interval[1]
	cs := make([]complex128, len(c.Coeffs))
	ref := make([]bc, len(cs))
	S := 0.0
	for k, v := range c.Coeffs {
		cs[k] = complex(v[0], v[1])
		ref[k] = bcNew(v[0], v[1])
		w := math.Max(1, float64(k))
		if c.Cheb {
			w = math.Max(1, float64(k*k))
		}
		S += math.Hypot(v[0], v[1]) * w
	}
	var iv interface{}
	if c.Cheb {
		iv = [2]float64{a, b}
	}
	pol := bignum.NewPolynomial(basis, cs, iv)
	setParity(&pol, c.Parity)
	deg := len(cs) - 1
	rec.Classf("basis=%v", map[bool]string{false: "monomial", true: "chebyshev"}[c.Cheb])
	cplx := false
	for _, v := range c.Coeffs {
		cplx = cplx || v[1] != 0
	}
	if cplx {
		rec.Classf("coeffs=complex:%v", map[bool]string{false: "monomial", true: "chebyshev"}[c.Cheb])
	}
	rec.Classf("parity=%s", c.Parity)
	if c.Cheb && a+b != 0 {
		rec.Class("interval-asymmetric")
	}

	// map: u in [-1,1] -> x in [a,b] -> u' = (2x-a-b)/(b-a), all in the reference arithmetic
	mapIn := func(x float64) bc {
		num := new(big.Float).SetPrec(refPrec).Sub(new(big.Float).SetPrec(refPrec).Mul(bf(2), bf(x)), new(big.Float).SetPrec(refPrec).Add(bf(a), bf(b)))
		return bc{num.Quo(num, new(big.Float).SetPrec(refPrec).Sub(bf(b), bf(a))), bf(0)}
	}
	tol := math.Ldexp(1+S, -40)

	// ChangeOfBasis
	if c.Cheb {
		s, k := pol.ChangeOfBasis()
		sf, _ := s.Float64()
		kf, _ := k.Float64()
		ws, wk := 2/(b-a), (-a-b)/(b-a)
		if math.Abs(sf-ws) > math.Ldexp(1+math.Abs(ws), -45) || math.Abs(kf-wk) > math.Ldexp(1+math.Abs(wk), -45) {
			return h.Failf("C13:bignum:ChangeOfBasis", "interval [%v,%v]: got (%v,%v) want (%v,%v)", a, b, sf, kf, ws, wk)
		}
	}

	// Evaluate at real / complex points (the polynomial itself maps [a,b] to [-1,1] in the Chebyshev basis)
	for i, pt := range c.Points {
		var x interface{}
		var at bc
		if c.Cheb {
			xr := a + (b-a)*(pt[0]+1)/2
			if xr > b {
				xr = b
			}
			x, at = xr, mapIn(xr)
			if i&1 == 1 {
				x = new(big.Float).SetPrec(128).SetFloat64(xr)
			}
		} else {
			at = bcNew(pt[0], pt[1])
			switch {
			case pt[1] != 0:
				x = complex(pt[0], pt[1])
			case i&1 == 1:
				x = new(big.Float).SetPrec(128).SetFloat64(pt[0])
			default:
				x = pt[0]
			}
		}
		want := refEval(c.Cheb, ref, at)
		got := pol.Evaluate(x)
		g := bc{new(big.Float).SetPrec(refPrec).Set(got[0]), new(big.Float).SetPrec(refPrec).Set(got[1])}
		if e := g.sub(want).abs(); !(e <= tol) {
			wr, _ := want.re.Float64()
			wi, _ := want.im.Float64()
			key := "C13:bignum:Evaluate:monomial"
			if c.Cheb {
				key = "C13:bignum:Evaluate:chebyshev"
				if a+b != 0 {
					key = "C13:bignum:Evaluate:chebyshev:asymmetric-interval"
				}
			}
			msg := fmt.Sprintf("degree %d, x=%v (%T) interval [%v,%v]: got (%v,%v) want (%v,%v)", deg, x, x, a, b, got[0], got[1], wr, wi)
			if rec.Known(key, msg) {
				rec.Class("known=" + key)
				break
			}
			return h.Failf(key, "%s", msg)
		}
	}

	// Factorize: p = q * B_n + r with B_n = X^n or T_n
	if deg >= 1 && c.N >= 1 {
		q, r := pol.Factorize(c.N)
		if len(q.Coeffs) != deg-c.N+1 || len(r.Coeffs) != c.N {
			return h.Failf("C13:bignum:Factorize:shape", "degree %d n %d: len(q)=%d len(r)=%d", deg, c.N, len(q.Coeffs), len(r.Coeffs))
		}
		qc, rc := coeffsOf(q), coeffsOf(r)
		bn := make([]bc, c.N+1)
		for i := range bn {
			bn[i] = bcNew(0, 0)
		}
		bn[c.N] = bcNew(1, 0)
		for _, pt := range c.Points {
			at := bcNew(pt[0], pt[1])
			if c.Cheb {
				at = bcNew(pt[0], 0)
			}
			want := refEval(c.Cheb, ref, at)
			got := refEval(c.Cheb, qc, at).mul(refEval(c.Cheb, bn, at)).add(refEval(c.Cheb, rc, at))
			if e := got.sub(want).abs(); !(e <= tol) {
				return h.Failf(fmt.Sprintf("C13:bignum:Factorize:%s", map[bool]string{false: "monomial", true: "chebyshev"}[c.Cheb]),
					"degree %d n %d parity %s at %v: q*B_n+r differs from p by %g", deg, c.N, c.Parity, pt, e)
			}
		}
		if q.Basis != pol.Basis || r.Basis != pol.Basis || q.IsOdd != pol.IsOdd || r.IsEven != pol.IsEven {
			return h.Failf("C13:bignum:Factorize:metadata", "basis/parity flags not propagated")
		}
	}

	// ChebyshevApproximation interpolates f at the Chebyshev nodes of [a,b]
	f := approxFuncs[c.Func]
	n := c.Nodes
	interval := bignum.Interval{Nodes: n - 1, A: *new(big.Float).SetPrec(128).SetFloat64(a), B: *new(big.Float).SetPrec(128).SetFloat64(b)}
	if n >= 2 {
		ap := bignum.ChebyshevApproximation(f, interval)
		if ap.Degree() != n-1 || ap.Basis != bignum.Chebyshev {
			return h.Failf("C13:bignum:ChebyshevApproximation:shape", "Nodes=%d: degree %d basis %v", n-1, ap.Degree(), ap.Basis)
		}
		ac := coeffsOf(ap)
		sa, fmax := 0.0, 0.0
		for k, v := range ac {
			sa += v.abs() * math.Max(1, float64(k*k))
		}
		for k := 1; k <= n; k++ {
			u := math.Cos((float64(k) - 0.5) * math.Pi / float64(n))
			x := (a+b)/2 + (b-a)/2*u
			fx := f(x)
			fmax = math.Max(fmax, math.Abs(fx))
			// the node in reference arithmetic is only known to float64 accuracy: tolerance 2^-36 * amplification
			got := refEval(true, ac, mapIn(x))
			gr, _ := got.re.Float64()
			if e := math.Abs(gr - fx); !(e <= math.Ldexp(1+sa+fmax, -36)) {
				return h.Failf("C13:bignum:ChebyshevApproximation:interpolation", "f=%s on [%v,%v] with %d nodes: p(node %d = %v) = %v, f = %v", c.Func, a, b, n, k, x, gr, fx)
			}
		}
		rec.Class("approx")
	}

	if deg >= 2 && (c.Parity != "general" || c.N != (deg+1)>>1 || (c.Cheb && a+b != 0)) {
		rec.NonTrivial(fmt.Sprintf("plain|cplx=%v|cheb=%v|asym=%v|deg=%d|n-deg/2=%d|%s|f=%s|nodes=%d", cplx, c.Cheb, c.Cheb && a+b != 0, deg, c.N-(deg+1)>>1, c.Parity, c.Func, n/8))
	}
	return nil
}

var propPlain = h.NewProp("TestPropPlaintextPolynomialTools", h.Budget{Quick: 1500, Thorough: 40000}, genPlain, runPlain)

func TestPropPlaintextPolynomialTools(t *testing.T) { propPlain.Check(t) }
