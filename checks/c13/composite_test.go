package c13

import (
	"fmt"
	"math"
	"math/big"
	"strings"
	"testing"

	"verif/internal/h"

	"github.com/tuneinsight/lattigo/v6/circuits/ckks/bootstrapping"
	"github.com/tuneinsight/lattigo/v6/circuits/ckks/comparison"
	"github.com/tuneinsight/lattigo/v6/circuits/ckks/minimax"
	"github.com/tuneinsight/lattigo/v6/core/rlwe"
	"github.com/tuneinsight/lattigo/v6/schemes/ckks"
	"pgregory.net/rapid"
)

// CmpCase evaluates one of the composite-polynomial comparison circuits (sign, step, max, min) with the default
// composite minimax polynomial, whose documentation states: separates values down to 2^-30, precision >= 20 bits
// (before the final x4 composition), tolerated scheme error 2^-35. Parameters follow lattigo's own comparison tests:
// 128-bit precision mode (two primes per rescaling) and the secret-key "bootstrapper" (decrypt / re-encrypt).
type CmpCase struct {
	Params   h.CKKSSpec `json:"params"`
	Seed     uint64     `json:"seed"`
	Op       string     `json:"op"`       // "sign" | "step" | "max" | "min"
	LogAlpha int        `json:"logAlpha"` // |x| (resp. |a-b|) >= 2^-LogAlpha, LogAlpha <= 28
	Pattern  string     `json:"pattern"`
	ValSeed  uint64     `json:"valSeed"`
	Again    string     `json:"again"` // second operation evaluated with the same evaluator ("" = none)
}

func (c CmpCase) RandSeed() uint64 { return c.Seed }

func genCmp(t *rapid.T) CmpCase {
	var c CmpCase
	c.Params.LogN = rapid.IntRange(4, 5).Draw(t, "logN")
	c.Params.CI = rapid.IntRange(0, 2).Draw(t, "ringType") == 0
	c.Params.Xs, c.Params.Xe = h.DefaultXs, h.DefaultXe
	c.Params.NTT = true
	m := c.Params.NthRoot()
	used := map[uint64]bool{}
	b := rapid.IntRange(43, 48).Draw(t, "halfLogScale")
	c.Params.LogScale = 2 * b
	pairs := rapid.IntRange(5, 6).Draw(t, "pairs") // depth 5 polynomials need 10 levels above the base pair
	c.Params.Q = append(h.GenPrimes(t, []int{60, 60}, m, used, "q0"), nearPow2Primes(t, b, 2*pairs, m, used, "q")...)
	c.Params.P = h.GenPrimes(t, []int{61, 61}, m, used, "p")
	c.Seed = rapid.Uint64().Draw(t, "seed")
	c.Op = []string{"sign", "step", "max", "min"}[rapid.IntRange(0, 3).Draw(t, "op")]
	c.LogAlpha = rapid.IntRange(1, 28).Draw(t, "logAlpha")
	c.Pattern = []string{"uniform", "edge", "mix", "zero"}[rapid.IntRange(0, 3).Draw(t, "pattern")]
	c.ValSeed = rapid.Uint64().Draw(t, "valSeed")
	c.Again = []string{"", "", "step", "sign", "max", "min"}[rapid.IntRange(0, 5).Draw(t, "again")]
	return c
}

// cmpValues draws x with 2^-logAlpha <= |x| <= hi (or exactly 0 / the end points, by pattern).
func cmpValues(c CmpCase, n int, hi float64) []float64 {
	rng := h.NewSplitMix(c.ValSeed)
	lo := math.Ldexp(1, -c.LogAlpha)
	out := make([]float64, n)
	for i := range out {
		sgn := float64(2*rng.Intn(2) - 1)
		mag := lo + (hi-lo)*rng.Float64()
		sel := rng.Intn(6)
		switch c.Pattern {
		case "edge":
			if i&1 == 0 {
				mag = lo
			} else {
				mag = hi
			}
		case "zero":
			if sel < 2 {
				mag = 0
			}
		case "mix":
			switch sel {
			case 0:
				mag = lo
			case 1:
				mag = hi
			case 2:
				mag = 0
			case 3:
				// log-uniform magnitude between lo and hi
				mag = math.Exp2(math.Log2(lo) + (math.Log2(hi)-math.Log2(lo))*rng.Float64())
			}
		}
		if mag > hi {
			mag = hi
		}
		out[i] = sgn * mag
	}
	return out
}

func sgn(x float64) float64 {
	switch {
	case x > 0:
		return 1
	case x < 0:
		return -1
	}
	return 0
}

func runCmp(c CmpCase, rec *h.Rec) error {
	params, err := c.Params.Build()
	if err != nil {
		return h.Failf("C13:cmp:params", "parameters rejected: %v", err)
	}
	slots := params.MaxSlots()
	kgen := rlwe.NewKeyGenerator(params)
	sk := kgen.GenSecretKeyNew()
	var gks []*rlwe.GaloisKey
	if !c.Params.CI {
		gks = append(gks, kgen.GenGaloisKeyNew(params.GaloisElementForComplexConjugation(), sk))
	}
	eval := ckks.NewEvaluator(params, rlwe.NewMemEvaluationKeySet(kgen.GenRelinearizationKeyNew(sk), gks...))
	ecd := ckks.NewEncoder(params)
	enc := rlwe.NewEncryptor(params, sk)
	dec := rlwe.NewDecryptor(params, sk)
	btp := bootstrapping.NewSecretKeyBootstrapper(params, sk)
	cmpEval := comparison.NewEvaluator(params, minimax.NewEvaluator(params, eval, btp))

	encrypt := func(v []float64) (*rlwe.Ciphertext, error) {
		pt := ckks.NewPlaintext(params, params.MaxLevel())
		if err := ecd.Encode(v, pt); err != nil {
			return nil, err
		}
		return enc.EncryptNew(pt)
	}

	signFP := func() string {
		var sb strings.Builder
		for i := range cmpEval.MinimaxCompositeSignPolynomial {
			sb.WriteString(polyFingerprint(&cmpEval.MinimaxCompositeSignPolynomial[i]))
			sb.WriteString("|")
		}
		return sb.String()
	}
	fp := signFP()

	// one operation: fresh inputs (a function of the case), evaluation with the SHARED evaluator, comparison with the model
	doOp := func(op string) error {
		var out *rlwe.Ciphertext
		var want, slack []float64
		var pmsg string
		switch op {
		case "sign", "step":
			x := cmpValues(c, slots, 1)
			ct, err := encrypt(x)
			if err != nil {
				return h.Failf("C13:cmp:encrypt", "%v", err)
			}
			want, slack = make([]float64, slots), make([]float64, slots)
			for i, v := range x {
				want[i] = sgn(v)
				if op == "step" {
					want[i] = (want[i] + 1) / 2
				}
			}
			if op == "sign" {
				out, err, pmsg = guarded(func() (*rlwe.Ciphertext, error) { return cmpEval.Sign(ct) })
			} else {
				out, err, pmsg = guarded(func() (*rlwe.Ciphertext, error) { return cmpEval.Step(ct) })
			}
			if err != nil || pmsg != "" {
				return h.Failf("C13:cmp:"+op+":error", "%v %s", err, pmsg)
			}
		default:
			// a, b in [-1/2, 1/2] with |a-b| >= 2^-logAlpha or a == b
			d := cmpValues(c, slots, 0.5)
			rng := h.NewSplitMix(c.ValSeed ^ 0xabcdef)
			a, b := make([]float64, slots), make([]float64, slots)
			want, slack = make([]float64, slots), make([]float64, slots)
			for i := range a {
				mid := (rng.Float64() - 0.5) * (1 - 2*math.Abs(d[i]))
				a[i], b[i] = mid+d[i]/2, mid-d[i]/2
				if op == "max" {
					want[i] = math.Max(a[i], b[i])
				} else {
					want[i] = math.Min(a[i], b[i])
				}
				// the float64 difference may fall (by rounding) slightly below 2^-logAlpha: the gate then only
				// guarantees a value between a and b
				if diff := math.Abs(a[i] - b[i]); diff < math.Ldexp(1, -29) {
					slack[i] = diff * 1.01
				}
			}
			cta, err := encrypt(a)
			if err != nil {
				return h.Failf("C13:cmp:encrypt", "%v", err)
			}
			ctb, err := encrypt(b)
			if err != nil {
				return h.Failf("C13:cmp:encrypt", "%v", err)
			}
			if op == "max" {
				out, err, pmsg = guarded(func() (*rlwe.Ciphertext, error) { return cmpEval.Max(cta, ctb) })
			} else {
				out, err, pmsg = guarded(func() (*rlwe.Ciphertext, error) { return cmpEval.Min(cta, ctb) })
			}
			if err != nil || pmsg != "" {
				return h.Failf("C13:cmp:"+op+":error", "%v %s", err, pmsg)
			}
		}

		if btp.Counter == 0 {
			return h.Failf("C13:cmp:no-bootstrap", "the circuit needs more levels than the parameters have, yet the bootstrapper was never called")
		}

		def := params.DefaultScale()
		if out.Scale.Cmp(def) != 0 {
			return h.Failf("C13:cmp:"+op+":scale", "output scale %v, documented: params.DefaultScale() = %v", &out.Scale.Value, &def.Value)
		}
		got := make([]*big.Float, slots)
		for i := range got {
			got[i] = new(big.Float)
		}
		if err = ecd.Decode(dec.DecryptNew(out), got); err != nil {
			return h.Failf("C13:cmp:decode", "%v", err)
		}
		tol := math.Ldexp(1, -20)
		for i := range got {
			g, _ := got[i].Float64()
			if e := math.Abs(g - want[i]); !(e <= tol+slack[i]) {
				return h.Failf("C13:cmp:"+op+":value", "slot %d: got %v want %v (error 2^%.1f, bound 2^%.1f, logAlpha %d)", i, g, want[i], math.Log2(e), math.Log2(tol+slack[i]), c.LogAlpha)
			}
		}
		return nil
	}

	rec.Class("op=" + c.Op)
	rec.Class("pattern=" + c.Pattern)
	if c.Params.CI {
		rec.Class("ring=ci")
	}
	if err := doOp(c.Op); err != nil {
		return err
	}
	// a second operation from the same evaluator object: state left behind by the first one must not matter
	if c.Again != "" {
		rec.Class("again=" + c.Again)
		if err := doOp(c.Again); err != nil {
			if f, ok := err.(*h.Failure); ok {
				f.Key += ":second-use"
			}
			return err
		}
	}
	if signFP() != fp {
		return h.Failf("C13:cmp:sign-polynomial-modified", "the coefficients of Evaluator.MinimaxCompositeSignPolynomial changed during %s / %s", c.Op, c.Again)
	}
	rec.NonTrivial(fmt.Sprintf("cmp|%s+%s|ci=%v|logN=%d|alpha=%d|%s|pairs=%d", c.Op, c.Again, c.Params.CI, c.Params.LogN, c.LogAlpha/7, c.Pattern, (len(c.Params.Q)-2)/2))
	return nil
}

var propCmp = h.NewProp("TestPropComparisonCircuits", h.Budget{Quick: 48, Thorough: 800}, genCmp, runCmp)

func TestPropComparisonCircuits(t *testing.T) { propCmp.Check(t) }
