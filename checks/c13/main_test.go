package c13

import (
	"encoding/binary"
	"fmt"
	"hash/fnv"
	"math/bits"
	"sort"
	"testing"

	"github.com/tuneinsight/lattigo/v6/core/rlwe"

	"verif/internal/h"

	"pgregory.net/rapid"
)

func TestMain(m *testing.M) { h.Main(m, "C13") }

func TestReplay(t *testing.T) { h.ReplayAll(t) }

// shared plain-data pieces -------------------------------------------------------------------------------------------

// PolyShape describes which coefficients of one polynomial are forced to zero and which parity flag it carries.
//
//	Parity "general": IsOdd=IsEven=true (lattigo's default), "odd": IsEven=false, "even": IsOdd=false.
//	(flags as set by lattigo's own callers, e.g. mod1: sine -> IsEven=false, cosine -> IsOdd=false)
type PolyShape struct {
	Parity string `json:"parity"`
	// Pattern: "dense" | "sparse" | "leadzero" | "trailzero" | "top" (only the leading coefficient) | "oddonly" | "evenonly"
	Pattern string `json:"pattern"`
}

var polyPatterns = []string{"dense", "sparse", "leadzero", "trailzero", "top", "oddonly", "evenonly"}

func genShape(t *rapid.T, label string, allowParity bool) PolyShape {
	var s PolyShape
	s.Parity = "general"
	if allowParity {
		switch rapid.IntRange(0, 5).Draw(t, label+"_parity") {
		case 0:
			s.Parity = "odd"
		case 1:
			s.Parity = "even"
		}
	}
	s.Pattern = polyPatterns[rapid.IntRange(0, len(polyPatterns)-1).Draw(t, label+"_pattern")]
	if s.Parity != "general" && (s.Pattern == "oddonly" || s.Pattern == "evenonly") {
		s.Pattern = "dense" // the flag already removes one parity class
	}
	return s
}

// keepCoeff tells whether coefficient k (of a polynomial of degree deg) may be non-zero under the shape.
// sel is a per-coefficient pseudo-random bit used by "sparse".
func (s PolyShape) keepCoeff(k, deg int, sel uint64) bool {
	switch s.Parity {
	case "odd":
		if k&1 == 0 {
			return false
		}
	case "even":
		if k&1 == 1 {
			return false
		}
	}
	switch s.Pattern {
	case "sparse":
		return sel%3 == 0
	case "leadzero":
		// a zero block at the top (the declared degree stays len(coeffs)-1)
		return k <= deg-(deg+3)/4
	case "trailzero":
		return k >= (deg+3)/4
	case "top":
		// only the highest coefficient the parity flag admits
		top := deg
		if (s.Parity == "odd" && top&1 == 0) || (s.Parity == "even" && top&1 == 1) {
			top--
		}
		return k == top
	case "oddonly":
		return k&1 == 1
	case "evenonly":
		return k&1 == 0
	}
	return true
}

func (s PolyShape) class() string {
	if s.Parity != "general" {
		return "flag-" + s.Parity
	}
	return s.Pattern
}

// ceilLog2 returns ceil(log2(x)) for x >= 1.
func ceilLog2(x int) int {
	if x <= 1 {
		return 0
	}
	return bits.Len64(uint64(x - 1))
}

// advertisedDepth is the documented number of rescalings: ceil(log2(degree+1)).
func advertisedDepth(degree int) int { return ceilLog2(degree + 1) }

// ownersToMapping turns a per-slot owner list (-1 = unmapped) into lattigo's map[poly][]slots.
func ownersToMapping(owners []int, npoly int) map[int][]int {
	m := map[int][]int{}
	for i := 0; i < npoly; i++ {
		m[i] = []int{}
	}
	for slot, o := range owners {
		if o >= 0 && o < npoly {
			m[o] = append(m[o], slot)
		}
	}
	return m
}

func genOwners(t *rapid.T, slots, npoly int) []int {
	switch rapid.IntRange(0, 3).Draw(t, "ownerStyle") {
	case 0:
		// every slot drawn independently (shrinks towards "unmapped")
		return rapid.SliceOfN(rapid.IntRange(-1, npoly-1), slots, slots).Draw(t, "owners")
	case 1:
		// interleaved, everything mapped
		out := make([]int, slots)
		for i := range out {
			out[i] = i % npoly
		}
		return out
	case 2:
		// blocks with an unmapped tail
		out := make([]int, slots)
		cut := rapid.IntRange(0, slots).Draw(t, "ownerCut")
		for i := range out {
			if i < cut {
				out[i] = (i * npoly) / (cut + 1)
			} else {
				out[i] = -1
			}
		}
		return out
	default:
		// a handful of mapped slots, the rest unmapped
		out := make([]int, slots)
		for i := range out {
			out[i] = -1
		}
		k := rapid.IntRange(0, 4).Draw(t, "ownerFew")
		for j := 0; j < k; j++ {
			out[rapid.IntRange(0, slots-1).Draw(t, fmt.Sprintf("ownerSlot%d", j))] = rapid.IntRange(0, npoly-1).Draw(t, fmt.Sprintf("ownerPoly%d", j))
		}
		return out
	}
}

func ownerClass(owners []int, npoly int) string {
	un, used := 0, map[int]bool{}
	for _, o := range owners {
		if o < 0 {
			un++
		} else {
			used[o] = true
		}
	}
	switch {
	case un == len(owners):
		return "map-none"
	case un == 0 && len(used) == npoly:
		return "map-full"
	case len(used) < npoly:
		return "map-unusedpoly"
	}
	return "map-partial"
}

// genPowers draws the set of powers that are pre-generated in a PowerBasis handed to EvaluateFromPowerBasis.
func genPowers(t *rapid.T, degree int) []int {
	if degree < 2 {
		return nil
	}
	n := rapid.IntRange(0, 3).Draw(t, "nPow")
	set := map[int]bool{}
	for i := 0; i < n; i++ {
		set[rapid.IntRange(2, degree).Draw(t, fmt.Sprintf("pow%d", i))] = true
	}
	out := make([]int, 0, len(set))
	for k := range set {
		out = append(out, k)
	}
	sort.Ints(out)
	return out
}

func mulmod(a, b, q uint64) uint64 {
	hi, lo := bits.Mul64(a%q, b%q)
	_, r := bits.Div64(hi, lo, q)
	return r
}

func addmod(a, b, q uint64) uint64 {
	s, c := bits.Add64(a%q, b%q, 0)
	if c != 0 || s >= q {
		s -= q
	}
	return s
}

// hornerModT evaluates sum c_k x^k mod t.
func hornerModT(c []uint64, x, t uint64) uint64 {
	var y uint64
	for k := len(c) - 1; k >= 0; k-- {
		y = addmod(mulmod(y, x, t), c[k]%t, t)
	}
	return y
}

// classification of known defects -------------------------------------------------------------------------------------
//
// The following mirrors ONLY the degree bookkeeping of lattigo's Paterson-Stockmeyer recursion (recursePS / Factorize)
// and is used to give failures a specific key (never as an oracle): it tells whether the decomposition of a polynomial
// of the given degree contains a baby-step piece of degree 0.

type psPiece struct {
	deg, maxDeg int
	lead        bool
}

func optimalSplit(logDegree int) (logSplit int) {
	logSplit = logDegree >> 1
	a := (1 << logSplit) + (1 << (logDegree - logSplit)) + logDegree - logSplit - 3
	b := (1 << (logSplit + 1)) + (1 << (logDegree - logSplit - 1)) + logDegree - logSplit - 4
	if a > b {
		logSplit++
	}
	return
}

func psHasConstPiece(logSplit int, p psPiece, fuel int) bool {
	if fuel == 0 {
		return false
	}
	if p.deg < 1<<logSplit {
		if p.lead && logSplit > 1 && p.deg >= 1 && p.maxDeg > (1<<bits.Len64(uint64(p.maxDeg)))-(1<<(logSplit-1)) {
			return psHasConstPiece(optimalSplit(bits.Len64(uint64(p.deg))), p, fuel-1)
		}
		return p.deg == 0
	}
	next := 1 << logSplit
	for next < (p.deg>>1)+1 {
		next <<= 1
	}
	q := psPiece{deg: p.deg - next, maxDeg: p.maxDeg, lead: p.lead}
	r := psPiece{deg: next - 1}
	if p.maxDeg == p.deg {
		r.maxDeg = next - 1
	} else {
		r.maxDeg = p.maxDeg - (p.deg - next + 1)
	}
	return psHasConstPiece(logSplit, q, fuel-1) || psHasConstPiece(logSplit, r, fuel-1)
}

// hasConstBabyStep reports whether evaluating a polynomial of this degree goes through a constant baby-step piece.
func hasConstBabyStep(degree int) bool {
	if degree < 1 {
		return false
	}
	return psHasConstPiece(optimalSplit(bits.Len64(uint64(degree))), psPiece{deg: degree, maxDeg: degree, lead: true}, 64)
}

// valueKey names a wrong-value failure. Input classes with a listed defect get their own key.
func valueKey(mode, kind string, lazy, mixedParity bool, parity string, degree int) string {
	switch {
	case mixedParity:
		// vector whose polynomials carry different parity flags
		return "C13:" + mode + ":value:vector-mixed-parity"
	case lazy:
		// Polynomial.Lazy=true: lazy relinearisation loses the degree-2 part
		return "C13:" + mode + ":value:lazy"
	case parity == "even" && hasConstBabyStep(degree):
		// IsOdd=false and a constant piece in the Paterson-Stockmeyer decomposition
		return "C13:" + mode + ":value:even-flag-const-babystep"
	}
	return "C13:" + mode + ":value:" + kind
}

// guarded runs an evaluation and turns a panic into a message (so that a refusal-by-panic gets a specific key).
func guarded[T any](f func() (T, error)) (out T, err error, panicMsg string) {
	defer func() {
		if r := recover(); r != nil {
			panicMsg = fmt.Sprintf("panic: %v", r)
		}
	}()
	out, err = f()
	return
}

// ctHash fingerprints a ciphertext (all coefficients, degree, level, scale, flags): used to assert that inputs are left intact.
func ctHash(ct *rlwe.Ciphertext) string {
	hh := fnv.New64a()
	var b [8]byte
	for _, p := range ct.Value {
		for _, limb := range p.Coeffs {
			for _, v := range limb {
				binary.LittleEndian.PutUint64(b[:], v)
				hh.Write(b[:])
			}
		}
	}
	return fmt.Sprintf("%x|deg=%d|lvl=%d|scale=%s|ntt=%v|mont=%v|dims=%v|batched=%v", hh.Sum64(), ct.Degree(), ct.Level(), ct.Scale.Value.Text('p', 0), ct.IsNTT, ct.IsMontgomery, ct.LogDimensions, ct.IsBatched)
}
