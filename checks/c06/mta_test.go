package c06

import (
	"math"
	"math/big"
	"strings"

	"verif/internal/h"

	"github.com/tuneinsight/lattigo/v6/core/rlwe"
	"github.com/tuneinsight/lattigo/v6/ring"
	"github.com/tuneinsight/lattigo/v6/schemes/ckks"
)

// makePlain encodes a plaintext operand for op0 = a (same slot count) and returns its model.
func (r *runner) makePlain(op Op, a *reg, _ int) *reg {
	e := r.e
	maxL := e.params.MaxLevel()
	sc := e.defaultScaleRat()
	var recorded *rlwe.Scale
	switch op.PtScale {
	case 1:
		if a.level >= e.nb-1 {
			sc = e.consumed(a.level)
		}
	case 2:
		sc = a.scale
		s := a.ct.Scale
		recorded = &s
	}
	n := 1 << a.logSlots
	raw := boxValues(op.VSeed, op.VLogMag, n, 0, e.spec.CI)
	vals := toCx(raw)
	m := maxAbs(vals)
	if m > e.maxSeen {
		e.maxSeen = m
	}
	eps := e.epsEncode(sc, m)
	lvl := maxL - op.PtDrop
	if lvl < 0 {
		lvl = 0
	}
	for lvl <= maxL && !e.fits(m, eps, sc, lvl) {
		lvl++
	}
	if lvl > maxL {
		return nil
	}
	pt := ckks.NewPlaintext(e.params, lvl)
	if recorded != nil {
		pt.Scale = *recorded
	} else {
		pt.Scale = scaleFromRat(sc)
	}
	pt.LogDimensions = ring.Dimensions{Rows: 0, Cols: a.logSlots}
	if err := e.ecd.Encode(toBigComplex(raw), pt); err != nil {
		panic(err)
	}
	r.rec.Classf("pt-scale-mode=%d", op.PtScale)
	return &reg{plain: pt, vals: vals, logSlots: a.logSlots, eps: eps, scale: sc, level: lvl, deg: 0, exact: ratFromFloat(&pt.Scale.Value).Cmp(sc) == 0}
}

func (r *runner) stepMulThenAdd(op Op, key, cls string, ia int) error {
	e := r.e
	relin := op.Kind == "MulRelinThenAdd"
	a := r.regs[ia]
	if len(r.regs) < 2 {
		r.skip("no-accumulator")
		return nil
	}
	mode := "reg"
	r.inExact = a.exact
	snapA := a.ct.CopyNew()
	var bCt, snapB *rlwe.Ciphertext
	finish := func(exp *reg, io int, err error) error {
		k := key + ":" + mode
		if err != nil {
			return h.Failf(k+":unexpected-error", "%v", err)
		}
		if !a.ct.Equal(snapA) {
			return h.Failf(k+":op0-modified", "the call changed op0")
		}
		if bCt != nil && bCt != a.ct && !bCt.Equal(snapB) {
			return h.Failf(k+":op1-modified", "the call changed op1")
		}
		if verr := r.verify(k, exp.ct, exp, true); verr != nil {
			return verr
		}
		r.regs[io] = exp
		r.last = io
		r.executed = append(r.executed, op.Kind+":"+cls)
		r.rec.Class("op=" + op.Kind + ":" + cls)
		return nil
	}
	min3 := func(x, y, z int) int { return int(math.Min(float64(x), math.Min(float64(y), float64(z)))) }
	max2 := func(x, y int) int {
		if x > y {
			return x
		}
		return y
	}

	switch cls {
	case "ct", "pt":
		var b *reg
		ib := -1
		if cls == "ct" {
			ib = op.B % len(r.regs)
			b = r.regs[ib]
			if a.deg != 1 || b.deg != 1 {
				r.skip("mul-degree")
				return nil
			}
		} else {
			b = r.makePlain(op, a, a.level)
			if b == nil {
				r.skip("pt-does-not-fit")
				return nil
			}
		}
		sres := new(big.Rat).Mul(a.scale, b.scale)
		ls := max2(a.logSlots, b.logSlots)
		io := -1
		for j := 0; j < len(r.regs); j++ {
			c := (op.Out + j) % len(r.regs)
			if c == ia || c == ib {
				continue
			}
			o := r.regs[c]
			if o.logSlots > ls || o.scale.Cmp(sres) > 0 {
				continue
			}
			if cls == "pt" && o.deg > a.deg && false {
				continue
			}
			io = c
			break
		}
		if io < 0 {
			r.skip("no-accumulator")
			return nil
		}
		o := r.regs[io]
		r.inExact = r.inExact && b.exact && o.exact
		if b.ct != nil {
			bCt, snapB = b.ct, b.ct.CopyNew()
		}
		lvl := min3(a.level, b.level, o.level)
		av, bv, ov := expand(a.vals, ls), expand(b.vals, ls), expand(o.vals, ls)
		ma, mb, mo := maxAbs(av), maxAbs(bv), maxAbs(ov)
		exp := &reg{logSlots: ls, level: lvl, prod: true}
		switch {
		case cls == "pt":
			exp.deg = max2(a.deg, o.deg)
		case relin:
			exp.deg = max2(1, o.deg)
		default:
			exp.deg = 2
		}
		exp.vals = make([]cx, len(av))
		for i := range av {
			exp.vals[i] = ov[i].add(av[i].mul(bv[i]))
		}
		epsAB := ma*b.eps + mb*a.eps + a.eps*b.eps
		if relin && cls == "ct" {
			epsAB += e.ksNoise(lvl) / ratFloat(sres)
		}
		ratio := new(big.Rat).Quo(sres, o.scale)
		rf := ratFloat(ratio)
		nonInt := false
		suspectTrunc := false
		switch {
		case ratio.Cmp(new(big.Rat).SetInt64(1)) == 0:
			exp.scale = o.scale
			exp.eps = o.eps + epsAB
			r.rec.Class("mulThenAdd=equal-scale")
		case math.Abs(rf-2) < 1e-9:
			r.skip("mulThenAdd-ratio-boundary")
			return nil
		case rf < 2:
			exp.scale = o.scale
			// the product is added as it is: it is read at the accumulator's scale, i.e. multiplied by the ratio. The
			// excess ratio-1 is taken from the exact rational (in float64 an excess below 2^-53 would round to zero)
			excess := ratFloat(new(big.Rat).Sub(ratio, new(big.Rat).SetInt64(1)))
			exp.eps = o.eps + epsAB*rf + ma*mb*excess
			r.rec.Class("mulThenAdd=ratio<2")
			if excess < 1e-15 {
				r.rec.Class("mulThenAdd=ratio-1-below-2^-50")
			}
		default:
			exp.scale = sres
			align := 0.0
			bRec := a.ct.Scale
			if b.ct != nil {
				bRec = b.ct.Scale
			} else if b.plain != nil {
				bRec = b.plain.Scale
			}
			if truncationSuspect(ratio, a.ct.Scale.Mul(bRec), o.ct.Scale) {
				// exact ratio is an integer but the 128-bit quotient falls just below it (listed finding)
				suspectTrunc = true
				r.rec.Class("scale-ratio=quotient-below-integer")
				if r.rec.Known(truncKey, "MulThenAdd accumulator scaling") {
					align = 1 / rf
				}
			} else if !new(big.Float).SetPrec(e.prec).SetRat(ratio).IsInt() {
				align = alignErr(sres, o.scale, false) // the accumulator is multiplied by the integer closest to the ratio
				nonInt = true
				r.rec.Class("mulThenAdd=non-integer-ratio")
			} else {
				r.rec.Class("mulThenAdd=integer-ratio")
			}
			exp.eps = o.eps + mo*align + e.fp(mo) + epsAB
		}
		if !e.fits(mo+ma*mb, exp.eps, exp.scale, lvl) || !e.fits(mo+ma*mb, exp.eps, sres, lvl) {
			r.skip("overflow")
			return nil
		}
		var operand rlwe.Operand = b.ct
		if cls == "pt" {
			operand = b.pt()
		}
		target := o.ct
		if nonInt {
			target = o.ct.CopyNew() // listed finding: run on a copy so that the accumulator survives
		}
		var err error
		var panicked any
		func() {
			if nonInt {
				// same root cause as the listed finding: at level < primes-per-rescale the scaled constant indexes prime -1
				defer func() { panicked = recover() }()
			}
			if relin {
				err = e.eval.MulRelinThenAdd(a.ct, operand, target)
			} else {
				err = e.eval.MulThenAdd(a.ct, operand, target)
			}
		}()
		if panicked != nil {
			perr := h.Failf("C06:MulThenAdd:non-integer-scale-ratio:value", "panic while scaling the accumulator by a non-integer ratio: %v", panicked)
			if r.known(perr) {
				return nil
			}
			return perr
		}
		exp.ct = target
		ferr := finish(exp, io, err)
		if f, ok := ferr.(*h.Failure); ok && suspectTrunc && strings.HasSuffix(f.Key, ":value") {
			f.Key = truncKey
			return ferr
		}
		if f, ok := ferr.(*h.Failure); ok && nonInt && strings.HasSuffix(f.Key, ":value") {
			f.Key = "C06:MulThenAdd:non-integer-scale-ratio:value"
			if r.known(ferr) {
				return nil
			}
		}
		return ferr

	case "scalar", "vector":
		io := -1
		eq := false
		var ratio *big.Rat
		for j := 0; j < len(r.regs); j++ {
			c := (op.Out + j) % len(r.regs)
			if c == ia {
				continue
			}
			o := r.regs[c]
			if o.logSlots > a.logSlots {
				continue
			}
			cmpRec := a.ct.Scale.Cmp(o.ct.Scale)
			cmpRat := a.scale.Cmp(o.scale)
			if cmpRec == 0 && (cmpRat == 0 || ratCmpTol(a.scale, o.scale, 100)) {
				io, eq = c, true
				break
			}
			if cmpRec == -1 && cmpRat == -1 {
				ratio = new(big.Rat).Quo(o.scale, a.scale)
				if ratFloat(ratio) >= 1024 {
					io = c
					break
				}
			}
		}
		if io < 0 {
			r.skip("no-accumulator")
			return nil
		}
		o := r.regs[io]
		r.inExact = r.inExact && o.exact
		lvl := a.level
		if o.level < lvl {
			lvl = o.level
		}
		exp := &reg{logSlots: a.logSlots, level: lvl, deg: max2(a.deg, o.deg), prod: o.prod}
		ov := expand(o.vals, a.logSlots)
		mo, ma := maxAbs(ov), a.m()
		var arg rlwe.Operand
		var mc float64
		exp.vals = make([]cx, len(a.vals))
		if cls == "scalar" {
			val, sarg, isInt := scalarValue(op, e.prec)
			arg, mc = sarg, val.abs()
			for i := range a.vals {
				exp.vals[i] = ov[i].add(a.vals[i].mul(val))
			}
			switch {
			case eq && isInt:
				exp.scale = o.scale
				exp.eps = o.eps + a.eps*mc + e.fp(ma*mc)
				r.rec.Class("mulThenAdd=gaussian-integer")
			case eq:
				if lvl < e.nb-1 {
					r.skip("level-too-low-for-constant")
					return nil
				}
				qs := e.consumed(lvl)
				qf := ratFloat(qs)
				exp.scale = new(big.Rat).Mul(o.scale, qs)
				exp.eps = o.eps + a.eps*(mc+2/qf) + ma*2/qf + e.fp(ma*mc)
				exp.prod = true
				r.rec.Class("mulThenAdd=scaled-constant")
			default:
				rf := ratFloat(ratio)
				exp.scale = o.scale
				exp.eps = o.eps + a.eps*(mc+2/rf) + ma*2/rf + e.fp(ma*mc)
				r.rec.Class("mulThenAdd=ratio-constant")
			}
			if op.Operand != "float64" {
				r.flags["non-float64-scalar"] = true
			}
		} else {
			vv, varg, mv := e.vectorOperand(op, a.logSlots)
			arg, mc = varg, mv
			for i := range a.vals {
				exp.vals[i] = ov[i].add(a.vals[i].mul(vv[i]))
			}
			var ps *big.Rat
			if eq {
				if lvl < e.nb-1 {
					r.skip("level-too-low-for-constant")
					return nil
				}
				ps = e.consumed(lvl)
				exp.scale = new(big.Rat).Mul(o.scale, ps)
				exp.prod = true
				r.rec.Class("mulThenAdd=scaled-vector")
			} else {
				ps = ratio
				exp.scale = o.scale
				r.rec.Class("mulThenAdd=ratio-vector")
			}
			ep := e.epsEncode(ps, mv)
			exp.eps = o.eps + ma*ep + mv*a.eps + a.eps*ep
		}
		if !e.fits(mo+ma*mc, exp.eps, exp.scale, lvl) {
			r.skip("overflow")
			return nil
		}
		if o.level > a.level {
			r.rec.Class("mulThenAdd=accumulator-above-op0-level")
		}
		if o.deg > a.deg {
			r.rec.Class("mulThenAdd=accumulator-above-op0-degree")
		}
		target := o.ct
		suspect := ""
		switch {
		case o.level > a.level:
			suspect = "C06:MulThenAdd:scalar-or-vector:accumulator-above-op0-level"
		case o.deg > a.deg:
			suspect = "C06:MulThenAdd:scalar-or-vector:accumulator-above-op0-degree"
		}
		if suspect != "" {
			target = o.ct.CopyNew() // listed findings: run on a copy so that the accumulator survives
		}
		var err error
		if relin {
			err = e.eval.MulRelinThenAdd(a.ct, arg, target)
		} else {
			err = e.eval.MulThenAdd(a.ct, arg, target)
		}
		exp.ct = target
		ferr := finish(exp, io, err)
		if f, ok := ferr.(*h.Failure); ok && suspect != "" && (strings.HasSuffix(f.Key, ":level") || strings.HasSuffix(f.Key, ":degree") || strings.HasSuffix(f.Key, ":value")) {
			f.Key = suspect
			if r.known(ferr) {
				return nil
			}
		}
		return ferr
	}
	return nil
}

// probeUint calls the operation with a uint operand on throw-away copies and reports a panic as a failure.
func (r *runner) probeUint(op Op, a *reg) (err error) {
	e := r.e
	defer func() {
		if p := recover(); p != nil {
			err = h.Failf("C06:scalar-uint:panic", "%s(ct, uint(%d), out) panics although uint is a documented operand type: %v", op.Kind, uint(op.Re), p)
		}
	}()
	in := a.ct.CopyNew()
	out := a.ct.CopyNew()
	switch op.Kind {
	case "Add":
		_ = e.eval.Add(in, uint(op.Re), out)
	case "Sub":
		_ = e.eval.Sub(in, uint(op.Re), out)
	case "Mul", "MulRelin":
		_ = e.eval.Mul(in, uint(op.Re), out)
	default:
		_ = e.eval.MulThenAdd(in, uint(op.Re), out)
	}
	return nil
}

// stepRotateHoisted rotates op0 by every rotation of the case at once (RotateHoisted / RotateHoistedNew) and checks
// each output like a single Rotate; one of them is kept as a register.
func (r *runner) stepRotateHoisted(op Op, key string, ia int) error {
	e := r.e
	a := r.regs[ia]
	if a.deg != 1 {
		r.skip("automorphism-degree")
		return nil
	}
	r.inExact = a.exact
	rots := append([]int(nil), e.rots...)
	mode := op.OutMode
	if mode != "new" {
		mode = "fresh"
	}
	if !e.fits(a.m(), a.eps+e.ksNoise(a.level)/ratFloat(a.scale), a.scale, a.level) {
		r.skip("overflow")
		return nil
	}
	snapA := a.ct.CopyNew()
	var outs map[int]*rlwe.Ciphertext
	var err error
	if mode == "new" {
		outs, err = e.eval.RotateHoistedNew(a.ct, rots)
	} else {
		// pre-allocated receivers: fresh ones, at a higher or equal level (the method resizes them to op0's level);
		// the rotation that is the identity copies op0 and gets a receiver of op0's level
		outs = map[int]*rlwe.Ciphertext{}
		for _, k := range rots {
			lvl := e.params.MaxLevel() - op.FDrop
			if lvl < a.level || e.params.GaloisElement(k) == 1 {
				lvl = a.level
			}
			outs[k] = ckks.NewCiphertext(e.params, 1, lvl)
		}
		err = e.eval.RotateHoisted(a.ct, rots, outs)
	}
	k0 := key + ":" + mode
	if err != nil {
		return h.Failf(k0+":unexpected-error", "%v", err)
	}
	if !a.ct.Equal(snapA) {
		return h.Failf(k0+":op0-modified", "RotateHoisted changed its input")
	}
	keep := rots[op.K%len(rots)]
	var kept *reg
	done := map[int]bool{}
	for _, k := range rots {
		if done[k] {
			continue
		}
		done[k] = true
		out, ok := outs[k]
		if !ok || out == nil {
			return h.Failf(k0+":missing-output", "no output for rotation %d", k)
		}
		exp := &reg{ct: out, logSlots: a.logSlots, level: a.level, deg: 1, scale: a.scale, eps: a.eps, prod: a.prod, resc: a.resc, vals: rotate(a.vals, k)}
		if e.params.GaloisElement(k) != 1 {
			exp.eps += e.ksNoise(a.level) / ratFloat(a.scale)
		}
		if verr := r.verify(k0, out, exp, true); verr != nil {
			return verr
		}
		if k == keep {
			kept = exp
		}
	}
	r.place(op, "new", ia, 0, kept)
	r.executed = append(r.executed, "RotateHoisted:")
	r.rec.Class("op=RotateHoisted:")
	r.rec.Class("out=" + mode)
	return nil
}
