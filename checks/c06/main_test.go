package c06

import (
	"fmt"
	"testing"

	"verif/internal/h"

	"pgregory.net/rapid"
)

func TestMain(m *testing.M) { h.Main(m, "C06") }

func TestReplay(t *testing.T) { h.ReplayAll(t) }

// InputSpec describes one encrypted input register.
type InputSpec struct {
	Seed      uint64 `json:"seed"`
	LogMag    int    `json:"logMag"`       // slot values in the box [-2^logMag, 2^logMag] (real and imaginary part)
	LevelDrop int    `json:"levelDrop"`    // level = max - levelDrop (raised again until the message fits)
	ScaleMode int    `json:"scaleMode"`    // 0 default, 1 default*3, 2 default*1.3125, 3 default/2, 4 default*(1+2^-20)
	LogSlots  int    `json:"logSlots"`     // log2 of the number of slots (sparse packing when < max)
	Pattern   int    `json:"pattern"`      // 0 uniform box, 1 all equal, 2 corners, 3 one non-zero slot
	PK        bool   `json:"pk,omitempty"` // encrypted with the public key instead of the secret key
}

// Op is one step of a straight-line program. Registers are addressed modulo the number of live registers.
type Op struct {
	Kind    string  `json:"kind"`
	A       int     `json:"a"`
	APrev   bool    `json:"aprev,omitempty"` // op0 is the register written by the previous executed step
	B       int     `json:"b,omitempty"`
	Out     int     `json:"out,omitempty"`
	OutMode string  `json:"outMode,omitempty"` // new | inplace | fresh | reg
	Operand string  `json:"operand,omitempty"` // ct | pt | <scalar kind> | <vector kind>
	Re      float64 `json:"re,omitempty"`
	Im      float64 `json:"im,omitempty"`
	Lo      float64 `json:"lo,omitempty"` // extra low-order part (times 2^-60) for the arbitrary precision kinds
	VSeed   uint64  `json:"vseed,omitempty"`
	VLogMag int     `json:"vlogMag,omitempty"`
	VShort  int     `json:"vshort,omitempty"`  // vector operand is this many entries shorter than the slot count
	PtScale int     `json:"ptScale,omitempty"` // plaintext operand scale: 0 default, 1 consumed prime(s) at op0 level, 2 op0 scale
	PtDrop  int     `json:"ptDrop,omitempty"`  // plaintext operand level = max - ptDrop
	K       int     `json:"k,omitempty"`       // rotation index / levels dropped / ScaleUp factor
	F       float64 `json:"f,omitempty"`       // SetScale / RescaleTo factor
	FDrop   int     `json:"fdrop,omitempty"`   // fresh output level = max - fdrop
}

// ProgCase is a CKKS parameter set, inputs and a straight-line program.
type ProgCase struct {
	Params h.CKKSSpec  `json:"params"`
	Seed   uint64      `json:"seed"`
	Rots   []int       `json:"rots"`
	Inputs []InputSpec `json:"inputs"`
	Ops    []Op        `json:"ops"`
	Indep  bool        `json:"indep,omitempty"` // also decode every output with the independent reference decoder
}

func (c ProgCase) RandSeed() uint64 { return c.Seed }

var scalarKinds = []string{"complex128", "float64", "int", "int64", "uint", "uint64", "bigint", "bigfloat", "bigcomplex"}
var vectorKinds = []string{"vcomplex128", "vfloat64", "vbigfloat", "vbigcomplex"}

func isScalarKind(k string) bool {
	for _, s := range scalarKinds {
		if s == k {
			return true
		}
	}
	return false
}

func isVectorKind(k string) bool {
	for _, s := range vectorKinds {
		if s == k {
			return true
		}
	}
	return false
}

func operandClass(k string) string {
	switch {
	case k == "ct" || k == "pt" || k == "":
		return k
	case isScalarKind(k):
		return "scalar"
	default:
		return "vector"
	}
}

func pickPrime(t *rapid.T, bits int, m uint64, top bool, used map[uint64]bool, label string) uint64 {
	idx := rapid.IntRange(0, 11).Draw(t, label)
	for b := bits; b <= 61; b++ {
		c := h.Primes(b, m, 12, top)
		var avail []uint64
		for _, p := range c {
			if !used[p] {
				avail = append(avail, p)
			}
		}
		if len(avail) > 0 {
			p := avail[idx%len(avail)]
			used[p] = true
			return p
		}
	}
	t.Fatalf("no prime of %d bits for m=%d", bits, m)
	return 0
}

// nearPrime draws a prime close to 2^bits (just below or just above) or, for mode 2/3, anywhere one bit off.
func nearPrime(t *rapid.T, bits int, m uint64, used map[uint64]bool, label string) uint64 {
	minb := h.MinPrimeBits(m) + 1
	switch rapid.IntRange(0, 5).Draw(t, label+"_mode") {
	case 0, 1:
		if bits < minb {
			bits = minb
		}
		return pickPrime(t, bits, m, true, used, label) // just below 2^bits
	case 2, 3:
		b := bits + 1
		if b < minb {
			b = minb
		}
		if b > 60 {
			return pickPrime(t, 60, m, true, used, label)
		}
		return pickPrime(t, b, m, false, used, label) // just above 2^bits
	case 4:
		b := bits - 1
		if b < minb {
			b = minb
		}
		return pickPrime(t, b, m, rapid.Bool().Draw(t, label+"_top"), used, label) // up to 4x below
	default:
		b := bits + 1
		if b < minb {
			b = minb
		}
		if b > 60 {
			b = 60
		}
		return pickPrime(t, b, m, true, used, label) // up to 2x above
	}
}

func genParams(t *rapid.T) h.CKKSSpec {
	var s h.CKKSSpec
	// small rings first (rapid favours small indices); logN 8 in the quick tier, up to 11 in the thorough tier
	logNs := []int{4, 5, 6, 7, 4, 5, 6, 7, 8}
	if h.Thorough() {
		logNs = []int{4, 5, 6, 7, 8, 4, 5, 6, 7, 8, 9, 4, 5, 6, 10, 11}
	}
	s.LogN = logNs[rapid.IntRange(0, len(logNs)-1).Draw(t, "logN")]
	s.CI = rapid.IntRange(0, 2).Draw(t, "ringType") == 0
	s.NTT = true
	m := s.NthRoot()
	prec128 := rapid.IntRange(0, 3).Draw(t, "prec128") == 0
	depth := rapid.IntRange(1, 4).Draw(t, "depth")
	if rapid.IntRange(0, 7).Draw(t, "depth0") == 0 {
		depth = 0
	}
	if prec128 && depth > 3 {
		depth = 3
	}
	used := map[uint64]bool{}
	if !prec128 {
		switch rapid.IntRange(0, 4).Draw(t, "scaleClass") {
		case 0:
			s.LogScale = 20
		case 1:
			s.LogScale = 55
		default:
			s.LogScale = rapid.IntRange(20, 55).Draw(t, "logScale")
		}
		q0 := s.LogScale + rapid.IntRange(6, 14).Draw(t, "q0extra")
		if q0 > 60 {
			q0 = 60
		}
		s.Q = append(s.Q, pickPrime(t, q0, m, true, used, "q0"))
		for i := 0; i < depth; i++ {
			s.Q = append(s.Q, nearPrime(t, s.LogScale, m, used, fmt.Sprintf("q%d", i+1)))
		}
	} else {
		switch rapid.IntRange(0, 4).Draw(t, "scaleClass") {
		case 0:
			s.LogScale = 70
		case 1:
			s.LogScale = 100
		default:
			s.LogScale = rapid.IntRange(70, 100).Draw(t, "logScale")
		}
		q0 := rapid.IntRange(56, 60).Draw(t, "q0bits")
		q1 := s.LogScale + rapid.IntRange(8, 14).Draw(t, "q0extra") - q0
		if q1 < 24 {
			q1 = 24
		}
		if q1 > 60 {
			q1 = 60
		}
		s.Q = append(s.Q, pickPrime(t, q0, m, true, used, "q0"), pickPrime(t, q1, m, true, used, "q1"))
		for i := 0; i < depth; i++ {
			b1 := s.LogScale / 2
			b2 := s.LogScale - b1
			s.Q = append(s.Q, nearPrime(t, b1, m, used, fmt.Sprintf("qa%d", i+1)), nearPrime(t, b2, m, used, fmt.Sprintf("qb%d", i+1)))
		}
	}
	nP := rapid.IntRange(1, 3).Draw(t, "nP")
	for i := 0; i < nP; i++ {
		s.P = append(s.P, pickPrime(t, 61, m, true, used, fmt.Sprintf("p%d", i)))
	}
	switch rapid.IntRange(0, 5).Draw(t, "xs") {
	case 0:
		s.Xs = h.DistSpec{Kind: "ternaryP", P: 1.0 / 3}
	case 1:
		s.Xs = h.DistSpec{Kind: "ternaryP", P: 2.0 / 3}
	case 2:
		hs := []int{1, 2, s.N() / 4, s.N() / 2, s.N()}
		s.Xs = h.DistSpec{Kind: "ternaryH", H: hs[rapid.IntRange(0, len(hs)-1).Draw(t, "xs_h")]}
	default:
		s.Xs = h.DefaultXs
	}
	s.Xe = h.DefaultXe
	return s
}

func logMaxSlots(s h.CKKSSpec) int {
	if s.CI {
		return s.LogN
	}
	return s.LogN - 1
}

// operation kinds, repeated according to their weight (rescaling and products are what programs are made of)
var weightedKinds = []string{"Rescale", "Mul", "MulRelin", "Relinearize", "MulRelinThenAdd", "MulThenAdd", "Rotate", "RotateHoisted", "Add", "Sub", "RescaleTo",
	"SetScale", "Conjugate", "ScaleUp", "DropLevel", "Rescale", "Rescale", "Mul", "MulRelin", "Mul", "MulRelin", "MulThenAdd", "MulRelinThenAdd",
	"Add", "Sub", "Rotate", "Relinearize", "Rescale", "Rescale", "RotateHoisted"}

func genScalar(t *rapid.T, op *Op, ci bool) {
	intOnly := false
	switch op.Operand {
	case "int", "int64", "uint", "uint64", "bigint":
		intOnly = true
	}
	unsigned := op.Operand == "uint" || op.Operand == "uint64"
	cls := rapid.IntRange(0, 5).Draw(t, "scalarClass")
	drawInt := func(label string) float64 {
		switch rapid.IntRange(0, 3).Draw(t, label+"_c") {
		case 0:
			return float64(rapid.IntRange(-2, 2).Draw(t, label))
		case 1:
			return float64(rapid.IntRange(-1000, 1000).Draw(t, label))
		default:
			return float64(rapid.IntRange(-9, 9).Draw(t, label))
		}
	}
	drawFrac := func(label string) float64 {
		// dyadic fractions and generic float64 values of moderate size
		switch rapid.IntRange(0, 2).Draw(t, label+"_c") {
		case 0:
			return float64(rapid.IntRange(-64, 64).Draw(t, label)) / 16
		default:
			return rapid.Float64Range(-8, 8).Draw(t, label)
		}
	}
	if intOnly || cls <= 1 {
		op.Re = drawInt("re")
		if unsigned && op.Re < 0 {
			op.Re = -op.Re
		}
	} else {
		op.Re = drawFrac("re")
	}
	if (op.Operand == "complex128" || op.Operand == "bigcomplex") && !ci {
		switch {
		case cls <= 1:
			op.Im = drawInt("im")
		case cls == 2:
			op.Im = 0
		default:
			op.Im = drawFrac("im")
		}
	}
	if (op.Operand == "bigfloat" || op.Operand == "bigcomplex") && cls >= 4 {
		op.Lo = rapid.Float64Range(-1, 1).Draw(t, "lo")
	}
}

func genOp(t *rapid.T, s h.CKKSSpec, nrot int) Op {
	var op Op
	op.Kind = weightedKinds[rapid.IntRange(0, len(weightedKinds)-1).Draw(t, "kind")]
	op.A = rapid.IntRange(0, 7).Draw(t, "a")
	op.APrev = rapid.Bool().Draw(t, "aprev")
	modes := []string{"new", "inplace", "fresh", "reg"}
	op.OutMode = modes[rapid.IntRange(0, 3).Draw(t, "outMode")]
	op.Out = rapid.IntRange(0, 7).Draw(t, "out")
	op.FDrop = 0
	if rapid.IntRange(0, 3).Draw(t, "fdropc") == 0 {
		op.FDrop = rapid.IntRange(0, 3).Draw(t, "fdrop")
	}
	switch op.Kind {
	case "Add", "Sub", "Mul", "MulRelin", "MulThenAdd", "MulRelinThenAdd":
		switch rapid.IntRange(0, 9).Draw(t, "operandClass") {
		case 0, 1, 2:
			op.Operand = "ct"
			op.B = rapid.IntRange(0, 7).Draw(t, "b")
		case 3:
			op.Operand = "pt"
		case 4, 5, 6, 7:
			op.Operand = scalarKinds[rapid.IntRange(0, len(scalarKinds)-1).Draw(t, "scalarKind")]
			genScalar(t, &op, s.CI)
		default:
			op.Operand = vectorKinds[rapid.IntRange(0, len(vectorKinds)-1).Draw(t, "vectorKind")]
		}
		if op.Operand == "pt" || isVectorKind(op.Operand) {
			op.VSeed = rapid.Uint64().Draw(t, "vseed")
			op.VLogMag = rapid.IntRange(-2, 2).Draw(t, "vlogMag")
			if rapid.IntRange(0, 3).Draw(t, "vshortc") == 0 {
				op.VShort = rapid.IntRange(0, 3).Draw(t, "vshort")
			}
			op.PtScale = rapid.IntRange(0, 2).Draw(t, "ptScale")
			if rapid.IntRange(0, 3).Draw(t, "ptDropc") == 0 {
				op.PtDrop = rapid.IntRange(0, 2).Draw(t, "ptDrop")
			}
		}
	case "RescaleTo":
		fs := []float64{1, 1, 0.5, 2, 0.75, 1.5, 1e-3, 4}
		op.F = fs[rapid.IntRange(0, len(fs)-1).Draw(t, "f")]
	case "SetScale":
		fs := []float64{1, 0.5, 2, 3, 1.25, 0.8125, 1.000244140625}
		i := rapid.IntRange(0, len(fs)).Draw(t, "f")
		if i == len(fs) {
			op.F = rapid.Float64Range(0.5, 2).Draw(t, "fval")
		} else {
			op.F = fs[i]
		}
		op.K = rapid.IntRange(0, 1).Draw(t, "target") // 0: F*default scale, 1: F*current scale
	case "ScaleUp":
		ks := []int{1, 2, 3, 7, 1 << 10, 1<<20 + 1}
		op.K = ks[rapid.IntRange(0, len(ks)-1).Draw(t, "k")]
	case "DropLevel":
		op.K = rapid.IntRange(0, 2).Draw(t, "k")
	case "Rotate", "RotateHoisted":
		op.K = rapid.IntRange(0, nrot-1).Draw(t, "k")
	}
	return op
}

func genProg(t *rapid.T) ProgCase {
	var c ProgCase
	c.Params = genParams(t)
	c.Seed = rapid.Uint64().Draw(t, "seed")
	lms := logMaxSlots(c.Params)
	slots := 1 << lms
	nrot := rapid.IntRange(1, 3).Draw(t, "nrot")
	for i := 0; i < nrot; i++ {
		switch rapid.IntRange(0, 3).Draw(t, fmt.Sprintf("rotc%d", i)) {
		case 0:
			c.Rots = append(c.Rots, 1)
		case 1:
			c.Rots = append(c.Rots, -rapid.IntRange(1, slots).Draw(t, fmt.Sprintf("rot%d", i)))
		default:
			c.Rots = append(c.Rots, rapid.IntRange(0, slots+1).Draw(t, fmt.Sprintf("rot%d", i)))
		}
	}
	// log2 slots shared by most inputs: full packing half of the time, else anything from 1 slot up
	shared := lms
	if rapid.Bool().Draw(t, "sparse") {
		shared = rapid.IntRange(0, lms).Draw(t, "logSlots")
	}
	nin := rapid.IntRange(1, 3).Draw(t, "nInputs")
	for i := 0; i < nin; i++ {
		var in InputSpec
		in.Seed = rapid.Uint64().Draw(t, fmt.Sprintf("inSeed%d", i))
		in.LogMag = rapid.IntRange(-2, 3).Draw(t, fmt.Sprintf("inMag%d", i))
		if rapid.IntRange(0, 3).Draw(t, fmt.Sprintf("inDropc%d", i)) == 0 {
			in.LevelDrop = rapid.IntRange(0, 3).Draw(t, fmt.Sprintf("inDrop%d", i))
		}
		if rapid.IntRange(0, 2).Draw(t, fmt.Sprintf("inScalec%d", i)) == 0 {
			in.ScaleMode = rapid.IntRange(0, 4).Draw(t, fmt.Sprintf("inScale%d", i))
		}
		in.LogSlots = shared
		if rapid.IntRange(0, 7).Draw(t, fmt.Sprintf("inSlotsc%d", i)) == 0 {
			in.LogSlots = rapid.IntRange(0, lms).Draw(t, fmt.Sprintf("inSlots%d", i))
		}
		in.PK = rapid.IntRange(0, 2).Draw(t, fmt.Sprintf("inPK%d", i)) == 0
		in.Pattern = 0
		if rapid.IntRange(0, 3).Draw(t, fmt.Sprintf("inPatc%d", i)) == 0 {
			in.Pattern = rapid.IntRange(0, 3).Draw(t, fmt.Sprintf("inPat%d", i))
		}
		c.Inputs = append(c.Inputs, in)
	}
	c.Indep = rapid.IntRange(0, 2).Draw(t, "indep") == 0
	nops := rapid.IntRange(1, 10).Draw(t, "nOps")
	for i := 0; i < nops; i++ {
		c.Ops = append(c.Ops, genOp(t, c.Params, nrot))
	}
	return c
}

var propProg = h.NewProp("TestPropProgram", h.Budget{Quick: 1800, Thorough: 11000}, genProg, runProg)

func TestPropProgram(t *testing.T) { propProg.Check(t) }
