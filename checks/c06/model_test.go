package c06

import (
	"fmt"
	"math"
	"math/big"
	"math/cmplx"

	"verif/internal/h"

	"github.com/tuneinsight/lattigo/v6/core/rlwe"
	"github.com/tuneinsight/lattigo/v6/ring"
	"github.com/tuneinsight/lattigo/v6/schemes/ckks"
)

const mprec = 320 // precision of the reference arithmetic

const minLogScale = 10 // operations whose output scale would fall below 2^10 are not generated

// cx is a complex number of the reference model.
type cx struct{ re, im *big.Float }

func bf() *big.Float { return new(big.Float).SetPrec(mprec) }

func cxF(re, im float64) cx { return cx{bf().SetFloat64(re), bf().SetFloat64(im)} }

func cxB(re, im *big.Float) cx { return cx{bf().Set(re), bf().Set(im)} }

func (a cx) add(b cx) cx { return cx{bf().Add(a.re, b.re), bf().Add(a.im, b.im)} }
func (a cx) sub(b cx) cx { return cx{bf().Sub(a.re, b.re), bf().Sub(a.im, b.im)} }
func (a cx) mul(b cx) cx {
	r := bf().Mul(a.re, b.re)
	r.Sub(r, bf().Mul(a.im, b.im))
	i := bf().Mul(a.re, b.im)
	i.Add(i, bf().Mul(a.im, b.re))
	return cx{r, i}
}
func (a cx) conj() cx { return cx{bf().Set(a.re), bf().Neg(a.im)} }
func (a cx) abs() float64 {
	r, _ := a.re.Float64()
	i, _ := a.im.Float64()
	return math.Hypot(r, i)
}
func (a cx) isZero() bool { return a.re.Sign() == 0 && a.im.Sign() == 0 }

func maxAbs(v []cx) float64 {
	m := 0.0
	for _, x := range v {
		if a := x.abs(); a > m {
			m = a
		}
	}
	return m * (1 + 1e-12)
}

// expand replicates a vector of 2^k slots to 2^logSlots slots (sparse packing embeds periodically).
func expand(v []cx, logSlots int) []cx {
	n := 1 << logSlots
	if len(v) == n {
		return v
	}
	out := make([]cx, n)
	for i := range out {
		out[i] = v[i%len(v)]
	}
	return out
}

// env is the per-case context: parameters, keys and the constants of the noise model.
type env struct {
	spec    h.CKKSSpec
	params  ckks.Parameters
	n       int
	lms     int // log2 of the maximum slot count
	nb      int // primes consumed per rescale
	q       []uint64
	logQ    []float64 // logQ[l] = log2(q_0...q_l)
	logP    float64
	prec    uint
	ecd     *ckks.Encoder
	eval    *ckks.Evaluator
	encr    *rlwe.Encryptor
	encrPk  *rlwe.Encryptor
	decr    *rlwe.Decryptor
	semb    float64 // max |s(zeta)| over all roots (canonical embedding of the secret)
	eFresh  float64 // bound on |embedding| of a fresh error polynomial
	rots    []int
	maxSeen float64 // largest slot magnitude encoded or decoded so far in this case
}

func ratFromFloat(f *big.Float) *big.Rat {
	r, _ := f.Rat(nil)
	return r
}

func ratF64(f float64) *big.Rat { return new(big.Rat).SetFloat64(f) }

func ratU64(u uint64) *big.Rat { return new(big.Rat).SetInt(new(big.Int).SetUint64(u)) }

func ratFloat(r *big.Rat) float64 {
	// big.Rat.Float64 handles large exponents (returns +Inf beyond float64 range, not reachable here)
	f, _ := r.Float64()
	return f
}

func ratLog2(r *big.Rat) float64 {
	f := new(big.Float).SetPrec(64).SetRat(r)
	mant := new(big.Float)
	exp := f.MantExp(mant)
	m, _ := mant.Float64()
	return float64(exp) + math.Log2(m)
}

// secretEmbedding returns max over all embeddings of |s(zeta)| computed from the secret's coefficients.
func secretEmbedding(params ckks.Parameters, sk *rlwe.SecretKey) float64 {
	r := params.RingQ().AtLevel(0)
	p := r.NewPoly()
	r.INTT(sk.Value.Q, p)
	r.IMForm(p, p)
	q := r.SubRings[0].Modulus
	n := params.N()
	coef := make([]float64, n)
	for i := 0; i < n; i++ {
		c := p.Coeffs[0][i]
		if c > q/2 {
			coef[i] = -float64(q - c)
		} else {
			coef[i] = float64(c)
		}
	}
	best := 0.0
	if params.RingType() == ring.ConjugateInvariant {
		// element c_0 + sum_j c_j (X^j + X^-j) of Z[X]/(X^2N+1), evaluated at the primitive 4N-th roots
		for k := 1; k < 4*n; k += 2 {
			v := coef[0]
			for j := 1; j < n; j++ {
				v += 2 * coef[j] * math.Cos(math.Pi*float64(j)*float64(k)/float64(2*n))
			}
			if math.Abs(v) > best {
				best = math.Abs(v)
			}
		}
		return best * (1 + 1e-9)
	}
	for k := 1; k < 2*n; k += 2 {
		var re, im float64
		for j := 0; j < n; j++ {
			a := math.Pi * float64(j) * float64(k) / float64(n)
			re += coef[j] * math.Cos(a)
			im += coef[j] * math.Sin(a)
		}
		if v := math.Hypot(re, im); v > best {
			best = v
		}
	}
	return best * (1 + 1e-9)
}

// embHard bounds |p(zeta)| for a polynomial with coefficients bounded by b (factor 2 covers the conjugate-invariant
// basis X^j+X^-j and leaves a margin of 2 in the standard ring).
func (e *env) embHard(b float64) float64 { return 2 * float64(e.n) * b }

// embGauss bounds |p(zeta)| for a polynomial with independent (truncated) Gaussian coefficients: 9 sigma on each
// real component (failure probability < 2^-57 per component), never above the hard bound.
func (e *env) embGauss() float64 {
	sigma, bound := e.spec.Xe.Sigma, e.spec.Xe.AbsBound()
	return math.Min(e.embHard(bound+1), 18*(sigma+1)*math.Sqrt(float64(e.n)))
}

// fp is the floating point error of one encode or decode for slot values bounded by m.
func (e *env) fp(m float64) float64 { return m * math.Exp2(-float64(e.prec)+10) }

// epsFresh: encoding rounding + encryption noise, in slot units.
func (e *env) epsFresh(scale *big.Rat, m float64) float64 {
	return (e.eFresh+e.embHard(1))/ratFloat(scale) + e.fp(m)
}

// epsFreshPK: public-key encryption. With the auxiliary modulus the encryption of zero is (u*pk + e)/p_0 (one special
// prime): noise (u*e_pk + e_0 + e_1*s)/p_0 plus the rounding of the division; without it the noise is not divided.
func (e *env) epsFreshPK(scale *big.Rat, m float64) float64 {
	g := e.embGauss()
	noise := e.embHard(1)*g + g*(1+e.semb) // |u(zeta)| <= 2N for the ternary u
	if len(e.spec.P) > 0 {
		noise = noise/float64(e.spec.P[0]) + e.embHard(3)*(1+e.semb)
	}
	return (2*noise+e.embHard(1))/ratFloat(scale) + e.fp(m)
}

// epsEncode: error of an encoded plaintext (rounding + floating point).
func (e *env) epsEncode(scale *big.Rat, m float64) float64 {
	return e.embHard(1)/ratFloat(scale) + e.fp(m)
}

// rescaleNoise: rounding of every component by the dropped prime(s), in integer units of the new scale.
func (e *env) rescaleNoise(deg, primes int) float64 {
	s := 1 + e.semb
	if deg >= 2 {
		s += e.semb * e.semb
	}
	return float64(primes) * e.embHard(1) * s
}

// ksNoise bounds the embedding of the noise added by one gadget product + division by P at the given level.
func (e *env) ksNoise(level int) float64 {
	alpha := len(e.spec.P)
	sum := 0.0
	for i := 0; i <= level; i += alpha {
		lg := 0.0
		for j := i; j < i+alpha && j <= level; j++ {
			lg += math.Log2(float64(e.q[j]))
		}
		sum += math.Exp2(lg-e.logP) * float64(alpha+1)
	}
	return 2 * (e.embHard(1)*sum*e.embGauss() + e.embHard(float64(alpha+2))*(1+e.semb))
}

// fits reports whether a message bounded by m (+eps) at the given scale is far inside the modulus of the level.
func (e *env) fits(m, eps float64, scale *big.Rat, level int) bool {
	if level < 0 || level >= len(e.logQ) {
		return false
	}
	v := m + eps
	if v < 0.125 {
		v = 0.125 // the scale itself must stay well below the modulus
	}
	ls := ratLog2(scale)
	if ls < minLogScale {
		return false // a scale of a few bits carries no message (and is outside what the encoder is meant for)
	}
	return math.Log2(v)+ls+4 < e.logQ[level]
}

func cmplxAbs(z complex128) float64 { return cmplx.Abs(z) }

// referenceDecode is an independent decoder: the decrypted polynomial is taken out of the NTT domain, its coefficients
// are reconstructed by the Chinese remainder theorem in math/big, centred, and the polynomial in Y = X^(N/n') is evaluated
// at the roots zeta^(5^j) of the canonical embedding in complex128 (real ring: c_0 + sum_k c_k 2cos(.)), then divided by
// the recorded scale. Shares nothing with Encoder.Decode but the ring's inverse NTT.
func (e *env) referenceDecode(pt *rlwe.Plaintext, logSlots int) ([]complex128, error) {
	level := pt.Level()
	rq := e.params.RingQ().AtLevel(level)
	p := rq.NewPoly()
	if pt.IsNTT {
		rq.INTT(pt.Value, p)
	} else {
		p.CopyLvl(level, pt.Value)
	}
	n := 1 << logSlots
	N := e.n
	ci := e.spec.CI
	terms := 2 * n // coefficients of the sub-ring polynomial
	if ci {
		terms = n
	}
	gap := N / terms
	if gap < 1 {
		return nil, fmt.Errorf("slot count %d too large for N=%d", n, N)
	}
	// CRT reconstruction
	Q := big.NewInt(1)
	for i := 0; i <= level; i++ {
		Q.Mul(Q, new(big.Int).SetUint64(e.q[i]))
	}
	half := new(big.Int).Rsh(Q, 1)
	basis := make([]*big.Int, level+1)
	for i := 0; i <= level; i++ {
		qi := new(big.Int).SetUint64(e.q[i])
		qh := new(big.Int).Quo(Q, qi)
		inv := new(big.Int).ModInverse(new(big.Int).Mod(qh, qi), qi)
		basis[i] = qh.Mul(qh, inv)
	}
	scale, _ := pt.Scale.Value.Float64()
	coef := make([]float64, terms)
	for k := 0; k < terms; k++ {
		x := new(big.Int)
		for i := 0; i <= level; i++ {
			x.Add(x, new(big.Int).Mul(basis[i], new(big.Int).SetUint64(p.Coeffs[i][k*gap])))
		}
		x.Mod(x, Q)
		if x.Cmp(half) > 0 {
			x.Sub(x, Q)
		}
		f, _ := new(big.Float).SetInt(x).Float64()
		coef[k] = f / scale
	}
	m := 4 * n // order of the root of unity of the sub-ring
	out := make([]complex128, n)
	five := 1
	for j := 0; j < n; j++ {
		var re, im float64
		if ci {
			re = coef[0]
			for k := 1; k < terms; k++ {
				re += coef[k] * 2 * math.Cos(2*math.Pi*float64((five*k)%m)/float64(m))
			}
		} else {
			for k := 0; k < terms; k++ {
				a := 2 * math.Pi * float64((five*k)%m) / float64(m)
				re += coef[k] * math.Cos(a)
				im += coef[k] * math.Sin(a)
			}
		}
		out[j] = complex(re, im)
		five = (five * 5) % m
	}
	return out, nil
}
