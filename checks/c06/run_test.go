package c06

import (
	"fmt"
	"math"
	"math/big"
	"sort"
	"strings"

	"verif/internal/h"

	"github.com/tuneinsight/lattigo/v6/core/rlwe"
	"github.com/tuneinsight/lattigo/v6/ring"
	"github.com/tuneinsight/lattigo/v6/schemes/ckks"
	"github.com/tuneinsight/lattigo/v6/utils/bignum"
)

// reg is one register: the ciphertext and its model (ideal slot values, error bound, exact expected metadata).
type reg struct {
	ct       *rlwe.Ciphertext
	plain    *rlwe.Plaintext // set instead of ct for a plaintext operand
	vals     []cx
	logSlots int
	eps      float64
	scale    *big.Rat
	level    int
	deg      int
	exact    bool // the recorded scale equals the model's rational scale bit for bit
	prod     bool // derived from a product that has not been rescaled yet
	resc     bool // a rescale was applied after a product
}

func (r *reg) m() float64 { return maxAbs(r.vals) }

const maxRegs = 8

func setup(c ProgCase) (*env, *rlwe.SecretKey, error) {
	params, err := c.Params.Build()
	if err != nil {
		return nil, nil, fmt.Errorf("parameters rejected: %w", err)
	}
	e := &env{spec: c.Params, params: params, n: params.N(), lms: params.LogMaxSlots(), nb: params.LevelsConsumedPerRescaling()}
	e.q = params.Q()
	acc := 0.0
	for _, q := range e.q {
		acc += math.Log2(float64(q))
		e.logQ = append(e.logQ, acc)
	}
	for _, p := range params.P() {
		e.logP += math.Log2(float64(p))
	}
	e.prec = params.EncodingPrecision()
	kgen := rlwe.NewKeyGenerator(params)
	sk := kgen.GenSecretKeyNew()
	rlk := kgen.GenRelinearizationKeyNew(sk)
	galSet := map[uint64]bool{}
	for _, k := range c.Rots {
		galSet[params.GaloisElement(k)] = true
	}
	if !c.Params.CI {
		galSet[params.GaloisElementOrderTwoOrthogonalSubgroup()] = true // not defined (panics) in the conjugate-invariant ring
	}
	var gals []uint64
	for g := range galSet {
		gals = append(gals, g)
	}
	sort.Slice(gals, func(i, j int) bool { return gals[i] < gals[j] })
	gks := kgen.GenGaloisKeysNew(gals, sk)
	evk := rlwe.NewMemEvaluationKeySet(rlk, gks...)
	e.eval = ckks.NewEvaluator(params, evk)
	e.ecd = ckks.NewEncoder(params)
	e.encr = rlwe.NewEncryptor(params, sk)
	e.encrPk = rlwe.NewEncryptor(params, kgen.GenPublicKeyNew(sk))
	e.decr = rlwe.NewDecryptor(params, sk)
	e.semb = secretEmbedding(params, sk)
	e.eFresh = e.embGauss()
	e.rots = c.Rots
	return e, sk, nil
}

// boxValues expands a seed into slot values with real and imaginary parts in [-2^logMag, 2^logMag].
func boxValues(seed uint64, logMag, n int, pattern int, real bool) [][2]float64 {
	rng := h.NewSplitMix(seed)
	b := math.Exp2(float64(logMag))
	u := func() float64 { return (2*rng.Float64() - 1) * b }
	out := make([][2]float64, n)
	switch pattern {
	case 1:
		x, y := u(), u()
		for i := range out {
			out[i] = [2]float64{x, y}
		}
	case 2:
		for i := range out {
			x, y := b, b
			if rng.Intn(2) == 0 {
				x = -b
			}
			if rng.Intn(2) == 0 {
				y = -b
			}
			out[i] = [2]float64{x, y}
		}
	case 3:
		out[rng.Intn(n)] = [2]float64{u(), u()}
	default:
		for i := range out {
			out[i] = [2]float64{u(), u()}
		}
	}
	if real {
		for i := range out {
			out[i][1] = 0
		}
	}
	return out
}

func toCx(v [][2]float64) []cx {
	out := make([]cx, len(v))
	for i := range v {
		out[i] = cxF(v[i][0], v[i][1])
	}
	return out
}

func toBigComplex(v [][2]float64) []*bignum.Complex {
	out := make([]*bignum.Complex, len(v))
	for i := range v {
		out[i] = &bignum.Complex{new(big.Float).SetPrec(mprec).SetFloat64(v[i][0]), new(big.Float).SetPrec(mprec).SetFloat64(v[i][1])}
	}
	return out
}

func (e *env) defaultScaleRat() *big.Rat {
	return new(big.Rat).SetInt(new(big.Int).Lsh(big.NewInt(1), uint(e.spec.LogScale)))
}

func scaleFromRat(r *big.Rat) rlwe.Scale {
	f := new(big.Float).SetPrec(rlwe.ScalePrecision).SetRat(r)
	return rlwe.NewScale(f)
}

// consumed returns the product of the primes one rescale (or one non-integer constant multiplication) uses at level.
func (e *env) consumed(level int) *big.Rat {
	r := new(big.Rat).SetInt64(1)
	for i := 0; i < e.nb; i++ {
		r.Mul(r, ratU64(e.q[level-i]))
	}
	return r
}

func (e *env) newInput(in InputSpec) (*reg, error) {
	ls := in.LogSlots
	if ls > e.lms {
		ls = e.lms
	}
	if ls < 0 {
		ls = 0
	}
	sc := e.defaultScaleRat()
	switch in.ScaleMode {
	case 1:
		sc.Mul(sc, ratF64(3))
	case 2:
		sc.Mul(sc, ratF64(1.3125))
	case 3:
		sc.Mul(sc, ratF64(0.5))
	case 4:
		sc.Mul(sc, ratF64(1+1.0/(1<<20)))
	}
	maxL := e.params.MaxLevel()
	for mag := in.LogMag; mag >= -8; mag-- {
		raw := boxValues(in.Seed, mag, 1<<ls, in.Pattern, e.spec.CI)
		vals := toCx(raw)
		m := maxAbs(vals)
		if m > e.maxSeen {
			e.maxSeen = m
		}
		eps := e.epsFresh(sc, m)
		if in.PK {
			eps = e.epsFreshPK(sc, m)
		}
		lvl := maxL - in.LevelDrop
		if lvl < 0 {
			lvl = 0
		}
		for lvl <= maxL && !e.fits(m, eps, sc, lvl) {
			lvl++
		}
		if lvl > maxL {
			continue
		}
		pt := ckks.NewPlaintext(e.params, lvl)
		pt.Scale = scaleFromRat(sc)
		pt.LogDimensions = ring.Dimensions{Rows: 0, Cols: ls}
		if err := e.ecd.Encode(toBigComplex(raw), pt); err != nil {
			return nil, h.Failf("C06:setup:encode", "Encode: %v", err)
		}
		encr := e.encr
		if in.PK {
			encr = e.encrPk
		}
		ct, err := encr.EncryptNew(pt)
		if err != nil {
			return nil, h.Failf("C06:setup:encrypt", "EncryptNew: %v", err)
		}
		return &reg{ct: ct, vals: vals, logSlots: ls, eps: eps, scale: sc, level: lvl, deg: 1, exact: ratFromFloat(&ct.Scale.Value).Cmp(sc) == 0}, nil
	}
	return nil, nil
}

// scalarValue returns the exact value of the scalar operand and the Go value handed to lattigo.
func scalarValue(op Op, prec uint) (val cx, arg rlwe.Operand, isInt bool) {
	re := bf().SetFloat64(op.Re)
	im := bf().SetFloat64(op.Im)
	switch op.Operand {
	case "complex128":
		arg = complex(op.Re, op.Im)
	case "float64":
		arg = op.Re
		im.SetFloat64(0)
	case "int":
		arg = int(op.Re)
		im.SetFloat64(0)
	case "int64":
		arg = int64(op.Re)
		im.SetFloat64(0)
	case "uint":
		arg = uint(op.Re)
		im.SetFloat64(0)
	case "uint64":
		arg = uint64(op.Re)
		im.SetFloat64(0)
	case "bigint":
		arg = new(big.Int).SetInt64(int64(op.Re))
		im.SetFloat64(0)
	case "bigfloat":
		lo := bf().SetFloat64(op.Lo)
		lo.SetMantExp(lo, -60)
		re.Add(re, lo)
		arg = new(big.Float).SetPrec(mprec).Set(re)
		im.SetFloat64(0)
	case "bigcomplex":
		lo := bf().SetFloat64(op.Lo)
		lo.SetMantExp(lo, -60)
		re.Add(re, lo)
		arg = &bignum.Complex{new(big.Float).SetPrec(mprec).Set(re), new(big.Float).SetPrec(mprec).Set(im)}
	}
	// lattigo takes constants at the encoding precision; "Gaussian integer" is decided on that value
	rr := new(big.Float).SetPrec(prec).Set(re)
	ri := new(big.Float).SetPrec(prec).Set(im)
	isInt = rr.IsInt() && ri.IsInt()
	return cx{re, im}, arg, isInt
}

// vectorOperand builds a vector operand of the requested Go type and its ideal slot values.
func (e *env) vectorOperand(op Op, logSlots int) (vals []cx, arg any, m float64) {
	n := 1 << logSlots
	ln := n - op.VShort
	if ln < 1 {
		ln = 1
	}
	realOnly := op.Operand == "vfloat64" || op.Operand == "vbigfloat"
	raw := boxValues(op.VSeed, op.VLogMag, ln, 0, realOnly)
	switch op.Operand {
	case "vcomplex128":
		a := make([]complex128, ln)
		for i := range a {
			a[i] = complex(raw[i][0], raw[i][1])
		}
		arg = a
	case "vfloat64":
		a := make([]float64, ln)
		for i := range a {
			a[i] = raw[i][0]
		}
		arg = a
	case "vbigfloat":
		a := make([]*big.Float, ln)
		for i := range a {
			a[i] = new(big.Float).SetPrec(mprec).SetFloat64(raw[i][0])
		}
		arg = a
	default:
		arg = toBigComplex(raw)
	}
	vals = make([]cx, n)
	for i := range vals {
		if i < ln {
			if e.spec.CI {
				vals[i] = cxF(raw[i][0], 0) // documented: the imaginary part is discarded in the conjugate-invariant ring
			} else {
				vals[i] = cxF(raw[i][0], raw[i][1])
			}
		} else {
			vals[i] = cxF(0, 0)
		}
	}
	m = maxAbs(vals)
	if m > e.maxSeen {
		e.maxSeen = m
	}
	return vals, arg, m
}

type runner struct {
	e        *env
	rec      *h.Rec
	regs     []*reg
	executed []string
	skipped  int
	nondisc  bool
	last     int  // register written by the last executed step
	inExact  bool // all scale-carrying inputs of the current step have bit-exact recorded scales
	indep    bool // also decode with the independent reference decoder in this case
	flags    map[string]bool
}

func ratCmpTol(a, b *big.Rat, log2tol int) bool {
	// |a-b| <= 2^-log2tol * b
	d := new(big.Rat).Sub(a, b)
	d.Abs(d)
	t := new(big.Rat).SetFrac(big.NewInt(1), new(big.Int).Lsh(big.NewInt(1), uint(log2tol)))
	t.Mul(t, new(big.Rat).Abs(b))
	return d.Cmp(t) <= 0
}

// verify checks the metadata of an output against the model and its decryption against the ideal values.
func (r *runner) verify(key string, out *rlwe.Ciphertext, exp *reg, scaleDocumented bool) error {
	e := r.e
	if out == nil || out.MetaData == nil {
		return h.Failf(key+":nil-output", "output or its metadata is nil")
	}
	if out.Level() != exp.level {
		return h.Failf(key+":level", "level %d, documented %d", out.Level(), exp.level)
	}
	if out.Degree() != exp.deg {
		return h.Failf(key+":degree", "degree %d, expected %d", out.Degree(), exp.deg)
	}
	if !out.IsNTT || !out.IsBatched {
		return h.Failf(key+":flags", "IsNTT=%v IsBatched=%v, expected true/true", out.IsNTT, out.IsBatched)
	}
	if out.LogDimensions.Cols != exp.logSlots || out.LogDimensions.Rows != 0 {
		return h.Failf(key+":logdimensions", "LogDimensions %+v, expected {0 %d}", out.LogDimensions, exp.logSlots)
	}
	got := ratFromFloat(&out.Scale.Value)
	scaleOK := got.Sign() > 0 && ratCmpTol(got, exp.scale, 110)
	exactNow := got.Cmp(exp.scale) == 0
	if scaleDocumented && scaleOK && !exactNow && r.inExact {
		// every input scale was exact: where the documented formula is representable in the 128-bit scale, it must be hit exactly
		if f := new(big.Float).SetPrec(rlwe.ScalePrecision).SetRat(exp.scale); f.Acc() == big.Exact && f.Sign() > 0 {
			return h.Failf(key+":scale-not-exact", "recorded scale %s differs from the exactly representable documented value %s", out.Scale.Value.Text('p', 0), f.Text('p', 0))
		}
	}
	if scaleDocumented && exactNow {
		r.rec.Class("scale=bit-exact")
	}
	if scaleDocumented && !scaleOK {
		return h.Failf(key+":scale", "recorded scale %s (2^%.6f), documented %s (2^%.6f)", out.Scale.Value.Text('g', 25), ratLog2Safe(got), new(big.Float).SetRat(exp.scale).Text('g', 25), ratLog2(exp.scale))
	}
	// decrypt and decode with the recorded metadata, no correction
	pt := e.decr.DecryptNew(out)
	n := 1 << exp.logSlots
	dec := make([]*bignum.Complex, n)
	if err := e.ecd.Decode(pt, dec); err != nil {
		return h.Failf(key+":decode-error", "Decode: %v", err)
	}
	mw := maxAbs(exp.vals)
	// 4x the modelled bound + floating point error of the decoder + one unit of the fixed-point representation
	if mw > e.maxSeen {
		e.maxSeen = mw
	}
	tol := 4*exp.eps + e.fp(mw+exp.eps) + 4/ratFloat(exp.scale)
	worst, wi := 0.0, -1
	for i := 0; i < n; i++ {
		d := cxB(dec[i][0], dec[i][1]).sub(exp.vals[i]).abs()
		if d > worst || math.IsNaN(d) {
			worst, wi = d, i
			if math.IsNaN(d) {
				break
			}
		}
	}
	if !(worst <= tol) {
		suffix := ":value"
		if !scaleOK {
			suffix = ":recorded-scale"
		}
		w := exp.vals[wi]
		return h.Failf(key+suffix, "slot %d: got (%s,%s) want (%s,%s) |diff|=%.3g > tol %.3g (eps %.3g, max|want| %.3g); recorded scale 2^%.6f, expected 2^%.6f; level %d degree %d",
			wi, dec[wi][0].Text('g', 12), dec[wi][1].Text('g', 12), w.re.Text('g', 12), w.im.Text('g', 12), worst, tol, exp.eps, mw, ratLog2Safe(got), ratLog2(exp.scale), out.Level(), out.Degree())
	}
	if !scaleOK {
		// Add/Sub document no output scale: the recorded one decodes correctly, adopt it
		exp.scale = got
	}
	exp.exact = got.Cmp(exp.scale) == 0
	if r.indep && exp.logSlots <= 6 {
		ref, err := e.referenceDecode(pt, exp.logSlots)
		if err != nil {
			return h.Failf("C06:harness:reference-decoder", "%v", err)
		}
		tolRef := tol + (mw+exp.eps)*math.Exp2(-36)
		for i := 0; i < n; i++ {
			wr, _ := exp.vals[i].re.Float64()
			wim, _ := exp.vals[i].im.Float64()
			if d := cmplxAbs(ref[i] - complex(wr, wim)); !(d <= tolRef) {
				return h.Failf(key+":reference-decoder", "slot %d: independent decoding of the decrypted polynomial gives %v, want (%g,%g), |diff|=%.3g > %.3g although Encoder.Decode was within tolerance", i, ref[i], wr, wim, d, tolRef)
			}
		}
		r.rec.Class("reference-decoder-used")
	}
	if tol > math.Max(mw, 1)/8 {
		r.nondisc = true
	}
	return nil
}

func ratLog2Safe(r *big.Rat) float64 {
	if r.Sign() <= 0 {
		return math.NaN()
	}
	return ratLog2(r)
}

// place stores the model of an output register according to the output mode.
func (r *runner) place(op Op, mode string, ia int, io int, exp *reg) {
	switch mode {
	case "inplace":
		r.regs[ia] = exp
		r.last = ia
	case "reg":
		r.regs[io] = exp
		r.last = io
	default:
		if len(r.regs) < maxRegs {
			r.regs = append(r.regs, exp)
			r.last = len(r.regs) - 1
		} else {
			r.last = op.Out % len(r.regs)
			r.regs[r.last] = exp
		}
	}
}

func (r *runner) skip(why string) {
	r.skipped++
	r.rec.Class("skip=" + why)
}

func rotate(v []cx, k int) []cx {
	n := len(v)
	out := make([]cx, n)
	for i := range out {
		out[i] = v[(((i+k)%n)+n)%n]
	}
	return out
}

const truncKey = "C06:scale-ratio:truncated-below-integer"

// nearInteger returns the integer k closest to ratio and whether ratio is within a relative 2^-100 of it.
func nearInteger(ratio *big.Rat) (*big.Int, bool) {
	x := new(big.Rat).Add(ratio, big.NewRat(1, 2))
	k := new(big.Int).Quo(x.Num(), x.Denom())
	d := new(big.Rat).Sub(ratio, new(big.Rat).SetInt(k))
	d.Abs(d)
	w := new(big.Rat).SetFrac(big.NewInt(1), new(big.Int).Lsh(big.NewInt(1), 100))
	return k, d.Cmp(w.Mul(w, ratio)) <= 0
}

// truncationSuspect reports the input class of the listed finding: the exact scale ratio is an integer k, but the
// quotient of the recorded 128-bit scales falls just below k, so that truncating it gives k-1.
func truncationSuspect(ratio *big.Rat, num, den rlwe.Scale) bool {
	k, isInt := nearInteger(ratio)
	if !isInt || k.Sign() <= 0 {
		return false
	}
	q := num.Div(den)
	qi, _ := q.Value.Int(nil)
	return qi.Cmp(k) != 0
}

// alignErr is the relative error of bringing a value from scale small to scale big by an integer factor: the integer
// closest to the ratio, which is what the evaluator multiplies by (window of 2^-100 for the rounding of the recorded
// 128-bit scales and for ties); with floorToo the truncated ratio is accepted as well (finding listed as known).
func alignErr(big_, small *big.Rat, floorToo bool) float64 {
	ratio := new(big.Rat).Quo(big_, small)
	w := new(big.Rat).SetFrac(big.NewInt(1), new(big.Int).Lsh(big.NewInt(1), 100))
	worst := 0.0
	offs := []*big.Rat{big.NewRat(1, 2)}
	if floorToo {
		offs = append(offs, new(big.Rat))
	}
	for _, off := range offs {
		for _, sg := range []int64{-1, 1} {
			x := new(big.Rat).Mul(ratio, new(big.Rat).Add(new(big.Rat).SetInt64(1), new(big.Rat).Mul(w, new(big.Rat).SetInt64(sg))))
			x.Add(x, off)
			k := new(big.Int).Quo(x.Num(), x.Denom())
			rel := new(big.Rat).Quo(new(big.Rat).SetInt(k), ratio)
			rel.Sub(new(big.Rat).SetInt64(1), rel)
			rel.Abs(rel)
			if f := ratFloat(rel); f > worst {
				worst = f
			}
		}
	}
	return worst
}

func runProg(c ProgCase, rec *h.Rec) error {
	if len(c.Inputs) == 0 || len(c.Rots) == 0 {
		return nil
	}
	e, _, err := setup(c)
	if err != nil {
		return h.Failf("C06:setup:parameters", "%v", err)
	}
	r := &runner{e: e, rec: rec, flags: map[string]bool{}, last: -1, indep: c.Indep}
	ringName := "std"
	if c.Params.CI {
		ringName = "ci"
	}
	precName := "prec64"
	if e.nb == 2 {
		precName = "prec128"
		r.flags["prec128"] = true
	}
	rec.Class("ring=" + ringName)
	rec.Class("mode=" + precName)
	rec.Classf("logN=%d", c.Params.LogN)
	rec.Classf("logScale/10=%d", c.Params.LogScale/10)
	rec.Classf("maxLevel=%d", e.params.MaxLevel())
	for _, in := range c.Inputs {
		if in.LogSlots <= 0 && c.Params.CI {
			// one slot in the conjugate-invariant ring: listed finding, excluded by construction (the n=1 NTT reads past its
			// one-element slice, so whether the encoding comes out right depends on neighbouring memory); lifted to two slots
			if rec.Known("C06:encode:ci-one-slot", "input with one slot in the conjugate-invariant ring lifted to two slots") {
				rec.Class("known=C06:encode:ci-one-slot")
				in.LogSlots = 1
			}
		}
		x, err := e.newInput(in)
		if err != nil {
			return err
		}
		if x == nil {
			rec.Class("skip=input-does-not-fit")
			continue
		}
		if in.PK {
			rec.Class("input=public-key")
		}
		if x.logSlots < e.lms {
			r.flags["sparse"] = true
			if x.logSlots == 0 {
				rec.Class("slots=1")
			}
		}
		if err := r.verify("C06:fresh", x.ct, x, true); err != nil {
			return err
		}
		r.regs = append(r.regs, x)
	}
	if len(r.regs) == 0 {
		return nil
	}
	for i, op := range c.Ops {
		if err := r.step(op); err != nil {
			if f, ok := err.(*h.Failure); ok {
				f.Msg = fmt.Sprintf("step %d (%s %s %s): %s", i, op.Kind, op.Operand, op.OutMode, f.Msg)
			}
			return err
		}
	}
	rec.Classf("executed=%d", len(r.executed))
	if r.flags["sparse"] {
		rec.Class("sparse")
	}
	if r.nondisc {
		rec.Class("non-discriminating-tolerance")
	}
	var why []string
	for _, k := range []string{"rescale-after-product", "unequal-scale-add", "sparse", "prec128", "non-float64-scalar"} {
		if r.flags[k] {
			why = append(why, k)
		}
	}
	if len(r.executed) > 0 && len(why) > 0 && !r.nondisc && (len(r.executed) >= 3 || !r.flags["rescale-after-product"] || len(why) > 1) {
		rec.NonTrivial(fmt.Sprintf("%s/%s/logN=%d/%s/%s", ringName, precName, c.Params.LogN, strings.Join(why, "+"), strings.Join(r.executed, ",")))
	}
	return nil
}

// known routes a listed finding: counts it and tells the caller to repair the state and continue.
func (r *runner) known(err error) bool {
	f, ok := err.(*h.Failure)
	if !ok {
		return false
	}
	if r.rec.Known(f.Key, f.Msg) {
		r.rec.Class("known=" + f.Key)
		return true
	}
	return false
}

func (r *runner) step(op Op) error {
	e := r.e
	ia := op.A % len(r.regs)
	if op.APrev && r.last >= 0 && r.last < len(r.regs) {
		ia = r.last
	}
	a := r.regs[ia]
	r.inExact = a.exact
	snapA := a.ct.CopyNew()
	var bCt, snapB *rlwe.Ciphertext
	suspectTrunc := false // the step is in the input class of the listed scale-ratio truncation finding
	useB := func(b *reg) {
		r.inExact = r.inExact && b.exact
		if b.ct != nil {
			bCt, snapB = b.ct, b.ct.CopyNew()
		}
	}
	maxL := e.params.MaxLevel()
	mode := op.OutMode
	io := op.Out % len(r.regs)
	cls := operandClass(op.Operand)
	key := "C06:" + op.Kind
	if cls != "" {
		key += ":" + cls
		if cls == "scalar" {
			key += "-" + op.Operand
		}
	}

	if op.Operand == "uint" {
		// `uint` is listed among the accepted scalar types; probe on a copy so that a panic leaves the registers intact
		if perr := r.probeUint(op, a); perr != nil {
			if r.known(perr) {
				return nil
			}
			return perr
		}
	}

	// resolve the output register for the modes that write into an existing or freshly allocated ciphertext
	var outCt *rlwe.Ciphertext
	outLevel := maxL // level of the receiving ciphertext (maxL = no constraint)
	outDeg := -1
	prepOut := func(naturalDeg int, forbid ...int) {
		switch mode {
		case "reg":
			ok := len(r.regs) > 1 && io != ia
			for _, f := range forbid {
				if io == f {
					ok = false
				}
			}
			if !ok {
				mode = "fresh"
				prepOutFresh(e, op, naturalDeg, &outCt, &outLevel, &outDeg)
				return
			}
			outCt, outLevel, outDeg = r.regs[io].ct, r.regs[io].level, r.regs[io].deg
		case "fresh":
			prepOutFresh(e, op, naturalDeg, &outCt, &outLevel, &outDeg)
		case "inplace":
			outCt, outLevel, outDeg = a.ct, a.level, a.deg
		}
	}
	minI := func(x ...int) int {
		m := x[0]
		for _, v := range x[1:] {
			if v < m {
				m = v
			}
		}
		return m
	}
	maxI := func(x ...int) int {
		m := x[0]
		for _, v := range x[1:] {
			if v > m {
				m = v
			}
		}
		return m
	}
	finish := func(exp *reg, out *rlwe.Ciphertext, err error, documented bool) error {
		k := key + ":" + mode
		if err != nil {
			return h.Failf(k+":unexpected-error", "%v", err)
		}
		exp.ct = out
		if out != a.ct && !a.ct.Equal(snapA) {
			return h.Failf(k+":op0-modified", "the call changed op0 although the receiver is a different ciphertext")
		}
		if bCt != nil && out != bCt && !bCt.Equal(snapB) {
			return h.Failf(k+":op1-modified", "the call changed op1 although the receiver is a different ciphertext")
		}
		if verr := r.verify(k, out, exp, documented); verr != nil {
			if f, ok := verr.(*h.Failure); ok && suspectTrunc && strings.HasSuffix(f.Key, ":value") {
				f.Key = truncKey
			}
			return verr
		}
		if suspectTrunc {
			r.rec.Class("scale-ratio=quotient-below-integer")
		}
		if outDeg > exp.deg {
			r.rec.Class("receiver=larger-degree")
		}
		if mode == "reg" {
			r.rec.Class("receiver=register-with-history:" + op.Kind)
		}
		r.place(op, mode, ia, io, exp)
		r.executed = append(r.executed, op.Kind+":"+cls)
		r.rec.Class("op=" + op.Kind + ":" + cls)
		r.rec.Class("out=" + mode)
		if exp.resc {
			r.flags["rescale-after-product"] = true
		}
		return nil
	}

	switch op.Kind {
	case "Add", "Sub":
		sub := op.Kind == "Sub"
		comb := func(x, y cx) cx {
			if sub {
				return x.sub(y)
			}
			return x.add(y)
		}
		switch cls {
		case "ct", "pt":
			var b *reg
			ib := -1
			if cls == "ct" {
				ib = op.B % len(r.regs)
				b = r.regs[ib]
			} else {
				b = r.makePlain(op, a, a.level)
				if b == nil {
					r.skip("pt-does-not-fit")
					return nil
				}
			}
			useB(b)
			nat := maxI(a.deg, b.deg)
			if mode == "new" {
				outLevel = a.level
			} else {
				prepOut(nat, ib)
			}
			lvl := minI(a.level, b.level, outLevel)
			ls := maxI(a.logSlots, b.logSlots)
			av, bv := expand(a.vals, ls), expand(b.vals, ls)
			// a receiver of larger degree keeps its degree, the terms above the operands' degree are zeroed
			exp := &reg{logSlots: ls, level: lvl, deg: maxI(nat, outDeg), prod: a.prod || b.prod}
			exp.vals = make([]cx, len(av))
			for i := range av {
				exp.vals[i] = comb(av[i], bv[i])
			}
			exp.eps = a.eps + b.eps
			bRec := a.ct.Scale
			if b.ct != nil {
				bRec = b.ct.Scale
			} else if b.plain != nil {
				bRec = b.plain.Scale
			}
			floorToo := false
			switch a.scale.Cmp(b.scale) {
			case 1:
				if truncationSuspect(new(big.Rat).Quo(a.scale, b.scale), a.ct.Scale, bRec) {
					suspectTrunc = true
					floorToo = r.rec.Known(truncKey, "Add/Sub scale matching")
				}
				exp.scale = a.scale
				exp.eps += maxAbs(bv) * alignErr(a.scale, b.scale, floorToo)
				r.flags["unequal-scale-add"] = true
			case -1:
				if truncationSuspect(new(big.Rat).Quo(b.scale, a.scale), bRec, a.ct.Scale) {
					suspectTrunc = true
					floorToo = r.rec.Known(truncKey, "Add/Sub scale matching")
				}
				exp.scale = b.scale
				exp.eps += maxAbs(av) * alignErr(b.scale, a.scale, floorToo)
				r.flags["unequal-scale-add"] = true
			default:
				exp.scale = a.scale
			}
			if a.scale.Cmp(b.scale) != 0 {
				r.rec.Class("add-unequal-scales")
			}
			if !e.fits(maxAbs(exp.vals)+maxAbs(av)+maxAbs(bv), exp.eps, exp.scale, lvl) {
				r.skip("overflow")
				return nil
			}
			var out *rlwe.Ciphertext
			var err error
			var operand rlwe.Operand = b.ct
			if cls == "pt" {
				operand = b.pt()
			}
			if mode == "new" {
				if sub {
					out, err = e.eval.SubNew(a.ct, operand)
				} else {
					out, err = e.eval.AddNew(a.ct, operand)
				}
			} else {
				out = outCt
				if sub {
					err = e.eval.Sub(a.ct, operand, out)
				} else {
					err = e.eval.Add(a.ct, operand, out)
				}
			}
			return finish(exp, out, err, false)
		case "scalar":
			val, arg, _ := scalarValue(op, e.prec)
			if mode == "new" {
				outLevel = a.level
			} else {
				prepOut(a.deg)
			}
			lvl := minI(a.level, outLevel)
			exp := &reg{logSlots: a.logSlots, level: lvl, deg: a.deg, scale: a.scale, prod: a.prod}
			exp.vals = make([]cx, len(a.vals))
			for i := range a.vals {
				exp.vals[i] = comb(a.vals[i], val)
			}
			exp.eps = a.eps + 2/ratFloat(a.scale) + e.fp(val.abs())
			if !e.fits(maxAbs(exp.vals)+a.m()+val.abs(), exp.eps, exp.scale, lvl) {
				r.skip("overflow")
				return nil
			}
			if op.Operand != "float64" {
				r.flags["non-float64-scalar"] = true
			}
			out, err := r.callAddSub(sub, mode, a.ct, arg, outCt)
			ferr := finish(exp, out, err, false)
			if f, ok := ferr.(*h.Failure); ok && strings.HasSuffix(f.Key, ":recorded-scale") && mode != "inplace" {
				f.Key = "C06:AddSub:scalar:out-not-op0:recorded-scale"
			}
			if ferr != nil && r.known(ferr) {
				// listed finding: the polynomial is right, only the recorded scale of a receiver that is not op0 is stale
				if out != nil && out.MetaData != nil {
					out.Scale = a.ct.Scale
					exp.ct = out
					if verr := r.verify(key+":"+mode+":after-repair", out, exp, true); verr != nil {
						return verr
					}
					r.place(op, mode, ia, io, exp)
				}
				return nil
			}
			return ferr
		case "vector":
			if mode == "new" {
				outLevel = a.level
			} else {
				prepOut(a.deg)
			}
			lvl := minI(a.level, outLevel)
			vv, arg, mv := e.vectorOperand(op, a.logSlots)
			exp := &reg{logSlots: a.logSlots, level: lvl, deg: a.deg, scale: a.scale, prod: a.prod}
			exp.vals = make([]cx, len(a.vals))
			for i := range a.vals {
				exp.vals[i] = comb(a.vals[i], vv[i])
			}
			exp.eps = a.eps + e.epsEncode(a.scale, mv)
			if !e.fits(maxAbs(exp.vals)+a.m()+mv, exp.eps, exp.scale, lvl) {
				r.skip("overflow")
				return nil
			}
			out, err := r.callAddSub(sub, mode, a.ct, arg, outCt)
			return finish(exp, out, err, false)
		}

	case "Mul", "MulRelin":
		relin := op.Kind == "MulRelin"
		switch cls {
		case "ct", "pt":
			var b *reg
			ib := -1
			if cls == "ct" {
				ib = op.B % len(r.regs)
				b = r.regs[ib]
				if a.deg != 1 || b.deg != 1 {
					r.skip("mul-degree")
					return nil
				}
			} else {
				b = r.makePlain(op, a, a.level)
				if b == nil {
					r.skip("pt-does-not-fit")
					return nil
				}
			}
			useB(b)
			nat := a.deg + b.deg
			if relin && cls == "ct" {
				nat = 1
			}
			if mode == "new" {
				outLevel = a.level
			} else {
				if mode == "reg" && cls == "ct" {
					// the receiver is resized to the product's degree whatever it held before
					if len(r.regs) > 1 && io != ia && io != ib {
						outCt, outLevel, outDeg = r.regs[io].ct, r.regs[io].level, r.regs[io].deg
					} else {
						mode = "fresh"
					}
				}
				if outCt == nil {
					prepOut(nat, ib)
				}
			}
			lvl := minI(a.level, b.level, outLevel)
			ls := maxI(a.logSlots, b.logSlots)
			av, bv := expand(a.vals, ls), expand(b.vals, ls)
			exp := &reg{logSlots: ls, level: lvl, deg: nat, prod: true}
			exp.vals = make([]cx, len(av))
			for i := range av {
				exp.vals[i] = av[i].mul(bv[i])
			}
			ma, mb := maxAbs(av), maxAbs(bv)
			exp.scale = new(big.Rat).Mul(a.scale, b.scale)
			exp.eps = ma*b.eps + mb*a.eps + a.eps*b.eps
			if relin && cls == "ct" {
				exp.eps += e.ksNoise(lvl) / ratFloat(exp.scale)
			}
			if !e.fits(ma*mb, exp.eps, exp.scale, lvl) {
				r.skip("overflow")
				return nil
			}
			var operand rlwe.Operand = b.ct
			if cls == "pt" {
				operand = b.pt()
			}
			var out *rlwe.Ciphertext
			var err error
			switch {
			case mode == "new" && relin:
				out, err = e.eval.MulRelinNew(a.ct, operand)
			case mode == "new":
				out, err = e.eval.MulNew(a.ct, operand)
			case relin:
				out = outCt
				err = e.eval.MulRelin(a.ct, operand, out)
			default:
				out = outCt
				err = e.eval.Mul(a.ct, operand, out)
			}
			return finish(exp, out, err, true)
		case "scalar":
			val, arg, isInt := scalarValue(op, e.prec)
			if mode == "new" {
				outLevel = a.level
			} else {
				prepOut(a.deg)
			}
			lvl := minI(a.level, outLevel)
			exp := &reg{logSlots: a.logSlots, level: lvl, deg: a.deg, prod: a.prod}
			exp.vals = make([]cx, len(a.vals))
			for i := range a.vals {
				exp.vals[i] = a.vals[i].mul(val)
			}
			av := val.abs()
			if isInt {
				exp.scale = a.scale
				exp.eps = a.eps*av + e.fp(a.m()*av)
				r.rec.Class("mul-const=gaussian-integer")
			} else {
				if lvl < e.nb-1 {
					r.skip("level-too-low-for-constant")
					return nil
				}
				qs := e.consumed(lvl)
				exp.scale = new(big.Rat).Mul(a.scale, qs)
				qf := ratFloat(qs)
				exp.eps = a.eps*(av+2/qf) + a.m()*2/qf + e.fp(a.m()*av)
				exp.prod = true
				r.rec.Class("mul-const=scaled")
			}
			if !e.fits(a.m()*av, exp.eps, exp.scale, lvl) {
				r.skip("overflow")
				return nil
			}
			if op.Operand != "float64" {
				r.flags["non-float64-scalar"] = true
			}
			out, err := r.callMul(relin, mode, a.ct, arg, outCt)
			return finish(exp, out, err, true)
		case "vector":
			if mode == "new" {
				outLevel = a.level
			} else {
				prepOut(a.deg)
			}
			lvl := minI(a.level, outLevel)
			if lvl < e.nb-1 {
				r.skip("level-too-low-for-constant")
				return nil
			}
			vv, arg, mv := e.vectorOperand(op, a.logSlots)
			qs := e.consumed(lvl)
			exp := &reg{logSlots: a.logSlots, level: lvl, deg: a.deg, prod: true}
			exp.vals = make([]cx, len(a.vals))
			for i := range a.vals {
				exp.vals[i] = a.vals[i].mul(vv[i])
			}
			exp.scale = new(big.Rat).Mul(a.scale, qs)
			ep := e.epsEncode(qs, mv)
			exp.eps = a.m()*ep + mv*a.eps + a.eps*ep
			if !e.fits(a.m()*mv, exp.eps, exp.scale, lvl) {
				r.skip("overflow")
				return nil
			}
			out, err := r.callMul(relin, mode, a.ct, arg, outCt)
			return finish(exp, out, err, true)
		}

	case "MulThenAdd", "MulRelinThenAdd":
		return r.stepMulThenAdd(op, key, cls, ia)

	case "RotateHoisted":
		return r.stepRotateHoisted(op, key, ia)

	case "Rescale":
		if a.level < e.nb {
			r.skip("level-too-low")
			return nil
		}
		if mode == "new" {
			mode = "fresh"
		}
		prepOut(a.deg)
		qs := e.consumed(a.level)
		exp := &reg{logSlots: a.logSlots, level: a.level - e.nb, deg: a.deg, vals: a.vals, resc: a.prod || a.resc}
		exp.scale = new(big.Rat).Quo(a.scale, qs)
		exp.eps = a.eps + e.rescaleNoise(a.deg, e.nb)/ratFloat(exp.scale)
		if !e.fits(a.m(), exp.eps, exp.scale, exp.level) {
			r.skip("scale-too-small")
			return nil
		}
		err := e.eval.Rescale(a.ct, outCt)
		return finish(exp, outCt, err, true)

	case "RescaleTo":
		if a.level < 1 {
			r.skip("level-too-low")
			return nil
		}
		if mode == "new" {
			mode = "fresh"
		}
		prepOut(a.deg)
		minScale := new(big.Rat).Mul(e.defaultScaleRat(), ratF64(op.F))
		n, cur, ambiguous := e.rescaleToCount(a.scale, minScale, a.level)
		if ambiguous {
			r.skip("rescaleto-boundary")
			return nil
		}
		exp := &reg{logSlots: a.logSlots, level: a.level - n, deg: a.deg, vals: a.vals, scale: cur, eps: a.eps, prod: a.prod, resc: a.resc}
		if n > 0 {
			exp.eps += e.rescaleNoise(a.deg, n) / ratFloat(cur)
			exp.resc = a.prod || a.resc
			exp.prod = false
		}
		if !e.fits(a.m(), exp.eps, exp.scale, exp.level) {
			r.skip("scale-too-small")
			return nil
		}
		r.rec.Classf("rescaleto-primes=%d", n)
		err := e.eval.RescaleTo(a.ct, scaleFromRat(minScale), outCt)
		return finish(exp, outCt, err, true)

	case "SetScale":
		r.inExact = true // the target is recorded as given
		mode = "inplace"
		target := e.defaultScaleRat()
		if op.K == 1 {
			target = ratF64(ratFloat(a.scale))
		}
		target = ratF64(ratFloat(new(big.Rat).Mul(target, ratF64(op.F))))
		ratio := new(big.Rat).Quo(target, a.scale)
		rf := ratFloat(ratio)
		if rf < 0.125 || rf > 4096 {
			r.skip("setscale-ratio-out-of-range")
			return nil
		}
		if a.level < 1 {
			r.skip("level-too-low") // SetScale goes through RescaleTo, which documents an error at level 0
			return nil
		}
		ratioRounded := new(big.Float).SetPrec(e.prec).SetRat(ratio)
		exp := &reg{logSlots: a.logSlots, deg: a.deg, vals: a.vals, scale: target, prod: a.prod, resc: a.resc}
		if ratioRounded.IsInt() {
			exp.level = a.level
			exp.eps = a.eps + e.fp(a.m())
			if !e.fits(a.m(), exp.eps, target, a.level) {
				r.skip("overflow")
				return nil
			}
			r.rec.Class("setscale=integer-ratio")
		} else {
			if a.level < e.nb {
				r.skip("level-too-low")
				return nil
			}
			qs := e.consumed(a.level)
			mid := new(big.Rat).Mul(target, qs)
			if !e.fits(a.m(), a.eps, mid, a.level) || !e.fits(a.m(), a.eps, target, a.level-e.nb) {
				r.skip("overflow")
				return nil
			}
			n, _, ambiguous := e.rescaleToCount(mid, target, a.level)
			if ambiguous || n != e.nb {
				r.skip("setscale-boundary")
				return nil
			}
			exp.level = a.level - n
			qf := ratFloat(qs) * rf
			exp.eps = a.eps*(1+2/qf) + a.m()*2/qf + e.rescaleNoise(a.deg, n)/ratFloat(target) + e.fp(a.m())
			exp.resc = a.prod || a.resc
			r.rec.Class("setscale=rescaled")
		}
		if !ratioRounded.IsInt() && math.Abs(rf-2) < 1e-9 {
			r.skip("setscale-boundary")
			return nil
		}
		if !ratioRounded.IsInt() && rf > 2 {
			// listed finding: run on a copy so that the register survives
			cp := a.ct.CopyNew()
			err := e.eval.SetScale(cp, scaleFromRat(target))
			ferr := finish(exp, cp, err, true)
			if f, ok := ferr.(*h.Failure); ok && (strings.HasSuffix(f.Key, ":level") || strings.HasSuffix(f.Key, ":value")) {
				f.Key = "C06:SetScale:non-integer-ratio-above-2"
				if r.known(ferr) {
					return nil
				}
			}
			return ferr
		}
		err := e.eval.SetScale(a.ct, scaleFromRat(target))
		return finish(exp, a.ct, err, true)

	case "ScaleUp":
		if mode == "new" {
			outLevel = a.level
		} else {
			prepOut(a.deg)
		}
		lvl := minI(a.level, outLevel)
		exp := &reg{logSlots: a.logSlots, level: lvl, deg: a.deg, vals: a.vals, eps: a.eps, prod: a.prod, resc: a.resc}
		exp.scale = new(big.Rat).Mul(a.scale, new(big.Rat).SetInt64(int64(op.K)))
		if !e.fits(a.m(), a.eps, exp.scale, lvl) {
			r.skip("overflow")
			return nil
		}
		var out *rlwe.Ciphertext
		var err error
		if mode == "new" {
			out, err = e.eval.ScaleUpNew(a.ct, rlwe.NewScale(op.K))
		} else {
			out = outCt
			err = e.eval.ScaleUp(a.ct, rlwe.NewScale(op.K), out)
		}
		return finish(exp, out, err, true)

	case "DropLevel":
		lvl := a.level - op.K
		if lvl < 0 || !e.fits(a.m(), a.eps, a.scale, lvl) {
			r.skip("overflow")
			return nil
		}
		exp := &reg{logSlots: a.logSlots, level: lvl, deg: a.deg, vals: a.vals, eps: a.eps, scale: a.scale, prod: a.prod, resc: a.resc}
		if mode == "inplace" {
			e.eval.DropLevel(a.ct, op.K)
			return finish(exp, a.ct, nil, true)
		}
		mode = "new"
		return finish(exp, e.eval.DropLevelNew(a.ct, op.K), nil, true)

	case "Rotate", "Conjugate":
		conj := op.Kind == "Conjugate"
		if a.deg != 1 {
			r.skip("automorphism-degree")
			return nil
		}
		k := 0
		identity := false
		if !conj {
			k = e.rots[op.K%len(e.rots)]
			identity = e.params.GaloisElement(k) == 1
		}
		if identity && (mode == "fresh" || mode == "reg") {
			mode = "new"
		}
		if mode == "new" {
			outLevel = a.level
		} else {
			if mode == "reg" && (len(r.regs) < 2 || io == ia || r.regs[io].deg != 1) {
				mode = "fresh"
			}
			prepOut(1)
		}
		if conj && e.spec.CI {
			// documented: not supported in the conjugate-invariant ring, must return an error
			var err error
			if mode == "new" {
				_, err = e.eval.ConjugateNew(a.ct)
			} else {
				snapshot := a.ct.CopyNew()
				err = e.eval.Conjugate(a.ct, outCt)
				if mode == "inplace" && err != nil && !a.ct.Equal(snapshot) {
					return h.Failf(key+":ci:input-modified", "Conjugate returned an error but modified its input")
				}
			}
			if err == nil {
				return h.Failf(key+":ci:no-error", "Conjugate in the conjugate-invariant ring must return an error")
			}
			r.rec.Class("op=Conjugate:ci-error")
			return nil
		}
		lvl := minI(a.level, outLevel)
		exp := &reg{logSlots: a.logSlots, level: lvl, deg: 1, scale: a.scale, eps: a.eps, prod: a.prod, resc: a.resc}
		if conj {
			exp.vals = make([]cx, len(a.vals))
			for i := range a.vals {
				exp.vals[i] = a.vals[i].conj()
			}
		} else {
			exp.vals = rotate(a.vals, k)
		}
		if !identity {
			exp.eps += e.ksNoise(lvl) / ratFloat(a.scale)
		}
		if !e.fits(a.m(), exp.eps, a.scale, lvl) {
			r.skip("overflow")
			return nil
		}
		var out *rlwe.Ciphertext
		var err error
		switch {
		case mode == "new" && conj:
			out, err = e.eval.ConjugateNew(a.ct)
		case mode == "new":
			out, err = e.eval.RotateNew(a.ct, k)
		case conj:
			out = outCt
			err = e.eval.Conjugate(a.ct, out)
		default:
			out = outCt
			err = e.eval.Rotate(a.ct, k, out)
		}
		return finish(exp, out, err, true)

	case "Relinearize":
		if a.deg != 2 {
			r.skip("relinearize-degree")
			return nil
		}
		if mode == "new" {
			outLevel = a.level
		} else {
			if mode == "reg" && (len(r.regs) < 2 || io == ia) {
				mode = "fresh"
			}
			if mode == "reg" {
				outCt, outLevel, outDeg = r.regs[io].ct, r.regs[io].level, r.regs[io].deg
			} else {
				prepOut(1)
			}
		}
		lvl := minI(a.level, outLevel)
		exp := &reg{logSlots: a.logSlots, level: lvl, deg: 1, scale: a.scale, vals: a.vals, prod: a.prod, resc: a.resc}
		exp.eps = a.eps + e.ksNoise(lvl)/ratFloat(a.scale)
		if !e.fits(a.m(), exp.eps, a.scale, lvl) {
			r.skip("overflow")
			return nil
		}
		var out *rlwe.Ciphertext
		var err error
		if mode == "new" {
			out, err = e.eval.RelinearizeNew(a.ct)
		} else {
			out = outCt
			err = e.eval.Relinearize(a.ct, out)
		}
		return finish(exp, out, err, true)
	}
	_ = outDeg
	return nil
}

func prepOutFresh(e *env, op Op, deg int, outCt **rlwe.Ciphertext, outLevel, outDeg *int) {
	lvl := e.params.MaxLevel() - op.FDrop
	if lvl < 0 {
		lvl = 0
	}
	*outCt = ckks.NewCiphertext(e.params, deg, lvl)
	*outLevel = lvl
	*outDeg = deg
}

// rescaleToCount evaluates the documented stopping rule of RescaleTo: divide by the last prime while the result
// stays >= minScale/2.
func (e *env) rescaleToCount(scale, minScale *big.Rat, level int) (n int, cur *big.Rat, ambiguous bool) {
	half := new(big.Rat).Mul(minScale, ratF64(0.5))
	cur = new(big.Rat).Set(scale)
	for level-n >= 0 {
		next := new(big.Rat).Quo(cur, ratU64(e.q[level-n]))
		if ratCmpTol(next, half, 40) {
			return n, cur, true
		}
		if next.Cmp(half) < 0 {
			break
		}
		cur = next
		n++
	}
	if n > level {
		return n, cur, true // would consume the last prime: outside the decryptable domain
	}
	return n, cur, false
}

func (r *reg) pt() *rlwe.Plaintext { return r.plain }

func (r *runner) callAddSub(sub bool, mode string, a *rlwe.Ciphertext, arg rlwe.Operand, outCt *rlwe.Ciphertext) (*rlwe.Ciphertext, error) {
	e := r.e
	if mode == "new" {
		if sub {
			return e.eval.SubNew(a, arg)
		}
		return e.eval.AddNew(a, arg)
	}
	if sub {
		return outCt, e.eval.Sub(a, arg, outCt)
	}
	return outCt, e.eval.Add(a, arg, outCt)
}

func (r *runner) callMul(relin bool, mode string, a *rlwe.Ciphertext, arg rlwe.Operand, outCt *rlwe.Ciphertext) (*rlwe.Ciphertext, error) {
	e := r.e
	switch {
	case mode == "new" && relin:
		return e.eval.MulRelinNew(a, arg)
	case mode == "new":
		return e.eval.MulNew(a, arg)
	case relin:
		return outCt, e.eval.MulRelin(a, arg, outCt)
	default:
		return outCt, e.eval.Mul(a, arg, outCt)
	}
}
