// Package c11 checks property C11: rotations and slot sums follow the Galois algebra; advertised key lists suffice.
package c11

import (
	"fmt"
	"math"
	"math/big"
	"math/bits"
	"sort"
	"sync"
	"testing"

	"verif/internal/h"

	"github.com/tuneinsight/lattigo/v6/core/rlwe"
	"pgregory.net/rapid"
)

func TestMain(m *testing.M) { h.Main(m, "C11") }

func TestReplay(t *testing.T) { h.ReplayAll(t) }

// recording key set -------------------------------------------------------------------------------------------------

// recKeys wraps an evaluation key set and records every Galois key lookup (and the ones that failed).
type recKeys struct {
	inner   rlwe.EvaluationKeySet
	mu      sync.Mutex
	asked   map[uint64]int
	missing []uint64
}

func newRecKeys(inner rlwe.EvaluationKeySet) *recKeys {
	return &recKeys{inner: inner, asked: map[uint64]int{}}
}

func (r *recKeys) GetGaloisKey(galEl uint64) (*rlwe.GaloisKey, error) {
	r.mu.Lock()
	defer r.mu.Unlock()
	r.asked[galEl]++
	k, err := r.inner.GetGaloisKey(galEl)
	if err != nil {
		r.missing = append(r.missing, galEl)
	}
	return k, err
}

func (r *recKeys) GetGaloisKeysList() []uint64 { return r.inner.GetGaloisKeysList() }

func (r *recKeys) GetRelinearizationKey() (*rlwe.RelinearizationKey, error) {
	return r.inner.GetRelinearizationKey()
}

func (r *recKeys) ShallowCopy() rlwe.EvaluationKeySet { return r }

func (r *recKeys) reset() {
	r.mu.Lock()
	r.asked = map[uint64]int{}
	r.missing = nil
	r.mu.Unlock()
}

// dedup returns the sorted set of the given Galois elements.
func dedup(g []uint64) []uint64 {
	m := map[uint64]bool{}
	var out []uint64
	for _, x := range g {
		if !m[x] {
			m[x] = true
			out = append(out, x)
		}
	}
	sort.Slice(out, func(i, j int) bool { return out[i] < out[j] })
	return out
}

// KeyLevels selects the levels the Galois keys are generated at (rlwe.EvaluationKeyParameters). The zero value means
// the defaults (MaxLevelQ, MaxLevelP). LP = -1 generates keys without auxiliary modulus on a parameter set that has one.
type KeyLevels struct {
	Set bool `json:"set,omitempty"`
	LQ  int  `json:"lq,omitempty"`
	LP  int  `json:"lp,omitempty"`
}

func (k KeyLevels) class(maxQ, maxP int) string {
	if !k.Set {
		return "keylevels=default"
	}
	c := "keylevels="
	switch {
	case k.LP == -1 && maxP >= 0:
		c += "noP"
	case k.LP < maxP:
		c += "P<max"
	default:
		c += "Pmax"
	}
	if k.LQ < maxQ {
		c += ",Q<max"
	}
	return c
}

// usedP returns the auxiliary primes the keys actually use.
func (k KeyLevels) usedP(ps []uint64) []uint64 {
	if !k.Set {
		return ps
	}
	return ps[:k.LP+1]
}

// keysFor generates Galois keys for exactly the given list of Galois elements (with the secret key sk).
func keysFor(kgen *rlwe.KeyGenerator, sk *rlwe.SecretKey, galEls []uint64, bpw2 int, kl ...KeyLevels) *recKeys {
	var e rlwe.EvaluationKeyParameters
	use := false
	if bpw2 != 0 {
		b := bpw2
		e.BaseTwoDecomposition = &b
		use = true
	}
	if len(kl) > 0 && kl[0].Set {
		lq, lp := kl[0].LQ, kl[0].LP
		e.LevelQ, e.LevelP = &lq, &lp
		use = true
	}
	var evkp []rlwe.EvaluationKeyParameters
	if use {
		evkp = append(evkp, e)
	}
	gks := kgen.GenGaloisKeysNew(dedup(galEls), sk, evkp...)
	return newRecKeys(rlwe.NewMemEvaluationKeySet(nil, gks...))
}

// snapshot serialises the secret key and every Galois key: operations must leave their key material untouched.
func snapshot(sk *rlwe.SecretKey, keys *recKeys) map[string]string {
	out := map[string]string{}
	if b, err := sk.MarshalBinary(); err == nil {
		out["sk"] = string(b)
	}
	for _, g := range keys.inner.GetGaloisKeysList() {
		if k, err := keys.inner.GetGaloisKey(g); err == nil {
			if b, err := k.MarshalBinary(); err == nil {
				out[fmt.Sprintf("gk%d", g)] = string(b)
			}
		}
	}
	return out
}

// sameSnapshot returns the name of the first object that changed ("" if none).
func sameSnapshot(a, b map[string]string) string {
	if len(a) != len(b) {
		return "key-count"
	}
	names := make([]string, 0, len(a))
	for k := range a {
		names = append(names, k)
	}
	sort.Strings(names)
	for _, k := range names {
		if a[k] != b[k] {
			return k
		}
	}
	return ""
}

// genSetKeys draws the key levels once the ciphertext level is known. A set drawn without auxiliary prime (keys with a
// power-of-two basis) may receive one afterwards: the parameters then have P while the keys stay at LevelP = -1.
func genSetKeys(t *rapid.T, spec *h.RLWESpec, level int, fullP bool) KeyLevels {
	maxQ := len(spec.Q) - 1
	if fullP {
		// operations that decompose for the parameters' whole auxiliary modulus (PartialTracesSum and what is built on it,
		// ckks RotateHoisted) take keys at MaxLevelP only; their LevelQ is free
		if rapid.IntRange(0, 2).Draw(t, "keyLevels") != 0 {
			return KeyLevels{}
		}
		return KeyLevels{Set: true, LQ: rapid.IntRange(level, maxQ).Draw(t, "keyLQ"), LP: len(spec.P) - 1}
	}
	if len(spec.P) == 0 {
		if rapid.IntRange(0, 2).Draw(t, "addP") != 0 {
			return KeyLevels{}
		}
		used := map[uint64]bool{}
		for _, q := range spec.Q {
			used[q] = true
		}
		spec.P = h.GenPrimes(t, []int{61}, spec.NthRoot(), used, "pExtra")
		return KeyLevels{Set: true, LQ: rapid.IntRange(level, maxQ).Draw(t, "keyLQ"), LP: -1}
	}
	return genKeyLevels(t, level, maxQ, 0, len(spec.P)-1)
}

// genKeyLevels draws the key levels for a parameter set whose moduli were sized for keys with `nPKeys` auxiliary primes:
// default, or explicit LevelQ in [ctLevel, maxQ] and LevelP in [minLP, maxP].
func genKeyLevels(t *rapid.T, ctLevel, maxQ, minLP, maxP int) KeyLevels {
	if rapid.IntRange(0, 2).Draw(t, "keyLevels") != 0 {
		return KeyLevels{}
	}
	k := KeyLevels{Set: true}
	k.LQ = rapid.IntRange(ctLevel, maxQ).Draw(t, "keyLQ")
	k.LP = rapid.IntRange(minLP, maxP).Draw(t, "keyLP")
	return k
}

// rotation amounts --------------------------------------------------------------------------------------------------

// genK draws a rotation amount: boundary classes around 0, the slot count, int32, 2^62 and 2^63.
func genK(t *rapid.T, slots int, label string) int {
	small := func() int { return rapid.IntRange(-3, 3).Draw(t, label+"_d") }
	switch rapid.IntRange(0, 11).Draw(t, label+"_class") {
	case 0:
		return rapid.IntRange(-3, 3).Draw(t, label+"_tiny")
	case 1:
		return slots * rapid.IntRange(-2, 2).Draw(t, label+"_mult")
	case 2:
		return slots*rapid.IntRange(-2, 2).Draw(t, label+"_mult") + small()
	case 3, 4:
		return rapid.IntRange(-2*slots, 2*slots).Draw(t, label+"_near")
	case 5:
		return int(rapid.Int32().Draw(t, label+"_i32"))
	case 6:
		return (1 << 62) + rapid.IntRange(-2*slots, 2*slots).Draw(t, label+"_p62")
	case 7:
		return -(1 << 62) + rapid.IntRange(-2*slots, 2*slots).Draw(t, label+"_m62")
	case 8:
		return math.MaxInt64 - rapid.IntRange(0, 2*slots).Draw(t, label+"_max")
	case 9:
		return math.MinInt64 + rapid.IntRange(0, 2*slots).Draw(t, label+"_min")
	case 10:
		return rapid.IntRange(0, slots-1).Draw(t, label+"_in")
	default:
		return rapid.Int().Draw(t, label+"_any")
	}
}

// emod is the Euclidean remainder of k modulo m > 0 (valid for every int including MinInt64).
func emod(k, m int) int {
	r := k % m
	if r < 0 {
		r += m
	}
	return r
}

// trivialK reports whether k is one of the rotations the repository's tests use (0..3, small powers of two).
func trivialK(k, slots int) bool {
	if k >= 0 && k <= 3 {
		return true
	}
	return k > 0 && k < slots && k&(k-1) == 0
}

func kClass(k, slots int) string {
	switch {
	case k == 0:
		return "0"
	case trivialK(k, slots):
		return "test-like"
	case emod(k, slots) == 0:
		return "mult-of-slots"
	case k < 0 && k > -slots:
		return "neg-small"
	case k > 0 && k < slots:
		return "in-range"
	case k >= slots && k <= 2*slots+3:
		return ">=slots"
	case k < 0 && k >= -2*slots-3:
		return "<=-slots"
	case k > math.MaxInt64-(1<<20):
		return "near+2^63"
	case k < math.MinInt64+(1<<20):
		return "near-2^63"
	case k > 1<<61:
		return "huge+"
	case k < -(1 << 61):
		return "huge-"
	case k > 0:
		return "big+"
	default:
		return "big-"
	}
}

// rotate returns v cyclically rotated to the left by k (any int): out[i] = v[(i+k) mod len].
func rotateU(v []uint64, k int) []uint64 {
	n := len(v)
	out := make([]uint64, n)
	s := emod(k, n)
	for i := range out {
		out[i] = v[(i+s)%n]
	}
	return out
}

func rotateC(v []complex128, k int) []complex128 {
	n := len(v)
	out := make([]complex128, n)
	s := emod(k, n)
	for i := range out {
		out[i] = v[(i+s)%n]
	}
	return out
}

// noise model ---------------------------------------------------------------------------------------------------------

func prodF(qs []uint64) *big.Float {
	r := new(big.Float).SetPrec(256).SetInt64(1)
	for _, q := range qs {
		r.Mul(r, new(big.Float).SetPrec(256).SetUint64(q))
	}
	return r
}

func log2F(x *big.Float) float64 {
	if x.Sign() <= 0 {
		return math.Inf(-1)
	}
	m := new(big.Float)
	e := x.MantExp(m)
	f, _ := m.Float64()
	return float64(e) + math.Log2(f)
}

// ksNoiseLog2 is log2 of a worst-case bound on the infinity norm of the error one key switch (gadget product with an
// evaluation key, followed by the division by P) adds to the phase of a ciphertext at the level whose moduli are qs.
//
//	hybrid (P != {}):  beta digits d_j, |d_j| <= (alpha+1) Q_j (approximate basis extension), each multiplied by an error
//	                   polynomial of norm <= be: sum <= beta*N*(alpha+1)*max(Q_j)*be, divided by P, plus the rounding of
//	                   the division on both components: 2*(1+|s|_1).
//	P == {}, base 2^b: sum over primes of ceil(bits(q_i)/b) digits smaller than 2^b: digits*N*2^b*be.
//	P == {}, b == 0 :  sum over primes N*q_i*be.
func ksNoiseLog2(n int, qs, ps []uint64, bpw2 int, be, sl1 float64) float64 {
	N := float64(n)
	if len(ps) > 0 {
		alpha := len(ps)
		P := prodF(ps)
		maxRatio := new(big.Float)
		beta := 0
		for j := 0; j < len(qs); j += alpha {
			e := j + alpha
			if e > len(qs) {
				e = len(qs)
			}
			r := new(big.Float).Quo(prodF(qs[j:e]), P)
			if r.Cmp(maxRatio) > 0 {
				maxRatio = r
			}
			beta++
		}
		x := new(big.Float).Mul(maxRatio, big.NewFloat(float64(beta)*N*float64(alpha+1)*be))
		x.Add(x, big.NewFloat(2*(1+sl1)))
		return log2F(x)
	}
	x := new(big.Float)
	for _, q := range qs {
		if bpw2 == 0 {
			x.Add(x, new(big.Float).Mul(new(big.Float).SetUint64(q), big.NewFloat(N*be)))
		} else {
			d := (bits.Len64(q) + bpw2 - 1) / bpw2
			x.Add(x, big.NewFloat(float64(d)*N*math.Exp2(float64(bpw2))*be))
		}
	}
	return log2F(x)
}

// totalNoiseLog2 bounds the error of a result that is the sum of `terms` ciphertexts, each of which went through at
// most `depth` key switches after a fresh secret-key encryption (error <= be).
func totalNoiseLog2(terms, depth int, ksLog2, be float64) float64 {
	return math.Log2(float64(terms)) + math.Log2(be+float64(depth)*math.Exp2(ksLog2))
}

func log2Prod(qs []uint64) float64 { return log2F(prodF(qs)) }

// misc ----------------------------------------------------------------------------------------------------------------

func maxLogN() int {
	if h.Thorough() {
		return 8
	}
	return 7
}

// genLogN draws the ring degree: 2^4..2^7 (quick) / 2^8 (thorough); in the thorough tier one case in sixteen uses a
// larger ring (up to 2^big) so that the encrypted operations are also exercised above 2^8.
func genLogN(t *rapid.T, big int) int {
	if h.Thorough() && big > maxLogN() && rapid.IntRange(0, 15).Draw(t, "bigRing") == 0 {
		return rapid.IntRange(maxLogN()+1, big).Draw(t, "logNBig")
	}
	return rapid.IntRange(4, maxLogN()).Draw(t, "logN")
}

func fmtU(v []uint64, max int) string {
	if len(v) > max {
		return fmt.Sprintf("%v...", v[:max])
	}
	return fmt.Sprint(v)
}
