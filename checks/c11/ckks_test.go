package c11

import (
	"fmt"
	"math"
	"math/cmplx"
	"testing"

	"verif/internal/h"

	"github.com/tuneinsight/lattigo/v6/core/rlwe"
	"github.com/tuneinsight/lattigo/v6/ring"
	"github.com/tuneinsight/lattigo/v6/ring/ringqp"
	"github.com/tuneinsight/lattigo/v6/schemes/ckks"
	"pgregory.net/rapid"
)

// CKKSSet is a CKKS parameter literal plus the power-of-two decomposition used for the evaluation keys (0 = none).
type CKKSSet struct {
	P    h.CKKSSpec `json:"params"`
	Bpw2 int        `json:"bpw2,omitempty"`
	Keys KeyLevels  `json:"keys,omitempty"`
}

func (s CKKSSet) maxSlots() int {
	if s.P.CI {
		return s.P.N()
	}
	return s.P.N() / 2
}

// genCKKSSet draws a CKKS set. tolBits: the worst-case slot error must stay below 2^-tolBits.
func genCKKSSet(t *rapid.T, req modReq, tolBits int) CKKSSet {
	var s CKKSSet
	big := 9 // sums over up to N terms
	if req.terms == 1 {
		big = 10
	}
	s.P.LogN = genLogN(t, big)
	s.P.CI = rapid.IntRange(0, 2).Draw(t, "ringType") == 0
	s.P.NTT = true
	n := s.P.N()
	s.P.Xs = h.GenDist(t, true, n, "xs")
	s.P.Xe = h.GenDist(t, false, n, "xe")
	if req.termsN {
		req.terms, req.depth = n, s.P.LogN+3
	}
	// The scale must leave room for `terms` summed messages below a 60-bit q0 and make the worst-case slot error
	// N * coefficient error / scale smaller than 2^-tolBits: this bounds the admissible noise, and genKS adjusts the
	// drawn shape (basis, auxiliary prime) to it.
	maxScale := 59 - 3 - int(math.Ceil(math.Log2(float64(req.terms))))
	maxTot := math.Min(49, float64(maxScale-tolBits-s.P.LogN))
	c := genKS(t, s.P.LogN, s.P.Xs, s.P.Xe, req, maxTot)
	needScale := int(math.Ceil(c.tot + float64(s.P.LogN) + float64(tolBits)))
	if needScale < 20 {
		needScale = 20
	}
	if needScale > maxScale {
		needScale = maxScale // not reachable after genKS; run() re-checks the margin and skips the case otherwise
	}
	s.P.LogScale = rapid.IntRange(needScale, maxScale).Draw(t, "logScale")
	need := math.Max(c.tot+1+9, float64(s.P.LogScale)+math.Log2(float64(req.terms))+1+2)
	s.P.Q, s.P.P = genPrimes(t, s.P.NthRoot(), c, need, map[uint64]bool{})
	s.Bpw2 = c.bpw2
	return s
}

type ckksCtx struct {
	set    CKKSSet
	params ckks.Parameters
	kgen   *rlwe.KeyGenerator
	sk     *rlwe.SecretKey
	enc    *rlwe.Encryptor
	dec    *rlwe.Decryptor
	ecd    *ckks.Encoder
}

func newCKKSCtx(s CKKSSet) (*ckksCtx, error) {
	p, err := s.P.Build()
	if err != nil {
		return nil, h.Failf("C11:ckks:params", "cannot build parameters: %v", err)
	}
	c := &ckksCtx{set: s, params: p}
	c.kgen = ckks.NewKeyGenerator(p)
	c.sk = c.kgen.GenSecretKeyNew()
	c.enc = ckks.NewEncryptor(p, c.sk)
	c.dec = ckks.NewDecryptor(p, c.sk)
	c.ecd = ckks.NewEncoder(p)
	if p.MaxSlots() != s.maxSlots() || p.MaxDimensions().Rows != 1 {
		return nil, h.Failf("C11:ckks:dimensions", "logN=%d ci=%v: MaxSlots=%d MaxDimensions=%+v", s.P.LogN, s.P.CI, p.MaxSlots(), p.MaxDimensions())
	}
	return c, nil
}

// tol returns the worst-case slot error (absolute) of a result with the given shape, and whether the moduli leave
// enough room (message and noise below Q/4).
func (c *ckksCtx) tol(level, terms, depth int) (float64, bool) {
	s := c.set
	n := s.P.N()
	be, sl1 := s.P.Xe.AbsBound(), h.SecretL1(s.P.Xs, n)
	ks := ksNoiseLog2(n, s.P.Q[:level+1], s.Keys.usedP(s.P.P), s.Bpw2, be, sl1)
	tot := totalNoiseLog2(terms, depth, ks, be)
	scale := float64(s.P.LogScale)
	// coefficient error -> slot error: |sum e_i zeta^i| <= N |e|; encoding rounds every coefficient (<= 1/2 each, per
	// term); double-precision FFT contributes far less than 2^-40 per unit of magnitude.
	tol := math.Exp2(tot+float64(s.P.LogN)-scale) + float64(terms*n)*math.Exp2(-scale) + float64(terms)*math.Exp2(-40)
	room := log2Prod(s.P.Q[:level+1]) - 2 - math.Max(scale+math.Log2(float64(terms))+1, tot)
	return tol, room >= 0
}

func (c *ckksCtx) encrypt(vals []complex128, level, logSlots int) (*rlwe.Ciphertext, error) {
	pt := ckks.NewPlaintext(c.params, level)
	pt.LogDimensions = ring.Dimensions{Rows: 0, Cols: logSlots}
	if err := c.ecd.Encode(vals, pt); err != nil {
		return nil, h.Failf("C11:ckks:encode", "Encode: %v", err)
	}
	ct, err := c.enc.EncryptNew(pt)
	if err != nil {
		return nil, h.Failf("C11:ckks:encrypt", "EncryptNew: %v", err)
	}
	return ct, nil
}

// usedReceiver returns a ciphertext with an earlier life: a genuine full-packing encryption of unrelated values at
// the given level under three times the default scale.
func (c *ckksCtx) usedReceiver(level int, seed uint64) (*rlwe.Ciphertext, error) {
	pt := ckks.NewPlaintext(c.params, level)
	pt.Scale = pt.Scale.Mul(rlwe.NewScale(3))
	if err := c.ecd.Encode(distinctC(seed^0x5bd1e995, c.params.MaxSlots(), c.set.P.CI), pt); err != nil {
		return nil, h.Failf("C11:ckks:encode", "Encode: %v", err)
	}
	ct, err := c.enc.EncryptNew(pt)
	if err != nil {
		return nil, h.Failf("C11:ckks:encrypt", "EncryptNew: %v", err)
	}
	return ct, nil
}

func (c *ckksCtx) decrypt(ct *rlwe.Ciphertext, slots int) ([]complex128, error) {
	out := make([]complex128, slots)
	if err := c.ecd.Decode(c.dec.DecryptNew(ct), out); err != nil {
		return nil, h.Failf("C11:ckks:decode", "Decode: %v", err)
	}
	return out, nil
}

// distinctC returns pairwise distinct values in the unit square (real parts on a shuffled grid of step 1/(slots+1));
// purely real for the conjugate-invariant ring.
func distinctC(seed uint64, slots int, realOnly bool) []complex128 {
	rng := h.NewSplitMix(seed)
	perm := make([]int, slots)
	for i := range perm {
		perm[i] = i
	}
	for i := slots - 1; i > 0; i-- {
		j := rng.Intn(i + 1)
		perm[i], perm[j] = perm[j], perm[i]
	}
	out := make([]complex128, slots)
	for i := range out {
		re := float64(perm[i]+1) / float64(slots+1)
		im := 0.0
		if !realOnly {
			im = rng.Float64()*2 - 1
		}
		out[i] = complex(re, im)
	}
	return out
}

func conjAll(v []complex128) []complex128 {
	out := make([]complex128, len(v))
	for i := range v {
		out[i] = cmplx.Conj(v[i])
	}
	return out
}

func firstDiffC(a, b []complex128, tol float64, cmp []bool) (int, float64) {
	for i := range a {
		if cmp != nil && !cmp[i] {
			continue
		}
		if d := cmplx.Abs(a[i] - b[i]); !(d <= tol) {
			return i, d
		}
	}
	return -1, 0
}

func fmtC(v []complex128, max int) string {
	if len(v) > max {
		v = v[:max]
	}
	s := "["
	for i, x := range v {
		if i > 0 {
			s += " "
		}
		s += fmt.Sprintf("%.4f%+.4fi", real(x), imag(x))
	}
	return s + "]"
}

func ringName(ci bool) string {
	if ci {
		return "ci"
	}
	return "std"
}

// ---------------------------------------------------------------------------------------------------------------------
// rotations / conjugation

type CKKSRotCase struct {
	Set      CKKSSet `json:"set"`
	Level    int     `json:"level"`
	LogSlots int     `json:"logSlots"`
	Seed     uint64  `json:"seed"`
	Mode     string  `json:"mode"`
	Ks       []int   `json:"ks"`
}

func (c CKKSRotCase) RandSeed() uint64 { return c.Seed }

var ckksRotModes = []string{"rot", "rotNew", "chain", "conj", "conjNew", "conjRot", "hoisted", "hoistedNew", "lazy"}

// genLogSlots draws the packing: full (2 of 3) or sparse, down to a single slot in both rings.
func genLogSlots(t *rapid.T, logMax int, ci bool) int {
	if rapid.IntRange(0, 2).Draw(t, "sparse") == 0 {
		return rapid.IntRange(0, logMax).Draw(t, "logSlots")
	}
	return logMax
}

func genCKKSRot(t *rapid.T) CKKSRotCase {
	var c CKKSRotCase
	c.Mode = ckksRotModes[rapid.IntRange(0, len(ckksRotModes)-1).Draw(t, "mode")]
	hoisted := c.Mode == "hoisted" || c.Mode == "hoistedNew" || c.Mode == "lazy"
	c.Set = genCKKSSet(t, modReq{needP: hoisted, terms: 1, depth: 4}, 12)
	if c.Set.P.CI && (c.Mode == "conj" || c.Mode == "conjNew" || c.Mode == "conjRot") {
		c.Mode = "rot" // conjugation is documented as undefined in the conjugate-invariant ring
	}
	c.Level = rapid.IntRange(0, len(c.Set.P.Q)-1).Draw(t, "level")
	c.Set.Keys = genSetKeys(t, &c.Set.P.RLWESpec, c.Level, c.Mode == "hoisted" || c.Mode == "hoistedNew")
	logMax := bitsLen(c.Set.maxSlots())
	c.LogSlots = genLogSlots(t, logMax, c.Set.P.CI)
	c.Seed = rapid.Uint64().Draw(t, "seed")
	nk := rapid.IntRange(1, 3).Draw(t, "nk")
	for i := 0; i < nk; i++ {
		// boundary classes relative to the packed slot count or to the maximum slot count
		ref := 1 << c.LogSlots
		if rapid.Bool().Draw(t, fmt.Sprintf("kref%d", i)) {
			ref = c.Set.maxSlots()
		}
		c.Ks = append(c.Ks, genK(t, ref, fmt.Sprintf("k%d", i)))
	}
	return c
}

func bitsLen(pow2 int) int {
	l := 0
	for 1<<l < pow2 {
		l++
	}
	return l
}

func runCKKSRot(c CKKSRotCase, rec *h.Rec) error {
	ctx, err := newCKKSCtx(c.Set)
	if err != nil {
		return err
	}
	p := ctx.params
	slots := 1 << c.LogSlots
	maxSlots := p.MaxSlots()
	tol, ok := ctx.tol(c.Level, 1, 4)
	if !ok || tol > math.Exp2(-10) {
		// cannot be judged (error bound too large for the scale / modulus): counted as trivial, never a violation
		rec.Class("unjudged:noise-margin")
		rec.Note("tolerance", tol)
		return nil
	}
	vals := distinctC(c.Seed, slots, c.Set.P.CI)
	ct, err := ctx.encrypt(vals, c.Level, c.LogSlots)
	if err != nil {
		return err
	}

	usesConj := c.Mode == "conj" || c.Mode == "conjNew" || c.Mode == "conjRot"
	usesRot := !(c.Mode == "conj" || c.Mode == "conjNew")
	var galEls []uint64
	if usesRot {
		for _, k := range c.Ks {
			g := p.GaloisElementForRotation(k)
			if g != p.GaloisElement(emod(k, maxSlots)) {
				return h.Failf("C11:ckks:GaloisElementForRotation:mod-slots", "k=%d slots=%d: element %d != element(k mod slots)=%d", k, maxSlots, g, p.GaloisElement(emod(k, maxSlots)))
			}
			galEls = append(galEls, g)
		}
	}
	if usesConj {
		galEls = append(galEls, p.GaloisElementForComplexConjugation())
	}
	keys := keysFor(ctx.kgen, ctx.sk, galEls, c.Set.Bpw2, c.Set.Keys)
	eval := ckks.NewEvaluator(p, keys)
	snap := snapshot(ctx.sk, keys)
	// one receiver for all out-of-place calls of the case: it starts as a genuine full-packing ciphertext at the maximum
	// level under another scale and then carries the previous result
	recv, err := ctx.usedReceiver(p.MaxLevel(), c.Seed)
	if err != nil {
		return err
	}

	check := func(op string, got *rlwe.Ciphertext, want []complex128, detail string) error {
		if got.LogDimensions != ct.LogDimensions {
			return h.Failf("C11:ckks:"+op+":dimensions", "%s: output LogDimensions %+v, input %+v", detail, got.LogDimensions, ct.LogDimensions)
		}
		have, err := ctx.decrypt(got, slots)
		if err != nil {
			return err
		}
		if i, d := firstDiffC(have, want, tol, nil); i >= 0 {
			return h.Failf("C11:ckks:"+op+":value", "%s: slot %d = %v, expected %v (|diff|=%.3g > tol %.3g); N=%d %s slots=%d/%d level=%d logScale=%d\n have %s\n want %s\n  in  %s",
				detail, i, have[i], want[i], d, tol, p.N(), ringName(c.Set.P.CI), slots, maxSlots, c.Level, c.Set.P.LogScale, fmtC(have, 8), fmtC(want, 8), fmtC(vals, 8))
		}
		if got.Level() != c.Level {
			return h.Failf("C11:ckks:"+op+":level", "%s: output level %d, input level %d", detail, got.Level(), c.Level)
		}
		return nil
	}

	switch c.Mode {
	case "rot", "rotNew":
		for _, k := range c.Ks {
			var out *rlwe.Ciphertext
			if c.Mode == "rot" {
				out = recv
				err = eval.Rotate(ct, k, out)
			} else {
				out, err = eval.RotateNew(ct, k)
			}
			if err != nil {
				return opErr("ckks", "Rotate", err, keys, fmt.Sprintf("k=%d", k))
			}
			if err := check("Rotate", out, rotateC(vals, k), fmt.Sprintf("Rotate k=%d", k)); err != nil {
				return err
			}
		}
	case "chain":
		cur := ct.CopyNew()
		want := vals
		for _, k := range c.Ks {
			if err = eval.Rotate(cur, k, cur); err != nil {
				return opErr("ckks", "Rotate", err, keys, fmt.Sprintf("in place k=%d", k))
			}
			want = rotateC(want, k)
		}
		if err := check("Rotate:chain", cur, want, fmt.Sprintf("Rotate in place ks=%v", c.Ks)); err != nil {
			return err
		}
	case "conj", "conjNew":
		var out *rlwe.Ciphertext
		if c.Mode == "conj" {
			out = recv
			err = eval.Conjugate(ct, out)
		} else {
			out, err = eval.ConjugateNew(ct)
		}
		if err != nil {
			return opErr("ckks", "Conjugate", err, keys, "")
		}
		if err := check("Conjugate", out, conjAll(vals), "Conjugate"); err != nil {
			return err
		}
		if err = eval.Conjugate(out, out); err != nil {
			return opErr("ckks", "Conjugate", err, keys, "second")
		}
		if err := check("Conjugate:twice", out, vals, "Conjugate twice"); err != nil {
			return err
		}
	case "conjRot":
		k := c.Ks[0]
		a := recv
		if err = eval.Conjugate(ct, a); err != nil {
			return opErr("ckks", "Conjugate", err, keys, "")
		}
		if err = eval.Rotate(a, k, a); err != nil {
			return opErr("ckks", "Rotate", err, keys, fmt.Sprintf("k=%d", k))
		}
		b, err := eval.RotateNew(ct, k)
		if err != nil {
			return opErr("ckks", "Rotate", err, keys, fmt.Sprintf("k=%d", k))
		}
		if err = eval.Conjugate(b, b); err != nil {
			return opErr("ckks", "Conjugate", err, keys, "")
		}
		want := conjAll(rotateC(vals, k))
		if err := check("Conjugate+Rotate", a, want, fmt.Sprintf("conjugate then rotate k=%d", k)); err != nil {
			return err
		}
		if err := check("Rotate+Conjugate", b, want, fmt.Sprintf("rotate k=%d then conjugate", k)); err != nil {
			return err
		}
	case "hoisted", "hoistedNew":
		var res map[int]*rlwe.Ciphertext
		if c.Mode == "hoisted" {
			res = map[int]*rlwe.Ciphertext{}
			for _, k := range c.Ks {
				res[k] = ckks.NewCiphertext(p, 1, c.Level)
			}
			err = eval.RotateHoisted(ct, c.Ks, res)
		} else {
			res, err = eval.RotateHoistedNew(ct, c.Ks)
		}
		if err != nil {
			return opErr("ckks", "RotateHoisted", err, keys, fmt.Sprintf("ks=%v", c.Ks))
		}
		for _, k := range c.Ks {
			out, ok := res[k]
			if !ok {
				return h.Failf("C11:ckks:RotateHoisted:absent", "no entry for rotation %d in the returned map (ks=%v)", k, c.Ks)
			}
			if err := check("RotateHoisted", out, rotateC(vals, k), fmt.Sprintf("RotateHoisted(%s) k=%d of %v", c.Mode, k, c.Ks)); err != nil {
				return err
			}
		}
	case "lazy":
		levelP := p.MaxLevelP()
		if c.Set.Keys.Set {
			levelP = c.Set.Keys.LP // the caller decomposes for the auxiliary modulus of the keys
		}
		eval.DecomposeNTT(c.Level, levelP, levelP+1, ct.Value[1], ct.IsNTT, eval.BuffDecompQP)
		var res map[int]*rlwe.Element[ringqp.Poly]
		res, err = eval.RotateHoistedLazyNew(c.Level, c.Ks, ct, eval.BuffDecompQP)
		if err != nil {
			return opErr("ckks", "RotateHoistedLazyNew", err, keys, fmt.Sprintf("ks=%v", c.Ks))
		}
		for _, k := range c.Ks {
			e, ok := res[k]
			if !ok {
				if k == 0 {
					continue // the method skips the zero rotation
				}
				return h.Failf("C11:ckks:RotateHoistedLazyNew:absent", "no entry for rotation %d in the returned map (ks=%v)", k, c.Ks)
			}
			out := ckks.NewCiphertext(p, 1, c.Level)
			*out.MetaData = *ct.MetaData
			eval.ModDown(c.Level, levelP, e, out)
			*out.MetaData = *ct.MetaData
			if err := check("RotateHoistedLazyNew", out, rotateC(vals, k), fmt.Sprintf("RotateHoistedLazyNew+ModDown k=%d", k)); err != nil {
				return err
			}
		}
	default:
		return h.Failf("C11:harness:mode", "unknown mode %q", c.Mode)
	}
	if ch := sameSnapshot(snap, snapshot(ctx.sk, keys)); ch != "" {
		return h.Failf("C11:ckks:"+c.Mode+":key-material-modified", "%s changed during the operations", ch)
	}
	if c.Mode != "chain" {
		if err := check("input-intact", ct, vals, "input after "+c.Mode); err != nil {
			return err
		}
	}

	rec.Classf("mode=%s", c.Mode)
	rec.Classf("ring=%s", ringName(c.Set.P.CI))
	rec.Classf("logN=%d", c.Set.P.LogN)
	rec.Classf("nP=%d", len(c.Set.P.P))
	rec.Class(c.Set.Keys.class(p.MaxLevelQ(), p.MaxLevelP()))
	sparse := slots < maxSlots
	if sparse {
		rec.Class("sparse")
	}
	if c.Level < len(c.Set.P.Q)-1 {
		rec.Class("level<max")
	}
	nt := sparse
	var kc []string
	if usesRot {
		for _, k := range c.Ks {
			rec.Classf("k=%s", kClass(k, slots))
			kc = append(kc, kClass(k, slots))
			if !trivialK(k, slots) {
				nt = true
			}
		}
	}
	if nt {
		rec.NonTrivial(fmt.Sprintf("ckksrot|%s|%s|logN=%d|slots=%d|nP=%d|lvl=%d/%d|k=%v", c.Mode, ringName(c.Set.P.CI), c.Set.P.LogN, slots, len(c.Set.P.P), c.Level, len(c.Set.P.Q)-1, kc))
	}
	return nil
}

var propCKKSRot = h.NewProp("TestPropCKKSRotate", h.Budget{Quick: 600, Thorough: 20000}, genCKKSRot, runCKKSRot)

func TestPropCKKSRotate(t *testing.T) { propCKKSRot.Check(t) }

// ---------------------------------------------------------------------------------------------------------------------
// inner sums, rotate-and-add, replication, average

type CKKSSumCase struct {
	Set      CKKSSet `json:"set"`
	Level    int     `json:"level"`
	LogSlots int     `json:"logSlots"`
	Seed     uint64  `json:"seed"`
	Args     SumArgs `json:"args"`
}

func (c CKKSSumCase) RandSeed() uint64 { return c.Seed }

var ckksSumOps = []string{"InnerSum", "InnerSum", "RotateAndAdd", "RotateAndAdd", "Replicate", "PartialTracesSum", "Average", "InnerFunction", "Trace"}

func genCKKSSum(t *rapid.T) CKKSSumCase {
	var c CKKSSumCase
	op := ckksSumOps[rapid.IntRange(0, len(ckksSumOps)-1).Draw(t, "op")]
	c.Set = genCKKSSet(t, modReq{needP: hoistedSum(op), termsN: true}, 8)
	c.Level = rapid.IntRange(0, len(c.Set.P.Q)-1).Draw(t, "level")
	c.Set.Keys = genSetKeys(t, &c.Set.P.RLWESpec, c.Level, hoistedSum(op))
	c.LogSlots = genLogSlots(t, bitsLen(c.Set.maxSlots()), c.Set.P.CI)
	c.Seed = rapid.Uint64().Draw(t, "seed")
	slots := 1 << c.LogSlots
	c.Args = genSumArgs(t, op, slots, slots)
	if op == "Trace" {
		c.Args.Batch, c.Args.N = 1, c.Set.P.N()
		c.Args.LogTr = rapid.IntRange(0, c.Set.P.LogN-1).Draw(t, "logTr")
	}
	if c.Args.Op == "Average" {
		// Average takes log2(batch); n = slots / batch
		lb := rapid.IntRange(0, c.LogSlots).Draw(t, "logBatchAvg")
		c.Args.Batch = 1 << lb
		c.Args.N = slots >> lb
	}
	return c
}

// sumRotC returns sum_{i<n} rot(v, i*step).
func sumRotC(v []complex128, step, n int) []complex128 {
	out := make([]complex128, len(v))
	for i := 0; i < n; i++ {
		r := rotateC(v, i*step)
		for j := range out {
			out[j] += r[j]
		}
	}
	return out
}

func runCKKSSum(c CKKSSumCase, rec *h.Rec) error {
	ctx, err := newCKKSCtx(c.Set)
	if err != nil {
		return err
	}
	p := ctx.params
	slots := 1 << c.LogSlots
	maxSlots := p.MaxSlots()
	a := c.Args
	tol, ok := ctx.tol(c.Level, a.terms(), a.depth())
	if !ok || tol > math.Exp2(-6) {
		// cannot be judged (error bound too large for the scale / modulus): counted as trivial, never a violation
		rec.Class("unjudged:noise-margin")
		rec.Note("tolerance", tol)
		return nil
	}
	rng := h.NewSplitMix(c.Seed)
	vals := make([]complex128, slots)
	replOK := a.Op == "Replicate" && a.N*a.Batch <= slots
	for i := range vals {
		if replOK && i%(a.N*a.Batch) >= a.Batch || replOK && i-i%(a.N*a.Batch)+a.N*a.Batch > slots {
			continue // the zero gap Replicate requires between two sub-vectors (and after the last one)
		}
		re, im := rng.Float64()*2-1, rng.Float64()*2-1
		if c.Set.P.CI {
			im = 0
		}
		vals[i] = complex(re, im)
	}
	ct, err := ctx.encrypt(vals, c.Level, c.LogSlots)
	if err != nil {
		return err
	}
	if ct.Slots() != slots {
		return h.Failf("C11:ckks:Slots", "ciphertext reports %d slots, encoded with %d", ct.Slots(), slots)
	}

	var galEls []uint64
	switch a.Op {
	case "InnerSum", "RotateAndAdd", "Average":
		galEls = p.GaloisElementsForInnerSum(a.Batch, a.N)
	case "Replicate":
		galEls = p.GaloisElementsForReplicate(a.Batch, a.N)
	case "PartialTracesSum", "InnerFunction":
		galEls = rlwe.GaloisElementsForInnerSum(p, a.Batch, a.N)
	case "Trace":
		galEls = p.GaloisElementsForTrace(a.LogTr)
	}
	keys := keysFor(ctx.kgen, ctx.sk, galEls, c.Set.Bpw2, c.Set.Keys)
	eval := ckks.NewEvaluator(p, keys)

	snap := snapshot(ctx.sk, keys)
	out := ct
	if !a.InPlace {
		lvl := c.Level
		if a.OutMax {
			lvl = p.MaxLevel()
		}
		// the receiver had an earlier life (other data, other scale and packing, possibly a higher level)
		if out, err = ctx.usedReceiver(lvl, c.Seed); err != nil {
			return err
		}
	}
	detail := fmt.Sprintf("%s(batch=%d, n=%d) N=%d %s slots=%d/%d level=%d inPlace=%v", a.Op, a.Batch, a.N, p.N(), ringName(c.Set.P.CI), slots, maxSlots, c.Level, a.InPlace)
	if a.Op == "Trace" {
		detail = fmt.Sprintf("Trace(logN=%d) N=%d %s slots=%d/%d level=%d inPlace=%v", a.LogTr, p.N(), ringName(c.Set.P.CI), slots, maxSlots, c.Level, a.InPlace)
	}
	apply := func() error {
		switch a.Op {
		case "InnerSum":
			return eval.InnerSum(ct, a.Batch, a.N, out)
		case "RotateAndAdd":
			return eval.RotateAndAdd(ct, a.Batch, a.N, out)
		case "Replicate":
			return eval.Replicate(ct, a.Batch, a.N, out)
		case "PartialTracesSum":
			return eval.PartialTracesSum(ct, a.Batch, a.N, out)
		case "Average":
			return eval.Average(ct, bitsLen(a.Batch), out)
		case "InnerFunction":
			return eval.InnerFunction(ct, a.Batch, a.N, func(x, y, z *rlwe.Ciphertext) error { return eval.Add(x, y, z) }, out)
		case "Trace":
			return eval.Trace(ct, a.LogTr, out)
		}
		return nil
	}
	err = apply()
	if err != nil {
		return opErr("ckks", a.Op, err, keys, detail)
	}
	if a.Op == "Average" && !a.InPlace && (out.Level() != c.Level || !out.MetaData.Equal(ct.MetaData)) {
		// Average does not hand the input's level and MetaData (scale, packing) to a distinct receiver, unlike every other
		// evaluator method: listed finding. The search continues with a receiver that was prepared by hand.
		key := "C11:ckks:Average:receiver-metadata"
		msg := fmt.Sprintf("%s: receiver level %d (input %d), receiver MetaData %+v / %+v, input MetaData %+v / %+v", detail, out.Level(), c.Level,
			out.PlaintextMetaData, out.CiphertextMetaData, ct.PlaintextMetaData, ct.CiphertextMetaData)
		if !rec.Known(key, msg) {
			return h.Failf(key, "%s", msg)
		}
		rec.Class("known=Average:receiver-metadata")
		out = ckks.NewCiphertext(p, 1, c.Level)
		*out.MetaData = *ct.MetaData
		keys.reset()
		if err = eval.Average(ct, bitsLen(a.Batch), out); err != nil {
			return opErr("ckks", a.Op, err, keys, detail)
		}
	}
	if out.Level() != c.Level {
		return h.Failf("C11:ckks:"+a.Op+":level", "%s: output level %d", detail, out.Level())
	}
	if out.LogDimensions != (ring.Dimensions{Rows: 0, Cols: c.LogSlots}) {
		return h.Failf("C11:ckks:"+a.Op+":dimensions", "%s: output LogDimensions %+v", detail, out.LogDimensions)
	}
	have, err := ctx.decrypt(out, slots)
	if err != nil {
		return err
	}

	var want []complex128
	compare := make([]bool, slots)
	switch a.Op {
	case "InnerSum":
		want = sumRotC(vals, a.Batch, a.N)
		l := a.N * a.Batch
		for j := range compare {
			compare[j] = j%l < a.Batch // leftmost sub-vector of each group of n
		}
	case "RotateAndAdd", "PartialTracesSum":
		want = sumRotC(vals, a.Batch, a.N)
		for j := range compare {
			compare[j] = true
		}
	case "InnerFunction":
		want = sumRotC(vals, a.Batch, a.N)
		l := a.N * a.Batch
		for j := range compare {
			compare[j] = j%l < a.Batch && j-j%l+l <= slots
		}
	case "Replicate":
		want = sumRotC(vals, -a.Batch, a.N)
		for j := range compare {
			compare[j] = true
		}
		if replOK {
			period := a.Batch * a.N
			for start := 0; start+period <= slots; start += period {
				for j := 0; j < period; j++ {
					if want[start+j] != vals[start+j%a.Batch] {
						return h.Failf("C11:harness:replicate-model", "model inconsistency at slot %d", start+j)
					}
				}
			}
		}
	case "Trace":
		// The trace projects the plaintext polynomial on the sub-ring fixed by the subgroup generated by 5^(2^logN)
		// (and by the conjugation for logN = 0 in the standard ring): every slot of the maximum-size slot vector (the
		// packed vector repeated) becomes the average over its orbit under the rotations by multiples of 2^logN.
		full := make([]complex128, maxSlots)
		for i := range full {
			full[i] = vals[i%slots]
		}
		cnt := maxSlots >> a.LogTr
		avg := sumRotC(full, 1<<a.LogTr, cnt)
		want = make([]complex128, slots)
		for j := range want {
			w := avg[j] / complex(float64(cnt), 0)
			if a.LogTr == 0 && !c.Set.P.CI {
				w = complex(real(w), 0) // (x + conj(x))/2
			}
			want[j] = w
			compare[j] = true
		}
	case "Average":
		want = sumRotC(vals, a.Batch, a.N)
		for j := range want {
			want[j] /= complex(float64(a.N), 0)
			compare[j] = true
		}
	}
	if i, d := firstDiffC(have, want, tol, compare); i >= 0 {
		key := "C11:ckks:" + a.Op + ":value"
		if a.Op == "Average" && slots < maxSlots {
			key = "C11:ckks:Average:sparse:value"
		}
		return h.Failf(key, "%s: slot %d = %v, expected %v (|diff|=%.3g > tol %.3g) logScale=%d\n have %s\n want %s\n  in  %s",
			detail, i, have[i], want[i], d, tol, c.Set.P.LogScale, fmtC(have, 8), fmtC(want, 8), fmtC(vals, 8))
	}
	if !a.InPlace {
		back, err := ctx.decrypt(ct, slots)
		if err != nil {
			return err
		}
		if i, d := firstDiffC(back, vals, tol, nil); i >= 0 {
			return h.Failf("C11:ckks:"+a.Op+":input-modified", "%s: input slot %d changed from %v to %v (%.3g)", detail, i, vals[i], back[i], d)
		}
	}
	if !a.InPlace {
		// second use of the same evaluator into the same receiver (which now holds the first result)
		if err = apply(); err != nil {
			return opErr("ckks", a.Op, err, keys, detail+" (second use)")
		}
		again, err := ctx.decrypt(out, slots)
		if err != nil {
			return err
		}
		if i, d := firstDiffC(again, want, tol, compare); i >= 0 {
			return h.Failf("C11:ckks:"+a.Op+":second-use:value", "%s: second evaluation into the same receiver: slot %d = %v, expected %v (|diff|=%.3g > tol %.3g)", detail, i, again[i], want[i], d, tol)
		}
	}
	if ch := sameSnapshot(snap, snapshot(ctx.sk, keys)); ch != "" {
		return h.Failf("C11:ckks:"+a.Op+":key-material-modified", "%s: %s changed during the operation", detail, ch)
	}

	rec.Classf("op=%s", a.Op)
	rec.Classf("ring=%s", ringName(c.Set.P.CI))
	rec.Classf("logN=%d", c.Set.P.LogN)
	rec.Class(c.Set.Keys.class(p.MaxLevelQ(), p.MaxLevelP()))
	rec.Classf("args=%s", a.class(slots, slots))
	if slots < maxSlots {
		rec.Class("sparse")
	}
	if a.InPlace {
		rec.Class("in-place")
	}
	if a.Op == "Trace" {
		rec.Classf("logTr=%d/%d", a.LogTr, c.Set.P.LogN)
	}
	if a.nonTrivial(slots, slots) || slots < maxSlots || a.Op == "Trace" {
		rec.NonTrivial(fmt.Sprintf("logTr=%d|ckkssum|%s|%s|logN=%d|slots=%d|nP=%d|lvl=%d/%d|batch=%d|n=%d|inplace=%v", a.LogTr, a.Op, ringName(c.Set.P.CI), c.Set.P.LogN, slots, len(c.Set.P.P), c.Level, len(c.Set.P.Q)-1, a.Batch, a.N, a.InPlace))
	}
	return nil
}

var propCKKSSum = h.NewProp("TestPropCKKSSums", h.Budget{Quick: 600, Thorough: 20000}, genCKKSSum, runCKKSSum)

func TestPropCKKSSums(t *testing.T) { propCKKSSum.Check(t) }
