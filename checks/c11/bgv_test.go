package c11

import (
	"fmt"
	"math"
	"math/bits"
	"strings"
	"testing"

	"verif/internal/h"

	"github.com/tuneinsight/lattigo/v6/core/rlwe"
	"github.com/tuneinsight/lattigo/v6/ring/ringqp"
	"github.com/tuneinsight/lattigo/v6/schemes/bgv"
	"pgregory.net/rapid"
)

// BGVSet is a BGV parameter literal plus the power-of-two decomposition used for the evaluation keys (0 = none).
type BGVSet struct {
	P    h.BGVSpec `json:"params"`
	Bpw2 int       `json:"bpw2,omitempty"`
	Keys KeyLevels `json:"keys,omitempty"`
}

// tOrder returns the number of slots the plaintext modulus t supports in a ring of degree 2^logN: min(N, largest
// power of two n with t = 1 mod 2n).
func tSlots(t uint64, logN int) int {
	n := 1
	for (t-1)%(uint64(4)*uint64(n)) == 0 && n < 1<<logN {
		n <<= 1
	}
	return n
}

// modReq describes what the moduli must leave room for.
type modReq struct {
	needP      bool
	terms      int // number of ciphertexts summed in the result
	depth      int // key switches on any path
	msgLog2    float64
	msgOverTot float64 // alternative to msgLog2: message size in bits above the worst-case noise (rlwe-level props)
	scaleLog2  float64 // 0 for bgv
	extraLog2  float64 // additional factor on the noise (plaintext modulus for bgv)
	allowNoNTT bool
	termsN     bool // terms = ring degree, depth = log2(ring degree) + 3 (sums over at most all slots), set once the degree is drawn
}

// ksChoice is the drawn shape of the moduli and of the key decomposition, with the resulting worst-case noise.
type ksChoice struct {
	nQ, nP, bpw2 int
	tot          float64 // log2 of the worst-case total noise of the requested computation (without req.extraLog2)
}

// worstKS is log2 of the worst-case key-switch noise over the prime sizes that can be drawn (Q primes <= 60 bits, P
// primes of 61 bits) for the given shape.
func worstKS(n, nQ, nP, bpw2 int, be, sl1 float64) float64 {
	if nP > 0 {
		beta := (nQ + nP - 1) / nP
		return math.Log2(float64(beta)*float64(n)*float64(nP+1)*be + 2*(1+sl1))
	}
	d := (60 + bpw2 - 1) / bpw2
	return math.Log2(float64(nQ*d) * float64(n) * math.Exp2(float64(bpw2)) * be)
}

// genKS draws the number of Q primes (1..3), of P primes (0..2) and the power-of-two basis used when there is no P.
// When maxTot > 0 the drawn shape is adjusted (smaller basis, then one auxiliary prime, then fewer Q primes) until the
// worst-case noise of the requested computation is at most 2^maxTot: the generator constructs parameters with enough
// room instead of producing cases that cannot be judged.
func genKS(t *rapid.T, logN int, xs, xe h.DistSpec, req modReq, maxTot float64) ksChoice {
	n := 1 << logN
	var c ksChoice
	c.nQ = rapid.IntRange(1, 3).Draw(t, "nQ")
	loP := 0
	if req.needP {
		loP = 1
	}
	c.nP = rapid.IntRange(loP, 2).Draw(t, "nP")
	if c.nP == 0 {
		c.bpw2 = rapid.IntRange(2, 8).Draw(t, "bpw2")
	}
	be, sl1 := xe.AbsBound(), h.SecretL1(xs, n)
	eval := func() { c.tot = totalNoiseLog2(req.terms, req.depth, worstKS(n, c.nQ, c.nP, c.bpw2, be, sl1), be) }
	eval()
	if maxTot > 0 {
		for c.tot > maxTot && c.nP == 0 && c.bpw2 > 2 {
			c.bpw2--
			eval()
		}
		if c.tot > maxTot && c.nP == 0 {
			c.nP, c.bpw2 = 1, 0
			eval()
		}
		for c.tot > maxTot && c.nQ > 1 {
			c.nQ--
			eval()
		}
	}
	return c
}

// genPrimes draws the primes for a shape: Q primes of at least `need` (+1) bits and at most 60 bits, P primes of 61 bits.
func genPrimes(t *rapid.T, nthRoot uint64, c ksChoice, need float64, used map[uint64]bool) (Q, P []uint64) {
	minBits := int(math.Ceil(need)) + 1 // a b-bit prime is only known to be >= 2^(b-1)
	if mb := h.MinPrimeBits(nthRoot); minBits < mb {
		minBits = mb
	}
	if minBits < 20 {
		minBits = 20
	}
	if minBits > 60 {
		minBits = 60 // not reachable when the caller bounded the noise through genKS; run() re-checks and skips otherwise
	}
	Q = h.GenPrimes(t, h.GenSizes(t, c.nQ, minBits, 60, "q"), nthRoot, used, "q")
	if c.nP > 0 {
		sz := make([]int, c.nP)
		for i := range sz {
			sz[i] = 61
		}
		P = h.GenPrimes(t, sz, nthRoot, used, "p")
	}
	return
}

// genModuli draws Q, P and the power-of-two basis so that the worst-case noise of the requested computation (times
// 2^extraLog2) stays at least 2^9 below Q at level 0, and a message of msgLog2 (or msgOverTot above the noise) bits fits.
func genModuli(t *rapid.T, logN int, nthRoot uint64, xs, xe h.DistSpec, req modReq, used map[uint64]bool) (Q, P []uint64, bpw2 int) {
	// every requirement must end below 59 bits so that a prime of at most 60 bits can satisfy it
	maxTot := 59 - 10 - req.extraLog2
	if req.msgOverTot > 0 && 59-2-req.msgOverTot < maxTot {
		maxTot = 59 - 2 - req.msgOverTot
	}
	c := genKS(t, logN, xs, xe, req, maxTot)
	need := math.Max(c.tot+req.extraLog2+1+9, req.msgLog2+2)
	if req.msgOverTot > 0 {
		need = math.Max(need, c.tot+req.msgOverTot+2)
	}
	Q, P = genPrimes(t, nthRoot, c, need, used)
	return Q, P, c.bpw2
}

func genBGVSet(t *rapid.T, req modReq) BGVSet {
	var s BGVSet
	big := 9 // sums over up to N terms
	if req.terms == 1 {
		big = 10
	}
	s.P.LogN = genLogN(t, big)
	s.P.NTT = true
	n := s.P.N()
	// plaintext modulus: t = 1 mod 2^(logT+1) with logT in 3..logN (fewer slots than N when logT < logN)
	logT := s.P.LogN
	if rapid.IntRange(0, 3).Draw(t, "sparseT") == 0 {
		logT = rapid.IntRange(3, s.P.LogN).Draw(t, "logT")
	}
	tb := rapid.IntRange(logT+2, 18).Draw(t, "tBits")
	used := map[uint64]bool{}
	s.P.T = h.GenPlainModulus(t, logT, tb, used)
	s.P.Xs = h.GenDist(t, true, n, "xs")
	s.P.Xe = h.GenDist(t, false, n, "xe")
	req.extraLog2 = math.Log2(float64(s.P.T))
	req.msgLog2 = math.Log2(float64(s.P.T))
	if req.termsN {
		req.terms, req.depth = n, s.P.LogN+3
	}
	s.P.Q, s.P.P, s.Bpw2 = genModuli(t, s.P.LogN, uint64(2*n), s.P.Xs, s.P.Xe, req, used)
	return s
}

// bgvCtx is everything built from a BGVSet inside a case (deterministic: crypto/rand is seeded by the harness).
type bgvCtx struct {
	set    BGVSet
	params bgv.Parameters
	kgen   *rlwe.KeyGenerator
	sk     *rlwe.SecretKey
	enc    *rlwe.Encryptor
	dec    *rlwe.Decryptor
	ecd    *bgv.Encoder
	slots  int // total
	cols   int
}

func newBGVCtx(s BGVSet) (*bgvCtx, error) {
	p, err := s.P.Build()
	if err != nil {
		return nil, h.Failf("C11:bgv:params", "cannot build parameters: %v", err)
	}
	c := &bgvCtx{set: s, params: p}
	c.kgen = bgv.NewKeyGenerator(p)
	c.sk = c.kgen.GenSecretKeyNew()
	c.enc = bgv.NewEncryptor(p, c.sk)
	c.dec = bgv.NewDecryptor(p, c.sk)
	c.ecd = bgv.NewEncoder(p)
	c.slots = p.MaxSlots()
	c.cols = p.MaxDimensions().Cols
	if want := tSlots(s.P.T, s.P.LogN); c.slots != want || c.cols != want/2 || p.MaxDimensions().Rows != 2 {
		return nil, h.Failf("C11:bgv:dimensions", "t=%d logN=%d: MaxSlots=%d MaxDimensions=%+v, expected 2 x %d", s.P.T, s.P.LogN, c.slots, p.MaxDimensions(), want/2)
	}
	return c, nil
}

// marginOK recomputes the noise bound with the actual moduli; a case below the margin cannot discriminate.
func (c *bgvCtx) margin(level, terms, depth int) float64 {
	s := c.set
	be, sl1 := s.P.Xe.AbsBound(), h.SecretL1(s.P.Xs, s.P.N())
	ks := ksNoiseLog2(s.P.N(), s.P.Q[:level+1], s.Keys.usedP(s.P.P), s.Bpw2, be, sl1)
	tot := totalNoiseLog2(terms, depth, ks, be) + math.Log2(float64(s.P.T))
	return log2Prod(s.P.Q[:level+1]) - 1 - tot
}

func (c *bgvCtx) encrypt(vals []uint64, level int) (*rlwe.Ciphertext, error) {
	pt := bgv.NewPlaintext(c.params, level)
	if err := c.ecd.Encode(vals, pt); err != nil {
		return nil, h.Failf("C11:bgv:encode", "Encode: %v", err)
	}
	ct, err := c.enc.EncryptNew(pt)
	if err != nil {
		return nil, h.Failf("C11:bgv:encrypt", "EncryptNew: %v", err)
	}
	return ct, nil
}

// usedReceiver returns a ciphertext with an earlier life: a genuine encryption of unrelated values at the given level
// under another plaintext scale. Operations writing into it must overwrite data, level and metadata.
func (c *bgvCtx) usedReceiver(level int, seed uint64) (*rlwe.Ciphertext, error) {
	pt := bgv.NewPlaintext(c.params, level)
	pt.Scale = c.params.NewScale(7)
	if err := c.ecd.Encode(distinctVals(seed^0x5bd1e995, c.slots, c.set.P.T), pt); err != nil {
		return nil, h.Failf("C11:bgv:encode", "Encode: %v", err)
	}
	ct, err := c.enc.EncryptNew(pt)
	if err != nil {
		return nil, h.Failf("C11:bgv:encrypt", "EncryptNew: %v", err)
	}
	return ct, nil
}

func (c *bgvCtx) decrypt(ct *rlwe.Ciphertext) ([]uint64, error) {
	out := make([]uint64, c.slots)
	if err := c.ecd.Decode(c.dec.DecryptNew(ct), out); err != nil {
		return nil, h.Failf("C11:bgv:decode", "Decode: %v", err)
	}
	return out, nil
}

// rotRows applies the per-row left rotation by k to a 2 x cols matrix stored row after row.
func rotRows(v []uint64, cols, k int) []uint64 {
	out := make([]uint64, 0, len(v))
	out = append(out, rotateU(v[:cols], k)...)
	out = append(out, rotateU(v[cols:], k)...)
	return out
}

func swapRows(v []uint64, cols int) []uint64 {
	out := make([]uint64, 0, len(v))
	out = append(out, v[cols:]...)
	out = append(out, v[:cols]...)
	return out
}

// distinctVals returns `slots` pairwise distinct values modulo the prime t (an affine map of the index).
func distinctVals(seed uint64, slots int, t uint64) []uint64 {
	rng := h.NewSplitMix(seed)
	a := 1 + rng.Uint64()%(t-1)
	b := rng.Uint64() % t
	out := make([]uint64, slots)
	for i := range out {
		hi, lo := bits.Mul64(a, uint64(i))
		_, r := bits.Div64(hi%t, lo, t)
		out[i] = (r + b) % t
	}
	return out
}

func mulModU(a, b, t uint64) uint64 {
	hi, lo := bits.Mul64(a%t, b%t)
	_, r := bits.Div64(hi, lo, t)
	return r
}

// invModU is a^-1 modulo the prime t.
func invModU(a, t uint64) uint64 {
	r, e := uint64(1), t-2
	for a %= t; e > 0; e >>= 1 {
		if e&1 == 1 {
			r = mulModU(r, a, t)
		}
		a = mulModU(a, a, t)
	}
	return r
}

func firstDiff(a, b []uint64) int {
	for i := range a {
		if a[i] != b[i] {
			return i
		}
	}
	return -1
}

func isMissingKey(err error) bool {
	return err != nil && (strings.Contains(err.Error(), "missing") || strings.Contains(err.Error(), "not found") || strings.Contains(err.Error(), "GaloisKey"))
}

// opErr turns an error returned by an operation run with exactly the advertised keys into a failure.
func opErr(scheme, op string, err error, keys *recKeys, detail string) error {
	if len(keys.missing) > 0 || isMissingKey(err) {
		return h.Failf("C11:"+scheme+":"+op+":missing-key", "%s: %v (missing Galois elements %v, generated %v)", detail, err, keys.missing, keys.GetGaloisKeysList())
	}
	return h.Failf("C11:"+scheme+":"+op+":error", "%s: %v", detail, err)
}

// ---------------------------------------------------------------------------------------------------------------------
// rotations

type BGVRotCase struct {
	Set   BGVSet `json:"set"`
	Level int    `json:"level"`
	Seed  uint64 `json:"seed"`
	Mode  string `json:"mode"`
	Ks    []int  `json:"ks"`
}

func (c BGVRotCase) RandSeed() uint64 { return c.Seed }

var bgvRotModes = []string{"cols", "colsNew", "chain", "rows", "rowsNew", "rowsCols", "lazy"}

func genBGVRot(t *rapid.T) BGVRotCase {
	var c BGVRotCase
	c.Mode = bgvRotModes[rapid.IntRange(0, len(bgvRotModes)-1).Draw(t, "mode")]
	c.Set = genBGVSet(t, modReq{needP: c.Mode == "lazy", terms: 1, depth: 4})
	c.Level = rapid.IntRange(0, len(c.Set.P.Q)-1).Draw(t, "level")
	c.Set.Keys = genSetKeys(t, &c.Set.P.RLWESpec, c.Level, false)
	c.Seed = rapid.Uint64().Draw(t, "seed")
	cols := tSlots(c.Set.P.T, c.Set.P.LogN) / 2
	nk := rapid.IntRange(1, 3).Draw(t, "nk")
	for i := 0; i < nk; i++ {
		c.Ks = append(c.Ks, genK(t, cols, fmt.Sprintf("k%d", i)))
	}
	return c
}

func runBGVRot(c BGVRotCase, rec *h.Rec) error {
	ctx, err := newBGVCtx(c.Set)
	if err != nil {
		return err
	}
	p := ctx.params
	cols := ctx.cols
	if m := ctx.margin(c.Level, 1, 4); m < 6 {
		// cannot be judged (noise bound too close to the modulus): counted as trivial, never reported as a violation
		rec.Class("unjudged:noise-margin")
		rec.Note("margin-log2", m)
		return nil
	}
	vals := distinctVals(c.Seed, ctx.slots, c.Set.P.T)
	ct, err := ctx.encrypt(vals, c.Level)
	if err != nil {
		return err
	}

	// advertised Galois elements for this case
	var galEls []uint64
	usesRows := c.Mode == "rows" || c.Mode == "rowsNew" || c.Mode == "rowsCols"
	usesCols := !(c.Mode == "rows" || c.Mode == "rowsNew")
	if usesCols {
		for _, k := range c.Ks {
			g := p.GaloisElementForColRotation(k)
			// (with a plaintext modulus supporting fewer than N slots the elements for k and k mod cols differ modulo 2N
			// but act identically on the plaintext ring: only the ring-level identity is asserted here)
			if half := p.N() / 2; g != p.GaloisElement(emod(k, half)) {
				return h.Failf("C11:bgv:GaloisElementForColRotation:mod-slots", "k=%d N/2=%d: element %d != element(k mod N/2)=%d", k, half, g, p.GaloisElement(emod(k, half)))
			}
			galEls = append(galEls, g)
		}
	}
	if usesRows {
		galEls = append(galEls, p.GaloisElementForRowRotation())
	}
	keys := keysFor(ctx.kgen, ctx.sk, galEls, c.Set.Bpw2, c.Set.Keys)
	eval := bgv.NewEvaluator(p, keys)
	snap := snapshot(ctx.sk, keys)
	// one receiver for all out-of-place calls of the case: it starts as a genuine ciphertext at the maximum level under
	// another scale and then carries the previous result
	recv, err := ctx.usedReceiver(p.MaxLevel(), c.Seed)
	if err != nil {
		return err
	}

	check := func(op string, got *rlwe.Ciphertext, want []uint64, detail string) error {
		have, err := ctx.decrypt(got)
		if err != nil {
			return err
		}
		if i := firstDiff(have, want); i >= 0 {
			return h.Failf("C11:bgv:"+op+":value", "%s: slot %d (row %d col %d) = %d, expected %d; N=%d slots=2x%d level=%d t=%d\n have %s\n want %s\n  in  %s",
				detail, i, i/cols, i%cols, have[i], want[i], p.N(), cols, c.Level, c.Set.P.T, fmtU(have, 16), fmtU(want, 16), fmtU(vals, 16))
		}
		if got.Level() != c.Level {
			return h.Failf("C11:bgv:"+op+":level", "%s: output level %d, input level %d", detail, got.Level(), c.Level)
		}
		return nil
	}

	switch c.Mode {
	case "cols", "colsNew":
		for _, k := range c.Ks {
			var out *rlwe.Ciphertext
			if c.Mode == "cols" {
				out = recv
				err = eval.RotateColumns(ct, k, out)
			} else {
				out, err = eval.RotateColumnsNew(ct, k)
			}
			if err != nil {
				return opErr("bgv", "RotateColumns", err, keys, fmt.Sprintf("k=%d", k))
			}
			if err := check("RotateColumns", out, rotRows(vals, cols, k), fmt.Sprintf("RotateColumns k=%d", k)); err != nil {
				return err
			}
		}
	case "chain":
		// in place, one after the other: the result is the rotation by the (arbitrary precision) sum
		cur := ct.CopyNew()
		want := vals
		for _, k := range c.Ks {
			if err = eval.RotateColumns(cur, k, cur); err != nil {
				return opErr("bgv", "RotateColumns", err, keys, fmt.Sprintf("in place k=%d", k))
			}
			want = rotRows(want, cols, k)
		}
		if err := check("RotateColumns:chain", cur, want, fmt.Sprintf("RotateColumns in place ks=%v", c.Ks)); err != nil {
			return err
		}
	case "rows", "rowsNew":
		var out *rlwe.Ciphertext
		if c.Mode == "rows" {
			out = recv
			err = eval.RotateRows(ct, out)
		} else {
			out, err = eval.RotateRowsNew(ct)
		}
		if err != nil {
			return opErr("bgv", "RotateRows", err, keys, "")
		}
		if err := check("RotateRows", out, swapRows(vals, cols), "RotateRows"); err != nil {
			return err
		}
		if err = eval.RotateRows(out, out); err != nil {
			return opErr("bgv", "RotateRows", err, keys, "second")
		}
		if err := check("RotateRows:twice", out, vals, "RotateRows twice"); err != nil {
			return err
		}
	case "rowsCols":
		k := c.Ks[0]
		a := recv
		if err = eval.RotateRows(ct, a); err != nil {
			return opErr("bgv", "RotateRows", err, keys, "")
		}
		if err = eval.RotateColumns(a, k, a); err != nil {
			return opErr("bgv", "RotateColumns", err, keys, fmt.Sprintf("k=%d", k))
		}
		b, err := eval.RotateColumnsNew(ct, k)
		if err != nil {
			return opErr("bgv", "RotateColumns", err, keys, fmt.Sprintf("k=%d", k))
		}
		if err = eval.RotateRows(b, b); err != nil {
			return opErr("bgv", "RotateRows", err, keys, "")
		}
		want := swapRows(rotRows(vals, cols, k), cols)
		if err := check("RotateRows+Columns", a, want, fmt.Sprintf("rows then columns k=%d", k)); err != nil {
			return err
		}
		if err := check("RotateColumns+Rows", b, want, fmt.Sprintf("columns k=%d then rows", k)); err != nil {
			return err
		}
	case "lazy":
		levelP := p.MaxLevelP()
		if c.Set.Keys.Set {
			levelP = c.Set.Keys.LP // the caller decomposes for the auxiliary modulus of the keys
		}
		eval.DecomposeNTT(c.Level, levelP, levelP+1, ct.Value[1], ct.IsNTT, eval.BuffDecompQP)
		var res map[int]*rlwe.Element[ringqp.Poly]
		res, err = eval.RotateHoistedLazyNew(c.Level, c.Ks, ct, eval.BuffDecompQP)
		if err != nil {
			return opErr("bgv", "RotateHoistedLazyNew", err, keys, fmt.Sprintf("ks=%v", c.Ks))
		}
		for _, k := range c.Ks {
			e, ok := res[k]
			if !ok {
				if k == 0 {
					continue // the method skips the zero rotation
				}
				return h.Failf("C11:bgv:RotateHoistedLazyNew:absent", "no entry for rotation %d in the returned map (ks=%v)", k, c.Ks)
			}
			out := bgv.NewCiphertext(p, 1, c.Level)
			*out.MetaData = *ct.MetaData
			eval.ModDown(c.Level, levelP, e, out)
			*out.MetaData = *ct.MetaData
			if err := check("RotateHoistedLazyNew", out, rotRows(vals, cols, k), fmt.Sprintf("RotateHoistedLazyNew+ModDown k=%d", k)); err != nil {
				return err
			}
		}
	default:
		return h.Failf("C11:harness:mode", "unknown mode %q", c.Mode)
	}

	if ch := sameSnapshot(snap, snapshot(ctx.sk, keys)); ch != "" {
		return h.Failf("C11:bgv:"+c.Mode+":key-material-modified", "%s changed during the operations", ch)
	}
	// the input ciphertext is untouched by the out-of-place variants
	if c.Mode != "chain" {
		if err := check("input-intact", ct, vals, "input after "+c.Mode); err != nil {
			return err
		}
	}

	rec.Classf("mode=%s", c.Mode)
	rec.Classf("logN=%d", c.Set.P.LogN)
	rec.Classf("nP=%d", len(c.Set.P.P))
	rec.Class(c.Set.Keys.class(p.MaxLevelQ(), p.MaxLevelP()))
	if ctx.slots < p.N() {
		rec.Class("sparse-t")
	}
	if c.Level < len(c.Set.P.Q)-1 {
		rec.Class("level<max")
	}
	nt := ctx.slots < p.N()
	var kc []string
	if usesCols {
		for _, k := range c.Ks {
			rec.Classf("k=%s", kClass(k, cols))
			kc = append(kc, kClass(k, cols))
			if !trivialK(k, cols) {
				nt = true
			}
		}
	}
	if nt {
		rec.NonTrivial(fmt.Sprintf("bgvrot|%s|logN=%d|slots=%d|nP=%d|lvl=%d/%d|k=%v", c.Mode, c.Set.P.LogN, ctx.slots, len(c.Set.P.P), c.Level, len(c.Set.P.Q)-1, kc))
	}
	return nil
}

var propBGVRot = h.NewProp("TestPropBGVRotate", h.Budget{Quick: 600, Thorough: 20000}, genBGVRot, runBGVRot)

func TestPropBGVRotate(t *testing.T) { propBGVRot.Check(t) }

// ---------------------------------------------------------------------------------------------------------------------
// inner sums, rotate-and-add, replication

type SumArgs struct {
	Op      string `json:"op"` // InnerSum | RotateAndAdd | Replicate | PartialTracesSum
	Batch   int    `json:"batch"`
	N       int    `json:"n"`
	InPlace bool   `json:"inPlace,omitempty"`
	OutMax  bool   `json:"outMax,omitempty"` // receiver allocated at the maximum level instead of the input level
	LogTr   int    `json:"logTr,omitempty"`  // Trace: the argument logN (n is then the ring degree, for the noise bound)
}

// genSumArgs draws an operation and (batch, n) in its documented domain. cols is the length of one row (the period of
// rotations), total the number of slots Ciphertext.Slots() reports (2*cols for the two-row layout, cols otherwise).
func genSumArgs(t *rapid.T, op string, cols, total int) SumArgs {
	var a SumArgs
	a.Op = op
	a.InPlace = rapid.IntRange(0, 3).Draw(t, "inPlace") == 0
	a.OutMax = rapid.IntRange(0, 3).Draw(t, "outMax") == 0
	logTotal := bits.Len(uint(total)) - 1
	switch a.Op {
	case "InnerSum":
		// n*batch must be a power of two (it has to divide the number of slots) and at most the number of slots
		var j int
		switch rapid.IntRange(0, 3).Draw(t, "lclass") {
		case 0:
			j = logTotal
		case 1:
			j = bits.Len(uint(cols)) - 1
		default:
			j = rapid.IntRange(0, logTotal).Draw(t, "logl")
		}
		i := rapid.IntRange(0, j).Draw(t, "logbatch")
		a.Batch = 1 << i
		a.N = 1 << (j - i)
	default:
		lim := total
		if a.Op == "Replicate" || a.Op == "InnerFunction" {
			lim = cols
		}
		switch rapid.IntRange(0, 4).Draw(t, "bnclass") {
		case 0: // n*batch exactly the limit (row boundary)
			i := rapid.IntRange(0, bits.Len(uint(lim))-1).Draw(t, "logbatch")
			a.Batch = 1 << i
			a.N = lim >> i
		case 1: // batch 1, any n
			a.Batch = 1
			a.N = rapid.IntRange(1, lim).Draw(t, "n")
		case 2: // batch first
			a.Batch = rapid.IntRange(1, lim).Draw(t, "batch")
			a.N = rapid.IntRange(1, lim/a.Batch).Draw(t, "n")
		default: // n first (n = 1 is the identity: rare)
			a.N = rapid.IntRange(1, lim).Draw(t, "n")
			if a.N == 1 && lim > 1 {
				a.N = 2 + rapid.IntRange(0, lim-2).Draw(t, "n2")
			}
			a.Batch = rapid.IntRange(1, lim/a.N).Draw(t, "batch")
		}
		if a.Op == "PartialTracesSum" && rapid.Bool().Draw(t, "negOffset") {
			a.Batch = -a.Batch
		}
	}
	return a
}

func (a SumArgs) terms() int { return a.N }
func (a SumArgs) depth() int { return bits.Len(uint(a.N)) + 2 }

func absInt(x int) int {
	if x < 0 {
		return -x
	}
	return x
}

func (a SumArgs) class(cols, total int) string {
	l := a.N * absInt(a.Batch)
	var s []string
	if a.N&(a.N-1) != 0 {
		s = append(s, "n-not-pow2")
	} else if a.N == 1 {
		s = append(s, "n=1")
	} else {
		s = append(s, "n-pow2")
	}
	if a.Batch&(a.Batch-1) != 0 && a.Batch > 0 {
		s = append(s, "batch-not-pow2")
	}
	if a.Batch < 0 {
		s = append(s, "offset<0")
	}
	switch {
	case l == total:
		s = append(s, "l=slots")
	case l == cols:
		s = append(s, "l=row")
	case l > cols:
		s = append(s, "l>row")
	}
	return strings.Join(s, ",")
}

// nonTrivial by the rule of the property: non-power-of-two n, or n*batch = slots (row boundary), or sparse packing.
func (a SumArgs) nonTrivial(cols, total int) bool {
	l := a.N * absInt(a.Batch)
	return a.N&(a.N-1) != 0 || l == total || l == cols
}

type BGVSumCase struct {
	Set   BGVSet  `json:"set"`
	Level int     `json:"level"`
	Seed  uint64  `json:"seed"`
	Args  SumArgs `json:"args"`
}

func (c BGVSumCase) RandSeed() uint64 { return c.Seed }

var bgvSumOps = []string{"InnerSum", "InnerSum", "RotateAndAdd", "RotateAndAdd", "Replicate", "PartialTracesSum", "InnerFunction", "Trace"}

// hoistedSum reports whether the operation is built on PartialTracesSum (needs an auxiliary modulus and keys at MaxLevelP).
func hoistedSum(op string) bool { return op != "InnerFunction" && op != "Trace" }

func genBGVSum(t *rapid.T) BGVSumCase {
	var c BGVSumCase
	// the ring degree and plaintext modulus fix the slot count, which bounds (batch, n), which fixes the noise: the
	// set is drawn for the worst case of the ring degree.
	op := bgvSumOps[rapid.IntRange(0, len(bgvSumOps)-1).Draw(t, "op")]
	// every operation built on PartialTracesSum hoists and needs an auxiliary modulus; InnerFunction does not
	c.Set = genBGVSet(t, modReq{needP: hoistedSum(op), termsN: true})
	c.Level = rapid.IntRange(0, len(c.Set.P.Q)-1).Draw(t, "level")
	c.Set.Keys = genSetKeys(t, &c.Set.P.RLWESpec, c.Level, hoistedSum(op))
	c.Seed = rapid.Uint64().Draw(t, "seed")
	total := tSlots(c.Set.P.T, c.Set.P.LogN)
	c.Args = genSumArgs(t, op, total/2, total)
	if op == "Trace" {
		c.Args.Batch, c.Args.N = 1, c.Set.P.N()
		c.Args.LogTr = rapid.IntRange(0, c.Set.P.LogN-1).Draw(t, "logTr")
	}
	return c
}

// sumRotU returns sum_{i<n} rot(v, i*step) modulo t for one row.
func sumRotU(v []uint64, step, n int, t uint64) []uint64 {
	out := make([]uint64, len(v))
	for i := 0; i < n; i++ {
		// i*step stays far below 2^63 here (|step|, n <= slots)
		r := rotateU(v, i*step)
		for j := range out {
			out[j] = (out[j] + r[j]) % t
		}
	}
	return out
}

// replicateInput builds a row that satisfies the documented precondition of Replicate: sub-vectors of size batch
// separated (cyclically) by batch*(n-1) zero slots.
func replicateInput(rng *h.SplitMix, cols, batch, n int, t uint64) []uint64 {
	row := make([]uint64, cols)
	period := batch * n
	for start := 0; start+period <= cols; start += period {
		// the sub-vector sits at the END of its period so that replicating "from left to right" (rotations to the
		// right by multiples of batch)... the rotation by -i*batch moves slot j to slot j+i*batch: the sub-vector is
		// placed at the start and its copies fill the period.
		for j := 0; j < batch; j++ {
			row[start+j] = rng.Uint64() % t
		}
	}
	return row
}

func runBGVSum(c BGVSumCase, rec *h.Rec) error {
	ctx, err := newBGVCtx(c.Set)
	if err != nil {
		return err
	}
	p := ctx.params
	cols, total := ctx.cols, ctx.slots
	a := c.Args
	T := c.Set.P.T
	if m := ctx.margin(c.Level, a.terms(), a.depth()); m < 6 {
		// cannot be judged (noise bound too close to the modulus): counted as trivial, never reported as a violation
		rec.Class("unjudged:noise-margin")
		rec.Note("margin-log2", m)
		return nil
	}
	rng := h.NewSplitMix(c.Seed)
	vals := make([]uint64, total)
	replOK := a.Op == "Replicate" && a.N*a.Batch <= cols
	if replOK {
		copy(vals[:cols], replicateInput(rng, cols, a.Batch, a.N, T))
		copy(vals[cols:], replicateInput(rng, cols, a.Batch, a.N, T))
	} else {
		for i := range vals {
			vals[i] = rng.Uint64() % T
		}
	}
	ct, err := ctx.encrypt(vals, c.Level)
	if err != nil {
		return err
	}
	if ct.Slots() != total {
		return h.Failf("C11:bgv:Slots", "ciphertext reports %d slots, parameters %d", ct.Slots(), total)
	}

	var galEls []uint64
	switch a.Op {
	case "InnerSum", "RotateAndAdd":
		galEls = p.GaloisElementsForInnerSum(a.Batch, a.N)
	case "Replicate":
		galEls = p.GaloisElementsForReplicate(a.Batch, a.N)
	case "PartialTracesSum", "InnerFunction":
		galEls = rlwe.GaloisElementsForInnerSum(p, a.Batch, a.N)
	case "Trace":
		galEls = p.GaloisElementsForTrace(a.LogTr)
	}
	keys := keysFor(ctx.kgen, ctx.sk, galEls, c.Set.Bpw2, c.Set.Keys)
	eval := bgv.NewEvaluator(p, keys)

	snap := snapshot(ctx.sk, keys)
	out := ct
	if !a.InPlace {
		lvl := c.Level
		if a.OutMax {
			lvl = p.MaxLevel()
		}
		// the receiver had an earlier life (other data, other scale, possibly a higher level)
		if out, err = ctx.usedReceiver(lvl, c.Seed); err != nil {
			return err
		}
	}
	detail := fmt.Sprintf("%s(batch=%d, n=%d) N=%d slots=2x%d level=%d inPlace=%v", a.Op, a.Batch, a.N, p.N(), cols, c.Level, a.InPlace)
	if a.Op == "Trace" {
		detail = fmt.Sprintf("Trace(logN=%d) N=%d slots=2x%d level=%d inPlace=%v", a.LogTr, p.N(), cols, c.Level, a.InPlace)
	}
	apply := func() error {
		switch a.Op {
		case "InnerSum":
			return eval.InnerSum(ct, a.Batch, a.N, out)
		case "RotateAndAdd":
			return eval.RotateAndAdd(ct, a.Batch, a.N, out)
		case "Replicate":
			return eval.Replicate(ct, a.Batch, a.N, out)
		case "PartialTracesSum":
			return eval.PartialTracesSum(ct, a.Batch, a.N, out)
		case "InnerFunction":
			// documented: with f = Add the method is equivalent to InnerSum
			return eval.InnerFunction(ct, a.Batch, a.N, func(x, y, z *rlwe.Ciphertext) error { return eval.Add(x, y, z) }, out)
		case "Trace":
			return eval.Trace(ct, a.LogTr, out)
		}
		return nil
	}
	err = apply()
	if err != nil {
		return opErr("bgv", a.Op, err, keys, detail)
	}
	if out.Level() != c.Level {
		return h.Failf("C11:bgv:"+a.Op+":level", "%s: output level %d", detail, out.Level())
	}
	have, err := ctx.decrypt(out)
	if err != nil {
		return err
	}

	// model
	want := make([]uint64, total)
	compare := make([]bool, total)
	r0, r1 := vals[:cols], vals[cols:]
	switch a.Op {
	case "InnerSum":
		l := a.N * a.Batch
		if l == total {
			// 1-D vector of all slots: the first `batch` slots hold the sum of the n sub-vectors (n/2 per row)
			n2 := a.N / 2
			if a.N == 1 {
				copy(want, vals)
				for j := range compare {
					compare[j] = true
				}
				break
			}
			s0, s1 := sumRotU(r0, a.Batch, n2, T), sumRotU(r1, a.Batch, n2, T)
			for j := 0; j < cols; j++ {
				want[j] = (s0[j] + s1[j]) % T
				want[cols+j] = want[j]
			}
			for j := 0; j < a.Batch && j < cols; j++ {
				compare[j] = true // leftmost sub-vector of the single group
			}
		} else {
			copy(want[:cols], sumRotU(r0, a.Batch, a.N, T))
			copy(want[cols:], sumRotU(r1, a.Batch, a.N, T))
			for j := 0; j < cols; j++ {
				if j%l < a.Batch { // leftmost sub-vector of each group of n
					compare[j], compare[cols+j] = true, true
				}
			}
		}
	case "RotateAndAdd", "PartialTracesSum":
		copy(want[:cols], sumRotU(r0, a.Batch, a.N, T))
		copy(want[cols:], sumRotU(r1, a.Batch, a.N, T))
		for j := range compare {
			compare[j] = true
		}
	case "InnerFunction":
		// promised: the leftmost sub-vector of every (complete) group of n sub-vectors holds the sum over the group
		copy(want[:cols], sumRotU(r0, a.Batch, a.N, T))
		copy(want[cols:], sumRotU(r1, a.Batch, a.N, T))
		l := a.N * a.Batch
		for j := 0; j < cols; j++ {
			if j%l < a.Batch && j-j%l+l <= cols {
				compare[j], compare[cols+j] = true, true
			}
		}
	case "Trace":
		// The trace keeps the coefficients of the plaintext polynomial that are fixed by the subgroup generated by
		// 5^(2^logN) (and X -> X^-1 for logN = 0) and zeroes the others: in the slot domain every slot becomes the
		// average (times cnt^-1 mod t) of the slots of its orbit under the rotations by multiples of 2^logN (and the row
		// swap for logN = 0).
		cnt := (p.N() / 2) >> a.LogTr
		s0, s1 := sumRotU(r0, 1<<a.LogTr, cnt, T), sumRotU(r1, 1<<a.LogTr, cnt, T)
		if a.LogTr == 0 {
			for j := range s0 {
				s0[j] = (s0[j] + s1[j]) % T
				s1[j] = s0[j]
			}
			cnt *= 2
		}
		inv := invModU(uint64(cnt)%T, T)
		for j := 0; j < cols; j++ {
			want[j] = mulModU(s0[j], inv, T)
			want[cols+j] = mulModU(s1[j], inv, T)
			compare[j], compare[cols+j] = true, true
		}
	case "Replicate":
		copy(want[:cols], sumRotU(r0, -a.Batch, a.N, T))
		copy(want[cols:], sumRotU(r1, -a.Batch, a.N, T))
		for j := range compare {
			compare[j] = true
		}
		if replOK {
			// under the precondition the sum IS the replication: every slot of a period equals the sub-vector entry
			period := a.Batch * a.N
			for row := 0; row < 2; row++ {
				for start := 0; start+period <= cols; start += period {
					for j := 0; j < period; j++ {
						if want[row*cols+start+j] != vals[row*cols+start+j%a.Batch] {
							return h.Failf("C11:harness:replicate-model", "model inconsistency at row %d slot %d", row, start+j)
						}
					}
				}
			}
		}
	}
	ncmp := 0
	for j := range want {
		if !compare[j] {
			continue
		}
		ncmp++
		if have[j] != want[j] {
			return h.Failf("C11:bgv:"+a.Op+":value", "%s: slot %d (row %d col %d) = %d, expected %d (t=%d)\n have %s\n want %s\n  in  %s",
				detail, j, j/cols, j%cols, have[j], want[j], T, fmtU(have, 16), fmtU(want, 16), fmtU(vals, 16))
		}
	}
	if !a.InPlace {
		back, err := ctx.decrypt(ct)
		if err != nil {
			return err
		}
		if i := firstDiff(back, vals); i >= 0 {
			return h.Failf("C11:bgv:"+a.Op+":input-modified", "%s: input slot %d changed from %d to %d", detail, i, vals[i], back[i])
		}
	}
	if !a.InPlace {
		// second use of the same evaluator into the same receiver (which now holds the first result)
		if err = apply(); err != nil {
			return opErr("bgv", a.Op, err, keys, detail+" (second use)")
		}
		again, err := ctx.decrypt(out)
		if err != nil {
			return err
		}
		for j := range want {
			if compare[j] && again[j] != want[j] {
				return h.Failf("C11:bgv:"+a.Op+":second-use:value", "%s: second evaluation into the same receiver: slot %d = %d, expected %d", detail, j, again[j], want[j])
			}
		}
	}
	if ch := sameSnapshot(snap, snapshot(ctx.sk, keys)); ch != "" {
		return h.Failf("C11:bgv:"+a.Op+":key-material-modified", "%s: %s changed during the operation", detail, ch)
	}

	rec.Classf("op=%s", a.Op)
	rec.Classf("logN=%d", c.Set.P.LogN)
	rec.Class(c.Set.Keys.class(p.MaxLevelQ(), p.MaxLevelP()))
	rec.Classf("args=%s", a.class(cols, total))
	if total < p.N() {
		rec.Class("sparse-t")
	}
	if a.InPlace {
		rec.Class("in-place")
	}
	if a.Op == "Trace" {
		rec.Classf("logTr=%d/%d", a.LogTr, c.Set.P.LogN)
	}
	if a.nonTrivial(cols, total) || total < p.N() || a.Op == "Trace" {
		rec.NonTrivial(fmt.Sprintf("logTr=%d|bgvsum|%s|", a.LogTr, a.Op) + fmt.Sprintf("bgvsum|%s|logN=%d|slots=%d|nP=%d|lvl=%d/%d|batch=%d|n=%d|inplace=%v", a.Op, c.Set.P.LogN, total, len(c.Set.P.P), c.Level, len(c.Set.P.Q)-1, a.Batch, a.N, a.InPlace))
	}
	return nil
}

var propBGVSum = h.NewProp("TestPropBGVSums", h.Budget{Quick: 600, Thorough: 20000}, genBGVSum, runBGVSum)

func TestPropBGVSums(t *testing.T) { propBGVSum.Check(t) }
