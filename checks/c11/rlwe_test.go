package c11

import (
	"fmt"
	"math"
	"math/big"
	"testing"

	"verif/internal/h"

	"github.com/tuneinsight/lattigo/v6/core/rlwe"
	"github.com/tuneinsight/lattigo/v6/ring"
	"pgregory.net/rapid"
)

// RLWECase: automorphisms and traces on raw polynomials (no encoder), standard and conjugate-invariant ring, NTT and
// coefficient-domain ciphertexts. Oracle: the polynomial map X -> X^g computed on big integers.
type RLWECase struct {
	Spec    h.RLWESpec `json:"params"`
	Bpw2    int        `json:"bpw2,omitempty"`
	Keys    KeyLevels  `json:"keys,omitempty"`
	Level   int        `json:"level"`
	Seed    uint64     `json:"seed"`
	Op      string     `json:"op"` // Automorphism | AutomorphismHoisted | AutomorphismHoistedLazy | Trace | PartialTracesSum
	K       int        `json:"k"`  // rotation index (galEl = 5^k) for the automorphism ops
	Conj    bool       `json:"conj,omitempty"`
	LogTr   int        `json:"logTr,omitempty"`  // Trace argument logN
	Offset  int        `json:"offset,omitempty"` // PartialTracesSum
	N       int        `json:"n,omitempty"`      // PartialTracesSum
	InPlace bool       `json:"inPlace,omitempty"`
}

func (c RLWECase) RandSeed() uint64 { return c.Seed }

var rlweOps = []string{"Automorphism", "AutomorphismHoisted", "AutomorphismHoistedLazy", "Trace", "Trace", "PartialTracesSum", "InnerFunction"}

func genRLWE(t *rapid.T) RLWECase {
	var c RLWECase
	c.Op = rlweOps[rapid.IntRange(0, len(rlweOps)-1).Draw(t, "op")]
	s := &c.Spec
	big := 9
	if c.Op == "Automorphism" || c.Op == "AutomorphismHoisted" || c.Op == "AutomorphismHoistedLazy" {
		big = 10
	}
	s.LogN = genLogN(t, big)
	s.CI = rapid.IntRange(0, 2).Draw(t, "ringType") == 0
	s.NTT = rapid.IntRange(0, 2).Draw(t, "nttFlag") != 0
	n := s.N()
	s.Xs = h.GenDist(t, true, n, "xs")
	s.Xe = h.GenDist(t, false, n, "xe")
	order := int(s.NthRoot() / 4)
	terms, depth := 1, 1
	switch c.Op {
	case "Trace":
		c.LogTr = rapid.IntRange(0, s.LogN-1).Draw(t, "logTr")
		terms, depth = n, s.LogN+1
	case "PartialTracesSum", "InnerFunction":
		c.N = rapid.IntRange(1, order).Draw(t, "n")
		c.Offset = rapid.IntRange(1, order/c.N).Draw(t, "offset")
		if rapid.Bool().Draw(t, "neg") {
			c.Offset = -c.Offset
		}
		terms, depth = c.N, bitsLen(c.N)+3
	default:
		c.K = genK(t, order, "k")
		if !s.CI {
			c.Conj = rapid.IntRange(0, 3).Draw(t, "conj") == 0
		}
	}
	c.InPlace = rapid.IntRange(0, 2).Draw(t, "inPlace") == 0
	needP := c.Op != "Automorphism" && c.Op != "Trace" && c.Op != "InnerFunction"
	req := modReq{needP: needP, terms: terms, depth: depth}
	// the message must dominate the noise by 2^10 and still fit below Q/8 after `terms` additions (recomputed with the
	// actual moduli in run())
	req.msgOverTot = 12 + math.Log2(float64(terms)) + 3
	s.Q, s.P, c.Bpw2 = genModuli(t, s.LogN, s.NthRoot(), s.Xs, s.Xe, req, map[uint64]bool{})
	c.Level = rapid.IntRange(0, len(s.Q)-1).Draw(t, "level")
	c.Keys = genSetKeys(t, s, c.Level, c.Op == "PartialTracesSum")
	c.Seed = rapid.Uint64().Draw(t, "seed")
	return c
}

// ciAutomorphism applies X -> X^g to an element of Z[X+X^-1] of degree n given in lattigo's folded representation.
func ciAutomorphism(a []*big.Int, g uint64) ([]*big.Int, bool) {
	n := len(a)
	u := h.Automorphism(h.CIUnfold(a), g)
	// fold back: u must be of the form b_0 + sum b_j (X^j - X^{2n-j})
	if u[n].Sign() != 0 {
		return nil, false
	}
	for j := 1; j < n; j++ {
		if new(big.Int).Add(u[j], u[2*n-j]).Sign() != 0 {
			return nil, false
		}
	}
	return u[:n], true
}

func runRLWE(c RLWECase, rec *h.Rec) error {
	p, err := c.Spec.Build()
	if err != nil {
		return h.Failf("C11:rlwe:params", "cannot build parameters: %v", err)
	}
	n := p.N()
	qs := c.Spec.Q[:c.Level+1]
	Q := h.ProdU(qs)
	ringQ := p.RingQ().AtLevel(c.Level)
	nth := p.RingQ().NthRoot()
	order := int(nth / 4)

	terms, depth := 1, 1
	switch c.Op {
	case "Trace":
		terms, depth = n, c.Spec.LogN+1
	case "PartialTracesSum", "InnerFunction":
		terms, depth = c.N, bitsLen(c.N)+3
	}
	be, sl1 := c.Spec.Xe.AbsBound(), h.SecretL1(c.Spec.Xs, n)
	ks := ksNoiseLog2(n, qs, c.Keys.usedP(c.Spec.P), c.Bpw2, be, sl1)
	noise := totalNoiseLog2(terms, depth, ks, be)
	msgBits := int(math.Floor(log2Prod(qs) - 3 - math.Log2(float64(terms))))
	if float64(msgBits) < noise+10 {
		// cannot be judged (noise bound too close to the message size): counted as trivial, never a violation
		rec.Class("unjudged:noise-margin")
		return nil
	}
	bound := new(big.Int).Lsh(big.NewInt(1), uint(math.Ceil(noise)))

	// message: uniform in (-2^msgBits, 2^msgBits)
	rng := h.NewSplitMix(c.Seed)
	msg := make([]*big.Int, n)
	mask := new(big.Int).Sub(new(big.Int).Lsh(big.NewInt(1), uint(msgBits)), big.NewInt(1))
	for i := range msg {
		v := new(big.Int)
		for w := 0; w*62 < msgBits; w++ {
			v.Lsh(v, 62).Or(v, new(big.Int).SetUint64(rng.Uint64()>>2))
		}
		v.And(v, mask)
		if rng.Uint64()&1 == 1 {
			v.Neg(v)
		}
		msg[i] = v
	}

	kgen := rlwe.NewKeyGenerator(p)
	sk := kgen.GenSecretKeyNew()
	enc := rlwe.NewEncryptor(p, sk)
	dec := rlwe.NewDecryptor(p, sk)

	pt := rlwe.NewPlaintext(p, c.Level)
	limbs := h.ToRNS(msg, qs)
	for i := range limbs {
		copy(pt.Value.Coeffs[i], limbs[i])
	}
	if pt.IsNTT != c.Spec.NTT {
		return h.Failf("C11:rlwe:plaintext-domain", "NewPlaintext IsNTT=%v, parameters NTTFlag=%v", pt.IsNTT, c.Spec.NTT)
	}
	if pt.IsNTT {
		ringQ.NTT(pt.Value, pt.Value)
	}
	ct, err := enc.EncryptNew(pt)
	if err != nil {
		return h.Failf("C11:rlwe:encrypt", "EncryptNew: %v", err)
	}
	decrypt := func(x *rlwe.Ciphertext) []*big.Int {
		o := dec.DecryptNew(x)
		if o.IsNTT {
			ringQ.INTT(o.Value, o.Value)
		}
		return h.VecCenter(h.CRT(o.Value.Coeffs[:c.Level+1], qs), Q)
	}
	auto := func(a []*big.Int, g uint64) ([]*big.Int, error) {
		if c.Spec.CI {
			r, ok := ciAutomorphism(a, g)
			if !ok {
				return nil, h.Failf("C11:harness:ci-model", "image under X->X^%d is not conjugate invariant", g)
			}
			return r, nil
		}
		return h.Automorphism(a, g), nil
	}
	compare := func(op string, got *rlwe.Ciphertext, want []*big.Int, detail string) error {
		have := decrypt(got)
		diff := h.VecCenter(h.VecSub(have, want), Q)
		if h.InfNorm(diff).Cmp(bound) > 0 {
			i := 0
			for j := range diff {
				if new(big.Int).Abs(diff[j]).Cmp(bound) > 0 {
					i = j
					break
				}
			}
			return h.Failf("C11:rlwe:"+op+":value", "%s: coefficient %d = %v, expected %v (noise bound 2^%.1f, message 2^%d); N=%d %s ntt=%v level=%d nP=%d",
				detail, i, have[i], want[i], noise, msgBits, n, ringName(c.Spec.CI), c.Spec.NTT, c.Level, len(c.Spec.P))
		}
		if got.Level() != c.Level {
			return h.Failf("C11:rlwe:"+op+":level", "%s: output level %d, input %d", detail, got.Level(), c.Level)
		}
		if got.IsNTT != ct.IsNTT {
			return h.Failf("C11:rlwe:"+op+":domain", "%s: output IsNTT=%v, input IsNTT=%v", detail, got.IsNTT, ct.IsNTT)
		}
		return nil
	}

	out := ct
	if !c.InPlace {
		out = rlwe.NewCiphertext(p, 1, c.Level)
	}
	var keys *recKeys
	var want []*big.Int
	var detail string
	nontrivial := ""

	switch c.Op {
	case "Automorphism", "AutomorphismHoisted", "AutomorphismHoistedLazy":
		g := p.GaloisElement(c.K)
		if c.Conj {
			g = p.GaloisElementOrderTwoOrthogonalSubgroup()
		}
		if g != refGalois(c.K, nth) && !c.Conj {
			return h.Failf("C11:alg:GaloisElement:value", "GaloisElement(%d)=%d", c.K, g)
		}
		keys = keysFor(kgen, sk, []uint64{g}, c.Bpw2, c.Keys)
		eval := rlwe.NewEvaluator(p, keys)
		detail = fmt.Sprintf("%s(galEl=%d = 5^%d conj=%v) inPlace=%v", c.Op, g, c.K, c.Conj, c.InPlace)
		if want, err = auto(msg, g); err != nil {
			return err
		}
		levelP := p.MaxLevelP()
		if c.Keys.Set {
			levelP = c.Keys.LP // the caller decomposes (and divides) for the auxiliary modulus of the key
		}
		switch c.Op {
		case "Automorphism":
			err = eval.Automorphism(ct, g, out)
		case "AutomorphismHoisted":
			eval.DecomposeNTT(c.Level, levelP, levelP+1, ct.Value[1], ct.IsNTT, eval.BuffDecompQP)
			err = eval.AutomorphismHoisted(c.Level, ct, eval.BuffDecompQP, g, out)
		case "AutomorphismHoistedLazy":
			eval.DecomposeNTT(c.Level, levelP, levelP+1, ct.Value[1], ct.IsNTT, eval.BuffDecompQP)
			ctQP := rlwe.NewElementExtended(p, 1, c.Level, levelP)
			if err = eval.AutomorphismHoistedLazy(c.Level, ct, eval.BuffDecompQP, g, ctQP); err == nil {
				if c.InPlace {
					out = ct
				}
				*out.MetaData = *ct.MetaData
				eval.ModDown(c.Level, levelP, ctQP, out)
			}
		}
		if err != nil {
			return opErr("rlwe", c.Op, err, keys, detail)
		}
		rec.Classf("k=%s", kClass(c.K, order))
		if c.Conj {
			rec.Class("order-two")
		}
		if !trivialK(c.K, order) || c.Spec.CI || !c.Spec.NTT {
			nontrivial = fmt.Sprintf("k=%s|conj=%v", kClass(c.K, order), c.Conj)
		}
	case "PartialTracesSum", "InnerFunction":
		keys = keysFor(kgen, sk, rlwe.GaloisElementsForInnerSum(p, c.Offset, c.N), c.Bpw2, c.Keys)
		eval := rlwe.NewEvaluator(p, keys)
		detail = fmt.Sprintf("%s(offset=%d, n=%d) inPlace=%v", c.Op, c.Offset, c.N, c.InPlace)
		want = make([]*big.Int, n)
		for i := range want {
			want[i] = new(big.Int)
		}
		for i := 0; i < c.N; i++ {
			r, err := auto(msg, refGalois(i*c.Offset, nth))
			if err != nil {
				return err
			}
			want = h.VecAdd(want, r)
		}
		if c.Op == "PartialTracesSum" {
			err = eval.PartialTracesSum(ct, c.Offset, c.N, out)
		} else {
			// f = addition: documented as equivalent to the inner sum (every coefficient of the result is the plain sum
			// of automorphisms, there are no garbage positions at the polynomial level)
			add := func(a, b, r *rlwe.Ciphertext) error {
				ringQ.Add(a.Value[0], b.Value[0], r.Value[0])
				ringQ.Add(a.Value[1], b.Value[1], r.Value[1])
				return nil
			}
			err = eval.InnerFunction(ct, c.Offset, c.N, add, out)
		}
		if err != nil {
			return opErr("rlwe", c.Op, err, keys, detail)
		}
		rec.Classf("n=%s", map[bool]string{true: "pow2", false: "not-pow2"}[c.N&(c.N-1) == 0])
		if c.N&(c.N-1) != 0 || c.N*absInt(c.Offset) == order || c.Spec.CI || !c.Spec.NTT {
			nontrivial = fmt.Sprintf("off=%d|n=%d", c.Offset, c.N)
		}
	case "Trace":
		detail = fmt.Sprintf("Trace(logN=%d) inPlace=%v", c.LogTr, c.InPlace)
		var galEls []uint64
		if c.Spec.CI && c.LogTr == 0 {
			// Before the Trace fix GaloisElementsForTrace refused (by panicking) the full trace in the conjugate-invariant
			// ring; a version that advertises a list must also make it sufficient and correct.
			refused := func() (r bool) {
				defer func() { r = recover() != nil }()
				galEls = rlwe.GaloisElementsForTrace(p, c.LogTr)
				return
			}()
			if refused {
				rec.Class("trace=ci-full(refused)")
				return nil
			}
		} else {
			galEls = rlwe.GaloisElementsForTrace(p, c.LogTr)
		}
		keys = keysFor(kgen, sk, galEls, c.Bpw2, c.Keys)
		eval := rlwe.NewEvaluator(p, keys)
		// documented: a monomial X^k is kept unchanged when k is divisible by N/n and vanishes otherwise. The kept set is
		// the fixed ring of the group generated by the advertised elements: exponents divisible by `step`.
		step := n >> (c.LogTr + 1)
		if c.LogTr == 0 {
			step = n
		}
		if c.Spec.CI {
			step = n >> c.LogTr
		}
		want = make([]*big.Int, n)
		for i := range want {
			if i%step == 0 {
				want[i] = msg[i]
			} else {
				want[i] = new(big.Int)
			}
		}
		if err = eval.Trace(ct, c.LogTr, out); err != nil {
			return opErr("rlwe", c.Op, err, keys, detail)
		}
		rec.Classf("trace=%s", map[bool]string{true: "full", false: "partial"}[c.LogTr == 0])
		nontrivial = fmt.Sprintf("logTr=%d", c.LogTr)
	default:
		return h.Failf("C11:harness:mode", "unknown op %q", c.Op)
	}

	key := c.Op
	if c.Op == "Trace" && c.Spec.CI {
		key = "Trace:ci"
	}
	if (c.Op == "PartialTracesSum" || c.Op == "InnerFunction") && c.N == 1 && !c.Spec.NTT {
		key = "PartialTracesSum:n=1:coefficient-domain"
	}
	if err := compare(key, out, want, detail); err != nil {
		if f, ok := err.(*h.Failure); ok && key == "PartialTracesSum:n=1:coefficient-domain" && rec.Known(f.Key, f.Msg) {
			// listed finding: the trailing INTT is applied to the plain copy made for n = 1
			rec.Class("known=PartialTracesSum:n=1:coefficient-domain")
			rec.Classf("op=%s", c.Op)
			return nil
		}
		if f, ok := err.(*h.Failure); ok && key == "Trace:ci" && rec.Known(f.Key, f.Msg) {
			// listed finding: Trace sums over half of the required subgroup in the conjugate-invariant ring. Only the
			// sufficiency of the advertised keys (no error above) is retained for these cases.
			rec.Class("known=Trace:ci")
			rec.Classf("op=%s", c.Op)
			return nil
		}
		return err
	}
	if !c.InPlace {
		if err := compare(c.Op+":input-intact", ct, msg, "input after "+detail); err != nil {
			return err
		}
	}

	rec.Classf("op=%s", c.Op)
	rec.Classf("ring=%s", ringName(c.Spec.CI))
	rec.Classf("ntt=%v", c.Spec.NTT)
	rec.Classf("logN=%d", c.Spec.LogN)
	rec.Classf("nP=%d", len(c.Spec.P))
	rec.Class(c.Keys.class(p.MaxLevelQ(), p.MaxLevelP()))
	if nontrivial != "" {
		rec.NonTrivial(fmt.Sprintf("rlwe|%s|%s|ntt=%v|logN=%d|nP=%d|lvl=%d/%d|%s|inplace=%v", c.Op, ringName(c.Spec.CI), c.Spec.NTT, c.Spec.LogN, len(c.Spec.P), c.Level, len(c.Spec.Q)-1, nontrivial, c.InPlace))
	}
	return nil
}

var propRLWE = h.NewProp("TestPropRLWEAutomorphismTrace", h.Budget{Quick: 600, Thorough: 20000}, genRLWE, runRLWE)

func TestPropRLWEAutomorphismTrace(t *testing.T) { propRLWE.Check(t) }

var _ = ring.Standard
