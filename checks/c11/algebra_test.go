package c11

import (
	"fmt"
	"math/big"
	"testing"

	"verif/internal/h"

	"github.com/tuneinsight/lattigo/v6/core/rlwe"
	"pgregory.net/rapid"
)

// AlgCase: pure Galois-element arithmetic of rlwe.Parameters.
type AlgCase struct {
	LogN int  `json:"logN"`
	CI   bool `json:"ci,omitempty"`
	A    int  `json:"a"`
	B    int  `json:"b"`
}

func algSpec(logN int, ci bool) h.RLWESpec {
	s := h.RLWESpec{LogN: logN, CI: ci, Xs: h.DefaultXs, Xe: h.DefaultXe, NTT: true}
	s.Q = h.Primes(45, s.NthRoot(), 1, true)
	return s
}

func genAlg(t *rapid.T) AlgCase {
	var c AlgCase
	hi := 12
	if h.Thorough() {
		hi = 16
	}
	c.LogN = rapid.IntRange(4, hi).Draw(t, "logN")
	c.CI = rapid.IntRange(0, 2).Draw(t, "ringType") == 0
	slots := 1 << (c.LogN - 1)
	if c.CI {
		slots = 1 << c.LogN
	}
	c.A = genK(t, slots, "a")
	c.B = genK(t, slots, "b")
	return c
}

// refGalois is 5^(k mod order) mod nthRoot computed with math/big (order = nthRoot/4 is the order of 5).
func refGalois(k int, nthRoot uint64) uint64 {
	order := new(big.Int).SetUint64(nthRoot / 4)
	e := new(big.Int).Mod(big.NewInt(int64(k)), order) // Euclidean: 0 <= e < order
	return new(big.Int).Exp(big.NewInt(5), e, new(big.Int).SetUint64(nthRoot)).Uint64()
}

func mulModPow2(a, b, m uint64) uint64 { return (a * b) & (m - 1) }

func runAlg(c AlgCase, rec *h.Rec) error {
	spec := algSpec(c.LogN, c.CI)
	p, err := spec.Build()
	if err != nil {
		return h.Failf("C11:alg:params", "cannot build parameters %+v: %v", spec, err)
	}
	nth := p.RingQ().NthRoot()
	if nth != spec.NthRoot() {
		return h.Failf("C11:alg:nthroot", "NthRoot=%d, expected %d", nth, spec.NthRoot())
	}
	order := int(nth / 4)
	slots := order // N/2 (standard) or N (conjugate invariant): the order of 5 modulo NthRoot
	ring := "std"
	if c.CI {
		ring = "ci"
	}
	rec.Classf("ring=%s", ring)
	rec.Classf("a=%s", kClass(c.A, slots))
	rec.Classf("b=%s", kClass(c.B, slots))

	ga, gb := p.GaloisElement(c.A), p.GaloisElement(c.B)

	// reference value
	for _, k := range []int{c.A, c.B} {
		if got, want := p.GaloisElement(k), refGalois(k, nth); got != want {
			return h.Failf("C11:alg:GaloisElement:value", "logN=%d %s GaloisElement(%d)=%d, 5^(k mod %d) mod %d = %d", c.LogN, ring, k, got, order, nth, want)
		}
	}

	// k and k mod slots coincide
	for _, k := range []int{c.A, c.B} {
		if g1, g2 := p.GaloisElement(k), p.GaloisElement(emod(k, slots)); g1 != g2 {
			return h.Failf("C11:alg:GaloisElement:mod-slots", "logN=%d %s GaloisElement(%d)=%d != GaloisElement(%d mod %d = %d)=%d", c.LogN, ring, k, g1, k, slots, emod(k, slots), g2)
		}
	}

	// composition: element(a)*element(b) = element(a+b). The sum is taken modulo the order with math/big so that it
	// is defined for every pair; when a+b does not overflow, the native sum is used as well.
	sum := new(big.Int).Add(big.NewInt(int64(c.A)), big.NewInt(int64(c.B)))
	sumRed := int(new(big.Int).Mod(sum, big.NewInt(int64(order))).Int64())
	if got, want := mulModPow2(ga, gb, nth), p.GaloisElement(sumRed); got != want {
		return h.Failf("C11:alg:composition", "logN=%d %s element(%d)*element(%d)=%d != element(a+b mod order = %d)=%d", c.LogN, ring, c.A, c.B, got, sumRed, want)
	}
	if sum.IsInt64() {
		if got, want := mulModPow2(ga, gb, nth), p.GaloisElement(int(sum.Int64())); got != want {
			return h.Failf("C11:alg:composition", "logN=%d %s element(%d)*element(%d)=%d != element(%d)=%d", c.LogN, ring, c.A, c.B, got, sum.Int64(), want)
		}
	}
	// GaloisElements (list form) agrees with the scalar form
	if l := p.GaloisElements([]int{c.A, c.B}); len(l) != 2 || l[0] != ga || l[1] != gb {
		return h.Failf("C11:alg:GaloisElements", "GaloisElements([%d %d])=%v, scalar form gives [%d %d]", c.A, c.B, l, ga, gb)
	}

	// inverse
	for _, g := range []uint64{ga, gb} {
		inv := p.ModInvGaloisElement(g)
		if mulModPow2(inv, g, nth) != 1 {
			return h.Failf("C11:alg:ModInv", "logN=%d %s ModInvGaloisElement(%d)=%d, product %d != 1", c.LogN, ring, g, inv, mulModPow2(inv, g, nth))
		}
	}
	if inv, want := p.ModInvGaloisElement(ga), p.GaloisElement(emod(-emod(c.A, order), order)); inv != want {
		return h.Failf("C11:alg:ModInv:neg", "logN=%d %s ModInv(element(%d))=%d != element(-a)=%d", c.LogN, ring, c.A, inv, want)
	}
	if !c.CI {
		// the order-two element: inverse of itself, and its inverse through ModInv
		o2 := p.GaloisElementOrderTwoOrthogonalSubgroup()
		if o2 != nth-1 || mulModPow2(o2, o2, nth) != 1 || p.ModInvGaloisElement(o2) != o2 {
			return h.Failf("C11:alg:order-two", "logN=%d order-two element %d (NthRoot %d): square %d, inverse %d", c.LogN, o2, nth, mulModPow2(o2, o2, nth), p.ModInvGaloisElement(o2))
		}
	}

	// discrete logarithm
	for _, k := range []int{c.A, c.B} {
		g := p.GaloisElement(k)
		d := p.SolveDiscreteLogGaloisElement(g)
		if d < 0 || emod(d, order) != emod(k, order) {
			return h.Failf("C11:alg:dlog", "logN=%d %s SolveDiscreteLogGaloisElement(element(%d)=%d)=%d, expected %d (mod %d)", c.LogN, ring, k, g, d, emod(k, order), order)
		}
		if p.GaloisElement(d) != g {
			return h.Failf("C11:alg:dlog:roundtrip", "logN=%d %s element(dlog(%d)=%d)=%d", c.LogN, ring, g, d, p.GaloisElement(d))
		}
	}
	// window / exhaustive sweep of the round trip k -> element -> dlog
	lo, hi := emod(c.A, order), emod(c.A, order)+64
	if order <= 1024 && h.Thorough() {
		lo, hi = 0, order
		rec.Class("dlog-exhaustive")
	}
	for k := lo; k < hi; k++ {
		g := p.GaloisElement(k)
		if d := p.SolveDiscreteLogGaloisElement(g); emod(d, order) != emod(k, order) {
			return h.Failf("C11:alg:dlog", "logN=%d %s SolveDiscreteLogGaloisElement(element(%d)=%d)=%d", c.LogN, ring, k, g, d)
		}
		if mulModPow2(p.ModInvGaloisElement(g), g, nth) != 1 {
			return h.Failf("C11:alg:ModInv", "logN=%d %s ModInvGaloisElement(%d)", c.LogN, ring, g)
		}
	}

	if !trivialK(c.A, slots) || !trivialK(c.B, slots) {
		rec.NonTrivial(fmt.Sprintf("alg|logN=%d|%s|a=%s|b=%s", c.LogN, ring, kClass(c.A, slots), kClass(c.B, slots)))
	}
	return nil
}

var propAlg = h.NewProp("TestPropGaloisAlgebra", h.Budget{Quick: 4000, Thorough: 200000}, genAlg, runAlg)

func TestPropGaloisAlgebra(t *testing.T) { propAlg.Check(t) }

var _ = rlwe.GaloisGen
