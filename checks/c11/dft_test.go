package c11

import (
	"fmt"
	"math"
	"testing"

	"verif/internal/h"

	"github.com/tuneinsight/lattigo/v6/circuits/ckks/dft"
	"github.com/tuneinsight/lattigo/v6/core/rlwe"
	"github.com/tuneinsight/lattigo/v6/ring"
	"github.com/tuneinsight/lattigo/v6/schemes/ckks"
	"pgregory.net/rapid"
)

// DFTCase: key sufficiency only. The homomorphic DFT (CoeffsToSlots / SlotsToCoeffs) is run with keys for exactly
// MatrixLiteral.GaloisElements plus the conjugation element (GaloisElements is documented as "the list of rotations";
// lattigo's own callers add the conjugation key); it must never fail for a missing key. The values are checked
// elsewhere (bootstrapping property).
type DFTCase struct {
	LogN     int    `json:"logN"`
	LogSlots int    `json:"logSlots"`
	Type     int    `json:"type"`
	Format   int    `json:"format"`
	Levels   []int  `json:"levels"`
	BitRev   bool   `json:"bitRev,omitempty"`
	LogBSGS  int    `json:"logBSGS"`
	NP       int    `json:"nP"`
	Seed     uint64 `json:"seed"`
	// RoundTrip: CoeffsToSlots followed by SlotsToCoeffs with the same literal shape; the composition of the homomorphic
	// IDFT and DFT is the identity on the encrypted polynomial, so the decoded slots must come back (value check).
	RoundTrip bool `json:"roundTrip,omitempty"`
}

func (c DFTCase) RandSeed() uint64 { return c.Seed }

func genDFT(t *rapid.T) DFTCase {
	var c DFTCase
	c.LogN = rapid.IntRange(5, maxLogN()).Draw(t, "logN")
	c.LogSlots = rapid.IntRange(2, c.LogN-1).Draw(t, "logSlots")
	c.Type = rapid.IntRange(0, 1).Draw(t, "type")
	c.Format = rapid.IntRange(0, 2).Draw(t, "format")
	nl := rapid.IntRange(1, 3).Draw(t, "nLevels")
	depth := 0
	for i := 0; i < nl; i++ {
		l := rapid.IntRange(1, 2).Draw(t, fmt.Sprintf("lvl%d", i))
		if depth+l > c.LogSlots {
			break
		}
		depth += l
		c.Levels = append(c.Levels, l)
	}
	if len(c.Levels) == 0 {
		c.Levels = []int{1}
	}
	c.BitRev = rapid.Bool().Draw(t, "bitRev")
	c.LogBSGS = rapid.IntRange(0, 2).Draw(t, "logBSGS")
	c.NP = rapid.IntRange(1, 2).Draw(t, "nP")
	c.Seed = rapid.Uint64().Draw(t, "seed")
	c.RoundTrip = rapid.Bool().Draw(t, "roundTrip")
	return c
}

// runDFTRoundTrip: values. decode(SlotsToCoeffs(CoeffsToSlots(ct))) = decode(ct) up to the precision of the scale.
func runDFTRoundTrip(c DFTCase, rec *h.Rec) error {
	nMat := 0
	for _, l := range c.Levels {
		nMat += l
	}
	const logScale = 45
	spec := h.CKKSSpec{RLWESpec: h.RLWESpec{LogN: c.LogN, Xs: h.DefaultXs, Xe: h.DefaultXe, NTT: true}, LogScale: logScale}
	m := spec.NthRoot()
	spec.Q = append(h.Primes(58, m, 1, true), h.Primes(logScale, m, 2*nMat+1, true)...)
	spec.P = h.Primes(61, m, c.NP, true)
	p, err := spec.Build()
	if err != nil {
		return h.Failf("C11:ckks:params", "cannot build parameters: %v", err)
	}
	sparse := c.LogSlots < p.LogMaxSlots()
	if sparse && dft.Format(c.Format) == dft.SplitRealAndImag {
		// CoeffsToSlotsNew only returns the imaginary part for full packing: no round trip to check
		rec.Class("roundtrip=n/a(sparse split)")
		return nil
	}
	lit := func(tp dft.Type, levelQ int) dft.MatrixLiteral {
		return dft.MatrixLiteral{Type: tp, LogSlots: c.LogSlots, LevelQ: levelQ, LevelP: p.MaxLevelP(), Levels: c.Levels,
			Format: dft.Format(c.Format), BitReversed: c.BitRev, LogBSGSRatio: c.LogBSGS}
	}
	litE, litD := lit(dft.HomomorphicEncode, p.MaxLevel()), lit(dft.HomomorphicDecode, p.MaxLevel()-nMat)
	ecd := ckks.NewEncoder(p, 90)
	matE, err := dft.NewMatrixFromLiteral(p, litE, ecd)
	if err != nil {
		rec.Class("matrix-error")
		return nil
	}
	matD, err := dft.NewMatrixFromLiteral(p, litD, ecd)
	if err != nil {
		rec.Class("matrix-error")
		return nil
	}
	kgen := rlwe.NewKeyGenerator(p)
	sk := kgen.GenSecretKeyNew()
	enc := rlwe.NewEncryptor(p, sk)
	dec := rlwe.NewDecryptor(p, sk)
	galEls := append(append(litE.GaloisElements(p), litD.GaloisElements(p)...), p.GaloisElementForComplexConjugation())
	keys := keysFor(kgen, sk, galEls, 0)
	eval := dft.NewEvaluator(p, ckks.NewEvaluator(p, keys))
	snap := snapshot(sk, keys)

	slots := 1 << c.LogSlots
	vals := distinctC(c.Seed, slots, false)
	pt := ckks.NewPlaintext(p, p.MaxLevel())
	pt.LogDimensions = ring.Dimensions{Rows: 0, Cols: c.LogSlots}
	if err := ecd.Encode(vals, pt); err != nil {
		return h.Failf("C11:ckks:encode", "Encode: %v", err)
	}
	ct, err := enc.EncryptNew(pt)
	if err != nil {
		return h.Failf("C11:ckks:encrypt", "EncryptNew: %v", err)
	}
	detail := fmt.Sprintf("%+v N=%d slots=%d", c, p.N(), slots)
	re, im, err := eval.CoeffsToSlotsNew(ct, matE)
	if err != nil {
		if len(keys.missing) > 0 || isMissingKey(err) {
			return h.Failf("C11:dft:CoeffsToSlots:missing-key", "%s: %v (missing %v)", detail, err, keys.missing)
		}
		return h.Failf("C11:dft:CoeffsToSlots:error", "%s: %v", detail, err)
	}
	out, err := eval.SlotsToCoeffsNew(re, im, matD)
	if err != nil {
		if len(keys.missing) > 0 || isMissingKey(err) {
			return h.Failf("C11:dft:SlotsToCoeffs:missing-key", "%s: %v (missing %v)", detail, err, keys.missing)
		}
		return h.Failf("C11:dft:SlotsToCoeffs:error", "%s: %v", detail, err)
	}
	have := make([]complex128, slots)
	if err := ecd.Decode(dec.DecryptNew(out), have); err != nil {
		return h.Failf("C11:ckks:decode", "Decode: %v", err)
	}
	// precision floor as a function of the literal: the k matrices of a level with Levels[i] = k are encoded at the
	// scale q^(1/k), so their entries carry about 45/k bits; the error grows with the ring degree and the number of
	// matrices (observed: 2^-36 for N=64, four matrices, k=1; 2^-18 for N=32, k=2). A wrong diagonal or rotation gives
	// an error of order 0.1 to 1.
	maxK := 1
	for _, l := range c.Levels {
		if l > maxK {
			maxK = l
		}
	}
	tol := math.Exp2(float64(c.LogN+2*nMat+6) - float64(logScale)/float64(maxK))
	if tol > 1.0/16 {
		// the literal leaves too little precision to tell a right from a wrong result: only key sufficiency was decided
		rec.Class("roundtrip=unjudged(precision)")
		return nil
	}
	if i, d := firstDiffC(have, vals, tol, nil); i >= 0 {
		return h.Failf("C11:dft:roundtrip:value", "%s: slot %d = %v after CoeffsToSlots+SlotsToCoeffs, expected %v (|diff|=%.3g > tol %.3g)\n have %s\n want %s", detail, i, have[i], vals[i], d, tol, fmtC(have, 6), fmtC(vals, 6))
	}
	if ch := sameSnapshot(snap, snapshot(sk, keys)); ch != "" {
		return h.Failf("C11:dft:key-material-modified", "%s: %s changed", detail, ch)
	}
	rec.Class("op=RoundTrip")
	rec.Classf("format=%d", c.Format)
	rec.Classf("sparse=%v", sparse)
	rec.NonTrivial(fmt.Sprintf("dft|roundtrip|logN=%d|logSlots=%d|fmt=%d|levels=%v|bitrev=%v|bsgs=%d", c.LogN, c.LogSlots, c.Format, c.Levels, c.BitRev, c.LogBSGS))
	return nil
}

func runDFT(c DFTCase, rec *h.Rec) error {
	if c.RoundTrip {
		return runDFTRoundTrip(c, rec)
	}
	spec := h.CKKSSpec{RLWESpec: h.RLWESpec{LogN: c.LogN, Xs: h.DefaultXs, Xe: h.DefaultXe, NTT: true}, LogScale: 40}
	m := spec.NthRoot()
	depth := 1
	for _, l := range c.Levels {
		depth += l
	}
	spec.Q = append(h.Primes(55, m, 1, true), h.Primes(40, m, depth, true)...)
	spec.P = h.Primes(61, m, c.NP, true)
	p, err := spec.Build()
	if err != nil {
		return h.Failf("C11:ckks:params", "cannot build parameters: %v", err)
	}
	lit := dft.MatrixLiteral{
		Type:         dft.Type(c.Type),
		LogSlots:     c.LogSlots,
		LevelQ:       p.MaxLevelQ(),
		LevelP:       p.MaxLevelP(),
		Levels:       c.Levels,
		Format:       dft.Format(c.Format),
		BitReversed:  c.BitRev,
		LogBSGSRatio: c.LogBSGS,
	}
	ecd := ckks.NewEncoder(p, 90)
	mat, err := dft.NewMatrixFromLiteral(p, lit, ecd)
	if err != nil {
		rec.Class("matrix-error")
		rec.Note("matrix-error", err.Error())
		return nil
	}
	kgen := rlwe.NewKeyGenerator(p)
	sk := kgen.GenSecretKeyNew()
	enc := rlwe.NewEncryptor(p, sk)
	galEls := append(lit.GaloisElements(p), p.GaloisElementForComplexConjugation())
	keys := keysFor(kgen, sk, galEls, 0)
	eval := dft.NewEvaluator(p, ckks.NewEvaluator(p, keys))

	slots := 1 << c.LogSlots
	sparse := c.LogSlots < p.LogMaxSlots()
	rng := h.NewSplitMix(c.Seed)
	vec := func(n int) []complex128 {
		v := make([]complex128, n)
		for i := range v {
			v[i] = complex(rng.Float64()*2-1, rng.Float64()*2-1)
		}
		return v
	}
	encrypt := func(logSlots int) (*rlwe.Ciphertext, error) {
		pt := ckks.NewPlaintext(p, p.MaxLevel())
		pt.LogDimensions = ring.Dimensions{Rows: 0, Cols: logSlots}
		if err := ecd.Encode(vec(1<<logSlots), pt); err != nil {
			return nil, h.Failf("C11:ckks:encode", "Encode: %v", err)
		}
		ct, err := enc.EncryptNew(pt)
		if err != nil {
			return nil, h.Failf("C11:ckks:encrypt", "EncryptNew: %v", err)
		}
		return ct, nil
	}
	detail := fmt.Sprintf("%+v N=%d slots=%d", c, p.N(), slots)
	var opName string
	if lit.Type == dft.HomomorphicEncode {
		opName = "CoeffsToSlots"
		ct, err := encrypt(c.LogSlots)
		if err != nil {
			return err
		}
		_, _, err = eval.CoeffsToSlotsNew(ct, mat)
		if err != nil && (len(keys.missing) > 0 || isMissingKey(err)) {
			return h.Failf("C11:dft:CoeffsToSlots:missing-key", "%s: %v (missing %v)", detail, err, keys.missing)
		}
		if err != nil {
			rec.Class("other-error")
			rec.Note("error", err.Error())
		}
	} else {
		opName = "SlotsToCoeffs"
		ls := c.LogSlots
		if sparse && lit.Format == dft.RepackImagAsReal {
			ls++
		}
		ct0, err := encrypt(ls)
		if err != nil {
			return err
		}
		var ct1 *rlwe.Ciphertext
		if !sparse {
			if ct1, err = encrypt(ls); err != nil {
				return err
			}
		}
		_, err = eval.SlotsToCoeffsNew(ct0, ct1, mat)
		if err != nil && (len(keys.missing) > 0 || isMissingKey(err)) {
			return h.Failf("C11:dft:SlotsToCoeffs:missing-key", "%s: %v (missing %v)", detail, err, keys.missing)
		}
		if err != nil {
			rec.Class("other-error")
			rec.Note("error", err.Error())
		}
	}
	used := 0
	for _, g := range keys.GetGaloisKeysList() {
		if keys.asked[g] > 0 {
			used++
		}
	}
	rec.Classf("op=%s", opName)
	rec.Classf("format=%d", c.Format)
	rec.Classf("sparse=%v", sparse)
	rec.Note("keys-generated", len(keys.GetGaloisKeysList()))
	rec.Note("keys-used", used)
	rec.NonTrivial(fmt.Sprintf("dft|%s|logN=%d|logSlots=%d|fmt=%d|levels=%v|bitrev=%v|bsgs=%d", opName, c.LogN, c.LogSlots, c.Format, c.Levels, c.BitRev, c.LogBSGS))
	return nil
}

var propDFT = h.NewProp("TestPropDFTKeys", h.Budget{Quick: 120, Thorough: 3000}, genDFT, runDFT)

func TestPropDFTKeys(t *testing.T) { propDFT.Check(t) }
