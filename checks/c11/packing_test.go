package c11

import (
	"fmt"
	"math"
	"math/big"
	"sort"
	"testing"

	"verif/internal/h"

	"github.com/tuneinsight/lattigo/v6/core/rlwe"
	"pgregory.net/rapid"
)

// PackCase: ring packing sub-routines Expand / Pack run with keys for exactly the advertised lists
// rlwe.GaloisElementsForExpand / GaloisElementsForPack (standard ring only, as documented).
type PackCase struct {
	Spec     h.RLWESpec `json:"params"`
	Level    int        `json:"level"`
	Seed     uint64     `json:"seed"`
	Op       string     `json:"op"`     // Expand | Pack
	LogGap   int        `json:"logGap"` // Expand: logGap; Pack: inputLogGap
	Zero     bool       `json:"zero,omitempty"`
	Idx      []int      `json:"idx,omitempty"`     // Pack: indices of the input ciphertexts (distinct, < 2^inputLogGap)
	KeysFull bool       `json:"keysFull"`          // Pack: keys for GaloisElementsForPack(params, LogN) (as GenRepackEvaluationKeys) instead of (params, inputLogGap)
	MinLogN  int        `json:"minLogN,omitempty"` // ExtractRepack: smallest ring degree of the ring-switching chain
	Naive    int        `json:"naive,omitempty"`   // ExtractRepack: 0 Extract+Repack, 1 ExtractNaive+Repack, 2 Extract+RepackNaive
}

func (c PackCase) RandSeed() uint64 { return c.Seed }

func genPack(t *rapid.T) PackCase {
	var c PackCase
	s := &c.Spec
	s.LogN = rapid.IntRange(4, maxLogN()-1).Draw(t, "logN")
	s.NTT = rapid.IntRange(0, 3).Draw(t, "nttFlag") != 0
	n := s.N()
	s.Xs = h.GenDist(t, true, n, "xs")
	s.Xe = h.GenDist(t, false, n, "xe")
	c.Op = []string{"Expand", "Pack", "ExtractRepack"}[rapid.IntRange(0, 2).Draw(t, "op")]
	if c.Op == "ExtractRepack" {
		// Split/Merge (ring-degree switching) work on NTT-domain ciphertexts only (SwitchCiphertextRingDegreeNTT, monomial
		// products in the NTT domain, no IsNTT handling unlike Expand/Pack); lattigo's tests use NTTFlag = true.
		s.NTT = true
	}
	if c.Op == "ExtractRepack" {
		if s.LogN < 5 {
			s.LogN = 5 // the chain needs a smaller ring of degree >= 2^4
		}
		n = s.N()
		c.MinLogN = rapid.IntRange(4, s.LogN-1).Draw(t, "minLogN")
		c.Naive = rapid.IntRange(0, 2).Draw(t, "naive")
		cnt := rapid.IntRange(1, 8).Draw(t, "count")
		stride := 1 << rapid.IntRange(0, 2).Draw(t, "logStride")
		seen := map[int]bool{}
		for len(c.Idx) < cnt {
			j := rapid.IntRange(0, n/stride-1).Draw(t, fmt.Sprintf("idx%d", len(c.Idx))) * stride
			for seen[j] {
				j = (j + stride) % n
			}
			seen[j] = true
			c.Idx = append(c.Idx, j)
		}
		sort.Ints(c.Idx)
	} else if c.Op == "Expand" {
		c.LogGap = rapid.IntRange(0, s.LogN).Draw(t, "logGap")
	} else {
		c.LogGap = rapid.IntRange(1, s.LogN).Draw(t, "inputLogGap")
		c.Zero = rapid.Bool().Draw(t, "zero")
		c.KeysFull = rapid.IntRange(0, 3).Draw(t, "keysFull") != 0
		m := 1 << c.LogGap
		lo := 1
		if !c.Zero {
			lo = 2 // documented error otherwise: with a single ciphertext and zeroGarbageSlots=false there is nothing to do
		}
		cnt := rapid.IntRange(lo, minInt(m, 8)).Draw(t, "count")
		seen := map[int]bool{}
		stride := 1
		if c.LogGap >= 2 && rapid.IntRange(0, 2).Draw(t, "strided") == 0 {
			stride = 2 // indices of equal parity: the smallest gap between inputs is a multiple of two
		}
		for len(c.Idx) < cnt && len(c.Idx) < m/stride {
			j := rapid.IntRange(0, m-1).Draw(t, fmt.Sprintf("idx%d", len(c.Idx)))
			if stride == 2 {
				j |= 1
			}
			for seen[j] {
				j = (j + stride) % m
			}
			seen[j] = true
			c.Idx = append(c.Idx, j)
		}
		sort.Ints(c.Idx)
	}
	// up to 8 inputs are merged over up to log2(N) doubling levels: 8N error terms bound every output coefficient
	req := modReq{terms: 8 * n, depth: s.LogN + 1}
	if c.Op == "ExtractRepack" {
		// ring-degree switching down and up (one key switch per level each way), expansion and packing
		req = modReq{needP: true, terms: 16 * n, depth: 2*s.LogN + 4}
	}
	req.msgOverTot = 12 + 4
	var bp int
	s.Q, s.P, bp = genModuli(t, s.LogN, s.NthRoot(), s.Xs, s.Xe, req, map[uint64]bool{})
	if bp != 0 {
		// the ring packing evaluator takes its keys from key sets generated with the default decomposition: keep P = {}
		// sets usable by giving them one auxiliary prime
		s.P = h.GenPrimes(t, []int{61}, s.NthRoot(), map[uint64]bool{}, "p1")
	}
	c.Level = rapid.IntRange(0, len(s.Q)-1).Draw(t, "level")
	c.Seed = rapid.Uint64().Draw(t, "seed")
	return c
}

func minInt(a, b int) int {
	if a < b {
		return a
	}
	return b
}

func runPack(c PackCase, rec *h.Rec) error {
	p, err := c.Spec.Build()
	if err != nil {
		return h.Failf("C11:rlwe:params", "cannot build parameters: %v", err)
	}
	n, logN := p.N(), p.LogN()
	qs := c.Spec.Q[:c.Level+1]
	Q := h.ProdU(qs)
	ringQ := p.RingQ().AtLevel(c.Level)
	be, sl1 := c.Spec.Xe.AbsBound(), h.SecretL1(c.Spec.Xs, n)
	ks := ksNoiseLog2(n, qs, c.Spec.P, 0, be, sl1)
	noise := totalNoiseLog2(8*n, logN+1, ks, be)
	if c.Op == "ExtractRepack" {
		noise = totalNoiseLog2(16*n, 2*logN+4, ks, be)
	}
	msgBits := int(math.Floor(log2Prod(qs) - 4))
	if float64(msgBits) < noise+10 {
		// cannot be judged (noise bound too close to the message size): counted as trivial, never a violation
		rec.Class("unjudged:noise-margin")
		return nil
	}
	bound := new(big.Int).Lsh(big.NewInt(1), uint(math.Ceil(noise)))
	rng := h.NewSplitMix(c.Seed)
	mask := new(big.Int).Sub(new(big.Int).Lsh(big.NewInt(1), uint(msgBits)), big.NewInt(1))
	randPoly := func() []*big.Int {
		m := make([]*big.Int, n)
		for i := range m {
			v := new(big.Int)
			for w := 0; w*62 < msgBits; w++ {
				v.Lsh(v, 62).Or(v, new(big.Int).SetUint64(rng.Uint64()>>2))
			}
			v.And(v, mask)
			if rng.Uint64()&1 == 1 {
				v.Neg(v)
			}
			m[i] = v
		}
		return m
	}

	kgen := rlwe.NewKeyGenerator(p)
	sk := kgen.GenSecretKeyNew()
	enc := rlwe.NewEncryptor(p, sk)
	dec := rlwe.NewDecryptor(p, sk)
	encrypt := func(m []*big.Int) (*rlwe.Ciphertext, error) {
		pt := rlwe.NewPlaintext(p, c.Level)
		limbs := h.ToRNS(m, qs)
		for i := range limbs {
			copy(pt.Value.Coeffs[i], limbs[i])
		}
		if pt.IsNTT {
			ringQ.NTT(pt.Value, pt.Value)
		}
		ct, err := enc.EncryptNew(pt)
		if err != nil {
			return nil, h.Failf("C11:rlwe:encrypt", "EncryptNew: %v", err)
		}
		return ct, nil
	}
	decrypt := func(x *rlwe.Ciphertext) []*big.Int {
		o := dec.DecryptNew(x)
		if o.IsNTT {
			ringQ.INTT(o.Value, o.Value)
		}
		return h.VecCenter(h.CRT(o.Value.Coeffs[:c.Level+1], qs), Q)
	}
	near := func(a, b *big.Int) bool {
		d := h.Center(new(big.Int).Sub(a, b), Q)
		return d.Abs(d).Cmp(bound) <= 0
	}

	rec.Classf("op=%s", c.Op)
	rec.Classf("logN=%d", logN)
	rec.Classf("ntt=%v", c.Spec.NTT)

	switch c.Op {
	case "Expand":
		keys := keysFor(kgen, sk, rlwe.GaloisElementsForExpand(p, logN), 0)
		evk := &rlwe.RingPackingEvaluationKey{
			Parameters:  map[int]rlwe.ParameterProvider{logN: &p},
			ExtractKeys: map[int]rlwe.EvaluationKeySet{logN: keys},
		}
		eval := rlwe.NewRingPackingEvaluator(evk)
		msg := randPoly()
		ct, err := encrypt(msg)
		if err != nil {
			return err
		}
		detail := fmt.Sprintf("Expand(logGap=%d) N=%d ntt=%v level=%d", c.LogGap, n, c.Spec.NTT, c.Level)
		cts, err := eval.Expand(ct, c.LogGap)
		if err != nil {
			return opErr("rlwe", "Expand", err, keys, detail)
		}
		gap := 1 << c.LogGap
		for i := 0; i < n; i += gap {
			o, ok := cts[i]
			if !ok || o == nil {
				return h.Failf("C11:rlwe:Expand:absent", "%s: no ciphertext for index %d", detail, i)
			}
			have := decrypt(o)
			if !near(have[0], msg[i]) {
				return h.Failf("C11:rlwe:Expand:value", "%s: ciphertext %d has constant coefficient %v, expected %v (noise bound 2^%.1f)", detail, i, have[0], msg[i], noise)
			}
			for j := 1; j < n; j++ {
				if !near(have[j], new(big.Int)) {
					return h.Failf("C11:rlwe:Expand:non-constant", "%s: ciphertext %d has coefficient %d = %v, expected 0 (noise bound 2^%.1f)", detail, i, j, have[j], noise)
				}
			}
		}
		rec.Classf("logGap=%s", map[bool]string{true: "0", false: ">0"}[c.LogGap == 0])
		rec.NonTrivial(fmt.Sprintf("expand|logN=%d|ntt=%v|gap=%d|lvl=%d/%d|nP=%d", logN, c.Spec.NTT, c.LogGap, c.Level, len(c.Spec.Q)-1, len(c.Spec.P)))
	case "Pack":
		arg := c.LogGap
		if c.KeysFull {
			arg = logN
		}
		keys := keysFor(kgen, sk, rlwe.GaloisElementsForPack(p, arg), 0)
		evk := &rlwe.RingPackingEvaluationKey{
			Parameters: map[int]rlwe.ParameterProvider{logN: &p},
			RepackKeys: map[int]rlwe.EvaluationKeySet{logN: keys},
		}
		eval := rlwe.NewRingPackingEvaluator(evk)
		gap := 1 << c.LogGap
		msgs := map[int][]*big.Int{}
		cts := map[int]*rlwe.Ciphertext{}
		for _, j := range c.Idx {
			msgs[j] = randPoly()
			if cts[j], err = encrypt(msgs[j]); err != nil {
				return err
			}
		}
		detail := fmt.Sprintf("Pack(idx=%v, inputLogGap=%d, zero=%v) N=%d ntt=%v level=%d keys=GaloisElementsForPack(%d)", c.Idx, c.LogGap, c.Zero, n, c.Spec.NTT, c.Level, arg)
		// Without garbage zeroing Pack keeps only the positions that are multiples of the largest power of two dividing the
		// smallest gap between two consecutive input indices ("slots which are not multiples of X^{2^{logGap}}" are garbage,
		// "and thus possibly entire ciphertexts", see getMinimumGap): only those are compared.
		keep := 1
		if !c.Zero {
			minGap := 1 << 62
			for i := 1; i < len(c.Idx); i++ {
				if d := c.Idx[i] - c.Idx[i-1]; d < minGap {
					minGap = d
				}
			}
			for minGap&1 == 0 {
				minGap >>= 1
				keep <<= 1
			}
		}
		noneKept := true
		for _, j := range c.Idx {
			noneKept = noneKept && j%keep != 0
		}
		out, err := eval.Pack(cts, c.LogGap, c.Zero)
		if noneKept && err != nil && len(keys.missing) == 0 && !isMissingKey(err) {
			// every input sits on a position Pack treats as garbage: a (documented) error is the correct answer
			rec.Class("pack=all-inputs-garbage:error")
			return nil
		}
		if err != nil && !c.KeysFull && c.LogGap < logN && (len(keys.missing) > 0 || isMissingKey(err)) {
			// listed finding: GaloisElementsForPack(params, logGap) called with Pack's own inputLogGap < LogN advertises
			// 5^(2^i) for i < logGap, Pack needs i in [LogN-inputLogGap-1, LogN-2]
			key := "C11:rlwe:Pack:keys-for-inputLogGap:missing-key"
			msg := fmt.Sprintf("%s: %v (missing %v, generated %v)", detail, err, keys.missing, keys.GetGaloisKeysList())
			if rec.Known(key, msg) {
				rec.Class("known=Pack:keys-for-inputLogGap")
				return nil
			}
			return h.Failf(key, "%s", msg)
		}
		if err != nil {
			return opErr("rlwe", "Pack", err, keys, detail)
		}
		if out == nil {
			// listed finding: without garbage zeroing the merge tree stops early and the result is only returned when an
			// input with index 0 exists
			key := "C11:rlwe:Pack:nil-result"
			msg := detail + ": Pack returned (nil, nil)"
			if rec.Known(key, msg) {
				rec.Class("known=Pack:nil-result")
				return nil
			}
			return h.Failf(key, "%s", msg)
		}
		have := decrypt(out)
		inIdx := map[int]bool{}
		for _, j := range c.Idx {
			inIdx[j] = true
		}
		for k := 0; k < n; k++ {
			j := k % gap
			if inIdx[j] && j%keep != 0 {
				continue
			}
			if inIdx[j] {
				if want := msgs[j][k-j]; !near(have[k], want) {
					return h.Failf("C11:rlwe:Pack:value", "%s: coefficient %d = %v, expected coefficient %d of input %d = %v (noise bound 2^%.1f)", detail, k, have[k], k-j, j, want, noise)
				}
			} else if c.Zero {
				if !near(have[k], new(big.Int)) {
					return h.Failf("C11:rlwe:Pack:garbage-not-zeroed", "%s: coefficient %d = %v, expected 0 (noise bound 2^%.1f)", detail, k, have[k], noise)
				}
			}
		}
		rec.Classf("zero=%v", c.Zero)
		rec.Classf("keys=%s", map[bool]string{true: "for-LogN", false: "for-inputLogGap"}[c.KeysFull])
		rec.Classf("inputLogGap=%s", map[bool]string{true: "logN", false: "<logN"}[c.LogGap == logN])
		rec.NonTrivial(fmt.Sprintf("pack|logN=%d|ntt=%v|gap=%d|zero=%v|idx=%v|lvl=%d/%d|nP=%d", logN, c.Spec.NTT, c.LogGap, c.Zero, c.Idx, c.Level, len(c.Spec.Q)-1, len(c.Spec.P)))
	case "ExtractRepack":
		// The key material is what the library's own generators produce for the advertised lists (GaloisElementsForExpand
		// and GaloisElementsForPack at every ring degree they are called for, plus the ring-degree switching keys); the
		// Galois key sets are wrapped to record the lookups.
		evk := &rlwe.RingPackingEvaluationKey{}
		ski, err := evk.GenRingSwitchingKeys(p, sk, c.MinLogN, rlwe.EvaluationKeyParameters{})
		if err != nil {
			return h.Failf("C11:rlwe:GenRingSwitchingKeys:error", "minLogN=%d: %v", c.MinLogN, err)
		}
		evk.GenRepackEvaluationKeys(evk.Parameters[c.MinLogN], ski[c.MinLogN], rlwe.EvaluationKeyParameters{})
		evk.GenRepackEvaluationKeys(evk.Parameters[logN], ski[logN], rlwe.EvaluationKeyParameters{})
		evk.GenExtractEvaluationKeys(evk.Parameters[c.MinLogN], ski[c.MinLogN], rlwe.EvaluationKeyParameters{})
		var recs []*recKeys
		for k, ks := range evk.RepackKeys {
			r := newRecKeys(ks)
			recs = append(recs, r)
			evk.RepackKeys[k] = r
		}
		for k, ks := range evk.ExtractKeys {
			r := newRecKeys(ks)
			recs = append(recs, r)
			evk.ExtractKeys[k] = r
		}
		missing := func() (m []uint64) {
			for _, r := range recs {
				m = append(m, r.missing...)
			}
			return
		}
		eval := rlwe.NewRingPackingEvaluator(evk)
		msg := randPoly()
		ct, err := encrypt(msg)
		if err != nil {
			return err
		}
		idx := map[int]bool{}
		for _, j := range c.Idx {
			idx[j] = true
		}
		detail := fmt.Sprintf("Extract/Repack(idx=%v, minLogN=%d, variant=%d) N=%d ntt=%v level=%d", c.Idx, c.MinLogN, c.Naive, n, c.Spec.NTT, c.Level)
		var cts map[int]*rlwe.Ciphertext
		if c.Naive == 1 {
			cts, err = eval.ExtractNaive(ct, idx)
		} else {
			cts, err = eval.Extract(ct, idx)
		}
		if err != nil {
			if m := missing(); len(m) > 0 || isMissingKey(err) {
				return h.Failf("C11:rlwe:Extract:missing-key", "%s: %v (missing %v)", detail, err, m)
			}
			return h.Failf("C11:rlwe:Extract:error", "%s: %v", detail, err)
		}
		if len(cts) != len(idx) {
			return h.Failf("C11:rlwe:Extract:count", "%s: %d ciphertexts returned for %d indexes", detail, len(cts), len(idx))
		}
		var out *rlwe.Ciphertext
		if c.Naive == 2 {
			out, err = eval.RepackNaive(cts)
		} else {
			out, err = eval.Repack(cts)
		}
		if err != nil {
			if m := missing(); len(m) > 0 || isMissingKey(err) {
				return h.Failf("C11:rlwe:Repack:missing-key", "%s: %v (missing %v)", detail, err, m)
			}
			return h.Failf("C11:rlwe:Repack:error", "%s: %v", detail, err)
		}
		if out == nil || out.LogN() != logN {
			return h.Failf("C11:rlwe:Repack:shape", "%s: result is nil or not of the maximum ring degree", detail)
		}
		have := decrypt(out)
		for k := 0; k < n; k++ {
			want := new(big.Int)
			if idx[k] {
				want = msg[k]
			}
			if !near(have[k], want) {
				return h.Failf("C11:rlwe:ExtractRepack:value", "%s: coefficient %d = %v, expected %v (noise bound 2^%.1f)", detail, k, have[k], want, noise)
			}
		}
		rec.Classf("variant=%d", c.Naive)
		rec.Classf("chain=%d", logN-c.MinLogN)
		rec.NonTrivial(fmt.Sprintf("extractrepack|logN=%d|min=%d|ntt=%v|variant=%d|idx=%v|lvl=%d/%d|nP=%d", logN, c.MinLogN, c.Spec.NTT, c.Naive, c.Idx, c.Level, len(c.Spec.Q)-1, len(c.Spec.P)))
	default:
		return h.Failf("C11:harness:mode", "unknown op %q", c.Op)
	}
	return nil
}

var propPack = h.NewProp("TestPropRingPackingKeys", h.Budget{Quick: 300, Thorough: 8000}, genPack, runPack)

func TestPropRingPackingKeys(t *testing.T) { propPack.Check(t) }
