package c02

import (
	"fmt"
	"math/big"
	"testing"

	"verif/internal/h"

	"github.com/tuneinsight/lattigo/v6/ring"
	"pgregory.net/rapid"
)

// DivCase: one call of a Div{Floor,Round}ByLastModulus{,NTT,Many,ManyNTT} method.
type DivCase struct {
	Chain    ChainSpec  `json:"chain"`
	Level    int        `json:"level"`    // input level (>= Nb)
	Op       string     `json:"op"`       // Floor | Round
	NTT      bool       `json:"ntt"`      // NTT-domain variant
	Many     bool       `json:"many"`     // ...Many variant with Nb rescalings (else a single division)
	Nb       int        `json:"nb"`       // number of consecutive divisions
	OutSame  bool       `json:"outSame"`  // output poly allocated at the input level (else at level-Nb)
	InPlace  bool       `json:"inPlace"`  // output == input
	Prior    bool       `json:"prior,omitempty"` // polys live at the maximum level and went through a (checked) call at the maximum level before
	Coeffs   []CoefSpec `json:"coeffs"`
	DirtSeed uint64     `json:"dirt"`
}

func (c DivCase) name() string {
	s := "Div" + c.Op + "ByLastModulus"
	if c.Many {
		s += "Many"
	}
	if c.NTT {
		s += "NTT"
	}
	return s
}

func genDiv(t *rapid.T) DivCase {
	var c DivCase
	maxLogN, maxQ := 6, 6
	if h.Thorough() {
		maxLogN, maxQ = 7, 8
	}
	c.Chain = genChains(t, 3, maxLogN, 2, maxQ, 0, 0, true)
	nq := len(c.Chain.Q)
	c.Op = []string{"Floor", "Round"}[rapid.IntRange(0, 1).Draw(t, "op")]
	c.NTT = rapid.Bool().Draw(t, "ntt")
	c.Many = rapid.IntRange(0, 2).Draw(t, "many") > 0
	c.Level = rapid.IntRange(1, nq-1).Draw(t, "level")
	if c.Many {
		// all numbers of consecutive rescalings 0..level, biased to the ends
		switch rapid.IntRange(0, 5).Draw(t, "nbk") {
		case 0:
			c.Nb = 0
		case 1:
			c.Nb = c.Level
		default:
			c.Nb = rapid.IntRange(0, c.Level).Draw(t, "nb")
		}
	} else {
		c.Nb = 1
	}
	c.OutSame = rapid.Bool().Draw(t, "outSame")
	c.InPlace = rapid.IntRange(0, 3).Draw(t, "inPlace") == 0
	if c.InPlace || c.Nb == 0 {
		c.OutSame = true
	}
	c.Prior = rapid.IntRange(0, 2).Draw(t, "prior") == 0
	c.Coeffs = genCoefs(t, []string{"uni", "small", "mul", "half", "nest", "nest", "edge"})
	c.DirtSeed = rapid.Uint64().Draw(t, "dirt")
	return c
}

// divPolys are the polynomials of a case with a prior life: all at the maximum level.
type divPolys struct{ p0, buff, p1 ring.Poly }

func runDiv(c DivCase, rec *h.Rec) error {
	rFull, _, err := c.Chain.rings()
	if err != nil {
		return h.Failf("C02:setup:NewRing", "%v", err)
	}
	if c.Level < 1 || c.Level >= len(c.Chain.Q) || c.Nb < 0 || c.Nb > c.Level || (!c.Many && c.Nb != 1) {
		return nil // outside the accepted domain (hand-edited replay)
	}
	if !c.Prior {
		return divRound(c, rec, nil, "", true)
	}
	st := &divPolys{p0: rFull.NewPoly(), buff: rFull.NewPoly(), p1: rFull.NewPoly()}
	dirty(st.p0, c.Chain.Q, c.DirtSeed+2)
	dirty(st.buff, c.Chain.Q, c.DirtSeed)
	dirty(st.p1, c.Chain.Q, c.DirtSeed+1)
	first := c
	first.Level = len(c.Chain.Q) - 1
	first.Coeffs = []CoefSpec{{Kind: "uni", U: c.DirtSeed}}
	if err := divRound(first, rec, st, ":first-use", false); err != nil {
		return err
	}
	return divRound(c, rec, st, "", true)
}

// divRound performs and checks one call. With st != nil the maximum-level polynomials of st are (re-)used.
func divRound(c DivCase, rec *h.Rec, st *divPolys, tag string, record bool) error {
	rFull, _, err := c.Chain.rings()
	if err != nil {
		return h.Failf("C02:setup:NewRing", "%v", err)
	}
	name := c.name()
	r := rFull.AtLevel(c.Level)
	N := c.Chain.N()
	Qin := c.Chain.Q[:c.Level+1]
	M := prod(Qin)

	// divisors in the order they are applied: q_level, q_level-1, ...
	var divs []*big.Int
	for i := 0; i < c.Nb; i++ {
		divs = append(divs, h.BU(c.Chain.Q[c.Level-i]))
	}
	x := buildCoeffs(c.Coeffs, N, M, divs, nil, nil)

	// reference: iterated exact integer division of the representative in [0,Q)
	want := make([]*big.Int, N)
	for j := range x {
		w := new(big.Int).Set(x[j])
		for _, d := range divs {
			if c.Op == "Floor" {
				w = h.FloorDiv(w, d)
			} else {
				w = h.RoundDiv(w, d)
			}
		}
		want[j] = w
	}
	outLevel := c.Level - c.Nb
	Qout := c.Chain.Q[:outLevel+1]
	wantRNS := h.ToRNS(want, Qout)

	var p0, buff, p1 ring.Poly
	if st != nil {
		p0, buff, p1 = st.p0, st.buff, st.p1
		if c.InPlace {
			p1 = p0
		}
		setPoly(p0, x, Qin)
		if c.NTT {
			r.NTT(p0, p0)
		}
	} else {
		p0 = r.NewPoly()
		setPoly(p0, x, Qin)
		if c.NTT {
			r.NTT(p0, p0)
		}
		buff = r.NewPoly()
		dirty(buff, Qin, c.DirtSeed)
		p1 = p0
		if !c.InPlace {
			if c.OutSame {
				p1 = r.NewPoly()
			} else {
				p1 = rFull.AtLevel(outLevel).NewPoly()
			}
			dirty(p1, Qin, c.DirtSeed+1)
		}
	}

	switch {
	case c.Op == "Floor" && !c.Many && !c.NTT:
		r.DivFloorByLastModulus(p0, p1)
	case c.Op == "Floor" && !c.Many && c.NTT:
		r.DivFloorByLastModulusNTT(p0, buff, p1)
	case c.Op == "Floor" && c.Many && !c.NTT:
		r.DivFloorByLastModulusMany(c.Nb, p0, buff, p1)
	case c.Op == "Floor" && c.Many && c.NTT:
		r.DivFloorByLastModulusManyNTT(c.Nb, p0, buff, p1)
	case c.Op == "Round" && !c.Many && !c.NTT:
		r.DivRoundByLastModulus(p0, p1)
	case c.Op == "Round" && !c.Many && c.NTT:
		r.DivRoundByLastModulusNTT(p0, buff, p1)
	case c.Op == "Round" && c.Many && !c.NTT:
		r.DivRoundByLastModulusMany(c.Nb, p0, buff, p1)
	case c.Op == "Round" && c.Many && c.NTT:
		r.DivRoundByLastModulusManyNTT(c.Nb, p0, buff, p1)
	default:
		return nil
	}

	// read the result at the output level
	res := ring.Poly{Coeffs: p1.Coeffs[:outLevel+1]}
	if c.NTT {
		tmp := rFull.AtLevel(outLevel).NewPoly()
		rFull.AtLevel(outLevel).INTT(res, tmp)
		res = tmp
	}
	// Configuration classes in which the lazy inverse NTT used by the single-step NTT variants is not reduced
	// (documented range [0,2q-1]): conjugate-invariant ring (every N) and N < 16.
	lazyClass := ""
	if c.NTT && c.Nb == 1 && !(c.Many && c.Op == "Floor") {
		if c.Chain.CI {
			lazyClass = ":ci"
		} else if N < 16 {
			lazyClass = ":N8"
		}
	}
	alias := ""
	if c.InPlace {
		alias = ":inplace"
	}
	nonzero := false
	knownHit := false
	singleNTT := c.NTT && c.Nb == 1 && !(c.Many && c.Op == "Floor") // kernels built on INTTLazy / NTTLazy
	ovfHit := false
	for j := 0; j < N; j++ {
		// per limb: 0 = equal, 1 = exactly quotient-1, 2 = anything else
		bad, badOvf := -1, -1
		allMinusOne, anyMinusOne := true, false
		for i, q := range Qout {
			got := res.Coeffs[i][j]
			if wantRNS[i][j] != 0 {
				nonzero = true
			}
			if singleNTT && nttLazyOverflowClass(c.Chain, q) {
				// limb on which the known NTTLazy range excess can wrap around 2^64: any value may come out
				if got%q != wantRNS[i][j] && badOvf < 0 {
					badOvf = i
				}
				continue
			}
			switch {
			case got%q == wantRNS[i][j]:
				allMinusOne = false
			case (got+1)%q == wantRNS[i][j]:
				anyMinusOne = true
				if bad < 0 {
					bad = i
				}
			default:
				allMinusOne = false
				if bad < 0 {
					bad = i
				}
			}
		}
		if badOvf >= 0 {
			i := badOvf
			key := "C02:" + name + ":nttlazy-overflow:ci-odd-logN-61bit"
			msg := fmt.Sprintf("%s level=%d N=%d conjugate-invariant: coefficient %d limb %d (q=%d): got %d want %d (x=%s)",
				name, c.Level, N, j, i, Qout[i], res.Coeffs[i][j], wantRNS[i][j], x[j])
			if !rec.Known(key, msg) {
				return h.Failf(key, "%s", msg)
			}
			ovfHit = true
		}
		if bad >= 0 {
			i := bad
			msg := fmt.Sprintf("%s nb=%d level=%d N=%d ci=%v: coefficient %d limb %d (q=%d): got %d want %d; x=%s divisors=%v expected quotient=%s",
				name, c.Nb, c.Level, N, c.Chain.CI, j, i, Qout[i], res.Coeffs[i][j], wantRNS[i][j], x[j], divs, want[j])
			if lazyClass != "" && allMinusOne && anyMinusOne {
				// the whole coefficient is exactly quotient-1: the unreduced last-limb representative was divided
				key := "C02:" + name + ":quotient-minus-one" + lazyClass
				if rec.Known(key, msg) {
					knownHit = true
					continue
				}
				return h.Failf(key, "%s", msg)
			}
			return h.Failf("C02:"+name+":quotient"+alias+tag, "%s", msg)
		}
		for i, q := range Qout {
			if got := res.Coeffs[i][j]; got >= q {
				return h.Failf("C02:"+name+":range"+alias+tag,
					"%s nb=%d level=%d: coefficient %d limb %d: result %d is congruent to the quotient but not reduced (q=%d)",
					name, c.Nb, c.Level, j, i, got, q)
			}
		}
	}
	if ovfHit {
		rec.Classf("known=%s:nttlazy-overflow", name)
	}
	if knownHit {
		rec.Classf("known=%s:quotient-minus-one%s", name, lazyClass)
	}

	if !record {
		return nil
	}
	rec.Classf("op=%s", name)
	rec.Classf("prior=%v", c.Prior)
	rec.Classf("nb=%d", c.Nb)
	rec.Classf("level=%s", lvlClass(c.Level, len(c.Chain.Q)-1))
	rec.Classf("sizes=%s", sizeClass(Qin))
	rec.Classf("ci=%v", c.Chain.CI)
	rec.Classf("N=%d", N)
	recKinds(rec, c.Coeffs)
	if c.InPlace {
		rec.Class("inplace")
	}
	// non-trivial: quotient-boundary coefficients and a non-zero result, and the division really happened
	if hasBoundary(c.Coeffs) && nonzero && c.Nb >= 1 {
		rec.NonTrivial(fmt.Sprintf("%s|N=%d|ci=%v|nb=%d|level=%d/%d|%s|%s|out=%v|inpl=%v|prior=%v", name, N, c.Chain.CI, c.Nb, c.Level, len(c.Chain.Q)-1,
			sizeClass(Qin), kindsOf(c.Coeffs), c.OutSame, c.InPlace, c.Prior))
	}
	return nil
}

var propDiv = h.NewProp("TestPropDivByLastModulus", h.Budget{Quick: 1600, Thorough: 30000}, genDiv, runDiv)

func TestPropDivByLastModulus(t *testing.T) { propDiv.Check(t) }
