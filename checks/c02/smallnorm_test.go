package c02

import (
	"fmt"
	"math/big"
	"testing"

	"verif/internal/h"

	"github.com/tuneinsight/lattigo/v6/core/rlwe"
	"github.com/tuneinsight/lattigo/v6/ring"
	"github.com/tuneinsight/lattigo/v6/ring/ringqp"
	"pgregory.net/rapid"
)

// SmallCase: extension of a small-norm polynomial (secret / error) given modulo Q (only Q[0] is read) to the limbs of P
// (or to the other limbs of Q).
//
//	ringqp  : ringqp.Ring.ExtendBasisSmallNormAndCenter
//	nttmont : rlwe.ExtendBasisSmallNormAndCenterNTTMontgomery(ringQ, ringP, ...)
//	nttQQ   : rlwe.ExtendBasisSmallNormAndCenterNTTMontgomery(ringQ, ringQ.AtLevel(levelQ), ...)   ("extend from Q0 to QL")
type SmallCase struct {
	Chain   ChainSpec `json:"chain"`
	LevelQ  int       `json:"levelQ"`
	LevelP  int       `json:"levelP"`
	Mode    string    `json:"mode"`
	Mag     string    `json:"mag"` // ternary | gauss | 16bit | max
	InPlace bool      `json:"inPlace"`
	Full    bool      `json:"full,omitempty"` // rings and polynomials at the maximum levels; only the levelP argument selects the target limbs
	Seed    uint64    `json:"seed"`
}

func genSmall(t *rapid.T) SmallCase {
	var c SmallCase
	c.Mode = []string{"ringqp", "nttmont", "nttQQ"}[rapid.IntRange(0, 2).Draw(t, "mode")]
	maxLogN := 6
	if h.Thorough() {
		maxLogN = 7
	}
	c.Chain = genChains(t, 3, maxLogN, 1, 5, 1, 3, true)
	c.LevelQ = rapid.IntRange(0, len(c.Chain.Q)-1).Draw(t, "levelQ")
	c.LevelP = rapid.IntRange(0, len(c.Chain.P)-1).Draw(t, "levelP")
	c.Mag = []string{"ternary", "gauss", "16bit", "max"}[rapid.IntRange(0, 3).Draw(t, "mag")]
	c.InPlace = rapid.Bool().Draw(t, "inPlace")
	c.Full = rapid.Bool().Draw(t, "full")
	c.Seed = rapid.Uint64().Draw(t, "seed")
	return c
}

func runSmall(c SmallCase, rec *h.Rec) error {
	rQ, rP, err := c.Chain.rings()
	if err != nil {
		return h.Failf("C02:setup:NewRing", "%v", err)
	}
	if rP == nil || c.LevelQ < 0 || c.LevelQ >= len(c.Chain.Q) || c.LevelP < 0 || c.LevelP >= len(c.Chain.P) {
		return nil
	}
	N := c.Chain.N()
	Q := c.Chain.Q[:c.LevelQ+1]
	tgt := c.Chain.P[:c.LevelP+1]
	if c.Mode == "nttQQ" {
		tgt = Q
	}
	// accepted magnitude: centred modulo Q[0] and representable below every target modulus
	bound := (Q[0] - 1) / 2
	for _, p := range append(append([]uint64(nil), Q...), tgt...) {
		if p-1 < bound {
			bound = p - 1
		}
	}
	B := bound
	switch c.Mag {
	case "ternary":
		B = 1
	case "gauss":
		B = 19
	case "16bit":
		B = 1 << 16
	}
	if B > bound {
		B = bound
	}
	sm := h.NewSplitMix(c.Seed)
	s := make([]*big.Int, N)
	for j := range s {
		var v uint64
		switch sm.Intn(4) {
		case 0:
			v = B
		case 1:
			v = sm.Uint64() % 2
		default:
			v = sm.Uint64() % (B + 1)
		}
		s[j] = h.BU(v)
		if sm.Uint64()&1 == 1 {
			s[j].Neg(s[j])
		}
	}
	want := h.ToRNS(s, tgt)
	ringQ, ringP := rQ.AtLevel(c.LevelQ), rP.AtLevel(c.LevelP)
	in := ringQ.NewPoly()
	setPoly(in, s, Q)
	inCopy := *in.CopyNew()

	var got [][]uint64
	var over uint64
	name := ""
	switch c.Mode {
	case "ringqp":
		name = "ringqp.ExtendBasisSmallNormAndCenter"
		rqp := ringqp.Ring{RingQ: ringQ, RingP: ringP}
		outQ := in
		if !c.InPlace {
			outQ = ringQ.NewPoly()
			dirty(outQ, Q, c.Seed+1)
		}
		outP := ringP.NewPoly()
		var stale ring.Poly
		if c.Full {
			// the ring of the parameters (maximum levels), a receiver with an earlier life at the maximum level
			rqp = ringqp.Ring{RingQ: ringQ, RingP: rP}
			outP = rP.NewPoly()
		}
		dirty(outP, c.Chain.P, c.Seed+2)
		stale = *outP.CopyNew()
		rqp.ExtendBasisSmallNormAndCenter(in, c.LevelP, outQ, outP)
		if !outQ.Equal(&inCopy) {
			return h.Failf("C02:"+name+":Q-part-changed", "the Q part of the output differs from the input (levelQ=%d, inPlace=%v)", c.LevelQ, c.InPlace)
		}
		if !c.InPlace && !in.Equal(&inCopy) {
			return h.Failf("C02:"+name+":input-modified", "the input polynomial was modified by an out-of-place call (levelQ=%d)", c.LevelQ)
		}
		for i := c.LevelP + 1; i < len(outP.Coeffs); i++ {
			for j := range outP.Coeffs[i] {
				if outP.Coeffs[i][j] != stale.Coeffs[i][j] {
					rec.Class("limbs above levelP written")
					i = len(outP.Coeffs)
					break
				}
			}
		}
		got, over = limbs(outP, tgt)
	case "nttmont", "nttQQ":
		name = "rlwe.ExtendBasisSmallNormAndCenterNTTMontgomery"
		ringQ.NTT(in, in)
		ringQ.MForm(in, in)
		buff := ringQ.NewPoly()
		dirty(buff, Q, c.Seed+1)
		rT := ringP
		if c.Mode == "nttQQ" {
			rT = ringQ
			name += "(Q->Q)"
		}
		out := in
		if !(c.Mode == "nttQQ" && c.InPlace) {
			out = rT.NewPoly()
			dirty(out, tgt, c.Seed+2)
		}
		rlwe.ExtendBasisSmallNormAndCenterNTTMontgomery(ringQ, rT, in, buff, out)
		tmp := rT.NewPoly()
		rT.INTT(out, tmp)
		rT.IMForm(tmp, tmp)
		got, over = limbs(tmp, tgt)
	default:
		return nil
	}
	for i := range tgt {
		for j := 0; j < N; j++ {
			if got[i][j] != want[i][j] {
				return h.Failf("C02:"+name+":residue", "%s levelQ=%d levelP=%d: coefficient %d limb %d (modulus %d): got %d, expected the residue %d of the centred value %s (Q[0]=%d)",
					name, c.LevelQ, c.LevelP, j, i, tgt[i], got[i][j], want[i][j], s[j], Q[0])
			}
		}
	}
	if over != 0 {
		return h.Failf("C02:"+name+":range", "%s: an output value is not reduced (multiple %d of its modulus)", name, over)
	}
	rec.Classf("op=%s", name)
	rec.Classf("mag=%s", c.Mag)
	rec.Classf("full=%v", c.Full)
	rec.Classf("ci=%v", c.Chain.CI)
	rec.Classf("levelP=%s", lvlClass(c.LevelP, len(c.Chain.P)-1))
	rec.Classf("Q0=%s", sizeClass(Q[:1]))
	rec.Classf("tgt=%s", sizeClass(tgt))
	if c.Mag != "ternary" || c.LevelP < len(c.Chain.P)-1 {
		rec.NonTrivial(fmt.Sprintf("%s|N=%d|ci=%v|mag=%s|lq=%d|lp=%d/%d|Q0=%s|tgt=%s|inpl=%v|full=%v", name, N, c.Chain.CI, c.Mag, c.LevelQ, c.LevelP, len(c.Chain.P)-1, sizeClass(Q[:1]), sizeClass(tgt), c.InPlace, c.Full))
	}
	return nil
}

var propSmall = h.NewProp("TestPropExtendSmallNorm", h.Budget{Quick: 800, Thorough: 10000}, genSmall, runSmall)

func TestPropExtendSmallNorm(t *testing.T) { propSmall.Check(t) }

var _ = ring.Standard
