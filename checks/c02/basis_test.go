package c02

import (
	"fmt"
	"math/big"
	"testing"

	"verif/internal/h"

	"github.com/tuneinsight/lattigo/v6/ring"
	"pgregory.net/rapid"
)

// ---------------------------------------------------------------------------------------------------------------
// ModUpQtoP / ModUpPtoQ

// ModUpCase: one basis extension of a centred value.
type ModUpCase struct {
	Chain    ChainSpec  `json:"chain"`
	LevelQ   int        `json:"levelQ"`
	LevelP   int        `json:"levelP"`
	PtoQ     bool       `json:"PtoQ"` // ModUpPtoQ (source P) instead of ModUpQtoP (source Q)
	Coeffs   []CoefSpec `json:"coeffs"`
	DirtSeed uint64     `json:"dirt"`
}

func genModUp(t *rapid.T) ModUpCase {
	var c ModUpCase
	maxLogN, maxQ, maxP := 6, 6, 3
	if h.Thorough() {
		maxLogN, maxQ, maxP = 7, 10, 4
	}
	wideChains = true
	c.Chain = genChains(t, 3, maxLogN, 1, maxQ, 1, maxP, true)
	wideChains = false
	c.LevelQ = rapid.IntRange(0, len(c.Chain.Q)-1).Draw(t, "levelQ")
	c.LevelP = rapid.IntRange(0, len(c.Chain.P)-1).Draw(t, "levelP")
	c.PtoQ = rapid.Bool().Draw(t, "PtoQ")
	c.Coeffs = genCoefs(t, []string{"uni", "small", "edge", "edge", "quart", "quart", "crt"})
	c.DirtSeed = rapid.Uint64().Draw(t, "dirt")
	return c
}

func runModUp(c ModUpCase, rec *h.Rec) error {
	rQ, rP, be, err := c.Chain.extender()
	if err != nil {
		return h.Failf("C02:setup:NewRing", "%v", err)
	}
	if rP == nil || c.LevelQ < 0 || c.LevelQ >= len(c.Chain.Q) || c.LevelP < 0 || c.LevelP >= len(c.Chain.P) {
		return nil
	}
	N := c.Chain.N()
	src, dst := c.Chain.Q[:c.LevelQ+1], c.Chain.P[:c.LevelP+1]
	name := "ModUpQtoP"
	if c.PtoQ {
		src, dst = dst, src
		name = "ModUpPtoQ"
	}
	M := prod(src)
	// x is the centred representative of the source value
	x := h.VecCenter(buildCoeffs(c.Coeffs, N, M, nil, bigs(src), nil), M)

	pQ := rQ.AtLevel(c.LevelQ).NewPoly()
	pP := rP.AtLevel(c.LevelP).NewPoly()
	var out ring.Poly
	if c.PtoQ {
		setPoly(pP, x, src)
		dirty(pQ, dst, c.DirtSeed)
		be.ModUpPtoQ(c.LevelP, c.LevelQ, pP, pQ)
		out = pQ
	} else {
		setPoly(pQ, x, src)
		dirty(pP, dst, c.DirtSeed)
		be.ModUpQtoP(c.LevelQ, c.LevelP, pQ, pP)
		out = pP
	}
	got, over := limbs(out, dst)

	// oracle: one common k in {-1,0,1} with out = x + k*M on all target limbs; k = 0 whenever |x| < M/4
	Mrns := h.ToRNS([]*big.Int{M}, dst)
	xr := h.ToRNS(x, dst)
	quarterHit, shifted := false, false
	for j := 0; j < N; j++ {
		kFound, ok := 0, false
		for _, k := range []int{0, -1, 1} {
			match := true
			for i, q := range dst {
				w := xr[i][j]
				switch k {
				case 1:
					w = (w + Mrns[i][0]) % q
				case -1:
					w = (w + q - Mrns[i][0]) % q
				}
				if w != got[i][j] {
					match = false
					break
				}
			}
			if match {
				kFound, ok = k, true
				break
			}
		}
		if !ok {
			return h.Failf("C02:"+name+":not-congruent",
				"%s levelQ=%d levelP=%d: coefficient %d is not x+k*M (k in -1,0,1) on the target limbs: x=%s M=%s got residues (first limb) %d mod %d",
				name, c.LevelQ, c.LevelP, j, x[j], M, got[0][j], dst[0])
		}
		abs4 := new(big.Int).Abs(x[j])
		abs4.Lsh(abs4, 2)
		if abs4.Cmp(M) < 0 {
			quarterHit = true
			if kFound != 0 {
				// is k=0 also consistent (target modulus so small that M = 0 on it)? then nothing is wrong
				return h.Failf("C02:"+name+":quarter-rule",
					"%s levelQ=%d levelP=%d: coefficient %d: |x| < M/4 but the result is x%+d*M: x=%s M=%s",
					name, c.LevelQ, c.LevelP, j, kFound, x[j], M)
			}
		} else if kFound != 0 {
			shifted = true
		}
	}

	rec.Classf("op=%s", name)
	rec.Classf("levelQ=%s", lvlClass(c.LevelQ, len(c.Chain.Q)-1))
	rec.Classf("levelP=%s", lvlClass(c.LevelP, len(c.Chain.P)-1))
	rec.Classf("src=%s", sizeClass(src))
	rec.Classf("dst=%s", sizeClass(dst))
	rec.Classf("nsrc=%d", len(src))
	rec.Classf("ci=%v", c.Chain.CI)
	if len(src) >= 9 && sizeClass(src) == "max" {
		rec.Class("src>=9x60/61bit")
	}
	recKinds(rec, c.Coeffs)
	rec.Classf("out-over-q=%d", over)
	if shifted {
		rec.Class("k!=0 seen (|x|>=M/4)")
	}
	if hasBoundary(c.Coeffs) && quarterHit {
		rec.NonTrivial(fmt.Sprintf("%s|N=%d|ci=%v|lq=%d/%d|lp=%d/%d|%s>%s|%s", name, N, c.Chain.CI, c.LevelQ, len(c.Chain.Q)-1, c.LevelP, len(c.Chain.P)-1,
			sizeClass(src), sizeClass(dst), kindsOf(c.Coeffs)))
	}
	return nil
}

var propModUp = h.NewProp("TestPropModUp", h.Budget{Quick: 1500, Thorough: 50000}, genModUp, runModUp)

func TestPropModUp(t *testing.T) { propModUp.Check(t) }

// ---------------------------------------------------------------------------------------------------------------
// ModDownQPtoQ / ModDownQPtoQNTT / ModDownQPtoP

// ModDownCase: one division of a value in basis QP by P (result in Q) or by Q (result in P).
type ModDownCase struct {
	Chain    ChainSpec  `json:"chain"`
	LevelQ   int        `json:"levelQ"`
	LevelP   int        `json:"levelP"`
	Op       string     `json:"op"` // QPtoQ | QPtoQNTT | QPtoP
	InPlace  bool       `json:"inPlace"`
	Coeffs   []CoefSpec `json:"coeffs"`
	DirtSeed uint64     `json:"dirt"`
}

func genModDown(t *rapid.T) ModDownCase {
	var c ModDownCase
	maxLogN, maxQ, maxP := 6, 6, 3
	if h.Thorough() {
		maxLogN, maxQ, maxP = 7, 10, 4
	}
	c.Op = []string{"QPtoQ", "QPtoQNTT", "QPtoP"}[rapid.IntRange(0, 2).Draw(t, "op")]
	wideChains = true
	c.Chain = genChains(t, 3, maxLogN, 1, maxQ, 1, maxP, true)
	wideChains = false
	c.LevelQ = rapid.IntRange(0, len(c.Chain.Q)-1).Draw(t, "levelQ")
	c.LevelP = rapid.IntRange(0, len(c.Chain.P)-1).Draw(t, "levelP")
	c.InPlace = rapid.Bool().Draw(t, "inPlace")
	c.Coeffs = genCoefs(t, []string{"uni", "small", "mul", "mul", "half", "half", "edge", "crt", "mulo", "mulo"})
	c.DirtSeed = rapid.Uint64().Draw(t, "dirt")
	return c
}

func runModDown(c ModDownCase, rec *h.Rec) error {
	rQ, rP, be, err := c.Chain.extender()
	if err != nil {
		return h.Failf("C02:setup:NewRing", "%v", err)
	}
	if rP == nil || c.LevelQ < 0 || c.LevelQ >= len(c.Chain.Q) || c.LevelP < 0 || c.LevelP >= len(c.Chain.P) {
		return nil
	}
	N := c.Chain.N()
	Q, P := c.Chain.Q[:c.LevelQ+1], c.Chain.P[:c.LevelP+1]
	bQ, bP := prod(Q), prod(P)
	QP := new(big.Int).Mul(bQ, bP)
	name := "ModDown" + c.Op
	div, tgt, tgtMod := bP, Q, bQ // divide by P, result modulo Q
	if c.Op == "QPtoP" {
		div, tgt, tgtMod = bQ, P, bP
	}
	x := buildCoeffs(c.Coeffs, N, QP, []*big.Int{div}, append(bigs(Q), bigs(P)...), tgtMod)

	ringQ, ringP := rQ.AtLevel(c.LevelQ), rP.AtLevel(c.LevelP)
	pQ, pP := ringQ.NewPoly(), ringP.NewPoly()
	setPoly(pQ, x, Q)
	setPoly(pP, x, P)
	var out ring.Poly
	switch c.Op {
	case "QPtoQ", "QPtoQNTT":
		out = pQ
		if !c.InPlace {
			out = ringQ.NewPoly()
			dirty(out, Q, c.DirtSeed)
		}
		if c.Op == "QPtoQ" {
			be.ModDownQPtoQ(c.LevelQ, c.LevelP, pQ, pP, out)
		} else {
			ringQ.NTT(pQ, pQ)
			ringP.NTT(pP, pP)
			be.ModDownQPtoQNTT(c.LevelQ, c.LevelP, pQ, pP, out)
			tmp := ringQ.NewPoly()
			ringQ.INTT(out, tmp)
			out = tmp
		}
	case "QPtoP":
		out = pP
		if !c.InPlace {
			out = ringP.NewPoly()
			dirty(out, P, c.DirtSeed)
		}
		be.ModDownQPtoP(c.LevelQ, c.LevelP, pQ, pP, out)
	default:
		return nil
	}
	gotL, over := limbs(out, tgt)
	got := h.CRT(gotL, tgt)

	alias := ""
	if c.InPlace {
		alias = ":inplace"
	}
	exact, offBy1, nonzero := 0, 0, false
	for j := 0; j < N; j++ {
		want := h.RoundDiv(x[j], div)
		e := h.Center(new(big.Int).Sub(got[j], want), tgtMod)
		if want.Sign() != 0 {
			nonzero = true
		}
		if e.IsInt64() && e.Int64() == 0 {
			exact++
			continue
		}
		if e.IsInt64() && (e.Int64() == 1 || e.Int64() == -1) && tgtMod.Cmp(big.NewInt(3)) > 0 {
			offBy1++
			continue
		}
		key := "C02:" + name + ":error>1" + alias
		msg := fmt.Sprintf("%s levelQ=%d levelP=%d N=%d ci=%v: coefficient %d: result - round(x/D) = %s (mod target modulus %s); x=%s D=%s round=%s",
			name, c.LevelQ, c.LevelP, N, c.Chain.CI, j, e, tgtMod, x[j], div, want)
		if c.Op == "QPtoQNTT" {
			// consequence of the known NTTLazy range excess: garbage on a >2^64/10 limb
			for i, q := range Q {
				wl := new(big.Int).Mod(want, h.BU(q)).Uint64()
				if d := (gotL[i][j] + q - wl) % q; d > 1 && d < q-1 && nttLazyOverflowClass(c.Chain, q) {
					key = "C02:" + name + ":nttlazy-overflow:ci-odd-logN-61bit"
					if rec.Known(key, msg) {
						rec.Classf("known=%s:nttlazy-overflow", name)
						return nil
					}
					return h.Failf(key, "%s", msg)
				}
			}
		}
		return h.Failf(key, "%s", msg)
	}

	rec.Classf("op=%s", name)
	rec.Classf("levelQ=%s", lvlClass(c.LevelQ, len(c.Chain.Q)-1))
	rec.Classf("levelP=%s", lvlClass(c.LevelP, len(c.Chain.P)-1))
	rec.Classf("Q=%s", sizeClass(Q))
	rec.Classf("P=%s", sizeClass(P))
	recKinds(rec, c.Coeffs)
	rec.Classf("ci=%v", c.Chain.CI)
	rec.Classf("out-over-q=%d", over)
	if len(Q) >= 9 && sizeClass(Q) == "max" {
		rec.Class("Q>=9x60/61bit")
	}
	if offBy1 > 0 {
		rec.Class("some |error|=1")
	} else {
		rec.Class("all exact")
	}
	if c.InPlace {
		rec.Class("inplace")
	}
	if hasBoundary(c.Coeffs) && nonzero {
		rec.NonTrivial(fmt.Sprintf("%s|N=%d|ci=%v|lq=%d/%d|lp=%d/%d|Q=%s|P=%s|%s|inpl=%v", name, N, c.Chain.CI, c.LevelQ, len(c.Chain.Q)-1, c.LevelP,
			len(c.Chain.P)-1, sizeClass(Q), sizeClass(P), kindsOf(c.Coeffs), c.InPlace))
	}
	return nil
}

var propModDown = h.NewProp("TestPropModDown", h.Budget{Quick: 1500, Thorough: 50000}, genModDown, runModDown)

func TestPropModDown(t *testing.T) { propModDown.Check(t) }
