package c02

import (
	"fmt"
	"math/big"
	"testing"

	"verif/internal/h"

	"github.com/tuneinsight/lattigo/v6/ring"
	"pgregory.net/rapid"
)

// ---------------------------------------------------------------------------------------------------------------
// ModUpQtoP / ModUpPtoQ

// ModUpCase: one basis extension of a centred value.
type ModUpCase struct {
	Chain    ChainSpec  `json:"chain"`
	LevelQ   int        `json:"levelQ"`
	LevelP   int        `json:"levelP"`
	PtoQ     bool       `json:"PtoQ"` // ModUpPtoQ (source P) instead of ModUpQtoP (source Q)
	Prior    bool       `json:"prior,omitempty"` // polys live at the maximum levels and were used by a (checked) call at the maximum levels before
	Coeffs   []CoefSpec `json:"coeffs"`
	DirtSeed uint64     `json:"dirt"`
}

func genModUp(t *rapid.T) ModUpCase {
	var c ModUpCase
	maxLogN, maxQ, maxP := 6, 6, 3
	if h.Thorough() {
		maxLogN, maxQ, maxP = 7, 10, 4
	}
	wideChains = true
	c.Chain = genChains(t, 3, maxLogN, 1, maxQ, 1, maxP, true)
	wideChains = false
	c.LevelQ = genLevel(t, len(c.Chain.Q), "levelQ")
	c.LevelP = rapid.IntRange(0, len(c.Chain.P)-1).Draw(t, "levelP")
	c.PtoQ = rapid.Bool().Draw(t, "PtoQ")
	c.Prior = rapid.IntRange(0, 2).Draw(t, "prior") == 0
	c.Coeffs = genCoefs(t, []string{"uni", "small", "edge", "edge", "quart", "quart", "crt"})
	c.DirtSeed = rapid.Uint64().Draw(t, "dirt")
	return c
}

func runModUp(c ModUpCase, rec *h.Rec) error {
	rQ, rP, be, err := c.Chain.extender()
	if err != nil {
		return h.Failf("C02:setup:NewRing", "%v", err)
	}
	if rP == nil || c.LevelQ < 0 || c.LevelQ >= len(c.Chain.Q) || c.LevelP < 0 || c.LevelP >= len(c.Chain.P) {
		return nil
	}
	N := c.Chain.N()
	name := "ModUpQtoP"
	if c.PtoQ {
		name = "ModUpPtoQ"
	}
	// receivers: exact size, or (Prior) maximum-level polynomials with an earlier life
	pQ := rQ.AtLevel(c.LevelQ).NewPoly()
	pP := rP.AtLevel(c.LevelP).NewPoly()
	rounds := []levelsRound{{c.LevelQ, c.LevelP, c.Coeffs, ""}}
	if c.Prior {
		pQ, pP = rQ.NewPoly(), rP.NewPoly()
		rounds = []levelsRound{{len(c.Chain.Q) - 1, len(c.Chain.P) - 1, []CoefSpec{{Kind: "uni", U: c.DirtSeed}}, ":first-use"}, rounds[0]}
	}
	dirty(pQ, c.Chain.Q, c.DirtSeed)
	dirty(pP, c.Chain.P, c.DirtSeed+7)

	var src, dst []uint64
	var over uint64
	quarterHit, shifted := false, false
	for _, rd := range rounds {
		src, dst = c.Chain.Q[:rd.lq+1], c.Chain.P[:rd.lp+1]
		if c.PtoQ {
			src, dst = dst, src
		}
		M := prod(src)
		// x is the centred representative of the source value
		x := h.VecCenter(buildCoeffs(rd.coeffs, N, M, nil, bigs(src), nil), M)
		var in, out ring.Poly
		if c.PtoQ {
			in, out = pP, pQ
		} else {
			in, out = pQ, pP
		}
		setPoly(in, x, src)
		before := *in.CopyNew()
		if c.PtoQ {
			be.ModUpPtoQ(rd.lp, rd.lq, pP, pQ)
		} else {
			be.ModUpQtoP(rd.lq, rd.lp, pQ, pP)
		}
		if !in.Equal(&before) {
			return h.Failf("C02:"+name+":input-modified", "%s levelQ=%d levelP=%d: the source polynomial (which stays part of the extended value) was modified", name, rd.lq, rd.lp)
		}
		var got [][]uint64
		got, over = limbs(out, dst)

		// oracle: one common k in {-1,0,1} with out = x + k*M on all target limbs; k = 0 whenever |x| < M/4
		Mrns := h.ToRNS([]*big.Int{M}, dst)
		xr := h.ToRNS(x, dst)
		quarterHit, shifted = false, false
		for j := 0; j < N; j++ {
			kFound, ok := 0, false
			for _, k := range []int{0, -1, 1} {
				match := true
				for i, q := range dst {
					w := xr[i][j]
					switch k {
					case 1:
						w = (w + Mrns[i][0]) % q
					case -1:
						w = (w + q - Mrns[i][0]) % q
					}
					if w != got[i][j] {
						match = false
						break
					}
				}
				if match {
					kFound, ok = k, true
					break
				}
			}
			if !ok {
				return h.Failf("C02:"+name+":not-congruent"+rd.tag,
					"%s levelQ=%d levelP=%d prior=%v: coefficient %d is not x+k*M (k in -1,0,1) on the target limbs: x=%s M=%s got residues (first limb) %d mod %d",
					name, rd.lq, rd.lp, c.Prior, j, x[j], M, got[0][j], dst[0])
			}
			abs4 := new(big.Int).Abs(x[j])
			abs4.Lsh(abs4, 2)
			if abs4.Cmp(M) < 0 {
				quarterHit = true
				if kFound != 0 {
					return h.Failf("C02:"+name+":quarter-rule"+rd.tag,
						"%s levelQ=%d levelP=%d prior=%v: coefficient %d: |x| < M/4 but the result is x%+d*M: x=%s M=%s",
						name, rd.lq, rd.lp, c.Prior, j, kFound, x[j], M)
				}
			} else if kFound != 0 {
				shifted = true
			}
		}
	}

	rec.Classf("op=%s", name)
	rec.Classf("levelQ=%s", lvlClass(c.LevelQ, len(c.Chain.Q)-1))
	rec.Classf("levelP=%s", lvlClass(c.LevelP, len(c.Chain.P)-1))
	rec.Classf("src=%s", sizeClass(src))
	rec.Classf("dst=%s", sizeClass(dst))
	rec.Classf("nsrc=%d", len(src))
	rec.Classf("ci=%v", c.Chain.CI)
	rec.Classf("prior=%v", c.Prior)
	if len(src) >= 9 && sizeClass(src) == "max" {
		rec.Class("src>=9x60/61bit")
	}
	recKinds(rec, c.Coeffs)
	rec.Classf("out-over-q=%d", over)
	if shifted {
		rec.Class("k!=0 seen (|x|>=M/4)")
	}
	if hasBoundary(c.Coeffs) && quarterHit {
		rec.NonTrivial(fmt.Sprintf("%s|N=%d|ci=%v|prior=%v|lq=%d/%d|lp=%d/%d|%s>%s|%s", name, N, c.Chain.CI, c.Prior, c.LevelQ, len(c.Chain.Q)-1, c.LevelP, len(c.Chain.P)-1,
			sizeClass(src), sizeClass(dst), kindsOf(c.Coeffs)))
	}
	return nil
}

var propModUp = h.NewProp("TestPropModUp", h.Budget{Quick: 1600, Thorough: 25000}, genModUp, runModUp)

func TestPropModUp(t *testing.T) { propModUp.Check(t) }

// ---------------------------------------------------------------------------------------------------------------
// ModDownQPtoQ / ModDownQPtoQNTT / ModDownQPtoP

// ModDownCase: one division of a value in basis QP by P (result in Q) or by Q (result in P).
type ModDownCase struct {
	Chain    ChainSpec  `json:"chain"`
	LevelQ   int        `json:"levelQ"`
	LevelP   int        `json:"levelP"`
	Op       string     `json:"op"` // QPtoQ | QPtoQNTT | QPtoP
	InPlace  bool       `json:"inPlace"`
	Prior    bool       `json:"prior,omitempty"` // polys live at the maximum levels and were used by a (checked) call at the maximum levels before
	Coeffs   []CoefSpec `json:"coeffs"`
	DirtSeed uint64     `json:"dirt"`
}

func genModDown(t *rapid.T) ModDownCase {
	var c ModDownCase
	maxLogN, maxQ, maxP := 6, 6, 3
	if h.Thorough() {
		maxLogN, maxQ, maxP = 7, 10, 4
	}
	c.Op = []string{"QPtoQ", "QPtoQNTT", "QPtoP"}[rapid.IntRange(0, 2).Draw(t, "op")]
	wideChains = true
	c.Chain = genChains(t, 3, maxLogN, 1, maxQ, 1, maxP, true)
	wideChains = false
	c.LevelQ = genLevel(t, len(c.Chain.Q), "levelQ")
	c.LevelP = rapid.IntRange(0, len(c.Chain.P)-1).Draw(t, "levelP")
	c.InPlace = rapid.Bool().Draw(t, "inPlace")
	c.Prior = rapid.IntRange(0, 2).Draw(t, "prior") == 0
	c.Coeffs = genCoefs(t, []string{"uni", "small", "mul", "mul", "half", "half", "edge", "crt", "mulo", "mulo"})
	c.DirtSeed = rapid.Uint64().Draw(t, "dirt")
	return c
}

func runModDown(c ModDownCase, rec *h.Rec) error {
	rQ, rP, be, err := c.Chain.extender()
	if err != nil {
		return h.Failf("C02:setup:NewRing", "%v", err)
	}
	if rP == nil || c.LevelQ < 0 || c.LevelQ >= len(c.Chain.Q) || c.LevelP < 0 || c.LevelP >= len(c.Chain.P) {
		return nil
	}
	N := c.Chain.N()
	name := "ModDown" + c.Op
	if c.Op != "QPtoQ" && c.Op != "QPtoQNTT" && c.Op != "QPtoP" {
		return nil
	}
	alias := ""
	if c.InPlace {
		alias = ":inplace"
	}
	// inputs and receiver: exact size, or (Prior) maximum-level polynomials with an earlier life
	pQ, pP := rQ.AtLevel(c.LevelQ).NewPoly(), rP.AtLevel(c.LevelP).NewPoly()
	recv := rQ.AtLevel(c.LevelQ).NewPoly()
	if c.Op == "QPtoP" {
		recv = rP.AtLevel(c.LevelP).NewPoly()
	}
	rounds := []levelsRound{{c.LevelQ, c.LevelP, c.Coeffs, ""}}
	if c.Prior {
		pQ, pP, recv = rQ.NewPoly(), rP.NewPoly(), rQ.NewPoly()
		if c.Op == "QPtoP" {
			recv = rP.NewPoly()
		}
		rounds = []levelsRound{{len(c.Chain.Q) - 1, len(c.Chain.P) - 1, []CoefSpec{{Kind: "uni", U: c.DirtSeed}}, ":first-use"}, rounds[0]}
	}
	dirty(pQ, c.Chain.Q, c.DirtSeed+1)
	dirty(pP, c.Chain.P, c.DirtSeed+2)
	if c.Op == "QPtoP" {
		dirty(recv, c.Chain.P, c.DirtSeed)
	} else {
		dirty(recv, c.Chain.Q, c.DirtSeed)
	}

	var Q, P []uint64
	var over uint64
	offBy1, nonzero, inputsTouched := 0, false, false
	for _, rd := range rounds {
		Q, P = c.Chain.Q[:rd.lq+1], c.Chain.P[:rd.lp+1]
		bQ, bP := prod(Q), prod(P)
		QP := new(big.Int).Mul(bQ, bP)
		div, tgt, tgtMod := bP, Q, bQ // divide by P, result modulo Q
		if c.Op == "QPtoP" {
			div, tgt, tgtMod = bQ, P, bP
		}
		x := buildCoeffs(rd.coeffs, N, QP, []*big.Int{div}, append(bigs(Q), bigs(P)...), tgtMod)

		ringQ, ringP := rQ.AtLevel(rd.lq), rP.AtLevel(rd.lp)
		setPoly(pQ, x, Q)
		setPoly(pP, x, P)
		if c.Op == "QPtoQNTT" {
			ringQ.NTT(pQ, pQ)
			ringP.NTT(pP, pP)
		}
		out := recv
		if c.InPlace {
			out = pQ
			if c.Op == "QPtoP" {
				out = pP
			}
		}
		beforeQ, beforeP := *pQ.CopyNew(), *pP.CopyNew()
		switch c.Op {
		case "QPtoQ":
			be.ModDownQPtoQ(rd.lq, rd.lp, pQ, pP, out)
		case "QPtoQNTT":
			be.ModDownQPtoQNTT(rd.lq, rd.lp, pQ, pP, out)
		case "QPtoP":
			be.ModDownQPtoP(rd.lq, rd.lp, pQ, pP, out)
		}
		// inputs that are not the receiver: recorded only (input preservation is the subject of C09)
		if (!c.InPlace || c.Op == "QPtoP") && !pQ.Equal(&beforeQ) {
			inputsTouched = true
		}
		if (!c.InPlace || c.Op != "QPtoP") && !pP.Equal(&beforeP) {
			inputsTouched = true
		}
		res := out
		if c.Op == "QPtoQNTT" {
			res = ringQ.NewPoly()
			ringQ.INTT(ring.Poly{Coeffs: out.Coeffs[:rd.lq+1]}, res)
		}
		var gotL [][]uint64
		gotL, over = limbs(res, tgt)
		got := h.CRT(gotL, tgt)

		offBy1, nonzero = 0, false
		for j := 0; j < N; j++ {
			want := h.RoundDiv(x[j], div)
			e := h.Center(new(big.Int).Sub(got[j], want), tgtMod)
			if want.Sign() != 0 {
				nonzero = true
			}
			if e.IsInt64() && e.Int64() == 0 {
				continue
			}
			if e.IsInt64() && (e.Int64() == 1 || e.Int64() == -1) && tgtMod.Cmp(big.NewInt(3)) > 0 {
				offBy1++
				continue
			}
			key := "C02:" + name + ":error>1" + alias + rd.tag
			msg := fmt.Sprintf("%s levelQ=%d levelP=%d N=%d ci=%v prior=%v: coefficient %d: result - round(x/D) = %s (mod target modulus %s); x=%s D=%s round=%s",
				name, rd.lq, rd.lp, N, c.Chain.CI, c.Prior, j, e, tgtMod, x[j], div, want)
			if c.Op == "QPtoQNTT" {
				// consequence of the (fixed) NTTLazy range excess: garbage on a >2^64/10 limb
				for i, q := range Q {
					wl := new(big.Int).Mod(want, h.BU(q)).Uint64()
					if d := (gotL[i][j] + q - wl) % q; d > 1 && d < q-1 && nttLazyOverflowClass(c.Chain, q) {
						key = "C02:" + name + ":nttlazy-overflow:ci-odd-logN-61bit"
						if rec.Known(key, msg) {
							rec.Classf("known=%s:nttlazy-overflow", name)
							return nil
						}
						return h.Failf(key, "%s", msg)
					}
				}
			}
			return h.Failf(key, "%s", msg)
		}
	}

	rec.Classf("op=%s", name)
	rec.Classf("levelQ=%s", lvlClass(c.LevelQ, len(c.Chain.Q)-1))
	rec.Classf("levelP=%s", lvlClass(c.LevelP, len(c.Chain.P)-1))
	rec.Classf("Q=%s", sizeClass(Q))
	rec.Classf("P=%s", sizeClass(P))
	recKinds(rec, c.Coeffs)
	rec.Classf("ci=%v", c.Chain.CI)
	rec.Classf("out-over-q=%d", over)
	if len(Q) >= 9 && sizeClass(Q) == "max" {
		rec.Class("Q>=9x60/61bit")
	}
	if offBy1 > 0 {
		rec.Class("some |error|=1")
	} else {
		rec.Class("all exact")
	}
	if c.InPlace {
		rec.Class("inplace")
	} else {
		rec.Class("out-of-place")
	}
	rec.Classf("prior=%v", c.Prior)
	if inputsTouched {
		rec.Class("non-receiver input modified (C09 matter)")
	}
	if hasBoundary(c.Coeffs) && nonzero {
		rec.NonTrivial(fmt.Sprintf("%s|N=%d|ci=%v|lq=%d/%d|lp=%d/%d|Q=%s|P=%s|%s|inpl=%v|prior=%v", name, N, c.Chain.CI, c.LevelQ, len(c.Chain.Q)-1, c.LevelP,
			len(c.Chain.P)-1, sizeClass(Q), sizeClass(P), kindsOf(c.Coeffs), c.InPlace, c.Prior))
	}
	return nil
}

var propModDown = h.NewProp("TestPropModDown", h.Budget{Quick: 1600, Thorough: 25000}, genModDown, runModDown)

func TestPropModDown(t *testing.T) { propModDown.Check(t) }
