package c02

import (
	"fmt"
	"math/big"
	"math/bits"
	"sync"
	"testing"

	"verif/internal/h"

	"github.com/tuneinsight/lattigo/v6/ring"
	"pgregory.net/rapid"
)

func TestMain(m *testing.M) { h.Main(m, "C02") }

func TestReplay(t *testing.T) { h.ReplayAll(t) }

// ChainSpec is a plain-data description of the two moduli chains of a case.
type ChainSpec struct {
	LogN int      `json:"logN"`
	CI   bool     `json:"ci,omitempty"` // conjugate-invariant ring (division checks only)
	Q    []uint64 `json:"Q"`
	P    []uint64 `json:"P,omitempty"`
}

func (s ChainSpec) N() int { return 1 << s.LogN }

var (
	ringMu    sync.Mutex
	ringCache = map[string]*ring.Ring{}
	beCache   = map[string]*ring.BasisExtender{}
)

func buildRing(logN int, ci bool, moduli []uint64) (*ring.Ring, error) {
	key := fmt.Sprintf("%d|%v|%v", logN, ci, moduli)
	ringMu.Lock()
	defer ringMu.Unlock()
	if r, ok := ringCache[key]; ok {
		return r, nil
	}
	var r *ring.Ring
	var err error
	if ci {
		r, err = ring.NewRingConjugateInvariant(1<<logN, moduli)
	} else {
		r, err = ring.NewRing(1<<logN, moduli)
	}
	if err != nil {
		return nil, err
	}
	if len(ringCache) > 128 {
		ringCache = map[string]*ring.Ring{}
		beCache = map[string]*ring.BasisExtender{}
	}
	ringCache[key] = r
	return r, nil
}

// rings returns (ringQ, ringP); ringP is nil when the chain has no P.
func (s ChainSpec) rings() (rQ, rP *ring.Ring, err error) {
	if rQ, err = buildRing(s.LogN, s.CI, s.Q); err != nil {
		return
	}
	if len(s.P) > 0 {
		rP, err = buildRing(s.LogN, s.CI, s.P)
	}
	return
}

func (s ChainSpec) extender() (rQ, rP *ring.Ring, be *ring.BasisExtender, err error) {
	if rQ, rP, err = s.rings(); err != nil {
		return
	}
	key := fmt.Sprintf("%d|%v|%v|%v", s.LogN, s.CI, s.Q, s.P)
	ringMu.Lock()
	defer ringMu.Unlock()
	if b, ok := beCache[key]; ok {
		return rQ, rP, b, nil
	}
	be = ring.NewBasisExtender(rQ, rP)
	beCache[key] = be
	return
}

func sizeClass(ms []uint64) string {
	if len(ms) == 0 {
		return "none"
	}
	lo, hi := 64, 0
	for _, q := range ms {
		b := bits.Len64(q)
		if b < lo {
			lo = b
		}
		if b > hi {
			hi = b
		}
	}
	c := func(b int) string {
		switch {
		case b <= 19:
			return "tiny"
		case b <= 40:
			return "mid"
		case b <= 58:
			return "big"
		default:
			return "max"
		}
	}
	if c(lo) == c(hi) {
		return c(lo)
	}
	return c(lo) + "-" + c(hi)
}

// genSizes draws prime sizes biased to the extremes of [lo,hi].
func genSizes(t *rapid.T, n, lo, hi int, label string) []int {
	out := make([]int, n)
	for i := range out {
		switch rapid.IntRange(0, 7).Draw(t, fmt.Sprintf("%s_k%d", label, i)) {
		case 0:
			out[i] = lo
		case 1, 2:
			out[i] = hi
		case 3:
			out[i] = hi - 1
		default:
			out[i] = rapid.IntRange(lo, hi).Draw(t, fmt.Sprintf("%s_s%d", label, i))
		}
	}
	return out
}

// genChains draws Q (minQ..maxQ primes) and P (minP..maxP primes), all distinct, NTT-friendly for 2N.
// Sizes 20..61 bits in the quick tier; the thorough tier also draws tiny limbs (smallest admissible .. 19 bits).
// wideChains is switched on by the generators whose operation reads all Q limbs as the source of a base conversion.
var wideChains = false

func genChains(t *rapid.T, minLogN, maxLogN, minQ, maxQ, minP, maxP int, allowCI bool) ChainSpec {
	var s ChainSpec
	s.LogN = rapid.IntRange(minLogN, maxLogN).Draw(t, "logN")
	m := uint64(2) << s.LogN
	if allowCI && rapid.IntRange(0, 2).Draw(t, "ci") == 2 {
		s.CI = true
		m <<= 1
	}
	lo, hi := 20, 61
	if h.Thorough() && rapid.IntRange(0, 3).Draw(t, "tiny") == 0 {
		lo = h.MinPrimeBits(m)
		if rapid.Bool().Draw(t, "allTiny") {
			hi = 19
		}
	}
	if lo < h.MinPrimeBits(m) {
		lo = h.MinPrimeBits(m)
	}
	nQ := rapid.IntRange(minQ, maxQ).Draw(t, "nQ")
	nP := rapid.IntRange(minP, maxP).Draw(t, "nP")
	used := map[uint64]bool{}
	wideOdds, wideLogN := 11, 4 // quick tier: one case in twelve, N <= 16
	if h.Thorough() {
		wideOdds, wideLogN = 5, 5
	}
	if wideChains && s.LogN <= wideLogN && rapid.IntRange(0, wideOdds).Draw(t, "wide") == 0 {
		// 9..16 source primes of 60/61 bits: the 128-bit accumulator of multSum then carries up to 2q in its high word
		nQ = rapid.IntRange(9, 16).Draw(t, "nQwide")
		sz := make([]int, nQ)
		for i := range sz {
			sz[i] = 61 - rapid.IntRange(0, 3).Draw(t, fmt.Sprintf("qw%d", i))/3
		}
		s.Q = h.GenPrimes(t, sz, m, used, "q")
		if nP > 0 {
			s.P = h.GenPrimes(t, genSizes(t, nP, lo, hi, "p"), m, used, "p")
		}
		return s
	}
	s.Q = h.GenPrimes(t, genSizes(t, nQ, lo, hi, "q"), m, used, "q")
	if nP > 0 {
		s.P = h.GenPrimes(t, genSizes(t, nP, lo, hi, "p"), m, used, "p")
	}
	return s
}

// ---------------------------------------------------------------------------------------------------------------
// Coefficients are constructed as integers first (plain data: a short list of CoefSpec that is cycled over the N
// positions, position-dependent randomness comes from mixing U with the index) and only then mapped to RNS.

// CoefSpec describes how one coefficient (and every len(list)-th after it) is built.
//
//	uni    : uniform in the source modulus M
//	small  : D
//	mul    : k*d + D                 (k uniform in [0, M/d])
//	half   : k*d + floor(d/2) + D
//	nest   : ((k*d_n + r_n)*d_{n-1} + r_{n-1}) ... with r_i in {0, floor(d_i/2), d_i-1, random} +- small (iterated division)
//	edge   : +-floor(M/2) + D
//	quart  : +-floor(M/4) + D
//	mulo   : k*O + D where O is the modulus that is kept (ModDown): tiny residues on the kept limbs, uniform on the divided ones
//	crt    : residue classes (0 / +-half / +-quarter / random, +- small) chosen per RNS group, recombined by CRT
//
// d is the divisor of the operation (last modulus / P / Q / group modulus), M the source modulus.
type CoefSpec struct {
	Kind string `json:"kind"`
	U    uint64 `json:"u"`
	D    int    `json:"d"`
}

var coefKinds = []string{"uni", "small", "mul", "half", "nest", "edge", "quart", "crt", "mulo"}

func genCoefs(t *rapid.T, kinds []string) []CoefSpec {
	n := rapid.IntRange(1, 6).Draw(t, "nCoef")
	out := make([]CoefSpec, n)
	for i := range out {
		out[i].Kind = kinds[rapid.IntRange(0, len(kinds)-1).Draw(t, fmt.Sprintf("ck%d", i))]
		out[i].U = rapid.Uint64().Draw(t, fmt.Sprintf("cu%d", i))
		out[i].D = rapid.IntRange(-3, 3).Draw(t, fmt.Sprintf("cd%d", i))
	}
	return out
}

func hasBoundary(cs []CoefSpec) bool {
	for _, c := range cs {
		if c.Kind != "uni" && c.Kind != "small" {
			return true
		}
	}
	return false
}

func kindsOf(cs []CoefSpec) string {
	seen := map[string]bool{}
	for _, c := range cs {
		seen[c.Kind] = true
	}
	s := ""
	for _, k := range coefKinds {
		if seen[k] {
			if s != "" {
				s += "+"
			}
			s += k
		}
	}
	return s
}

func mix64(a, b uint64) uint64 {
	x := a ^ (b+0x9e3779b97f4a7c15)*0xbf58476d1ce4e5b9
	x ^= x >> 31
	x *= 0x94d049bb133111eb
	x ^= x >> 29
	return x
}

// bigRand returns a value in [0,m) expanded from the generator.
func bigRand(sm *h.SplitMix, m *big.Int) *big.Int {
	words := (m.BitLen()+63)/64 + 1
	x := new(big.Int)
	for i := 0; i < words; i++ {
		x.Lsh(x, 64)
		x.Or(x, h.BU(sm.Uint64()))
	}
	return x.Mod(x, m)
}

// residueClass picks a boundary residue modulo d: 0, floor(d/2), floor(d/4), d-1, random, each +- small.
func residueClass(sm *h.SplitMix, d *big.Int) *big.Int {
	r := new(big.Int)
	switch sm.Intn(6) {
	case 0:
	case 1:
		r.Rsh(d, 1)
	case 2:
		r.Rsh(d, 2)
	case 3:
		r.Sub(d, big.NewInt(1))
	case 4:
		r.Rsh(d, 1)
		r.Add(r, big.NewInt(1))
	default:
		r = bigRand(sm, d)
	}
	r.Add(r, big.NewInt(int64(sm.Intn(5)-2)))
	return r
}

// buildCoeffs expands the specs into n integers reduced to [0,M).
//
//	M      : source modulus
//	divs   : divisors of the iterated division, first applied first (one entry for a single division)
//	groups : RNS group moduli for kind "crt" (nil: the limbs of `divs`, else M itself)
func buildCoeffs(cs []CoefSpec, n int, M *big.Int, divs []*big.Int, groups []*big.Int, other *big.Int) []*big.Int {
	out := make([]*big.Int, n)
	d := big.NewInt(1)
	for _, x := range divs {
		d = new(big.Int).Mul(d, x)
	}
	if len(divs) == 0 {
		d = new(big.Int).Set(M)
	}
	for j := 0; j < n; j++ {
		c := cs[j%len(cs)]
		sm := h.NewSplitMix(mix64(c.U, uint64(j)))
		x := new(big.Int)
		D := big.NewInt(int64(c.D))
		switch c.Kind {
		case "small":
			x.Set(D)
		case "mul", "half":
			kmax := new(big.Int).Div(M, d)
			kmax.Add(kmax, big.NewInt(1))
			x.Mul(bigRand(sm, kmax), d)
			if c.Kind == "half" {
				x.Add(x, new(big.Int).Rsh(d, 1))
			}
			x.Add(x, D)
		case "nest":
			if len(divs) == 0 {
				x = bigRand(sm, M)
				break
			}
			kmax := new(big.Int).Div(M, d)
			kmax.Add(kmax, big.NewInt(1))
			x = bigRand(sm, kmax)
			for i := len(divs) - 1; i >= 0; i-- {
				x.Mul(x, divs[i])
				x.Add(x, residueClass(sm, divs[i]))
			}
			x.Add(x, D)
		case "mulo":
			// k*other + D: tiny residues on the limbs of `other` (the modulus that is NOT divided by), uniform on the rest
			if other == nil {
				x = bigRand(sm, M)
				break
			}
			kmax := new(big.Int).Div(M, other)
			kmax.Add(kmax, big.NewInt(1))
			x.Mul(bigRand(sm, kmax), other)
			x.Add(x, D)
		case "edge", "quart":
			sh := uint(1)
			if c.Kind == "quart" {
				sh = 2
			}
			x.Rsh(M, sh)
			if sm.Uint64()&1 == 1 {
				x.Neg(x)
			}
			x.Add(x, D)
		case "crt":
			g := groups
			if len(g) == 0 {
				g = []*big.Int{M}
			}
			G := big.NewInt(1)
			for _, m := range g {
				G = new(big.Int).Mul(G, m)
			}
			for _, m := range g {
				r := residueClass(sm, m)
				if sm.Uint64()&1 == 1 {
					r.Neg(r)
				}
				co := new(big.Int).Div(G, m)
				inv := new(big.Int).ModInverse(new(big.Int).Mod(co, m), m)
				if inv == nil { // moduli not coprime (cannot happen for distinct primes)
					continue
				}
				r.Mul(r, co)
				r.Mul(r, inv)
				x.Add(x, r)
			}
			x.Mod(x, G)
			if G.Cmp(M) != 0 { // lift with a random multiple of G
				kmax := new(big.Int).Div(M, G)
				kmax.Add(kmax, big.NewInt(1))
				x.Add(x, new(big.Int).Mul(bigRand(sm, kmax), G))
			}
		default: // uni
			x = bigRand(sm, M)
		}
		out[j] = h.Mod(x, M)
	}
	return out
}

// setPoly writes x mod moduli[i] into the first len(moduli) limbs of p.
func setPoly(p ring.Poly, x []*big.Int, moduli []uint64) {
	rns := h.ToRNS(x, moduli)
	for i := range moduli {
		copy(p.Coeffs[i], rns[i])
	}
}

// dirty fills every limb of p with reduced garbage so that a result that is "right" only because the receiver was
// zero is noticed.
func dirty(p ring.Poly, moduli []uint64, seed uint64) {
	sm := h.NewSplitMix(seed)
	for i := range p.Coeffs {
		q := moduli[len(moduli)-1]
		if i < len(moduli) {
			q = moduli[i]
		}
		for j := range p.Coeffs[i] {
			p.Coeffs[i][j] = sm.Uint64() % q
		}
	}
}

// limbs returns the first n limbs of p reduced modulo their modulus, and the largest multiple of the modulus seen
// (0: all values < q, 1: some value in [q,2q) ...).
func limbs(p ring.Poly, moduli []uint64) (out [][]uint64, over uint64) {
	out = make([][]uint64, len(moduli))
	for i, q := range moduli {
		out[i] = make([]uint64, len(p.Coeffs[i]))
		for j, v := range p.Coeffs[i] {
			if m := v / q; m > over {
				over = m
			}
			out[i][j] = v % q
		}
	}
	return
}

func prod(ms []uint64) *big.Int { return h.ProdU(ms) }

func bigs(ms []uint64) []*big.Int {
	out := make([]*big.Int, len(ms))
	for i, m := range ms {
		out[i] = h.BU(m)
	}
	return out
}

func lvlClass(l, max int) string {
	switch {
	case max == 0:
		return "only"
	case l == max:
		return "max"
	case l == 0:
		return "0"
	default:
		return "mid"
	}
}

// nttLazyOverflowClass reports the configuration in which ring.SubRing.NTTLazy exceeds its documented range
// [0,6q-2] (known finding C01:NTTLazy:range:conjugate-invariant-odd-logN, up to ~7.9q) AND the consumer's
// "+2q" (SubThenMulScalarMontgomeryTwoModulus) can then wrap around 2^64: conjugate-invariant ring, odd log2(N) >= 5,
// a modulus above 2^64/10.
func nttLazyOverflowClass(ch ChainSpec, q uint64) bool {
	return ch.CI && ch.LogN >= 5 && ch.LogN%2 == 1 && q > (^uint64(0))/10
}

// recKinds books one histogram class per coefficient kind present.
func recKinds(rec *h.Rec, cs []CoefSpec) {
	seen := map[string]bool{}
	for _, c := range cs {
		if !seen[c.Kind] {
			seen[c.Kind] = true
			rec.Class("coef:" + c.Kind)
		}
	}
}

// levelsRound is one (checked) use of the objects of a case: the prior life at the maximum levels, then the case proper.
type levelsRound struct {
	lq, lp int
	coeffs []CoefSpec
	tag    string
}

// genLevel draws a level 0..n-1; for wide chains (n >= 9) it is biased to the upper half so that many limbs are summed.
func genLevel(t *rapid.T, n int, label string) int {
	if n >= 9 && rapid.IntRange(0, 2).Draw(t, label+"_hi") > 0 {
		return rapid.IntRange(8, n-1).Draw(t, label)
	}
	return rapid.IntRange(0, n-1).Draw(t, label)
}
