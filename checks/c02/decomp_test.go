package c02

import (
	"fmt"
	"math/big"
	"math/bits"
	"sync"
	"testing"

	"verif/internal/h"

	"github.com/tuneinsight/lattigo/v6/core/rlwe"
	"github.com/tuneinsight/lattigo/v6/ring"
	"github.com/tuneinsight/lattigo/v6/ring/ringqp"
	"pgregory.net/rapid"
)

// DecompCase: gadget decomposition of one polynomial.
//
//	split : ring.Decomposer.DecomposeAndSplit, digit by digit (ring level, N >= 8, P may be empty)
//	ntt   : rlwe.Evaluator.DecomposeNTT (N >= 16, P non-empty), input in or out of the NTT domain
//	pw2   : power-of-two digits ring.MaskVec with the digit counts of Parameters.BaseTwoDecompositionVectorSize (levelP <= 0)
type DecompCase struct {
	Chain  ChainSpec  `json:"chain"`
	LevelQ int        `json:"levelQ"`
	LevelP int        `json:"levelP"` // -1 when P is empty
	Mode   string     `json:"mode"`
	IsNTT  bool       `json:"isNTT,omitempty"`
	W      int        `json:"w,omitempty"` // BaseTwoDecomposition (pw2 mode)
	Coeffs []CoefSpec `json:"coeffs"`
	Dirt   uint64     `json:"dirt"`
}

func genDecomp(t *rapid.T) DecompCase {
	var c DecompCase
	c.Mode = []string{"split", "split", "ntt", "ntt", "pw2"}[rapid.IntRange(0, 4).Draw(t, "mode")]
	maxLogN, maxQ, maxP := 6, 6, 3
	if h.Thorough() {
		maxLogN, maxQ, maxP = 7, 9, 4
	}
	switch c.Mode {
	case "split":
		c.Chain = genChains(t, 3, maxLogN, 1, maxQ, 0, maxP, true)
	case "ntt":
		c.Chain = genChains(t, 4, maxLogN, 1, maxQ, 1, maxP, true)
		c.IsNTT = rapid.Bool().Draw(t, "isNTT")
	default:
		c.Chain = genChains(t, 4, maxLogN, 1, maxQ, 0, 1, true)
		// every BaseTwoDecomposition 1..30, biased to the divisors of the prime sizes (digit count boundary)
		if rapid.Bool().Draw(t, "wdiv") {
			q := c.Chain.Q[rapid.IntRange(0, len(c.Chain.Q)-1).Draw(t, "wq")]
			b := bits.Len64(q) - rapid.IntRange(0, 1).Draw(t, "wb")
			var ds []int
			for w := 1; w <= 30; w++ {
				if b%w == 0 {
					ds = append(ds, w)
				}
			}
			c.W = ds[rapid.IntRange(0, len(ds)-1).Draw(t, "wi")]
		} else {
			c.W = rapid.IntRange(1, 30).Draw(t, "w")
		}
	}
	c.LevelQ = rapid.IntRange(0, len(c.Chain.Q)-1).Draw(t, "levelQ")
	c.LevelP = rapid.IntRange(0, len(c.Chain.P)).Draw(t, "levelP") - 1
	if len(c.Chain.P) > 0 && c.LevelP < 0 {
		c.LevelP = len(c.Chain.P) - 1
	}
	c.Coeffs = genCoefs(t, []string{"uni", "small", "edge", "crt", "crt", "crt"})
	c.Dirt = rapid.Uint64().Draw(t, "dirt")
	return c
}

type evalEntry struct {
	params rlwe.Parameters
	eval   *rlwe.Evaluator
}

var (
	evalMu    sync.Mutex
	evalCache = map[string]*evalEntry{}
)

func (s ChainSpec) evaluator() (*evalEntry, error) {
	key := fmt.Sprintf("%d|%v|%v|%v", s.LogN, s.CI, s.Q, s.P)
	evalMu.Lock()
	defer evalMu.Unlock()
	if e, ok := evalCache[key]; ok {
		return e, nil
	}
	spec := h.RLWESpec{LogN: s.LogN, CI: s.CI, Q: s.Q, P: s.P, Xs: h.DefaultXs, Xe: h.DefaultXe, NTT: true}
	params, err := spec.Build()
	if err != nil {
		return nil, err
	}
	if len(evalCache) > 48 {
		evalCache = map[string]*evalEntry{}
	}
	e := &evalEntry{params: params, eval: rlwe.NewEvaluator(params, nil)}
	evalCache[key] = e
	return e, nil
}

// group describes one RNS digit: limbs [lo,hi) of Q.
type group struct {
	lo, hi int
	mod    *big.Int
}

func rnsGroups(Q []uint64, levelQ, nbPi int) []group {
	var gs []group
	for lo := 0; lo <= levelQ; lo += nbPi {
		hi := lo + nbPi
		if hi > levelQ+1 {
			hi = levelQ + 1
		}
		gs = append(gs, group{lo, hi, prod(Q[lo:hi])})
	}
	return gs
}

func runDecomp(c DecompCase, rec *h.Rec) error {
	nQ, nP := len(c.Chain.Q), len(c.Chain.P)
	if c.LevelQ < 0 || c.LevelQ >= nQ || c.LevelP >= nP || c.LevelP < -1 || (nP > 0 && c.LevelP < 0) {
		return nil
	}
	switch c.Mode {
	case "pw2":
		return runPw2(c, rec)
	case "split", "ntt":
	default:
		return nil
	}
	if c.Mode == "ntt" && (nP == 0 || c.Chain.LogN < 4) {
		return nil
	}
	rQ, rP, err := c.Chain.rings()
	if err != nil {
		return h.Failf("C02:setup:NewRing", "%v", err)
	}
	N := c.Chain.N()
	Q := c.Chain.Q[:c.LevelQ+1]
	var P []uint64
	if c.LevelP >= 0 {
		P = c.Chain.P[:c.LevelP+1]
	}
	bQ := prod(Q)
	basis := append(append([]uint64(nil), Q...), P...)
	bBasis := prod(basis)

	// the semantic group size is levelP+1 (one limb per digit when there is no P)
	nbPi := c.LevelP + 1
	if nbPi == 0 {
		nbPi = 1
	}
	groups := rnsGroups(c.Chain.Q, c.LevelQ, nbPi)
	gmods := make([]*big.Int, len(groups))
	for i, g := range groups {
		gmods[i] = g.mod
	}
	x := buildCoeffs(c.Coeffs, N, bQ, nil, gmods, nil)
	xr := h.ToRNS(x, Q)

	// digits[i] = limbs over `basis` (reduced) of digit i
	digits := make([][][]uint64, len(groups))
	name := "DecomposeAndSplit"
	if c.Mode == "split" {
		dec := ring.NewDecomposer(rQ, rP)
		pIn := rQ.AtLevel(c.LevelQ).NewPoly()
		setPoly(pIn, x, Q)
		inBefore := *pIn.CopyNew()
		for i, g := range groups {
			outQ := rQ.NewPoly()
			dirty(outQ, c.Chain.Q, c.Dirt+uint64(i))
			var outP ring.Poly
			if rP != nil {
				outP = rP.NewPoly()
				dirty(outP, c.Chain.P, c.Dirt+uint64(i)+100)
			}
			// called exactly as rlwe.Evaluator does: nbPi = max(levelP+1, 1) (one prime per digit when there is no P;
			// before fix b02a278 the evaluator passed 0 there and every digit decomposed limb 0)
			dec.DecomposeAndSplit(c.LevelQ, c.LevelP, nbPi, i, pIn, outQ, outP)
			if !pIn.Equal(&inBefore) {
				return h.Failf("C02:DecomposeAndSplit:input-modified", "levelQ=%d levelP=%d digit %d: the decomposed polynomial was modified", c.LevelQ, c.LevelP, i)
			}
			lq, _ := limbs(outQ, Q)
			if g.hi-g.lo > 1 {
				// limbs of the group itself are not written by DecomposeAndSplit (DecomposeSingleNTT copies the input there)
				for l := g.lo; l < g.hi; l++ {
					lq[l] = xr[l]
				}
			}
			digits[i] = lq
			if rP != nil {
				lp, _ := limbs(outP, P)
				digits[i] = append(digits[i], lp...)
			}
		}
	} else {
		name = "DecomposeNTT"
		e, err := c.Chain.evaluator()
		if err != nil {
			return h.Failf("C02:setup:NewParameters", "%v", err)
		}
		params, eval := e.params, e.eval
		if got, want := params.BaseRNSDecompositionVectorSize(c.LevelQ, c.LevelP), len(groups); got != want {
			return h.Failf("C02:BaseRNSDecompositionVectorSize", "levelQ=%d levelP=%d: %d, expected ceil((levelQ+1)/(levelP+1)) = %d", c.LevelQ, c.LevelP, got, want)
		}
		ringQ := params.RingQ().AtLevel(c.LevelQ)
		ringQP := params.RingQP().AtLevel(c.LevelQ, c.LevelP)
		pIn := ringQ.NewPoly()
		setPoly(pIn, x, Q)
		if c.IsNTT {
			ringQ.NTT(pIn, pIn)
		}
		for i := range eval.BuffDecompQP {
			dirty(eval.BuffDecompQP[i].Q, c.Chain.Q, c.Dirt+uint64(i))
			dirty(eval.BuffDecompQP[i].P, c.Chain.P, c.Dirt+uint64(i)+100)
		}
		inBefore := *pIn.CopyNew()
		eval.DecomposeNTT(c.LevelQ, c.LevelP, c.LevelP+1, pIn, c.IsNTT, eval.BuffDecompQP)
		if !pIn.Equal(&inBefore) {
			return h.Failf("C02:DecomposeNTT:input-modified", "levelQ=%d levelP=%d isNTT=%v: the decomposed polynomial (a ciphertext component the caller keeps using) was modified", c.LevelQ, c.LevelP, c.IsNTT)
		}
		for i := range groups {
			d := ringqp.Poly{Q: ring.Poly{Coeffs: eval.BuffDecompQP[i].Q.Coeffs[:c.LevelQ+1]}, P: ring.Poly{Coeffs: eval.BuffDecompQP[i].P.Coeffs[:c.LevelP+1]}}
			tmp := ringQP.NewPoly()
			ringQP.INTT(d, tmp)
			lq, _ := limbs(tmp.Q, Q)
			lp, _ := limbs(tmp.P, P)
			digits[i] = append(lq, lp...)
		}
	}

	noP := ""
	if nP == 0 {
		noP = ":noP"
	}
	// oracle
	sum := make([]*big.Int, N)
	for j := range sum {
		sum[j] = new(big.Int)
	}
	multi, discr, shifted := false, false, false
	for i, g := range groups {
		if g.hi-g.lo > 1 {
			multi = true
		}
		if bBasis.Cmp(g.mod) != 0 {
			discr = true
		}
		D := h.VecCenter(h.CRT(digits[i], basis), bBasis)
		// gadget element rebuilt from its definition: (Q/Qg) * [(Q/Qg)^-1]_Qg   (the common factor P is left out)
		co := new(big.Int).Div(bQ, g.mod)
		G := new(big.Int)
		if inv := new(big.Int).ModInverse(new(big.Int).Mod(co, g.mod), g.mod); inv != nil {
			G.Mul(co, inv)
		}
		for j := 0; j < N; j++ {
			cj := h.Center(x[j], g.mod)
			diff := new(big.Int).Sub(D[j], cj)
			k := new(big.Int)
			r := new(big.Int)
			k.QuoRem(diff, g.mod, r)
			if r.Sign() != 0 || k.CmpAbs(big.NewInt(1)) > 0 {
				key := "C02:" + name + ":digit-not-congruent" + noP
				msg := fmt.Sprintf("%s levelQ=%d levelP=%d digit %d (limbs %d..%d of Q): coefficient %d: digit=%s is not the centred residue %s of x=%s modulo the digit modulus %s (+-1 multiple)",
					name, c.LevelQ, c.LevelP, i, g.lo, g.hi-1, j, D[j], cj, x[j], g.mod)
				if nP == 0 && i > 0 && h.Mod(new(big.Int).Sub(x[j], D[j]), h.BU(Q[0])).Sign() == 0 && D[j].CmpAbs(h.BU(Q[0])) <= 0 {
					// without P the library passes nbPi=levelP+1=0, so that every digit index selects limb 0
					key = "C02:DecomposeAndSplit:noP:digit-index-ignored"
					msg += " -- the digit is the centred residue modulo Q[0]: the digit index was ignored"
					if rec.Known(key, msg) {
						rec.Class("known=DecomposeAndSplit:noP:digit-index-ignored")
						return nil
					}
				}
				return h.Failf(key, "%s", msg)
			}
			if D[j].CmpAbs(g.mod) > 0 {
				return h.Failf("C02:"+name+":digit-bound"+noP, "%s levelQ=%d levelP=%d digit %d: coefficient %d: |digit|=|%s| exceeds the digit modulus %s",
					name, c.LevelQ, c.LevelP, i, j, D[j], g.mod)
			}
			if k.Sign() != 0 {
				abs4 := new(big.Int).Abs(cj)
				abs4.Lsh(abs4, 2)
				if abs4.Cmp(g.mod) < 0 {
					return h.Failf("C02:"+name+":quarter-rule"+noP, "%s levelQ=%d levelP=%d digit %d: coefficient %d: centred residue %s is below a quarter of the digit modulus %s but the digit is %s",
						name, c.LevelQ, c.LevelP, i, j, cj, g.mod, D[j])
				}
				shifted = true
			}
			sum[j].Add(sum[j], new(big.Int).Mul(D[j], G))
		}
	}
	for j := 0; j < N; j++ {
		if h.Mod(sum[j], bQ).Cmp(x[j]) != 0 {
			return h.Failf("C02:"+name+":recombination"+noP, "%s levelQ=%d levelP=%d: coefficient %d: sum_i digit_i*gadget_i = %s mod Q, expected x = %s",
				name, c.LevelQ, c.LevelP, j, h.Mod(sum[j], bQ), x[j])
		}
	}

	rec.Classf("op=%s", name)
	rec.Classf("levelQ=%s", lvlClass(c.LevelQ, nQ-1))
	if nP == 0 {
		rec.Class("levelP=none")
	} else {
		rec.Classf("levelP=%s", lvlClass(c.LevelP, nP-1))
	}
	rec.Classf("digits=%d", len(groups))
	rec.Classf("ci=%v", c.Chain.CI)
	rec.Classf("tail=%v", (c.LevelQ+1)%nbPi != 0)
	rec.Classf("Q=%s", sizeClass(Q))
	recKinds(rec, c.Coeffs)
	if shifted {
		rec.Class("digit=centred+-Qg seen")
	}
	_ = multi
	if hasBoundary(c.Coeffs) && discr && (len(groups) > 1 || c.LevelQ < nQ-1 || (nP > 0 && c.LevelP < nP-1)) {
		rec.NonTrivial(fmt.Sprintf("%s|N=%d|ci=%v|ntt=%v|lq=%d/%d|lp=%d/%d|Q=%s|P=%s|%s", name, N, c.Chain.CI, c.IsNTT, c.LevelQ, nQ-1, c.LevelP, nP-1, sizeClass(Q), sizeClass(P), kindsOf(c.Coeffs)))
	}
	return nil
}

// runPw2 checks the power-of-two digits of every limb: as many digits as the library allots
// (Parameters.BaseTwoDecompositionVectorSize, the size of a GadgetCiphertext row), each extracted with ring.MaskVec
// exactly as rlwe.Evaluator.gadgetProductSinglePAndBitDecompLazy does.
func runPw2(c DecompCase, rec *h.Rec) error {
	if c.W < 1 || c.W > 30 || c.LevelP > 0 || c.Chain.LogN < 4 {
		return nil
	}
	e, err := c.Chain.evaluator()
	if err != nil {
		return h.Failf("C02:setup:NewParameters", "%v", err)
	}
	N := c.Chain.N()
	Q := c.Chain.Q[:c.LevelQ+1]
	bQ := prod(Q)
	x := buildCoeffs(c.Coeffs, N, bQ, nil, bigs(Q), nil)
	xr := h.ToRNS(x, Q)
	counts := e.params.BaseTwoDecompositionVectorSize(c.LevelQ, c.LevelP, c.W)
	if len(counts) < len(Q) {
		return h.Failf("C02:BaseTwoDecompositionVectorSize:length", "returned %d entries for levelQ=%d", len(counts), c.LevelQ)
	}
	mask := uint64(1)<<c.W - 1
	out := make([]uint64, N)
	sum := make([]*big.Int, N)
	for j := range sum {
		sum[j] = new(big.Int)
	}
	short := false
	for i, q := range Q {
		need := (bits.Len64(q) + c.W - 1) / c.W // ceil(bit length / w): digits needed to cover every residue
		if counts[i] > need+1 || counts[i] < 1 {
			return h.Failf("C02:BaseTwoDecompositionVectorSize:count", "q=%d (%d bits) w=%d: %d digits, expected about %d", q, bits.Len64(q), c.W, counts[i], need)
		}
		rebuilt := make([]uint64, N)
		for j := 0; j < counts[i]; j++ {
			ring.MaskVec(xr[i], j*c.W, mask, out)
			for k, d := range out {
				if d > mask {
					return h.Failf("C02:MaskVec:digit-bound", "digit %d of %d (w=%d) = %d >= 2^w", j, xr[i][k], c.W, d)
				}
				if j*c.W < 64 {
					rebuilt[k] += d << (j * c.W)
				}
			}
		}
		co := new(big.Int).Div(bQ, h.BU(q))
		G := new(big.Int).Mul(co, new(big.Int).ModInverse(new(big.Int).Mod(co, h.BU(q)), h.BU(q)))
		for k := 0; k < N; k++ {
			if rebuilt[k] != xr[i][k] {
				msg := fmt.Sprintf("q=%d (%d bits, round(log2 q)=%d) w=%d: the library allots %d digits = %d bits; residue %d recombines to %d",
					q, bits.Len64(q), e.params.LogQi()[i], c.W, counts[i], counts[i]*c.W, xr[i][k], rebuilt[k])
				if counts[i] < need && xr[i][k]>>(counts[i]*c.W) != 0 {
					key := "C02:pw2:digits-do-not-cover-modulus"
					if rec.Known(key, msg) {
						short = true
						break
					}
					return h.Failf(key, "%s", msg)
				}
				return h.Failf("C02:pw2:recombination", "%s", msg)
			}
			sum[k].Add(sum[k], new(big.Int).Mul(h.BU(rebuilt[k]), G))
		}
	}
	rec.Class("op=pw2")
	rec.Classf("w=%d", c.W)
	recKinds(rec, c.Coeffs)
	if short {
		rec.Class("known=pw2:digits-do-not-cover-modulus")
		return nil
	}
	for k := 0; k < N; k++ {
		if h.Mod(sum[k], bQ).Cmp(x[k]) != 0 {
			return h.Failf("C02:pw2:gadget-recombination", "coefficient %d: sum of digits against the gadget vector = %s, expected %s", k, h.Mod(sum[k], bQ), x[k])
		}
	}
	if hasBoundary(c.Coeffs) {
		rec.NonTrivial(fmt.Sprintf("pw2|N=%d|w=%d|lq=%d/%d|nP=%d|Q=%s|%s", N, c.W, c.LevelQ, len(c.Chain.Q)-1, len(c.Chain.P), sizeClass(Q), kindsOf(c.Coeffs)))
	}
	return nil
}

var propDecomp = h.NewProp("TestPropDecompose", h.Budget{Quick: 1400, Thorough: 20000}, genDecomp, runDecomp)

func TestPropDecompose(t *testing.T) { propDecomp.Check(t) }
