package c02

import (
	"fmt"
	"math"
	"math/big"
	"math/bits"
	"testing"

	"verif/internal/h"

	"github.com/tuneinsight/lattigo/v6/core/rlwe"
	"github.com/tuneinsight/lattigo/v6/ring"
	"github.com/tuneinsight/lattigo/v6/ring/ringqp"
	"pgregory.net/rapid"
)

// GadgetCase: recombination of the digits against the gadget vector THROUGH LATTIGO'S OWN ACCUMULATION.
// A trivial gadget ciphertext (no secret, no noise) is built from the definition of the gadget vector:
// component [i][j][0] = g * P * 2^(w*j) on the limbs of RNS row i and 0 elsewhere, component [i][j][1] = 0. Then
// GadgetProduct(cx) must return (cx*g, 0) modulo Q, +-1 per coefficient from the division by P (exact without P).
// The evaluator is used twice per case: first with g = 1, then with a generated small polynomial g.
type GadgetCase struct {
	Chain    ChainSpec  `json:"chain"`
	KeyLevel int        `json:"keyLevel"` // levelQ of the gadget ciphertext
	LevelQ   int        `json:"levelQ"`   // level of the product (<= KeyLevel)
	LevelP   int        `json:"levelP"`   // -1 when P is empty
	W        int        `json:"w"`        // BaseTwoDecomposition (0: none)
	Method   string     `json:"method"`   // product | lazy | hoisted
	IsNTT    bool       `json:"isNTT"`    // domain of cx and of the result
	Mix      bool       `json:"mix,omitempty"` // lazy method only: the receiver of ModDown is in the other domain than ctQP
	G        []int      `json:"g"`        // coefficients of the second key's polynomial (cycled with zeros: index = position in the list * stride)
	GStride  int        `json:"gStride"`
	Coeffs   []CoefSpec `json:"coeffs"`
	Dirt     uint64     `json:"dirt"`
	Directed bool       `json:"directed,omitempty"` // drawn by the overflow-guard class generator (information only)
}

// overF is lattigo's accumulation margin (Parameters.QiOverflowMargin(level) >> 1): how many lazy products are summed
// before a reduction.
func overF(moduli []uint64) int {
	if len(moduli) == 0 {
		return -1
	}
	var mx uint64
	for _, q := range moduli {
		if q > mx {
			mx = q
		}
	}
	return int(math.Exp2(64)/float64(mx)) >> 1
}

// digitProducts is the number of digit products accumulated by the gadget product at (levelQ, levelP, w).
func digitProducts(Q []uint64, levelQ, levelP, w int) int {
	if levelP > 0 || w == 0 {
		nb := levelP + 1
		if nb < 1 {
			nb = 1
		}
		return (levelQ + nb) / nb
	}
	t := 0
	for _, q := range Q[:levelQ+1] {
		t += (bits.Len64(q) + w - 1) / w
	}
	return t
}

// genGadgetDirected draws the overflow-guard class: 7-16 Q primes of one size class (61 / 60 / 59 bits or mixed), P primes
// of ANOTHER size class, and (levelQ, w) chosen so that the number of accumulated digit products is / is not a multiple
// of the Q margin and of the P margin (all four combinations, and the neighbours of the multiples).
func genGadgetDirected(t *rapid.T) GadgetCase {
	var c GadgetCase
	c.Directed = true
	c.Chain.LogN = 4
	m := uint64(2) << c.Chain.LogN
	multiP := rapid.IntRange(0, 2).Draw(t, "multiP") > 0
	qc := rapid.IntRange(0, 3).Draw(t, "qClass") // 61, 60, 59, mixed
	nQ := rapid.IntRange(7, 16).Draw(t, "nQ")
	if rapid.Bool().Draw(t, "nQmax") {
		nQ = 16 // more levels to choose from: every (multiple of the Q margin) x (multiple of the P margin) class is reachable
	}
	if !multiP {
		nQ = rapid.IntRange(1, 6).Draw(t, "nQs")
	}
	qs := make([]int, nQ)
	for i := range qs {
		if qc == 3 {
			qs[i] = rapid.IntRange(59, 61).Draw(t, fmt.Sprintf("qb%d", i))
		} else {
			qs[i] = 61 - qc
		}
	}
	pClasses := []int{61, 60, 50, 40}
	pc := pClasses[rapid.IntRange(0, 3).Draw(t, "pClass")]
	if qc < 3 && pc == 61-qc {
		pc = 50
	}
	nP := rapid.IntRange(2, 3).Draw(t, "nP")
	if !multiP {
		nP = rapid.IntRange(0, 1).Draw(t, "nPs")
	}
	ps := make([]int, nP)
	for i := range ps {
		ps[i] = pc
	}
	used := map[uint64]bool{}
	c.Chain.Q = h.GenPrimes(t, qs, m, used, "q")
	if nP > 0 {
		c.Chain.P = h.GenPrimes(t, ps, m, used, "p")
	}
	c.KeyLevel = nQ - 1
	c.LevelP = nP - 1
	if multiP && nP == 3 && rapid.Bool().Draw(t, "lp1") {
		c.LevelP = 1
	}
	// candidates (levelQ, w) by class: (T mod Q margin == 0, T mod P margin == 0), or a neighbour of a multiple
	wantA, wantB := rapid.Bool().Draw(t, "multQ"), rapid.Bool().Draw(t, "multP")
	near := rapid.IntRange(0, 3).Draw(t, "near") == 0
	type cand struct{ lq, w int }
	var good, all []cand
	ws := []int{0}
	if !multiP {
		ws = nil
		for w := 1; w <= 30; w++ {
			ws = append(ws, w)
		}
	}
	var P []uint64
	if c.LevelP >= 0 {
		P = c.Chain.P[:c.LevelP+1]
	}
	mp := overF(P)
	for lq := 0; lq < nQ; lq++ {
		mq := overF(c.Chain.Q[:lq+1])
		for _, w := range ws {
			T := digitProducts(c.Chain.Q, lq, c.LevelP, w)
			if T > 130 {
				continue
			}
			all = append(all, cand{lq, w})
			a := T%mq == 0
			b := mp > 0 && T%mp == 0
			if near {
				if T > 1 && ((T+1)%mq == 0 || (T-1)%mq == 0 || (mp > 0 && ((T+1)%mp == 0 || (T-1)%mp == 0))) {
					good = append(good, cand{lq, w})
				}
			} else if a == wantA && (b == wantB || mp <= 0) {
				good = append(good, cand{lq, w})
			}
		}
	}
	if len(good) == 0 {
		good = all
	}
	pick := good[rapid.IntRange(0, len(good)-1).Draw(t, "cand")]
	c.LevelQ, c.W = pick.lq, pick.w
	c.Method = []string{"product", "lazy", "hoisted"}[rapid.IntRange(0, 2).Draw(t, "method")]
	if c.Method == "hoisted" && (c.W != 0 || nP == 0) {
		c.Method = "product"
	}
	c.IsNTT = rapid.Bool().Draw(t, "isNTT")
	c.G = []int{rapid.IntRange(-3, 3).Draw(t, "g0"), rapid.IntRange(-3, 3).Draw(t, "g1")}
	c.GStride = rapid.IntRange(1, 4).Draw(t, "gstride")
	c.Coeffs = genCoefs(t, []string{"uni", "uni", "small", "edge", "crt"})
	c.Dirt = rapid.Uint64().Draw(t, "dirt")
	return c
}

func genGadget(t *rapid.T) GadgetCase {
	if rapid.IntRange(0, 2).Draw(t, "directed") == 0 {
		return genGadgetDirected(t)
	}
	var c GadgetCase
	maxLogN, maxQ, maxP := 5, 6, 3
	if h.Thorough() {
		maxLogN, maxQ, maxP = 6, 16, 3
	}
	c.Chain.LogN = rapid.IntRange(4, maxLogN).Draw(t, "logN")
	m := uint64(2) << c.Chain.LogN
	if rapid.IntRange(0, 3).Draw(t, "ci") == 0 {
		c.Chain.CI = true
		m <<= 1
	}
	nQ := rapid.IntRange(1, maxQ).Draw(t, "nQ")
	nP := rapid.IntRange(0, maxP).Draw(t, "nP")
	// prime sizes: the overflow-margin class (every prime 59..61 bits) in half of the cases, mixed sizes otherwise
	var qs []int
	big61 := rapid.Bool().Draw(t, "allBig")
	if big61 {
		qs = make([]int, nQ)
		for i := range qs {
			qs[i] = rapid.IntRange(59, 61).Draw(t, fmt.Sprintf("qb%d", i))
		}
	} else {
		qs = genSizes(t, nQ, 20, 61, "q")
	}
	used := map[uint64]bool{}
	c.Chain.Q = h.GenPrimes(t, qs, m, used, "q")
	if nP > 0 {
		c.Chain.P = h.GenPrimes(t, genSizes(t, nP, 40, 61, "p"), m, used, "p")
	}
	c.KeyLevel = rapid.IntRange(0, nQ-1).Draw(t, "keyLevel")
	if rapid.Bool().Draw(t, "keyMax") {
		c.KeyLevel = nQ - 1
	}
	c.LevelQ = rapid.IntRange(0, c.KeyLevel).Draw(t, "levelQ")
	if rapid.Bool().Draw(t, "lvlMax") {
		c.LevelQ = c.KeyLevel
	}
	c.LevelP = rapid.IntRange(0, nP).Draw(t, "levelP") - 1
	if nP > 0 && c.LevelP < 0 {
		c.LevelP = nP - 1
	}
	// w: 0 or 1..30, small values (many digits) preferred
	switch rapid.IntRange(0, 3).Draw(t, "wk") {
	case 0:
		c.W = 0
	case 1:
		c.W = rapid.IntRange(1, 8).Draw(t, "wsmall")
	default:
		c.W = rapid.IntRange(1, 30).Draw(t, "w")
	}
	c.Method = []string{"product", "product", "lazy", "hoisted"}[rapid.IntRange(0, 3).Draw(t, "method")]
	if c.Method == "hoisted" && (c.W != 0 || nP == 0) {
		c.Method = "product" // GadgetProductHoisted: unsupported for BaseTwoDecomposition != 0, needs P
	}
	c.IsNTT = rapid.Bool().Draw(t, "isNTT")
	c.Mix = c.Method == "lazy" && rapid.IntRange(0, 2).Draw(t, "mix") == 0
	ng := rapid.IntRange(1, 4).Draw(t, "ng")
	c.G = make([]int, ng)
	for i := range c.G {
		c.G[i] = rapid.IntRange(-3, 3).Draw(t, fmt.Sprintf("g%d", i))
	}
	c.GStride = rapid.IntRange(1, (1<<c.Chain.LogN)/4).Draw(t, "gstride")
	c.Coeffs = genCoefs(t, []string{"uni", "uni", "small", "edge", "crt", "crt"})
	c.Dirt = rapid.Uint64().Draw(t, "dirt")
	return c
}

// trivialGadget builds the gadget ciphertext that "encrypts" g under the zero secret without noise.
func trivialGadget(params rlwe.Parameters, c GadgetCase, g []*big.Int) *rlwe.GadgetCiphertext {
	gct := rlwe.NewGadgetCiphertext(params, 1, c.KeyLevel, c.LevelP, c.W)
	ringQ := params.RingQ().AtLevel(c.KeyLevel)
	P := big.NewInt(1)
	nbPi := 1
	if c.LevelP >= 0 {
		P = prod(c.Chain.P[:c.LevelP+1])
		nbPi = c.LevelP + 1
	}
	for i := range gct.Value {
		for j := range gct.Value[i] {
			scale := new(big.Int).Lsh(P, uint(c.W*j)) // P * 2^(w*j)
			pol := gct.Value[i][j][0].Q
			for idx := i * nbPi; idx < (i+1)*nbPi && idx <= c.KeyLevel; idx++ {
				q := h.BU(c.Chain.Q[idx])
				for k := range g {
					v := new(big.Int).Mul(g[k], scale)
					pol.Coeffs[idx][k] = h.Mod(v, q).Uint64()
				}
			}
			ringQ.NTT(pol, pol)
			ringQ.MForm(pol, pol)
			// the P part of component 0 and the whole component 1 are zero (NTT and Montgomery form of 0 is 0)
		}
	}
	return gct
}

func runGadget(c GadgetCase, rec *h.Rec) error {
	nQ, nP := len(c.Chain.Q), len(c.Chain.P)
	if c.Chain.LogN < 4 || c.KeyLevel < 0 || c.KeyLevel >= nQ || c.LevelQ < 0 || c.LevelQ > c.KeyLevel || c.LevelP >= nP || c.LevelP < -1 ||
		(nP > 0 && c.LevelP < 0) || c.W < 0 || c.W > 30 || len(c.G) == 0 || c.GStride < 1 {
		return nil
	}
	if c.Method == "hoisted" && (c.W != 0 || nP == 0) {
		return nil
	}
	e, err := c.Chain.evaluator()
	if err != nil {
		return h.Failf("C02:setup:NewParameters", "%v", err)
	}
	params, eval := e.params, e.eval
	N := c.Chain.N()
	Q := c.Chain.Q[:c.LevelQ+1]
	bQ := prod(Q)
	ringQ := params.RingQ().AtLevel(c.LevelQ)

	// the two keys: g = 1, then the generated small polynomial (a constant in the conjugate-invariant ring, where the
	// harness has no independent product model)
	one := make([]*big.Int, N)
	g2 := make([]*big.Int, N)
	for k := range one {
		one[k], g2[k] = new(big.Int), new(big.Int)
	}
	one[0].SetInt64(1)
	gNonTrivial := false
	for i, v := range c.G {
		pos := i * c.GStride
		if c.Chain.CI {
			pos = 0
		}
		if pos < N && v != 0 {
			g2[pos].SetInt64(int64(v))
			if pos > 0 {
				gNonTrivial = true
			}
		}
	}

	x := buildCoeffs(c.Coeffs, N, bQ, nil, bigs(Q), nil)
	xc := h.VecCenter(x, bQ)

	// the effective number of digits per row decides whether the overflow guard of the accumulation is exercised
	accum := 0
	for round, g := range [][]*big.Int{one, g2} {
		gct := trivialGadget(params, c, g)
		// cross-check of the definition against lattigo's own helper (pt = g on a zeroed gadget ciphertext)
		{
			rK := params.RingQ().AtLevel(c.KeyLevel)
			pt, buff := rK.NewPoly(), rK.NewPoly()
			setPoly(pt, g, c.Chain.Q[:c.KeyLevel+1])
			rK.NTT(pt, pt)
			rK.MForm(pt, pt)
			ref2 := rlwe.NewGadgetCiphertext(params, 1, c.KeyLevel, c.LevelP, c.W)
			if err := rlwe.AddPolyTimesGadgetVectorToGadgetCiphertext(pt, []rlwe.GadgetCiphertext{*ref2}, *params.RingQP(), buff); err != nil {
				return h.Failf("C02:gadget-vector:helper-error", "%v", err)
			}
			for i := range gct.Value {
				for j := range gct.Value[i] {
					for u := 0; u < 2; u++ {
						if !gct.Value[i][j][u].Equal(&ref2.Value[i][j][u]) {
							return h.Failf("C02:gadget-vector:helper-differs-from-definition",
								"rlwe.AddPolyTimesGadgetVectorToGadgetCiphertext(pt, zero gadget ciphertext) at keyLevel=%d levelP=%d w=%d (digits per row %v): entry [row %d][digit %d][%d] is not pt*P*2^(w*%d) on the limbs of row %d and 0 elsewhere; Q=%v",
								c.KeyLevel, c.LevelP, c.W, gct.BaseTwoDecompositionVectorSize(), i, j, u, j, i, c.Chain.Q[:c.KeyLevel+1])
						}
					}
				}
			}
			if d := gct.BaseTwoDecompositionVectorSize(); len(d) > 1 && round == 0 {
				if d[0] < slicesMax(d) {
					rec.Class("digit counts differ: first row has fewer")
				} else if d[0] > slicesMin(d) {
					rec.Class("digit counts differ: first row has most")
				}
			}
		}
		accum = 0
		for i := range gct.Value {
			if i*maxInt(c.LevelP+1, 1) <= c.LevelQ {
				accum += len(gct.Value[i])
			}
		}
		ref := h.VecMod(h.NegacyclicMul(xc, g), bQ)

		cx := ringQ.NewPoly()
		setPoly(cx, x, Q)
		if c.IsNTT {
			ringQ.NTT(cx, cx)
		}
		cxBefore := *cx.CopyNew()
		ct := rlwe.NewCiphertext(params, 1, c.LevelQ)
		ct.IsNTT = c.IsNTT
		dirty(ct.Value[0], Q, c.Dirt+uint64(round))
		dirty(ct.Value[1], Q, c.Dirt+uint64(round)+50)

		name := "GadgetProduct"
		outNTT := c.IsNTT
		switch c.Method {
		case "product":
			eval.GadgetProduct(c.LevelQ, cx, gct, ct)
		case "lazy":
			name = "GadgetProductLazy+ModDown"
			ringQP := params.RingQP()
			ctQP := &rlwe.Element[ringqp.Poly]{Value: []ringqp.Poly{ringQP.NewPoly(), ringQP.NewPoly()}, MetaData: &rlwe.MetaData{}}
			ctQP.IsNTT = c.IsNTT
			for u := range ctQP.Value {
				dirty(ctQP.Value[u].Q, c.Chain.Q, c.Dirt+uint64(u)+60)
				if nP > 0 {
					dirty(ctQP.Value[u].P, c.Chain.P, c.Dirt+uint64(u)+70)
				}
			}
			if err := eval.GadgetProductLazy(c.LevelQ, cx, gct, ctQP); err != nil {
				return h.Failf("C02:GadgetProductLazy:error", "%v", err)
			}
			outNTT = c.IsNTT != c.Mix
			ct.IsNTT = outNTT
			lazyQ := []ring.Poly{*ctQP.Value[0].Q.CopyNew(), *ctQP.Value[1].Q.CopyNew()}
			dirt := []ring.Poly{*ct.Value[0].CopyNew(), *ct.Value[1].CopyNew()}
			eval.ModDown(c.LevelQ, c.LevelP, ctQP, ct)
			if c.LevelP < 0 && !c.Mix {
				// without P and with equal domains ModDown is a plain copy ctQP.Q -> ct
				reversed := true
				for u := 0; u < 2; u++ {
					for i := 0; i <= c.LevelQ; i++ {
						for k := 0; k < N; k++ {
							if ct.Value[u].Coeffs[i][k] != dirt[u].Coeffs[i][k] || ctQP.Value[u].Q.Coeffs[i][k] != dirt[u].Coeffs[i][k] {
								reversed = false
							}
						}
					}
				}
				lz, dz := ring.Poly{Coeffs: lazyQ[0].Coeffs[:c.LevelQ+1]}, ring.Poly{Coeffs: dirt[0].Coeffs[:c.LevelQ+1]}
				if reversed && !lz.Equal(&dz) {
					key := "C02:rlwe.Evaluator.ModDown:noP:copy-direction"
					msg := fmt.Sprintf("rlwe.Evaluator.ModDown(levelQ=%d, levelP=-1) with ctQP.IsNTT == ct.IsNTT == %v and a receiver that does not alias ctQP: ct is left untouched and ctQP.Value[i].Q is overwritten with the old content of ct (CopyLvl called in the wrong direction)", c.LevelQ, c.IsNTT)
					if !rec.Known(key, msg) {
						return h.Failf(key, "%s", msg)
					}
					rec.Class("known=ModDown:noP:copy-direction")
					// continue behind it with the value ModDown should have copied
					for u := 0; u < 2; u++ {
						ct.Value[u].CopyLvl(c.LevelQ, lazyQ[u])
					}
				}
			}
		case "hoisted":
			name = "DecomposeNTT+GadgetProductHoisted"
			eval.DecomposeNTT(c.LevelQ, c.LevelP, c.LevelP+1, cx, c.IsNTT, eval.BuffDecompQP)
			eval.GadgetProductHoisted(c.LevelQ, eval.BuffDecompQP, gct, ct)
		default:
			return nil
		}
		if !cx.Equal(&cxBefore) {
			return h.Failf("C02:"+name+":input-modified", "levelQ=%d levelP=%d w=%d: the polynomial cx (a ciphertext component of the caller) was modified", c.LevelQ, c.LevelP, c.W)
		}
		tol := int64(1)
		if c.LevelP < 0 {
			tol = 0
		}
		for comp := 0; comp < 2; comp++ {
			res := ring.Poly{Coeffs: ct.Value[comp].Coeffs[:c.LevelQ+1]}
			if outNTT {
				tmp := ringQ.NewPoly()
				ringQ.INTT(res, tmp)
				res = tmp
			}
			gl, _ := limbs(res, Q)
			got := h.CRT(gl, Q)
			for k := 0; k < N; k++ {
				want := ref[k]
				if comp == 1 {
					want = new(big.Int)
				}
				d := h.Center(new(big.Int).Sub(got[k], want), bQ)
				if !d.IsInt64() || d.Int64() > tol || d.Int64() < -tol {
					which := "g=1"
					if round == 1 {
						which = "second key (evaluator re-used)"
					}
					return h.Failf(fmt.Sprintf("C02:%s:recombination:c%d", name, comp),
						"%s with the trivial gadget ciphertext of %s, levelQ=%d (key level %d) levelP=%d w=%d isNTT=%v, %d accumulated digit products: component %d coefficient %d = %s, expected %s (difference %s, tolerance %d); Q=%v",
						name, which, c.LevelQ, c.KeyLevel, c.LevelP, c.W, c.IsNTT, accum, comp, k, got[k], want, d, tol, Q)
				}
			}
		}
	}

	maxBits := 0
	for _, q := range Q {
		if b := bits.Len64(q); b > maxBits {
			maxBits = b
		}
	}
	rec.Classf("method=%s", c.Method)
	rec.Classf("w=%s", wClass(c.W))
	if nP == 0 {
		rec.Class("levelP=none")
	} else {
		rec.Classf("levelP=%s", lvlClass(c.LevelP, nP-1))
	}
	rec.Classf("levelQ<key=%v", c.LevelQ < c.KeyLevel)
	rec.Classf("isNTT=%v", c.IsNTT)
	rec.Classf("mix=%v", c.Mix)
	rec.Classf("ci=%v", c.Chain.CI)
	rec.Classf("Q=%s", sizeClass(Q))
	recKinds(rec, c.Coeffs)
	margin := (1 << (64 - maxBits)) >> 1 // about QiOverflowMargin/2: products that may be summed before a reduction
	if margin < 1 {
		margin = 1
	}
	{
		var Pl []uint64
		if c.LevelP >= 0 {
			Pl = c.Chain.P[:c.LevelP+1]
		}
		T := digitProducts(c.Chain.Q, c.LevelQ, c.LevelP, c.W)
		mq, mp := overF(Q), overF(Pl)
		path := "singleP/bitdecomp"
		if c.LevelP > 0 {
			path = "multiP"
		}
		if mq <= 64 { // the guard only matters for 58..61-bit Q primes
			if mp > 0 {
				rec.Classf("guard %s: T%%Qmargin==0:%v T%%Pmargin==0:%v", path, T%mq == 0, T%mp == 0)
				if mp != mq {
					rec.Classf("guard %s margins differ: T%%Qmargin==0:%v T%%Pmargin==0:%v", path, T%mq == 0, T%mp == 0)
				}
			} else {
				rec.Classf("guard %s (no P): T%%Qmargin==0:%v", path, T%mq == 0)
			}
			if T > 1 && ((T+1)%mq == 0 || (T-1)%mq == 0) {
				rec.Classf("guard %s: T next to a multiple of the Q margin", path)
			}
			if mp > 0 && T > 1 && ((T+1)%mp == 0 || (T-1)%mp == 0) {
				rec.Classf("guard %s: T next to a multiple of the P margin", path)
			}
		}
		rec.Note("digitProducts", T)
		rec.Note("margins", []int{mq, mp})
	}
	rec.Classf("directed=%v", c.Directed)
	overflowClass := accum > 2*margin && maxBits >= 59
	if overflowClass {
		rec.Class("accumulation > 2x overflow margin, 59..61-bit primes")
	}
	if accum > 1 && (hasBoundary(c.Coeffs) || gNonTrivial) {
		rec.NonTrivial(fmt.Sprintf("gadget|%s|N=%d|ci=%v|ntt=%v/%v|lq=%d/%d/%d|lp=%d/%d|w=%s|Q=%s|ovf=%v|%s|g=%v", c.Method, N, c.Chain.CI, c.IsNTT, c.Mix, c.LevelQ, c.KeyLevel, nQ-1,
			c.LevelP, nP-1, wClass(c.W), sizeClass(Q), overflowClass, kindsOf(c.Coeffs), gNonTrivial))
	}
	return nil
}

func wClass(w int) string {
	switch {
	case w == 0:
		return "0"
	case w <= 4:
		return "1-4"
	case w <= 8:
		return "5-8"
	case w <= 16:
		return "9-16"
	default:
		return "17-30"
	}
}

func maxInt(a, b int) int {
	if a > b {
		return a
	}
	return b
}

var propGadget = h.NewProp("TestPropGadgetProduct", h.Budget{Quick: 500, Thorough: 6000}, genGadget, runGadget)

func TestPropGadgetProduct(t *testing.T) { propGadget.Check(t) }

func slicesMax(a []int) int {
	m := a[0]
	for _, v := range a {
		m = maxInt(m, v)
	}
	return m
}

func slicesMin(a []int) int {
	m := a[0]
	for _, v := range a {
		if v < m {
			m = v
		}
	}
	return m
}
