package c09

import (
	"testing"

	"verif/internal/h"

	"github.com/tuneinsight/lattigo/v6/core/rlwe"
	"github.com/tuneinsight/lattigo/v6/ring"
	"pgregory.net/rapid"
)

func genRLWESpec(t *rapid.T) *h.RLWESpec {
	s := poolSpec(t, true, nil, 0)
	return &s
}

func traceLogN(e *env, arg [3]int) int {
	l := arg[2]
	if l > e.rp.LogN()-1 {
		l = e.rp.LogN() - 1
	}
	return l
}

func galTrace(e *env, arg [3]int) []uint64 {
	l := traceLogN(e, arg)
	if l == 0 && e.rp.RingType() != ring.Standard {
		return nil
	}
	return rlwe.GaloisElementsForTrace(e.rp, l)
}

func galAuto(e *env, arg [3]int) []uint64 {
	if arg[1]&1 == 1 && e.rp.RingType() == ring.Standard {
		return []uint64{e.rp.GaloisElementOrderTwoOrthogonalSubgroup()}
	}
	return []uint64{e.rp.GaloisElement(arg[0])}
}

func init() {
	d1 := []int{1}
	type W = world
	type CT = rlwe.Ciphertext
	register(
		&opDesc{name: "Automorphism", scheme: "rlwe", aDegs: d1, natural: natSame, gal: galAuto,
			call: func(w *W, a *CT, b any, out *CT, arg [3]int) (*CT, error) {
				return nil, w.rl.Automorphism(a, galAuto(w.env, arg)[0], out)
			}},
		&opDesc{name: "AutomorphismHoisted", scheme: "rlwe", aDegs: d1, natural: natSame, gal: galAuto,
			call: func(w *W, a *CT, b any, out *CT, arg [3]int) (*CT, error) {
				lvl := a.Level()
				w.rl.DecomposeNTT(lvl, w.rp.MaxLevelP(), w.rp.PCount(), a.Value[1], a.IsNTT, w.rl.BuffDecompQP)
				return nil, w.rl.AutomorphismHoisted(lvl, a, w.rl.BuffDecompQP, galAuto(w.env, arg)[0], out)
			}},
		&opDesc{impl: "rlwe.ApplyEvaluationKey", name: "ApplyEvaluationKey", scheme: "rlwe", aDegs: d1, natural: natSame,
			call: func(w *W, a *CT, b any, out *CT, arg [3]int) (*CT, error) {
				return nil, w.rl.ApplyEvaluationKey(a, w.swk, out)
			}},
		&opDesc{name: "Relinearize", scheme: "rlwe", aDegs: []int{2}, natural: natDeg1,
			call: func(w *W, a *CT, b any, out *CT, arg [3]int) (*CT, error) { return nil, w.rl.Relinearize(a, out) }},
		&opDesc{name: "Trace", scheme: "rlwe", aDegs: d1, natural: natSame, gal: galTrace,
			call: func(w *W, a *CT, b any, out *CT, arg [3]int) (*CT, error) {
				return nil, w.rl.Trace(a, traceLogN(w.env, arg), out)
			}},
		&opDesc{impl: "rlwe.PartialTracesSum", name: "PartialTracesSum", scheme: "rlwe", aDegs: d1, natural: natSame, gal: galInnerSum,
			call: func(w *W, a *CT, b any, out *CT, arg [3]int) (*CT, error) {
				return nil, w.rl.PartialTracesSum(a, arg[0], arg[1], out)
			}},
		&opDesc{impl: "rlwe.PartialTracesSum", name: "Replicate", scheme: "rlwe", aDegs: d1, natural: natSame, gal: galReplicate,
			call: func(w *W, a *CT, b any, out *CT, arg [3]int) (*CT, error) {
				return nil, w.rl.Replicate(a, arg[0], arg[1], out)
			}},
		&opDesc{name: "InnerFunction", scheme: "rlwe", aDegs: d1, natural: natSame, gal: galInnerSum,
			call: func(w *W, a *CT, b any, out *CT, arg [3]int) (*CT, error) {
				f := func(x, y, z *CT) error {
					r := w.rp.RingQ().AtLevel(minInt(x.Level(), y.Level(), z.Level()))
					r.Add(x.Value[0], y.Value[0], z.Value[0])
					r.Add(x.Value[1], y.Value[1], z.Value[1])
					return nil
				}
				return nil, w.rl.InnerFunction(a, arg[0], arg[1], f, out)
			}},
	)
}

func genRLWECase(t *rapid.T) EvalCase {
	c := genEvalCase(t, "rlwe")
	return c
}

var propRLWE = h.NewProp("TestPropRLWE", h.Budget{Quick: 3000, Thorough: 90000}, genRLWECase, runEval)

func TestPropRLWE(t *testing.T) { propRLWE.Check(t) }
