package c09

import (
	"fmt"
	"strings"
	"testing"

	"pgregory.net/rapid"

	"verif/internal/h"

	bgvlt "github.com/tuneinsight/lattigo/v6/circuits/bgv/lintrans"
	bgvpoly "github.com/tuneinsight/lattigo/v6/circuits/bgv/polynomial"
	ckkslt "github.com/tuneinsight/lattigo/v6/circuits/ckks/lintrans"
	ckkspoly "github.com/tuneinsight/lattigo/v6/circuits/ckks/polynomial"
	clt "github.com/tuneinsight/lattigo/v6/circuits/common/lintrans"
	"github.com/tuneinsight/lattigo/v6/core/rlwe"
	"github.com/tuneinsight/lattigo/v6/ring"
	"github.com/tuneinsight/lattigo/v6/schemes/bgv"
	"github.com/tuneinsight/lattigo/v6/schemes/ckks"
	"github.com/tuneinsight/lattigo/v6/utils/bignum"
)

// linear transformations and polynomials are operands of kind "lt" / "poly"; their shape is a function of the method
// arguments (so that the Galois keys can be generated from the case), their values of the operand seed.

var ltDiagSets = [][]int{{0}, {1}, {0, 1}, {0, 1, 2, 3}, {-1, 2}, {0, 5}, {1, 2, 3}}

func ltShape(arg [3]int) (diags []int, bsgs int) {
	return ltDiagSets[((arg[2]%len(ltDiagSets))+len(ltDiagSets))%len(ltDiagSets)], arg[1]%3 - 1
}

func (e *env) ltLogDims() ring.Dimensions {
	if e.bgvP != nil {
		return e.bgvP.LogMaxDimensions()
	}
	return e.ckksP.LogMaxDimensions()
}

func (e *env) ltParams(arg [3]int, level int, scale rlwe.Scale) clt.Parameters {
	diags, bsgs := ltShape(arg)
	return clt.Parameters{DiagonalsIndexList: diags, LevelQ: level, LevelP: e.rp.MaxLevelP(), Scale: scale, LogDimensions: e.ltLogDims(), LogBabyStepGiantStepRatio: bsgs}
}

func galLT(e *env, arg [3]int) []uint64 {
	if e.rp.PCount() == 0 {
		return nil
	}
	diags, bsgs := ltShape(arg)
	g := clt.GaloisElements(e.rp, diags, 1<<e.ltLogDims().Cols, bsgs)
	// EvaluateSequential rescales (no key), Evaluate needs only the rotations
	return g
}

// mkLT builds an encoded linear transformation; s.Val / s.Len carry arg[2] / arg[1].
func (e *env) mkLT(s OpdSpec, rng *h.SplitMix) any {
	if e.rp.PCount() == 0 {
		return nil
	}
	arg := [3]int{0, s.Len, s.Val}
	level := clampLevel(e.maxLevel, s.Drop)
	diags, _ := ltShape(arg)
	slots := 1 << e.ltLogDims().Cols
	if e.bgvP != nil {
		pp := e.ltParams(arg, level, e.scale(s.Scale, rng))
		lt := bgvlt.NewLinearTransformation(*e.bgvP, bgvlt.Parameters(pp))
		d := bgvlt.Diagonals[uint64]{}
		for _, k := range diags {
			v := make([]uint64, 2*slots)
			for i := range v {
				v[i] = rng.Uint64() % e.t
			}
			d[k] = v
		}
		if err := bgvlt.Encode(bgv.NewEncoder(*e.bgvP), d, lt); err != nil {
			panic("harness: lintrans encode: " + err.Error())
		}
		return clt.LinearTransformation(lt)
	}
	pp := e.ltParams(arg, level, rlwe.NewScale(e.rp.Q()[level]))
	lt := ckkslt.NewTransformation(*e.ckksP, ckkslt.Parameters(pp))
	var err error
	if e.rp.RingType() == ring.ConjugateInvariant {
		d := ckkslt.Diagonals[float64]{}
		for _, k := range diags {
			v := make([]float64, slots)
			for i := range v {
				v[i] = rng.Float64()*2 - 1
			}
			d[k] = v
		}
		err = ckkslt.Encode(ckks.NewEncoder(*e.ckksP), d, lt)
	} else {
		d := ckkslt.Diagonals[complex128]{}
		for _, k := range diags {
			v := make([]complex128, slots)
			for i := range v {
				v[i] = complex(rng.Float64()*2-1, rng.Float64()*2-1)
			}
			d[k] = v
		}
		err = ckkslt.Encode(ckks.NewEncoder(*e.ckksP), d, lt)
	}
	if err != nil {
		panic("harness: lintrans encode: " + err.Error())
	}
	return clt.LinearTransformation(lt)
}

func snapLT(lt clt.LinearTransformation) string {
	var sb strings.Builder
	fmt.Fprintf(&sb, "lt:%s|%d|%d|%v|n1=%d|", metaString(lt.MetaData, true), lt.LevelQ, lt.LevelP, lt.LogBabyStepGiantStepRatio, lt.N1)
	keys := make([]int, 0, len(lt.Vec))
	for k := range lt.Vec {
		keys = append(keys, k)
	}
	sortInts(keys)
	for _, k := range keys {
		fmt.Fprintf(&sb, "%d:%x;", k, hashPolyQP(lt.Vec[k]))
	}
	return sb.String()
}

func sortInts(a []int) {
	for i := 1; i < len(a); i++ {
		for j := i; j > 0 && a[j] < a[j-1]; j-- {
			a[j], a[j-1] = a[j-1], a[j]
		}
	}
}

func (e *env) mkPoly(s OpdSpec, rng *h.SplitMix) any {
	deg := []int{1, 2, 3, 2, 3, 5, 7, 4}[s.Val%8]
	if e.bgvP != nil {
		c := make([]uint64, deg+1)
		for i := range c {
			c[i] = rng.Uint64() % e.t
		}
		c[deg] |= 1
		return bignum.NewPolynomial(bignum.Monomial, c, nil)
	}
	c := make([]float64, deg+1)
	for i := range c {
		c[i] = rng.Float64()*2 - 1
	}
	c[deg] = 0.5
	return bignum.NewPolynomial(bignum.Monomial, c, nil)
}

func snapBigPoly(p bignum.Polynomial) string {
	var sb strings.Builder
	fmt.Fprintf(&sb, "poly:%+v|", p.MetaData)
	for _, c := range p.Coeffs {
		fmt.Fprintf(&sb, "%p=%s;", c, complexString(c))
	}
	return sb.String()
}

func asLT(b any) (clt.LinearTransformation, error) {
	lt, ok := b.(clt.LinearTransformation)
	if !ok {
		return lt, fmt.Errorf("harness: linear transformations need an auxiliary modulus P")
	}
	return lt, nil
}

func natLT(e *env, a *rlwe.Ciphertext, b any, arg [3]int) (int, int) {
	if lt, ok := b.(clt.LinearTransformation); ok {
		return 1, minInt(a.Level(), lt.LevelQ)
	}
	return 1, a.Level()
}

func ltEval(w *world) clt.Evaluator {
	if w.bgv != nil {
		return clt.Evaluator{Evaluator: w.bgv}
	}
	return clt.Evaluator{Evaluator: w.ckks}
}

func init() {
	type W = world
	type CT = rlwe.Ciphertext
	for _, scheme := range []string{"bgv", "ckks"} {
		scheme := scheme
		register(
			&opDesc{name: "LinTransEvaluate", scheme: scheme, binary: true, kinds: []string{"lt"}, aDegs: []int{1}, natural: natLT, gal: galLT, impl: "lintrans.EvaluateMany",
				call: func(w *W, a *CT, b any, out *CT, arg [3]int) (*CT, error) {
					lt, err := asLT(b)
					if err != nil {
						return nil, err
					}
					return nil, ltEval(w).EvaluateMany(a, []clt.LinearTransformation{lt}, []*CT{out})
				}},
			&opDesc{name: "LinTransEvaluateSequential", scheme: scheme, binary: true, kinds: []string{"lt"}, aDegs: []int{1}, gal: galLT, impl: "lintrans.EvaluateMany",
				natural: natLT, // allocated like EvaluateSequentialNew (level of the transformation); the result ends two rescalings lower
				call: func(w *W, a *CT, b any, out *CT, arg [3]int) (*CT, error) {
					lt, err := asLT(b)
					if err != nil {
						return nil, err
					}
					return nil, ltEval(w).EvaluateSequential(a, []clt.LinearTransformation{lt, lt}, out)
				}},
			&opDesc{name: "PolyEvaluate", scheme: scheme, binary: true, kinds: []string{"poly"}, aDegs: []int{1}, isNew: true, impl: scheme + ".polynomial.Evaluate",
				call: func(w *W, a *CT, b any, out *CT, arg [3]int) (*CT, error) {
					if w.bgv != nil {
						return bgvpoly.NewEvaluator(*w.bgvP, w.bgv).Evaluate(a, b, a.Scale)
					}
					return ckkspoly.NewEvaluator(*w.ckksP, w.ckks).Evaluate(a, b, a.Scale)
				}},
		)
	}
}

var circuitTargets = []string{"LinTransEvaluate", "LinTransEvaluateSequential", "PolyEvaluate"}

// TestPropCircuits concentrates the budget on the linear-transformation and polynomial evaluators (they are also
// targets and history calls of TestPropBGV / TestPropCKKS).
var propCircuits = h.NewProp("TestPropCircuits", h.Budget{Quick: 2000, Thorough: 40000},
	func(t *rapid.T) EvalCase {
		if rapid.Bool().Draw(t, "isCKKS") {
			return genEvalCase(t, "ckks", circuitTargets...)
		}
		return genEvalCase(t, "bgv", circuitTargets...)
	}, runEval)

func TestPropCircuits(t *testing.T) { propCircuits.Check(t) }
