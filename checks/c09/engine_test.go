package c09

import (
	"fmt"
	"hash/fnv"
	"math"
	"math/big"
	"sort"
	"strings"

	"verif/internal/h"

	"github.com/tuneinsight/lattigo/v6/core/rlwe"
	"github.com/tuneinsight/lattigo/v6/ring"
	"github.com/tuneinsight/lattigo/v6/schemes/bgv"
	"github.com/tuneinsight/lattigo/v6/schemes/ckks"
	"github.com/tuneinsight/lattigo/v6/utils/bignum"
)

// ---------------------------------------------------------------------------------------------------------------------
// case data
// ---------------------------------------------------------------------------------------------------------------------

// CtSpec describes a ciphertext-like operand: degree, level (max level minus Drop) and a scale selector.
type CtSpec struct {
	Deg   int `json:"deg"`
	Drop  int `json:"drop"`
	Scale int `json:"scale"`
	// Dims > 0: sparsely packed operand, LogDimensions.Cols reduced by Dims (metadata only, drawn independently per operand)
	Dims int `json:"dims,omitempty"`
	// Unbatched: IsBatched = false (coefficient encoding)
	Unbatched bool `json:"unbatched,omitempty"`
}

// OpdSpec describes the second operand of a binary operation.
type OpdSpec struct {
	Kind string `json:"kind"` // "ct", "pt" or a scalar / vector kind of the scheme
	CtSpec
	Val int `json:"val"` // value selector for scalars
	Len int `json:"len"` // vector length selector (0: full)
	// Prec selects the precision of pointer-typed big-number operands (*big.Float, *bignum.Complex and slices of
	// them): 0 exactly the encoding precision of the parameters, 1 lower (24 bits), 2 higher (128 bits),
	// 3 real part at the encoding precision and an imaginary part of precision 0 (what new(big.Float) gives)
	Prec int `json:"prec,omitempty"`
}

// OutSpec describes the output object when it is not one of the operands.
type OutSpec struct {
	New bool `json:"new"` // freshly allocated at the natural shape of the result
	CtSpec
}

// HistOp is one earlier call made on the same evaluator (its operands are scratch objects derived from Seed).
type HistOp struct {
	Op   string `json:"op"`
	Kind string `json:"kind"`
	Arg  [3]int `json:"arg"`
	Seed uint64 `json:"seed"`
}

// EvalCase is one evaluation of an evaluator method under an aliasing pattern, an evaluator history and an output object.
type EvalCase struct {
	Scheme string      `json:"scheme"` // "bgv", "bfv", "ckks", "rlwe"
	RLWE   *h.RLWESpec `json:"rlwe,omitempty"`
	BGV    *h.BGVSpec  `json:"bgv,omitempty"`
	CKKS   *h.CKKSSpec `json:"ckks,omitempty"`
	Seed   uint64      `json:"seed"`
	Op     string      `json:"op"`
	A      CtSpec      `json:"a"`
	B      OpdSpec     `json:"b"`
	Alias  int         `json:"alias"` // index into aliasNames
	Out    OutSpec     `json:"out"`
	Arg    [3]int      `json:"arg"`
	Hist   []HistOp    `json:"hist"`
	Poison int         `json:"poison"` // 0 none, 1 all scratch buffers = q-1, 2 random
	// Twice: the same call with the SAME second operand object (other op0, other receiver) is made once before the
	// judged call: an operand that the first call modified changes the judged result
	Twice bool `json:"twice,omitempty"`
	// OutHist is the earlier life of the OUTPUT OBJECT: operations applied to it in place (they grow and shrink its
	// degree and level, leaving spare capacity behind) before it is handed to the operation under test.
	OutHist []string `json:"outHist,omitempty"`
}

func (c EvalCase) RandSeed() uint64 { return c.Seed }

// ---------------------------------------------------------------------------------------------------------------------
// environment (parameters + keys, shared by all executions of one case) and world (one evaluator)
// ---------------------------------------------------------------------------------------------------------------------

type env struct {
	scheme   string
	rp       *rlwe.Parameters
	bgvP     *bgv.Parameters
	ckksP    *ckks.Parameters
	maxLevel int
	t        uint64
	evk      *rlwe.MemEvaluationKeySet
	swk      *rlwe.EvaluationKey
}

type world struct {
	*env
	bgv  *bgv.Evaluator
	ckks *ckks.Evaluator
	rl   *rlwe.Evaluator
}

type opDesc struct {
	name     string
	scheme   string // "bgv" (also used by "bfv") or "ckks"
	binary   bool
	kinds    []string // accepted kinds of op1 (binary only); nil = all kinds of the scheme
	acc      bool     // the output is also an input (MulThenAdd family)
	isNew    bool     // the method allocates its output
	aDegs    []int    // degrees generated for op0
	noBFV    bool
	inPlaceA bool   // op0 is documented as modified in place: not asserted intact
	impl     string // name used in failure keys when several exported methods share one implementation (default scheme.name)
	// natural returns degree and level of the result as the corresponding New-method would allocate it
	natural func(e *env, a *rlwe.Ciphertext, b any, arg [3]int) (int, int)
	call    func(w *world, a *rlwe.Ciphertext, b any, out *rlwe.Ciphertext, arg [3]int) (*rlwe.Ciphertext, error)
	gal     func(e *env, arg [3]int) []uint64
}

var opTable = map[string]*opDesc{}
var opNames = map[string][]string{} // scheme -> sorted op names

func register(ops ...*opDesc) {
	for _, o := range ops {
		key := o.scheme + "." + o.name
		if _, dup := opTable[key]; dup {
			panic("duplicate op " + key)
		}
		opTable[key] = o
		opNames[o.scheme] = append(opNames[o.scheme], o.name)
		sort.Strings(opNames[o.scheme])
	}
}

func baseScheme(s string) string {
	if s == "bfv" {
		return "bgv"
	}
	return s
}

func lookupOp(scheme, name string) *opDesc { return opTable[baseScheme(scheme)+"."+name] }

func isElementKind(k string) bool { return k == "ct" || k == "pt" }

// kindClass groups operand kinds that take the same code path in lattigo (used in failure keys).
func kindClass(k string) string {
	switch k {
	case "uint64", "int64", "int", "float64", "complex128", "bigint", "bigfloat", "bigcomplex":
		return "scalar"
	case "vecU", "vecI", "vecF", "vecC":
		return "vector"
	}
	return k
}

// scalar / vector kinds per scheme
var (
	bgvKinds  = []string{"ct", "pt", "bigint", "uint64", "int64", "int", "vecU", "vecI"}
	ckksKinds = []string{"ct", "pt", "complex128", "float64", "int", "int64", "uint64", "bigint", "bigfloat", "bigcomplex", "vecC", "vecF", "vecBF", "vecBC"}
)

func kindsOf(scheme string) []string {
	if baseScheme(scheme) == "bgv" {
		return bgvKinds
	}
	return ckksKinds
}

// ---------------------------------------------------------------------------------------------------------------------
// operand construction (pure functions of the case)
// ---------------------------------------------------------------------------------------------------------------------

func (e *env) scale(sel int, rng *h.SplitMix) rlwe.Scale {
	if e.bgvP != nil {
		switch sel {
		case 0:
			return e.bgvP.DefaultScale()
		case 1:
			return e.bgvP.NewScale(uint64(2))
		case 2:
			return e.bgvP.NewScale(e.t - 1)
		default:
			return e.bgvP.NewScale(1 + rng.Uint64()%(e.t-1))
		}
	}
	if e.ckksP == nil {
		return rlwe.NewScale(1)
	}
	def := e.ckksP.DefaultScale()
	switch sel {
	case 0:
		return def
	case 1:
		return def.Mul(rlwe.NewScale(float64(1 << 7)))
	case 2:
		return def.Mul(rlwe.NewScale(3))
	default:
		return def.Div(rlwe.NewScale(float64(1 << 3)))
	}
}

func (e *env) newCt(deg, level int) *rlwe.Ciphertext {
	if e.bgvP != nil {
		return bgv.NewCiphertext(*e.bgvP, deg, level)
	}
	if e.ckksP != nil {
		return ckks.NewCiphertext(*e.ckksP, deg, level)
	}
	return rlwe.NewCiphertext(e.rp, deg, level)
}

// mkCt builds a ciphertext with uniformly random reduced coefficients.
func (e *env) mkCt(s CtSpec, rng *h.SplitMix) *rlwe.Ciphertext {
	level := clampLevel(e.maxLevel, s.Drop)
	ct := e.newCt(s.Deg, level)
	r := e.rp.RingQ().AtLevel(level)
	for i := range ct.Value {
		fillPoly(r, ct.Value[i], rng, 0)
	}
	ct.Scale = e.scale(s.Scale, rng)
	s.applyMeta(ct.MetaData)
	return ct
}

// applyMeta sets the independently drawn plaintext metadata of an operand.
func (s CtSpec) applyMeta(m *rlwe.MetaData) {
	if s.Dims > 0 {
		m.LogDimensions.Cols = maxInt(0, m.LogDimensions.Cols-s.Dims)
	}
	if s.Unbatched {
		m.IsBatched = false
	}
}

func (e *env) mkPt(s CtSpec, rng *h.SplitMix) *rlwe.Plaintext {
	level := clampLevel(e.maxLevel, s.Drop)
	var pt *rlwe.Plaintext
	if e.bgvP != nil {
		pt = bgv.NewPlaintext(*e.bgvP, level)
	} else if e.ckksP != nil {
		pt = ckks.NewPlaintext(*e.ckksP, level)
	} else {
		pt = rlwe.NewPlaintext(e.rp, level)
	}
	fillPoly(e.rp.RingQ().AtLevel(level), pt.Value, rng, 0)
	pt.Scale = e.scale(s.Scale, rng)
	s.applyMeta(pt.MetaData)
	return pt
}

func (e *env) intValue(sel int, rng *h.SplitMix) int64 {
	t := int64(e.t)
	if t == 0 {
		t = 1 << 20
	}
	switch sel {
	case 0:
		return 0
	case 1:
		return 1
	case 2:
		return -1
	case 3:
		return t / 2
	case 4:
		return t/2 + 1
	case 5:
		return t
	case 6:
		return -(t + 3)
	default:
		return int64(rng.Uint64() >> 2)
	}
}

func (e *env) floatValue(sel int, rng *h.SplitMix) float64 {
	switch sel {
	case 0:
		return 0
	case 1:
		return 1
	case 2:
		return -1
	case 3:
		return 0.5
	case 4:
		return -0.3125
	case 5:
		return 3
	case 6:
		return 1.0 / 3
	default:
		return rng.Float64()*2 - 1
	}
}

// bigPrec returns the precisions of the real and imaginary part for a precision selector.
func (e *env) bigPrec(sel int) (re, im uint) {
	enc := uint(53)
	if e.ckksP != nil {
		enc = e.ckksP.EncodingPrecision()
	}
	switch sel {
	case 1:
		return 24, 24
	case 2:
		return 128, 128
	case 3:
		return enc, 0
	}
	return enc, enc
}

func bigF(prec uint, v float64) *big.Float {
	if prec == 0 {
		return new(big.Float) // precision 0, value 0
	}
	return new(big.Float).SetPrec(prec).SetFloat64(v)
}

func (e *env) mkOperand(s OpdSpec, rng *h.SplitMix) any {
	pre, pim := e.bigPrec(s.Prec)
	n := e.rp.N()
	vlen := n
	if e.ckksP != nil {
		vlen = e.ckksP.MaxSlots()
	}
	if s.Len > 0 && s.Len < vlen {
		vlen = s.Len
	}
	switch s.Kind {
	case "lt":
		return e.mkLT(s, rng)
	case "poly":
		return e.mkPoly(s, rng)
	case "ct":
		return e.mkCt(s.CtSpec, rng)
	case "pt":
		return e.mkPt(s.CtSpec, rng)
	case "bigint":
		v := big.NewInt(e.intValue(s.Val, rng))
		if s.Val >= 7 {
			v.Lsh(v, 70)
			v.Add(v, big.NewInt(int64(rng.Uint64()>>1)))
			if rng.Uint64()&1 == 1 {
				v.Neg(v)
			}
		}
		return v
	case "uint64":
		v := e.intValue(s.Val, rng)
		if v < 0 {
			v = -v
		}
		return uint64(v)
	case "int64":
		return e.intValue(s.Val, rng)
	case "int":
		return int(e.intValue(s.Val, rng))
	case "vecU":
		v := make([]uint64, vlen)
		for i := range v {
			v[i] = rng.Uint64()
			if e.t != 0 && s.Val < 6 {
				v[i] %= e.t
			}
		}
		return v
	case "vecI":
		v := make([]int64, vlen)
		for i := range v {
			v[i] = int64(rng.Uint64()) >> 1
			if e.t != 0 && s.Val < 6 {
				v[i] %= int64(e.t)
			}
		}
		return v
	case "float64":
		return e.floatValue(s.Val, rng)
	case "complex128":
		return complex(e.floatValue(s.Val, rng), e.floatValue((s.Val+3)%8, rng))
	case "bigfloat":
		return bigF(pre, e.floatValue(s.Val, rng))
	case "bigcomplex":
		return &bignum.Complex{bigF(pre, e.floatValue(s.Val, rng)), bigF(pim, e.floatValue((s.Val+3)%8, rng))}
	case "vecF":
		v := make([]float64, vlen)
		for i := range v {
			v[i] = rng.Float64()*2 - 1
		}
		return v
	case "vecC":
		v := make([]complex128, vlen)
		for i := range v {
			v[i] = complex(rng.Float64()*2-1, rng.Float64()*2-1)
		}
		return v
	case "vecBF":
		v := make([]*big.Float, vlen)
		for i := range v {
			v[i] = bigF(pre, rng.Float64()*2-1)
		}
		return v
	case "vecBC":
		v := make([]*bignum.Complex, vlen)
		for i := range v {
			v[i] = &bignum.Complex{bigF(pre, rng.Float64()*2-1), bigF(pim, rng.Float64()*2-1)}
		}
		return v
	}
	panic("harness: unknown operand kind " + s.Kind)
}

func elementOf(b any) *rlwe.Element[ring.Poly] {
	switch b := b.(type) {
	case *rlwe.Ciphertext:
		return b.El()
	case *rlwe.Plaintext:
		return b.El()
	}
	return nil
}

// ---------------------------------------------------------------------------------------------------------------------
// environment construction
// ---------------------------------------------------------------------------------------------------------------------

func (c *EvalCase) buildEnv() (*env, error) {
	e := &env{scheme: c.Scheme}
	switch baseScheme(c.Scheme) {
	case "bgv":
		if c.BGV == nil {
			return nil, fmt.Errorf("missing bgv spec")
		}
		p, err := c.BGV.Build()
		if err != nil {
			return nil, err
		}
		e.bgvP = &p
		e.rp = p.GetRLWEParameters()
		e.t = p.PlaintextModulus()
	case "ckks":
		if c.CKKS == nil {
			return nil, fmt.Errorf("missing ckks spec")
		}
		p, err := c.CKKS.Build()
		if err != nil {
			return nil, err
		}
		e.ckksP = &p
		e.rp = p.GetRLWEParameters()
	case "rlwe":
		if c.RLWE == nil {
			return nil, fmt.Errorf("missing rlwe spec")
		}
		p, err := c.RLWE.Build()
		if err != nil {
			return nil, err
		}
		e.rp = &p
	default:
		return nil, fmt.Errorf("unknown scheme %q", c.Scheme)
	}
	e.maxLevel = e.rp.MaxLevel()

	// keys: a function of the case seed (crypto/rand is the keyed XOF installed by the harness)
	h.SeedRand(c.Seed ^ 0x6b657973)
	kgen := rlwe.NewKeyGenerator(e.rp)
	sk := kgen.GenSecretKeyNew()
	sk2 := kgen.GenSecretKeyNew()
	rlk := kgen.GenRelinearizationKeyNew(sk)
	galSet := map[uint64]bool{}
	add := func(name string, arg [3]int) {
		if o := lookupOp(c.Scheme, name); o != nil && o.gal != nil {
			for _, g := range o.gal(e, arg) {
				if g != 1 {
					galSet[g] = true
				}
			}
		}
	}
	add(c.Op, c.Arg)
	for _, hop := range c.Hist {
		add(hop.Op, hop.Arg)
	}
	gals := make([]uint64, 0, len(galSet))
	for g := range galSet {
		gals = append(gals, g)
	}
	sort.Slice(gals, func(i, j int) bool { return gals[i] < gals[j] })
	e.evk = rlwe.NewMemEvaluationKeySet(rlk, kgen.GenGaloisKeysNew(gals, sk)...)
	e.swk = kgen.GenEvaluationKeyNew(sk, sk2)
	return e, nil
}

func (e *env) newWorld(bfv bool) *world {
	w := &world{env: e}
	if e.bgvP != nil {
		w.bgv = bgv.NewEvaluator(*e.bgvP, e.evk, bfv)
		w.rl = w.bgv.Evaluator
	} else if e.ckksP != nil {
		w.ckks = ckks.NewEvaluator(*e.ckksP, e.evk)
		w.rl = w.ckks.Evaluator
	} else {
		w.rl = rlwe.NewEvaluator(e.rp, e.evk)
	}
	return w
}

func (w *world) poison(rng *h.SplitMix, pattern int) {
	poisonRLWE(w.rl, rng, pattern)
	r := w.rp.RingQ()
	if w.bgv != nil {
		for _, p := range w.bgv.BuffQ() {
			fillPoly(r, p, rng, pattern)
		}
	}
	if w.ckks != nil {
		for _, p := range w.ckks.BuffQ() {
			fillPoly(r, p, rng, pattern)
		}
	}
}

// ---------------------------------------------------------------------------------------------------------------------
// one execution
// ---------------------------------------------------------------------------------------------------------------------

type outcome struct {
	err     error
	pan     string
	out     elSnap
	mutated []string
	detail  string
	natDeg  int
	natLvl  int
	outDeg  int // shape of the output object before the call
	outLvl  int
	histPan int
	scaleNE bool // op0 and op1 are elements with different scales
}

// effectiveAlias maps the drawn alias pattern to one the operation can express.
func (c *EvalCase) effectiveAlias(o *opDesc) int {
	al := c.Alias
	if !o.binary {
		if al != 0 {
			al = 1
		}
	} else if !isElementKind(c.B.Kind) || c.B.Kind == "pt" {
		// op1 is not a ciphertext: only out==op0 is expressible
		if al != 0 {
			al = 1
		}
	}
	if o.isNew {
		if al == 3 || al == 4 {
			al = 3
		} else {
			al = 0
		}
	}
	return al
}

func (c *EvalCase) dirtyOut(o *opDesc, al int) bool {
	if o.isNew || (al != 0 && al != 3) {
		return false
	}
	if o.acc {
		// the accumulator is an input; it counts as "used before" when it was shaped by in-place operations
		return len(c.OutHist) > 0
	}
	return !c.Out.New
}

// outSteps are the in-place operations of an output object's earlier life.
var outSteps = []string{"Mul2", "Relin", "MulRelinInto", "DropLevel", "Rescale", "AddDeg2", "MulScalar"}

// applyOutHist applies the earlier life of the output object in place, with an evaluator of its own.
func (c *EvalCase) applyOutHist(e *env, out *rlwe.Ciphertext) {
	if len(c.OutHist) == 0 || baseScheme(c.Scheme) == "rlwe" {
		return
	}
	hw := e.newWorld(c.Scheme == "bfv")
	rng := h.NewSplitMix(c.Seed ^ 0x6f686973)
	call := func(name string, a *rlwe.Ciphertext, b any) {
		if o := lookupOp(c.Scheme, name); o != nil {
			_, _ = protect(func() error { _, err := o.call(hw, a, b, out, [3]int{}); return err })
		}
	}
	for _, step := range c.OutHist {
		drop := e.maxLevel - out.Level()
		x := e.mkCt(CtSpec{Deg: 1, Drop: drop}, rng)
		y := e.mkCt(CtSpec{Deg: 1, Drop: drop}, rng)
		switch step {
		case "Mul2": // degree 2
			call("Mul", x, y)
		case "MulRelinInto": // degree 1 (shrinks a degree-2 object in place)
			call("MulRelin", x, y)
		case "Relin": // degree 2 -> 1 in place
			call("Relinearize", out, nil)
		case "AddDeg2": // degree -> 2
			call("Add", out, e.mkCt(CtSpec{Deg: 2, Drop: drop}, rng))
		case "MulScalar":
			call("Mul", out, 3)
		case "Rescale": // level - 1 in place
			call("Rescale", out, nil)
		case "DropLevel": // what Evaluator.DropLevel does
			if out.Level() > 0 {
				out.Resize(out.Degree(), out.Level()-1)
			}
		}
	}
}

// run executes the case once. aliasOn: use the aliasing pattern of the case (else all objects distinct);
// histOn: replay the evaluator history and poison its buffers first (else brand-new evaluator);
// dirtyOn: use the reused output object of the case (else a freshly allocated one).
func (c *EvalCase) run(e *env, o *opDesc, aliasOn, histOn, dirtyOn bool) (res outcome) {
	w := e.newWorld(c.Scheme == "bfv")

	if histOn {
		for _, hop := range c.Hist {
			ho := lookupOp(c.Scheme, hop.Op)
			if ho == nil {
				continue
			}
			rng := h.NewSplitMix(hop.Seed)
			a := e.mkCt(CtSpec{Deg: ho.aDegs[0]}, rng)
			var b any
			if ho.binary {
				hs := OpdSpec{Kind: hop.Kind, CtSpec: CtSpec{Deg: 1}, Val: 7}
				if hop.Kind == "lt" {
					hs.Val, hs.Len = hop.Arg[2], hop.Arg[1]
				}
				b = e.mkOperand(hs, rng)
			}
			var out *rlwe.Ciphertext
			if ho.acc {
				out = e.mkCt(CtSpec{Deg: 2}, rng)
			} else if !ho.isNew {
				d, l := ho.natural(e, a, b, hop.Arg)
				if l < 0 {
					continue
				}
				out = e.newCt(d, l)
			}
			_, pan := protect(func() error { _, err := ho.call(w, a, b, out, hop.Arg); return err })
			if pan != "" {
				res.histPan++
			}
		}
		if c.Poison != 0 {
			w.poison(h.NewSplitMix(c.Seed^0x706f69736f6e), c.Poison)
		}
	}

	al := c.effectiveAlias(o)
	rngA := h.NewSplitMix(c.Seed ^ 0xa0a0a0a0)
	rngB := h.NewSplitMix(c.Seed ^ 0xb1b1b1b1)
	rngO := h.NewSplitMix(c.Seed ^ 0x0c0c0c0c)

	a := e.mkCt(c.A, rngA)
	var b any
	if o.binary {
		if al == 3 || al == 4 {
			if aliasOn {
				b = a
			} else {
				b = e.mkCt(c.A, h.NewSplitMix(c.Seed^0xa0a0a0a0)) // equal content, distinct object
			}
		} else {
			b = e.mkOperand(c.B, rngB)
		}
	}

	if el := elementOf(b); el != nil && el.MetaData != nil {
		res.scaleNE = a.Scale.Cmp(el.Scale) != 0
	}

	res.natDeg, res.natLvl = -1, -1
	if o.natural != nil {
		res.natDeg, res.natLvl = o.natural(e, a, b, c.Arg)
	}

	var out *rlwe.Ciphertext
	switch {
	case o.isNew:
		out = nil
	case aliasOn && (al == 1 || al == 4):
		out = a
	case aliasOn && al == 2:
		out = b.(*rlwe.Ciphertext)
	case o.acc:
		// the accumulator is an input: same content in every execution; when the case aliases it with an operand the
		// un-aliased execution uses a distinct object of equal content
		switch al {
		case 1, 4:
			out = e.mkCt(c.A, h.NewSplitMix(c.Seed^0xa0a0a0a0))
		case 2:
			out = e.mkOperand(c.B, h.NewSplitMix(c.Seed^0xb1b1b1b1)).(*rlwe.Ciphertext)
		default:
			out = e.mkCt(c.Out.CtSpec, rngO)
			if len(c.OutHist) > 0 {
				c.applyOutHist(e, out)
				if !dirtyOn {
					// same value in a fresh object (no spare capacity, no earlier life)
					out = out.CopyNew()
				}
			}
		}
	default:
		lvl := res.natLvl
		if lvl < 0 {
			lvl = 0
		}
		deg := res.natDeg
		if c.dirtyOut(o, al) {
			s := c.Out.CtSpec
			s.Deg = maxInt(deg, s.Deg)
			used := e.mkCt(s, rngO)
			c.applyOutHist(e, used)
			if dirtyOn {
				out = used
			} else {
				out = e.newCt(deg, minInt(lvl, used.Level()))
			}
		} else {
			out = e.newCt(deg, lvl)
		}
	}
	if out != nil {
		res.outDeg, res.outLvl = out.Degree(), out.Level()
	}

	// snapshots of everything that is not the output
	type watched struct {
		name string
		v    any
		pre  string
	}
	var ws []watched
	if out != a && !o.inPlaceA {
		ws = append(ws, watched{name: "op0", v: a})
	}
	if o.binary {
		if bc, ok := b.(*rlwe.Ciphertext); !ok || (bc != out && bc != a) {
			ws = append(ws, watched{name: "op1", v: b})
		}
	}
	for i := range ws {
		ws[i].pre = snapAny(ws[i].v)
	}
	preParams := paramFP(e.rp)
	preEvk := hashEvk(e.evk)
	preSwk := hashGadget(&e.swk.GadgetCiphertext)

	// an earlier identical call with the SAME second operand object (other op0 and receiver of equal content); the
	// snapshots above were taken before it, so a modification by either call is reported
	if histOn && c.Twice && o.binary && al == 0 {
		a2 := e.mkCt(c.A, h.NewSplitMix(c.Seed^0xa0a0a0a0))
		var out2 *rlwe.Ciphertext
		if o.acc {
			out2 = e.mkCt(c.Out.CtSpec, h.NewSplitMix(c.Seed^0x0c0c0c0c))
		} else if !o.isNew && res.natDeg >= 0 && res.natLvl >= 0 {
			out2 = e.newCt(res.natDeg, res.natLvl)
		}
		if o.isNew || out2 != nil {
			_, _ = protect(func() error { _, err := o.call(w, a2, b, out2, c.Arg); return err })
		}
	}

	var ret *rlwe.Ciphertext
	res.err, res.pan = protect(func() error {
		var err error
		ret, err = o.call(w, a, b, out, c.Arg)
		return err
	})

	for i := range ws {
		if post := snapAny(ws[i].v); post != ws[i].pre {
			res.mutated = append(res.mutated, ws[i].name)
			if res.detail == "" {
				res.detail = fmt.Sprintf("%s before: %s after: %s", ws[i].name, trunc(ws[i].pre, 300), trunc(post, 300))
			}
		}
	}
	if hashEvk(e.evk) != preEvk {
		res.mutated = append(res.mutated, "evk")
	}
	if paramFP(e.rp) != preParams {
		res.mutated = append(res.mutated, "parameter-tables")
	}
	if hashGadget(&e.swk.GadgetCiphertext) != preSwk {
		res.mutated = append(res.mutated, "swk")
	}

	if res.pan == "" && res.err == nil {
		if o.isNew {
			out = ret
		}
		if out == nil {
			res.out = elSnap{Nil: true}
		} else {
			res.out = snapEl(out.El(), false)
		}
	}
	return
}

func trunc(s string, n int) string {
	if len(s) > n {
		return s[:n] + "..."
	}
	return s
}

// ---------------------------------------------------------------------------------------------------------------------
// the oracle
// ---------------------------------------------------------------------------------------------------------------------

func scaleRel(ne bool) string {
	if ne {
		return "scale-ne"
	}
	return "scale-eq"
}

func runEval(c EvalCase, rec *h.Rec) error {
	o := lookupOp(c.Scheme, c.Op)
	if o == nil {
		return fmt.Errorf("harness: unknown op %s.%s", c.Scheme, c.Op)
	}
	e, err := c.buildEnv()
	if err != nil {
		rec.Class("params-rejected")
		return nil
	}
	al := c.effectiveAlias(o)
	kind := "-"
	if o.binary {
		kind = c.B.Kind
		if al == 3 || al == 4 {
			kind = "ct"
		}
	}
	dirty := c.dirtyOut(o, al)
	hist := len(c.Hist) > 0 || c.Poison != 0
	opName := c.Scheme + "." + c.Op
	// keyOp names the implementation the call ends up in: one root cause = one key, whatever wrapper reached it
	keyOp := opName
	if o.impl != "" {
		keyOp = o.impl
	} else if o.isNew {
		keyOp = strings.TrimSuffix(opName, "New")
	}
	if strings.HasSuffix(keyOp, ".MulRelinThenAdd") && kind != "ct" {
		keyOp = strings.TrimSuffix(keyOp, "MulRelinThenAdd") + "MulThenAdd" // MulRelinThenAdd forwards every non-ciphertext operand
	}
	prefix := "C09:" + keyOp + ":" + kindClass(kind)

	rec.Class("scheme=" + c.Scheme)
	rec.Class("op=" + opName)
	rec.Class("alias=" + aliasNames[al])
	rec.Class("kind=" + kind)
	rec.Classf("hist=%d", len(c.Hist))
	rec.Classf("poison=%d", c.Poison)
	rec.Classf("outhist=%d", len(c.OutHist))
	rec.Classf("twice=%v", c.Twice)
	if strings.HasPrefix(kind, "big") || kind == "vecBF" || kind == "vecBC" {
		rec.Classf("bigprec=%d", c.B.Prec)
	}
	if o.binary && isElementKind(kind) {
		rec.Classf("dims: op0 %d op1 %d", c.A.Dims, c.B.Dims)
	}
	if c.A.Unbatched || c.B.Unbatched {
		rec.Classf("unbatched: op0 %v op1 %v", c.A.Unbatched, c.B.Unbatched)
	}
	if dirty {
		rec.Class("out=reused")
	} else if al == 0 || al == 3 {
		rec.Class("out=new")
	}

	A := c.run(e, o, true, true, true)
	B := c.run(e, o, false, false, false)
	if A.histPan > 0 {
		rec.Class("history-op-panicked")
	}

	// (a) inputs intact -------------------------------------------------------------------------------------------
	if len(B.mutated) > 0 {
		key := "C09:" + keyOp + ":" + kind + ":input-mutated:" + strings.Join(B.mutated, "+")
		msg := fmt.Sprintf("%s with distinct operands, brand-new evaluator and fresh output changed %v: %s", opName, B.mutated, B.detail)
		if !rec.Known(key, msg) {
			return h.Failf(key, "%s", msg)
		}
		rec.Class("known=" + key)
		return nil
	}
	if len(A.mutated) > 0 {
		cause := "state"
		if al != 0 {
			if C := c.run(e, o, true, false, false); len(C.mutated) > 0 {
				cause = aliasNames[al]
			}
		}
		key := "C09:" + keyOp + ":" + kind + ":" + cause + ":input-mutated:" + strings.Join(A.mutated, "+")
		msg := fmt.Sprintf("%s (alias %s, history %d, poison %d, reused out %v) changed %v: %s", opName, aliasNames[al], len(c.Hist), c.Poison, dirty, A.mutated, A.detail)
		if !rec.Known(key, msg) {
			return h.Failf(key, "%s", msg)
		}
		rec.Class("known=" + key)
		return nil
	}

	// documented rejection: MulThenAdd family with the accumulator equal to an element operand must fail
	if o.acc && isElementKind(kind) && (al == 1 || al == 2 || al == 4) {
		if A.err == nil && A.pan == "" {
			key := prefix + ":" + aliasNames[al] + ":documented-rejection-missing"
			return h.Failf(key, "%s accepted an output equal to an operand although its documentation says it returns an error", opName)
		}
	}

	// (b)+(c) result equals the un-aliased, history-free execution --------------------------------------------------
	if B.pan != "" {
		rec.Class("result=reference-panicked")
		rec.Class("reference-panicked:" + opName + ":" + kindClass(kind) + ":" + trunc(B.pan, 60))
		rec.Note("reference-panic", B.pan)
		return nil
	}
	if B.err != nil {
		rec.Class("result=reference-rejected")
		rec.Class("reference-rejected:" + opName + ":" + trunc(B.err.Error(), 70))
		return nil
	}
	if A.err != nil {
		rec.Class("result=rejected-with-error")
		return nil
	}

	// A reused output of larger degree than the result may keep its degree when the additional terms are zero: the
	// ciphertext is the same ring element vector padded with zeros (what matchScaleThenEvaluateInPlace does on purpose).
	padded := false
	stripZeroTail := func(x elSnap) elSnap {
		if !dirty || x.Nil || B.out.Nil || len(x.Coeffs) <= len(B.out.Coeffs) {
			return x
		}
		for _, poly := range x.Coeffs[len(B.out.Coeffs):] {
			for _, limb := range poly {
				for _, v := range limb {
					if v != 0 {
						return x
					}
				}
			}
		}
		padded = true
		x.Coeffs = x.Coeffs[:len(B.out.Coeffs)]
		return x
	}
	d := ""
	if A.pan != "" {
		d = "panic: " + A.pan
	} else {
		d = diffEl(stripZeroTail(A.out), B.out)
	}
	if d != "" {
		differs := func(x outcome) string {
			if x.pan != "" {
				return "panic: " + x.pan
			}
			if x.err != nil {
				return "" // rejected: not a wrong result
			}
			return diffEl(stripZeroTail(x.out), B.out)
		}
		cause, sym := "", ""
		if al != 0 {
			if dd := differs(c.run(e, o, true, false, false)); dd != "" {
				cause = aliasNames[al]
				if o.binary && isElementKind(kind) {
					cause += ":" + scaleRel(B.scaleNE)
				}
				d = dd
			}
		}
		if cause == "" && hist {
			if dd := differs(c.run(e, o, false, true, false)); dd != "" {
				cause = "evaluator-state"
				d = dd
			}
		}
		if cause == "" && dirty {
			if dd := differs(c.run(e, o, false, false, true)); dd != "" {
				switch {
				case len(c.OutHist) > 0 && (o.acc || A.outDeg <= A.natDeg):
					cause = "reused-out:in-place-history"
				case A.outDeg > A.natDeg:
					cause = "reused-out:larger-degree"
				case A.outLvl > A.natLvl:
					cause = "reused-out:larger-level"
				default:
					cause = "reused-out:same-shape"
				}
				d = dd
			}
		}
		if cause == "" {
			cause = "combination"
		}
		if strings.HasPrefix(d, "panic") {
			sym = "panic"
		} else {
			sym = "wrong-" + diffKind(d)
		}
		key := prefix + ":" + cause + ":" + sym
		if sym == "wrong-metadata" {
			// only the metadata (scale, flags) of the result differ: group by what the metadata depends on
			switch {
			case strings.HasPrefix(cause, "out==op0"), strings.HasPrefix(cause, "reused-out"):
				key = prefix + ":result-metadata-depends-on-output-object"
			default:
				key = prefix + ":result-metadata:" + cause
			}
		}
		msg := fmt.Sprintf("%s: result with alias=%s, history=%d ops, poison=%d, reused out=%v (degree %d level %d; natural degree %d level %d) differs from the result with distinct operands, a brand-new evaluator and a fresh output: %s",
			opName, aliasNames[al], len(c.Hist), c.Poison, dirty, A.outDeg, A.outLvl, A.natDeg, A.natLvl, d)
		if !rec.Known(key, msg) {
			return h.Failf(key, "%s", msg)
		}
		rec.Class("known=" + key)
		return nil
	}

	rec.Class("result=identical")
	if padded {
		rec.Class("result=identical-up-to-zero-terms-of-a-larger-reused-output")
	}
	if al != 0 || hist || dirty || (o.binary && kind != "ct") {
		lv := "lvl-eq"
		if o.binary && isElementKind(kind) && c.A.Drop != c.B.Drop {
			lv = "lvl-ne"
		}
		sr := ""
		if o.binary && isElementKind(kind) {
			sr = scaleRel(B.scaleNE)
		}
		if o.binary && isElementKind(kind) && al != 3 && al != 4 {
			switch {
			case c.A.Dims < c.B.Dims:
				sr += "|dims:op0>op1"
			case c.A.Dims > c.B.Dims:
				sr += "|dims:op0<op1"
			}
		}
		if c.A.Unbatched {
			sr += "|unbatched"
		}
		if strings.HasPrefix(kind, "big") || kind == "vecBF" || kind == "vecBC" {
			sr += fmt.Sprintf("|prec%d", c.B.Prec)
		}
		if c.Twice {
			sr += "|twice"
		}
		oh := ""
		if dirty {
			oh = strings.Join(c.OutHist, ">")
		}
		rec.NonTrivial(fmt.Sprintf("%s|%s|%s|hist=%v|poison=%d|dirty=%v|%s|%s|degA=%d|outhist=%s", opName, kind, aliasNames[al], len(c.Hist) > 0, c.Poison, dirty, sr, lv, c.A.Deg, oh))
	}
	return nil
}

var _ = math.Abs

// paramFP fingerprints the tables of a parameter object that every evaluator shares (moduli, reduction constants,
// NTT roots): an operation must not write to them.
func paramFP(p *rlwe.Parameters) uint64 {
	hh := fnv.New64a()
	for _, r := range []*ring.Ring{p.RingQ(), p.RingP()} {
		if r == nil {
			continue
		}
		for _, s := range r.SubRings {
			hashU64(hh, s.Modulus)
			hashU64(hh, s.MRedConstant)
			for _, v := range s.BRedConstant {
				hashU64(hh, v)
			}
			hashU64(hh, s.NInv)
			for _, v := range s.RootsForward {
				hashU64(hh, v)
			}
			for _, v := range s.RootsBackward {
				hashU64(hh, v)
			}
		}
	}
	return hh.Sum64()
}
