package c09

import (
	"fmt"
	"strings"
	"testing"

	"verif/internal/h"

	"github.com/tuneinsight/lattigo/v6/ring"
	"pgregory.net/rapid"
)

// RingCase is one call of a ring-level rescaling entry point (ring/scaling.go).
type RingCase struct {
	LogN   int      `json:"logN"`
	Q      []uint64 `json:"Q"`
	Level  int      `json:"level"`
	Op     string   `json:"op"`
	Nb     int      `json:"nb"`     // number of rescales for the Many variants
	Alias  bool     `json:"alias"`  // output polynomial == input polynomial
	OutTop bool     `json:"outTop"` // output allocated at the input level (else nb levels lower); both are documented as accepted
	Poison int      `json:"poison"` // content of the scratch polynomial: 0 zero, 1 q-1, 2 random
	Seed   uint64   `json:"seed"`
}

func (c RingCase) RandSeed() uint64 { return c.Seed }

type ringOp struct {
	many, buff bool
	call       func(r *ring.Ring, nb int, p0, buff, p1 ring.Poly)
}

var ringOps = map[string]ringOp{
	"DivFloorByLastModulus":        {false, false, func(r *ring.Ring, nb int, p0, b, p1 ring.Poly) { r.DivFloorByLastModulus(p0, p1) }},
	"DivFloorByLastModulusNTT":     {false, true, func(r *ring.Ring, nb int, p0, b, p1 ring.Poly) { r.DivFloorByLastModulusNTT(p0, b, p1) }},
	"DivFloorByLastModulusMany":    {true, true, func(r *ring.Ring, nb int, p0, b, p1 ring.Poly) { r.DivFloorByLastModulusMany(nb, p0, b, p1) }},
	"DivFloorByLastModulusManyNTT": {true, true, func(r *ring.Ring, nb int, p0, b, p1 ring.Poly) { r.DivFloorByLastModulusManyNTT(nb, p0, b, p1) }},
	"DivRoundByLastModulus":        {false, false, func(r *ring.Ring, nb int, p0, b, p1 ring.Poly) { r.DivRoundByLastModulus(p0, p1) }},
	"DivRoundByLastModulusNTT":     {false, true, func(r *ring.Ring, nb int, p0, b, p1 ring.Poly) { r.DivRoundByLastModulusNTT(p0, b, p1) }},
	"DivRoundByLastModulusMany":    {true, true, func(r *ring.Ring, nb int, p0, b, p1 ring.Poly) { r.DivRoundByLastModulusMany(nb, p0, b, p1) }},
	"DivRoundByLastModulusManyNTT": {true, true, func(r *ring.Ring, nb int, p0, b, p1 ring.Poly) { r.DivRoundByLastModulusManyNTT(nb, p0, b, p1) }},
}

var ringOpNames = []string{"DivFloorByLastModulus", "DivFloorByLastModulusMany", "DivFloorByLastModulusManyNTT", "DivFloorByLastModulusNTT",
	"DivRoundByLastModulus", "DivRoundByLastModulusMany", "DivRoundByLastModulusManyNTT", "DivRoundByLastModulusNTT"}

func genRingCase(t *rapid.T) RingCase {
	var c RingCase
	c.LogN = rapid.IntRange(4, 6).Draw(t, "logN")
	sh := chainShapes[rapid.IntRange(1, len(chainShapes)-1).Draw(t, "chainShape")]
	var err error
	if c.Q, err = h.DistinctPrimes(sh.q, uint64(2)<<c.LogN, func(i, avail int) int { return 0 }, nil); err != nil {
		t.Fatalf("primes: %v", err)
	}
	c.Level = rapid.IntRange(1, len(c.Q)-1).Draw(t, "level")
	c.Op = ringOpNames[rapid.IntRange(0, len(ringOpNames)-1).Draw(t, "op")]
	c.Nb = 1
	if ringOps[c.Op].many {
		c.Nb = rapid.IntRange(1, c.Level).Draw(t, "nb")
	}
	c.Alias = rapid.Bool().Draw(t, "alias")
	c.OutTop = rapid.Bool().Draw(t, "outTop")
	c.Poison = rapid.IntRange(0, 2).Draw(t, "poison")
	c.Seed = rapid.Uint64().Draw(t, "seed")
	return c
}

func runRing(c RingCase, rec *h.Rec) error {
	op, ok := ringOps[c.Op]
	if !ok {
		return fmt.Errorf("harness: unknown ring op %s", c.Op)
	}
	full, err := (RingSpecLite{LogN: c.LogN, Q: c.Q}).build()
	if err != nil {
		rec.Class("ring-rejected")
		return nil
	}
	r := full.AtLevel(c.Level)
	rec.Class("op=ring." + c.Op)
	rec.Classf("alias=%v", c.Alias)
	rec.Classf("poison=%d", c.Poison)

	mk := func() ring.Poly {
		p := r.NewPoly()
		fillPoly(r, p, h.NewSplitMix(c.Seed), 0)
		return p
	}
	outLvl := c.Level - c.Nb
	exec := func(alias bool, poison int, top bool) (in, out ring.Poly, pan string) {
		in = mk()
		buff := r.NewPoly()
		if poison != 0 {
			pat := 0 // random
			if poison == 1 {
				pat = 1 // q-1 everywhere
			}
			fillPoly(r, buff, h.NewSplitMix(c.Seed^0x99), pat)
		}
		if alias {
			out = in
		} else if top {
			out = r.NewPoly()
		} else {
			out = full.AtLevel(outLvl).NewPoly()
		}
		_, pan = protect(func() error { op.call(r, c.Nb, in, buff, out); return nil })
		return
	}

	// the Many variants loop over the single-step routine: same key
	prefix := "C09:ring." + strings.Replace(c.Op, "ByLastModulusMany", "ByLastModulus", 1)
	orig := snapPoly(mk())
	// reference: distinct output one allocated nb levels lower, zeroed scratch polynomial
	refIn, refOut, pan := exec(false, 0, false)
	if pan != "" {
		rec.Class("result=reference-panicked")
		return nil
	}
	// the coefficient-domain DivRound variants document p0 as scratch space (in-place argument): exempt from (a)
	docScratch := c.Op == "DivRoundByLastModulus" || (c.Op == "DivRoundByLastModulusMany" && c.Nb > 0)
	if docScratch {
		rec.Class("p0=documented-scratch")
	}
	if d := diffPolyPrefix(snapPoly(refIn), orig, c.Level+1); d != "" && !docScratch {
		key := prefix + ":input-mutated:p0"
		msg := fmt.Sprintf("ring.%s(p0, p1) with distinct polynomials overwrote its input p0: %s", c.Op, d)
		if !rec.Known(key, msg) {
			return h.Failf(key, "%s", msg)
		}
		rec.Class("known=" + key)
		return nil
	}
	in, out, pan := exec(c.Alias, c.Poison, c.OutTop)
	cause := "scratch-content"
	if c.Alias {
		cause = "p1==p0"
	} else if c.OutTop && c.Poison == 0 {
		cause = "output-at-input-level"
	}
	if pan != "" {
		key := prefix + ":" + cause + ":panic"
		if !rec.Known(key, pan) {
			return h.Failf(key, "ring.%s panicked: %s", c.Op, pan)
		}
		rec.Class("known=" + key)
		return nil
	}
	if !c.Alias && !docScratch {
		if d := diffPolyPrefix(snapPoly(in), orig, c.Level+1); d != "" {
			key := prefix + ":" + cause + ":input-mutated:p0"
			msg := fmt.Sprintf("ring.%s overwrote its input p0: %s", c.Op, d)
			if !rec.Known(key, msg) {
				return h.Failf(key, "%s", msg)
			}
			rec.Class("known=" + key)
			return nil
		}
	}
	// the first outLvl+1 limbs hold the result
	if d := diffPolyPrefix(snapPoly(out), snapPoly(refOut), outLvl+1); d != "" {
		key := prefix + ":" + cause + ":wrong-value"
		msg := fmt.Sprintf("ring.%s (nb=%d, level %d, alias=%v, output at input level=%v, scratch pattern %d) differs from the call with a distinct, lower-level output and zeroed scratch: %s", c.Op, c.Nb, c.Level, c.Alias, c.OutTop, c.Poison, d)
		if !rec.Known(key, msg) {
			return h.Failf(key, "%s", msg)
		}
		rec.Class("known=" + key)
		return nil
	}
	rec.Class("result=identical")
	if c.Alias || c.Poison != 0 || c.OutTop {
		rec.NonTrivial(fmt.Sprintf("ring.%s|alias=%v|top=%v|poison=%d|nb>1=%v|lvl=%d", c.Op, c.Alias, c.OutTop, c.Poison, c.Nb > 1, c.Level))
	}
	return nil
}

func diffPolyPrefix(a, b [][]uint64, limbs int) string {
	for i := 0; i < limbs; i++ {
		if i >= len(a) || i >= len(b) {
			return fmt.Sprintf("limb %d missing", i)
		}
		for j := range a[i] {
			if a[i][j] != b[i][j] {
				return fmt.Sprintf("limb %d coeff %d: %d vs %d", i, j, a[i][j], b[i][j])
			}
		}
	}
	return ""
}

// RingSpecLite builds (and caches through the rlwe parameter cache of the harness) a ring.
type RingSpecLite struct {
	LogN int
	Q    []uint64
}

func (s RingSpecLite) build() (*ring.Ring, error) {
	p, err := (h.RLWESpec{LogN: s.LogN, Q: s.Q, Xs: h.DefaultXs, Xe: h.DefaultXe, NTT: true}).Build()
	if err != nil {
		return nil, err
	}
	return p.RingQ(), nil
}

var propRing = h.NewProp("TestPropRingRescale", h.Budget{Quick: 3000, Thorough: 60000}, genRingCase, runRing)

func TestPropRingRescale(t *testing.T) { propRing.Check(t) }
