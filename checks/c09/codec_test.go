package c09

import (
	"fmt"
	"math/big"
	"testing"

	"verif/internal/h"

	"github.com/tuneinsight/lattigo/v6/core/rlwe"
	"github.com/tuneinsight/lattigo/v6/ring"
	"github.com/tuneinsight/lattigo/v6/schemes/bgv"
	"github.com/tuneinsight/lattigo/v6/schemes/ckks"
	"github.com/tuneinsight/lattigo/v6/utils/bignum"
	"pgregory.net/rapid"
)

// CodecCase is one call of an encoder, encryptor, decryptor or key-generator method.
type CodecCase struct {
	Scheme string      `json:"scheme"` // "bgv", "ckks" (encoders) or "rlwe" (encryptor, decryptor, key generator)
	RLWE   *h.RLWESpec `json:"rlwe,omitempty"`
	BGV    *h.BGVSpec  `json:"bgv,omitempty"`
	CKKS   *h.CKKSSpec `json:"ckks,omitempty"`
	Seed   uint64      `json:"seed"`
	Op     string      `json:"op"`
	Kind   string      `json:"kind"` // kind of the value slice (encoders)
	Len    int         `json:"len"`
	In     CtSpec      `json:"in"`    // level / scale (/ degree) of the input plaintext or ciphertext
	Reuse  bool        `json:"reuse"` // the output object was used before (random content, own degree / level)
	Out    CtSpec      `json:"out"`
	Hist   int         `json:"hist"` // number of earlier calls on the same encoder / encryptor / decryptor
	PK     bool        `json:"pk"`   // encrypt with the public key
}

func (c CodecCase) RandSeed() uint64 { return c.Seed }

var codecOps = map[string][]string{
	"bgv":  {"Encode", "Decode", "Embed"},
	"ckks": {"Encode", "Decode", "Embed"},
	"rlwe": {"Encrypt", "EncryptNew", "EncryptZero", "Decrypt", "DecryptNew", "GenPublicKey", "GenRelinearizationKey", "GenGaloisKey", "GenEvaluationKey"},
}

func genCodecCase(t *rapid.T) CodecCase {
	var c CodecCase
	c.Scheme = []string{"bgv", "ckks", "rlwe", "rlwe"}[rapid.IntRange(0, 3).Draw(t, "scheme")]
	var n, nQ int
	switch c.Scheme {
	case "bgv":
		c.BGV = genBGVSpec(t)
		n, nQ = c.BGV.N(), len(c.BGV.Q)
		c.Kind = []string{"vecU", "vecI"}[rapid.IntRange(0, 1).Draw(t, "kind")]
	case "ckks":
		c.CKKS = genCKKSSpec(t)
		n, nQ = c.CKKS.N(), len(c.CKKS.Q)
		ks := []string{"vecF", "vecBF", "vecC", "vecBC"}
		if c.CKKS.CI {
			ks = ks[:2]
		}
		c.Kind = ks[rapid.IntRange(0, len(ks)-1).Draw(t, "kind")]
	default:
		c.RLWE = genRLWESpec(t)
		n, nQ = c.RLWE.N(), len(c.RLWE.Q)
	}
	c.Seed = rapid.Uint64().Draw(t, "seed")
	ops := codecOps[c.Scheme]
	c.Op = ops[rapid.IntRange(0, len(ops)-1).Draw(t, "op")]
	c.Len = []int{0, 1, n / 2, 3}[rapid.IntRange(0, 3).Draw(t, "len")]
	c.In = genCtSpec(t, "in", []int{1, 1, 2}, nQ-1)
	if c.Scheme != "ckks" {
		c.In.Dims = 0
	}
	c.Reuse = rapid.Bool().Draw(t, "reuse")
	c.Out = genCtSpec(t, "out", []int{1, 2}, nQ-1)
	c.Hist = rapid.IntRange(0, 3).Draw(t, "hist")
	c.PK = rapid.Bool().Draw(t, "pk")
	return c
}

func skHash(sk *rlwe.SecretKey) uint64 { return hashPolyQP(sk.Value) }

// phase returns the centred coefficients of ct[0] + ct[1]*s (+ ct[2]*s^2) in the coefficient domain.
func phase(p *rlwe.Parameters, sk *rlwe.SecretKey, ct *rlwe.Ciphertext) []*big.Int {
	pt := rlwe.NewDecryptor(p, sk).DecryptNew(ct)
	r := p.RingQ().AtLevel(pt.Level())
	v := *pt.Value.CopyNew()
	if pt.IsNTT {
		r.INTT(v, v)
	}
	out := make([]*big.Int, p.N())
	for i := range out {
		out[i] = new(big.Int)
	}
	r.PolyToBigintCentered(v, 1, out)
	return out
}

func runCodec(c CodecCase, rec *h.Rec) error {
	e := &env{scheme: c.Scheme}
	switch c.Scheme {
	case "bgv":
		p, err := c.BGV.Build()
		if err != nil {
			rec.Class("params-rejected")
			return nil
		}
		e.bgvP, e.rp, e.t = &p, p.GetRLWEParameters(), p.PlaintextModulus()
	case "ckks":
		p, err := c.CKKS.Build()
		if err != nil {
			rec.Class("params-rejected")
			return nil
		}
		e.ckksP, e.rp = &p, p.GetRLWEParameters()
	default:
		p, err := c.RLWE.Build()
		if err != nil {
			rec.Class("params-rejected")
			return nil
		}
		e.rp = &p
	}
	e.maxLevel = e.rp.MaxLevel()
	opName := c.Scheme + "." + c.Op
	rec.Class("op=" + opName)
	rec.Classf("reuse=%v", c.Reuse)
	rec.Classf("hist=%d", c.Hist)
	fail := func(key, format string, a ...any) error {
		msg := fmt.Sprintf(format, a...)
		if rec.Known(key, msg) {
			rec.Class("known=" + key)
			return nil
		}
		return h.Failf(key, "%s", msg)
	}
	nontrivial := func() {
		if c.Reuse || c.Hist > 0 {
			rec.NonTrivial(fmt.Sprintf("%s|%s|reuse=%v|hist=%v|pk=%v|ntt=%v", opName, c.Kind, c.Reuse, c.Hist > 0, c.PK, e.rp.NTTFlag()))
		}
	}

	switch c.Op {
	case "Encode", "Decode", "Embed":
		type encoder interface {
			Encode(values interface{}, pt *rlwe.Plaintext) error
			Decode(pt *rlwe.Plaintext, values interface{}) error
			Embed(values interface{}, metadata *rlwe.MetaData, polyOut interface{}) error
		}
		newEnc := func() encoder {
			if e.bgvP != nil {
				return bgv.NewEncoder(*e.bgvP)
			}
			return ckks.NewEncoder(*e.ckksP)
		}
		mkVals := func(seed uint64) any {
			return e.mkOperand(OpdSpec{Kind: c.Kind, Len: c.Len}, h.NewSplitMix(seed))
		}
		used := newEnc()
		for i := 0; i < c.Hist; i++ { // earlier use of the same encoder with other data
			pt := e.mkPt(CtSpec{Drop: (c.In.Drop + i) % (e.maxLevel + 1), Scale: i % 4}, h.NewSplitMix(c.Seed+uint64(i)+1))
			_, _ = protect(func() error { return used.Encode(mkVals(c.Seed+uint64(i)+77), pt) })
			vals := mkVals(c.Seed + uint64(i) + 99)
			_, _ = protect(func() error { return used.Decode(pt, vals) })
		}
		// encode is Encode(values, pt) or Embed(values, pt.MetaData, pt.Value) (the metadata is an input of Embed)
		encode := func(ecd encoder, vals any, pt *rlwe.Plaintext) error {
			if c.Op == "Embed" {
				return ecd.Embed(vals, pt.MetaData, pt.Value)
			}
			return ecd.Encode(vals, pt)
		}
		if c.Op == "Encode" || c.Op == "Embed" {
			vals := mkVals(c.Seed)
			pre := snapAny(vals)
			ptA := e.mkPt(c.In, h.NewSplitMix(c.Seed^0x11)) // random content: "used before"; level and scale are inputs of Encode
			if !c.Reuse {
				for i := range ptA.Value.Coeffs {
					for j := range ptA.Value.Coeffs[i] {
						ptA.Value.Coeffs[i][j] = 0
					}
				}
			}
			ptB := e.mkPt(c.In, h.NewSplitMix(c.Seed^0x11))
			for i := range ptB.Value.Coeffs {
				for j := range ptB.Value.Coeffs[i] {
					ptB.Value.Coeffs[i][j] = 0
				}
			}
			preMeta := metaString(ptA.MetaData, true)
			errA, panA := protect(func() error { return encode(used, vals, ptA) })
			if post := metaString(ptA.MetaData, true); c.Op == "Embed" && post != preMeta {
				return fail("C09:"+opName+":"+c.Kind+":input-mutated:metadata", "%s changed the metadata it was given: %s -> %s", opName, preMeta, post)
			}
			if post := snapAny(vals); post != pre {
				return fail("C09:"+opName+":"+c.Kind+":input-mutated:values", "%s changed its value slice: before %s after %s", opName, trunc(pre, 200), trunc(post, 200))
			}
			errB, panB := protect(func() error { return encode(newEnc(), mkVals(c.Seed), ptB) })
			if panB != "" || errB != nil {
				rec.Class("result=reference-rejected")
				return nil
			}
			if panA != "" {
				return fail("C09:"+opName+":"+c.Kind+":state:panic", "%s panicked on a used encoder / reused plaintext: %s", opName, panA)
			}
			if errA != nil {
				rec.Class("result=rejected-with-error")
				return nil
			}
			if d := diffEl(snapEl(ptA.El(), false), snapEl(ptB.El(), false)); d != "" {
				return fail("C09:"+opName+":"+c.Kind+":state:wrong-"+diffKind(d), "%s on a used encoder (history %d) into a plaintext with previous content (%v) differs from a brand-new encoder and a zeroed plaintext: %s", opName, c.Hist, c.Reuse, d)
			}
		} else {
			pt := e.mkPt(c.In, h.NewSplitMix(c.Seed^0x11))
			pre := snapAny(pt)
			// the receiving slice has exactly as many entries as the plaintext has slots (a longer slice keeps its tail)
			full := OpdSpec{Kind: c.Kind}
			if e.ckksP != nil && pt.LogDimensions.Cols < e.ckksP.LogMaxDimensions().Cols {
				full.Len = 1 << pt.LogDimensions.Cols
			}
			outA := e.mkOperand(full, h.NewSplitMix(c.Seed^0x22)) // previous content
			outB := e.mkOperand(full, h.NewSplitMix(c.Seed^0x33))
			errA, panA := protect(func() error { return used.Decode(pt, outA) })
			if post := snapAny(pt); post != pre {
				return fail("C09:"+opName+":"+c.Kind+":input-mutated:pt", "%s changed its input plaintext", opName)
			}
			errB, panB := protect(func() error { return newEnc().Decode(e.mkPt(c.In, h.NewSplitMix(c.Seed^0x11)), outB) })
			if panB != "" || errB != nil {
				rec.Class("result=reference-rejected")
				return nil
			}
			if panA != "" {
				return fail("C09:"+opName+":"+c.Kind+":state:panic", "%s panicked on a used encoder: %s", opName, panA)
			}
			if errA != nil {
				rec.Class("result=rejected-with-error")
				return nil
			}
			sa, sb := valueString(outA), valueString(outB)
			if sa != sb {
				return fail("C09:"+opName+":"+c.Kind+":state:wrong-value", "%s on a used encoder (history %d) into a slice with previous content differs from a brand-new encoder: %s vs %s", opName, c.Hist, trunc(sa, 200), trunc(sb, 200))
			}
		}
		rec.Class("result=identical")
		nontrivial()
		return nil
	}

	// rlwe level: encryptor, decryptor, key generator
	h.SeedRand(c.Seed ^ 0x6b657973)
	kgen := rlwe.NewKeyGenerator(e.rp)
	sk, pk := kgen.GenKeyPairNew()
	sk2 := kgen.GenSecretKeyNew()
	preSk, preSk2 := skHash(sk), skHash(sk2)
	prePk := hashPolyQP(pk.Value[0]) ^ hashPolyQP(pk.Value[1])<<1
	keysIntact := func() error {
		if skHash(sk) != preSk || skHash(sk2) != preSk2 {
			return fail("C09:"+opName+":input-mutated:sk", "%s changed a secret key passed as input", opName)
		}
		if hashPolyQP(pk.Value[0])^hashPolyQP(pk.Value[1])<<1 != prePk {
			return fail("C09:"+opName+":input-mutated:pk", "%s changed the public key", opName)
		}
		return nil
	}
	var key rlwe.EncryptionKey = sk
	if c.PK {
		key = pk
	}
	noiseBound := big.NewInt(int64(200*e.rp.N() + 200))

	switch c.Op {
	case "Encrypt", "EncryptNew", "EncryptZero":
		keyName := "rlwe.Encrypt" // Encrypt, EncryptNew and EncryptZero share encryptZero*: one key family
		used := rlwe.NewEncryptor(e.rp, key)
		for i := 0; i < c.Hist; i++ {
			pt := e.mkPt(CtSpec{Drop: i % (e.maxLevel + 1)}, h.NewSplitMix(c.Seed+uint64(i)+1))
			_, _ = protect(func() error { _, err := used.EncryptNew(pt); return err })
		}
		pt := e.mkPt(c.In, h.NewSplitMix(c.Seed^0x11))
		pre := snapAny(pt)
		natLvl := pt.Level()
		if c.Op == "EncryptZero" && c.Reuse {
			// the level of the ciphertext is the only level input of EncryptZero
			natLvl = clampLevel(e.maxLevel, c.Out.Drop)
		}
		mkOut := func(reuse bool) *rlwe.Ciphertext {
			if reuse {
				ct := e.mkCt(c.Out, h.NewSplitMix(c.Seed^0x44))
				return ct
			}
			lvl := natLvl
			if c.Reuse {
				lvl = minInt(lvl, clampLevel(e.maxLevel, c.Out.Drop))
			}
			return rlwe.NewCiphertext(e.rp, 1, lvl)
		}
		var ctA, ctB *rlwe.Ciphertext
		do := func(enc *rlwe.Encryptor, reuse bool) (ct *rlwe.Ciphertext, err error, pan string) {
			err, pan = protect(func() error {
				var er error
				switch c.Op {
				case "Encrypt":
					ct = mkOut(reuse)
					er = enc.Encrypt(pt, ct)
				case "EncryptNew":
					ct, er = enc.EncryptNew(pt)
				default:
					ct = mkOut(reuse)
					*ct.MetaData = *pt.MetaData
					er = enc.EncryptZero(ct)
				}
				return er
			})
			return
		}
		ctA, errA, panA := do(used, c.Reuse)
		if post := snapAny(pt); post != pre {
			return fail("C09:"+keyName+":input-mutated:pt", "%s changed its input plaintext", opName)
		}
		if err := keysIntact(); err != nil {
			return err
		}
		ctB, errB, panB := do(rlwe.NewEncryptor(e.rp, key), false)
		if panB != "" || errB != nil {
			rec.Class("result=reference-rejected")
			return nil
		}
		cause := "encryptor-state"
		if c.Reuse {
			switch {
			case c.Out.Deg > 1:
				cause = "reused-out:larger-degree"
			case clampLevel(e.maxLevel, c.Out.Drop) > natLvl:
				cause = "reused-out:larger-level"
			default:
				cause = "reused-out:same-shape"
			}
		}
		if panA != "" {
			return fail("C09:"+keyName+":"+cause+":panic", "%s panicked: %s", opName, panA)
		}
		if errA != nil {
			rec.Class("result=rejected-with-error")
			return nil
		}
		// a reused receiver of larger degree may keep its degree if the additional terms are zero (same ciphertext value)
		zeroTail := ctA.Degree() > ctB.Degree()
		if zeroTail {
			for _, pol := range ctA.Value[ctB.Degree()+1:] {
				for _, limb := range pol.Coeffs {
					for _, v := range limb {
						if v != 0 {
							zeroTail = false
						}
					}
				}
			}
		}
		if zeroTail {
			rec.Class("result=zero-padded-to-receiver-degree")
		}
		if (ctA.Degree() != ctB.Degree() && !zeroTail) || ctA.Level() != ctB.Level() {
			return fail("C09:"+keyName+":"+cause+":wrong-shape", "%s into a reused ciphertext (degree %d level %d) returns degree %d level %d; with a fresh output degree %d level %d", opName, c.Out.Deg, clampLevel(e.maxLevel, c.Out.Drop), ctA.Degree(), ctA.Level(), ctB.Degree(), ctB.Level())
		}
		if ma, mb := metaString(ctA.MetaData, false), metaString(ctB.MetaData, false); ma != mb {
			return fail("C09:"+keyName+":"+cause+":wrong-metadata", "%s: metadata {%s} vs {%s} with a fresh output", opName, ma, mb)
		}
		pa, pb := phase(e.rp, sk, ctA), phase(e.rp, sk, ctB)
		for i := range pa {
			d := new(big.Int).Sub(pa[i], pb[i])
			if d.Abs(d).Cmp(noiseBound) > 0 {
				return fail("C09:"+keyName+":"+cause+":wrong-value", "%s: decryption of the result differs from the decryption of the result of a brand-new encryptor with a fresh output by %s at coefficient %d (noise bound %s)", opName, d, i, noiseBound)
			}
		}
		rec.Class("result=decrypts-equal")
		nontrivial()
		return nil

	case "Decrypt", "DecryptNew":
		used := rlwe.NewDecryptor(e.rp, sk)
		for i := 0; i < c.Hist; i++ {
			ct := e.mkCt(CtSpec{Deg: 1 + i%2, Drop: i % (e.maxLevel + 1)}, h.NewSplitMix(c.Seed+uint64(i)+1))
			_, _ = protect(func() error { used.DecryptNew(ct); return nil })
		}
		ct := e.mkCt(c.In, h.NewSplitMix(c.Seed^0x11))
		pre := snapAny(ct)
		natLvl := ct.Level()
		do := func(dec *rlwe.Decryptor, reuse bool) (pt *rlwe.Plaintext, pan string) {
			_, pan = protect(func() error {
				if c.Op == "DecryptNew" {
					pt = dec.DecryptNew(ct)
					return nil
				}
				if reuse {
					pt = e.mkPt(c.Out, h.NewSplitMix(c.Seed^0x44))
				} else {
					lvl := natLvl
					if c.Reuse {
						lvl = minInt(lvl, clampLevel(e.maxLevel, c.Out.Drop))
					}
					pt = rlwe.NewPlaintext(e.rp, lvl)
				}
				dec.Decrypt(ct, pt)
				return nil
			})
			return
		}
		ptA, panA := do(used, c.Reuse)
		if post := snapAny(ct); post != pre {
			return fail("C09:"+opName+":input-mutated:ct", "%s changed its input ciphertext", opName)
		}
		if err := keysIntact(); err != nil {
			return err
		}
		ptB, panB := do(rlwe.NewDecryptor(e.rp, sk), false)
		if panB != "" {
			rec.Class("result=reference-rejected")
			return nil
		}
		if panA != "" {
			return fail("C09:"+opName+":state:panic", "%s panicked: %s", opName, panA)
		}
		if d := diffEl(snapEl(ptA.El(), false), snapEl(ptB.El(), false)); d != "" {
			return fail("C09:"+opName+":state:wrong-"+diffKind(d), "%s with a used decryptor (history %d) into a reused plaintext (%v) differs from a brand-new decryptor with a fresh plaintext: %s", opName, c.Hist, c.Reuse, d)
		}
		if d := diffPolyPrefix(snapPoly(ptA.Value), snapPoly(ptA.Element.Value[0]), ptA.Level()+1); d != "" || ptA.Value.Level() != ptA.Element.Value[0].Level() {
			return fail("C09:"+opName+":state:plaintext-views-diverge", "%s: pt.Value and pt.Element.Value[0] of the reused plaintext no longer describe the same polynomial (levels %d vs %d) %s", opName, ptA.Value.Level(), ptA.Element.Value[0].Level(), d)
		}
		rec.Class("result=identical")
		nontrivial()
		return nil

	default: // key generation: inputs intact
		_, pan := protect(func() error {
			switch c.Op {
			case "GenPublicKey":
				kgen.GenPublicKey(sk, rlwe.NewPublicKey(e.rp))
			case "GenRelinearizationKey":
				kgen.GenRelinearizationKey(sk, rlwe.NewRelinearizationKey(e.rp))
			case "GenGaloisKey":
				g := e.rp.GaloisElement(1 + c.Len)
				kgen.GenGaloisKey(g, sk, rlwe.NewGaloisKey(e.rp))
			default:
				kgen.GenEvaluationKey(sk, sk2, rlwe.NewEvaluationKey(e.rp))
			}
			return nil
		})
		if pan != "" {
			rec.Class("result=reference-panicked")
			return nil
		}
		if err := keysIntact(); err != nil {
			return err
		}
		rec.Class("result=inputs-intact")
		rec.NonTrivial(fmt.Sprintf("%s|ntt=%v|ci=%v|P=%d", opName, e.rp.NTTFlag(), e.rp.RingType() == ring.ConjugateInvariant, e.rp.PCount()))
		return nil
	}
}

// valueString is snapAny without pointer identities (compares decoded values of two executions).
func valueString(v any) string {
	switch v := v.(type) {
	case []*big.Float:
		s := ""
		for _, x := range v {
			s += bigFloatString(x) + ";"
		}
		return s
	case []*bignum.Complex:
		s := ""
		for _, x := range v {
			s += complexString(x) + ";"
		}
		return s
	}
	return snapAny(v)
}

var propCodec = h.NewProp("TestPropCodec", h.Budget{Quick: 3000, Thorough: 60000}, genCodecCase, runCodec)

func TestPropCodec(t *testing.T) { propCodec.Check(t) }
