package c09

import (
	"bytes"
	"fmt"
	"hash/fnv"
	"testing"

	"verif/internal/h"

	"github.com/tuneinsight/lattigo/v6/core/rlwe"
	"github.com/tuneinsight/lattigo/v6/multiparty"
	"github.com/tuneinsight/lattigo/v6/multiparty/mpbgv"
	"github.com/tuneinsight/lattigo/v6/multiparty/mpckks"
	"github.com/tuneinsight/lattigo/v6/ring"
	"github.com/tuneinsight/lattigo/v6/ring/ringqp"
	"github.com/tuneinsight/lattigo/v6/schemes/bgv"
	"github.com/tuneinsight/lattigo/v6/schemes/ckks"
	"github.com/tuneinsight/lattigo/v6/utils/structs"
	"pgregory.net/rapid"
)

// MPCase is one GenShare + AggregateShares evaluation of a multiparty protocol.
type MPCase struct {
	RLWE  *h.RLWESpec `json:"rlwe"`
	Seed  uint64      `json:"seed"`
	Proto string      `json:"proto"`
	Alias int         `json:"alias"` // 0 fresh out, 1 out==share1, 2 out==share2, 3 share1==share2, 4 all equal
	Reuse bool        `json:"reuse"` // the output share holds an earlier aggregate
	Drop  int         `json:"drop"`  // level drop of the ciphertext (key-switch protocols)
	Rot   int         `json:"rot"`
	// evaluation-key parameters of the EVK / GKG / RKG shares
	EvkLevelQDrop int  `json:"evkLevelQDrop"`
	EvkNoP        bool `json:"evkNoP"`     // LevelP = -1 although the parameters may have an auxiliary modulus
	EvkBase2      int  `json:"evkBase2"`   // BaseTwoDecomposition (0 = none)
	EvkDefault    bool `json:"evkDefault"` // no explicit evaluation-key parameters at all
}

func (c MPCase) RandSeed() uint64 { return c.Seed }

var mpProtos = []string{"PublicKeyGen", "RelinearizationKeyGen", "RelinearizationKeyGenRoundTwo", "EvaluationKeyGen", "GaloisKeyGen", "KeySwitch", "PublicKeySwitch",
	"EvaluationKeyGen", "GaloisKeyGen", "RelinearizationKeyGen", "Threshold", "RefreshBGV", "RefreshCKKS"}

func genMPCase(t *rapid.T) MPCase {
	s := poolSpec(t, true, nil, 0)
	return MPCase{
		RLWE:  &s,
		Seed:  rapid.Uint64().Draw(t, "seed"),
		Proto: mpProtos[rapid.IntRange(0, len(mpProtos)-1).Draw(t, "proto")],
		Alias: rapid.IntRange(0, 4).Draw(t, "alias"),
		Reuse: rapid.Bool().Draw(t, "reuse"),
		Drop:  rapid.IntRange(0, len(s.Q)-1).Draw(t, "drop"),
		Rot:   rapid.IntRange(1, 5).Draw(t, "rot"),

		EvkLevelQDrop: rapid.IntRange(0, len(s.Q)-1).Draw(t, "evkLevelQDrop"),
		EvkNoP:        rapid.Bool().Draw(t, "evkNoP"),
		EvkBase2:      []int{0, 4, 7, 12, 16, 5, 9}[rapid.IntRange(0, 6).Draw(t, "evkBase2")],
		EvkDefault:    rapid.IntRange(0, 3).Draw(t, "evkDefault") == 0,
	}
}

type binShare[S any] interface {
	*S
	MarshalBinary() ([]byte, error)
	UnmarshalBinary([]byte) error
}

// mpOps describes one protocol for share type S.
type mpOps[S any] struct {
	alloc  func() S
	gen    func(party int, out *S) error // GenShare of party 0 or 1 with its own secret key
	agg    func(a, b S, out *S) error
	inputs func() string // fingerprint of every non-share input of GenShare (secret keys, CRP, ciphertext, public key)
	// fin runs the finalising method of the protocol (GenPublicKey, GenEvaluationKey, KeySwitch, GenAdditiveShare ...)
	// on the aggregated share and returns a fingerprint of what it produced. mode 0: freshly allocated receiver,
	// 1: receiver that holds the result of an earlier use (other content, larger shape where possible),
	// 2: receiver == input ciphertext where the method has one (else as 1). nil: no finaliser.
	fin func(agg S, mode int) (string, error)
}

func mpCheck[S any, PS binShare[S]](c MPCase, rec *h.Rec, o mpOps[S]) error {
	name := "multiparty." + c.Proto
	fail := func(key, format string, a ...any) error {
		msg := fmt.Sprintf(format, a...)
		if rec.Known(key, msg) {
			rec.Class("known=" + key)
			return nil
		}
		return h.Failf(key, "%s", msg)
	}
	bin := func(s *S) []byte {
		b, err := PS(s).MarshalBinary()
		if err != nil {
			panic("harness: share marshal: " + err.Error())
		}
		return b
	}
	clone := func(b []byte) S {
		s := o.alloc()
		if err := PS(&s).UnmarshalBinary(b); err != nil {
			panic("harness: share unmarshal: " + err.Error())
		}
		return s
	}

	// GenShare: inputs intact
	s1, s2 := o.alloc(), o.alloc()
	pre := o.inputs()
	var gerr error
	_, pan := protect(func() error {
		if gerr = o.gen(0, &s1); gerr != nil {
			return gerr
		}
		gerr = o.gen(1, &s2)
		return gerr
	})
	if pan != "" || gerr != nil {
		rec.Class("result=reference-rejected")
		rec.Note("genshare", fmt.Sprint(pan, gerr))
		return nil
	}
	if post := o.inputs(); post != pre {
		return fail("C09:"+name+".GenShare:input-mutated", "%s.GenShare changed one of its inputs: before %s after %s", name, pre, post)
	}
	b1, b2 := bin(&s1), bin(&s2)

	// reference aggregation: distinct shares, fresh output
	second := b2
	if c.Alias >= 3 {
		second = b1 // share1 == share2: the reference adds two distinct objects of equal content
	}
	r1, r2, rout := clone(b1), clone(second), o.alloc()
	var rerr error
	_, pan = protect(func() error { rerr = o.agg(r1, r2, &rout); return rerr })
	if pan != "" || rerr != nil {
		rec.Class("result=reference-rejected")
		return nil
	}
	if !bytes.Equal(bin(&r1), b1) || !bytes.Equal(bin(&r2), second) {
		return fail("C09:"+name+".AggregateShares:input-mutated", "%s.AggregateShares with distinct shares and a fresh output changed an input share", name)
	}
	want := bin(&rout)

	// drawn call
	a1, a2 := clone(b1), clone(second)
	out := o.alloc()
	if c.Reuse {
		out = clone(b2) // holds an earlier share
		if c.Alias == 0 {
			// an earlier aggregate of other data
			_, _ = protect(func() error { return o.agg(clone(b2), clone(b2), &out) })
		}
	}
	var aerr error
	var got []byte
	cause := aliasNames[c.Alias]
	_, pan = protect(func() error {
		switch c.Alias {
		case 0:
			aerr = o.agg(a1, a2, &out)
			got = bin(&out)
		case 1:
			aerr = o.agg(a1, a2, &a1)
			got = bin(&a1)
		case 2:
			aerr = o.agg(a1, a2, &a2)
			got = bin(&a2)
		case 3:
			aerr = o.agg(a1, a1, &out)
			got = bin(&out)
		default:
			aerr = o.agg(a1, a1, &a1)
			got = bin(&a1)
		}
		return aerr
	})
	if c.Alias == 0 {
		cause = "reused-out"
	}
	if pan != "" {
		return fail("C09:"+name+".AggregateShares:"+cause+":panic", "%s.AggregateShares panicked: %s", name, pan)
	}
	if aerr != nil {
		rec.Class("result=rejected-with-error")
		return nil
	}
	switch c.Alias {
	case 0, 3:
		if !bytes.Equal(bin(&a1), b1) || (c.Alias == 0 && !bytes.Equal(bin(&a2), second)) {
			return fail("C09:"+name+".AggregateShares:"+cause+":input-mutated", "%s.AggregateShares changed an input share that is not the output", name)
		}
	case 1:
		if !bytes.Equal(bin(&a2), second) {
			return fail("C09:"+name+".AggregateShares:"+cause+":input-mutated", "%s.AggregateShares(out==share1) changed share2", name)
		}
	case 2:
		if !bytes.Equal(bin(&a1), b1) {
			return fail("C09:"+name+".AggregateShares:"+cause+":input-mutated", "%s.AggregateShares(out==share2) changed share1", name)
		}
	}
	if !bytes.Equal(got, want) {
		return fail("C09:"+name+".AggregateShares:"+cause+":wrong-value", "%s.AggregateShares with %s (reused output %v) differs from the aggregation of distinct shares into a fresh output (%d vs %d bytes)", name, aliasNames[c.Alias], c.Reuse, len(got), len(want))
	}
	// finaliser: receiver history / aliasing, aggregated share and all other inputs intact
	if o.fin != nil {
		preIn := o.inputs()
		ag := clone(want)
		var ref string
		var ferr error
		_, pan = protect(func() error { ref, ferr = o.fin(ag, 0); return ferr })
		if pan != "" || ferr != nil {
			rec.Class("finalize=reference-rejected")
			rec.Note("finalize", fmt.Sprint(pan, ferr))
		} else {
			if !bytes.Equal(bin(&ag), want) || o.inputs() != preIn {
				return fail("C09:"+name+".Finalize:input-mutated", "the finalising method of %s changed the aggregated share or another input (fresh receiver)", name)
			}
			for mode := 1; mode <= 2; mode++ {
				ag := clone(want)
				var got string
				_, pan = protect(func() error { got, ferr = o.fin(ag, mode); return ferr })
				cause := []string{"", "reused-out", "out==ctIn"}[mode]
				if pan != "" {
					return fail("C09:"+name+".Finalize:"+cause+":panic", "the finalising method of %s panicked: %s", name, pan)
				}
				if ferr != nil {
					rec.Class("finalize=rejected-with-error")
					rec.Class("finalize-rejected:" + c.Proto + ":" + cause + ":" + trunc(ferr.Error(), 70))
					continue
				}
				if !bytes.Equal(bin(&ag), want) || o.inputs() != preIn {
					return fail("C09:"+name+".Finalize:"+cause+":input-mutated", "the finalising method of %s changed the aggregated share or another input", name)
				}
				if got != ref {
					return fail("C09:"+name+".Finalize:"+cause+":wrong-value", "the finalising method of %s into a receiver used before (mode %d) differs from the result in a fresh receiver: %s vs %s", name, mode, trunc(got, 160), trunc(ref, 160))
				}
			}
			rec.Class("finalize=identical")
		}
	}

	rec.Class("result=identical")
	rec.NonTrivial(fmt.Sprintf("%s|%s|reuse=%v|ntt=%v|P=%d|evkNoP=%v|base2>0=%v|evkDefault=%v", name, aliasNames[c.Alias], c.Reuse, c.RLWE.NTT, len(c.RLWE.P), c.EvkNoP, c.EvkBase2 > 0, c.EvkDefault))
	return nil
}

// dirtyGadget fills a gadget ciphertext with random content (a key object used before).
func dirtyGadget(p *rlwe.Parameters, g *rlwe.GadgetCiphertext) {
	rng := h.NewSplitMix(0x6469727479)
	for i := range g.Value {
		for j := range g.Value[i] {
			for k := range g.Value[i][j] {
				r := p.RingQP().AtLevel(g.Value[i][j][k].LevelQ(), g.Value[i][j][k].LevelP())
				fillPolyQP(&r, g.Value[i][j][k], rng, 0)
			}
		}
	}
}

// ksReceiver returns input and receiver of a collective key-switch: mode 0 fresh receiver, 1 a receiver used before
// (degree 2, maximum level, random content and other metadata), 2 receiver == a copy of the input ciphertext.
func ksReceiver(e *env, ct *rlwe.Ciphertext, mode int, seed uint64) (in, out *rlwe.Ciphertext) {
	switch mode {
	case 0:
		return ct, rlwe.NewCiphertext(e.rp, 1, ct.Level())
	case 1:
		d := e.mkCt(CtSpec{Deg: 2}, h.NewSplitMix(seed^0x6b73))
		d.IsNTT = !ct.IsNTT
		d.IsBatched = true
		return ct, d
	default:
		cp := ct.CopyNew()
		return cp, cp
	}
}

func hashMatrixQP(m structs.Matrix[ringqp.Poly]) string {
	s := ""
	for i := range m {
		for j := range m[i] {
			s += fmt.Sprintf("%x.", hashPolyQP(m[i][j]))
		}
	}
	return s
}

func runMP(c MPCase, rec *h.Rec) error {
	p, err := c.RLWE.Build()
	if err != nil {
		rec.Class("params-rejected")
		return nil
	}
	rec.Class("proto=" + c.Proto)
	rec.Class("alias=" + aliasNames[c.Alias])
	rec.Classf("reuse=%v", c.Reuse)
	e := &env{scheme: "rlwe", rp: &p, maxLevel: p.MaxLevel()}

	h.SeedRand(c.Seed ^ 0x6b657973)
	kgen := rlwe.NewKeyGenerator(p)
	sks := []*rlwe.SecretKey{kgen.GenSecretKeyNew(), kgen.GenSecretKeyNew()}
	skOut := kgen.GenSecretKeyNew()
	pk := kgen.GenPublicKeyNew(skOut)
	crs := h.KeyedPRNG(fmt.Sprintf("c09-crs-%d", c.Seed))
	skFP := func() string {
		return fmt.Sprintf("sk:%x,%x,%x;pk:%x,%x", skHash(sks[0]), skHash(sks[1]), skHash(skOut), hashPolyQP(pk.Value[0]), hashPolyQP(pk.Value[1]))
	}
	ct := e.mkCt(CtSpec{Deg: 1, Drop: c.Drop}, h.NewSplitMix(c.Seed^0xa0))
	ct.IsNTT = p.NTTFlag()
	ctFP := func() string { return fmt.Sprintf("%v", snapEl(ct.El(), true)) }
	noise := ring.DiscreteGaussian{Sigma: 8, Bound: 48}

	// evaluation-key parameters (level Q, level P incl. -1, base-2 decomposition)
	var evkp []rlwe.EvaluationKeyParameters
	if !c.EvkDefault {
		lq := clampLevel(p.MaxLevelQ(), c.EvkLevelQDrop)
		lp := p.MaxLevelP()
		if c.EvkNoP {
			lp = -1
		}
		b2 := c.EvkBase2
		evkp = []rlwe.EvaluationKeyParameters{{LevelQ: &lq, LevelP: &lp, BaseTwoDecomposition: &b2}}
		rec.Classf("evk:levelP=%d", lp)
		rec.Classf("evk:base2>0=%v", b2 > 0)
	} else {
		rec.Class("evk:default")
	}

	dirtyRng := func() *h.SplitMix { return h.NewSplitMix(c.Seed ^ 0xd1d1) }

	var pan string
	var res error
	var serr error
	serr, pan = protect(func() error {
		switch c.Proto {
		case "PublicKeyGen":
			pr := multiparty.NewPublicKeyGenProtocol(p)
			crp := pr.SampleCRP(crs)
			res = mpCheck(c, rec, mpOps[multiparty.PublicKeyGenShare]{
				alloc: pr.AllocateShare,
				gen:   func(i int, out *multiparty.PublicKeyGenShare) error { pr.GenShare(sks[i], crp, out); return nil },
				agg: func(a, b multiparty.PublicKeyGenShare, out *multiparty.PublicKeyGenShare) error {
					pr.AggregateShares(a, b, out)
					return nil
				},
				inputs: func() string { return skFP() + fmt.Sprintf("crp:%x", hashPolyQP(crp.Value)) },
				fin: func(agg multiparty.PublicKeyGenShare, mode int) (string, error) {
					out := rlwe.NewPublicKey(p)
					if mode != 0 {
						fillPolyQP(p.RingQP(), out.Value[0], dirtyRng(), 0)
						fillPolyQP(p.RingQP(), out.Value[1], dirtyRng(), 0)
					}
					pr.GenPublicKey(agg, crp, out)
					return fmt.Sprintf("%x.%x", hashPolyQP(out.Value[0]), hashPolyQP(out.Value[1])), nil
				},
			})
		case "RelinearizationKeyGen":
			pr := multiparty.NewRelinearizationKeyGenProtocol(p)
			crp := pr.SampleCRP(crs, evkp...)
			eph := make([]*rlwe.SecretKey, 2)
			res = mpCheck(c, rec, mpOps[multiparty.RelinearizationKeyGenShare]{
				alloc: func() multiparty.RelinearizationKeyGenShare { _, r1, _ := pr.AllocateShare(evkp...); return r1 },
				gen: func(i int, out *multiparty.RelinearizationKeyGenShare) error {
					e0, _, _ := pr.AllocateShare(evkp...)
					eph[i] = e0
					pr.GenShareRoundOne(sks[i], crp, eph[i], out)
					return nil
				},
				agg: func(a, b multiparty.RelinearizationKeyGenShare, out *multiparty.RelinearizationKeyGenShare) error {
					pr.AggregateShares(a, b, out)
					return nil
				},
				inputs: func() string { return skFP() + "crp:" + hashMatrixQP(crp.Value) },
			})
		case "RelinearizationKeyGenRoundTwo":
			pr := multiparty.NewRelinearizationKeyGenProtocol(p)
			crp := pr.SampleCRP(crs, evkp...)
			eph := make([]*rlwe.SecretKey, 2)
			var r1 [2]multiparty.RelinearizationKeyGenShare
			for i := range r1 {
				eph[i], r1[i], _ = pr.AllocateShare(evkp...)
				pr.GenShareRoundOne(sks[i], crp, eph[i], &r1[i])
			}
			_, agg1, _ := pr.AllocateShare(evkp...)
			pr.AggregateShares(r1[0], r1[1], &agg1)
			fp := func() string {
				b, _ := agg1.MarshalBinary()
				hh := fnv.New64a()
				_, _ = hh.Write(b)
				return skFP() + fmt.Sprintf("eph:%x,%x;round1:%x", skHash(eph[0]), skHash(eph[1]), hh.Sum64())
			}
			res = mpCheck(c, rec, mpOps[multiparty.RelinearizationKeyGenShare]{
				alloc: func() multiparty.RelinearizationKeyGenShare { _, _, r2 := pr.AllocateShare(evkp...); return r2 },
				gen: func(i int, out *multiparty.RelinearizationKeyGenShare) error {
					pr.GenShareRoundTwo(eph[i], sks[i], agg1, out)
					return nil
				},
				agg: func(a, b multiparty.RelinearizationKeyGenShare, out *multiparty.RelinearizationKeyGenShare) error {
					pr.AggregateShares(a, b, out)
					return nil
				},
				inputs: fp,
				fin: func(agg multiparty.RelinearizationKeyGenShare, mode int) (string, error) {
					out := rlwe.NewRelinearizationKey(p, evkp...)
					if mode != 0 {
						dirtyGadget(&p, &out.GadgetCiphertext)
					}
					pr.GenRelinearizationKey(agg1, agg, out)
					return fmt.Sprintf("%x", hashGadget(&out.GadgetCiphertext)), nil
				},
			})
		case "EvaluationKeyGen":
			pr := multiparty.NewEvaluationKeyGenProtocol(p)
			crp := pr.SampleCRP(crs, evkp...)
			res = mpCheck(c, rec, mpOps[multiparty.EvaluationKeyGenShare]{
				alloc: func() multiparty.EvaluationKeyGenShare { return pr.AllocateShare(evkp...) },
				gen:   func(i int, out *multiparty.EvaluationKeyGenShare) error { return pr.GenShare(sks[i], skOut, crp, out) },
				agg: func(a, b multiparty.EvaluationKeyGenShare, out *multiparty.EvaluationKeyGenShare) error {
					return pr.AggregateShares(a, b, out)
				},
				inputs: func() string { return skFP() + "crp:" + hashMatrixQP(crp.Value) },
				fin: func(agg multiparty.EvaluationKeyGenShare, mode int) (string, error) {
					out := rlwe.NewEvaluationKey(p, evkp...)
					if mode != 0 {
						dirtyGadget(&p, &out.GadgetCiphertext)
					}
					err := pr.GenEvaluationKey(agg, crp, out)
					return fmt.Sprintf("%x", hashGadget(&out.GadgetCiphertext)), err
				},
			})
		case "GaloisKeyGen":
			pr := multiparty.NewGaloisKeyGenProtocol(p)
			crp := pr.SampleCRP(crs, evkp...)
			galEl := p.GaloisElement(c.Rot)
			res = mpCheck(c, rec, mpOps[multiparty.GaloisKeyGenShare]{
				alloc: func() multiparty.GaloisKeyGenShare { return pr.AllocateShare(evkp...) },
				gen:   func(i int, out *multiparty.GaloisKeyGenShare) error { return pr.GenShare(sks[i], galEl, crp, out) },
				agg: func(a, b multiparty.GaloisKeyGenShare, out *multiparty.GaloisKeyGenShare) error {
					return pr.AggregateShares(a, b, out)
				},
				inputs: func() string { return skFP() + "crp:" + hashMatrixQP(crp.Value) },
				fin: func(agg multiparty.GaloisKeyGenShare, mode int) (string, error) {
					out := rlwe.NewGaloisKey(p, evkp...)
					if mode != 0 {
						dirtyGadget(&p, &out.GadgetCiphertext)
						out.GaloisElement, out.NthRoot = 12345, 7
					}
					err := pr.GenGaloisKey(agg, crp, out)
					return fmt.Sprintf("%d.%d.%x", out.GaloisElement, out.NthRoot, hashGadget(&out.GadgetCiphertext)), err
				},
			})
		case "Threshold":
			thr := multiparty.NewThresholdizer(p)
			var polys [2]multiparty.ShamirPolynomial
			for i := range polys {
				var err error
				if polys[i], err = thr.GenShamirPolynomial(2, sks[i]); err != nil {
					return err
				}
			}
			polyFP := func() string {
				s := ""
				for i := range polys {
					for j := range polys[i].Value {
						s += fmt.Sprintf("%x.", hashPolyQP(polys[i].Value[j]))
					}
				}
				return s
			}
			recipient := multiparty.ShamirPublicPoint(1 + c.Rot%3)
			points := []multiparty.ShamirPublicPoint{1, 2, 3}
			res = mpCheck(c, rec, mpOps[multiparty.ShamirSecretShare]{
				alloc: thr.AllocateThresholdSecretShare,
				gen: func(i int, out *multiparty.ShamirSecretShare) error {
					thr.GenShamirSecretShare(recipient, polys[i], out)
					return nil
				},
				agg: func(a, b multiparty.ShamirSecretShare, out *multiparty.ShamirSecretShare) error {
					return thr.AggregateShares(a, b, out)
				},
				inputs: func() string { return skFP() + "poly:" + polyFP() },
				fin: func(agg multiparty.ShamirSecretShare, mode int) (string, error) {
					cmb := multiparty.NewCombiner(p, recipient, points, 2)
					out := rlwe.NewSecretKey(p)
					if mode != 0 {
						fillPolyQP(p.RingQP(), out.Value, dirtyRng(), 0)
						// an earlier combination on the same combiner
						_ = cmb.GenAdditiveShare([]multiparty.ShamirPublicPoint{3, 2, 1}, recipient, agg, rlwe.NewSecretKey(p))
					}
					actives := []multiparty.ShamirPublicPoint{recipient, 1 + (recipient % 3)}
					err := cmb.GenAdditiveShare(actives, recipient, agg, out)
					return fmt.Sprintf("%x", hashPolyQP(out.Value)), err
				},
			})
		case "RefreshBGV", "RefreshCKKS":
			if !c.RLWE.NTT || (c.Proto == "RefreshBGV" && c.RLWE.CI) {
				return fmt.Errorf("harness: refresh needs NTT parameters (bgv: standard ring)")
			}
			maxLvl := p.MaxLevel()
			var rct *rlwe.Ciphertext
			var crp multiparty.KeySwitchCRP
			var gen func(i int, out *multiparty.RefreshShare) error
			var agg func(a, b multiparty.RefreshShare, out *multiparty.RefreshShare) error
			var fin func(in *rlwe.Ciphertext, share multiparty.RefreshShare, out *rlwe.Ciphertext) error
			var alloc func() multiparty.RefreshShare
			lvl := clampLevel(maxLvl, c.Drop)
			if c.Proto == "RefreshBGV" {
				bp, err := bgv.NewParametersFromLiteral(bgv.ParametersLiteral{LogN: c.RLWE.LogN, Q: c.RLWE.Q, P: c.RLWE.P, PlaintextModulus: 65537})
				if err != nil {
					return err
				}
				pr, err := mpbgv.NewRefreshProtocol(bp, noise)
				if err != nil {
					return err
				}
				rct = bgv.NewCiphertext(bp, 1, lvl)
				crp = pr.SampleCRP(maxLvl, crs)
				alloc = func() multiparty.RefreshShare { return pr.AllocateShare(lvl, maxLvl) }
				gen = func(i int, out *multiparty.RefreshShare) error { return pr.GenShare(sks[i], rct, crp, out) }
				agg = pr.AggregateShares
				fin = func(in *rlwe.Ciphertext, share multiparty.RefreshShare, out *rlwe.Ciphertext) error {
					return pr.Finalize(in, crp, share, out)
				}
			} else {
				rt := ring.Standard
				if c.RLWE.CI {
					rt = ring.ConjugateInvariant
				}
				cp, err := ckks.NewParametersFromLiteral(ckks.ParametersLiteral{LogN: c.RLWE.LogN, Q: c.RLWE.Q, P: c.RLWE.P, RingType: rt, LogDefaultScale: 20})
				if err != nil {
					return err
				}
				pr, err := mpckks.NewRefreshProtocol(cp, 64, noise)
				if err != nil {
					return err
				}
				rct = ckks.NewCiphertext(cp, 1, lvl)
				crp = pr.SampleCRP(maxLvl, crs)
				alloc = func() multiparty.RefreshShare { return pr.AllocateShare(lvl, maxLvl) }
				gen = func(i int, out *multiparty.RefreshShare) error { return pr.GenShare(sks[i], 25, rct, crp, out) }
				agg = func(a, b multiparty.RefreshShare, out *multiparty.RefreshShare) error {
					return pr.AggregateShares(&a, &b, out)
				}
				fin = func(in *rlwe.Ciphertext, share multiparty.RefreshShare, out *rlwe.Ciphertext) error {
					return pr.Finalize(in, crp, share, out)
				}
			}
			rng := h.NewSplitMix(c.Seed ^ 0xa0)
			for i := range rct.Value {
				fillPoly(p.RingQ().AtLevel(lvl), rct.Value[i], rng, 0)
			}
			rfp := func() string { return skFP() + fmt.Sprintf("%v|crp:%x", snapEl(rct.El(), true), hashPoly(crp.Value)) }
			res = mpCheck(c, rec, mpOps[multiparty.RefreshShare]{
				alloc: alloc, gen: gen, agg: agg, inputs: rfp,
				fin: func(share multiparty.RefreshShare, mode int) (string, error) {
					in, out := rct, rlwe.NewCiphertext(p, 1, maxLvl)
					switch mode {
					case 1: // Finalize documents an error for receivers of degree != 1: used before at degree 1
						out = e.mkCt(CtSpec{Deg: 1}, h.NewSplitMix(c.Seed^0x6b73))
					case 2:
						in = rct.CopyNew()
						out = in
					}
					*out.MetaData = *rct.MetaData
					err := fin(in, share, out)
					return fmt.Sprintf("%v", snapEl(out.El(), false)), err
				},
			})
		case "KeySwitch":
			pr, err := multiparty.NewKeySwitchProtocol(p, noise)
			if err != nil {
				return err
			}
			res = mpCheck(c, rec, mpOps[multiparty.KeySwitchShare]{
				alloc: func() multiparty.KeySwitchShare { return pr.AllocateShare(ct.Level()) },
				gen:   func(i int, out *multiparty.KeySwitchShare) error { pr.GenShare(sks[i], skOut, ct, out); return nil },
				agg: func(a, b multiparty.KeySwitchShare, out *multiparty.KeySwitchShare) error {
					return pr.AggregateShares(a, b, out)
				},
				inputs: func() string { return skFP() + ctFP() },
				fin: func(agg multiparty.KeySwitchShare, mode int) (string, error) {
					in, out := ksReceiver(e, ct, mode, c.Seed)
					pr.KeySwitch(in, agg, out)
					return fmt.Sprintf("%v", snapEl(out.El(), false)), nil
				},
			})
		default:
			pr, err := multiparty.NewPublicKeySwitchProtocol(p, noise)
			if err != nil {
				return err
			}
			res = mpCheck(c, rec, mpOps[multiparty.PublicKeySwitchShare]{
				alloc: func() multiparty.PublicKeySwitchShare { return pr.AllocateShare(ct.Level()) },
				gen:   func(i int, out *multiparty.PublicKeySwitchShare) error { pr.GenShare(sks[i], pk, ct, out); return nil },
				agg: func(a, b multiparty.PublicKeySwitchShare, out *multiparty.PublicKeySwitchShare) error {
					return pr.AggregateShares(a, b, out)
				},
				inputs: func() string { return skFP() + ctFP() },
				fin: func(agg multiparty.PublicKeySwitchShare, mode int) (string, error) {
					in, out := ksReceiver(e, ct, mode, c.Seed)
					pr.KeySwitch(in, agg, out)
					return fmt.Sprintf("%v", snapEl(out.El(), false)), nil
				},
			})
		}
		return nil
	})
	if pan != "" {
		rec.Class("result=reference-panicked")
		rec.Class("reference-panicked:" + c.Proto + ":" + trunc(pan, 60))
		return nil
	}
	if serr != nil {
		rec.Class("result=reference-rejected")
		rec.Class("reference-rejected:" + c.Proto + ":" + trunc(serr.Error(), 70))
		return nil
	}
	return res
}

var propMP = h.NewProp("TestPropMultiparty", h.Budget{Quick: 1500, Thorough: 40000}, genMPCase, runMP)

func TestPropMultiparty(t *testing.T) { propMP.Check(t) }
