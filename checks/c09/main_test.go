package c09

import (
	"fmt"
	"hash/fnv"
	"math/big"
	"sort"
	"strings"
	"testing"

	"verif/internal/h"

	clt "github.com/tuneinsight/lattigo/v6/circuits/common/lintrans"
	"github.com/tuneinsight/lattigo/v6/core/rlwe"
	"github.com/tuneinsight/lattigo/v6/ring"
	"github.com/tuneinsight/lattigo/v6/ring/ringqp"
	"github.com/tuneinsight/lattigo/v6/utils/bignum"
)

func TestMain(m *testing.M) { h.Main(m, "C09") }

func TestReplay(t *testing.T) { h.ReplayAll(t) }

// ---------------------------------------------------------------------------------------------------------------------
// deep snapshots
// ---------------------------------------------------------------------------------------------------------------------

// elSnap is a deep, bit-exact copy of an rlwe element (polynomials + metadata).
type elSnap struct {
	Nil    bool
	Coeffs [][][]uint64 // [poly][limb][coeff]
	Meta   string
}

func scaleString(s rlwe.Scale) string {
	mod := "nil"
	if s.Mod != nil {
		mod = s.Mod.String()
	}
	return fmt.Sprintf("%s/prec%d/mod%s", s.Value.Text('g', 60), s.Value.Prec(), mod)
}

// scaleValueString ignores the precision of the big.Float (used to compare results of two executions).
func scaleValueString(s rlwe.Scale) string {
	mod := "nil"
	if s.Mod != nil {
		mod = s.Mod.String()
	}
	return fmt.Sprintf("%s/mod%s", s.Value.Text('g', 60), mod)
}

func metaString(m *rlwe.MetaData, exact bool) string {
	if m == nil {
		return "<nil>"
	}
	sc := scaleValueString(m.Scale)
	if exact {
		sc = scaleString(m.Scale)
	}
	return fmt.Sprintf("scale=%s dims=%d,%d batched=%v ntt=%v mont=%v", sc, m.LogDimensions.Rows, m.LogDimensions.Cols, m.IsBatched, m.IsNTT, m.IsMontgomery)
}

func snapPoly(p ring.Poly) [][]uint64 {
	out := make([][]uint64, len(p.Coeffs))
	for i := range p.Coeffs {
		out[i] = append([]uint64(nil), p.Coeffs[i]...)
	}
	return out
}

func snapEl(el *rlwe.Element[ring.Poly], exact bool) elSnap {
	if el == nil {
		return elSnap{Nil: true}
	}
	s := elSnap{Meta: metaString(el.MetaData, exact)}
	for i := range el.Value {
		s.Coeffs = append(s.Coeffs, snapPoly(el.Value[i]))
	}
	return s
}

// diffEl returns "" when both snapshots are identical, else a short description of the first difference.
func diffEl(a, b elSnap) string {
	if a.Nil != b.Nil {
		return fmt.Sprintf("nil-ness differs (%v vs %v)", a.Nil, b.Nil)
	}
	if len(a.Coeffs) != len(b.Coeffs) {
		return fmt.Sprintf("degree %d vs %d", len(a.Coeffs)-1, len(b.Coeffs)-1)
	}
	for i := range a.Coeffs {
		if len(a.Coeffs[i]) != len(b.Coeffs[i]) {
			return fmt.Sprintf("level of Value[%d]: %d vs %d", i, len(a.Coeffs[i])-1, len(b.Coeffs[i])-1)
		}
	}
	for i := range a.Coeffs {
		for j := range a.Coeffs[i] {
			if len(a.Coeffs[i][j]) != len(b.Coeffs[i][j]) {
				return fmt.Sprintf("ring degree of Value[%d] limb %d: %d vs %d", i, j, len(a.Coeffs[i][j]), len(b.Coeffs[i][j]))
			}
			for k := range a.Coeffs[i][j] {
				if a.Coeffs[i][j][k] != b.Coeffs[i][j][k] {
					n := 0
					for kk := range a.Coeffs[i][j] {
						if a.Coeffs[i][j][kk] != b.Coeffs[i][j][kk] {
							n++
						}
					}
					return fmt.Sprintf("Value[%d] limb %d coeff %d: %d vs %d (%d/%d coefficients of this limb differ)", i, j, k, a.Coeffs[i][j][k], b.Coeffs[i][j][k], n, len(a.Coeffs[i][j]))
				}
			}
		}
	}
	if a.Meta != b.Meta {
		return fmt.Sprintf("metadata {%s} vs {%s}", a.Meta, b.Meta)
	}
	return ""
}

// diffKind classifies a difference for failure keys: "shape", "value", "metadata".
func diffKind(d string) string {
	switch {
	case strings.HasPrefix(d, "degree"), strings.HasPrefix(d, "level"), strings.HasPrefix(d, "ring degree"), strings.HasPrefix(d, "nil"):
		return "shape"
	case strings.HasPrefix(d, "metadata"):
		return "metadata"
	}
	return "value"
}

func hashU64(hh interface{ Write([]byte) (int, error) }, v uint64) {
	var b [8]byte
	for i := 0; i < 8; i++ {
		b[i] = byte(v >> (8 * i))
	}
	_, _ = hh.Write(b[:])
}

func hashPolyQP(p ringqp.Poly) uint64 {
	hh := fnv.New64a()
	for _, l := range p.Q.Coeffs {
		for _, v := range l {
			hashU64(hh, v)
		}
	}
	hashU64(hh, 0xffff)
	for _, l := range p.P.Coeffs {
		for _, v := range l {
			hashU64(hh, v)
		}
	}
	return hh.Sum64()
}

func hashPoly(p ring.Poly) uint64 {
	hh := fnv.New64a()
	for _, l := range p.Coeffs {
		hashU64(hh, uint64(len(l)))
		for _, v := range l {
			hashU64(hh, v)
		}
	}
	return hh.Sum64()
}

func hashGadget(g *rlwe.GadgetCiphertext) uint64 {
	hh := fnv.New64a()
	hashU64(hh, uint64(g.BaseTwoDecomposition))
	for i := range g.Value {
		for j := range g.Value[i] {
			for k := range g.Value[i][j] {
				hashU64(hh, hashPolyQP(g.Value[i][j][k]))
			}
		}
	}
	return hh.Sum64()
}

// hashEvk fingerprints an in-memory evaluation key set (relinearization key and all Galois keys).
func hashEvk(evk *rlwe.MemEvaluationKeySet) string {
	if evk == nil {
		return "nil"
	}
	var sb strings.Builder
	if evk.RelinearizationKey != nil {
		fmt.Fprintf(&sb, "rlk:%x;", hashGadget(&evk.RelinearizationKey.GadgetCiphertext))
	}
	keys := make([]uint64, 0, len(evk.GaloisKeys))
	for k := range evk.GaloisKeys {
		keys = append(keys, k)
	}
	sort.Slice(keys, func(i, j int) bool { return keys[i] < keys[j] })
	for _, k := range keys {
		gk := evk.GaloisKeys[k]
		fmt.Fprintf(&sb, "gk%d:%d:%d:%x;", k, gk.GaloisElement, gk.NthRoot, hashGadget(&gk.GadgetCiphertext))
	}
	return sb.String()
}

func bigFloatString(f *big.Float) string {
	if f == nil {
		return "<nil>"
	}
	return fmt.Sprintf("%s/prec%d/mode%d/acc%d", f.Text('p', 0), f.Prec(), f.Mode(), f.Acc())
}

func complexString(c *bignum.Complex) string {
	if c == nil {
		return "<nil>"
	}
	return bigFloatString(c[0]) + "+i*" + bigFloatString(c[1])
}

// snapAny returns a canonical, bit-exact description of an operand of any supported kind. Pointer-typed elements of
// slices are described by identity and content.
func snapAny(v any) string {
	switch v := v.(type) {
	case nil:
		return "<nil>"
	case *rlwe.Ciphertext:
		return fmt.Sprintf("ct%v", snapEl(v.El(), true))
	case *rlwe.Plaintext:
		return fmt.Sprintf("pt%v|%v", snapEl(v.El(), true), snapPoly(v.Value))
	case *big.Int:
		return "bigint:" + v.String()
	case *big.Float:
		return "bigfloat:" + bigFloatString(v)
	case *bignum.Complex:
		return "bigcomplex:" + complexString(v)
	case []uint64:
		return fmt.Sprintf("[]uint64:%v", v)
	case []int64:
		return fmt.Sprintf("[]int64:%v", v)
	case []float64:
		return fmt.Sprintf("[]float64:%x", v)
	case []complex128:
		return fmt.Sprintf("[]complex128:%v", v)
	case []*big.Float:
		var sb strings.Builder
		for _, e := range v {
			fmt.Fprintf(&sb, "%p=%s;", e, bigFloatString(e))
		}
		return "[]bigfloat:" + sb.String()
	case []*bignum.Complex:
		var sb strings.Builder
		for _, e := range v {
			fmt.Fprintf(&sb, "%p=%s;", e, complexString(e))
		}
		return "[]bigcomplex:" + sb.String()
	case []int:
		return fmt.Sprintf("[]int:%v", v)
	case clt.LinearTransformation:
		return snapLT(v)
	case bignum.Polynomial:
		return snapBigPoly(v)
	default:
		return fmt.Sprintf("%T:%v", v, v)
	}
}

// ---------------------------------------------------------------------------------------------------------------------
// data generation helpers
// ---------------------------------------------------------------------------------------------------------------------

// fillPoly fills the polynomial with reduced uniform values (pattern 0), or with q-1 everywhere (pattern 1).
func fillPoly(r *ring.Ring, p ring.Poly, rng *h.SplitMix, pattern int) {
	for i := range p.Coeffs {
		q := r.SubRings[i].Modulus
		for j := range p.Coeffs[i] {
			if pattern == 1 {
				p.Coeffs[i][j] = q - 1
			} else {
				p.Coeffs[i][j] = rng.Uint64() % q
			}
		}
	}
}

func fillPolyQP(r *ringqp.Ring, p ringqp.Poly, rng *h.SplitMix, pattern int) {
	if r.RingQ != nil && p.Q.Level() >= 0 {
		fillPoly(r.RingQ, p.Q, rng, pattern)
	}
	if r.RingP != nil && p.P.Level() >= 0 {
		fillPoly(r.RingP, p.P, rng, pattern)
	}
}

// poisonRLWE overwrites every exported scratch buffer of an rlwe evaluator.
func poisonRLWE(ev *rlwe.Evaluator, rng *h.SplitMix, pattern int) {
	p := ev.GetRLWEParameters()
	b := ev.GetEvaluatorBuffer()
	for i := range b.BuffCt.Value {
		fillPoly(p.RingQ(), b.BuffCt.Value[i], rng, pattern)
	}
	for i := range b.BuffQP {
		fillPolyQP(p.RingQP(), b.BuffQP[i], rng, pattern)
	}
	fillPoly(p.RingQ(), b.BuffInvNTT, rng, pattern)
	for i := range b.BuffDecompQP {
		fillPolyQP(p.RingQP(), b.BuffDecompQP[i], rng, pattern)
	}
	for i := range b.BuffBitDecomp {
		if pattern == 1 {
			b.BuffBitDecomp[i] = ^uint64(0)
		} else {
			b.BuffBitDecomp[i] = rng.Uint64()
		}
	}
}

func clampLevel(max, drop int) int {
	l := max - drop
	if l < 0 {
		l = 0
	}
	return l
}

func minInt(a ...int) int {
	m := a[0]
	for _, v := range a[1:] {
		if v < m {
			m = v
		}
	}
	return m
}

func maxInt(a ...int) int {
	m := a[0]
	for _, v := range a[1:] {
		if v > m {
			m = v
		}
	}
	return m
}

// protect runs f and converts a panic into a string.
func protect(f func() error) (err error, pan string) {
	defer func() {
		if r := recover(); r != nil {
			pan = fmt.Sprint(r)
			if len(pan) > 200 {
				pan = pan[:200]
			}
		}
	}()
	return f(), ""
}

var aliasNames = []string{"fresh", "out==op0", "out==op1", "op0==op1", "out==op0==op1"}
