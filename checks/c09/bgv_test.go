package c09

import (
	"fmt"
	"testing"

	"verif/internal/h"

	"github.com/tuneinsight/lattigo/v6/core/rlwe"
	"github.com/tuneinsight/lattigo/v6/ring"
	"pgregory.net/rapid"
)

// shapes ---------------------------------------------------------------------------------------------------------------

func natBinary(kindDeg func(da, db int) int) func(e *env, a *rlwe.Ciphertext, b any, arg [3]int) (int, int) {
	return func(e *env, a *rlwe.Ciphertext, b any, arg [3]int) (int, int) {
		if el := elementOf(b); el != nil {
			return kindDeg(a.Degree(), el.Degree()), minInt(a.Level(), el.Level())
		}
		return a.Degree(), a.Level()
	}
}

var (
	natAdd      = natBinary(func(da, db int) int { return maxInt(da, db) })
	natMul      = natBinary(func(da, db int) int { return da + db })
	natMulRelin = natBinary(func(da, db int) int {
		if da+db >= 2 {
			return 1
		}
		return da + db
	})
	natSame = func(e *env, a *rlwe.Ciphertext, b any, arg [3]int) (int, int) { return a.Degree(), a.Level() }
	natDeg1 = func(e *env, a *rlwe.Ciphertext, b any, arg [3]int) (int, int) { return 1, a.Level() }
)

func galRot(e *env, arg [3]int) []uint64 { return []uint64{e.rp.GaloisElement(arg[0])} }
func galRow(e *env, arg [3]int) []uint64 {
	return []uint64{e.rp.GaloisElementOrderTwoOrthogonalSubgroup()}
}
func galInnerSum(e *env, arg [3]int) []uint64 {
	if arg[0] <= 0 || arg[1] <= 0 {
		return nil
	}
	g := rlwe.GaloisElementsForInnerSum(e.rp, arg[0], arg[1])
	if arg[1] >= 2 {
		g = append(g, rlwe.GaloisElementsForInnerSum(e.rp, arg[0], arg[1]/2)...)
	}
	if e.rp.RingType() == ring.Standard {
		g = append(g, e.rp.GaloisElementOrderTwoOrthogonalSubgroup())
	}
	return g
}
func galReplicate(e *env, arg [3]int) []uint64 {
	if arg[0] <= 0 || arg[1] <= 0 {
		return nil
	}
	return rlwe.GaloisElementsForReplicate(e.rp, arg[0], arg[1])
}

type bgvBin func(w *world, a *rlwe.Ciphertext, b rlwe.Operand, out *rlwe.Ciphertext) error
type bgvBinNew func(w *world, a *rlwe.Ciphertext, b rlwe.Operand) (*rlwe.Ciphertext, error)

func bin(f bgvBin) func(w *world, a *rlwe.Ciphertext, b any, out *rlwe.Ciphertext, arg [3]int) (*rlwe.Ciphertext, error) {
	return func(w *world, a *rlwe.Ciphertext, b any, out *rlwe.Ciphertext, arg [3]int) (*rlwe.Ciphertext, error) {
		return nil, f(w, a, b, out)
	}
}

func binNew(f bgvBinNew) func(w *world, a *rlwe.Ciphertext, b any, out *rlwe.Ciphertext, arg [3]int) (*rlwe.Ciphertext, error) {
	return func(w *world, a *rlwe.Ciphertext, b any, out *rlwe.Ciphertext, arg [3]int) (*rlwe.Ciphertext, error) {
		return f(w, a, b)
	}
}

type callFn = func(w *world, a *rlwe.Ciphertext, b any, out *rlwe.Ciphertext, arg [3]int) (*rlwe.Ciphertext, error)

func init() {
	d12 := []int{1, 2}
	d1 := []int{1}
	register(
		&opDesc{name: "Add", scheme: "bgv", binary: true, aDegs: d12, natural: natAdd, call: bin(func(w *world, a *rlwe.Ciphertext, b rlwe.Operand, out *rlwe.Ciphertext) error {
			return w.bgv.Add(a, b, out)
		})},
		&opDesc{name: "Sub", scheme: "bgv", binary: true, aDegs: d12, natural: natAdd, call: bin(func(w *world, a *rlwe.Ciphertext, b rlwe.Operand, out *rlwe.Ciphertext) error {
			return w.bgv.Sub(a, b, out)
		})},
		&opDesc{name: "Mul", scheme: "bgv", binary: true, aDegs: d12, natural: natMul, call: bin(func(w *world, a *rlwe.Ciphertext, b rlwe.Operand, out *rlwe.Ciphertext) error {
			return w.bgv.Mul(a, b, out)
		})},
		&opDesc{name: "MulRelin", scheme: "bgv", binary: true, aDegs: d1, natural: natMulRelin, call: bin(func(w *world, a *rlwe.Ciphertext, b rlwe.Operand, out *rlwe.Ciphertext) error {
			return w.bgv.MulRelin(a, b, out)
		})},
		&opDesc{name: "MulScaleInvariant", scheme: "bgv", binary: true, aDegs: d1, natural: natMul, call: bin(func(w *world, a *rlwe.Ciphertext, b rlwe.Operand, out *rlwe.Ciphertext) error {
			return w.bgv.MulScaleInvariant(a, b, out)
		})},
		&opDesc{name: "MulRelinScaleInvariant", scheme: "bgv", binary: true, aDegs: d1, natural: natMulRelin, call: bin(func(w *world, a *rlwe.Ciphertext, b rlwe.Operand, out *rlwe.Ciphertext) error {
			return w.bgv.MulRelinScaleInvariant(a, b, out)
		})},
		&opDesc{name: "MulThenAdd", scheme: "bgv", binary: true, acc: true, aDegs: d1, call: bin(func(w *world, a *rlwe.Ciphertext, b rlwe.Operand, out *rlwe.Ciphertext) error {
			return w.bgv.MulThenAdd(a, b, out)
		})},
		&opDesc{name: "MulRelinThenAdd", scheme: "bgv", binary: true, acc: true, aDegs: d1, call: bin(func(w *world, a *rlwe.Ciphertext, b rlwe.Operand, out *rlwe.Ciphertext) error {
			return w.bgv.MulRelinThenAdd(a, b, out)
		})},
		&opDesc{name: "AddNew", scheme: "bgv", binary: true, isNew: true, aDegs: d12, call: binNew(func(w *world, a *rlwe.Ciphertext, b rlwe.Operand) (*rlwe.Ciphertext, error) {
			return w.bgv.AddNew(a, b)
		})},
		&opDesc{name: "SubNew", scheme: "bgv", binary: true, isNew: true, aDegs: d12, call: binNew(func(w *world, a *rlwe.Ciphertext, b rlwe.Operand) (*rlwe.Ciphertext, error) {
			return w.bgv.SubNew(a, b)
		})},
		&opDesc{name: "MulNew", scheme: "bgv", binary: true, isNew: true, aDegs: d1, call: binNew(func(w *world, a *rlwe.Ciphertext, b rlwe.Operand) (*rlwe.Ciphertext, error) {
			return w.bgv.MulNew(a, b)
		})},
		&opDesc{name: "MulRelinNew", scheme: "bgv", binary: true, isNew: true, aDegs: d1, call: binNew(func(w *world, a *rlwe.Ciphertext, b rlwe.Operand) (*rlwe.Ciphertext, error) {
			return w.bgv.MulRelinNew(a, b)
		})},
		&opDesc{name: "MulScaleInvariantNew", scheme: "bgv", binary: true, isNew: true, aDegs: d1, call: binNew(func(w *world, a *rlwe.Ciphertext, b rlwe.Operand) (*rlwe.Ciphertext, error) {
			return w.bgv.MulScaleInvariantNew(a, b)
		})},
		&opDesc{name: "MulRelinScaleInvariantNew", scheme: "bgv", binary: true, isNew: true, aDegs: d1, call: binNew(func(w *world, a *rlwe.Ciphertext, b rlwe.Operand) (*rlwe.Ciphertext, error) {
			return w.bgv.MulRelinScaleInvariantNew(a, b)
		})},

		// Rescale is documented as a no-op on a scale-invariant (BFV) evaluator: excluded there.
		&opDesc{name: "Rescale", scheme: "bgv", aDegs: d12, noBFV: true,
			natural: func(e *env, a *rlwe.Ciphertext, b any, arg [3]int) (int, int) { return a.Degree(), a.Level() - 1 },
			call: func(w *world, a *rlwe.Ciphertext, b any, out *rlwe.Ciphertext, arg [3]int) (*rlwe.Ciphertext, error) {
				return nil, w.bgv.Rescale(a, out)
			}},
		&opDesc{name: "Relinearize", scheme: "bgv", aDegs: []int{2}, natural: natDeg1,
			call: func(w *world, a *rlwe.Ciphertext, b any, out *rlwe.Ciphertext, arg [3]int) (*rlwe.Ciphertext, error) {
				return nil, w.bgv.Relinearize(a, out)
			}},
		&opDesc{name: "RelinearizeNew", scheme: "bgv", aDegs: []int{2}, isNew: true,
			call: func(w *world, a *rlwe.Ciphertext, b any, out *rlwe.Ciphertext, arg [3]int) (*rlwe.Ciphertext, error) {
				return w.bgv.RelinearizeNew(a)
			}},
		&opDesc{name: "RotateColumns", scheme: "bgv", aDegs: d1, natural: natSame, gal: galRot,
			call: func(w *world, a *rlwe.Ciphertext, b any, out *rlwe.Ciphertext, arg [3]int) (*rlwe.Ciphertext, error) {
				return nil, w.bgv.RotateColumns(a, arg[0], out)
			}},
		&opDesc{name: "RotateColumnsNew", scheme: "bgv", aDegs: d1, isNew: true, gal: galRot,
			call: func(w *world, a *rlwe.Ciphertext, b any, out *rlwe.Ciphertext, arg [3]int) (*rlwe.Ciphertext, error) {
				return w.bgv.RotateColumnsNew(a, arg[0])
			}},
		&opDesc{name: "RotateRows", scheme: "bgv", aDegs: d1, natural: natSame, gal: galRow,
			call: func(w *world, a *rlwe.Ciphertext, b any, out *rlwe.Ciphertext, arg [3]int) (*rlwe.Ciphertext, error) {
				return nil, w.bgv.RotateRows(a, out)
			}},
		&opDesc{name: "RotateRowsNew", scheme: "bgv", aDegs: d1, isNew: true, gal: galRow,
			call: func(w *world, a *rlwe.Ciphertext, b any, out *rlwe.Ciphertext, arg [3]int) (*rlwe.Ciphertext, error) {
				return w.bgv.RotateRowsNew(a)
			}},
		&opDesc{impl: "rlwe.ApplyEvaluationKey", name: "ApplyEvaluationKey", scheme: "bgv", aDegs: d1, natural: natSame,
			call: func(w *world, a *rlwe.Ciphertext, b any, out *rlwe.Ciphertext, arg [3]int) (*rlwe.Ciphertext, error) {
				return nil, w.bgv.ApplyEvaluationKey(a, w.swk, out)
			}},
		&opDesc{impl: "rlwe.ApplyEvaluationKey", name: "ApplyEvaluationKeyNew", scheme: "bgv", aDegs: d1, isNew: true,
			call: func(w *world, a *rlwe.Ciphertext, b any, out *rlwe.Ciphertext, arg [3]int) (*rlwe.Ciphertext, error) {
				return w.bgv.ApplyEvaluationKeyNew(a, w.swk)
			}},
		&opDesc{name: "InnerSum", scheme: "bgv", aDegs: d1, natural: natSame, gal: galInnerSum,
			call: func(w *world, a *rlwe.Ciphertext, b any, out *rlwe.Ciphertext, arg [3]int) (*rlwe.Ciphertext, error) {
				return nil, w.bgv.InnerSum(a, arg[0], arg[1], out)
			}},
		&opDesc{impl: "rlwe.PartialTracesSum", name: "RotateAndAdd", scheme: "bgv", aDegs: d1, natural: natSame, gal: galInnerSum,
			call: func(w *world, a *rlwe.Ciphertext, b any, out *rlwe.Ciphertext, arg [3]int) (*rlwe.Ciphertext, error) {
				return nil, w.bgv.RotateAndAdd(a, arg[0], arg[1], out)
			}},
		&opDesc{impl: "rlwe.PartialTracesSum", name: "Replicate", scheme: "bgv", aDegs: d1, natural: natSame, gal: galReplicate,
			call: func(w *world, a *rlwe.Ciphertext, b any, out *rlwe.Ciphertext, arg [3]int) (*rlwe.Ciphertext, error) {
				return nil, w.bgv.Replicate(a, arg[0], arg[1], out)
			}},
	)
}

// generator ------------------------------------------------------------------------------------------------------------

var tru = true

// chainShapes are the (Q sizes, P count) patterns of the parameter pool. Parameter construction costs ~20 ms (lattigo
// factors q-1 for every prime), so the generator draws from a small deterministic pool: (logN, shape, ring type[, NTT
// flag]) fixes the primes. The case still stores the explicit literal.
var chainShapes = []struct {
	q []int
	p int
}{
	{[]int{30}, 0},
	{[]int{40, 30}, 1},
	{[]int{55, 45, 36}, 1},
	{[]int{58, 30, 30, 50}, 2},
	{[]int{33, 58, 41}, 0},
	{[]int{50, 50}, 2},
}

// poolMinLogN is the smallest ring degree poolSpec draws (raised by generators that need sub-rings).
var poolMinLogN = 4

func poolSpec(t *rapid.T, allowCI bool, ntt *bool, sizeShift int, needP ...bool) h.RLWESpec {
	maxLogN := 6
	if h.Thorough() {
		maxLogN = 7
	}
	var s h.RLWESpec
	s.LogN = rapid.IntRange(poolMinLogN, maxLogN).Draw(t, "logN")
	shapes := []int{0, 1, 2, 3, 4, 5}
	if len(needP) > 0 && needP[0] {
		shapes = []int{2, 3, 3} // chains with an auxiliary modulus (hoisted rotations) and 3-4 Q primes (circuit depth)
	}
	sh := chainShapes[shapes[rapid.IntRange(0, len(shapes)-1).Draw(t, "chainShape")]]
	if allowCI {
		s.CI = rapid.IntRange(0, 2).Draw(t, "ringType") == 2
	}
	if ntt != nil {
		s.NTT = *ntt
	} else {
		s.NTT = rapid.IntRange(0, 1).Draw(t, "nttFlag") == 0
	}
	sizes := make([]int, len(sh.q))
	for i, b := range sh.q {
		sizes[i] = b + sizeShift
		if sizes[i] > 60 {
			sizes[i] = 60
		}
	}
	used := map[uint64]bool{}
	first := func(i, avail int) int { return 0 }
	var err error
	if s.Q, err = h.DistinctPrimes(sizes, s.NthRoot(), first, used); err != nil {
		t.Fatalf("primes: %v", err)
	}
	if sh.p > 0 {
		ps := make([]int, sh.p)
		for i := range ps {
			ps[i] = 61
		}
		if s.P, err = h.DistinctPrimes(ps, s.NthRoot(), first, used); err != nil {
			t.Fatalf("primes: %v", err)
		}
	}
	s.Xs, s.Xe = h.DefaultXs, h.DefaultXe
	return s
}

func genBGVSpec(t *rapid.T, needP ...bool) *h.BGVSpec {
	s := poolSpec(t, false, &tru, 0, needP...)
	used := map[uint64]bool{}
	for _, q := range append(append([]uint64{}, s.Q...), s.P...) {
		used[q] = true
	}
	tb := []int{17, 20, 28}[rapid.IntRange(0, 2).Draw(t, "tbits")]
	ts, err := h.DistinctPrimes([]int{tb}, uint64(2)<<s.LogN, func(i, avail int) int { return 0 }, used)
	if err != nil {
		t.Fatalf("plaintext modulus: %v", err)
	}
	return &h.BGVSpec{RLWESpec: s, T: ts[0]}
}

func genCtSpec(t *rapid.T, label string, degs []int, maxDrop int) CtSpec {
	return CtSpec{
		Deg:   degs[rapid.IntRange(0, len(degs)-1).Draw(t, label+"_deg")],
		Drop:  rapid.IntRange(0, maxDrop).Draw(t, label+"_drop"),
		Scale: rapid.IntRange(0, 3).Draw(t, label+"_scale"),
		Dims:  []int{0, 0, 0, 0, 1, 3}[rapid.IntRange(0, 5).Draw(t, label+"_dims")],
	}
}

func genArgs(t *rapid.T, label string, n int) [3]int {
	ks := []int{0, 1, 2, 3, -1, 5, n/2 - 1, n / 4}
	return [3]int{
		ks[rapid.IntRange(0, len(ks)-1).Draw(t, label+"_k")], // rotation / batch size
		rapid.IntRange(1, 8).Draw(t, label+"_n"),
		rapid.IntRange(0, 6).Draw(t, label+"_x"),
	}
}

func fixArgs(op string, arg [3]int) [3]int {
	switch op {
	case "InnerSum", "RotateAndAdd", "Replicate", "PartialTracesSum", "InnerFunction":
		// batch size must be positive
		b := arg[0]
		if b < 0 {
			b = -b
		}
		if b == 0 {
			b = 1
		}
		arg[0] = b
	}
	return arg
}

func genEvalCase(t *rapid.T, scheme string, only ...string) EvalCase {
	c := EvalCase{Scheme: scheme}
	var n, nQ int
	bfvOnly := false
	switch baseScheme(scheme) {
	case "bgv":
		c.BGV = genBGVSpec(t, len(only) > 0)
		n, nQ = c.BGV.N(), len(c.BGV.Q)
	case "ckks":
		c.CKKS = genCKKSSpec(t, len(only) > 0)
		n, nQ = c.CKKS.N(), len(c.CKKS.Q)
	case "rlwe":
		c.RLWE = genRLWESpec(t)
		n, nQ = c.RLWE.N(), len(c.RLWE.Q)
	}
	c.Seed = rapid.Uint64().Draw(t, "seed")

	var names []string
	for _, name := range opNames[baseScheme(scheme)] {
		if scheme == "bfv" && opTable["bgv."+name].noBFV {
			continue
		}
		names = append(names, name)
	}
	targets := names
	if scheme == "bfv" {
		bfvOnly = true
		// only the methods whose behaviour depends on the ScaleInvariant flag are targets (all others are history)
		targets = []string{"Mul", "MulNew", "MulRelin", "MulRelinNew"}
	}
	if len(only) > 0 {
		targets = only
	}
	c.Op = targets[rapid.IntRange(0, len(targets)-1).Draw(t, "op")]
	o := lookupOp(scheme, c.Op)
	c.A = genCtSpec(t, "a", o.aDegs, nQ-1)
	if len(only) > 0 && c.A.Drop > 1 {
		c.A.Drop = 0 // circuits need depth
	}
	c.Arg = fixArgs(c.Op, genArgs(t, "arg", n))
	c.Alias = rapid.IntRange(0, 4).Draw(t, "alias")
	if o.binary {
		kinds := o.kinds
		if kinds == nil {
			kinds = kindsOf(scheme)
		}
		if bfvOnly {
			// scalar operands take the same code path as on a BGV evaluator
			kinds = []string{"ct", "pt", "vecU", "vecI"}
		}
		// ciphertext operands get half of the weight
		if rapid.Bool().Draw(t, "bIsCt") {
			c.B.Kind = "ct"
		} else {
			c.B.Kind = kinds[rapid.IntRange(0, len(kinds)-1).Draw(t, "bKind")]
		}
		c.B.CtSpec = genCtSpec(t, "b", []int{1, 1, 1, 2}, nQ-1)
		// IsBatched must agree between the operands (else the call is rejected): mostly equal, sometimes not
		c.A.Unbatched = rapid.IntRange(0, 7).Draw(t, "unbatched") == 7
		c.B.Unbatched = c.A.Unbatched != (rapid.IntRange(0, 9).Draw(t, "batchMismatch") == 9)
		if c.B.Kind == "pt" {
			c.B.Deg = 0
		}
		if c.CKKS != nil && c.CKKS.CI {
			// the conjugate-invariant ring only carries real values
			if r, ok := map[string]string{"complex128": "float64", "bigcomplex": "bigfloat", "vecC": "vecF", "vecBC": "vecBF"}[c.B.Kind]; ok {
				c.B.Kind = r
			}
		}
		if o.kinds != nil {
			c.B.Kind = o.kinds[rapid.IntRange(0, len(o.kinds)-1).Draw(t, "bKindSpecial")]
		}
		c.B.Val = rapid.IntRange(0, 7).Draw(t, "bVal")
		c.B.Prec = rapid.IntRange(0, 3).Draw(t, "bPrec")
		c.Twice = rapid.Bool().Draw(t, "twice")
		c.B.Len = []int{0, 1, n / 2, 3}[rapid.IntRange(0, 3).Draw(t, "bLen")]
		if c.B.Kind == "lt" {
			// the shape of the transformation is a function of the method arguments (Galois keys are generated from them)
			c.B.Val, c.B.Len, c.B.Deg = c.Arg[2], c.Arg[1], 0
		}
	}
	c.Out.New = rapid.Bool().Draw(t, "outNew")
	c.Out.CtSpec = genCtSpec(t, "out", []int{1, 2}, nQ-1)
	nh := rapid.IntRange(0, 4).Draw(t, "nHist")
	if rapid.Bool().Draw(t, "noHist") {
		nh = 0
	}
	for i := 0; i < nh; i++ {
		hn := names[rapid.IntRange(0, len(names)-1).Draw(t, fmt.Sprintf("h%d_op", i))]
		ho := lookupOp(scheme, hn)
		hk := "ct"
		if ho.binary {
			kinds := kindsOf(scheme)
			if ho.kinds != nil {
				kinds = ho.kinds
			}
			hk = kinds[rapid.IntRange(0, len(kinds)-1).Draw(t, fmt.Sprintf("h%d_kind", i))]
			if c.CKKS != nil && c.CKKS.CI {
				if r, ok := map[string]string{"complex128": "float64", "bigcomplex": "bigfloat", "vecC": "vecF", "vecBC": "vecBF"}[hk]; ok {
					hk = r
				}
			}
		}
		c.Hist = append(c.Hist, HistOp{Op: hn, Kind: hk, Arg: fixArgs(hn, genArgs(t, fmt.Sprintf("h%d", i), n)), Seed: rapid.Uint64().Draw(t, fmt.Sprintf("h%d_seed", i))})
	}
	c.Poison = rapid.IntRange(0, 2).Draw(t, "poison")
	if baseScheme(scheme) != "rlwe" && rapid.IntRange(0, 2).Draw(t, "outHistOn") == 2 {
		c.OutHist = genOutHist(t)
	}
	return c
}

var propBGV = h.NewProp("TestPropBGV", h.Budget{Quick: 4000, Thorough: 120000},
	func(t *rapid.T) EvalCase { return genEvalCase(t, "bgv") }, runEval)

func TestPropBGV(t *testing.T) {
	h.SetExtra("TestPropBGV", "registry", registryAudit())
	propBGV.Check(t)
}

var propBFV = h.NewProp("TestPropBFV", h.Budget{Quick: 2000, Thorough: 60000},
	func(t *rapid.T) EvalCase { return genEvalCase(t, "bfv") }, runEval)

func TestPropBFV(t *testing.T) { propBFV.Check(t) }

// genOutHist draws the earlier life of the output object: presets that grow it to degree 2 and shrink it in place, or
// a free sequence of 1-4 in-place steps.
func genOutHist(t *rapid.T) []string {
	switch rapid.IntRange(0, 4).Draw(t, "outHistPreset") {
	case 0:
		return []string{"Mul2", "Relin"}
	case 1:
		return []string{"Mul2", "MulRelinInto"}
	case 2:
		return []string{"AddDeg2", "Relin", "DropLevel"}
	}
	n := rapid.IntRange(1, 4).Draw(t, "outHistLen")
	steps := make([]string, n)
	for i := range steps {
		steps[i] = outSteps[rapid.IntRange(0, len(outSteps)-1).Draw(t, fmt.Sprintf("outHist%d", i))]
	}
	return steps
}

// TestPropOutputHistory concentrates on the clause "the result does not depend on what the output object was used for
// before": the receiver is grown and shrunk in place (degree and level) by real evaluator calls and then receives an
// operation that grows it again and accumulates or overwrites; the reference is the same call on a fresh object holding
// the same value (accumulating methods) or on a freshly allocated receiver.
var outHistTargets = []string{"MulThenAdd", "MulRelinThenAdd", "MulThenAdd", "Mul", "MulRelin", "Add", "Sub"}

func genOutHistCase(t *rapid.T) EvalCase {
	scheme := []string{"bgv", "ckks", "bfv"}[rapid.IntRange(0, 2).Draw(t, "schemeSel")]
	targets := outHistTargets
	if scheme == "bfv" {
		targets = []string{"Mul", "MulRelin"}
	}
	c := genEvalCase(t, scheme, targets...)
	if rapid.IntRange(0, 3).Draw(t, "bForceCt") != 0 {
		c.B.Kind = "ct"
		if c.B.Deg == 0 {
			c.B.Deg = 1
		}
	}
	if c.Alias != 3 {
		c.Alias = 0
	}
	c.Out.New = false
	c.OutHist = genOutHist(t)
	return c
}

var propOutHist = h.NewProp("TestPropOutputHistory", h.Budget{Quick: 2000, Thorough: 40000}, genOutHistCase, runEval)

func TestPropOutputHistory(t *testing.T) { propOutHist.Check(t) }
