package c09

import (
	"fmt"
	"testing"

	"verif/internal/h"

	"github.com/tuneinsight/lattigo/v6/core/rgsw"
	"github.com/tuneinsight/lattigo/v6/core/rlwe"
	"pgregory.net/rapid"
)

// RGSWCase is one rgsw.Evaluator.ExternalProduct(op0, op1, opOut) call.
type RGSWCase struct {
	RLWE   *h.RLWESpec `json:"rlwe"`
	Seed   uint64      `json:"seed"`
	Base2  int         `json:"base2"`  // BaseTwoDecomposition of the RGSW ciphertext
	Alias  bool        `json:"alias"`  // opOut == op0
	Reuse  bool        `json:"reuse"`  // opOut holds the result of an earlier use (same shape, random content)
	Hist   int         `json:"hist"`   // earlier external products on the same evaluator
	Poison int         `json:"poison"` // scratch buffers: 0 untouched, 1 q-1, 2 random
	PK     bool        `json:"pk"`
}

func (c RGSWCase) RandSeed() uint64 { return c.Seed }

func genRGSWCase(t *rapid.T) RGSWCase {
	s := poolSpec(t, false, &tru, 0)
	return RGSWCase{
		RLWE:   &s,
		Seed:   rapid.Uint64().Draw(t, "seed"),
		Base2:  []int{0, 0, 7, 12, 16}[rapid.IntRange(0, 4).Draw(t, "base2")],
		Alias:  rapid.Bool().Draw(t, "alias"),
		Reuse:  rapid.Bool().Draw(t, "reuse"),
		Hist:   rapid.IntRange(0, 3).Draw(t, "hist"),
		Poison: rapid.IntRange(0, 2).Draw(t, "poison"),
		PK:     rapid.Bool().Draw(t, "pk"),
	}
}

func hashRGSW(ct *rgsw.Ciphertext) uint64 {
	return hashGadget(&ct.Value[0]) ^ hashGadget(&ct.Value[1])<<1
}

func runRGSW(c RGSWCase, rec *h.Rec) error {
	p, err := c.RLWE.Build()
	if err != nil {
		rec.Class("params-rejected")
		return nil
	}
	e := &env{scheme: "rlwe", rp: &p, maxLevel: p.MaxLevel()}
	rec.Classf("alias=%v", c.Alias)
	rec.Classf("reuse=%v", c.Reuse)
	rec.Classf("hist=%d", c.Hist)
	rec.Classf("poison=%d", c.Poison)
	rec.Classf("P=%d", p.PCount())
	rec.Classf("base2=%d", c.Base2)

	h.SeedRand(c.Seed ^ 0x6b657973)
	kgen := rlwe.NewKeyGenerator(p)
	sk, pk := kgen.GenKeyPairNew()
	var key rlwe.EncryptionKey = sk
	if c.PK {
		key = pk
	}
	mkRGSW := func(seed uint64) (*rgsw.Ciphertext, string) {
		ct := rgsw.NewCiphertext(p, p.MaxLevelQ(), p.MaxLevelP(), c.Base2)
		pt := rlwe.NewPlaintext(p, p.MaxLevelQ())
		fillPoly(p.RingQ(), pt.Value, h.NewSplitMix(seed), 0)
		pt.IsNTT = true
		_, pan := protect(func() error { return rgsw.NewEncryptor(p, key).Encrypt(pt, ct) })
		return ct, pan
	}
	op1, pan := mkRGSW(c.Seed ^ 0x72)
	if pan != "" {
		rec.Class("result=reference-panicked")
		return nil
	}
	mkOp0 := func() *rlwe.Ciphertext {
		ct := e.mkCt(CtSpec{Deg: 1}, h.NewSplitMix(c.Seed^0xa0))
		ct.IsNTT = true
		return ct
	}
	exec := func(alias, state bool) (in, out *rlwe.Ciphertext, pan string) {
		ev := rgsw.NewEvaluator(p, nil)
		if state {
			for i := 0; i < c.Hist; i++ {
				x := e.mkCt(CtSpec{Deg: 1}, h.NewSplitMix(c.Seed+uint64(i)+5))
				_, _ = protect(func() error { ev.ExternalProduct(x, op1, x); return nil })
			}
			if c.Poison != 0 {
				pat := 0
				if c.Poison == 1 {
					pat = 1
				}
				poisonRLWE(&ev.Evaluator, h.NewSplitMix(c.Seed^0x99), pat)
			}
		}
		in = mkOp0()
		switch {
		case alias:
			out = in
		case state && c.Reuse:
			out = e.mkCt(CtSpec{Deg: 1}, h.NewSplitMix(c.Seed^0x0c))
		default:
			out = rlwe.NewCiphertext(p, 1, p.MaxLevel())
		}
		_, pan = protect(func() error { ev.ExternalProduct(in, op1, out); return nil })
		return
	}
	preOp1 := hashRGSW(op1)
	orig := snapEl(mkOp0().El(), true)

	refIn, refOut, pan := exec(false, false)
	if pan != "" {
		rec.Class("result=reference-panicked")
		rec.Note("reference-panic", pan)
		return nil
	}
	fail := func(key, format string, a ...any) error {
		msg := fmt.Sprintf(format, a...)
		if rec.Known(key, msg) {
			rec.Class("known=" + key)
			return nil
		}
		return h.Failf(key, "%s", msg)
	}
	if d := diffEl(snapEl(refIn.El(), true), orig); d != "" {
		return fail("C09:rgsw.ExternalProduct:input-mutated:op0", "ExternalProduct with a distinct output changed op0: %s", d)
	}
	if hashRGSW(op1) != preOp1 {
		return fail("C09:rgsw.ExternalProduct:input-mutated:op1", "ExternalProduct changed the RGSW ciphertext")
	}
	in, out, pan := exec(c.Alias, true)
	cause := "evaluator-state"
	if c.Alias {
		cause = "out==op0"
	} else if c.Reuse {
		cause = "reused-out"
	}
	if pan != "" {
		return fail("C09:rgsw.ExternalProduct:"+cause+":panic", "ExternalProduct panicked: %s", pan)
	}
	if hashRGSW(op1) != preOp1 {
		return fail("C09:rgsw.ExternalProduct:"+cause+":input-mutated:op1", "ExternalProduct changed the RGSW ciphertext")
	}
	if !c.Alias {
		if d := diffEl(snapEl(in.El(), true), orig); d != "" {
			return fail("C09:rgsw.ExternalProduct:"+cause+":input-mutated:op0", "ExternalProduct changed op0: %s", d)
		}
	}
	// ExternalProduct only promises the polynomials (it does not touch the metadata of opOut)
	a, b := snapEl(out.El(), false), snapEl(refOut.El(), false)
	a.Meta, b.Meta = "", ""
	if d := diffEl(a, b); d != "" {
		// attribute: alias alone?
		if c.Alias {
			if _, o2, p2 := exec(true, false); p2 == "" {
				x := snapEl(o2.El(), false)
				x.Meta = ""
				if diffEl(x, b) == "" {
					cause = "evaluator-state"
				}
			}
		}
		return fail("C09:rgsw.ExternalProduct:"+cause+":wrong-value", "ExternalProduct (alias=%v, reused out=%v, history=%d, poison=%d, P=%d, base2=%d) differs from the call with a distinct fresh output on a brand-new evaluator: %s", c.Alias, c.Reuse, c.Hist, c.Poison, p.PCount(), c.Base2, d)
	}
	rec.Class("result=identical")
	if c.Alias || c.Reuse || c.Hist > 0 || c.Poison != 0 {
		rec.NonTrivial(fmt.Sprintf("rgsw.ExternalProduct|alias=%v|reuse=%v|hist=%v|poison=%d|P=%d|base2=%d|nQ=%d|pk=%v", c.Alias, c.Reuse, c.Hist > 0, c.Poison, p.PCount(), c.Base2, p.QCount(), c.PK))
	}
	return nil
}

var propRGSW = h.NewProp("TestPropRGSW", h.Budget{Quick: 1500, Thorough: 40000}, genRGSWCase, runRGSW)

func TestPropRGSW(t *testing.T) { propRGSW.Check(t) }
