package c09

import (
	"reflect"
	"sort"

	bgvpoly "github.com/tuneinsight/lattigo/v6/circuits/bgv/polynomial"
	ckkspoly "github.com/tuneinsight/lattigo/v6/circuits/ckks/polynomial"
	clt "github.com/tuneinsight/lattigo/v6/circuits/common/lintrans"
	"github.com/tuneinsight/lattigo/v6/core/rgsw"
	"github.com/tuneinsight/lattigo/v6/core/rgsw/blindrot"
	"github.com/tuneinsight/lattigo/v6/core/rlwe"
	"github.com/tuneinsight/lattigo/v6/multiparty"
	"github.com/tuneinsight/lattigo/v6/schemes/bgv"
	"github.com/tuneinsight/lattigo/v6/schemes/ckks"
)

// registryAudit lists, per targeted type, how many exported methods have an entry in this check and which do not
// (accessors, allocators and copy constructors are part of the missing list: the number is a scope statement).
func registryAudit() map[string]any {
	covered := func(scheme string) map[string]bool {
		m := map[string]bool{}
		for _, n := range opNames[scheme] {
			m[n] = true
		}
		return m
	}
	codec := map[string]bool{}
	for _, l := range codecOps {
		for _, n := range l {
			codec[n] = true
		}
	}
	set := func(names ...string) map[string]bool {
		m := map[string]bool{}
		for _, n := range names {
			m[n] = true
		}
		return m
	}
	mp := set("GenShare", "GenShareRoundOne", "GenShareRoundTwo", "AggregateShares", "GenPublicKey", "GenRelinearizationKey", "GenEvaluationKey", "GenGaloisKey",
		"KeySwitch", "GenShamirSecretShare", "GenAdditiveShare", "AllocateShare", "SampleCRP", "AllocateThresholdSecretShare", "GenShamirPolynomial")
	types := []struct {
		name string
		t    reflect.Type
		cov  map[string]bool
	}{
		{"bgv.Evaluator", reflect.TypeOf(&bgv.Evaluator{}), covered("bgv")},
		{"ckks.Evaluator", reflect.TypeOf(&ckks.Evaluator{}), covered("ckks")},
		{"rlwe.Evaluator", reflect.TypeOf(&rlwe.Evaluator{}), covered("rlwe")},
		{"bgv.Encoder", reflect.TypeOf(&bgv.Encoder{}), codec},
		{"ckks.Encoder", reflect.TypeOf(&ckks.Encoder{}), codec},
		{"rlwe.Encryptor", reflect.TypeOf(&rlwe.Encryptor{}), codec},
		{"rlwe.Decryptor", reflect.TypeOf(&rlwe.Decryptor{}), codec},
		{"rlwe.KeyGenerator", reflect.TypeOf(&rlwe.KeyGenerator{}), codec},
		{"rgsw.Evaluator", reflect.TypeOf(&rgsw.Evaluator{}), set("ExternalProduct", "Automorphism", "ApplyEvaluationKey", "Relinearize", "Trace", "PartialTracesSum", "Replicate", "InnerFunction", "AutomorphismHoisted")},
		{"blindrot.Evaluator", reflect.TypeOf(&blindrot.Evaluator{}), set("Evaluate", "ExternalProduct")},
		{"rlwe.RingPackingEvaluator", reflect.TypeOf(&rlwe.RingPackingEvaluator{}), set("Expand", "Pack", "Extract", "ExtractNaive", "Repack", "RepackNaive", "SplitNew", "MergeNew", "Split", "Merge")},
		{"lintrans.Evaluator", reflect.TypeOf(&clt.Evaluator{}), set("EvaluateMany", "EvaluateSequential", "MultiplyByDiagMatrix", "MultiplyByDiagMatrixBSGS")},
		{"bgv polynomial.Evaluator", reflect.TypeOf(&bgvpoly.Evaluator{}), set("Evaluate")},
		{"ckks polynomial.Evaluator", reflect.TypeOf(&ckkspoly.Evaluator{}), set("Evaluate")},
		{"multiparty.PublicKeyGenProtocol", reflect.TypeOf(&multiparty.PublicKeyGenProtocol{}), mp},
		{"multiparty.RelinearizationKeyGenProtocol", reflect.TypeOf(&multiparty.RelinearizationKeyGenProtocol{}), mp},
		{"multiparty.EvaluationKeyGenProtocol", reflect.TypeOf(&multiparty.EvaluationKeyGenProtocol{}), mp},
		{"multiparty.GaloisKeyGenProtocol", reflect.TypeOf(&multiparty.GaloisKeyGenProtocol{}), mp},
		{"multiparty.KeySwitchProtocol", reflect.TypeOf(&multiparty.KeySwitchProtocol{}), mp},
		{"multiparty.PublicKeySwitchProtocol", reflect.TypeOf(&multiparty.PublicKeySwitchProtocol{}), mp},
		{"multiparty.Thresholdizer", reflect.TypeOf(&multiparty.Thresholdizer{}), mp},
		{"multiparty.Combiner", reflect.TypeOf(&multiparty.Combiner{}), mp},
	}
	out := map[string]any{}
	for _, ty := range types {
		var missing []string
		n := 0
		for i := 0; i < ty.t.NumMethod(); i++ {
			name := ty.t.Method(i).Name
			if ty.cov[name] {
				n++
			} else {
				missing = append(missing, name)
			}
		}
		sort.Strings(missing)
		out[ty.name] = map[string]any{"registered": n, "total": ty.t.NumMethod(), "missing": missing}
	}
	return out
}
