package c09

import (
	"fmt"
	"sort"
	"testing"

	"verif/internal/h"

	"github.com/tuneinsight/lattigo/v6/core/rgsw/blindrot"
	"github.com/tuneinsight/lattigo/v6/core/rlwe"
	"github.com/tuneinsight/lattigo/v6/ring"
	"pgregory.net/rapid"
)

// BRCase is one blindrot.Evaluator.Evaluate call on an evaluator that may have been used before.
type BRCase struct {
	LogNBR  int    `json:"logNBR"`
	LogNLWE int    `json:"logNLWE"`
	QBR     uint64 `json:"qBR"`
	QLWE    uint64 `json:"qLWE"`
	NTT     bool   `json:"ntt"`
	Base2   int    `json:"base2"`
	Slots   int    `json:"slots"`
	Hist    int    `json:"hist"`   // earlier Evaluate calls (other ciphertexts) on the same evaluator
	Poison  int    `json:"poison"` // scratch buffers of the embedded rlwe evaluator
	Seed    uint64 `json:"seed"`
}

func (c BRCase) RandSeed() uint64 { return c.Seed }

func genBRCase(t *rapid.T) BRCase {
	var c BRCase
	c.LogNBR = rapid.IntRange(5, 6).Draw(t, "logNBR")
	c.LogNLWE = rapid.IntRange(4, c.LogNBR-1).Draw(t, "logNLWE")
	first := func(i, avail int) int { return 0 }
	q, err := h.DistinctPrimes([]int{27}, uint64(2)<<c.LogNBR, first, nil)
	if err != nil {
		t.Fatalf("primes: %v", err)
	}
	c.QBR = q[0]
	if q, err = h.DistinctPrimes([]int{14}, uint64(2)<<c.LogNLWE, first, nil); err != nil {
		t.Fatalf("primes: %v", err)
	}
	c.QLWE = q[0]
	c.NTT = rapid.Bool().Draw(t, "ntt")
	c.Base2 = []int{7, 4, 9}[rapid.IntRange(0, 2).Draw(t, "base2")]
	c.Slots = rapid.IntRange(1, 4).Draw(t, "slots")
	c.Hist = rapid.IntRange(0, 2).Draw(t, "hist")
	c.Poison = rapid.IntRange(0, 2).Draw(t, "poison")
	c.Seed = rapid.Uint64().Draw(t, "seed")
	return c
}

func runBR(c BRCase, rec *h.Rec) error {
	pBR, err := (h.RLWESpec{LogN: c.LogNBR, Q: []uint64{c.QBR}, Xs: h.DefaultXs, Xe: h.DefaultXe, NTT: c.NTT}).Build()
	if err != nil {
		rec.Class("params-rejected")
		return nil
	}
	pLWE, err := (h.RLWESpec{LogN: c.LogNLWE, Q: []uint64{c.QLWE}, Xs: h.DefaultXs, Xe: h.DefaultXe, NTT: c.NTT}).Build()
	if err != nil {
		rec.Class("params-rejected")
		return nil
	}
	rec.Classf("hist=%d", c.Hist)
	rec.Classf("poison=%d", c.Poison)
	rec.Classf("ntt=%v", c.NTT)

	h.SeedRand(c.Seed ^ 0x6b657973)
	skLWE := rlwe.NewKeyGenerator(pLWE).GenSecretKeyNew()
	skBR := rlwe.NewKeyGenerator(pBR).GenSecretKeyNew()
	b2 := c.Base2
	var brk blindrot.MemBlindRotationEvaluationKeySet
	if _, pan := protect(func() error {
		brk = blindrot.GenEvaluationKeyNew(pBR, skBR, pLWE, skLWE, rlwe.EvaluationKeyParameters{BaseTwoDecomposition: &b2})
		return nil
	}); pan != "" {
		rec.Class("result=reference-rejected")
		return nil
	}
	brkFP := func() string {
		s := ""
		for _, k := range brk.BlindRotationKeys {
			s += fmt.Sprintf("%x.", hashRGSW(k))
		}
		for _, k := range brk.AutomorphismKeys {
			s += fmt.Sprintf("%d:%x.", k.GaloisElement, hashGadget(&k.GadgetCiphertext))
		}
		return s
	}
	mkPoly := func(seed uint64) *ring.Poly {
		p := pBR.RingQ().NewPoly()
		fillPoly(pBR.RingQ(), p, h.NewSplitMix(seed), 0)
		return &p
	}
	mkInputs := func(seed uint64) (*rlwe.Ciphertext, map[int]*ring.Poly) {
		ct := rlwe.NewCiphertext(pLWE, 1, pLWE.MaxLevel())
		rng := h.NewSplitMix(seed)
		for i := range ct.Value {
			fillPoly(pLWE.RingQ(), ct.Value[i], rng, 0)
		}
		m := map[int]*ring.Poly{}
		for i := 0; i < c.Slots; i++ {
			m[i*3%pLWE.N()] = mkPoly(seed + uint64(i) + 100)
		}
		return ct, m
	}
	fpPolys := func(m map[int]*ring.Poly) string {
		ks := make([]int, 0, len(m))
		for k := range m {
			ks = append(ks, k)
		}
		sort.Ints(ks)
		s := ""
		for _, k := range ks {
			s += fmt.Sprintf("%d:%p:%x;", k, m[k], hashPoly(*m[k]))
		}
		return s
	}
	exec := func(ev *blindrot.Evaluator, seed uint64) (res, pre, post string, err error, pan string) {
		ct, m := mkInputs(seed)
		pre = snapAny(ct) + fpPolys(m)
		err, pan = protect(func() error {
			out, e := ev.Evaluate(ct, m, brk)
			res = fpMap(out)
			return e
		})
		post = snapAny(ct) + fpPolys(m)
		return
	}
	ref, _, _, rerr, rpan := exec(blindrot.NewEvaluator(pBR, pLWE), c.Seed)
	if rpan != "" || rerr != nil {
		rec.Class("result=reference-rejected")
		rec.Class("reference-rejected:" + trunc(fmt.Sprint(rpan, rerr), 80))
		return nil
	}
	used := blindrot.NewEvaluator(pBR, pLWE)
	for i := 0; i < c.Hist; i++ {
		_, _, _, _, _ = exec(used, c.Seed+uint64(i)*31+7)
	}
	if c.Poison != 0 {
		pat := 0
		if c.Poison == 1 {
			pat = 1
		}
		poisonRLWE(&used.Evaluator.Evaluator, h.NewSplitMix(c.Seed^0x99), pat)
	}
	preKeys := brkFP()
	got, pre, post, aerr, apan := exec(used, c.Seed)
	fail := func(key, format string, a ...any) error {
		msg := fmt.Sprintf(format, a...)
		if rec.Known(key, msg) {
			rec.Class("known=" + key)
			return nil
		}
		return h.Failf(key, "%s", msg)
	}
	if apan != "" || aerr != nil {
		return fail("C09:blindrot.Evaluate:evaluator-state:panic-or-error", "blindrot.Evaluator.Evaluate fails on an evaluator used before but not on a new one: %s %v", apan, aerr)
	}
	if brkFP() != preKeys {
		return fail("C09:blindrot.Evaluate:input-mutated:keys", "blindrot.Evaluator.Evaluate changed the blind rotation keys")
	}
	if pre != post {
		return fail("C09:blindrot.Evaluate:input-mutated", "blindrot.Evaluator.Evaluate changed its input ciphertext or a test polynomial")
	}
	if got != ref {
		return fail("C09:blindrot.Evaluate:evaluator-state:wrong-value", "blindrot.Evaluator.Evaluate after %d earlier calls (poison %d) differs from the same call on a new evaluator", c.Hist, c.Poison)
	}
	rec.Class("result=identical")
	if c.Hist > 0 || c.Poison != 0 {
		rec.NonTrivial(fmt.Sprintf("blindrot|hist=%d|poison=%d|ntt=%v|base2=%d|slots=%d|%d/%d", c.Hist, c.Poison, c.NTT, c.Base2, c.Slots, c.LogNBR, c.LogNLWE))
	}
	return nil
}

var propBR = h.NewProp("TestPropBlindRotation", h.Budget{Quick: 200, Thorough: 3000}, genBRCase, runBR)

func TestPropBlindRotation(t *testing.T) { propBR.Check(t) }
