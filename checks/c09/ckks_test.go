package c09

import (
	"fmt"
	"testing"

	"verif/internal/h"

	"github.com/tuneinsight/lattigo/v6/core/rlwe"
	"github.com/tuneinsight/lattigo/v6/ring"
	"github.com/tuneinsight/lattigo/v6/ring/ringqp"
	"pgregory.net/rapid"
)

func genCKKSSpec(t *rapid.T, needP ...bool) *h.CKKSSpec {
	k := rapid.IntRange(0, 2).Draw(t, "logScale")
	s := poolSpec(t, true, &tru, []int{0, 2, -3}[k], needP...)
	return &h.CKKSSpec{RLWESpec: s, LogScale: []int{30, 40, 45}[k]}
}

func ckksRescales(e *env) int { return e.ckksP.LevelsConsumedPerRescaling() }

func init() {
	d12 := []int{1, 2}
	d1 := []int{1}
	type W = world
	type CT = rlwe.Ciphertext
	register(
		&opDesc{name: "Add", scheme: "ckks", binary: true, aDegs: d12, natural: natAdd, call: bin(func(w *W, a *CT, b rlwe.Operand, out *CT) error { return w.ckks.Add(a, b, out) })},
		&opDesc{name: "Sub", scheme: "ckks", binary: true, aDegs: d12, natural: natAdd, call: bin(func(w *W, a *CT, b rlwe.Operand, out *CT) error { return w.ckks.Sub(a, b, out) })},
		&opDesc{name: "Mul", scheme: "ckks", binary: true, aDegs: d12, natural: natMul, call: bin(func(w *W, a *CT, b rlwe.Operand, out *CT) error { return w.ckks.Mul(a, b, out) })},
		&opDesc{name: "MulRelin", scheme: "ckks", binary: true, aDegs: d1, natural: natMulRelin, call: bin(func(w *W, a *CT, b rlwe.Operand, out *CT) error { return w.ckks.MulRelin(a, b, out) })},
		&opDesc{name: "MulThenAdd", scheme: "ckks", binary: true, acc: true, aDegs: d1, call: bin(func(w *W, a *CT, b rlwe.Operand, out *CT) error { return w.ckks.MulThenAdd(a, b, out) })},
		&opDesc{name: "MulRelinThenAdd", scheme: "ckks", binary: true, acc: true, aDegs: d1, call: bin(func(w *W, a *CT, b rlwe.Operand, out *CT) error { return w.ckks.MulRelinThenAdd(a, b, out) })},
		&opDesc{name: "AddNew", scheme: "ckks", binary: true, isNew: true, aDegs: d12, call: binNew(func(w *W, a *CT, b rlwe.Operand) (*CT, error) { return w.ckks.AddNew(a, b) })},
		&opDesc{name: "SubNew", scheme: "ckks", binary: true, isNew: true, aDegs: d12, call: binNew(func(w *W, a *CT, b rlwe.Operand) (*CT, error) { return w.ckks.SubNew(a, b) })},
		&opDesc{name: "MulNew", scheme: "ckks", binary: true, isNew: true, aDegs: d1, call: binNew(func(w *W, a *CT, b rlwe.Operand) (*CT, error) { return w.ckks.MulNew(a, b) })},
		&opDesc{name: "MulRelinNew", scheme: "ckks", binary: true, isNew: true, aDegs: d1, call: binNew(func(w *W, a *CT, b rlwe.Operand) (*CT, error) { return w.ckks.MulRelinNew(a, b) })},

		&opDesc{name: "Rescale", scheme: "ckks", aDegs: d12,
			natural: func(e *env, a *CT, b any, arg [3]int) (int, int) { return a.Degree(), a.Level() - ckksRescales(e) },
			call:    func(w *W, a *CT, b any, out *CT, arg [3]int) (*CT, error) { return nil, w.ckks.Rescale(a, out) }},
		// RescaleTo(minScale = default scale): the natural level depends on the scale; the output is allocated at the input level
		&opDesc{name: "RescaleTo", scheme: "ckks", aDegs: d12, natural: natSame,
			call: func(w *W, a *CT, b any, out *CT, arg [3]int) (*CT, error) {
				return nil, w.ckks.RescaleTo(a, w.ckksP.DefaultScale(), out)
			}},
		&opDesc{name: "ScaleUp", scheme: "ckks", aDegs: d12, natural: natSame,
			call: func(w *W, a *CT, b any, out *CT, arg [3]int) (*CT, error) {
				return nil, w.ckks.ScaleUp(a, rlwe.NewScale(uint64(1)<<uint(arg[2]+1)), out)
			}},
		&opDesc{name: "ScaleUpNew", scheme: "ckks", aDegs: d12, isNew: true,
			call: func(w *W, a *CT, b any, out *CT, arg [3]int) (*CT, error) {
				return w.ckks.ScaleUpNew(a, rlwe.NewScale(uint64(1)<<uint(arg[2]+1)))
			}},
		&opDesc{name: "DropLevelNew", scheme: "ckks", aDegs: d12, isNew: true,
			call: func(w *W, a *CT, b any, out *CT, arg [3]int) (*CT, error) {
				if arg[2] > a.Level() {
					return nil, fmt.Errorf("harness: not enough levels")
				}
				return w.ckks.DropLevelNew(a, arg[2]), nil
			}},
		&opDesc{name: "Relinearize", scheme: "ckks", aDegs: []int{2}, natural: natDeg1,
			call: func(w *W, a *CT, b any, out *CT, arg [3]int) (*CT, error) { return nil, w.ckks.Relinearize(a, out) }},
		&opDesc{name: "RelinearizeNew", scheme: "ckks", aDegs: []int{2}, isNew: true,
			call: func(w *W, a *CT, b any, out *CT, arg [3]int) (*CT, error) { return w.ckks.RelinearizeNew(a) }},
		&opDesc{name: "Rotate", scheme: "ckks", aDegs: d1, natural: natSame, gal: galRot,
			call: func(w *W, a *CT, b any, out *CT, arg [3]int) (*CT, error) { return nil, w.ckks.Rotate(a, arg[0], out) }},
		&opDesc{name: "RotateNew", scheme: "ckks", aDegs: d1, isNew: true, gal: galRot,
			call: func(w *W, a *CT, b any, out *CT, arg [3]int) (*CT, error) { return w.ckks.RotateNew(a, arg[0]) }},
		&opDesc{name: "Conjugate", scheme: "ckks", aDegs: d1, natural: natSame, gal: galConj,
			call: func(w *W, a *CT, b any, out *CT, arg [3]int) (*CT, error) { return nil, w.ckks.Conjugate(a, out) }},
		&opDesc{name: "ConjugateNew", scheme: "ckks", aDegs: d1, isNew: true, gal: galConj,
			call: func(w *W, a *CT, b any, out *CT, arg [3]int) (*CT, error) { return w.ckks.ConjugateNew(a) }},
		&opDesc{impl: "rlwe.ApplyEvaluationKey", name: "ApplyEvaluationKey", scheme: "ckks", aDegs: d1, natural: natSame,
			call: func(w *W, a *CT, b any, out *CT, arg [3]int) (*CT, error) {
				return nil, w.ckks.ApplyEvaluationKey(a, w.swk, out)
			}},
		&opDesc{impl: "rlwe.ApplyEvaluationKey", name: "ApplyEvaluationKeyNew", scheme: "ckks", aDegs: d1, isNew: true,
			call: func(w *W, a *CT, b any, out *CT, arg [3]int) (*CT, error) {
				return w.ckks.ApplyEvaluationKeyNew(a, w.swk)
			}},
		&opDesc{impl: "rlwe.PartialTracesSum", name: "InnerSum", scheme: "ckks", aDegs: d1, natural: natSame, gal: galInnerSum,
			call: func(w *W, a *CT, b any, out *CT, arg [3]int) (*CT, error) {
				return nil, w.ckks.InnerSum(a, arg[0], arg[1], out)
			}},
		&opDesc{impl: "rlwe.PartialTracesSum", name: "RotateAndAdd", scheme: "ckks", aDegs: d1, natural: natSame, gal: galInnerSum,
			call: func(w *W, a *CT, b any, out *CT, arg [3]int) (*CT, error) {
				return nil, w.ckks.RotateAndAdd(a, arg[0], arg[1], out)
			}},
		&opDesc{impl: "rlwe.PartialTracesSum", name: "Replicate", scheme: "ckks", aDegs: d1, natural: natSame, gal: galReplicate,
			call: func(w *W, a *CT, b any, out *CT, arg [3]int) (*CT, error) {
				return nil, w.ckks.Replicate(a, arg[0], arg[1], out)
			}},
		// RotateHoisted: the three outputs are returned concatenated in one element so that they can be compared
		&opDesc{name: "RotateHoistedNew", scheme: "ckks", aDegs: d1, isNew: true, gal: galHoisted,
			call: func(w *W, a *CT, b any, out *CT, arg [3]int) (*CT, error) {
				rots := hoistedRots(arg)
				m, err := w.ckks.RotateHoistedNew(a, rots)
				if err != nil {
					return nil, err
				}
				res := &CT{}
				res.MetaData = m[rots[0]].MetaData
				for _, r := range rots {
					res.Value = append(res.Value, m[r].Value...)
				}
				return res, nil
			}},
	)
}

// hoistedLazy evaluates RotateHoistedLazyNew and returns the Q and P parts of the three results as one element.
func hoistedLazy(w *world, a *rlwe.Ciphertext, arg [3]int) (*rlwe.Ciphertext, error) {
	if w.rp.PCount() == 0 {
		return nil, fmt.Errorf("harness: hoisted rotations need an auxiliary modulus")
	}
	rots := hoistedRots(arg)
	lvl := a.Level()
	w.rl.DecomposeNTT(lvl, w.rp.MaxLevelP(), w.rp.PCount(), a.Value[1], a.IsNTT, w.rl.BuffDecompQP)
	var m map[int]*rlwe.Element[ringqp.Poly]
	var err error
	if w.bgv != nil {
		m, err = w.bgv.RotateHoistedLazyNew(lvl, rots, a, w.rl.BuffDecompQP)
	} else {
		m, err = w.ckks.RotateHoistedLazyNew(lvl, rots, a, w.rl.BuffDecompQP)
	}
	if err != nil {
		return nil, err
	}
	res := &rlwe.Ciphertext{}
	res.MetaData = a.MetaData.CopyNew()
	for _, r := range rots {
		if el, ok := m[r]; ok && el != nil {
			for _, v := range el.Value {
				res.Value = append(res.Value, v.Q, v.P)
			}
		}
	}
	if len(res.Value) == 0 {
		return nil, fmt.Errorf("harness: no rotation")
	}
	return res, nil
}

func galConj(e *env, arg [3]int) []uint64 {
	if e.rp.RingType() != ring.Standard {
		return nil
	}
	return []uint64{e.rp.GaloisElementOrderTwoOrthogonalSubgroup()}
}

func hoistedRots(arg [3]int) []int { return []int{arg[0], arg[1], arg[0] + arg[1] + 1} }

func galHoisted(e *env, arg [3]int) (g []uint64) {
	for _, r := range hoistedRots(arg) {
		g = append(g, e.rp.GaloisElement(r))
	}
	return
}

func init() {
	for _, scheme := range []string{"bgv", "ckks"} {
		register(&opDesc{name: "RotateHoistedLazyNew", scheme: scheme, aDegs: []int{1}, isNew: true, gal: galHoisted,
			call: func(w *world, a *rlwe.Ciphertext, b any, out *rlwe.Ciphertext, arg [3]int) (*rlwe.Ciphertext, error) {
				return hoistedLazy(w, a, arg)
			}})
	}
	// MatchScalesAndLevel is documented as in-place on BOTH arguments: only the evaluator history / poison and the
	// receiver are varied, op0 is not asserted intact (inPlaceA).
	register(&opDesc{name: "MatchScalesAndLevel", scheme: "bgv", aDegs: []int{1, 2}, inPlaceA: true,
		natural: func(e *env, a *rlwe.Ciphertext, b any, arg [3]int) (int, int) { return a.Degree(), a.Level() },
		call: func(w *world, a *rlwe.Ciphertext, b any, out *rlwe.Ciphertext, arg [3]int) (*rlwe.Ciphertext, error) {
			// the second argument is an input and an output as well: a copy of op0 at another scale and level
			out = a.CopyNew()
			if arg[2]%2 == 1 && out.Level() > 0 {
				out.Resize(out.Degree(), out.Level()-1)
			}
			out.Scale = w.bgvP.NewScale(uint64(3 + arg[1]))
			w.bgv.MatchScalesAndLevel(a, out)
			// both arguments are outputs: return them concatenated
			res := &rlwe.Ciphertext{}
			res.MetaData = out.MetaData.CopyNew()
			res.Value = append(append(res.Value, a.Value...), out.Value...)
			res.Scale = a.Scale.Mul(out.Scale)
			return res, nil
		}, isNew: true})
}

var propCKKS = h.NewProp("TestPropCKKS", h.Budget{Quick: 4000, Thorough: 120000},
	func(t *rapid.T) EvalCase { return genEvalCase(t, "ckks") }, runEval)

func TestPropCKKS(t *testing.T) { propCKKS.Check(t) }
