package c09

import (
	"fmt"
	"sort"
	"strings"
	"testing"

	"verif/internal/h"

	"github.com/tuneinsight/lattigo/v6/core/rlwe"
	"pgregory.net/rapid"
)

// RPCase is one call of a rlwe.RingPackingEvaluator method on an evaluator that was used before.
type RPCase struct {
	RLWE   *h.RLWESpec `json:"rlwe"`
	Seed   uint64      `json:"seed"`
	Op     string      `json:"op"`
	LogGap int         `json:"logGap"`
	Zero   bool        `json:"zero"`   // Pack: zeroGarbageSlots
	Small  bool        `json:"small"`  // the smallest ring is two degrees (else one) below the largest
	Hist   []string    `json:"hist"`   // earlier calls on the same evaluator
	Poison int         `json:"poison"` // scratch buffers of the inner evaluators
}

func (c RPCase) RandSeed() uint64 { return c.Seed }

var rpOps = []string{"Expand", "Pack", "Extract", "ExtractNaive", "Repack", "RepackNaive", "Split", "Merge"}

// methods whose documentation does not say that the inputs are consumed: inputs asserted intact
var rpInputsIntact = map[string]bool{"Expand": true, "Extract": true, "ExtractNaive": true, "Split": true, "Merge": true}

func genRPCase(t *rapid.T) RPCase {
	poolMinLogN = 5 // the sub-rings must have degree >= 16
	s := poolSpec(t, false, &tru, 0, true)
	poolMinLogN = 4
	c := RPCase{RLWE: &s, Seed: rapid.Uint64().Draw(t, "seed")}
	c.Op = rpOps[rapid.IntRange(0, len(rpOps)-1).Draw(t, "op")]
	c.LogGap = rapid.IntRange(0, s.LogN-1).Draw(t, "logGap")
	c.Zero = rapid.Bool().Draw(t, "zero")
	c.Small = rapid.Bool().Draw(t, "small")
	for i, n := 0, rapid.IntRange(0, 2).Draw(t, "nHist"); i < n; i++ {
		c.Hist = append(c.Hist, rpOps[rapid.IntRange(0, len(rpOps)-1).Draw(t, fmt.Sprintf("h%d", i))])
	}
	c.Poison = rapid.IntRange(0, 2).Draw(t, "poison")
	return c
}

func fpMap(m map[int]*rlwe.Ciphertext) string {
	keys := make([]int, 0, len(m))
	for k := range m {
		keys = append(keys, k)
	}
	sort.Ints(keys)
	var sb strings.Builder
	for _, k := range keys {
		if m[k] == nil {
			fmt.Fprintf(&sb, "%d:nil;", k)
			continue
		}
		fmt.Fprintf(&sb, "%d:%v;", k, snapEl(m[k].El(), false))
	}
	return sb.String()
}

func runRP(c RPCase, rec *h.Rec) error {
	p, err := c.RLWE.Build()
	if err != nil {
		rec.Class("params-rejected")
		return nil
	}
	rec.Class("op=ringpacking." + c.Op)
	rec.Classf("hist=%d", len(c.Hist))
	rec.Classf("poison=%d", c.Poison)
	rec.Classf("small=%v", c.Small)

	h.SeedRand(c.Seed ^ 0x6b657973)
	sk := rlwe.NewKeyGenerator(p).GenSecretKeyNew()
	minLogN := p.LogN() - 1
	if c.Small && minLogN > 4 {
		minLogN--
	}
	lq, lp := p.MaxLevelQ(), p.MaxLevelP()
	evkParams := rlwe.EvaluationKeyParameters{LevelQ: &lq, LevelP: &lp}
	evk := &rlwe.RingPackingEvaluationKey{}
	var ski map[int]*rlwe.SecretKey
	kerr, pan := protect(func() error {
		var e error
		if ski, e = evk.GenRingSwitchingKeys(p, sk, minLogN, evkParams); e != nil {
			return e
		}
		evk.GenRepackEvaluationKeys(evk.Parameters[minLogN], ski[minLogN], evkParams)
		evk.GenRepackEvaluationKeys(evk.Parameters[p.LogN()], ski[p.LogN()], evkParams)
		evk.GenExtractEvaluationKeys(evk.Parameters[minLogN], ski[minLogN], evkParams)
		evk.GenExtractEvaluationKeys(evk.Parameters[p.LogN()], ski[p.LogN()], evkParams)
		return nil
	})
	if pan != "" || ski == nil {
		rec.Class("result=reference-rejected")
		rec.Class("reference-rejected:keygen:" + trunc(fmt.Sprint(pan, kerr), 100))
		return nil
	}

	mk := func(logN int, seed uint64) *rlwe.Ciphertext {
		pp := evk.Parameters[logN].GetRLWEParameters()
		ct := rlwe.NewCiphertext(pp, 1, pp.MaxLevel())
		rng := h.NewSplitMix(seed)
		for i := range ct.Value {
			fillPoly(pp.RingQ(), ct.Value[i], rng, 0)
		}
		ct.IsNTT = true
		return ct
	}
	// exec runs one method with inputs derived from seed; returns result fingerprint and input fingerprints before/after
	exec := func(ev *rlwe.RingPackingEvaluator, op string, seed uint64) (res, pre, post string, err error, pan string) {
		N := p.LogN()
		err, pan = protect(func() error {
			switch op {
			case "Expand":
				ct := mk(N, seed)
				pre = snapAny(ct)
				m, e := ev.Expand(ct, c.LogGap)
				res, post = fpMap(m), snapAny(ct)
				return e
			case "Extract", "ExtractNaive":
				ct := mk(N, seed)
				pre = snapAny(ct)
				idx := map[int]bool{0: true, 1 << c.LogGap: true}
				var m map[int]*rlwe.Ciphertext
				var e error
				if op == "Extract" {
					m, e = ev.Extract(ct, idx)
				} else {
					m, e = ev.ExtractNaive(ct, idx)
				}
				res, post = fpMap(m), snapAny(ct)
				return e
			case "Pack":
				m := map[int]*rlwe.Ciphertext{}
				for j := 0; j < 1<<(N-c.LogGap) && j < 4; j++ {
					m[j] = mk(N, seed+uint64(j))
				}
				pre = fpMap(m)
				ct, e := ev.Pack(m, c.LogGap, c.Zero)
				if ct != nil {
					res = snapAny(ct)
				}
				post = fpMap(m)
				return e
			case "Repack", "RepackNaive":
				m := map[int]*rlwe.Ciphertext{0: mk(minLogN, seed), 1: mk(minLogN, seed+1), 1 << c.LogGap: mk(minLogN, seed+2)}
				pre = fpMap(m)
				var ct *rlwe.Ciphertext
				var e error
				if op == "Repack" {
					ct, e = ev.Repack(m)
				} else {
					ct, e = ev.RepackNaive(m)
				}
				if ct != nil {
					res = snapAny(ct)
				}
				post = fpMap(m)
				return e
			case "Split":
				ct := mk(N, seed)
				pre = snapAny(ct)
				a, b, e := ev.SplitNew(ct)
				if a != nil && b != nil {
					res = snapAny(a) + snapAny(b)
				}
				post = snapAny(ct)
				return e
			default: // Merge
				a, b := mk(minLogN, seed), mk(minLogN, seed+1)
				pre = snapAny(a) + snapAny(b)
				ct, e := ev.MergeNew(a, b)
				if ct != nil {
					res = snapAny(ct)
				}
				post = snapAny(a) + snapAny(b)
				return e
			}
		})
		return
	}
	keyFP := func() string {
		var sb strings.Builder
		for _, m := range []map[int]rlwe.EvaluationKeySet{evk.RepackKeys, evk.ExtractKeys} {
			ks := make([]int, 0, len(m))
			for k := range m {
				ks = append(ks, k)
			}
			sort.Ints(ks)
			for _, k := range ks {
				if mk, ok := m[k].(*rlwe.MemEvaluationKeySet); ok {
					sb.WriteString(hashEvk(mk))
				}
			}
		}
		for _, in := range []int{minLogN, p.LogN()} {
			for _, out := range []int{minLogN, p.LogN()} {
				if k, ok := evk.RingSwitchingKeys[in][out]; ok && k != nil {
					fmt.Fprintf(&sb, "rs%d>%d:%x;", in, out, hashGadget(&k.GadgetCiphertext))
				}
			}
		}
		return sb.String()
	}

	ref, _, _, rerr, rpan := exec(rlwe.NewRingPackingEvaluator(evk), c.Op, c.Seed)
	if rpan != "" || rerr != nil {
		rec.Class("result=reference-rejected")
		rec.Class("reference-rejected:" + c.Op + ":" + trunc(fmt.Sprint(rpan, rerr), 80))
		return nil
	}
	used := rlwe.NewRingPackingEvaluator(evk)
	for i, hop := range c.Hist {
		_, _, _, _, _ = exec(used, hop, c.Seed+uint64(i)*77+13)
	}
	if c.Poison != 0 {
		pat := 0
		if c.Poison == 1 {
			pat = 1
		}
		for _, ev := range used.Evaluators {
			poisonRLWE(ev, h.NewSplitMix(c.Seed^0x99), pat)
		}
	}
	preKeys := keyFP()
	got, pre, post, aerr, apan := exec(used, c.Op, c.Seed)
	fail := func(key, format string, a ...any) error {
		msg := fmt.Sprintf(format, a...)
		if rec.Known(key, msg) {
			rec.Class("known=" + key)
			return nil
		}
		return h.Failf(key, "%s", msg)
	}
	name := "C09:ringpacking." + c.Op
	if apan != "" {
		return fail(name+":evaluator-state:panic", "RingPackingEvaluator.%s panicked on an evaluator used before: %s", c.Op, apan)
	}
	if aerr != nil {
		return fail(name+":evaluator-state:error", "RingPackingEvaluator.%s returns an error on an evaluator used before but not on a new one: %v", c.Op, aerr)
	}
	if keyFP() != preKeys {
		return fail(name+":input-mutated:keys", "RingPackingEvaluator.%s changed an evaluation key", c.Op)
	}
	if pre != post {
		if rpInputsIntact[c.Op] {
			return fail(name+":input-mutated", "RingPackingEvaluator.%s changed its input ciphertext(s)", c.Op)
		}
		rec.Class("inputs-consumed(not asserted)")
	}
	if got != ref {
		return fail(name+":evaluator-state:wrong-value", "RingPackingEvaluator.%s after %v (poison %d) differs from the same call on a new evaluator", c.Op, c.Hist, c.Poison)
	}
	rec.Class("result=identical")
	if len(c.Hist) > 0 || c.Poison != 0 {
		rec.NonTrivial(fmt.Sprintf("ringpacking.%s|hist=%v|poison=%d|small=%v|gap=%d|zero=%v", c.Op, strings.Join(c.Hist, ">"), c.Poison, c.Small, c.LogGap, c.Zero))
	}
	return nil
}

var propRP = h.NewProp("TestPropRingPacking", h.Budget{Quick: 250, Thorough: 4000}, genRPCase, runRP)

func TestPropRingPacking(t *testing.T) { propRP.Check(t) }
