package c17

import (
	"fmt"
	"math"
	"math/big"
	"sort"
	"strings"
	"testing"

	"verif/internal/h"

	"github.com/tuneinsight/lattigo/v6/ring"
	"pgregory.net/rapid"
)

// Op is one step of a call history on a family of level views sharing one source.
type Op struct {
	Kind  string `json:"kind"`            // "view" | "read" | "new" | "add" | "withprng" (uniform sampler only)
	From  int    `json:"from"`            // sampler the step applies to: 0 = base sampler, k = k-th view created so far (mod count)
	Level int    `json:"level"`           // view: level of the new view. read/new/add: >= 0 = call From.AtLevel(Level) for this call only, -1 = call From itself
	Extra int    `json:"extra,omitempty"` // read/add: the target polynomial has this many limbs above the sampling level (clamped)
	Seed  uint64 `json:"seed,omitempty"`  // read/add: previous content of the target polynomial; withprng: key material of the new PRNG
}

// HistCase is a sampler configuration plus a whole call history.
type HistCase struct {
	Ring RingSpec `json:"ring"`
	Dist DistSpec `json:"dist"`
	Mont bool     `json:"mont,omitempty"`
	Key  uint64   `json:"key"`
	Base int      `json:"base"` // level of the ring the base sampler is created on (views may go below and above it)
	Ops  []Op     `json:"ops"`
}

func genHist(t *rapid.T) HistCase {
	var c HistCase
	maxLogN := 7
	if rapid.IntRange(0, 9).Draw(t, "largeN") == 0 {
		maxLogN = 10 // a tenth of the cases: beyond the 1024-byte refill buffer many times over
		if h.Thorough() {
			maxLogN = 12
		}
	}
	kind := []string{"uniform", "gauss", "gauss", "ternaryP", "ternaryH", "ternaryH"}[rapid.IntRange(0, 5).Draw(t, "distKind")]
	c.Ring = genRing(t, 4, maxLogN, 4, false)
	c.Dist = genDist(t, kind, c.Ring.N())
	if kind == "gauss" && (c.Dist.bigPath() || c.Dist.Bound > 0x1p58) && rapid.IntRange(0, 3).Draw(t, "bigRing") != 0 {
		// the big-number path is only decidable when the modulus exceeds twice the bound: prefer large limbs
		c.Ring = genRing(t, 4, maxLogN, 4, true)
	}
	if kind != "uniform" {
		c.Mont = rapid.Bool().Draw(t, "mont")
	}
	c.Key = rapid.Uint64().Draw(t, "key")
	maxL := len(c.Ring.Q) - 1
	c.Base = maxL
	if rapid.IntRange(0, 3).Draw(t, "baseK") == 0 {
		c.Base = rapid.IntRange(0, maxL).Draw(t, "base")
	}
	n := rapid.IntRange(1, 10).Draw(t, "nOps")
	for i := 0; i < n; i++ {
		var op Op
		switch k := rapid.IntRange(0, 22).Draw(t, fmt.Sprintf("op%d", i)); {
		case k < 3:
			op.Kind = "view"
		case k < 9:
			op.Kind = "read"
		case k < 14:
			op.Kind = "new"
		case k < 20:
			op.Kind = "add"
		case kind == "uniform":
			// derive a sampler over another PRNG from a (possibly already used) sampler or view
			op.Kind = "withprng"
			op.Seed = rapid.Uint64().Draw(t, fmt.Sprintf("prngKey%d", i))
		default:
			op.Kind = "read"
		}
		op.From = rapid.IntRange(0, 4).Draw(t, fmt.Sprintf("from%d", i))
		if op.Kind == "view" {
			op.Level = rapid.IntRange(0, maxL).Draw(t, fmt.Sprintf("lvl%d", i))
		} else if op.Kind == "withprng" {
			op.Level = -1
		} else {
			op.Level = rapid.IntRange(-1, maxL).Draw(t, fmt.Sprintf("lvl%d", i))
		}
		if op.Kind == "read" || op.Kind == "add" {
			if rapid.IntRange(0, 2).Draw(t, fmt.Sprintf("extraK%d", i)) == 0 {
				op.Extra = rapid.IntRange(0, maxL).Draw(t, fmt.Sprintf("extra%d", i))
			}
			op.Seed = rapid.Uint64().Draw(t, fmt.Sprintf("seed%d", i))
		}
		c.Ops = append(c.Ops, op)
	}
	return c
}

// family is one sampler with the views derived from it.
type family struct {
	views  []ring.Sampler
	levels []int
}

func newFamily(r *ring.Ring, c HistCase) (*family, error) {
	s, err := ring.NewSampler(keyedPRNG(c.Key), r.AtLevel(c.Base), c.Dist.lattigo(), c.Mont)
	if err != nil {
		return nil, err
	}
	return &family{views: []ring.Sampler{s}, levels: []int{c.Base}}, nil
}

// pick returns the sampler the op is applied to and its level.
func (f *family) pick(op Op) (ring.Sampler, int) {
	i := op.From % len(f.views)
	s, l := f.views[i], f.levels[i]
	if op.Kind != "view" && op.Level >= 0 {
		return s.AtLevel(op.Level), op.Level
	}
	return s, l
}

// entropyBits is a lower bound on -log2(P[two independent polynomials of the distribution agree on limb 0]).
func entropyBits(d DistSpec, n int, q0 uint64) float64 {
	switch d.Kind {
	case "uniform":
		return float64(n) * math.Log2(float64(q0))
	case "gauss":
		mass := math.Erf(d.Bound / (d.Sigma * math.Sqrt2))
		pmax := 1 / (d.Sigma * math.Sqrt(2*math.Pi)) / mass
		if pmax >= 1 || d.Bound < 1 {
			return 0
		}
		if float64(q0) < 2*d.Bound {
			// values wrap modulo q0: at most q0 distinct residues, use the coarser of the two bounds
			if u := 4 / float64(q0); u > pmax {
				pmax = u
			}
			if pmax >= 1 {
				return 0
			}
		}
		return -float64(n) * math.Log2(pmax)
	case "ternaryP":
		return -float64(n) * math.Log2(math.Max(1-d.P, d.P/2))
	case "ternaryH":
		hw := d.H
		if hw > n {
			hw = n
		}
		lg := func(x int) float64 { v, _ := math.Lgamma(float64(x + 1)); return v / math.Ln2 }
		return float64(hw) + lg(n) - lg(hw) - lg(n-hw)
	}
	return 0
}

// decodeSmall interprets the residues (limb j modulo qs[j]) as ONE integer vector: the centred CRT lift. It returns the
// lift and the index of the first coefficient whose absolute value exceeds bound (-1 if none).
func decodeSmall(res [][]uint64, qs []uint64, bound *big.Int) ([]*big.Int, int) {
	Q := h.ProdU(qs)
	x := h.VecCenter(h.CRT(res, qs), Q)
	for i, v := range x {
		if new(big.Int).Abs(v).Cmp(bound) > 0 {
			return x, i
		}
	}
	return x, -1
}

func limbReport(res [][]uint64, qs []uint64, i int) string {
	var sb strings.Builder
	for j, q := range qs {
		v := res[j][i]
		if v > q/2 {
			fmt.Fprintf(&sb, " limb%d(q=%d):-%d", j, q, q-v)
		} else {
			fmt.Fprintf(&sb, " limb%d(q=%d):%d", j, q, v)
		}
	}
	return sb.String()
}

// checkSample decides the per-polynomial part of the property on the residues of one sample (limbs 0..level, Montgomery
// factor already removed). It reports whether the support was decidable (modulus larger than twice the bound).
func checkSample(c HistCase, what, viewClass string, res [][]uint64, qs []uint64, rec *h.Rec) (bool, error) {
	d := c.Dist
	if d.Kind == "uniform" {
		return true, nil // range is checked on the raw representation by the caller
	}
	B := d.absBound()
	Q := h.ProdU(qs)
	if Q.Cmp(new(big.Int).Lsh(B, 1)) <= 0 {
		rec.Class("support-undecidable(Q<=2*bound)")
		return false, nil
	}
	suffix := ""
	if d.bigPath() {
		suffix = ":bignum"
	}
	if d.Kind == "gauss" && !d.bigPath() {
		// Limbs whose modulus does not exceed the bound form an input class of their own (listed finding
		// C17:gauss:limb<=bound:limbs-inconsistent). So that the search continues behind it, the limbs above the bound
		// are judged first, on their own.
		var bigRes [][]uint64
		var bigQs []uint64
		for j, q := range qs {
			if new(big.Int).SetUint64(q).Cmp(B) > 0 {
				bigRes = append(bigRes, res[j])
				bigQs = append(bigQs, q)
			}
		}
		if len(bigQs) < len(qs) {
			rec.Class("gauss:some-limb<=bound")
			if len(bigQs) > 0 && h.ProdU(bigQs).Cmp(new(big.Int).Lsh(B, 1)) > 0 {
				if x, bad := decodeSmall(bigRes, bigQs, B); bad >= 0 {
					return true, h.Failf(fmt.Sprintf("C17:gauss:%s:outside-support-or-limbs-inconsistent", what), "coefficient %d: the limbs above the bound do not encode one integer of absolute value <= %v (centred CRT lift %v);%s", bad, B, x[bad], limbReport(bigRes, bigQs, bad))
				}
			}
			if x, bad := decodeSmall(res, qs, B); bad >= 0 {
				key := "C17:gauss:limb<=bound:limbs-inconsistent"
				msg := fmt.Sprintf("coefficient %d: the limbs do not encode one integer of absolute value <= %v (centred CRT lift %v);%s", bad, B, x[bad], limbReport(res, qs, bad))
				if rec.Known(key, msg) {
					rec.Class("known=" + key)
					return true, nil
				}
				return true, h.Failf(key, "%s", msg)
			}
			return true, nil
		}
	}
	x, bad := decodeSmall(res, qs, B)
	if bad >= 0 && d.bigPath() {
		// Input class of its own (listed finding C17:gauss:bignum:negative-sample-exceeds-bound): a NEGATIVE value below
		// -bound that is still a plausible draw (|x| <= 40 sigma), and no positive value above the bound.
		env, _ := new(big.Float).SetFloat64(40 * d.Sigma).Int(nil)
		{
			only := true
			first := -1
			for i, v := range x {
				if new(big.Int).Abs(v).Cmp(B) > 0 {
					// a positive lift may be a negative sample wrapped by a modulus that is not far above 40 sigma
					neg := v
					if v.Sign() > 0 {
						neg = new(big.Int).Sub(v, Q)
					}
					if new(big.Int).Abs(neg).Cmp(env) > 0 {
						only = false
						bad = i
						break
					}
					if first < 0 {
						first = i
					}
				}
			}
			if only {
				key := "C17:gauss:bignum:negative-sample-exceeds-bound"
				msg := fmt.Sprintf("coefficient %d = %v (or that value minus the modulus) exceeds the bound %v in magnitude (sigma=%g);%s", first, x[first], B, d.Sigma, limbReport(res, qs, first))
				if rec.Known(key, msg) {
					rec.Class("known=" + key)
					return true, nil
				}
				return true, h.Failf(key, "%s", msg)
			}
		}
	}
	if bad >= 0 {
		key := fmt.Sprintf("C17:%s:%s:outside-support-or-limbs-inconsistent%s", d.Kind, what, suffix)
		if strings.HasPrefix(d.Kind, "ternary") && viewClass != "" {
			key = "C17:ternary:" + viewClass + ":outside-support-or-limbs-inconsistent"
		}
		msg := fmt.Sprintf("coefficient %d: the limbs do not encode one integer of absolute value <= %v (centred CRT lift %v);%s", bad, B, x[bad], limbReport(res, qs, bad))
		if rec.Known(key, msg) {
			rec.Class("known=" + key)
			return true, nil
		}
		return true, h.Failf(key, "%s", msg)
	}
	if d.Kind == "ternaryH" {
		hw := 0
		for _, v := range x {
			if v.Sign() != 0 {
				hw++
			}
		}
		want := d.H
		if hw != want {
			key := fmt.Sprintf("C17:ternaryH:%s:hamming-weight", what)
			msg := fmt.Sprintf("Hamming weight %d, want exactly %d (N=%d)", hw, want, c.Ring.N())
			if rec.Known(key, msg) {
				rec.Class("known=" + key)
				return true, nil
			}
			return true, h.Failf(key, "%s", msg)
		}
	}
	return true, nil
}

// safely runs f and returns the panic message ("" if none).
func safely(f func()) (msg string) {
	defer func() {
		if r := recover(); r != nil {
			msg = fmt.Sprint(r)
		}
	}()
	f()
	return
}

// checkAdd decides ReadAndAdd(p) == p + Read() of an identically positioned twin. known reports a listed finding.
func checkAdd(c HistCase, oi, lvl int, qs []uint64, before, outR, outS ring.Poly, rec *h.Rec) (known bool, err error) {
	for j := 0; j <= lvl; j++ {
		q := qs[j]
		for i := range outS.Coeffs[j] {
			want := addmod(before.Coeffs[j][i], outR.Coeffs[j][i], q)
			if got := outS.Coeffs[j][i] % q; got != want {
				key := fmt.Sprintf("C17:%s:add:not-previous-plus-sample", c.Dist.Kind)
				if c.Mont && c.Dist.Kind == "gauss" {
					key += ":montgomery"
				}
				if c.Dist.Kind == "gauss" && !c.Dist.bigPath() && new(big.Int).SetUint64(q).Cmp(c.Dist.absBound()) <= 0 {
					key = "C17:gauss:limb<=bound:limbs-inconsistent"
				}
				msg := fmt.Sprintf("op %d limb %d (q=%d) coeff %d: previous %d, twin Read sample %d, ReadAndAdd left %d (want %d)", oi, j, q, i, before.Coeffs[j][i], outR.Coeffs[j][i]%q, got, want)
				if rec.Known(key, msg) {
					rec.Class("known=" + key)
					return true, nil
				}
				return false, h.Failf(key, "%s", msg)
			}
		}
	}
	return false, nil
}

func runHist(c HistCase, rec *h.Rec) error {
	r, err := c.Ring.build()
	if err != nil {
		return h.Failf("C17:setup:ring", "%v", err)
	}
	N := c.Ring.N()
	maxL := len(c.Ring.Q) - 1
	d := c.Dist

	// S: subject. T: twin performing the identical calls (bit-identical outputs expected).
	// R: twin performing Read into a zero polynomial wherever S performs ReadAndAdd (additive oracle).
	fam := make([]*family, 3)
	for i := range fam {
		if fam[i], err = newFamily(r, c); err != nil {
			return h.Failf("C17:setup:sampler", "%v", err)
		}
	}
	S, T, R := fam[0], fam[1], fam[2]

	rec.Class(d.class())
	rec.Classf("limbs=%d", maxL+1)
	rec.Class("q:" + c.Ring.sizeClass())
	if c.Mont {
		rec.Class("montgomery")
	}

	type sample struct {
		op   int
		res0 []uint64
	}
	var samples []sample
	kinds := map[string]bool{}
	levels := map[int]bool{}
	nCalls := 0
	decidable := false

	derived := false
	for oi, op := range c.Ops {
		if op.Kind == "view" {
			for _, f := range fam {
				s, _ := f.pick(op)
				f.views = append(f.views, s.AtLevel(op.Level))
				f.levels = append(f.levels, op.Level)
			}
			continue
		}
		if op.Kind == "withprng" {
			// The subject derives a sampler with WithPRNG from a sampler that may have been read before; the twins
			// construct a FRESH sampler over an identically keyed PRNG instead and never derive anything. Every later
			// call on the derived sampler and on its parent is compared bit for bit (twin oracle below): the derived
			// sampler is determined by its key alone and the parent's stream is not disturbed.
			i := op.From % len(S.views)
			us, ok := S.views[i].(*ring.UniformSampler)
			if !ok {
				continue
			}
			lvl := S.levels[i]
			k2 := h.NewSplitMix(c.Key ^ op.Seed ^ uint64(oi+1)*0x9e3779b97f4a7c15).Uint64() // distinct from the parent's key
			S.views = append(S.views, us.WithPRNG(keyedPRNG(k2)))
			S.levels = append(S.levels, lvl)
			for _, f := range fam[1:] {
				f.views = append(f.views, ring.NewUniformSampler(keyedPRNG(k2), r.AtLevel(lvl)))
				f.levels = append(f.levels, lvl)
			}
			derived = true
			rec.Class("history:withprng")
			continue
		}
		sS, lvl := S.pick(op)
		sT, _ := T.pick(op)
		sR, _ := R.pick(op)
		qs := c.Ring.Q[:lvl+1]
		kinds[op.Kind] = true
		levels[lvl] = true
		nCalls++
		what := op.Kind

		viewClass := ""
		switch {
		case lvl < c.Base:
			viewClass = "view-below-base-level"
		case lvl > c.Base:
			viewClass = "view-above-base-level"
		}
		if viewClass != "" {
			rec.Class(viewClass)
		}

		var outS, outT, outR, before ring.Poly
		var pS, pT, pR string
		switch op.Kind {
		case "new":
			pS = safely(func() { outS = sS.ReadNew() })
			pT = safely(func() { outT = sT.ReadNew() })
			pR = safely(func() { outR = sR.ReadNew() })
			if pS == "" && (outS.Level() != lvl || outS.N() != N) {
				return h.Failf(fmt.Sprintf("C17:%s:new:wrong-level", d.Kind), "op %d: ReadNew of a sampler at level %d returned a polynomial at level %d (N=%d)", oi, lvl, outS.Level(), outS.N())
			}
		case "read", "add":
			pl := lvl + op.Extra
			if pl > maxL {
				pl = maxL
			}
			if pl > lvl {
				rec.Class("target-has-extra-limbs")
			}
			outS = ring.NewPoly(N, pl)
			fillPoly(outS, c.Ring.Q, op.Seed)
			outT = copyPoly(outS)
			before = copyPoly(outS)
			if op.Kind == "read" {
				outR = copyPoly(outS)
				pS = safely(func() { sS.Read(outS) })
				pT = safely(func() { sT.Read(outT) })
				pR = safely(func() { sR.Read(outR) })
			} else {
				outR = ring.NewPoly(N, pl)
				pS = safely(func() { sS.ReadAndAdd(outS) })
				pT = safely(func() { sT.ReadAndAdd(outT) })
				pR = safely(func() { sR.Read(outR) })
			}
		}
		if pS != "" || pT != "" || pR != "" {
			// a panic inside a sampler call on an accepted input (all three families run the same calls)
			key := fmt.Sprintf("C17:%s:%s:panic", d.Kind, what)
			if strings.HasPrefix(d.Kind, "ternary") && viewClass != "" {
				key = "C17:ternary:" + viewClass + ":panic"
			} else if viewClass != "" {
				key += ":" + viewClass
			}
			pm := pS
			if pm == "" {
				pm = pT + pR
			}
			msg := fmt.Sprintf("op %d (%s on a sampler at level %d, base sampler created at level %d): panic: %s", oi, op.Kind, lvl, c.Base, pm)
			if (pS != "") == (pT != "") && (pS != "") == (pR != "") && rec.Known(key, msg) {
				rec.Class("known=" + key)
				continue // the three families stay in step: each consumed the same randomness before panicking
			}
			return h.Failf(key, "%s", msg)
		}

		// reproducibility: equal key + equal call history => bit-identical
		if !polyEqual(outS, outT) {
			if derived {
				return h.Failf(fmt.Sprintf("C17:%s:%s:WithPRNG:derived-or-parent-differs-from-fresh-twin", d.Kind, what), "op %d: after WithPRNG the subject (sampler derived with WithPRNG, or its parent) and the twin (sampler freshly constructed over an identically keyed PRNG, parent that never derived anything) returned different polynomials for the same calls", oi)
			}
			return h.Failf(fmt.Sprintf("C17:%s:%s:twin-not-bit-identical", d.Kind, what), "op %d: two samplers with the same key and the same call history returned different polynomials", oi)
		}

		// the sample this call drew, as residues per limb (difference to the previous content for ReadAndAdd)
		res := make([][]uint64, lvl+1)
		for j := 0; j <= lvl; j++ {
			q := qs[j]
			if op.Kind == "add" {
				res[j] = make([]uint64, N)
				a := residues(outS.Coeffs[j], q, false)
				b := residues(before.Coeffs[j], q, false)
				for i := range a {
					res[j][i] = submod(a[i], b[i], q)
				}
				if c.Mont {
					res[j] = residues(res[j], q, true)
				}
			} else {
				res[j] = residues(outS.Coeffs[j], q, c.Mont)
			}
		}

		// ReadAndAdd(p) == p + Read() of an identically positioned twin, for every sampler kind
		if op.Kind == "add" {
			known, err := checkAdd(c, oi, lvl, qs, before, outR, outS, rec)
			if err != nil {
				return err
			}
			if known {
				// the difference is meaningless for a listed ReadAndAdd finding: judge the twin's Read instead
				for j := 0; j <= lvl; j++ {
					res[j] = residues(outR.Coeffs[j], qs[j], c.Mont)
				}
			}
		}

		if d.Kind == "uniform" {
			// representation: values in [0, q_i) (ReadAndAdd of reduced input stays reduced)
			for j := 0; j <= lvl; j++ {
				for i, v := range outS.Coeffs[j] {
					if v >= qs[j] {
						return h.Failf(fmt.Sprintf("C17:uniform:%s:not-below-modulus", what), "op %d limb %d coeff %d: %d >= q=%d", oi, j, i, v, qs[j])
					}
				}
			}
			decidable = true
		} else {
			ok, err := checkSample(c, what, viewClass, res, qs, rec)
			if err != nil {
				return err
			}
			decidable = decidable || ok
		}
		samples = append(samples, sample{op: oi, res0: res[0]})
	}

	// no two calls of one history may return the same polynomial (a view must not re-read consumed randomness)
	if ent := entropyBits(d, N, c.Ring.Q[0]); ent >= 80 {
		for a := 0; a < len(samples); a++ {
			for b := a + 1; b < len(samples); b++ {
				same := true
				for i := range samples[a].res0 {
					if samples[a].res0[i] != samples[b].res0[i] {
						same = false
						break
					}
				}
				if same {
					key := fmt.Sprintf("C17:%s:history:repeated-sample", d.Kind)
					msg := fmt.Sprintf("ops %d and %d of the history drew the same polynomial on limb 0 (collision probability < 2^-%d)", samples[a].op, samples[b].op, int(ent))
					if rec.Known(key, msg) {
						rec.Class("known=" + key)
						continue
					}
					return h.Failf(key, "%s", msg)
				}
			}
		}
		rec.Class("repeat-oracle-active")
	}

	// non-trivial rule of the design
	mixed := nCalls >= 3 && (len(kinds) >= 2 || len(levels) >= 2)
	extremeH := d.Kind == "ternaryH" && (d.H == 1 || d.H == N)
	if decidable && nCalls > 0 && (mixed || extremeH || d.bigPath()) {
		ks := make([]string, 0, len(kinds))
		for k := range kinds {
			ks = append(ks, k)
		}
		sort.Strings(ks)
		hclass := ""
		if d.Kind == "ternaryH" {
			switch {
			case d.H == 1:
				hclass = "H=1"
			case d.H == N:
				hclass = "H=N"
			case d.H == N-1:
				hclass = "H=N-1"
			default:
				hclass = "H=mid"
			}
		}
		if d.Kind == "gauss" {
			hclass = fmt.Sprintf("bound/sigma=%.1f", math.Min(d.Bound/d.Sigma, 99))
		}
		if d.Kind == "ternaryP" {
			hclass = fmt.Sprintf("P=%.2f", d.P)
		}
		lenClass := "len<3"
		switch {
		case nCalls >= 6:
			lenClass = "len>=6"
		case nCalls >= 3:
			lenClass = "len3-5"
		}
		nViews := len(S.views) - 1
		if nViews > 2 {
			nViews = 2
		}
		rec.NonTrivial(fmt.Sprintf("%s %s logN=%d limbs=%d q:%s mont=%v kinds=%s levels=%d %s views=%d", d.class(), hclass, c.Ring.LogN, maxL+1, c.Ring.sizeClass(), c.Mont, strings.Join(ks, "+"), len(levels), lenClass, nViews) + map[bool]string{true: " withprng", false: ""}[derived])
	}
	if mixed {
		rec.Class("history:mixed")
	}
	if len(S.views) > 1 {
		rec.Class("history:persistent-views")
	}
	return nil
}

var propHist = h.NewProp("TestPropHistory", h.Budget{Quick: 1000, Thorough: 15000}, genHist, runHist)

func TestPropHistory(t *testing.T) { propHist.Check(t) }
