package c17

import (
	"fmt"
	"math"
	"math/big"
	"sort"
	"testing"

	"verif/internal/h"

	"github.com/tuneinsight/lattigo/v6/ring"
	"pgregory.net/rapid"
)

// StatCase pools at least Samples coefficients drawn by one sampler and compares empirical moments with the declared
// distribution.
type StatCase struct {
	Ring    RingSpec `json:"ring"` // Q[0] is the largest prime: the sample is decoded from limb 0 (all limbs for the big-number path)
	Dist    DistSpec `json:"dist"`
	Mont    bool     `json:"mont,omitempty"`
	Key     uint64   `json:"key"`
	Mode    string   `json:"mode"`    // "read" | "new" | "add" | "views" (Read through AtLevel views of cycling levels)
	Samples int      `json:"samples"` // number of pooled coefficients
}

func genStat(t *rapid.T) StatCase {
	var c StatCase
	kind := []string{"uniform", "gauss", "gauss", "gauss", "ternaryP", "ternaryP", "ternaryH"}[rapid.IntRange(0, 6).Draw(t, "distKind")]
	c.Ring = genRing(t, 4, 7, 3, false)
	c.Dist = genDist(t, kind, c.Ring.N())
	if kind == "gauss" {
		if c.Dist.bigPath() {
			c.Ring = genRing(t, 4, 5, 4, true)
			// all limbs together must be far larger than the bound for the lift to be the sample
			used := map[uint64]bool{}
			for _, q := range c.Ring.Q {
				used[q] = true
			}
			for i := 0; h.ProdU(c.Ring.Q).Cmp(new(big.Int).Lsh(DistSpec{Kind: "gauss", Bound: 6 * c.Dist.Sigma}.absBound(), 12)) < 0 || h.ProdU(c.Ring.Q).Cmp(new(big.Int).Lsh(c.Dist.absBound(), 12)) < 0; i++ {
				c.Ring.Q = append(c.Ring.Q, h.GenPrimes(t, []int{61}, uint64(2)<<c.Ring.LogN, used, fmt.Sprintf("qx%d", i))[0])
			}
		} else if float64(maxU64(c.Ring.Q)) <= 4*c.Dist.absBoundF() {
			// the sample must be decodable from one limb: make sure one limb exceeds twice the bound
			if c.Dist.absBoundF() < 0x1p58 {
				c.Ring.Q[0] = h.GenPrimes(t, []int{61}, uint64(2)<<c.Ring.LogN, map[uint64]bool{c.Ring.Q[0]: true}, "qbig")[0]
				c.Ring.Q = dedup(c.Ring.Q)
			} else {
				c.Dist.Bound = 0x1p57
				if c.Dist.Sigma > c.Dist.Bound {
					c.Dist.Sigma = c.Dist.Bound / 2
				}
				c.Ring.Q[0] = h.GenPrimes(t, []int{61}, uint64(2)<<c.Ring.LogN, map[uint64]bool{c.Ring.Q[0]: true}, "qbig")[0]
				c.Ring.Q = dedup(c.Ring.Q)
			}
		}
	}
	sort.Slice(c.Ring.Q, func(i, j int) bool { return c.Ring.Q[i] > c.Ring.Q[j] })
	if kind != "uniform" {
		c.Mont = rapid.Bool().Draw(t, "mont")
	}
	c.Key = rapid.Uint64().Draw(t, "key")
	modes := []string{"read", "new", "add", "views"}
	c.Mode = modes[rapid.IntRange(0, 3).Draw(t, "mode")]
	if c.Mode == "add" && (kind == "ternaryH" || (kind == "gauss" && c.Mont)) {
		c.Mode = "read" // ReadAndAdd of these two is a listed finding (decided by TestPropHistory)
	}
	if c.Dist.bigPath() && c.Mode == "views" {
		c.Mode = "new" // the big-number path needs all limbs to decode
	}
	c.Samples = 1 << 16
	if kind == "gauss" {
		c.Samples = 1 << 19 // the far tail (|x| > 3.5 sigma, probability 4.7e-4) must hold >= 100 samples
	}
	if c.Dist.bigPath() {
		c.Samples = 1 << 15
	}
	if kind == "ternaryH" {
		c.Samples = 2048 * c.Ring.N()
	}
	if h.Thorough() && !c.Dist.bigPath() && rapid.IntRange(0, 3).Draw(t, "more") == 0 {
		c.Samples *= 4
	}
	return c
}

func maxU64(v []uint64) uint64 {
	m := uint64(0)
	for _, x := range v {
		if x > m {
			m = x
		}
	}
	return m
}

func dedup(v []uint64) []uint64 {
	seen := map[uint64]bool{}
	var out []uint64
	for _, x := range v {
		if !seen[x] {
			seen[x] = true
			out = append(out, x)
		}
	}
	return out
}

func (d DistSpec) absBoundF() float64 {
	if d.Kind == "gauss" {
		return math.Floor(d.Bound + 0.5)
	}
	return 1
}

// bernstein returns t such that a sum of n independent variables with variance <= v each and |X - EX| <= m deviates from
// its mean by more than t with probability < 2*exp(-36) < 5e-16 (Bernstein's inequality; no normal approximation).
func bernstein(n, v, m float64) float64 {
	const L = 36.0
	a := L * m / 3
	return a + math.Sqrt(a*a+2*L*n*v)
}

// gaussModel returns the second and fourth moments, in units of sigma, of (i) the continuous half-normal truncated at
// a = bound/sigma and (ii) the same variable rounded to the nearest integer the way a rounding sampler discretises it.
func gaussModel(sigma, bound float64) (m2c, m4c, m2r, m4r float64) {
	a := bound / sigma
	if a > 40 {
		a = 40
	}
	// continuous: Simpson on [0,a]
	const steps = 20000
	hstep := a / steps
	var s0, s2, s4 float64
	for i := 0; i <= steps; i++ {
		z := float64(i) * hstep
		w := 2.0
		if i == 0 || i == steps {
			w = 1
		} else if i%2 == 1 {
			w = 4
		}
		p := math.Exp(-0.5 * z * z)
		s0 += w * p
		s2 += w * p * z * z
		s4 += w * p * z * z * z * z
	}
	m2c, m4c = s2/s0, s4/s0
	if sigma >= 4096 {
		// rounding adds a uniform error of variance 1/12 (negligible in units of sigma)
		return m2c, m4c, m2c + 1/(12*sigma*sigma), m4c + 1/(sigma*sigma)
	}
	// rounded: exact sum over the integers k = round(v), v in [0, bound]
	F := func(t float64) float64 { return math.Erf(t / (sigma * math.Sqrt2)) }
	K := int(math.Floor(math.Min(bound, 40*sigma) + 0.5))
	tot := F(math.Min(bound, 40*sigma))
	for k := 0; k <= K; k++ {
		lo := math.Max(float64(k)-0.5, 0)
		hi := math.Min(float64(k)+0.5, bound)
		if hi <= lo {
			continue
		}
		p := (F(hi) - F(lo)) / tot
		z := float64(k) / sigma
		m2r += p * z * z
		m4r += p * z * z * z * z
	}
	return
}

func runStat(c StatCase, rec *h.Rec) error {
	r, err := c.Ring.build()
	if err != nil {
		return h.Failf("C17:setup:ring", "%v", err)
	}
	d := c.Dist
	N := c.Ring.N()
	maxL := len(c.Ring.Q) - 1
	s, err := ring.NewSampler(keyedPRNG(c.Key), r, d.lattigo(), c.Mont)
	if err != nil {
		return h.Failf("C17:setup:sampler", "%v", err)
	}
	rec.Class(d.class())
	rec.Class("mode=" + c.Mode)
	if c.Mont {
		rec.Class("montgomery")
	}

	if d.bigPath() && h.ProdU(c.Ring.Q).Cmp(new(big.Int).Lsh(d.absBound(), 12)) < 0 {
		rec.Class("undecidable(Q<2^12*bound)")
		return nil
	}
	polys := (c.Samples + N - 1) / N
	n := float64(polys * N)
	q0 := c.Ring.Q[0]
	bigp := d.bigPath()

	// accumulators
	var sum, sum2, sumAbsPos, sumAbsNeg float64
	var pos, neg, zero float64
	// disjoint pairs (i, i+lag) for lag 1, 2, 3 and N/2: both non-zero -> sign of the first, product of the signs; ternary
	// P additionally how often both are non-zero
	lags := []int{1, 2, 3, N / 2}
	var pairNeg, pairPos, pairSame, pairOpp, pairAll [4]float64
	ucorr := make([]float64, maxL+1)  // uniform: per limb sum over disjoint neighbours of (x-mu)(y-mu)
	ucross := make([]float64, maxL+1) // uniform: sum over indices of (x_limb j - mu_j)(x_limb j+1 - mu_j+1)
	ucrossN := make([]float64, maxL+1)
	var signVar float64               // ternary: sum over polynomials of (pos-neg)^2 - (pos+neg)
	var shellPos, shellNeg [5]float64 // gauss: signs per shell of |x|/sigma: [0,1) [1,2) [2,3) [3,3.5) [3.5,inf)
	idx := make([]float64, N)         // ternaryH: how often index i is non-zero
	usum := make([]float64, maxL+1)   // uniform: per limb sum of x/q
	usum2 := make([]float64, maxL+1)  // uniform: per limb sum of (x/q - 1/2)^2
	ucnt := make([]float64, maxL+1)   // uniform: samples per limb
	zmax := 0.0                       // gauss: largest |x|/sigma
	B := d.absBoundF()
	sm := h.NewSplitMix(c.Key ^ 0x5bd1e995)

	for k := 0; k < polys; k++ {
		lvl := maxL
		var out, before ring.Poly
		switch c.Mode {
		case "new":
			out = s.ReadNew()
		case "read":
			out = r.NewPoly()
			s.Read(out)
		case "views":
			lvl = k % (maxL + 1)
			out = r.NewPoly() // callers hand max-level buffers to lower-level views
			s.AtLevel(lvl).Read(out)
		case "add":
			out = r.NewPoly()
			fillPoly(out, c.Ring.Q, sm.Uint64()|2)
			before = copyPoly(out)
			s.ReadAndAdd(out)
		}

		if d.Kind == "uniform" {
			for j := 0; j <= lvl; j++ {
				q := c.Ring.Q[j]
				fq := float64(q)
				for i, v := range out.Coeffs[j] {
					if c.Mode == "add" {
						v = submod(v, before.Coeffs[j][i], q)
					}
					if v >= q {
						return h.Failf("C17:uniform:stats:not-below-modulus", "limb %d coeff %d: %d >= q=%d", j, i, v, q)
					}
					x := float64(v) / fq
					usum[j] += x
					usum2[j] += (x - 0.5) * (x - 0.5)
				}
				ucnt[j] += float64(N)
			}
			if c.Mode != "add" {
				// independence inside a limb (disjoint neighbours) and across limbs (same index)
				for j := 0; j <= lvl; j++ {
					q := float64(c.Ring.Q[j])
					mu := (q - 1) / (2 * q)
					for i := 0; i+1 < N; i += 2 {
						ucorr[j] += (float64(out.Coeffs[j][i])/q - mu) * (float64(out.Coeffs[j][i+1])/q - mu)
					}
					if j < lvl {
						q2 := float64(c.Ring.Q[j+1])
						mu2 := (q2 - 1) / (2 * q2)
						for i := 0; i < N; i++ {
							ucross[j] += (float64(out.Coeffs[j][i])/q - mu) * (float64(out.Coeffs[j+1][i])/q2 - mu2)
						}
						ucrossN[j] += float64(N)
					}
				}
			}
			continue
		}

		// signed value of every coefficient
		vals := make([]float64, N)
		if bigp {
			res := make([][]uint64, lvl+1)
			for j := range res {
				res[j] = residues(out.Coeffs[j], c.Ring.Q[j], c.Mont)
				if c.Mode == "add" {
					b := residues(before.Coeffs[j], c.Ring.Q[j], c.Mont)
					for i := range res[j] {
						res[j][i] = submod(res[j][i], b[i], c.Ring.Q[j])
					}
				}
			}
			qs := c.Ring.Q[:lvl+1]
			x := h.VecCenter(h.CRT(res, qs), h.ProdU(qs))
			for i := range x {
				f, _ := new(big.Float).SetInt(x[i]).Float64()
				vals[i] = f
			}
		} else {
			res := residues(out.Coeffs[0], q0, false)
			if c.Mode == "add" {
				b := residues(before.Coeffs[0], q0, false)
				for i := range res {
					res[i] = submod(res[i], b[i], q0)
				}
			}
			if c.Mont {
				res = residues(res, q0, true)
			}
			for i, v := range res {
				if v > q0/2 {
					vals[i] = -float64(q0 - v)
				} else {
					vals[i] = float64(v)
				}
			}
		}

		hw := 0
		for i, v := range vals {
			if math.Abs(v) > B {
				if bigp && v < 0 {
					if rec.Known("C17:gauss:bignum:negative-sample-exceeds-bound", fmt.Sprintf("sample %g below -bound %g", v, B)) {
						continue
					}
				}
				return h.Failf(fmt.Sprintf("C17:%s:stats:outside-support", d.Kind), "poly %d coeff %d: value %g outside [-%g, %g] (limb 0, q=%d)", k, i, v, B, B, q0)
			}
			z := v
			if d.Kind == "gauss" {
				z = v / d.Sigma
				if math.Abs(z) > zmax {
					zmax = math.Abs(z)
				}
			}
			sum += z
			sum2 += z * z
			sh := int(math.Abs(z))
			if sh > 3 {
				sh = 3
			}
			if math.Abs(z) >= 3.5 {
				sh = 4
			}
			switch {
			case v > 0:
				pos++
				sumAbsPos += z
				shellPos[sh]++
			case v < 0:
				neg++
				sumAbsNeg -= z
				shellNeg[sh]++
			default:
				zero++
			}
			if v != 0 {
				hw++
				idx[i]++
			}
		}
		// neighbours are independent: given that both coefficients of a disjoint pair are non-zero, the sign of the first
		// is a fair coin and so is the product of the two signs
		var sp float64
		for li, lag := range lags {
			if li > 0 && (lag <= lags[li-1] || lag < 1) {
				continue // N/2 coincides with a smaller lag for tiny N
			}
			for i := 0; i+lag < N; i++ {
				if (i/lag)%2 != 0 {
					continue
				}
				a, b := vals[i], vals[i+lag]
				pairAll[li]++
				if a != 0 && b != 0 {
					if a < 0 {
						pairNeg[li]++
					} else {
						pairPos[li]++
					}
					if (a < 0) == (b < 0) {
						pairSame[li]++
					} else {
						pairOpp[li]++
					}
				}
			}
		}
		for _, v := range vals {
			if v > 0 {
				sp++
			} else if v < 0 {
				sp--
			}
		}
		signVar += sp*sp - float64(hw)
		if d.Kind == "ternaryH" && hw != d.H {
			return h.Failf("C17:ternaryH:stats:hamming-weight", "poly %d: Hamming weight %d, want exactly %d", k, hw, d.H)
		}
	}

	fail := func(stat string, format string, a ...any) error {
		key := fmt.Sprintf("C17:%s:stats:%s", d.Kind, stat)
		msg := fmt.Sprintf("%s over %d pooled samples (%d polynomials, mode %s)", fmt.Sprintf(format, a...), int(n), polys, c.Mode)
		if rec.Known(key, msg) {
			rec.Class("known=" + key)
			return nil // listed finding: the remaining statistics are still judged
		}
		return h.Failf(key, "%s", msg)
	}

	lagNames := []string{"1", "2", "3", "N/2"}
	switch d.Kind {
	case "uniform":
		for j := 0; j <= maxL; j++ {
			q := float64(c.Ring.Q[j])
			// E[(x-mu)(y-mu)] = 0 for independent x, y; each term is bounded by 1/4 and has variance <= 1/144 + O(1/q)
			if np := ucnt[j] / 2; np >= 1024 && c.Mode != "add" {
				if t := bernstein(np, 1.0/144+1/q, 0.25); math.Abs(ucorr[j]) > t {
					return fail("limb-neighbour-correlation", "limb %d (q=%d): covariance of disjoint neighbours is %.6f, want 0 +- %.6f", j, c.Ring.Q[j], ucorr[j]/np, t/np)
				}
			}
			if np := ucrossN[j]; np >= 1024 {
				if t := bernstein(np, 1.0/144+1/q, 0.25); math.Abs(ucross[j]) > t {
					return fail("cross-limb-correlation", "limbs %d and %d: covariance of the coefficients of equal index is %.6f, want 0 +- %.6f", j, j+1, ucross[j]/np, t/np)
				}
			}
		}
		for j := 0; j <= maxL; j++ {
			q := float64(c.Ring.Q[j])
			nj := ucnt[j]
			if nj < 2048 {
				continue
			}
			wantMean := (q - 1) / (2 * q)
			if dev := math.Abs(usum[j] - nj*wantMean); dev > bernstein(nj, 1.0/12, 1) {
				return fail("limb-mean", "limb %d (q=%d): mean of x/q is %.5f, want %.5f (allowed deviation %.5f)", j, c.Ring.Q[j], usum[j]/nj, wantMean, bernstein(nj, 1.0/12, 1)/nj)
			}
			// E[(x/q-1/2)^2] = 1/12 up to O(1/q); Var <= 1/180 + O(1/q)
			slack := nj * 2 / q
			if dev := math.Abs(usum2[j] - nj/12); dev > bernstein(nj, 1.0/180+1/q, 0.25)+slack {
				return fail("limb-variance", "limb %d (q=%d): variance of x/q is %.5f, want %.5f (allowed deviation %.5f)", j, c.Ring.Q[j], usum2[j]/nj, 1.0/12, (bernstein(nj, 1.0/180+1/q, 0.25)+slack)/nj)
			}
		}
		rec.NonTrivial(fmt.Sprintf("uniform limbs=%d q:%s mode=%s", maxL+1, c.Ring.sizeClass(), c.Mode))

	case "gauss":
		m2c, m4c, m2r, m4r := gaussModel(d.Sigma, d.Bound)
		M := math.Min(d.Bound/d.Sigma, 40) + 0.5/d.Sigma
		if zmax > 40 {
			return fail("tail", "a sample of %.1f sigma", zmax)
		}
		vmax := math.Max(m2c, m2r)
		// mean 0
		if dev := math.Abs(sum); dev > bernstein(n, vmax, M) {
			return fail("mean", "mean %.5f sigma, want 0 (allowed %.5f)", sum/n, bernstein(n, vmax, M)/n)
		}
		// variance: between the continuous truncated Gaussian (what a discrete Gaussian of parameter sigma has for
		// sigma >= 1) and the rounded one (+1/12); for sigma < 1 a discrete Gaussian is narrower, allow 0.8
		lo, hi := math.Min(m2c, m2r), math.Max(m2c, m2r)
		if d.Sigma < 1 {
			lo *= 0.8
		}
		tv := bernstein(n, math.Max(m4c, m4r), M*M)
		if sum2 < n*lo-tv || sum2 > n*hi+tv {
			return fail("std", "std %.5f sigma, want between %.5f and %.5f sigma (bound %.3g = %.2f sigma; statistical allowance %.4f on the variance)", math.Sqrt(sum2/n), math.Sqrt(lo), math.Sqrt(hi), d.Bound, d.Bound/d.Sigma, tv/n)
		}
		if err := signChecks(fail, n, pos, neg, sumAbsPos, sumAbsNeg, vmax, M); err != nil {
			return err
		}
		// whatever the magnitude, the sign is a fair coin (Hoeffding: |pos-neg| <= sqrt(72 m) fails with probability < 3e-16)
		for sh := range shellPos {
			if m := shellPos[sh] + shellNeg[sh]; m >= 64 && math.Abs(shellPos[sh]-shellNeg[sh]) > math.Sqrt(72*m) {
				return fail("sign-balance-by-magnitude", "among the %d samples with |x|/sigma in shell %d of [0,1) [1,2) [2,3) [3,3.5) [3.5,inf): %d positive, %d negative (allowed difference %.0f)", int(m), sh, int(shellPos[sh]), int(shellNeg[sh]), math.Sqrt(72*m))
			}
		}
		if err := pairChecks(fail, "", lagNames, pairNeg, pairPos, pairSame, pairOpp); err != nil {
			return err
		}
		rec.Note("std/sigma", math.Sqrt(sum2/n))
		rec.NonTrivial(fmt.Sprintf("%s bound/sigma=%.1f mode=%s mont=%v", d.class(), math.Min(d.Bound/d.Sigma, 99), c.Mode, c.Mont))

	case "ternaryP":
		nz := pos + neg
		pclass := ":P!=0.5(Knuth-Yao path)"
		if d.P == 0.5 {
			pclass = ":P=0.5"
		}
		if dev := math.Abs(nz - n*d.P); dev > bernstein(n, d.P*(1-d.P), 1)+1 {
			return fail("density", "density of non-zero coefficients %.5f, want P=%.5f (allowed deviation %.5f)", nz/n, d.P, (bernstein(n, d.P*(1-d.P), 1)+1)/n)
		}
		if err := signChecks(fail, n, pos, neg, sumAbsPos, sumAbsNeg, 1, 1); err != nil {
			return err
		}
		if err := pairChecks(fail, pclass, lagNames, pairNeg, pairPos, pairSame, pairOpp); err != nil {
			return err
		}
		// supports of the two members of a pair are independent: both are non-zero with probability P^2
		for li, name := range lagNames {
			both := pairNeg[li] + pairPos[li]
			if m := pairAll[li]; m >= 1024 {
				p2 := d.P * d.P
				if t := bernstein(m, p2*(1-p2), 1) + 1; math.Abs(both-m*p2) > t {
					if err := fail("lag"+name+"-support-correlation", "of %d disjoint pairs (i, i+%s) both coefficients are non-zero in %d, want P^2 = %.5f of them, +- %.0f", int(m), name, int(both), p2, t); err != nil {
						return err
					}
				}
			}
		}
		// the signs inside one polynomial are independent: E[(pos-neg)^2 | support] = pos+neg
		if t := bernstein(float64(polys), 2*float64(N*N), float64(N*N)); math.Abs(signVar) > t {
			return fail("sign-sum-variance", "sum over polynomials of (pos-neg)^2-(pos+neg) is %.0f, want 0 +- %.0f", signVar, t)
		}
		rec.Note("density", nz/n)
		rec.NonTrivial(fmt.Sprintf("ternaryP P=%.2f mode=%s mont=%v", d.P, c.Mode, c.Mont))

	case "ternaryH":
		if err := signChecks(fail, n, pos, neg, sumAbsPos, sumAbsNeg, 1, 1); err != nil {
			return err
		}
		if err := pairChecks(fail, "", lagNames, pairNeg, pairPos, pairSame, pairOpp); err != nil {
			return err
		}
		// uniform over the ternary vectors of weight H: the H signs of one polynomial are independent fair coins
		if t := bernstein(float64(polys), 2*float64(d.H*d.H), float64(d.H*d.H)); math.Abs(signVar) > t {
			return fail("sign-sum-variance", "sum over %d polynomials of (pos-neg)^2-H is %.0f, want 0 +- %.0f", polys, signVar, t)
		}
		// uniform over the supports: every index is non-zero with probability H/N, independently across polynomials
		p := float64(d.H) / float64(N)
		t := bernstein(float64(polys), p*(1-p), 1)
		for i, cnt := range idx {
			if math.Abs(cnt-float64(polys)*p) > t {
				return fail("index-frequency", "index %d is non-zero in %d of %d polynomials, want about %.1f (allowed deviation %.1f)", i, int(cnt), polys, float64(polys)*p, t)
			}
		}
		hc := "mid"
		switch d.H {
		case 1:
			hc = "1"
		case N:
			hc = "N"
		case N - 1:
			hc = "N-1"
		}
		rec.NonTrivial(fmt.Sprintf("ternaryH H=%s logN=%d mode=%s mont=%v", hc, c.Ring.LogN, c.Mode, c.Mont))
	}
	return nil
}

// pairChecks: independence of neighbouring coefficients (disjoint pairs), fair-coin Hoeffding bounds.
func pairChecks(fail func(string, string, ...any) error, class string, lagNames []string, pairNegs, pairPoss, pairSames, pairOpps [4]float64) error {
	for li, name := range lagNames {
		pairNeg, pairPos, pairSame, pairOpp := pairNegs[li], pairPoss[li], pairSames[li], pairOpps[li]
		dep, cor, cl := "neighbour-dependence", "neighbour-sign-correlation", class
		if li > 0 {
			dep, cor, cl = "lag"+name+"-dependence", "lag"+name+"-sign-correlation", ""
		}
		if m := pairNeg + pairPos; m >= 64 {
			if math.Abs(pairNeg-pairPos) > math.Sqrt(72*m) {
				if err := fail(dep+cl, "among %d disjoint pairs (i, i+%s) of non-zero coefficients the first is negative %d times and positive %d times (allowed difference %.0f)", int(m), name, int(pairNeg), int(pairPos), math.Sqrt(72*m)); err != nil {
					return err
				}
			}
			if math.Abs(pairSame-pairOpp) > math.Sqrt(72*m) {
				if err := fail(cor, "among %d disjoint pairs (i, i+%s) of non-zero coefficients %d have equal and %d opposite signs (allowed difference %.0f)", int(m), name, int(pairSame), int(pairOpp), math.Sqrt(72*m)); err != nil {
					return err
				}
			}
		}
	}
	return nil
}

// signChecks: signs balanced, and the magnitude does not depend on the sign (the declared distributions are symmetric).
func signChecks(fail func(string, string, ...any) error, n, pos, neg, sumAbsPos, sumAbsNeg, v, m float64) error {
	nz := pos + neg
	if nz < 64 {
		return nil
	}
	// Hoeffding for a fair coin: P(|pos-neg| > sqrt(72 nz)) < 2 exp(-36)
	if dev := math.Abs(pos - neg); dev > math.Sqrt(72*nz) {
		return fail("sign-balance", "%d positive and %d negative coefficients (allowed difference %.0f)", int(pos), int(neg), math.Sqrt(72*nz))
	}
	if pos >= 1024 && neg >= 1024 && m > 1 {
		// mean magnitude among positive vs among negative samples
		cv := v * n / nz // E[z^2 | z != 0] bounds the conditional variance of the magnitude
		tp := bernstein(pos, cv, m) / pos
		tn := bernstein(neg, cv, m) / neg
		if dev := math.Abs(sumAbsPos/pos - sumAbsNeg/neg); dev > tp+tn {
			return fail("sign-magnitude-dependence", "mean magnitude %.5f among positive and %.5f among negative samples (allowed difference %.5f)", sumAbsPos/pos, sumAbsNeg/neg, tp+tn)
		}
	}
	return nil
}

var propStat = h.NewProp("TestPropStats", h.Budget{Quick: 160, Thorough: 3000}, genStat, runStat)

func TestPropStats(t *testing.T) { propStat.Check(t) }
