package c17

import (
	"bytes"
	"fmt"
	"math"
	"math/big"
	"math/bits"
	"strings"
	"testing"

	"verif/internal/h"

	"github.com/tuneinsight/lattigo/v6/core/rlwe"
	"github.com/tuneinsight/lattigo/v6/multiparty"
	"github.com/tuneinsight/lattigo/v6/multiparty/mpbgv"
	"github.com/tuneinsight/lattigo/v6/multiparty/mpckks"
	"github.com/tuneinsight/lattigo/v6/ring"
	"github.com/tuneinsight/lattigo/v6/ring/ringqp"
	"github.com/tuneinsight/lattigo/v6/utils/bignum"
	"github.com/tuneinsight/lattigo/v6/utils/sampling"
	"pgregory.net/rapid"
)

// ---------------------------------------------------------------------------------------------------------------------
// sampling.KeyedPRNG: same key => same stream, Reset replays, distinct keys => unrelated streams, Key() round trip
// ---------------------------------------------------------------------------------------------------------------------

type PRNGCase struct {
	KeyLen   int    `json:"keyLen"`   // 0..64 bytes (BLAKE2b key size limit)
	KeySeed  uint64 `json:"keySeed"`  // key bytes = SplitMix(KeySeed)
	OtherKey string `json:"otherKey"` // how the distinct key is derived: "seed" | "flipbit" | "extend0" | "truncate"
	Other    uint64 `json:"other"`
	Chunks   []int  `json:"chunks"`   // sizes of the successive Read calls
	ResetAt  int    `json:"resetAt"`  // Reset after this many chunks, then read everything again
	FromRand bool   `json:"fromRand"` // use sampling.NewPRNG() (key drawn from crypto/rand, deterministic under the harness)
}

func genPRNG(t *rapid.T) PRNGCase {
	var c PRNGCase
	switch rapid.IntRange(0, 5).Draw(t, "keyLenK") {
	case 0:
		c.KeyLen = 0
	case 1:
		c.KeyLen = 64
	case 2:
		c.KeyLen = 32
	default:
		c.KeyLen = rapid.IntRange(0, 64).Draw(t, "keyLen")
	}
	c.KeySeed = rapid.Uint64().Draw(t, "keySeed")
	c.OtherKey = []string{"seed", "flipbit", "extend0", "truncate"}[rapid.IntRange(0, 3).Draw(t, "otherKey")]
	c.Other = rapid.Uint64().Draw(t, "other")
	n := rapid.IntRange(1, 8).Draw(t, "nChunks")
	for i := 0; i < n; i++ {
		var sz int
		switch rapid.IntRange(0, 5).Draw(t, fmt.Sprintf("szk%d", i)) {
		case 0:
			sz = 0
		case 1:
			sz = 1024 // the samplers' buffer size
		case 2:
			sz = rapid.IntRange(1, 8).Draw(t, fmt.Sprintf("sz%d", i))
		case 3:
			sz = []int{63, 64, 65, 127, 128, 129}[rapid.IntRange(0, 5).Draw(t, fmt.Sprintf("sz%d", i))] // BLAKE2b block boundaries
		default:
			sz = rapid.IntRange(0, 3000).Draw(t, fmt.Sprintf("sz%d", i))
		}
		c.Chunks = append(c.Chunks, sz)
	}
	c.ResetAt = rapid.IntRange(0, n).Draw(t, "resetAt")
	c.FromRand = rapid.IntRange(0, 4).Draw(t, "fromRand") == 0
	return c
}

func rawKey(seed uint64, n int) []byte {
	k := make([]byte, n)
	sm := h.NewSplitMix(seed)
	for i := range k {
		k[i] = byte(sm.Uint64())
	}
	return k
}

func readChunks(p *sampling.KeyedPRNG, chunks []int) ([]byte, error) {
	var out []byte
	for i, sz := range chunks {
		b := make([]byte, sz)
		n, err := p.Read(b)
		if err != nil || n != sz {
			return nil, h.Failf("C17:prng:short-read", "Read #%d of %d bytes returned n=%d err=%v", i, sz, n, err)
		}
		out = append(out, b...)
	}
	return out, nil
}

func diffFraction(a, b []byte) float64 {
	d := 0
	for i := range a {
		if a[i] != b[i] {
			d++
		}
	}
	return float64(d) / float64(len(a))
}

func runPRNG(c PRNGCase, rec *h.Rec) error {
	key := rawKey(c.KeySeed, c.KeyLen)
	mk := func(k []byte) (*sampling.KeyedPRNG, error) {
		p, err := sampling.NewKeyedPRNG(k)
		if err != nil {
			return nil, h.Failf("C17:prng:constructor", "NewKeyedPRNG(%d-byte key): %v", len(k), err)
		}
		return p, nil
	}
	var p1 *sampling.KeyedPRNG
	var err error
	if c.FromRand {
		if p1, err = sampling.NewPRNG(); err != nil {
			return h.Failf("C17:prng:constructor", "NewPRNG: %v", err)
		}
		key = p1.Key()
		rec.Class("NewPRNG")
	} else {
		if p1, err = mk(key); err != nil {
			return err
		}
		rec.Classf("keyLen=%d", (c.KeyLen+15)/16*16)
	}
	p2, err := mk(key)
	if err != nil {
		return err
	}
	total := 0
	for _, s := range c.Chunks {
		total += s
	}

	s1, err := readChunks(p1, c.Chunks)
	if err != nil {
		return err
	}
	s2, err := readChunks(p2, c.Chunks)
	if err != nil {
		return err
	}
	if !bytes.Equal(s1, s2) {
		return h.Failf("C17:prng:same-key-different-stream", "two generators with the same %d-byte key and the same Read sizes %v disagree", len(key), c.Chunks)
	}

	// a byte stream does not depend on how it is cut into Read calls
	p3, err := mk(key)
	if err != nil {
		return err
	}
	s3, err := readChunks(p3, []int{total})
	if err != nil {
		return err
	}
	if !bytes.Equal(s1, s3) {
		return h.Failf("C17:prng:chunking-changes-stream", "reading %d bytes at once differs from reading them as %v", total, c.Chunks)
	}

	// Reset replays the stream from the start, wherever it happens
	p4, err := mk(key)
	if err != nil {
		return err
	}
	if _, err = readChunks(p4, c.Chunks[:c.ResetAt]); err != nil {
		return err
	}
	p4.Reset()
	s4, err := readChunks(p4, c.Chunks)
	if err != nil {
		return err
	}
	if !bytes.Equal(s1, s4) {
		return h.Failf("C17:prng:reset-does-not-replay", "after Reset (following %d Reads) the stream differs from the initial one", c.ResetAt)
	}
	p1.Reset()
	s5, err := readChunks(p1, c.Chunks)
	if err != nil {
		return err
	}
	if !bytes.Equal(s1, s5) {
		return h.Failf("C17:prng:reset-does-not-replay", "after Reset at the end the stream differs from the initial one")
	}

	// Key() "can be used with NewKeyedPRNG to instantiate a new PRNG that will produce the same stream of bytes"
	if c.FromRand {
		p6, err := mk(p1.Key())
		if err != nil {
			return err
		}
		s6, err := readChunks(p6, c.Chunks)
		if err != nil {
			return err
		}
		if !bytes.Equal(s1, s6) {
			return h.Failf("C17:prng:NewPRNG:Key-does-not-reproduce-stream", "NewKeyedPRNG(p.Key()) of a generator built by NewPRNG gives another stream (Key() returned %d bytes)", len(p1.Key()))
		}
	} else if total > 0 {
		p6, err := mk(p2.Key())
		if err != nil {
			return err
		}
		s6, err := readChunks(p6, c.Chunks)
		if err != nil {
			return err
		}
		if !bytes.Equal(s1, s6) {
			key6 := "C17:prng:NewKeyedPRNG:Key-does-not-reproduce-stream"
			msg := fmt.Sprintf("NewKeyedPRNG(p.Key()) of a generator built by NewKeyedPRNG with a %d-byte key gives another stream (Key() returned %d bytes)", len(key), len(p2.Key()))
			if !rec.Known(key6, msg) {
				return h.Failf(key6, "%s", msg)
			}
			rec.Class("known=" + key6)
		}
	}

	// distinct keys => unrelated streams
	var other []byte
	switch c.OtherKey {
	case "flipbit":
		if len(key) > 0 {
			other = append([]byte(nil), key...)
			other[int(c.Other%uint64(len(key)))] ^= 1 << ((c.Other >> 8) % 8)
		}
	case "extend0":
		if len(key) < 64 {
			other = append(append([]byte(nil), key...), 0)
		}
	case "truncate":
		if len(key) > 0 {
			other = append([]byte(nil), key[:len(key)-1]...)
		}
	}
	if other == nil {
		other = rawKey(c.Other, 32)
	}
	if bytes.Equal(other, key) {
		return nil
	}
	if total >= 64 {
		po, err := mk(other)
		if err != nil {
			return err
		}
		so, err := readChunks(po, c.Chunks)
		if err != nil {
			return err
		}
		if f := diffFraction(s1, so); f <= 0.4 {
			return h.Failf("C17:prng:distinct-keys-related-streams", "keys differing by %q give streams that differ in only %.1f%% of %d bytes", c.OtherKey, 100*f, total)
		}
		if len(c.Chunks) >= 2 || c.ResetAt > 0 {
			rec.NonTrivial(fmt.Sprintf("keyLen=%d rand=%v other=%s chunks=%d reset=%v", c.KeyLen/16, c.FromRand, c.OtherKey, len(c.Chunks), c.ResetAt > 0 && c.ResetAt < len(c.Chunks)))
		}
	}
	return nil
}

var propPRNG = h.NewProp("TestPropKeyedPRNG", h.Budget{Quick: 400, Thorough: 8000}, genPRNG, runPRNG)

func TestPropKeyedPRNG(t *testing.T) { propPRNG.Check(t) }

// ---------------------------------------------------------------------------------------------------------------------
// ringqp.UniformSampler: histories over (levelQ, levelP) views
// ---------------------------------------------------------------------------------------------------------------------

type QPOp struct {
	Kind   string `json:"kind"`          // "read" | "new" | "withprng"
	From   int    `json:"from"`          // sampler the step applies to: 0 = base, k = k-th sampler derived with WithPRNG (mod count)
	Key    uint64 `json:"key,omitempty"` // withprng: key material of the new PRNG
	View   bool   `json:"view"`          // call through AtLevel(LevelQ, LevelP)
	LevelQ int    `json:"levelQ"`
	LevelP int    `json:"levelP"` // -1: no P part
}

type QPCase struct {
	LogN int      `json:"logN"`
	Q    []uint64 `json:"Q"`
	P    []uint64 `json:"P"`
	Key  uint64   `json:"key"`
	Ops  []QPOp   `json:"ops"`
}

func genQP(t *rapid.T) QPCase {
	var c QPCase
	r := genRing(t, 4, 6, 5, false)
	c.LogN = r.LogN
	nP := rapid.IntRange(0, len(r.Q)-1).Draw(t, "nP")
	if nP > 2 {
		nP = 2
	}
	c.Q, c.P = r.Q[:len(r.Q)-nP], r.Q[len(r.Q)-nP:]
	c.Key = rapid.Uint64().Draw(t, "key")
	n := rapid.IntRange(1, 8).Draw(t, "nOps")
	for i := 0; i < n; i++ {
		op := QPOp{Kind: []string{"read", "new", "read", "new", "withprng"}[rapid.IntRange(0, 4).Draw(t, fmt.Sprintf("k%d", i))]}
		op.From = rapid.IntRange(0, 3).Draw(t, fmt.Sprintf("from%d", i))
		if op.Kind == "withprng" {
			op.Key = rapid.Uint64().Draw(t, fmt.Sprintf("prngKey%d", i))
			c.Ops = append(c.Ops, op)
			continue
		}
		op.View = rapid.IntRange(0, 3).Draw(t, fmt.Sprintf("v%d", i)) != 0
		op.LevelQ, op.LevelP = len(c.Q)-1, len(c.P)-1
		if op.View {
			op.LevelQ = rapid.IntRange(0, len(c.Q)-1).Draw(t, fmt.Sprintf("lq%d", i))
			op.LevelP = rapid.IntRange(-1, len(c.P)-1).Draw(t, fmt.Sprintf("lp%d", i))
		}
		c.Ops = append(c.Ops, op)
	}
	return c
}

func runQP(c QPCase, rec *h.Rec) error {
	rq, err := RingSpec{LogN: c.LogN, Q: c.Q}.build()
	if err != nil {
		return h.Failf("C17:setup:ring", "%v", err)
	}
	rqp := ringqp.Ring{RingQ: rq}
	if len(c.P) > 0 {
		if rqp.RingP, err = (RingSpec{LogN: c.LogN, Q: c.P}).build(); err != nil {
			return h.Failf("C17:setup:ring", "%v", err)
		}
	}
	Ss := []ringqp.UniformSampler{ringqp.NewUniformSampler(keyedPRNG(c.Key), rqp)}
	Ts := []ringqp.UniformSampler{ringqp.NewUniformSampler(keyedPRNG(c.Key), rqp)}
	derived := false
	N := 1 << c.LogN
	rec.Classf("limbsQ=%d limbsP=%d", len(c.Q), len(c.P))

	var firsts [][]uint64
	levels := map[[2]int]bool{}
	for oi, op := range c.Ops {
		S, T := Ss[op.From%len(Ss)], Ts[op.From%len(Ts)]
		if op.Kind == "withprng" {
			// subject: derived with WithPRNG from a sampler that may have been read; twin: freshly constructed
			k2 := h.NewSplitMix(c.Key ^ op.Key ^ uint64(oi+1)*0x9e3779b97f4a7c15).Uint64()
			Ss = append(Ss, S.WithPRNG(keyedPRNG(k2)))
			Ts = append(Ts, ringqp.NewUniformSampler(keyedPRNG(k2), rqp))
			derived = true
			rec.Class("withprng")
			continue
		}
		s, tw := S, T
		if op.View {
			s, tw = S.AtLevel(op.LevelQ, op.LevelP), T.AtLevel(op.LevelQ, op.LevelP)
		}
		levels[[2]int{op.LevelQ, op.LevelP}] = true
		var a, b ringqp.Poly
		if op.Kind == "new" {
			a, b = s.ReadNew(), tw.ReadNew()
			if a.Q.Level() != op.LevelQ || a.P.Level() != op.LevelP {
				return h.Failf("C17:ringqp:new:wrong-level", "op %d: ReadNew at levels (%d,%d) returned levels (%d,%d)", oi, op.LevelQ, op.LevelP, a.Q.Level(), a.P.Level())
			}
		} else {
			a.Q = ring.NewPoly(N, op.LevelQ)
			b.Q = ring.NewPoly(N, op.LevelQ)
			fillPoly(a.Q, c.Q, uint64(oi)*4)
			fillPoly(b.Q, c.Q, uint64(oi)*4)
			if op.LevelP >= 0 {
				a.P = ring.NewPoly(N, op.LevelP)
				b.P = ring.NewPoly(N, op.LevelP)
			}
			s.Read(a)
			tw.Read(b)
		}
		if !polyEqual(a.Q, b.Q) || !polyEqual(a.P, b.P) {
			if derived {
				return h.Failf("C17:ringqp:WithPRNG:derived-or-parent-differs-from-fresh-twin", "op %d: after WithPRNG the subject (derived sampler or its parent) and the twin (freshly constructed sampler over an identically keyed PRNG, parent that never derived) differ", oi)
			}
			return h.Failf("C17:ringqp:twin-not-bit-identical", "op %d: two samplers with the same key and call history differ", oi)
		}
		for j := 0; j <= op.LevelQ; j++ {
			for i, v := range a.Q.Coeffs[j] {
				if v >= c.Q[j] {
					return h.Failf("C17:ringqp:not-below-modulus", "op %d Q limb %d coeff %d: %d >= %d", oi, j, i, v, c.Q[j])
				}
			}
		}
		for j := 0; j <= op.LevelP; j++ {
			for i, v := range a.P.Coeffs[j] {
				if v >= c.P[j] {
					return h.Failf("C17:ringqp:not-below-modulus", "op %d P limb %d coeff %d: %d >= %d", oi, j, i, v, c.P[j])
				}
			}
		}
		firsts = append(firsts, a.Q.Coeffs[0])
		if op.LevelP >= 0 {
			firsts = append(firsts, a.P.Coeffs[0])
		}
	}
	// collision probability of two independent uniform limbs <= 33^-16 < 2^-80
	for a := 0; a < len(firsts); a++ {
		for b := a + 1; b < len(firsts); b++ {
			same := true
			for i := range firsts[a] {
				if firsts[a][i] != firsts[b][i] {
					same = false
					break
				}
			}
			if same {
				return h.Failf("C17:ringqp:history:repeated-sample", "two limbs drawn in one history are identical (outputs %d and %d)", a, b)
			}
		}
	}
	if len(c.Ops) >= 3 && (len(levels) >= 2 || derived) {
		rec.NonTrivial(fmt.Sprintf("logN=%d Q=%d P=%d ops=%d levels=%d withprng=%v", c.LogN, len(c.Q), len(c.P), len(c.Ops)/3, len(levels), derived))
	}
	return nil
}

var propQP = h.NewProp("TestPropRingQPHistory", h.Budget{Quick: 300, Thorough: 6000}, genQP, runQP)

func TestPropRingQPHistory(t *testing.T) { propQP.Check(t) }

// ---------------------------------------------------------------------------------------------------------------------
// seed expansion: compressed evaluation keys (EvaluationKey.Expand) and common reference polynomials (SampleCRP)
// ---------------------------------------------------------------------------------------------------------------------

type EvkParams struct {
	LevelQ  int `json:"levelQ"`
	LevelP  int `json:"levelP"`
	BaseTwo int `json:"baseTwo"`
}

func (e EvkParams) lattigo() rlwe.EvaluationKeyParameters {
	lq, lp, b := e.LevelQ, e.LevelP, e.BaseTwo
	return rlwe.EvaluationKeyParameters{LevelQ: &lq, LevelP: &lp, BaseTwoDecomposition: &b}
}

func genEvkParams(t *rapid.T, s h.RLWESpec, label string) EvkParams {
	var e EvkParams
	e.LevelQ = len(s.Q) - 1
	e.LevelP = len(s.P) - 1
	if rapid.Bool().Draw(t, label+"_lower") {
		e.LevelQ = rapid.IntRange(0, len(s.Q)-1).Draw(t, label+"_lq")
		if len(s.P) > 0 {
			e.LevelP = rapid.IntRange(0, len(s.P)-1).Draw(t, label+"_lp")
		}
	}
	if rapid.IntRange(0, 2).Draw(t, label+"_b2k") == 0 {
		e.BaseTwo = rapid.IntRange(8, 30).Draw(t, label+"_b2")
	}
	return e
}

type ExpandCase struct {
	Params h.RLWESpec `json:"params"`
	Evk    EvkParams  `json:"evk"`
	Seed   uint64     `json:"seed"`
	Kind   string     `json:"kind"` // "evk" | "galois" | "relin"
	Buffer bool       `json:"buffer"`
}

func (c ExpandCase) RandSeed() uint64 { return c.Seed }

var rlweOpts = h.RLWEOpts{MinLogN: 4, MaxLogN: 6, MinQ: 1, MaxQ: 3, MinP: 0, MaxP: 2, MinBits: 25, MaxBits: 60, DefaultDists: true}

func genExpand(t *rapid.T) ExpandCase {
	var c ExpandCase
	c.Params = h.GenRLWESpec(t, rlweOpts)
	c.Evk = genEvkParams(t, c.Params, "evk")
	c.Seed = rapid.Uint64().Draw(t, "seed")
	c.Kind = []string{"evk", "galois", "relin"}[rapid.IntRange(0, 2).Draw(t, "kind")]
	c.Buffer = rapid.Bool().Draw(t, "buffer")
	return c
}

func gctEqual(a, b *rlwe.GadgetCiphertext) bool {
	if len(a.Value) != len(b.Value) {
		return false
	}
	for i := range a.Value {
		if len(a.Value[i]) != len(b.Value[i]) {
			return false
		}
		for j := range a.Value[i] {
			if len(a.Value[i][j]) != len(b.Value[i][j]) {
				return false
			}
			for k := range a.Value[i][j] {
				if !polyEqual(a.Value[i][j][k].Q, b.Value[i][j][k].Q) || !polyEqual(a.Value[i][j][k].P, b.Value[i][j][k].P) {
					return false
				}
			}
		}
	}
	return true
}

// cloneCompressed deep-copies a compressed key INCLUDING its seed (EvaluationKey.CopyNew drops the seed).
func cloneCompressed(evk *rlwe.EvaluationKey) *rlwe.EvaluationKey {
	cp := &rlwe.EvaluationKey{GadgetCiphertext: *evk.GadgetCiphertext.CopyNew()}
	if evk.Seed != nil {
		s := *evk.Seed
		cp.Seed = &s
	}
	return cp
}

func runExpand(c ExpandCase, rec *h.Rec) error {
	params, err := c.Params.Build()
	if err != nil {
		return h.Failf("C17:setup:params", "%v", err)
	}
	kgen := rlwe.NewKeyGenerator(params)
	skIn := kgen.GenSecretKeyNew()
	skOut := kgen.GenSecretKeyNew()
	ep := c.Evk.lattigo()
	ep.Compressed = true
	rec.Class("kind=" + c.Kind)
	rec.Classf("P=%d", len(c.Params.P))

	var evk *rlwe.EvaluationKey
	var noise func(e *rlwe.EvaluationKey) float64
	switch c.Kind {
	case "evk":
		evk = kgen.GenEvaluationKeyNew(skIn, skOut, ep)
		noise = func(e *rlwe.EvaluationKey) float64 { return rlwe.NoiseEvaluationKey(e, skIn, skOut, params) }
	case "galois":
		gk := kgen.GenGaloisKeyNew(params.GaloisElement(1), skOut, ep)
		evk = &gk.EvaluationKey
		noise = func(e *rlwe.EvaluationKey) float64 {
			return rlwe.NoiseGaloisKey(&rlwe.GaloisKey{EvaluationKey: *e, GaloisElement: gk.GaloisElement, NthRoot: gk.NthRoot}, skOut, params)
		}
	case "relin":
		rk := kgen.GenRelinearizationKeyNew(skOut, ep)
		evk = &rk.EvaluationKey
		noise = func(e *rlwe.EvaluationKey) float64 {
			return rlwe.NoiseRelinearizationKey(&rlwe.RelinearizationKey{EvaluationKey: *e}, skOut, params)
		}
	}
	if !evk.IsCompressed() || evk.Seed == nil {
		return h.Failf("C17:expand:not-compressed", "key generated with Compressed=true: IsCompressed=%v seed=%v", evk.IsCompressed(), evk.Seed != nil)
	}
	A, B, W := cloneCompressed(evk), cloneCompressed(evk), cloneCompressed(evk)
	var buf *rlwe.GadgetCiphertext
	if c.Buffer {
		buf = rlwe.NewGadgetCiphertext(params, 0, c.Evk.LevelQ, c.Evk.LevelP, c.Evk.BaseTwo)
	}
	if err := A.Expand(params, nil); err != nil {
		return h.Failf("C17:expand:error", "Expand(nil buffer): %v", err)
	}
	if err := B.Expand(params, buf); err != nil {
		return h.Failf("C17:expand:error", "Expand(buffer): %v", err)
	}
	if A.Degree() != 1 || B.Degree() != 1 {
		return h.Failf("C17:expand:degree", "expanded key has degree %d / %d, want 1", A.Degree(), B.Degree())
	}
	// equal seeds => bit-identical expansion (with and without a caller-provided buffer)
	if !gctEqual(&A.GadgetCiphertext, &B.GadgetCiphertext) {
		return h.Failf("C17:expand:not-reproducible", "two expansions of the same compressed key differ")
	}
	// the expansion replays the generator's call sequence: the expanded key is a valid key (noise = fresh error, not ~Q)
	limit := 8.0 // |sum of <=3 rows of errors| <= 3*19.2 < 2^6
	// rlwe.NoiseGadgetCiphertext (trusted helper) indexes every row with the column count of row 0: only usable when all
	// rows have the same base-two vector size
	sizes := A.BaseTwoDecompositionVectorSize()
	for _, sz := range sizes {
		if sz != sizes[0] {
			rec.Class("noise-oracle-skipped(ragged base-two rows)")
			noise = func(*rlwe.EvaluationKey) float64 { return 0 }
			limit = -100
			break
		}
	}
	if limit < 0 {
		// reproducibility only
	} else if n := noise(A); n > limit || math.IsNaN(n) {
		return h.Failf("C17:expand:mask-differs-from-generation", "%s key levels (%d,%d) base2=%d: log2(std of the noise) of the expanded key is %.1f, want <= %.0f (the mask regenerated from the seed is not the one used at generation)", c.Kind, c.Evk.LevelQ, c.Evk.LevelP, c.Evk.BaseTwo, n, limit)
	}
	// another seed => another mask (and the key no longer decrypts)
	W.Seed[int(c.Seed%32)] ^= 1
	if err := W.Expand(params, nil); err != nil {
		return h.Failf("C17:expand:error", "Expand(flipped seed): %v", err)
	}
	a0, w0 := A.Value[0][0][1].Q.Coeffs[0], W.Value[0][0][1].Q.Coeffs[0]
	d := 0
	for i := range a0 {
		if a0[i] != w0[i] {
			d++
		}
	}
	if float64(d) <= 0.4*float64(len(a0)) {
		return h.Failf("C17:expand:distinct-seeds-related", "seeds differing in one bit give masks equal in %d of %d coefficients", len(a0)-d, len(a0))
	}
	if n := noise(W); limit > 0 && n <= limit+4 {
		return h.Failf("C17:expand:oracle-not-discriminating", "the key expanded from a wrong seed still has noise %.1f", n)
	}
	rec.NonTrivial(fmt.Sprintf("%s logN=%d Q=%d P=%d lower=%v base2=%v buffer=%v ntt=%v", c.Kind, c.Params.LogN, len(c.Params.Q), len(c.Params.P), c.Evk.LevelQ < len(c.Params.Q)-1 || c.Evk.LevelP < len(c.Params.P)-1, c.Evk.BaseTwo != 0, c.Buffer, c.Params.NTT))
	return nil
}

var propExpand = h.NewProp("TestPropExpand", h.Budget{Quick: 200, Thorough: 4000}, genExpand, runExpand)

func TestPropExpand(t *testing.T) { propExpand.Check(t) }

// CRPOp is one SampleCRP call of a protocol on the shared common reference string.
type CRPOp struct {
	Proto string    `json:"proto"` // "pk" | "relin" | "evk" | "galois" | "ks" | "mpckks-mlt" | "mpckks-refresh" | "mpbgv-mt" | "mpbgv-refresh"
	Evk   EvkParams `json:"evk"`
	Level int       `json:"level"` // ks
}

type CRPCase struct {
	Params h.RLWESpec `json:"params"`
	T      uint64     `json:"t,omitempty"` // plaintext modulus for the mpbgv protocols
	Key    uint64     `json:"key"`
	Ops    []CRPOp    `json:"ops"`
}

func genCRP(t *rapid.T) CRPCase {
	var c CRPCase
	c.Params = h.GenRLWESpec(t, rlweOpts)
	avoid := map[uint64]bool{}
	for _, q := range append(append([]uint64(nil), c.Params.Q...), c.Params.P...) {
		avoid[q] = true
	}
	c.T = h.GenPlainModulus(t, c.Params.LogN, rapid.IntRange(8, 20).Draw(t, "tBits"), avoid)
	c.Key = rapid.Uint64().Draw(t, "key")
	n := rapid.IntRange(1, 6).Draw(t, "nOps")
	for i := 0; i < n; i++ {
		op := CRPOp{Proto: crpProtos[rapid.IntRange(0, len(crpProtos)-1).Draw(t, fmt.Sprintf("proto%d", i))]}
		op.Evk = genEvkParams(t, c.Params, fmt.Sprintf("evk%d", i))
		op.Level = rapid.IntRange(0, len(c.Params.Q)-1).Draw(t, fmt.Sprintf("lvl%d", i))
		c.Ops = append(c.Ops, op)
	}
	return c
}

var crpProtos = []string{"pk", "relin", "evk", "galois", "ks", "mpckks-mlt", "mpckks-refresh", "mpbgv-mt", "mpbgv-refresh"}

// flatten returns every limb of a CRP as a list.
func flattenQP(ps ...ringqp.Poly) (out [][]uint64) {
	for _, p := range ps {
		out = append(out, p.Q.Coeffs...)
		out = append(out, p.P.Coeffs...)
	}
	return
}

type party struct {
	crs   *sampling.KeyedPRNG
	pk    multiparty.PublicKeyGenProtocol
	relin multiparty.RelinearizationKeyGenProtocol
	evk   multiparty.EvaluationKeyGenProtocol
	gal   multiparty.GaloisKeyGenProtocol
	ks    multiparty.KeySwitchProtocol
	// masked-transform / refresh protocols of the two schemes (nil when the scheme parameters cannot be built)
	cMlt *mpckks.MaskedLinearTransformationProtocol
	cRef *mpckks.RefreshProtocol
	bMt  *mpbgv.MaskedTransformProtocol
	bRef *mpbgv.RefreshProtocol
}

// newSchemeProtocols adds the mpckks / mpbgv protocols built on scheme parameters over the same ring.
func (p *party) newSchemeProtocols(c CRPCase) {
	noise := ring.DiscreteGaussian{Sigma: 3.2, Bound: 19.2}
	lit := c.Params
	lit.NTT = true
	if cp, err := (h.CKKSSpec{RLWESpec: lit, LogScale: 20}).Build(); err == nil {
		if m, err := mpckks.NewMaskedLinearTransformationProtocol(cp, cp, 64, noise); err == nil {
			p.cMlt = &m
		}
		if r, err := mpckks.NewRefreshProtocol(cp, 64, noise); err == nil {
			p.cRef = &r
		}
	}
	if !c.Params.CI && c.T != 0 {
		if bp, err := (h.BGVSpec{RLWESpec: lit, T: c.T}).Build(); err == nil {
			if m, err := mpbgv.NewMaskedTransformProtocol(bp, bp, noise); err == nil {
				p.bMt = &m
			}
			if r, err := mpbgv.NewRefreshProtocol(bp, noise); err == nil {
				p.bRef = &r
			}
		}
	}
}

func newParty(params rlwe.Parameters, key uint64) (*party, error) {
	p := &party{crs: keyedPRNG(key)}
	p.pk = multiparty.NewPublicKeyGenProtocol(params)
	p.relin = multiparty.NewRelinearizationKeyGenProtocol(params)
	p.evk = multiparty.NewEvaluationKeyGenProtocol(params)
	p.gal = multiparty.NewGaloisKeyGenProtocol(params)
	var err error
	p.ks, err = multiparty.NewKeySwitchProtocol(params, ring.DiscreteGaussian{Sigma: 3.2, Bound: 19.2})
	return p, err
}

func (p *party) sample(op CRPOp) [][]uint64 {
	switch op.Proto {
	case "pk":
		return flattenQP(p.pk.SampleCRP(p.crs).Value)
	case "relin":
		var out [][]uint64
		for _, row := range p.relin.SampleCRP(p.crs, op.Evk.lattigo()).Value {
			out = append(out, flattenQP(row...)...)
		}
		return out
	case "evk":
		var out [][]uint64
		for _, row := range p.evk.SampleCRP(p.crs, op.Evk.lattigo()).Value {
			out = append(out, flattenQP(row...)...)
		}
		return out
	case "galois":
		var out [][]uint64
		for _, row := range p.gal.SampleCRP(p.crs, op.Evk.lattigo()).Value {
			out = append(out, flattenQP(row...)...)
		}
		return out
	case "mpckks-mlt":
		if p.cMlt == nil {
			return nil
		}
		return p.cMlt.SampleCRP(op.Level, p.crs).Value.Coeffs
	case "mpckks-refresh":
		if p.cRef == nil {
			return nil
		}
		return p.cRef.SampleCRP(op.Level, p.crs).Value.Coeffs
	case "mpbgv-mt":
		if p.bMt == nil {
			return nil
		}
		return p.bMt.SampleCRP(op.Level, p.crs).Value.Coeffs
	case "mpbgv-refresh":
		if p.bRef == nil {
			return nil
		}
		return p.bRef.SampleCRP(op.Level, p.crs).Value.Coeffs
	default:
		return p.ks.SampleCRP(op.Level, p.crs).Value.Coeffs
	}
}

func runCRP(c CRPCase, rec *h.Rec) error {
	params, err := c.Params.Build()
	if err != nil {
		return h.Failf("C17:setup:params", "%v", err)
	}
	// two parties with the same CRS key, a third with another key
	A, err := newParty(params, c.Key)
	if err != nil {
		return h.Failf("C17:setup:protocol", "%v", err)
	}
	B, _ := newParty(params, c.Key)
	X, _ := newParty(params, c.Key^1)
	for _, p := range []*party{A, B, X} {
		p.newSchemeProtocols(c)
	}
	moduli := append(append([]uint64(nil), c.Params.Q...), c.Params.P...)
	isMod := map[uint64]bool{}
	for _, q := range moduli {
		isMod[q] = true
	}
	protos := map[string]bool{}
	var all [][]uint64
	for oi, op := range c.Ops {
		protos[op.Proto] = true
		rec.Class("proto=" + op.Proto)
		a, b, x := A.sample(op), B.sample(op), X.sample(op)
		if a == nil && b == nil && x == nil && strings.HasPrefix(op.Proto, "mp") {
			rec.Class("skipped(scheme parameters not constructible)=" + op.Proto)
			continue
		}
		// values of a common reference polynomial are reduced
		for l := range a {
			if len(a[l]) != params.N() {
				return h.Failf("C17:crp:shape", "op %d (%s) limb %d has %d coefficients, N=%d", oi, op.Proto, l, len(a[l]), params.N())
			}
		}
		// a key-switch style CRP lives at the requested level, a public-key CRP at the maximum level of Q and P
		wantLimbs := -1
		switch op.Proto {
		case "pk":
			wantLimbs = len(c.Params.Q) + len(c.Params.P)
		case "ks", "mpckks-mlt", "mpckks-refresh", "mpbgv-mt", "mpbgv-refresh":
			wantLimbs = op.Level + 1
		}
		if wantLimbs >= 0 && len(a) != wantLimbs {
			return h.Failf("C17:crp:wrong-level:"+op.Proto, "op %d: SampleCRP(level %d) returned %d limbs, want %d", oi, op.Level, len(a), wantLimbs)
		}
		if wantLimbs >= 0 {
			// reduced values: limb l of these CRPs is modulo moduli[l] (Q chain, then P chain for the public-key CRP)
			for l := range a {
				q := c.Params.Q[0]
				if l < len(c.Params.Q) {
					q = c.Params.Q[l]
				} else {
					q = c.Params.P[l-len(c.Params.Q)]
				}
				for i, v := range a[l] {
					if v >= q {
						return h.Failf("C17:crp:not-below-modulus:"+op.Proto, "op %d limb %d coeff %d: %d >= %d", oi, l, i, v, q)
					}
				}
			}
		}
		if len(a) == 0 || len(a) != len(b) || len(a) != len(x) {
			return h.Failf("C17:crp:shape", "op %d (%s): %d / %d / %d limbs", oi, op.Proto, len(a), len(b), len(x))
		}
		for l := range a {
			if len(a[l]) != len(b[l]) {
				return h.Failf("C17:crp:shape", "op %d (%s) limb %d: %d / %d coefficients", oi, op.Proto, l, len(a[l]), len(b[l]))
			}
			diff := 0
			for i := range a[l] {
				if a[l][i] != b[l][i] {
					return h.Failf("C17:crp:parties-disagree:"+op.Proto, "op %d: two parties with the same CRS key and the same sequence of SampleCRP calls obtained different polynomials (limb %d coeff %d)", oi, l, i)
				}
				if a[l][i] != x[l][i] {
					diff++
				}
			}
			if float64(diff) <= 0.4*float64(len(a[l])) {
				return h.Failf("C17:crp:distinct-keys-related:"+op.Proto, "op %d limb %d: CRS keys differing in one bit give %d equal coefficients of %d", oi, l, len(a[l])-diff, len(a[l]))
			}
		}
		all = append(all, a...)
	}
	// no limb is handed out twice within one CRS
	for i := 0; i < len(all); i++ {
		for j := i + 1; j < len(all); j++ {
			same := true
			for k := range all[i] {
				if all[i][k] != all[j][k] {
					same = false
					break
				}
			}
			if same {
				return h.Failf("C17:crp:repeated-polynomial", "limbs %d and %d sampled from one CRS are identical", i, j)
			}
		}
	}
	if len(c.Ops) >= 2 {
		rec.NonTrivial(fmt.Sprintf("logN=%d Q=%d P=%d protos=%d ops=%d", c.Params.LogN, len(c.Params.Q), len(c.Params.P), len(protos), len(c.Ops)))
	}
	return nil
}

var propCRP = h.NewProp("TestPropSampleCRP", h.Budget{Quick: 200, Thorough: 4000}, genCRP, runCRP)

func TestPropSampleCRP(t *testing.T) { propCRP.Check(t) }

// ---------------------------------------------------------------------------------------------------------------------
// rlwe.Encryptor.WithPRNG: the mask c1 of the derived encryptor is determined by the PRNG it was given
// ---------------------------------------------------------------------------------------------------------------------

type EncPRNGCase struct {
	Params h.RLWESpec `json:"params"`
	Seed   uint64     `json:"seed"`
	Key    uint64     `json:"key"`
	Warm   []int      `json:"warm"`   // levels of the encryptions done by the parent before WithPRNG
	Levels []int      `json:"levels"` // levels of the encryptions done by the derived encryptor, each followed by one of the parent
}

func (c EncPRNGCase) RandSeed() uint64 { return c.Seed }

func genEncPRNG(t *rapid.T) EncPRNGCase {
	var c EncPRNGCase
	c.Params = h.GenRLWESpec(t, rlweOpts)
	c.Seed = rapid.Uint64().Draw(t, "seed")
	c.Key = rapid.Uint64().Draw(t, "key")
	maxL := len(c.Params.Q) - 1
	c.Warm = rapid.SliceOfN(rapid.IntRange(0, maxL), 0, 3).Draw(t, "warm")
	c.Levels = rapid.SliceOfN(rapid.IntRange(0, maxL), 1, 4).Draw(t, "levels")
	return c
}

func runEncPRNG(c EncPRNGCase, rec *h.Rec) error {
	params, err := c.Params.Build()
	if err != nil {
		return h.Failf("C17:setup:params", "%v", err)
	}
	// two identical parents (same harness seed => same internal PRNG keys). Both derive an encryptor, over DIFFERENT
	// PRNGs: the derived encryptor shares the error sampler (and through it the parent's PRNG) with its parent by design,
	// so the parents stay in step only if both do the same derived encryptions; what must not matter is the derived key.
	mk := func() (*rlwe.Encryptor, *rlwe.SecretKey) {
		h.SeedRand(c.Seed)
		sk := rlwe.NewKeyGenerator(params).GenSecretKeyNew()
		return rlwe.NewEncryptor(params, sk), sk
	}
	A, _ := mk()
	B, _ := mk()
	enc := func(e *rlwe.Encryptor, lvl int) (*rlwe.Ciphertext, error) {
		ct := rlwe.NewCiphertext(params, 1, lvl)
		if err := e.EncryptZero(ct); err != nil {
			return nil, h.Failf("C17:encryptor:error", "EncryptZero at level %d: %v", lvl, err)
		}
		return ct, nil
	}
	for _, l := range c.Warm {
		if _, err := enc(A, l); err != nil {
			return err
		}
		if _, err := enc(B, l); err != nil {
			return err
		}
	}
	D := A.WithPRNG(keyedPRNG(c.Key))
	DB := B.WithPRNG(keyedPRNG(c.Key ^ 0x5555))
	fresh := ringqp.NewUniformSampler(keyedPRNG(c.Key), *params.RingQP())
	for i, l := range c.Levels {
		ct, err := enc(D, l)
		if err != nil {
			return err
		}
		// secret-key encryption: c1 is the uniform mask itself (sampled in the NTT domain, or NTT followed by INTT)
		want := ring.NewPoly(params.N(), l)
		fresh.AtLevel(l, -1).Read(ringqp.Poly{Q: want})
		if !polyEqual(ct.Value[1], want) {
			return h.Failf("C17:encryptor:WithPRNG:mask-not-determined-by-prng", "encryption %d (level %d) of the encryptor derived with WithPRNG after %d parent encryptions: c1 differs from what a fresh uniform sampler over an identically keyed PRNG returns for the same calls", i, l, len(c.Warm))
		}
		if _, err := enc(DB, l); err != nil {
			return err
		}
		// the parent's mask stream does not depend on the PRNG of the derived encryptor
		ca, err := enc(A, l)
		if err != nil {
			return err
		}
		cb, err := enc(B, l)
		if err != nil {
			return err
		}
		if !polyEqual(ca.Value[1], cb.Value[1]) {
			return h.Failf("C17:encryptor:WithPRNG:parent-mask-stream-disturbed", "after encryption %d of the derived encryptor the parent's c1 differs from that of an identical parent whose derived encryptor uses another PRNG", i)
		}
	}
	rec.Classf("warm=%d", len(c.Warm))
	if len(c.Warm) > 0 {
		rec.NonTrivial(fmt.Sprintf("logN=%d Q=%d P=%d ntt=%v warm=%d n=%d", c.Params.LogN, len(c.Params.Q), len(c.Params.P), c.Params.NTT, len(c.Warm), len(c.Levels)))
	}
	return nil
}

var propEncPRNG = h.NewProp("TestPropEncryptorWithPRNG", h.Budget{Quick: 150, Thorough: 3000}, genEncPRNG, runEncPRNG)

func TestPropEncryptorWithPRNG(t *testing.T) { propEncPRNG.Check(t) }

// ---------------------------------------------------------------------------------------------------------------------
// helpers that take a reader: bignum.RandInt, ring.RandUniform
// ---------------------------------------------------------------------------------------------------------------------

type ReaderCase struct {
	Key     uint64 `json:"key"`
	Bits    int    `json:"bits"`    // size of the big bound
	Shape   string `json:"shape"`   // "pow2" | "pow2-1" | "pow2+1" | "random"
	MaxSeed uint64 `json:"maxSeed"` // random shape
	V       uint64 `json:"v"`       // bound for ring.RandUniform
	Count   int    `json:"count"`
}

func genReader(t *rapid.T) ReaderCase {
	var c ReaderCase
	c.Key = rapid.Uint64().Draw(t, "key")
	switch rapid.IntRange(0, 3).Draw(t, "bitsK") {
	case 0:
		c.Bits = rapid.IntRange(1, 8).Draw(t, "bits")
	case 1:
		c.Bits = []int{63, 64, 65, 127, 128, 129}[rapid.IntRange(0, 5).Draw(t, "bits")]
	default:
		c.Bits = rapid.IntRange(1, 300).Draw(t, "bits")
	}
	c.Shape = []string{"pow2", "pow2-1", "pow2+1", "random"}[rapid.IntRange(0, 3).Draw(t, "shape")]
	c.MaxSeed = rapid.Uint64().Draw(t, "maxSeed")
	switch rapid.IntRange(0, 3).Draw(t, "vK") {
	case 0:
		c.V = uint64(rapid.IntRange(1, 9).Draw(t, "v"))
	case 1:
		c.V = uint64(1)<<rapid.IntRange(1, 62).Draw(t, "vExp") + uint64(rapid.IntRange(0, 2).Draw(t, "vOff")) - 1
	default:
		c.V = rapid.Uint64Range(1, 1<<62).Draw(t, "v")
	}
	c.Count = 2048
	return c
}

func (c ReaderCase) max() *big.Int {
	m := new(big.Int).Lsh(big.NewInt(1), uint(c.Bits))
	switch c.Shape {
	case "pow2-1":
		m.Sub(m, big.NewInt(1))
	case "pow2+1":
		m.Add(m, big.NewInt(1))
	case "random":
		sm := h.NewSplitMix(c.MaxSeed)
		r := new(big.Int)
		for r.BitLen() < c.Bits {
			r.Lsh(r, 64).Or(r, new(big.Int).SetUint64(sm.Uint64()))
		}
		r.Rsh(r, uint(r.BitLen()-c.Bits))
		m = r
	}
	if m.Sign() <= 0 {
		m.SetInt64(1)
	}
	return m
}

func runReader(c ReaderCase, rec *h.Rec) error {
	max := c.max()
	maxBefore := new(big.Int).Set(max)
	p1, p2, p3 := keyedPRNG(c.Key), keyedPRNG(c.Key), keyedPRNG(c.Key^1)
	fmax := new(big.Float).SetInt(max)
	var sum float64
	differ := 0
	for i := 0; i < c.Count; i++ {
		a, b, x := bignum.RandInt(p1, max), bignum.RandInt(p2, max), bignum.RandInt(p3, max)
		if a.Cmp(b) != 0 {
			return h.Failf("C17:RandInt:not-determined-by-reader", "draw %d below a %d-bit bound: two identically keyed readers gave %v and %v", i, max.BitLen(), a, b)
		}
		if a.Sign() < 0 || a.Cmp(max) >= 0 {
			return h.Failf("C17:RandInt:outside-range", "draw %d: %v not in [0, %v)", i, a, max)
		}
		if a.Cmp(x) != 0 {
			differ++
		}
		f, _ := new(big.Float).Quo(new(big.Float).SetInt(a), fmax).Float64()
		sum += f
	}
	if max.Cmp(maxBefore) != 0 {
		return h.Failf("C17:RandInt:bound-modified", "bignum.RandInt changed its bound argument")
	}
	n := float64(c.Count)
	fm, _ := fmax.Float64()
	want := 0.5 - 0.5/fm // mean of a uniform value in [0,max) divided by max
	if math.Abs(sum-n*want) > bernstein(n, 1.0/12, 1) {
		return h.Failf("C17:RandInt:mean", "mean of x/max over %d draws is %.4f, want %.4f +- %.4f (max has %d bits, shape %s)", c.Count, sum/n, want, bernstein(n, 1.0/12, 1)/n, max.BitLen(), c.Shape)
	}
	if max.BitLen() >= 40 && differ < c.Count-8 {
		return h.Failf("C17:RandInt:distinct-keys-related", "readers with different keys agree on %d of %d draws below a %d-bit bound", c.Count-differ, c.Count, max.BitLen())
	}

	// ring.RandUniform(prng, v, mask): uniform in [0, v) by rejection under the mask 2^bitlen(v-1... )-1
	mask := uint64(1)<<uint(bits.Len64(c.V)) - 1
	var usum float64
	for i := 0; i < c.Count; i++ {
		a, b := ring.RandUniform(p1, c.V, mask), ring.RandUniform(p2, c.V, mask)
		if a != b {
			return h.Failf("C17:RandUniform:not-determined-by-reader", "draw %d below %d: two identically keyed readers (after identical histories) gave %d and %d", i, c.V, a, b)
		}
		if a >= c.V {
			return h.Failf("C17:RandUniform:outside-range", "draw %d: %d >= %d", i, a, c.V)
		}
		usum += float64(a) / float64(c.V)
	}
	uwant := 0.5 - 0.5/float64(c.V)
	if math.Abs(usum-n*uwant) > bernstein(n, 1.0/12, 1) {
		return h.Failf("C17:RandUniform:mean", "mean of x/v over %d draws is %.4f, want %.4f +- %.4f (v=%d)", c.Count, usum/n, uwant, bernstein(n, 1.0/12, 1)/n, c.V)
	}
	rec.Class("shape=" + c.Shape)
	rec.NonTrivial(fmt.Sprintf("bits=%d shape=%s vbits=%d", (c.Bits+31)/32, c.Shape, bits.Len64(c.V)/8))
	return nil
}

var propReader = h.NewProp("TestPropReaderHelpers", h.Budget{Quick: 100, Thorough: 2000}, genReader, runReader)

func TestPropReaderHelpers(t *testing.T) { propReader.Check(t) }
