package c17

import (
	"encoding/binary"
	"fmt"
	"math"
	"math/big"
	"math/bits"
	"sync"
	"testing"

	"verif/internal/h"

	"github.com/tuneinsight/lattigo/v6/ring"
	"github.com/tuneinsight/lattigo/v6/utils/sampling"
	"pgregory.net/rapid"
)

func TestMain(m *testing.M) { h.Main(m, "C17") }

func TestReplay(t *testing.T) { h.ReplayAll(t) }

// RingSpec is a plain-data ring description (standard ring, explicit primes).
type RingSpec struct {
	LogN int      `json:"logN"`
	Q    []uint64 `json:"Q"`
}

func (s RingSpec) N() int { return 1 << s.LogN }

var (
	ringMu    sync.Mutex
	ringCache = map[string]*ring.Ring{}
)

func (s RingSpec) build() (*ring.Ring, error) {
	key := fmt.Sprintf("%d|%v", s.LogN, s.Q)
	ringMu.Lock()
	defer ringMu.Unlock()
	if r, ok := ringCache[key]; ok {
		return r, nil
	}
	r, err := ring.NewRing(s.N(), s.Q)
	if err != nil {
		return nil, err
	}
	if len(ringCache) > 128 {
		ringCache = map[string]*ring.Ring{}
	}
	ringCache[key] = r
	return r, nil
}

func sizeClassOf(b int) string {
	switch {
	case b <= 16:
		return "tiny"
	case b <= 40:
		return "mid"
	case b <= 58:
		return "big"
	default:
		return "max"
	}
}

func (s RingSpec) sizeClass() string {
	lo, hi := 64, 0
	for _, q := range s.Q {
		b := bits.Len64(q)
		if b < lo {
			lo = b
		}
		if b > hi {
			hi = b
		}
	}
	if sizeClassOf(lo) == sizeClassOf(hi) {
		return sizeClassOf(lo)
	}
	return sizeClassOf(lo) + "-" + sizeClassOf(hi)
}

// midPrime returns the pick-th prime p = 1 mod m at or above 1.5*2^(bitsz-1) (the middle of the bit size, where a
// power-of-two mask rejects about a quarter of the candidates), or 0 when none exists inside the bit size.
func midPrime(bitsz int, m uint64, pick int, used map[uint64]bool) uint64 {
	lo := uint64(3) << (bitsz - 2)
	hi := (uint64(1) << bitsz) - 1
	c := lo + (m-(lo-1)%m)%m
	for ; c <= hi && c >= lo; c += m {
		if !used[c] && h.IsPrime64(c) {
			if pick == 0 {
				return c
			}
			pick--
		}
		if c > hi-m {
			break
		}
	}
	return 0
}

// genRing draws a standard ring with 1..maxLimbs distinct NTT-friendly primes of mixed sizes (tiny limbs included).
func genRing(t *rapid.T, minLogN, maxLogN, maxLimbs int, forceBig bool) RingSpec {
	var s RingSpec
	s.LogN = rapid.IntRange(minLogN, maxLogN).Draw(t, "logN")
	m := uint64(2) << s.LogN
	nq := rapid.IntRange(1, maxLimbs).Draw(t, "nQ")
	minb := h.MinPrimeBits(m)
	used := map[uint64]bool{}
	for i := 0; i < nq; i++ {
		var sz int
		k := rapid.IntRange(0, 7).Draw(t, fmt.Sprintf("szk%d", i))
		if forceBig {
			k = 1 + k%3
		}
		switch k {
		case 0:
			sz = minb
		case 1, 2:
			sz = 61
		case 3:
			sz = 60
		case 4:
			sz = rapid.IntRange(minb, minb+6).Draw(t, fmt.Sprintf("sz%d", i)) // tiny 5..15-bit limbs
		default:
			sz = rapid.IntRange(minb, 61).Draw(t, fmt.Sprintf("sz%d", i))
		}
		var q uint64
		if rapid.IntRange(0, 2).Draw(t, fmt.Sprintf("mid%d", i)) == 0 {
			q = midPrime(sz, m, rapid.IntRange(0, 3).Draw(t, fmt.Sprintf("midpick%d", i)), used)
		}
		if q == 0 {
			q = h.GenPrimes(t, []int{sz}, m, used, fmt.Sprintf("q%d", i))[0]
		}
		used[q] = true
		s.Q = append(s.Q, q)
	}
	return s
}

// DistSpec is a plain-data sampler distribution.
type DistSpec struct {
	Kind  string  `json:"kind"` // "uniform" | "gauss" | "ternaryP" | "ternaryH"
	Sigma float64 `json:"sigma,omitempty"`
	Bound float64 `json:"bound,omitempty"`
	P     float64 `json:"p,omitempty"`
	H     int     `json:"h,omitempty"`
}

func (d DistSpec) lattigo() ring.DistributionParameters {
	switch d.Kind {
	case "uniform":
		return ring.Uniform{}
	case "gauss":
		return ring.DiscreteGaussian{Sigma: d.Sigma, Bound: d.Bound}
	case "ternaryP":
		return ring.Ternary{P: d.P}
	case "ternaryH":
		return ring.Ternary{H: d.H}
	}
	return nil
}

// bigPath reports whether lattigo's arbitrary-precision Gaussian branch is the documented one for these parameters
// (sigma beyond float64 integer precision and bound beyond uint64).
func (d DistSpec) bigPath() bool {
	return d.Kind == "gauss" && d.Sigma > 0x1p53 && d.Bound > 0x1p64
}

// absBound is the declared support bound: the bound rounded to the nearest integer (gauss), 1 (ternary).
func (d DistSpec) absBound() *big.Int {
	if d.Kind == "gauss" {
		b, _ := new(big.Float).SetFloat64(math.Floor(d.Bound + 0.5)).Int(nil)
		return b
	}
	return big.NewInt(1)
}

func (d DistSpec) class() string {
	switch d.Kind {
	case "gauss":
		c := "gauss:"
		switch {
		case d.bigPath():
			c += "bignum"
		case d.Sigma > 0x1p53:
			c += "sigma>2^53"
		case d.Sigma >= 0x1p30:
			c += "sigma>=2^30"
		case d.Sigma >= 16:
			c += "sigma>=16"
		case d.Sigma >= 1:
			c += "sigma>=1"
		default:
			c += "sigma<1"
		}
		return c
	case "ternaryP":
		if d.P == 0.5 {
			return "ternaryP=0.5"
		}
		return "ternaryP"
	}
	return d.Kind
}

var (
	gaussSigmas = []float64{0.5, 1, 3.2, 0x1p10, 0x1p40, 0x1p60}
	ternaryPs   = []float64{0.1, 1.0 / 3, 0.5, 2.0 / 3, 0.9}
)

// genDist draws a distribution of the given kind ("" = drawn) for ring degree n.
func genDist(t *rapid.T, kind string, n int) DistSpec {
	if kind == "" {
		kind = []string{"uniform", "gauss", "gauss", "ternaryP", "ternaryH", "ternaryH"}[rapid.IntRange(0, 5).Draw(t, "distKind")]
	}
	d := DistSpec{Kind: kind}
	switch kind {
	case "gauss":
		k := rapid.IntRange(0, 10).Draw(t, "sigmaKind")
		if k == 10 {
			// near misses of the branch condition "sigma > 2^53 && bound > 2^64" (arbitrary-precision path)
			up := func(x float64) float64 { return math.Nextafter(x, math.Inf(1)) }
			nm := [][2]float64{
				{0x1p53, 0x1.8p65},       // sigma not above 2^53: float path with a bound beyond uint64
				{up(0x1p53), 0x1p64},     // bound not above 2^64: float path
				{up(0x1p53), up(0x1p64)}, // both just above: arbitrary-precision path
				{0x1p63, 0x1p64},         // float path, bound = 2 sigma = 2^64
				{0x1p63, up(0x1p64)},     // arbitrary-precision path, bound just above 2 sigma
				{0x1p62, 0x1.8p64},       // arbitrary-precision path, bound = 6 sigma
			}[rapid.IntRange(0, 5).Draw(t, "nearMiss")]
			d.Sigma, d.Bound = nm[0], nm[1]
			return d
		}
		switch {
		case k < len(gaussSigmas):
			d.Sigma = gaussSigmas[k]
		case k == 6 || k == 9:
			// big-number path: sigma > 2^53
			d.Sigma = math.Ldexp(1+float64(rapid.IntRange(0, 15).Draw(t, "sigmaFrac"))/16, rapid.IntRange(54, 70).Draw(t, "sigmaExp"))
		default:
			d.Sigma = math.Ldexp(1+float64(rapid.IntRange(0, 15).Draw(t, "sigmaFrac"))/16, rapid.IntRange(-1, 50).Draw(t, "sigmaExp"))
		}
		// bound as a multiple of sigma (lattigo's default is 6 sigma), or an absolute small/large value
		switch rapid.IntRange(0, 7).Draw(t, "boundKind") {
		case 0:
			d.Bound = d.Sigma
		case 1:
			d.Bound = 2 * d.Sigma
		case 2:
			// the smallest bound; the sampler rejects until |x| <= bound, so the bound stays within reach of sigma
			d.Bound = 1
			if d.Sigma > 4 {
				d.Bound = d.Sigma / 2
			}
		case 3:
			d.Bound = 0x1.8p65 // > 2^64 whatever sigma
			if d.Sigma > 0x1p63 {
				d.Bound = 3 * d.Sigma
			}
		case 4:
			d.Bound = 2.5 * d.Sigma
		default:
			d.Bound = 6 * d.Sigma
		}
		if d.Bound < 1 {
			d.Bound = 1
		}
		if d.Sigma > 0x1p53 && d.Bound <= 0x1p64 && rapid.IntRange(0, 3).Draw(t, "bigBound") != 0 {
			d.Bound = 0x1.8p65 // sigma beyond float64 integer precision: mostly exercise the arbitrary-precision branch
		}
	case "ternaryP":
		if k := rapid.IntRange(0, 7).Draw(t, "pKind"); k < len(ternaryPs) {
			d.P = ternaryPs[k]
		} else if k == 7 {
			d.P = 0.5
		} else {
			d.P = float64(rapid.IntRange(1, 999).Draw(t, "pMilli")) / 1000
		}
	case "ternaryH":
		hs := []int{1, 2, n / 2, n - 1, n}
		if k := rapid.IntRange(0, 6).Draw(t, "hKind"); k < len(hs) {
			d.H = hs[k]
		} else {
			d.H = rapid.IntRange(1, n).Draw(t, "h")
		}
	}
	return d
}

// keyBytes expands a drawn seed into a 32-byte PRNG key.
func keyBytes(seed uint64) []byte {
	k := make([]byte, 32)
	sm := h.NewSplitMix(seed)
	for i := 0; i < 32; i += 8 {
		binary.LittleEndian.PutUint64(k[i:], sm.Uint64())
	}
	return k
}

func keyedPRNG(seed uint64) *sampling.KeyedPRNG {
	p, err := sampling.NewKeyedPRNG(keyBytes(seed))
	if err != nil {
		panic(err)
	}
	return p
}

// modular helpers independent of lattigo -----------------------------------------------------------------------------

func mulmod(a, b, q uint64) uint64 {
	hi, lo := bits.Mul64(a%q, b%q)
	_, r := bits.Div64(hi, lo, q)
	return r
}

func addmod(a, b, q uint64) uint64 {
	s, c := bits.Add64(a%q, b%q, 0)
	if c != 0 || s >= q {
		s -= q
	}
	return s
}

func submod(a, b, q uint64) uint64 { return addmod(a, q-b%q, q) }

func powmod(a, e, q uint64) uint64 {
	r := uint64(1) % q
	a %= q
	for e > 0 {
		if e&1 == 1 {
			r = mulmod(r, a, q)
		}
		a = mulmod(a, a, q)
		e >>= 1
	}
	return r
}

var (
	invMu    sync.Mutex
	invCache = map[uint64]uint64{}
)

// invTwo64 returns (2^64)^-1 mod q (q an odd prime).
func invTwo64(q uint64) uint64 {
	invMu.Lock()
	defer invMu.Unlock()
	if v, ok := invCache[q]; ok {
		return v
	}
	two64 := new(big.Int).Mod(new(big.Int).Lsh(big.NewInt(1), 64), new(big.Int).SetUint64(q)).Uint64()
	v := powmod(two64, q-2, q)
	invCache[q] = v
	return v
}

// residues returns limb j of pol reduced mod q_j with the Montgomery factor removed when mont is set.
func residues(limb []uint64, q uint64, mont bool) []uint64 {
	out := make([]uint64, len(limb))
	inv := uint64(1)
	if mont {
		inv = invTwo64(q)
	}
	for i, c := range limb {
		if mont {
			out[i] = mulmod(c, inv, q)
		} else {
			out[i] = c % q
		}
	}
	return out
}

func copyPoly(p ring.Poly) ring.Poly { return *p.CopyNew() }

// fillPoly fills all limbs of p with reduced values following a pattern derived from the seed.
func fillPoly(p ring.Poly, qs []uint64, seed uint64) {
	sm := h.NewSplitMix(seed)
	mode := seed % 4
	for j := range p.Coeffs {
		q := qs[j]
		for i := range p.Coeffs[j] {
			switch mode {
			case 0:
				p.Coeffs[j][i] = q - 1
			case 1:
				p.Coeffs[j][i] = uint64(i+1) % q
			default:
				p.Coeffs[j][i] = sm.Uint64() % q
			}
		}
	}
}

func polyEqual(a, b ring.Poly) bool {
	if len(a.Coeffs) != len(b.Coeffs) {
		return false
	}
	for j := range a.Coeffs {
		if len(a.Coeffs[j]) != len(b.Coeffs[j]) {
			return false
		}
		for i := range a.Coeffs[j] {
			if a.Coeffs[j][i] != b.Coeffs[j][i] {
				return false
			}
		}
	}
	return true
}
