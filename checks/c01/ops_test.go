package c01

import (
	"fmt"
	"math/big"
	"sort"
	"strings"
	"sync"
	"testing"

	"verif/internal/h"

	"github.com/tuneinsight/lattigo/v6/ring"
	"pgregory.net/rapid"
)

// OpCase is one evaluation of a coefficient-wise ring operation.
type OpCase struct {
	Ring   RingSpec `json:"ring"`
	Op     string   `json:"op"`
	PatA   string   `json:"patA"`
	PatB   string   `json:"patB"`
	PatC   string   `json:"patC"`
	Seed   uint64   `json:"seed"`
	Scalar uint64   `json:"scalar"`
	Big    string   `json:"big"`   // decimal big integer scalar
	Alias  int      `json:"alias"` // 0: fresh output, 1: out==p1, 2: out==p2
	K      int      `json:"k"`     // shift / polynomial count
	AccBig bool     `json:"accBig"`
}

func (c OpCase) RandSeed() uint64 { return c.Seed }

type limbSc struct {
	u      uint64 // raw uint64 scalar
	big    uint64 // big scalar mod q
	s0, s1 uint64 // RNS scalars (reduced)
	vec    []uint64
}

type opArgs struct {
	r          *ring.Ring
	p1, p2, p3 ring.Poly
	u          uint64
	big        *big.Int
	s0, s1     ring.RNSScalar
	vec        []uint64
	k          int
	polys      []ring.Poly
}

type bound func(q uint64) uint64

func bq(q uint64) uint64    { return q - 1 }
func b2q(q uint64) uint64   { return 2*q - 1 }
func bAny(q uint64) uint64  { return ^uint64(0) }
func b63(q uint64) uint64   { return 1<<63 - 1 }
func b32(q uint64) uint64   { return 1<<32 - 1 }
func bZero(q uint64) uint64 { return 0 }

type coeffOp struct {
	name   string
	nin    int // number of pure-input polynomials (1 or 2)
	acc    bool
	in     [2]bound
	accB   bound // bound of the accumulator when AccBig (lazy accumulators); reduced otherwise
	scalar string
	call   func(a *opArgs)
	// want returns the expected residue mod q of (out - acc) [or the exact integer when exact]
	want   func(q uint64, j, n int, a, b uint64, sc *limbSc) uint64
	strict bool  // out in [0,q-1]
	dlo    bound // otherwise out-acc in [dlo(q), dhi(q)]
	dhi    bound
	exact  bool // out-acc == want as an integer mod 2^64 (no modular reduction)
	sub    bool // SubRing-level method (called limb by limb)
	noAl   bool // no aliasing
}

var (
	montMu  sync.Mutex
	montInv = map[uint64]uint64{}
)

// mont returns x * 2^-64 mod q.
func mont(x, q uint64) uint64 {
	montMu.Lock()
	inv, ok := montInv[q]
	if !ok {
		inv = invmod(two64(q), q)
		montInv[q] = inv
	}
	montMu.Unlock()
	return mulmod(x, inv, q)
}

var coeffOps = []coeffOp{
	{name: "Add", nin: 2, in: [2]bound{bq, bq}, strict: true, call: func(a *opArgs) { a.r.Add(a.p1, a.p2, a.p3) },
		want: func(q uint64, j, n int, a, b uint64, sc *limbSc) uint64 { return addmod(a, b, q) }},
	{name: "AddLazy", nin: 2, in: [2]bound{b63, b63}, exact: true, call: func(a *opArgs) { a.r.AddLazy(a.p1, a.p2, a.p3) },
		want: func(q uint64, j, n int, a, b uint64, sc *limbSc) uint64 { return a + b }},
	{name: "Sub", nin: 2, in: [2]bound{bq, bq}, strict: true, call: func(a *opArgs) { a.r.Sub(a.p1, a.p2, a.p3) },
		want: func(q uint64, j, n int, a, b uint64, sc *limbSc) uint64 { return submod(a, b, q) }},
	{name: "SubLazy", nin: 2, in: [2]bound{bq, bq}, dlo: bZero, dhi: b2q, call: func(a *opArgs) { a.r.SubLazy(a.p1, a.p2, a.p3) },
		want: func(q uint64, j, n int, a, b uint64, sc *limbSc) uint64 { return submod(a, b, q) }},
	{name: "Neg", nin: 1, in: [2]bound{bq}, dlo: bZero, dhi: func(q uint64) uint64 { return q }, call: func(a *opArgs) { a.r.Neg(a.p1, a.p3) },
		want: func(q uint64, j, n int, a, b uint64, sc *limbSc) uint64 { return submod(0, a, q) }},
	{name: "Reduce", nin: 1, in: [2]bound{bAny}, strict: true, call: func(a *opArgs) { a.r.Reduce(a.p1, a.p3) },
		want: func(q uint64, j, n int, a, b uint64, sc *limbSc) uint64 { return a % q }},
	{name: "ReduceLazy", nin: 1, in: [2]bound{bAny}, dlo: bZero, dhi: b2q, call: func(a *opArgs) { a.r.ReduceLazy(a.p1, a.p3) },
		want: func(q uint64, j, n int, a, b uint64, sc *limbSc) uint64 { return a % q }},
	{name: "MulCoeffsBarrett", nin: 2, in: [2]bound{bq, bq}, strict: true, call: func(a *opArgs) { a.r.MulCoeffsBarrett(a.p1, a.p2, a.p3) },
		want: func(q uint64, j, n int, a, b uint64, sc *limbSc) uint64 { return mulmod(a, b, q) }},
	{name: "MulCoeffsBarrettLazy", nin: 2, in: [2]bound{bq, bq}, dlo: bZero, dhi: b2q, call: func(a *opArgs) { a.r.MulCoeffsBarrettLazy(a.p1, a.p2, a.p3) },
		want: func(q uint64, j, n int, a, b uint64, sc *limbSc) uint64 { return mulmod(a, b, q) }},
	{name: "MulCoeffsBarrettThenAdd", nin: 2, acc: true, in: [2]bound{bq, bq}, strict: true, call: func(a *opArgs) { a.r.MulCoeffsBarrettThenAdd(a.p1, a.p2, a.p3) },
		want: func(q uint64, j, n int, a, b uint64, sc *limbSc) uint64 { return mulmod(a, b, q) }},
	{name: "MulCoeffsBarrettThenAddLazy", nin: 2, acc: true, accB: bAny, in: [2]bound{bq, bq}, dlo: bZero, dhi: bq, call: func(a *opArgs) { a.r.MulCoeffsBarrettThenAddLazy(a.p1, a.p2, a.p3) },
		want: func(q uint64, j, n int, a, b uint64, sc *limbSc) uint64 { return mulmod(a, b, q) }},
	{name: "MulCoeffsMontgomery", nin: 2, in: [2]bound{bq, bq}, strict: true, call: func(a *opArgs) { a.r.MulCoeffsMontgomery(a.p1, a.p2, a.p3) },
		want: func(q uint64, j, n int, a, b uint64, sc *limbSc) uint64 { return mont(mulmod(a, b, q), q) }},
	{name: "MulCoeffsMontgomeryLazy", nin: 2, in: [2]bound{bq, bq}, dlo: bZero, dhi: b2q, call: func(a *opArgs) { a.r.MulCoeffsMontgomeryLazy(a.p1, a.p2, a.p3) },
		want: func(q uint64, j, n int, a, b uint64, sc *limbSc) uint64 { return mont(mulmod(a, b, q), q) }},
	// documented "[0, 2*modulus-2]" in the pinned tree although 2*modulus - MRedLazy reaches 2*modulus-1 (fixed: doc now says 2*modulus-1)
	{name: "MulCoeffsMontgomeryLazyThenNeg", nin: 2, in: [2]bound{bq, bq}, dlo: bZero, dhi: b2q, call: func(a *opArgs) { a.r.MulCoeffsMontgomeryLazyThenNeg(a.p1, a.p2, a.p3) },
		want: func(q uint64, j, n int, a, b uint64, sc *limbSc) uint64 { return submod(0, mont(mulmod(a, b, q), q), q) }},
	{name: "MulCoeffsMontgomeryThenAdd", nin: 2, acc: true, in: [2]bound{bq, bq}, strict: true, call: func(a *opArgs) { a.r.MulCoeffsMontgomeryThenAdd(a.p1, a.p2, a.p3) },
		want: func(q uint64, j, n int, a, b uint64, sc *limbSc) uint64 { return mont(mulmod(a, b, q), q) }},
	{name: "MulCoeffsMontgomeryThenAddLazy", nin: 2, acc: true, accB: bAny, in: [2]bound{bq, bq}, dlo: bZero, dhi: bq, call: func(a *opArgs) { a.r.MulCoeffsMontgomeryThenAddLazy(a.p1, a.p2, a.p3) },
		want: func(q uint64, j, n int, a, b uint64, sc *limbSc) uint64 { return mont(mulmod(a, b, q), q) }},
	// documented range [0, 3*modulus-2] for a reduced accumulator <=> increment in [0, 2*modulus-1]
	{name: "MulCoeffsMontgomeryLazyThenAddLazy", nin: 2, acc: true, accB: bAny, in: [2]bound{bq, bq}, dlo: bZero, dhi: b2q, call: func(a *opArgs) { a.r.MulCoeffsMontgomeryLazyThenAddLazy(a.p1, a.p2, a.p3) },
		want: func(q uint64, j, n int, a, b uint64, sc *limbSc) uint64 { return mont(mulmod(a, b, q), q) }},
	{name: "MulCoeffsMontgomeryThenSub", nin: 2, acc: true, in: [2]bound{bq, bq}, strict: true, call: func(a *opArgs) { a.r.MulCoeffsMontgomeryThenSub(a.p1, a.p2, a.p3) },
		want: func(q uint64, j, n int, a, b uint64, sc *limbSc) uint64 { return submod(0, mont(mulmod(a, b, q), q), q) }},
	// documented range [0, 2*modulus-1] for a reduced accumulator (after the doc fix) <=> increment in [0, modulus]
	{name: "MulCoeffsMontgomeryThenSubLazy", nin: 2, acc: true, accB: bAny, in: [2]bound{bq, bq}, dlo: bZero, dhi: func(q uint64) uint64 { return q }, call: func(a *opArgs) { a.r.MulCoeffsMontgomeryThenSubLazy(a.p1, a.p2, a.p3) },
		want: func(q uint64, j, n int, a, b uint64, sc *limbSc) uint64 { return submod(0, mont(mulmod(a, b, q), q), q) }},
	{name: "MulCoeffsMontgomeryLazyThenSubLazy", nin: 2, acc: true, accB: bAny, in: [2]bound{bq, bq}, dlo: bZero, dhi: b2q, call: func(a *opArgs) { a.r.MulCoeffsMontgomeryLazyThenSubLazy(a.p1, a.p2, a.p3) },
		want: func(q uint64, j, n int, a, b uint64, sc *limbSc) uint64 { return submod(0, mont(mulmod(a, b, q), q), q) }},
	{name: "AddScalar", nin: 1, in: [2]bound{bq}, scalar: "u64red", strict: true, call: func(a *opArgs) { a.r.AddScalar(a.p1, a.u, a.p3) },
		want: func(q uint64, j, n int, a, b uint64, sc *limbSc) uint64 { return addmod(a, sc.u, q) }},
	{name: "SubScalar", nin: 1, in: [2]bound{bq}, scalar: "u64red", strict: true, call: func(a *opArgs) { a.r.SubScalar(a.p1, a.u, a.p3) },
		want: func(q uint64, j, n int, a, b uint64, sc *limbSc) uint64 { return submod(a, sc.u, q) }},
	{name: "AddScalarBigint", nin: 1, in: [2]bound{bq}, scalar: "big", strict: true, call: func(a *opArgs) { a.r.AddScalarBigint(a.p1, a.big, a.p3) },
		want: func(q uint64, j, n int, a, b uint64, sc *limbSc) uint64 { return addmod(a, sc.big, q) }},
	{name: "SubScalarBigint", nin: 1, in: [2]bound{bq}, scalar: "big", strict: true, call: func(a *opArgs) { a.r.SubScalarBigint(a.p1, a.big, a.p3) },
		want: func(q uint64, j, n int, a, b uint64, sc *limbSc) uint64 { return submod(a, sc.big, q) }},
	{name: "MulScalar", nin: 1, in: [2]bound{bq}, scalar: "u64any", strict: true, call: func(a *opArgs) { a.r.MulScalar(a.p1, a.u, a.p3) },
		want: func(q uint64, j, n int, a, b uint64, sc *limbSc) uint64 { return mulmod(a, sc.u, q) }},
	{name: "MulScalarThenAdd", nin: 1, acc: true, in: [2]bound{bq}, scalar: "u64any", strict: true, call: func(a *opArgs) { a.r.MulScalarThenAdd(a.p1, a.u, a.p3) },
		want: func(q uint64, j, n int, a, b uint64, sc *limbSc) uint64 { return mulmod(a, sc.u, q) }},
	{name: "MulScalarThenSub", nin: 1, acc: true, in: [2]bound{bq}, scalar: "u64any", strict: true, call: func(a *opArgs) { a.r.MulScalarThenSub(a.p1, a.u, a.p3) },
		want: func(q uint64, j, n int, a, b uint64, sc *limbSc) uint64 { return submod(0, mulmod(a, sc.u, q), q) }},
	{name: "MulScalarBigint", nin: 1, in: [2]bound{bq}, scalar: "big", strict: true, call: func(a *opArgs) { a.r.MulScalarBigint(a.p1, a.big, a.p3) },
		want: func(q uint64, j, n int, a, b uint64, sc *limbSc) uint64 { return mulmod(a, sc.big, q) }},
	{name: "MulScalarBigintThenAdd", nin: 1, acc: true, in: [2]bound{bq}, scalar: "big", strict: true, call: func(a *opArgs) { a.r.MulScalarBigintThenAdd(a.p1, a.big, a.p3) },
		want: func(q uint64, j, n int, a, b uint64, sc *limbSc) uint64 { return mulmod(a, sc.big, q) }},
	{name: "MulRNSScalarMontgomery", nin: 1, in: [2]bound{bq}, scalar: "rns", strict: true, call: func(a *opArgs) { a.r.MulRNSScalarMontgomery(a.p1, a.s0, a.p3) },
		want: func(q uint64, j, n int, a, b uint64, sc *limbSc) uint64 { return mont(mulmod(a, sc.s0, q), q) }},
	{name: "AddDoubleRNSScalar", nin: 1, in: [2]bound{bq}, scalar: "rns", strict: true, call: func(a *opArgs) { a.r.AddDoubleRNSScalar(a.p1, a.s0, a.s1, a.p3) },
		want: func(q uint64, j, n int, a, b uint64, sc *limbSc) uint64 {
			if j < n/2 {
				return addmod(a, sc.s0, q)
			}
			return addmod(a, sc.s1, q)
		}},
	{name: "SubDoubleRNSScalar", nin: 1, in: [2]bound{bq}, scalar: "rns", strict: true, call: func(a *opArgs) { a.r.SubDoubleRNSScalar(a.p1, a.s0, a.s1, a.p3) },
		want: func(q uint64, j, n int, a, b uint64, sc *limbSc) uint64 {
			if j < n/2 {
				return submod(a, sc.s0, q)
			}
			return submod(a, sc.s1, q)
		}},
	{name: "MulDoubleRNSScalar", nin: 1, in: [2]bound{bq}, scalar: "rns", strict: true, call: func(a *opArgs) { a.r.MulDoubleRNSScalar(a.p1, a.s0, a.s1, a.p3) },
		want: func(q uint64, j, n int, a, b uint64, sc *limbSc) uint64 {
			if j < n/2 {
				return mulmod(a, sc.s0, q)
			}
			return mulmod(a, sc.s1, q)
		}},
	{name: "MulDoubleRNSScalarThenAdd", nin: 1, acc: true, in: [2]bound{bq}, scalar: "rns", strict: true, call: func(a *opArgs) { a.r.MulDoubleRNSScalarThenAdd(a.p1, a.s0, a.s1, a.p3) },
		want: func(q uint64, j, n int, a, b uint64, sc *limbSc) uint64 {
			if j < n/2 {
				return mulmod(a, sc.s0, q)
			}
			return mulmod(a, sc.s1, q)
		}},
	{name: "MForm", nin: 1, in: [2]bound{bq}, strict: true, call: func(a *opArgs) { a.r.MForm(a.p1, a.p3) },
		want: func(q uint64, j, n int, a, b uint64, sc *limbSc) uint64 { return mulmod(a, two64(q), q) }},
	{name: "MFormLazy", nin: 1, in: [2]bound{bq}, dlo: bZero, dhi: b2q, call: func(a *opArgs) { a.r.MFormLazy(a.p1, a.p3) },
		want: func(q uint64, j, n int, a, b uint64, sc *limbSc) uint64 { return mulmod(a, two64(q), q) }},
	{name: "IMForm", nin: 1, in: [2]bound{bq}, strict: true, call: func(a *opArgs) { a.r.IMForm(a.p1, a.p3) },
		want: func(q uint64, j, n int, a, b uint64, sc *limbSc) uint64 { return mont(a, q) }},
	{name: "MulByVectorMontgomery", nin: 1, in: [2]bound{bq}, scalar: "vec", strict: true, call: func(a *opArgs) { a.r.MulByVectorMontgomery(a.p1, a.vec, a.p3) },
		want: func(q uint64, j, n int, a, b uint64, sc *limbSc) uint64 { return mont(mulmod(a, sc.vec[j], q), q) }},
	{name: "MulByVectorMontgomeryThenAddLazy", nin: 1, acc: true, accB: bAny, in: [2]bound{bq}, scalar: "vec", dlo: bZero, dhi: bq, call: func(a *opArgs) { a.r.MulByVectorMontgomeryThenAddLazy(a.p1, a.vec, a.p3) },
		want: func(q uint64, j, n int, a, b uint64, sc *limbSc) uint64 { return mont(mulmod(a, sc.vec[j], q), q) }},

	// SubRing-level methods that have no Ring-level wrapper
	{name: "SubRing.MulCoeffsLazy", sub: true, nin: 2, in: [2]bound{b32, b32}, exact: true,
		call: func(a *opArgs) { forLimbs(a, func(s *ring.SubRing, i int) { s.MulCoeffsLazy(a.p1.Coeffs[i], a.p2.Coeffs[i], a.p3.Coeffs[i]) }) },
		want: func(q uint64, j, n int, a, b uint64, sc *limbSc) uint64 { return a * b }},
	{name: "SubRing.MulCoeffsLazyThenAddLazy", sub: true, nin: 2, acc: true, accB: b63, in: [2]bound{b32, b32}, exact: true,
		call: func(a *opArgs) {
			forLimbs(a, func(s *ring.SubRing, i int) { s.MulCoeffsLazyThenAddLazy(a.p1.Coeffs[i], a.p2.Coeffs[i], a.p3.Coeffs[i]) })
		},
		want: func(q uint64, j, n int, a, b uint64, sc *limbSc) uint64 { return a * b }},
	{name: "SubRing.AddLazyThenMulScalarMontgomery", sub: true, nin: 2, in: [2]bound{bq, bq}, scalar: "rns", strict: true,
		call: func(a *opArgs) {
			forLimbs(a, func(s *ring.SubRing, i int) {
				s.AddLazyThenMulScalarMontgomery(a.p1.Coeffs[i], a.p2.Coeffs[i], a.s0[i], a.p3.Coeffs[i])
			})
		},
		want: func(q uint64, j, n int, a, b uint64, sc *limbSc) uint64 { return mont(mulmod(addmod(a, b, q), sc.s0, q), q) }},
	{name: "SubRing.AddScalarLazyThenMulScalarMontgomery", sub: true, nin: 1, in: [2]bound{bq}, scalar: "rns", strict: true,
		call: func(a *opArgs) {
			forLimbs(a, func(s *ring.SubRing, i int) {
				s.AddScalarLazyThenMulScalarMontgomery(a.p1.Coeffs[i], a.s0[i], a.s1[i], a.p3.Coeffs[i])
			})
		},
		want: func(q uint64, j, n int, a, b uint64, sc *limbSc) uint64 { return mont(mulmod(addmod(a, sc.s0, q), sc.s1, q), q) }},
	{name: "SubRing.AddScalarLazy", sub: true, nin: 1, in: [2]bound{b63}, scalar: "rns", exact: true,
		call: func(a *opArgs) {
			forLimbs(a, func(s *ring.SubRing, i int) { s.AddScalarLazy(a.p1.Coeffs[i], a.s0[i], a.p3.Coeffs[i]) })
		},
		want: func(q uint64, j, n int, a, b uint64, sc *limbSc) uint64 { return a + sc.s0 }},
	{name: "SubRing.AddScalarLazyThenNegTwoModulusLazy", sub: true, nin: 1, in: [2]bound{b2q}, scalar: "rns", exact: true,
		call: func(a *opArgs) {
			forLimbs(a, func(s *ring.SubRing, i int) {
				s.AddScalarLazyThenNegTwoModulusLazy(a.p1.Coeffs[i], a.s0[i], a.p3.Coeffs[i])
			})
		},
		want: func(q uint64, j, n int, a, b uint64, sc *limbSc) uint64 { return sc.s0 + 2*q - a }},
	{name: "SubRing.MulScalarMontgomeryLazy", sub: true, nin: 1, in: [2]bound{bq}, scalar: "rns", dlo: bZero, dhi: b2q,
		call: func(a *opArgs) {
			forLimbs(a, func(s *ring.SubRing, i int) { s.MulScalarMontgomeryLazy(a.p1.Coeffs[i], a.s0[i], a.p3.Coeffs[i]) })
		},
		want: func(q uint64, j, n int, a, b uint64, sc *limbSc) uint64 { return mont(mulmod(a, sc.s0, q), q) }},
	{name: "SubRing.MulScalarMontgomeryThenAddScalar", sub: true, nin: 1, in: [2]bound{bq}, scalar: "rns", strict: true,
		call: func(a *opArgs) {
			forLimbs(a, func(s *ring.SubRing, i int) {
				s.MulScalarMontgomeryThenAddScalar(a.p1.Coeffs[i], a.s0[i], a.s1[i], a.p3.Coeffs[i])
			})
		},
		want: func(q uint64, j, n int, a, b uint64, sc *limbSc) uint64 { return addmod(sc.s0, mont(mulmod(a, sc.s1, q), q), q) }},
	{name: "SubRing.SubThenMulScalarMontgomeryTwoModulus", sub: true, nin: 2, in: [2]bound{bq, b2q}, scalar: "rns", strict: true,
		call: func(a *opArgs) {
			forLimbs(a, func(s *ring.SubRing, i int) {
				s.SubThenMulScalarMontgomeryTwoModulus(a.p1.Coeffs[i], a.p2.Coeffs[i], a.s0[i], a.p3.Coeffs[i])
			})
		},
		want: func(q uint64, j, n int, a, b uint64, sc *limbSc) uint64 { return mont(mulmod(submod(a, b, q), sc.s0, q), q) }},
}

func forLimbs(a *opArgs, f func(s *ring.SubRing, i int)) {
	for i, s := range a.r.SubRings[:a.r.Level()+1] {
		f(s, i)
	}
}

var opIndex = func() map[string]*coeffOp {
	m := map[string]*coeffOp{}
	for i := range coeffOps {
		m[coeffOps[i].name] = &coeffOps[i]
	}
	return m
}()

func genOpCase(t *rapid.T) OpCase {
	var c OpCase
	maxLogN := 7
	if h.Thorough() {
		maxLogN = 9
	}
	c.Ring = genRing(t, 3, maxLogN, true)
	c.Op = coeffOps[rapid.IntRange(0, len(coeffOps)-1).Draw(t, "op")].name
	c.PatA, c.PatB, c.PatC = genPattern(t, "patA"), genPattern(t, "patB"), genPattern(t, "patC")
	c.Seed = rapid.Uint64().Draw(t, "seed")
	switch rapid.IntRange(0, 7).Draw(t, "scalarKind") {
	case 0:
		c.Scalar = 0
	case 1:
		c.Scalar = 1
	case 2:
		c.Scalar = ^uint64(0)
	case 3:
		c.Scalar = 1 << 63
	case 4:
		c.Scalar = c.Ring.Q[0] - 1
	case 5:
		c.Scalar = c.Ring.Q[0]
	default:
		c.Scalar = rapid.Uint64().Draw(t, "scalar")
	}
	// big scalar: sign x magnitude up to ~2^200
	mag := new(big.Int).Lsh(big.NewInt(1), uint(rapid.IntRange(0, 200).Draw(t, "bigBits")))
	mag.Sub(mag, big.NewInt(int64(rapid.IntRange(0, 3).Draw(t, "bigOff"))))
	if rapid.Bool().Draw(t, "bigNeg") {
		mag.Neg(mag)
	}
	c.Big = mag.String()
	c.Alias = rapid.IntRange(0, 2).Draw(t, "alias")
	c.AccBig = rapid.Bool().Draw(t, "accBig")
	return c
}

func runOpCase(c OpCase, rec *h.Rec) error {
	op := opIndex[c.Op]
	if op == nil {
		return fmt.Errorf("unknown op %s", c.Op)
	}
	r, err := c.Ring.build()
	if err != nil {
		return h.Failf("C01:NewRing-rejects-valid-moduli", "%v", err)
	}
	n := r.N()
	if n == 8 && strings.Contains(op.name, "DoubleRNSScalar") {
		// N=8: the half-vectors have 4 coefficients but the kernels process 8 lanes through unsafe pointers; the call
		// writes outside the polynomial (heap corruption), so it is excluded by construction instead of executed.
		const key = "C01:DoubleRNSScalar:N=8:out-of-bounds"
		if rec.Known(key, "Add/Sub/MulDoubleRNSScalar(ThenAdd) at N=8 process 8 lanes on 4-coefficient halves") {
			rec.Class("excluded=DoubleRNSScalar@N=8")
			return nil
		}
		// not listed (any more): run it and let the oracle decide
	}
	lvl := c.Ring.Level
	rng := h.NewSplitMix(c.Seed)
	qs := c.Ring.Q[:lvl+1]

	minq := qs[0]
	for _, q := range qs {
		if q < minq {
			minq = q
		}
	}

	mk := func(pat string, b bound) ring.Poly {
		p := r.NewPoly()
		for i, q := range qs {
			copy(p.Coeffs[i], fill(pat, b(q), n, rng))
		}
		return p
	}
	args := &opArgs{r: r}
	args.p1 = mk(c.PatA, op.in[0])
	if op.nin == 2 {
		args.p2 = mk(c.PatB, op.in[1])
	}
	// accumulator / output
	accBound := bq
	if op.acc && c.AccBig && op.accB != nil {
		accBound = func(q uint64) uint64 {
			b := op.accB(q)
			if b > ^uint64(0)-4*q { // leave room: no wrap-around is promised only when the sum fits
				b = ^uint64(0) - 4*q
			}
			return b
		}
	}
	alias := c.Alias
	if op.noAl || op.acc {
		alias = 0
	}
	if alias == 2 && op.nin < 2 {
		alias = 1
	}
	if op.acc {
		args.p3 = mk(c.PatC, accBound)
	} else {
		switch alias {
		case 1:
			args.p3 = args.p1
		case 2:
			args.p3 = args.p2
		default:
			// poison the fresh output so that untouched coefficients are visible
			args.p3 = mk("max", bAny)
		}
	}

	// scalars
	args.u = c.Scalar
	if op.scalar == "u64red" {
		args.u = c.Scalar % minq
	}
	args.big, _ = new(big.Int).SetString(c.Big, 10)
	if args.big == nil {
		args.big = big.NewInt(0)
	}
	args.s0 = make(ring.RNSScalar, lvl+1)
	args.s1 = make(ring.RNSScalar, lvl+1)
	for i, q := range qs {
		args.s0[i] = fill(c.PatB, q-1, 8, rng)[7]
		args.s1[i] = fill(c.PatC, q-1, 8, rng)[7]
	}
	args.vec = fill(c.PatB, minq-1, n, rng)

	// snapshots of the inputs
	in1 := copyPoly(args.p1)
	var in2, acc ring.Poly
	if op.nin == 2 {
		in2 = copyPoly(args.p2)
	}
	if op.acc {
		acc = copyPoly(args.p3)
	}
	u0, big0 := args.u, new(big.Int).Set(args.big)
	s00, s10 := append(ring.RNSScalar(nil), args.s0...), append(ring.RNSScalar(nil), args.s1...)
	vec0 := append([]uint64(nil), args.vec...)

	op.call(args)

	// oracle
	boundary := boundaryPattern(c.PatA) || (op.nin == 2 && boundaryPattern(c.PatB)) || (op.acc && boundaryPattern(c.PatC))
	nonzero := false
	for i, q := range qs {
		sc := &limbSc{u: args.u, s0: s00[i], s1: s10[i], vec: vec0}
		sc.big = h.Mod(big0, h.BU(q)).Uint64()
		for j := 0; j < n; j++ {
			a := in1.Coeffs[i][j]
			var b, cacc uint64
			if op.nin == 2 {
				b = in2.Coeffs[i][j]
			}
			if op.acc {
				cacc = acc.Coeffs[i][j]
			}
			out := args.p3.Coeffs[i][j]
			want := op.want(q, j, n, a, b, sc)
			key := "C01:" + op.name
			switch {
			case op.exact:
				if out-cacc != want {
					return h.Failf(key, "limb %d (q=%d) coeff %d: out=%d acc=%d a=%d b=%d: out-acc=%d want exactly %d", i, q, j, out, cacc, a, b, out-cacc, want)
				}
			case op.strict:
				exp := want
				if op.acc {
					exp = addmod(cacc, want, q)
				}
				if out != exp {
					return h.Failf(key, "limb %d (q=%d) coeff %d: out=%d want %d (a=%d b=%d acc=%d scalar=%d)", i, q, j, out, exp, a, b, cacc, args.u)
				}
			default:
				if out < cacc {
					return h.Failf(key, "limb %d (q=%d) coeff %d: out=%d < acc=%d (wrap-around)", i, q, j, out, cacc)
				}
				d := out - cacc
				if d%q != want%q {
					return h.Failf(key, "limb %d (q=%d) coeff %d: increment %d ≢ %d mod q (a=%d b=%d acc=%d)", i, q, j, d, want, a, b, cacc)
				}
				if d < op.dlo(q) || d > op.dhi(q) {
					return h.Failf(key+":range", "limb %d (q=%d) coeff %d: increment %d outside documented range [%d,%d] (a=%d b=%d acc=%d out=%d)", i, q, j, d, op.dlo(q), op.dhi(q), a, b, cacc, out)
				}
			}
			if out%q != 0 {
				nonzero = true
			}
		}
	}
	// inputs that are not the output must be intact
	if alias != 1 && !r.Equal(args.p1, in1) {
		return h.Failf("C01:"+op.name+":input-mutated", "p1 modified")
	}
	if op.nin == 2 && alias != 2 && !r.Equal(args.p2, in2) {
		return h.Failf("C01:"+op.name+":input-mutated", "p2 modified")
	}
	if args.u != u0 || args.big.Cmp(big0) != 0 {
		return h.Failf("C01:"+op.name+":input-mutated", "scalar modified")
	}
	for i := range s00 {
		if args.s0[i] != s00[i] || args.s1[i] != s10[i] {
			return h.Failf("C01:"+op.name+":input-mutated", "RNS scalar modified")
		}
	}
	for j := range vec0 {
		if args.vec[j] != vec0[j] {
			return h.Failf("C01:"+op.name+":input-mutated", "vector modified")
		}
	}
	// limbs above the level must not be touched (AtLevel view)
	rec.Classf("op=%s", op.name)
	rec.Classf("size=%s", c.Ring.sizeClass())
	if lvl < len(c.Ring.Q)-1 {
		rec.Class("level<max")
	}
	if c.Ring.CI {
		rec.Class("ring=ci")
	}
	if alias != 0 {
		rec.Class("aliased")
	}
	if boundary && nonzero {
		rec.NonTrivial(fmt.Sprintf("%s|N=%d|ci=%v|%s|lvl=%d/%d|%s,%s,%s|alias=%d|accBig=%v", op.name, n, c.Ring.CI, c.Ring.sizeClass(), lvl, len(c.Ring.Q)-1, c.PatA, c.PatB, c.PatC, alias, c.AccBig && op.acc))
	}
	return nil
}

var propOps = h.NewProp("TestPropCoeffOps", h.Budget{Quick: 16000, Thorough: 400000}, genOpCase, runOpCase)

func TestPropCoeffOps(t *testing.T) { propOps.Check(t) }

// TestOpTableCoversRing lists exported element-wise Ring/SubRing methods so that the evidence shows what the table omits.
func TestPropOpTableAudit(t *testing.T) {
	names := make([]string, 0, len(coeffOps))
	for _, o := range coeffOps {
		names = append(names, o.name)
	}
	sort.Strings(names)
	h.SetExtra("TestPropCoeffOps", "ops_in_table", names)
}
