package c01

import (
	"fmt"
	"math/big"
	"sort"
	"testing"

	"verif/internal/h"

	"github.com/tuneinsight/lattigo/v6/ring"
	"github.com/tuneinsight/lattigo/v6/ring/ringqp"
	"pgregory.net/rapid"
)

// RelCase is one algebraic / metamorphic relation on NTT, automorphisms, monomials and RNS scalars.
type RelCase struct {
	Ring    RingSpec `json:"ring"`
	Rel     string   `json:"rel"`
	PatA    string   `json:"patA"`
	PatB    string   `json:"patB"`
	Seed    uint64   `json:"seed"`
	K       int      `json:"k"`   // monomial exponent / shift
	G       uint64   `json:"g"`   // Galois element (odd)
	G2      uint64   `json:"g2"`  // second Galois element
	InPlace bool     `json:"inPlace"`
	Big     string   `json:"big"`
}

func (c RelCase) RandSeed() uint64 { return c.Seed }

var relations = []string{
	"ntt-roundtrip", "ntt-product", "ntt-product-montgomery", "ntt-evaluation", "ntt-lazy", "ntt-linearity",
	"automorphism", "automorphism-ntt", "automorphism-ntt-thenadd", "automorphism-compose",
	"monomial", "shift", "rnsscalar", "evalpolyscalar", "ringqp",
	"crt", "monomial-xi", "ci-unfold-ntt",
}

func genRelCase(t *rapid.T) RelCase {
	var c RelCase
	c.Rel = relations[rapid.IntRange(0, len(relations)-1).Draw(t, "rel")]
	maxLogN := 7
	if h.Thorough() {
		maxLogN = 9
		if c.Rel == "ntt-roundtrip" || c.Rel == "ntt-lazy" || c.Rel == "automorphism-ntt" {
			maxLogN = 11
		}
	}
	c.Ring = genRing(t, 3, maxLogN, true)
	c.PatA, c.PatB = genPattern(t, "patA"), genPattern(t, "patB")
	c.Seed = rapid.Uint64().Draw(t, "seed")
	n := c.Ring.N()
	switch rapid.IntRange(0, 5).Draw(t, "kKind") {
	case 0:
		c.K = 0
	case 1:
		c.K = n
	case 2:
		c.K = -n
	case 3:
		c.K = rapid.IntRange(-6*n, 6*n).Draw(t, "kBig")
	default:
		c.K = rapid.IntRange(-2*n+1, 2*n-1).Draw(t, "k")
	}
	nth := uint64(2 * n)
	if c.Ring.CI {
		nth = uint64(4 * n)
	}
	drawG := func(label string) uint64 {
		switch rapid.IntRange(0, 4).Draw(t, label+"Kind") {
		case 0:
			return nth - 1
		case 1:
			return 5
		case 2:
			return 1
		default:
			return 2*rapid.Uint64Range(0, nth/2-1).Draw(t, label) + 1
		}
	}
	c.G, c.G2 = drawG("g"), drawG("g2")
	if c.Ring.CI {
		// In Z[X+X^-1] the elements g and -g induce the same map; lattigo's callers only ever use the representatives
		// 5^k (≡ 1 mod 4) there (rlwe.Parameters.GaloisElement; the order-two element is rejected for this ring type),
		// and the NTT index table is only defined for those.
		if c.G%4 == 3 {
			c.G = nth - c.G
		}
		if c.G2%4 == 3 {
			c.G2 = nth - c.G2
		}
	}
	c.InPlace = rapid.Bool().Draw(t, "inPlace")
	mag := new(big.Int).Lsh(big.NewInt(1), uint(rapid.IntRange(0, 300).Draw(t, "bigBits")))
	mag.Sub(mag, big.NewInt(int64(rapid.IntRange(0, 3).Draw(t, "bigOff"))))
	if rapid.Bool().Draw(t, "bigNeg") {
		mag.Neg(mag)
	}
	c.Big = mag.String()
	return c
}

func polyEq(r *ring.Ring, name string, got ring.Poly, want [][]uint64, qs []uint64, congruenceOnly bool) error {
	for i, q := range qs {
		for j := range want[i] {
			g := got.Coeffs[i][j]
			if congruenceOnly {
				if g > q || g%q != want[i][j]%q {
					return h.Failf("C01:"+name, "limb %d (q=%d) coeff %d: got %d want ≡ %d (and <= q)", i, q, j, g, want[i][j])
				}
			} else if g != want[i][j] {
				return h.Failf("C01:"+name, "limb %d (q=%d) coeff %d: got %d want %d", i, q, j, g, want[i][j])
			}
		}
	}
	return nil
}

func limbs(p ring.Poly, lvl int) [][]uint64 {
	out := make([][]uint64, lvl+1)
	for i := range out {
		out[i] = append([]uint64(nil), p.Coeffs[i]...)
	}
	return out
}

// refProduct returns the ring product of a and b modulo q in the ring type of the spec.
func refProduct(a, b []uint64, q uint64, ci bool) ([]uint64, bool) {
	if !ci {
		return negacyclic(a, b, q), true
	}
	return ciFold(negacyclic(ciUnfold(a, q), ciUnfold(b, q), q), q)
}

func refAutomorphism(a []uint64, g, q uint64, ci bool) ([]uint64, bool) {
	if !ci {
		return automorph(a, g, q), true
	}
	return ciFold(automorph(ciUnfold(a, q), g, q), q)
}

func runRelCase(c RelCase, rec *h.Rec) error {
	r, err := c.Ring.build()
	if err != nil {
		return h.Failf("C01:NewRing-rejects-valid-moduli", "%v", err)
	}
	n := r.N()
	lvl := c.Ring.Level
	qs := c.Ring.Q[:lvl+1]
	rng := h.NewSplitMix(c.Seed)
	ci := c.Ring.CI
	nth := uint64(2 * n)
	if ci {
		nth = uint64(4 * n)
	}
	if n > 256 && (c.Rel == "ntt-product" || c.Rel == "ntt-product-montgomery" || c.Rel == "ntt-evaluation") && ci {
		// quadratic references on the unfolded ring: keep them affordable
		rec.Class("skipped=large-ci-quadratic")
		return nil
	}

	mk := func(pat string) ring.Poly {
		p := r.NewPoly()
		for i, q := range qs {
			copy(p.Coeffs[i], fill(pat, q-1, n, rng))
		}
		return p
	}
	a, b := mk(c.PatA), mk(c.PatB)
	a0, b0 := limbs(a, lvl), limbs(b, lvl)
	nontrivialDesc := fmt.Sprintf("%s|N=%d|ci=%v|%s|lvl=%d/%d|%s,%s|inplace=%v", c.Rel, n, ci, c.Ring.sizeClass(), lvl, len(c.Ring.Q)-1, c.PatA, c.PatB, c.InPlace)
	extra := ""

	switch c.Rel {
	case "ntt-roundtrip":
		x := r.NewPoly()
		if c.InPlace {
			x.Copy(a)
			r.NTT(x, x)
			r.INTT(x, x)
		} else {
			y := r.NewPoly()
			r.NTT(a, y)
			r.INTT(y, x)
		}
		if err := polyEq(r, "INTT(NTT(a))", x, a0, qs, false); err != nil {
			return err
		}
		// and the other way round: NTT(INTT(a)) = a
		y := r.NewPoly()
		r.INTT(a, y)
		r.NTT(y, y)
		if err := polyEq(r, "NTT(INTT(a))", y, a0, qs, false); err != nil {
			return err
		}

	case "ntt-product", "ntt-product-montgomery":
		na, nb, prod := r.NewPoly(), r.NewPoly(), r.NewPoly()
		r.NTT(a, na)
		r.NTT(b, nb)
		if c.Rel == "ntt-product" {
			r.MulCoeffsBarrett(na, nb, prod)
		} else {
			r.MForm(na, na)
			r.MulCoeffsMontgomery(na, nb, prod)
		}
		if c.InPlace {
			r.INTT(prod, prod)
		} else {
			tmp := r.NewPoly()
			r.INTT(prod, tmp)
			prod = tmp
		}
		want := make([][]uint64, lvl+1)
		for i, q := range qs {
			w, ok := refProduct(a0[i], b0[i], q, ci)
			if !ok {
				return fmt.Errorf("reference CI product not symmetric (harness bug)")
			}
			want[i] = w
		}
		if err := polyEq(r, "INTT(NTT(a)*NTT(b))", prod, want, qs, false); err != nil {
			return err
		}

	case "ntt-evaluation":
		// multiset{NTT(a)_i} == multiset{a(psi^k): k odd} for an independently found primitive root
		na := r.NewPoly()
		r.NTT(a, na)
		for i, q := range qs {
			psi := h.PrimitiveRoot2N(q, nth)
			var evals []uint64
			poly := a0[i]
			if ci {
				poly = ciUnfold(a0[i], q)
			}
			deg := len(poly)
			for k := uint64(1); k < nth; k += 2 {
				x := powmod(psi, k, q)
				acc := uint64(0)
				for j := deg - 1; j >= 0; j-- {
					acc = addmod(mulmod(acc, x, q), poly[j], q)
				}
				evals = append(evals, acc)
			}
			got := append([]uint64(nil), na.Coeffs[i]...)
			if ci {
				got = append(got, got...) // every value appears for k and -k
			}
			sort.Slice(got, func(x, y int) bool { return got[x] < got[y] })
			sort.Slice(evals, func(x, y int) bool { return evals[x] < evals[y] })
			for j := range evals {
				if got[j] != evals[j] {
					return h.Failf("C01:NTT-evaluation-multiset", "limb %d (q=%d): the NTT values are not the evaluations of a at the odd powers of a primitive %d-th root (first difference at sorted index %d: %d vs %d)", i, q, nth, j, got[j], evals[j])
				}
			}
		}

	case "ntt-lazy":
		strict, lazy := r.NewPoly(), r.NewPoly()
		r.NTT(a, strict)
		r.NTTLazy(a, lazy)
		for i, q := range qs {
			for j := 0; j < n; j++ {
				v := lazy.Coeffs[i][j]
				if v%q != strict.Coeffs[i][j] {
					return h.Failf("C01:NTTLazy", "limb %d (q=%d) coeff %d: lazy %d ≢ strict %d", i, q, j, v, strict.Coeffs[i][j])
				}
				if v > 6*q-2 {
					const key = "C01:NTTLazy:range:conjugate-invariant-odd-logN"
					if ci && c.Ring.LogN%2 == 1 && c.Ring.LogN >= 5 && v <= 8*q-1 && rec.Known(key, fmt.Sprintf("q=%d N=%d value %d = %.3f q", q, n, v, float64(v)/float64(q))) {
						rec.Class("known=NTTLazy-ci-range")
						continue
					}
					return h.Failf("C01:NTTLazy:range", "limb %d (q=%d) coeff %d: %d > 6q-2", i, q, j, v)
				}
				if strict.Coeffs[i][j] >= q {
					return h.Failf("C01:NTT:range", "limb %d (q=%d) coeff %d: %d >= q", i, q, j, strict.Coeffs[i][j])
				}
			}
		}
		r.INTT(b, strict)
		r.INTTLazy(b, lazy)
		for i, q := range qs {
			for j := 0; j < n; j++ {
				v := lazy.Coeffs[i][j]
				if v%q != strict.Coeffs[i][j] {
					return h.Failf("C01:INTTLazy", "limb %d (q=%d) coeff %d: lazy %d ≢ strict %d", i, q, j, v, strict.Coeffs[i][j])
				}
				if v > 2*q-1 {
					return h.Failf("C01:INTTLazy:range", "limb %d (q=%d) coeff %d: %d > 2q-1", i, q, j, v)
				}
				if strict.Coeffs[i][j] >= q {
					return h.Failf("C01:INTT:range", "limb %d (q=%d) coeff %d: %d >= q", i, q, j, strict.Coeffs[i][j])
				}
			}
		}

	case "ntt-linearity":
		s := uint64(c.K*c.K + 3)
		na, nb, lhs, rhs := r.NewPoly(), r.NewPoly(), r.NewPoly(), r.NewPoly()
		r.MulScalar(b, s, lhs)
		r.Add(a, lhs, lhs)
		r.NTT(lhs, lhs)
		r.NTT(a, na)
		r.NTT(b, nb)
		r.MulScalar(nb, s, rhs)
		r.Add(na, rhs, rhs)
		if err := polyEq(r, "NTT-linearity", lhs, limbs(rhs, lvl), qs, false); err != nil {
			return err
		}

	case "automorphism", "automorphism-ntt", "automorphism-ntt-thenadd":
		g := c.G % nth
		extra = fmt.Sprintf("|g=%s", classG(g, nth))
		want := make([][]uint64, lvl+1)
		for i, q := range qs {
			w, ok := refAutomorphism(a0[i], g, q, ci)
			if !ok {
				return fmt.Errorf("reference CI automorphism not symmetric (harness bug)")
			}
			want[i] = w
		}
		out := mk("max") // poisoned output
		switch c.Rel {
		case "automorphism":
			r.Automorphism(a, g, out)
			if err := polyEq(r, "Automorphism", out, want, qs, true); err != nil {
				return err
			}
		case "automorphism-ntt":
			na := r.NewPoly()
			r.NTT(a, na)
			r.AutomorphismNTT(na, g, out)
			r.INTT(out, out)
			if err := polyEq(r, "AutomorphismNTT", out, want, qs, false); err != nil {
				return err
			}
		default:
			na, nb := r.NewPoly(), r.NewPoly()
			r.NTT(a, na)
			r.NTT(b, nb)
			idx, err := ring.AutomorphismNTTIndex(n, nth, g)
			if err != nil {
				return h.Failf("C01:AutomorphismNTTIndex", "%v", err)
			}
			r.AutomorphismNTTWithIndexThenAddLazy(na, idx, nb)
			r.Reduce(nb, nb)
			r.INTT(nb, nb)
			for i, q := range qs {
				for j := range want[i] {
					want[i][j] = addmod(want[i][j], b0[i][j], q)
				}
			}
			if err := polyEq(r, "AutomorphismNTTWithIndexThenAddLazy", nb, want, qs, false); err != nil {
				return err
			}
		}

	case "automorphism-compose":
		g1, g2 := c.G%nth, c.G2%nth
		na, t1, t2, t3 := r.NewPoly(), r.NewPoly(), r.NewPoly(), r.NewPoly()
		r.NTT(a, na)
		r.AutomorphismNTT(na, g1, t1)
		r.AutomorphismNTT(t1, g2, t2)
		r.AutomorphismNTT(na, (g1*g2)%nth, t3)
		if err := polyEq(r, "Automorphism-composition", t2, limbs(t3, lvl), qs, false); err != nil {
			return err
		}

	case "monomial":
		if ci {
			rec.Class("skipped=monomial-in-ci")
			return nil
		}
		out := mk("max")
		if c.InPlace {
			out.Copy(a)
			r.MultByMonomial(out, c.K, out)
		} else {
			r.MultByMonomial(a, c.K, out)
		}
		kk := ((c.K % (2 * n)) + 2*n) % (2 * n)
		want := make([][]uint64, lvl+1)
		for i, q := range qs {
			w := make([]uint64, n)
			for j := 0; j < n; j++ {
				d := j + kk
				v := a0[i][j]
				for d >= n {
					d -= n
					v = submod(0, v, q)
				}
				w[d] = v
			}
			want[i] = w
		}
		extra = fmt.Sprintf("|k=%s", classK(c.K, n))
		if err := polyEq(r, "MultByMonomial", out, want, qs, true); err != nil {
			return err
		}

	case "shift":
		out := mk("max")
		r.Shift(a, c.K, out)
		want := make([][]uint64, lvl+1)
		for i := range qs {
			w := make([]uint64, n)
			for j := 0; j < n; j++ {
				w[j] = a0[i][(((j+c.K)%n)+n)%n]
			}
			want[i] = w
		}
		extra = fmt.Sprintf("|k=%s", classK(c.K, n))
		if err := polyEq(r, "Shift", out, want, qs, false); err != nil {
			return err
		}

	case "rnsscalar":
		x, _ := new(big.Int).SetString(c.Big, 10)
		s1 := r.NewRNSScalarFromBigint(x)
		s2 := r.NewRNSScalarFromUInt64(c.G2 * 0x9e3779b97f4a7c15)
		u2 := c.G2 * 0x9e3779b97f4a7c15
		for i, q := range qs {
			if s1[i] != h.Mod(x, h.BU(q)).Uint64() {
				return h.Failf("C01:NewRNSScalarFromBigint", "limb %d (q=%d): %d want %d", i, q, s1[i], h.Mod(x, h.BU(q)).Uint64())
			}
			if s2[i] != u2%q {
				return h.Failf("C01:NewRNSScalarFromUInt64", "limb %d (q=%d): %d want %d", i, q, s2[i], u2%q)
			}
		}
		sub, mul, neg, mf := r.NewRNSScalar(), r.NewRNSScalar(), r.NewRNSScalar(), r.NewRNSScalar()
		r.SubRNSScalar(s1, s2, sub)
		r.NegRNSScalar(s1, neg)
		r.MFormRNSScalar(s2, mf)
		r.MulRNSScalar(s1, mf, mul) // s1 * (s2*2^64) * 2^-64
		inv := append(ring.RNSScalar(nil), s1...)
		invertible := true
		for i, q := range qs {
			if s1[i]%q == 0 {
				invertible = false
			}
			if sub[i] != submod(s1[i], s2[i], q) {
				return h.Failf("C01:SubRNSScalar", "limb %d (q=%d): %d want %d", i, q, sub[i], submod(s1[i], s2[i], q))
			}
			if neg[i] > q || neg[i]%q != submod(0, s1[i], q) {
				return h.Failf("C01:NegRNSScalar", "limb %d (q=%d): %d want ≡ %d", i, q, neg[i], submod(0, s1[i], q))
			}
			if mf[i] != mulmod(s2[i], two64(q), q) {
				return h.Failf("C01:MFormRNSScalar", "limb %d (q=%d): %d want %d", i, q, mf[i], mulmod(s2[i], two64(q), q))
			}
			// MulRNSScalar uses the lazy Montgomery reduction and documents no output range: congruence and < 2q
			if mul[i] > 2*q-1 || mul[i]%q != mulmod(s1[i], s2[i], q) {
				return h.Failf("C01:MulRNSScalar", "limb %d (q=%d): %d want ≡ %d (and < 2q)", i, q, mul[i], mulmod(s1[i], s2[i], q))
			}
		}
		if invertible {
			// Inverse works on Montgomery-form scalars: inverse(s*R) = s^-1 * R
			r.MFormRNSScalar(inv, inv)
			r.Inverse(inv)
			for i, q := range qs {
				got := mont(inv[i], q)
				if mulmod(got, s1[i], q) != 1%q {
					return h.Failf("C01:Inverse", "limb %d (q=%d): inverse(%d)=%d, product %d != 1", i, q, s1[i], got, mulmod(got, s1[i], q))
				}
			}
		} else {
			extra = "|noninvertible"
		}

	case "evalpolyscalar":
		deg := 1 + (c.K%4+4)%4
		polys := []ring.Poly{a, b}
		ref := [][][]uint64{a0, b0}
		for len(polys) < deg+1 {
			p := mk("uniform")
			polys = append(polys, p)
			ref = append(ref, limbs(p, lvl))
		}
		out := r.NewPoly()
		pt := c.G2 * 0x9e3779b97f4a7c15
		r.EvalPolyScalar(polys, pt, out)
		want := make([][]uint64, lvl+1)
		for i, q := range qs {
			w := make([]uint64, n)
			for j := 0; j < n; j++ {
				acc := uint64(0)
				for d := len(ref) - 1; d >= 0; d-- {
					acc = addmod(mulmod(acc, pt%q, q), ref[d][i][j], q)
				}
				w[j] = acc
			}
			want[i] = w
		}
		if err := polyEq(r, "EvalPolyScalar", out, want, qs, false); err != nil {
			return err
		}
		for d := range polys {
			if err := polyEq(r, "EvalPolyScalar:input-mutated", polys[d], ref[d], qs, false); err != nil {
				return err
			}
		}

	case "crt":
		// SetCoefficientsBigint / PolyToBigint / PolyToBigintCentered / PolyToString against an independent CRT
		Q := h.ProdU(qs)
		gap := 1 << (uint(c.K&3) % 3) // 1, 2, 4
		want := h.CRT(a0, qs)
		got := make([]*big.Int, n/gap)
		r.PolyToBigint(a, gap, got)
		for i := range got {
			if got[i] == nil || got[i].Cmp(want[i*gap]) != 0 {
				return h.Failf("C01:PolyToBigint", "gap %d coefficient %d: got %v want %v", gap, i, got[i], want[i*gap])
			}
		}
		gotc := make([]*big.Int, n/gap)
		for i := range gotc {
			gotc[i] = new(big.Int)
		}
		r.PolyToBigintCentered(a, gap, gotc)
		half := new(big.Int).Rsh(Q, 1)
		for i := range gotc {
			w := new(big.Int).Set(want[i*gap])
			// documented: centred around Q/2; a value equal to floor(Q/2) may be reported as either representative
			if w.Cmp(half) > 0 {
				w.Sub(w, Q)
			}
			alt := new(big.Int).Sub(w, Q)
			if gotc[i].Cmp(w) != 0 && !(want[i*gap].Cmp(half) == 0 && gotc[i].Cmp(alt) == 0) {
				return h.Failf("C01:PolyToBigintCentered", "gap %d coefficient %d: got %v want %v (Q=%v)", gap, i, gotc[i], w, Q)
			}
		}
		strs := r.PolyToString(a)
		for i := range strs {
			if strs[i] != want[i].String() {
				return h.Failf("C01:PolyToString", "coefficient %d: got %s want %s", i, strs[i], want[i])
			}
		}
		// round trip through SetCoefficientsBigint with signed and oversized integers
		x, _ := new(big.Int).SetString(c.Big, 10)
		ints := make([]*big.Int, n)
		for i := range ints {
			ints[i] = new(big.Int).Add(want[i], new(big.Int).Mul(x, big.NewInt(int64(i%3-1))))
		}
		ints0 := make([]*big.Int, n)
		for i := range ints {
			ints0[i] = new(big.Int).Set(ints[i])
		}
		p := mk("max")
		r.SetCoefficientsBigint(ints, p)
		for i, q := range qs {
			for j := 0; j < n; j++ {
				if w := h.Mod(ints0[j], h.BU(q)).Uint64(); p.Coeffs[i][j] != w {
					return h.Failf("C01:SetCoefficientsBigint", "limb %d (q=%d) coeff %d: got %d want %d", i, q, j, p.Coeffs[i][j], w)
				}
			}
		}
		for i := range ints {
			if ints[i].Cmp(ints0[i]) != 0 {
				return h.Failf("C01:SetCoefficientsBigint:input-mutated", "coefficient %d modified", i)
			}
		}
		extra = fmt.Sprintf("|gap=%d", gap)

	case "monomial-xi":
		if ci {
			rec.Class("skipped=monomial-in-ci")
			return nil
		}
		p := r.NewMonomialXi(c.K)
		kk := ((c.K % (2 * n)) + 2*n) % (2 * n)
		for i, q := range qs {
			for j := 0; j < n; j++ {
				var w uint64
				if kk < n && j == kk {
					w = 1
				} else if kk >= n && j == kk-n {
					w = q - 1
				}
				if p.Coeffs[i][j] != w {
					return h.Failf("C01:NewMonomialXi", "k=%d limb %d (q=%d) coeff %d: got %d want %d", c.K, i, q, j, p.Coeffs[i][j], w)
				}
			}
		}
		extra = fmt.Sprintf("|k=%s", classK(c.K, n))

	case "ci-unfold-ntt":
		// NTT in Z[X+X^-1]/(X^2N+1) unfolded to the standard ring of degree 2N == standard NTT of the symmetric embedding
		if !ci || n > 512 {
			rec.Class("skipped=ci-unfold-needs-ci")
			return nil
		}
		rstd, err := ring.NewRing(2*n, c.Ring.Q)
		if err != nil {
			return h.Failf("C01:NewRing-rejects-valid-moduli", "%v", err)
		}
		rstd = rstd.AtLevel(lvl)
		na := r.NewPoly()
		r.NTT(a, na)
		unf := rstd.NewPoly()
		rstd.UnfoldConjugateInvariantToStandard(na, unf)
		emb := rstd.NewPoly()
		for i, q := range qs {
			copy(emb.Coeffs[i], ciUnfold(a0[i], q))
		}
		rstd.NTT(emb, emb)
		if err := polyEq(rstd, "UnfoldConjugateInvariantToStandard(NTT_ci(a))", unf, limbs(emb, lvl), qs, false); err != nil {
			return err
		}

	case "ringqp":
		// the QP wrapper must apply the same operation to both halves at their own levels
		if len(c.Ring.Q) < 2 {
			rec.Class("skipped=ringqp-needs-2-primes")
			return nil
		}
		split := 1 + (int(c.G2) % (len(c.Ring.Q) - 1))
		var rq, rp *ring.Ring
		if ci {
			rq, err = ring.NewRingConjugateInvariant(n, c.Ring.Q[:split])
			if err == nil {
				rp, err = ring.NewRingConjugateInvariant(n, c.Ring.Q[split:])
			}
		} else {
			rq, err = ring.NewRing(n, c.Ring.Q[:split])
			if err == nil {
				rp, err = ring.NewRing(n, c.Ring.Q[split:])
			}
		}
		if err != nil {
			return h.Failf("C01:NewRing-rejects-valid-moduli", "%v", err)
		}
		lq := int(c.Seed % uint64(split))
		lp := int((c.Seed >> 8) % uint64(len(c.Ring.Q)-split))
		rqp := ringqp.Ring{RingQ: rq, RingP: rp}.AtLevel(lq, lp)
		full, _ := ring.NewRingFromType(n, append(append([]uint64(nil), c.Ring.Q[:lq+1]...), c.Ring.Q[split:split+lp+1]...), r.Type())
		x, y := rqp.NewPoly(), rqp.NewPoly()
		fx, fy := full.NewPoly(), full.NewPoly()
		for i := 0; i <= lq; i++ {
			copy(x.Q.Coeffs[i], fill(c.PatA, c.Ring.Q[i]-1, n, rng))
			copy(y.Q.Coeffs[i], fill(c.PatB, c.Ring.Q[i]-1, n, rng))
			copy(fx.Coeffs[i], x.Q.Coeffs[i])
			copy(fy.Coeffs[i], y.Q.Coeffs[i])
		}
		for i := 0; i <= lp; i++ {
			copy(x.P.Coeffs[i], fill(c.PatA, c.Ring.Q[split+i]-1, n, rng))
			copy(y.P.Coeffs[i], fill(c.PatB, c.Ring.Q[split+i]-1, n, rng))
			copy(fx.Coeffs[lq+1+i], x.P.Coeffs[i])
			copy(fy.Coeffs[lq+1+i], y.P.Coeffs[i])
		}
		z, fz := rqp.NewPoly(), full.NewPoly()
		cmp := func(name string) error {
			for i := 0; i <= lq; i++ {
				for j := 0; j < n; j++ {
					if z.Q.Coeffs[i][j] != fz.Coeffs[i][j] {
						return h.Failf("C01:ringqp."+name, "Q limb %d coeff %d: %d vs single-ring %d", i, j, z.Q.Coeffs[i][j], fz.Coeffs[i][j])
					}
				}
			}
			for i := 0; i <= lp; i++ {
				for j := 0; j < n; j++ {
					if z.P.Coeffs[i][j] != fz.Coeffs[lq+1+i][j] {
						return h.Failf("C01:ringqp."+name, "P limb %d coeff %d: %d vs single-ring %d", i, j, z.P.Coeffs[i][j], fz.Coeffs[lq+1+i][j])
					}
				}
			}
			return nil
		}
		g := c.G % nth
		type step struct {
			name string
			qp   func()
			one  func()
		}
		steps := []step{
			{"Add", func() { rqp.Add(x, y, z) }, func() { full.Add(fx, fy, fz) }},
			{"Sub", func() { rqp.Sub(x, y, z) }, func() { full.Sub(fx, fy, fz) }},
			{"Neg", func() { rqp.Neg(x, z) }, func() { full.Neg(fx, fz) }},
			{"AddLazy", func() { rqp.AddLazy(x, y, z) }, func() { full.AddLazy(fx, fy, fz) }},
			{"MulScalar", func() { rqp.MulScalar(x, c.G2|1<<62, z) }, func() { full.MulScalar(fx, c.G2|1<<62, fz) }},
			{"NTT", func() { rqp.NTT(x, z) }, func() { full.NTT(fx, fz) }},
			{"INTT", func() { rqp.INTT(x, z) }, func() { full.INTT(fx, fz) }},
			{"NTTLazy", func() { rqp.NTTLazy(x, z) }, func() { full.NTTLazy(fx, fz) }},
			{"INTTLazy", func() { rqp.INTTLazy(x, z) }, func() { full.INTTLazy(fx, fz) }},
			{"MForm", func() { rqp.MForm(x, z) }, func() { full.MForm(fx, fz) }},
			{"IMForm", func() { rqp.IMForm(x, z) }, func() { full.IMForm(fx, fz) }},
			{"MulCoeffsMontgomery", func() { rqp.MulCoeffsMontgomery(x, y, z) }, func() { full.MulCoeffsMontgomery(fx, fy, fz) }},
			{"MulCoeffsMontgomeryLazy", func() { rqp.MulCoeffsMontgomeryLazy(x, y, z) }, func() { full.MulCoeffsMontgomeryLazy(fx, fy, fz) }},
			{"MulCoeffsMontgomeryThenAdd", func() { rqp.MulCoeffsMontgomeryThenAdd(x, y, z) }, func() { full.MulCoeffsMontgomeryThenAdd(fx, fy, fz) }},
			{"MulCoeffsMontgomeryThenSub", func() { rqp.MulCoeffsMontgomeryThenSub(x, y, z) }, func() { full.MulCoeffsMontgomeryThenSub(fx, fy, fz) }},
			{"MulCoeffsMontgomeryLazyThenAddLazy", func() { rqp.MulCoeffsMontgomeryLazyThenAddLazy(x, y, z) }, func() { full.MulCoeffsMontgomeryLazyThenAddLazy(fx, fy, fz) }},
			{"MulCoeffsMontgomeryLazyThenSubLazy", func() { rqp.MulCoeffsMontgomeryLazyThenSubLazy(x, y, z) }, func() { full.MulCoeffsMontgomeryLazyThenSubLazy(fx, fy, fz) }},
			{"Reduce", func() { rqp.Reduce(z, z) }, func() { full.Reduce(fz, fz) }},
			{"Automorphism", func() { rqp.Automorphism(x, g, z) }, func() { full.Automorphism(fx, g, fz) }},
			{"AutomorphismNTT", func() { rqp.AutomorphismNTT(x, g, z) }, func() { full.AutomorphismNTT(fx, g, fz) }},
		}
		for _, s := range steps {
			s.qp()
			s.one()
			if err := cmp(s.name); err != nil {
				return err
			}
		}
		extra = fmt.Sprintf("|lq=%d/%d|lp=%d/%d", lq, split-1, lp, len(c.Ring.Q)-split-1)
	}

	// inputs intact
	if err := polyEq(r, c.Rel+":input-mutated", a, a0, qs, false); err != nil {
		return err
	}
	if c.Rel != "automorphism-ntt-thenadd" {
		if err := polyEq(r, c.Rel+":input-mutated", b, b0, qs, false); err != nil {
			return err
		}
	}

	rec.Classf("rel=%s", c.Rel)
	rec.Classf("size=%s", c.Ring.sizeClass())
	if n < 16 {
		rec.Class("N<16(non-unrolled NTT)")
	}
	if ci {
		rec.Class("ring=ci")
	}
	if lvl < len(c.Ring.Q)-1 {
		rec.Class("level<max")
	}
	if boundaryPattern(c.PatA) || boundaryPattern(c.PatB) || extra != "" || lvl < len(c.Ring.Q)-1 {
		if c.PatA != "zero" || c.Rel == "rnsscalar" {
			rec.NonTrivial(nontrivialDesc + extra)
		}
	}
	return nil
}

func classG(g, nth uint64) string {
	switch {
	case g == 1:
		return "1"
	case g == nth-1:
		return "-1"
	case g == 5:
		return "5"
	}
	return fmt.Sprintf("other%d", g%8)
}

func classK(k, n int) string {
	switch {
	case k == 0:
		return "0"
	case k == n || k == -n:
		return "±N"
	case k >= 2*n || k <= -2*n:
		return "|k|>=2N"
	case k < 0:
		if -k > n {
			return "(-2N,-N)"
		}
		return "(-N,0)"
	case k > n:
		return "(N,2N)"
	}
	return "(0,N)"
}

var propRel = h.NewProp("TestPropRelations", h.Budget{Quick: 10000, Thorough: 200000}, genRelCase, runRelCase)

func TestPropRelations(t *testing.T) { propRel.Check(t) }
