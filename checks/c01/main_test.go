package c01

import (
	"fmt"
	"math/big"
	"math/bits"
	"sync"
	"testing"

	"verif/internal/h"

	"github.com/tuneinsight/lattigo/v6/ring"
	"pgregory.net/rapid"
)

func TestMain(m *testing.M) { h.Main(m, "C01") }

func TestReplay(t *testing.T) { h.ReplayAll(t) }

// RingSpec is a plain-data ring description.
type RingSpec struct {
	LogN  int      `json:"logN"`
	CI    bool     `json:"ci,omitempty"`
	Q     []uint64 `json:"Q"`
	Level int      `json:"level"`
}

func (s RingSpec) N() int { return 1 << s.LogN }

var (
	ringMu    sync.Mutex
	ringCache = map[string]*ring.Ring{}
)

func (s RingSpec) build() (*ring.Ring, error) {
	key := fmt.Sprintf("%d|%v|%v", s.LogN, s.CI, s.Q)
	ringMu.Lock()
	defer ringMu.Unlock()
	if r, ok := ringCache[key]; ok {
		return r.AtLevel(s.Level), nil
	}
	var r *ring.Ring
	var err error
	if s.CI {
		r, err = ring.NewRingConjugateInvariant(s.N(), s.Q)
	} else {
		r, err = ring.NewRing(s.N(), s.Q)
	}
	if err != nil {
		return nil, err
	}
	if len(ringCache) > 128 {
		ringCache = map[string]*ring.Ring{}
	}
	ringCache[key] = r
	return r.AtLevel(s.Level), nil
}

func (s RingSpec) sizeClass() string {
	lo, hi := 64, 0
	for _, q := range s.Q[:s.Level+1] {
		b := bits.Len64(q)
		if b < lo {
			lo = b
		}
		if b > hi {
			hi = b
		}
	}
	c := func(b int) string {
		switch {
		case b <= 16:
			return "tiny"
		case b <= 40:
			return "mid"
		case b <= 58:
			return "big"
		default:
			return "max"
		}
	}
	if c(lo) == c(hi) {
		return c(lo)
	}
	return c(lo) + "-" + c(hi)
}

func genRing(t *rapid.T, minLogN, maxLogN int, allowCI bool) RingSpec {
	var s RingSpec
	s.LogN = rapid.IntRange(minLogN, maxLogN).Draw(t, "logN")
	if allowCI {
		s.CI = rapid.IntRange(0, 2).Draw(t, "ci") == 0
	}
	m := uint64(2) << s.LogN
	if s.CI {
		m <<= 1
	}
	nq := rapid.IntRange(1, 5).Draw(t, "nQ")
	minb := h.MinPrimeBits(m)
	sizes := make([]int, nq)
	for i := range sizes {
		switch rapid.IntRange(0, 7).Draw(t, fmt.Sprintf("szk%d", i)) {
		case 0:
			sizes[i] = minb // smallest admissible prime
		case 1, 2:
			sizes[i] = 61
		case 3:
			sizes[i] = 60
		default:
			sizes[i] = rapid.IntRange(minb, 61).Draw(t, fmt.Sprintf("sz%d", i))
		}
	}
	s.Q = h.GenPrimes(t, sizes, m, nil, "q")
	s.Level = rapid.IntRange(0, nq-1).Draw(t, "level")
	return s
}

// coefficient patterns ------------------------------------------------------------------------------------------

var patterns = []string{"uniform", "zero", "max", "one", "onehot", "alt", "lane", "lowhigh"}

// fill produces n values in [0, bound] (inclusive) following the pattern.
func fill(pat string, bound uint64, n int, rng *h.SplitMix) []uint64 {
	out := make([]uint64, n)
	u := func() uint64 {
		if bound == ^uint64(0) {
			return rng.Uint64()
		}
		return rng.Uint64() % (bound + 1)
	}
	switch pat {
	case "zero":
	case "max":
		for i := range out {
			out[i] = bound
		}
	case "one":
		for i := range out {
			if bound >= 1 {
				out[i] = 1
			}
		}
	case "onehot":
		out[rng.Intn(n)] = bound
	case "alt":
		for i := range out {
			if i&1 == 1 {
				out[i] = bound
			}
		}
	case "lane":
		// value depends on index mod 8 and mod 16 so that a wrong lane / unrolled block is visible
		for i := range out {
			d := uint64(i%16)*3 + uint64(i%8)
			if d > bound {
				d = bound
			}
			out[i] = bound - d
		}
	case "lowhigh":
		for i := range out {
			switch rng.Intn(4) {
			case 0:
				out[i] = bound
			case 1:
				out[i] = 0
			case 2:
				if bound > 0 {
					out[i] = bound - 1
				}
			default:
				out[i] = u()
			}
		}
	default:
		for i := range out {
			out[i] = u()
		}
	}
	return out
}

func genPattern(t *rapid.T, label string) string {
	return patterns[rapid.IntRange(0, len(patterns)-1).Draw(t, label)]
}

func boundaryPattern(p string) bool { return p != "uniform" }

// modular helpers (independent of lattigo) -------------------------------------------------------------------------

func mulmod(a, b, q uint64) uint64 {
	hi, lo := bits.Mul64(a%q, b%q)
	_, r := bits.Div64(hi, lo, q)
	return r
}

func addmod(a, b, q uint64) uint64 {
	s, c := bits.Add64(a%q, b%q, 0)
	if c != 0 || s >= q {
		s -= q
	}
	return s
}

func submod(a, b, q uint64) uint64 { return addmod(a, q-b%q, q) }

func powmod(a, e, q uint64) uint64 {
	r := uint64(1) % q
	a %= q
	for e > 0 {
		if e&1 == 1 {
			r = mulmod(r, a, q)
		}
		a = mulmod(a, a, q)
		e >>= 1
	}
	return r
}

func invmod(a, q uint64) uint64 { return powmod(a, q-2, q) }

// two64 returns 2^64 mod q.
func two64(q uint64) uint64 {
	return new(big.Int).Mod(new(big.Int).Lsh(big.NewInt(1), 64), new(big.Int).SetUint64(q)).Uint64()
}

// negacyclic schoolbook product mod q (standard ring).
func negacyclic(a, b []uint64, q uint64) []uint64 {
	n := len(a)
	out := make([]uint64, n)
	for i := 0; i < n; i++ {
		if a[i]%q == 0 {
			continue
		}
		for j := 0; j < n; j++ {
			p := mulmod(a[i], b[j], q)
			k := i + j
			if k >= n {
				out[k-n] = submod(out[k-n], p, q)
			} else {
				out[k] = addmod(out[k], p, q)
			}
		}
	}
	return out
}

// ciUnfold maps a conjugate-invariant polynomial (degree n) to the standard ring of degree 2n modulo q.
func ciUnfold(a []uint64, q uint64) []uint64 {
	n := len(a)
	out := make([]uint64, 2*n)
	out[0] = a[0] % q
	for j := 1; j < n; j++ {
		out[j] = a[j] % q
		out[2*n-j] = submod(0, a[j], q)
	}
	return out
}

// ciFold checks symmetry of a degree-2n polynomial and returns its first n coefficients.
func ciFold(a []uint64, q uint64) ([]uint64, bool) {
	n := len(a) / 2
	if a[n]%q != 0 {
		return nil, false
	}
	for j := 1; j < n; j++ {
		if addmod(a[j], a[2*n-j], q) != 0 {
			return nil, false
		}
	}
	return append([]uint64(nil), a[:n]...), true
}

// automorphism a(X) -> a(X^g) mod (X^n+1, q)
func automorph(a []uint64, g uint64, q uint64) []uint64 {
	n := uint64(len(a))
	out := make([]uint64, n)
	mask := 2*n - 1
	for i := uint64(0); i < n; i++ {
		k := (i * (g & mask)) & mask
		v := a[i] % q
		if k >= n {
			k -= n
			v = submod(0, v, q)
		}
		out[k] = v
	}
	return out
}

func copyPoly(p ring.Poly) ring.Poly { return *p.CopyNew() }
