package c20

import (
	"fmt"
	"math"
	"math/big"
	"math/bits"
	"testing"

	"verif/internal/h"

	"github.com/tuneinsight/lattigo/v6/core/rgsw"
	"github.com/tuneinsight/lattigo/v6/core/rlwe"
	"github.com/tuneinsight/lattigo/v6/ring"
	"github.com/tuneinsight/lattigo/v6/ring/ringqp"
	"pgregory.net/rapid"
)

func TestMain(m *testing.M) { h.Main(m, "C20") }

func TestReplay(t *testing.T) { h.ReplayAll(t) }

// Keys of the genuine defects this check found (listed in known_findings.json). The search continues behind them.
const (
	// rgsw.Encryptor, RGSW ciphertext without auxiliary modulus (LevelP = -1), secret-key encryption or public-key
	// encryption under parameters without P: the rows are produced by the ring.Poly branch of the rlwe encryptor, which
	// ignores MetaData.IsMontgomery, so the error term is not in Montgomery form although the message part is.
	keyEncNoP = "C20:rgsw.Encrypt:noP:error-not-in-montgomery-form"
	// same root cause seen through blindrot.GenEvaluationKeyNew
	keyBRKNoP = "C20:blindrot.GenEvaluationKeyNew:noP:keys-not-rgsw-encryptions"
	// base-2^w digit count taken from round(log2 q) instead of the bit length (reported by C04 for GadgetProduct)
	keyDigitsShort = "C20:ExternalProduct:base2-digits-short:wrong-result"
	// externalProduct32Bit accumulates 2*ceil(log2(q)/w) lazy products of size q*2q in a uint64
	key32Overflow = "C20:ExternalProduct:32bit:lazy-accumulator-overflow"
	// blind rotation: mask coefficients that switch to 0 or to -1 modulo 2N are multiplied in as X^{+s_i}
	keyMaskQuirk = "C20:blindrot.Evaluate:mask-coefficient-0-or-minus-1-processed-as-plus-1"
	// rlwe gadget product with an evaluation key at LevelP = -1 under parameters that have P: PiOverflowMargin(-1) panics
	keyLevelPNone = "C20:blindrot.Evaluate:keys-LevelP=-1-under-params-with-P:panic@PiOverflowMargin"
	// rgsw.Encryptor.Encrypt, plaintext with IsNTT && IsMontgomery: CopyLvl is called with receiver and argument swapped
	keyPtClobbered = "C20:rgsw.Encrypt:pt-ntt-montgomery:buffer-encrypted-plaintext-overwritten"
)

// ---------------------------------------------------------------------------------------------------------------
// environment: parameters, keys, secret as integers

type env struct {
	spec   h.RLWESpec
	params rlwe.Parameters
	sk     *rlwe.SecretKey
	s      []*big.Int // secret coefficients (centred)
	sL1    float64    // 1-norm of the secret
	n      int
}

func newEnv(spec h.RLWESpec) (*env, error) {
	params, err := spec.Build()
	if err != nil {
		return nil, err
	}
	e := &env{spec: spec, params: params, n: params.N()}
	e.sk = rlwe.NewKeyGenerator(params).GenSecretKeyNew()
	e.s, e.sL1 = secretInts(params, e.sk)
	return e, nil
}

// secretInts extracts the coefficients of a secret key (stored in the NTT and Montgomery domain) from its first limb.
func secretInts(params rlwe.Parameters, sk *rlwe.SecretKey) ([]*big.Int, float64) {
	r0 := params.RingQ().AtLevel(0)
	tmp := r0.NewPoly()
	tmp.CopyLvl(0, sk.Value.Q)
	r0.INTT(tmp, tmp)
	r0.IMForm(tmp, tmp)
	q0 := r0.SubRings[0].Modulus
	out := make([]*big.Int, params.N())
	l1 := 0.0
	for i := range out {
		v := int64(tmp.Coeffs[0][i])
		if uint64(v) > q0/2 {
			v -= int64(q0)
		}
		out[i] = big.NewInt(v)
		l1 += math.Abs(float64(v))
	}
	return out, l1
}

func qs(params rlwe.Parameters, levelQ int) []uint64 { return params.Q()[:levelQ+1] }

func qps(params rlwe.Parameters, levelQ, levelP int) []uint64 {
	out := append([]uint64(nil), params.Q()[:levelQ+1]...)
	if levelP >= 0 {
		out = append(out, params.P()[:levelP+1]...)
	}
	return out
}

// polyToBig reconstructs the coefficients (in [0,Q_level)) of a coefficient-domain, non-Montgomery polynomial.
func polyToBig(params rlwe.Parameters, level int, p ring.Poly) []*big.Int {
	return h.CRT(p.Coeffs[:level+1], qs(params, level))
}

// setPoly writes integer coefficients into the limbs 0..level of p (coefficient domain).
func setPoly(params rlwe.Parameters, level int, x []*big.Int, p ring.Poly) {
	limbs := h.ToRNS(x, qs(params, level))
	for i := range limbs {
		copy(p.Coeffs[i], limbs[i])
	}
}

// decryptBig returns c0 + c1*s mod Q_level as integers in [0,Q).
func (e *env) decryptBig(ct *rlwe.Ciphertext) []*big.Int {
	dec := rlwe.NewDecryptor(e.params, e.sk)
	pt := rlwe.NewPlaintext(e.params, ct.Level())
	dec.Decrypt(ct, pt)
	if pt.IsNTT {
		e.params.RingQ().AtLevel(ct.Level()).INTT(pt.Value, pt.Value)
	}
	return polyToBig(e.params, ct.Level(), pt.Value)
}

func l1Norm(a []*big.Int) float64 {
	s := new(big.Int)
	t := new(big.Int)
	for _, x := range a {
		s.Add(s, t.Abs(x))
	}
	f, _ := new(big.Float).SetInt(s).Float64()
	return f
}

func bigF(x *big.Int) float64 {
	f, _ := new(big.Float).SetInt(x).Float64()
	return f
}

func isZero(a []*big.Int) bool {
	for _, x := range a {
		if x.Sign() != 0 {
			return false
		}
	}
	return true
}

// ---------------------------------------------------------------------------------------------------------------
// small polynomials (RGSW plaintexts)

// GSpec describes a small polynomial g.
type GSpec struct {
	Kind string `json:"kind"` // zero | one | const | mono | monom1 | ternary | small
	A    int    `json:"a,omitempty"`
	Seed uint64 `json:"seed,omitempty"`
}

var gKinds = []string{"zero", "one", "const", "mono", "monom1", "ternary", "small"}

func genG(t *rapid.T, n int, label string) GSpec {
	g := GSpec{Kind: gKinds[rapid.IntRange(0, len(gKinds)-1).Draw(t, label+"_kind")]}
	switch g.Kind {
	case "const":
		g.A = rapid.IntRange(-8, 8).Draw(t, label+"_c")
	case "mono", "monom1":
		switch rapid.IntRange(0, 3).Draw(t, label+"_ak") {
		case 0:
			g.A = []int{0, 1, n - 1, n, n + 1, 2*n - 1}[rapid.IntRange(0, 5).Draw(t, label+"_ab")]
		default:
			g.A = rapid.IntRange(0, 2*n-1).Draw(t, label+"_a")
		}
	case "ternary", "small":
		g.Seed = rapid.Uint64().Draw(t, label+"_seed")
	}
	return g
}

// ints expands g into n signed coefficients.
func (g GSpec) ints(n int) []*big.Int {
	out := make([]*big.Int, n)
	for i := range out {
		out[i] = new(big.Int)
	}
	addMono := func(a int, v int64) {
		a = ((a % (2 * n)) + 2*n) % (2 * n)
		if a >= n {
			a -= n
			v = -v
		}
		out[a].Add(out[a], big.NewInt(v))
	}
	switch g.Kind {
	case "one":
		out[0].SetInt64(1)
	case "const":
		out[0].SetInt64(int64(g.A))
	case "mono":
		addMono(g.A, 1)
	case "monom1":
		addMono(g.A, 1)
		addMono(0, -1)
	case "ternary":
		rng := h.NewSplitMix(g.Seed)
		for i := range out {
			out[i].SetInt64(int64(rng.Intn(3)) - 1)
		}
	case "small":
		rng := h.NewSplitMix(g.Seed)
		for i := range out {
			if rng.Intn(4) == 0 {
				out[i].SetInt64(int64(rng.Intn(9)) - 4)
			}
		}
	}
	return out
}

func (g GSpec) class() string {
	if g.Kind == "mono" && g.A == 0 {
		return "one"
	}
	return g.Kind
}

// rlwePlaintext builds the *rlwe.Plaintext handed to rgsw.Encryptor.Encrypt in the requested representation.
func (e *env) rlwePlaintext(g []*big.Int, level int, ntt, mont bool) *rlwe.Plaintext {
	pt := rlwe.NewPlaintext(e.params, level)
	setPoly(e.params, level, g, pt.Value)
	rq := e.params.RingQ().AtLevel(level)
	if ntt {
		rq.NTT(pt.Value, pt.Value)
	}
	if mont {
		rq.MForm(pt.Value, pt.Value)
	}
	pt.IsNTT = ntt
	pt.IsMontgomery = mont
	return pt
}

// ---------------------------------------------------------------------------------------------------------------
// RGSW geometry, reference row decryption, reference (work-around) encryption

type geom struct {
	levelQ, levelP int
	w              int
	rows           int   // RNS rows
	digits         []int // base-2^w digits per row
	np             int   // limbs per RNS row
}

func geometry(ct *rgsw.Ciphertext) geom {
	g := geom{levelQ: ct.LevelQ(), levelP: ct.LevelP(), w: ct.Value[0].BaseTwoDecomposition}
	g.rows = ct.Value[0].BaseRNSDecompositionVectorSize()
	g.digits = ct.Value[0].BaseTwoDecompositionVectorSize()
	g.np = g.levelP + 1
	if g.np < 1 {
		g.np = 1
	}
	return g
}

// block returns the Q limbs [lo,hi) covered by RNS row i.
func (g geom) block(i int) (int, int) {
	lo, hi := i*g.np, (i+1)*g.np
	if hi > g.levelQ+1 {
		hi = g.levelQ + 1
	}
	return lo, hi
}

// digitsCover reports whether the allocated base-2^w digits cover the bit length of every Q limb (otherwise the top
// bits of the decomposed coefficient are lost: finding reported by C04 for BaseTwoDecompositionVectorSize).
func digitsCover(params rlwe.Parameters, g geom) bool {
	if g.w == 0 || g.levelP > 0 {
		return true
	}
	for i := 0; i < g.rows; i++ {
		lo, hi := g.block(i)
		for u := lo; u < hi; u++ {
			if g.digits[i]*g.w < bits.Len64(params.Q()[u]) {
				return false
			}
		}
	}
	return true
}

// rowPhase returns b + a*s of one gadget row as centred integers modulo Q_levelQ * P_levelP.
func (e *env) rowPhase(row rlwe.VectorQP, levelQ, levelP int) []*big.Int {
	rqp := e.params.RingQP().AtLevel(levelQ, levelP)
	tmp := rqp.NewPoly()
	skv := e.sk.Value
	if levelP < 0 {
		tmp = ringqp.Poly{Q: rqp.RingQ.NewPoly()}
		rqp.RingQ.MulCoeffsMontgomery(row[1].Q, skv.Q, tmp.Q)
		rqp.RingQ.Add(tmp.Q, row[0].Q, tmp.Q)
		rqp.RingQ.IMForm(tmp.Q, tmp.Q)
		rqp.RingQ.INTT(tmp.Q, tmp.Q)
	} else {
		rqp.MulCoeffsMontgomery(row[1], skv, tmp)
		rqp.Add(tmp, row[0], tmp)
		rqp.IMForm(tmp, tmp)
		rqp.INTT(tmp, tmp)
	}
	limbs := make([][]uint64, 0, levelQ+levelP+2)
	limbs = append(limbs, tmp.Q.Coeffs[:levelQ+1]...)
	if levelP >= 0 {
		limbs = append(limbs, tmp.P.Coeffs[:levelP+1]...)
	}
	mods := qps(e.params, levelQ, levelP)
	return h.VecCenter(h.CRT(limbs, mods), h.ProdU(mods))
}

// gadgetTarget returns the integers (mod QP) that row (i,j) of a gadget encryption of G must hide: congruent to
// P * 2^(w*j) * G modulo the Q limbs of RNS row i and to 0 modulo every other limb of Q and P.
func (e *env) gadgetTarget(G []*big.Int, gm geom, i, j int) []*big.Int {
	mods := qps(e.params, gm.levelQ, gm.levelP)
	factor := big.NewInt(1)
	if gm.levelP >= 0 {
		factor = h.ProdU(e.params.P()[:gm.levelP+1])
	}
	factor = new(big.Int).Mul(factor, new(big.Int).Lsh(big.NewInt(1), uint(gm.w*j)))
	lo, hi := gm.block(i)
	limbs := make([][]uint64, len(mods))
	tmp := new(big.Int)
	for u, q := range mods {
		limbs[u] = make([]uint64, len(G))
		if u < lo || u >= hi {
			continue
		}
		bq := h.BU(q)
		for k := range G {
			tmp.Mul(G[k], factor)
			limbs[u][k] = h.Mod(tmp, bq).Uint64()
		}
	}
	return h.CRT(limbs, mods)
}

// checkRGSW decrypts every gadget row of ct and returns the largest distance to the relation "Value[k] row (i,j) hides
// P*w_ij*g*s^k" (k = 0,1), together with the place where it occurs.
func (e *env) checkRGSW(ct *rgsw.Ciphertext, g []*big.Int) (worst *big.Int, where string) {
	gm := geometry(ct)
	mods := qps(e.params, gm.levelQ, gm.levelP)
	QP := h.ProdU(mods)
	gs := h.NegacyclicMul(g, e.s)
	worst = new(big.Int)
	for k := 0; k < 2; k++ {
		G := g
		if k == 1 {
			G = gs
		}
		for i := 0; i < gm.rows; i++ {
			for j := 0; j < gm.digits[i]; j++ {
				ph := e.rowPhase(ct.Value[k].Value[i][j], gm.levelQ, gm.levelP)
				tg := e.gadgetTarget(G, gm, i, j)
				d := h.InfNorm(h.VecCenter(h.VecSub(ph, tg), QP))
				if d.Cmp(worst) > 0 {
					worst = d
					where = fmt.Sprintf("Value[%d] row(%d,%d)", k, i, j)
				}
			}
		}
	}
	return
}

// manualRGSW builds an RGSW encryption of g without auxiliary modulus from public rlwe primitives only: every row is a
// plain (non-Montgomery) secret-key encryption of zero switched to the Montgomery domain as a whole, then g times the
// gadget vector is added. It is what rgsw.Encryptor documents to produce and is used to keep testing the evaluator
// behind the listed encryptor defect.
func (e *env) manualRGSW(g []*big.Int, levelQ, w int) *rgsw.Ciphertext {
	ct := rgsw.NewCiphertext(e.params, levelQ, -1, w)
	enc := rlwe.NewEncryptor(e.params, e.sk)
	rq := e.params.RingQ().AtLevel(levelQ)
	for k := 0; k < 2; k++ {
		for i := range ct.Value[k].Value {
			for j := range ct.Value[k].Value[i] {
				row := ct.Value[k].Value[i][j]
				md := &rlwe.MetaData{}
				md.IsNTT = true
				c := &rlwe.Ciphertext{Element: rlwe.Element[ring.Poly]{MetaData: md, Value: []ring.Poly{row[0].Q, row[1].Q}}}
				if err := enc.EncryptZero(c); err != nil {
					panic(err)
				}
				rq.MForm(row[0].Q, row[0].Q)
				rq.MForm(row[1].Q, row[1].Q)
			}
		}
	}
	pt := e.rlwePlaintext(g, levelQ, true, true)
	buff := rq.NewPoly()
	if err := rlwe.AddPolyTimesGadgetVectorToGadgetCiphertext(pt.Value, []rlwe.GadgetCiphertext{ct.Value[0], ct.Value[1]}, *e.params.RingQP(), buff); err != nil {
		panic(err)
	}
	return ct
}

// encErrBound is the hard bound on |b + a*s| of one freshly encrypted gadget row.
func (e *env) encErrBound(pk bool, rgswLevelP int) float64 {
	B := e.spec.Xe.AbsBound()
	if !pk {
		return B
	}
	Bs := e.spec.Xs.AbsBound()
	n := float64(e.n)
	// u*e_pk + e0 + e1*s with u ~ Xs
	E := n*Bs*B + B + B*e.sL1
	if rgswLevelP < 0 && e.params.PCount() > 0 {
		// sampled in Q*p0 then divided by p0 (rlwe pk encryptor for an Element[ring.Poly]): rounding of both components
		E = E/float64(e.params.P()[0]) + 2*(1+e.sL1)
	}
	return E
}

// encryptRGSW encrypts g with rgsw.Encryptor and verifies every row. When the rows are wrong in the input class of the
// listed encryptor defect, it falls back to manualRGSW so that the caller can go on.
func (e *env) encryptRGSW(rec *h.Rec, g []*big.Int, pt *rlwe.Plaintext, levelQ, levelP, w int, pk bool) (*rgsw.Ciphertext, bool, error) {
	var key rlwe.EncryptionKey = e.sk
	route := "sk"
	if pk {
		key = rlwe.NewKeyGenerator(e.params).GenPublicKeyNew(e.sk)
		route = "pk"
	}
	enc := rgsw.NewEncryptor(e.params, key)
	// a used encryptor: its internal buffer holds the previous plaintext
	if pt != nil {
		warm := e.rlwePlaintext(GSpec{Kind: "const", A: 3}.ints(e.n), levelQ, false, false)
		if err := enc.Encrypt(warm, rgsw.NewCiphertext(e.params, levelQ, levelP, w)); err != nil {
			return nil, false, h.Failf("C20:rgsw.Encrypt:"+route+":error", "Encrypt returned %v", err)
		}
	}
	ct := rgsw.NewCiphertext(e.params, levelQ, levelP, w)
	var snap *rlwe.Plaintext
	if pt != nil {
		snap = pt.CopyNew()
	}
	if err := enc.Encrypt(pt, ct); err != nil {
		return nil, false, h.Failf("C20:rgsw.Encrypt:"+route+":error", "Encrypt returned %v", err)
	}
	E := e.encErrBound(pk, levelP)
	worst, where := e.checkRGSW(ct, g)
	clobbered := pt != nil && !pt.Value.Equal(&snap.Value)
	if clobbered || (pt != nil && pt.IsNTT && pt.IsMontgomery && bigF(worst) > E) {
		msg := fmt.Sprintf("rgsw.Encryptor.Encrypt(%s) with a plaintext flagged IsNTT and IsMontgomery: plaintext modified=%v, %s at distance 2^%.1f from P*w_ij*g*s^k (bound %.0f)",
			route, clobbered, where, math.Log2(bigF(worst)+1), E)
		if !(pt.IsNTT && pt.IsMontgomery) {
			return nil, false, h.Failf("C20:rgsw.Encrypt:"+route+":plaintext-modified", "%s", msg)
		}
		if !rec.Known(keyPtClobbered, msg) {
			return nil, false, h.Failf(keyPtClobbered, "%s", msg)
		}
		rec.Class("known=rgsw-encrypt-pt-ntt-mont")
		// go on with the same polynomial handed over in the NTT, non-Montgomery representation
		pt = e.rlwePlaintext(g, levelQ, true, false)
		ct = rgsw.NewCiphertext(e.params, levelQ, levelP, w)
		if err := enc.Encrypt(pt, ct); err != nil {
			return nil, false, h.Failf("C20:rgsw.Encrypt:"+route+":error", "Encrypt returned %v", err)
		}
		worst, where = e.checkRGSW(ct, g)
	}
	if bigF(worst) <= E {
		return ct, false, nil
	}
	msg := fmt.Sprintf("fresh RGSW encryption (%s, levelQ=%d levelP=%d w=%d): %s is at distance 2^%.1f from P*w_ij*g*s^k, bound %.0f (QP=2^%.1f)",
		route, levelQ, levelP, w, where, math.Log2(bigF(worst)), E, math.Log2(bigF(h.ProdU(qps(e.params, levelQ, levelP)))))
	defectClass := levelP < 0 && (!pk || e.params.PCount() == 0)
	if defectClass && rec.Known(keyEncNoP, msg) {
		rec.Class("known=rgsw-encrypt-noP")
		m := e.manualRGSW(g, levelQ, w)
		if worst, where := e.checkRGSW(m, g); bigF(worst) > e.spec.Xe.AbsBound() {
			return nil, true, h.Failf("C20:harness:manual-rgsw", "reference RGSW construction is itself wrong at %s (2^%.1f)", where, math.Log2(bigF(worst)))
		}
		return m, true, nil
	}
	if defectClass {
		return nil, false, h.Failf(keyEncNoP, "%s", msg)
	}
	return nil, false, h.Failf("C20:rgsw.Encrypt:"+route+":row-phase", "%s", msg)
}

// ---------------------------------------------------------------------------------------------------------------
// noise of one external product / gadget product

// prodNoise returns a bound on the infinity norm of sum_k sum_rows d_row * e_row (before the division by P):
// the minimum of the worst case and of an Azuma-Hoeffding envelope (martingale with increments bounded by D*E,
// failure probability < 2^-50 per coefficient). comps is the number of decomposed polynomials (2 for an external
// product, 1 for a key switch); it also returns sum D and sum D^2 for accumulation over several products.
type noiseAcc struct {
	hard float64 // sum over terms of D*E
	sq   float64 // sum over terms of (D*E)^2
}

func (a *noiseAcc) add(b noiseAcc, times float64) { a.hard += b.hard * times; a.sq += b.sq * times }

func (a noiseAcc) bound() float64 {
	env := math.Sqrt(2 * 36 * a.sq) // ln(2^51) = 35.35
	return math.Min(a.hard, env)
}

func digitBounds(params rlwe.Parameters, gm geom) []float64 {
	var out []float64
	for i := 0; i < gm.rows; i++ {
		lo, hi := gm.block(i)
		if gm.levelP >= 1 {
			d := float64(gm.np + 1)
			for u := lo; u < hi; u++ {
				d *= float64(params.Q()[u])
			}
			out = append(out, d)
			continue
		}
		for j := 0; j < gm.digits[i]; j++ {
			if gm.w > 0 {
				out = append(out, math.Exp2(float64(gm.w)))
			} else {
				out = append(out, float64(params.Q()[lo]))
			}
		}
	}
	return out
}

func productNoise(params rlwe.Parameters, gm geom, E float64, comps int) noiseAcc {
	var a noiseAcc
	n := float64(params.N())
	for _, d := range digitBounds(params, gm) {
		a.hard += float64(comps) * n * d * E
		a.sq += float64(comps) * n * d * E * d * E
	}
	return a
}

// afterModDown turns the accumulated pre-division noise into the output bound: division by P and rounding of both
// components (each off by at most np+1/2 because the basis extension is approximate).
func afterModDown(params rlwe.Parameters, gm geom, pre float64, sL1 float64, nops float64) float64 {
	if gm.levelP < 0 {
		return pre
	}
	P := 1.0
	for _, p := range params.P()[:gm.levelP+1] {
		P *= float64(p)
	}
	return pre/P + nops*float64(gm.np+1)*(1+sL1)
}
