package c20

import (
	"fmt"
	"math"
	"math/big"
	"math/bits"
	"sort"
	"testing"

	"verif/internal/h"

	"github.com/tuneinsight/lattigo/v6/core/rgsw"
	"github.com/tuneinsight/lattigo/v6/core/rgsw/blindrot"
	"github.com/tuneinsight/lattigo/v6/core/rlwe"
	"github.com/tuneinsight/lattigo/v6/ring"
	"github.com/tuneinsight/lattigo/v6/utils"
	"pgregory.net/rapid"
)

// ---------------------------------------------------------------------------------------------------------------
// functions and intervals

// FSpec is the function a test polynomial is built for.
type FSpec struct {
	Kind string `json:"kind"` // sign | identity | table
	K    int    `json:"k,omitempty"`
	Seed uint64 `json:"seed,omitempty"`
}

func genF(t *rapid.T) FSpec {
	f := FSpec{Kind: []string{"sign", "identity", "table", "table"}[rapid.IntRange(0, 3).Draw(t, "f_kind")]}
	if f.Kind == "table" {
		f.K = []int{2, 3, 8, 16, 64}[rapid.IntRange(0, 4).Draw(t, "f_k")]
		f.Seed = rapid.Uint64().Draw(t, "f_seed")
	}
	return f
}

// genInterval draws a < b on a quarter-integer grid.
func genInterval(t *rapid.T) (a, b float64) {
	switch rapid.IntRange(0, 3).Draw(t, "ivk") {
	case 0:
		return -1, 1
	case 1:
		return 0, float64(rapid.IntRange(1, 8).Draw(t, "ivb"))
	}
	a = float64(rapid.IntRange(-32, 16).Draw(t, "iva")) / 4
	b = a + float64(rapid.IntRange(1, 64).Draw(t, "ivw"))/4
	return
}

// fn returns the function and the largest absolute value it takes on [a,b].
func (f FSpec) fn(a, b float64) (func(float64) float64, float64) {
	switch f.Kind {
	case "sign":
		return func(x float64) float64 {
			if x > 0 {
				return 1
			} else if x == 0 {
				return 0
			}
			return -1
		}, 1
	case "identity":
		return func(x float64) float64 { return x }, math.Max(math.Abs(a), math.Abs(b))
	default:
		rng := h.NewSplitMix(f.Seed)
		tab := make([]float64, f.K)
		for i := range tab {
			tab[i] = float64(int(rng.Intn(129))-64) / 64
		}
		return func(x float64) float64 {
			k := int(math.Floor((x - a) / (b - a) * float64(f.K)))
			if k < 0 {
				k = 0
			}
			if k >= f.K {
				k = f.K - 1
			}
			return tab[k]
		}, 1
	}
}

// lookup is the reference semantics of a test polynomial for g on [a,b] in degree n: a rotation by p grid steps,
// p in [-n/2, n/2), selects g at the point of normalised abscissa 2p/n, i.e. x = ((2p/n)(b-a) + b + a)/2; the ring is
// negacyclic, so p and p+n select opposite values. It returns scale*g(x) as a float (callers allow the rounding).
func lookup(g func(float64) float64, scale, a, b float64, n, p int) float64 {
	p = ((p % (2 * n)) + 2*n) % (2 * n) // [0, 2n)
	sign := 1.0
	if p >= n+n/2 {
		p -= 2 * n // [-n/2, 0)
	} else if p >= n/2 {
		p -= n // [-n/2, n/2)
		sign = -1
	}
	y := 2 * float64(p) / float64(n)
	x := (y*(b-a) + b + a) / 2
	return sign * scale * g(x)
}

// ---------------------------------------------------------------------------------------------------------------
// TestPropTestPoly: InitTestPolynomial encodes exactly the look-up table of the function (no encryption involved)

type TPCase struct {
	LogN  int      `json:"logN"`
	Q     []uint64 `json:"Q"`
	Level int      `json:"level"`
	F     FSpec    `json:"f"`
	A     float64  `json:"a"`
	B     float64  `json:"b"`
	LogS  int      `json:"logScale"` // scale = 2^LogS / fmax, or Q0/4/fmax when 0
}

func genTP(t *rapid.T) TPCase {
	var c TPCase
	c.LogN = rapid.IntRange(4, 10).Draw(t, "logN")
	m := uint64(2) << c.LogN
	nq := rapid.IntRange(1, 4).Draw(t, "nQ")
	c.Q = h.GenPrimes(t, h.GenSizes(t, nq, h.MinPrimeBits(m)+2, 60, "q"), m, nil, "q")
	c.Level = rapid.IntRange(0, nq-1).Draw(t, "level")
	c.F = genF(t)
	c.A, c.B = genInterval(t)
	if rapid.Bool().Draw(t, "scalek") {
		c.LogS = rapid.IntRange(1, 70).Draw(t, "logScale")
	}
	return c
}

func runTP(c TPCase, rec *h.Rec) error {
	r, err := ring.NewRing(1<<c.LogN, c.Q)
	if err != nil {
		return h.Failf("C20:harness:ring", "%v", err)
	}
	r = r.AtLevel(c.Level)
	n := r.N()
	g, fmax := c.F.fn(c.A, c.B)
	scale := float64(c.Q[0]) / 4 / fmax
	if c.LogS > 0 {
		scale = math.Exp2(float64(c.LogS)) / fmax
	}
	F := blindrot.InitTestPolynomial(g, rlwe.NewScale(scale), r, c.A, c.B)
	if F.Level() != c.Level {
		return h.Failf("C20:InitTestPolynomial:level", "test polynomial has level %d, ring has level %d", F.Level(), c.Level)
	}
	r.INTT(F, F)
	for j := 0; j <= c.Level; j++ {
		q := c.Q[j]
		bq := h.BU(q)
		for p := -n / 2; p < n/2; p++ {
			// constant coefficient of F * X^p
			var have uint64
			if p <= 0 {
				have = F.Coeffs[j][-p]
			} else {
				have = (q - F.Coeffs[j][n-p]) % q
			}
			want := lookup(g, scale, c.A, c.B, n, p)
			wi, _ := new(big.Float).SetFloat64(want).Int(nil)
			d := h.Center(new(big.Int).Sub(h.BU(have), wi), bq)
			tol := 1 + math.Abs(want)*math.Exp2(-50)
			if math.Abs(bigF(d)) > tol {
				where := "interior"
				switch {
				case p == -n/2:
					where = "left-end"
				case p == n/2-1:
					where = "right-end"
				case p == 0:
					where = "zero"
				}
				return h.Failf("C20:InitTestPolynomial:"+c.F.Kind+":"+where+":wrong-table-entry",
					"N=%d q=%d [a,b]=[%g,%g] scale=%g: rotation by p=%d selects %d, expected scale*f(x)=%.3f (x=%g)", n, q, c.A, c.B, scale, p, have, want,
					((2*float64(p)/float64(n))*(c.B-c.A)+c.B+c.A)/2)
			}
		}
	}
	// the same table entry modulo the whole Q: the limbs must be residues of ONE integer
	if c.Level >= 1 {
		mods := c.Q[:c.Level+1]
		Q := h.ProdU(mods)
		full := h.CRT(F.Coeffs[:c.Level+1], mods)
		for p := -n / 2; p < n/2; p++ {
			var have *big.Int
			if p <= 0 {
				have = new(big.Int).Set(full[-p])
			} else {
				have = new(big.Int).Neg(full[n-p])
			}
			want := lookup(g, scale, c.A, c.B, n, p)
			wi, _ := new(big.Float).SetFloat64(want).Int(nil)
			d := h.Center(have.Sub(have, wi), Q)
			if tol := 1 + math.Abs(want)*math.Exp2(-50); math.Abs(bigF(d)) > tol {
				return h.Failf("C20:InitTestPolynomial:"+c.F.Kind+":multi-prime:limbs-encode-different-integers",
					"N=%d Q=%v [a,b]=[%g,%g] scale=%g: rotation by p=%d selects an integer at distance 2^%.1f from scale*f(x)=%.3f modulo the whole Q", n, mods, c.A, c.B, scale, p, math.Log2(math.Abs(bigF(d))+1), want)
			}
		}
	}
	rec.Classf("f=%s", c.F.Kind)
	rec.Classf("N=%d", n)
	rec.Classf("level=%d/%d", c.Level, len(c.Q)-1)
	if c.Level >= 1 {
		// classes that distinguish a table encoded modulo every prime from one replicated from the first prime
		if scale*fmax >= float64(c.Q[0]) {
			rec.Class("multi-prime:scale*fmax>=q0")
		} else {
			rec.Class("multi-prime:scale*fmax<q0")
		}
	}
	sym := "asym"
	if c.A == -c.B {
		sym = "sym"
	}
	rec.Classf("interval=%s", sym)
	rec.NonTrivial(fmt.Sprintf("tp|%s|k%d|N%d|nQ%d|l%d|%s|scale%v", c.F.Kind, c.F.K, n, len(c.Q), c.Level, sym, c.LogS > 0))
	return nil
}

var propTP = h.NewProp("TestPropTestPolynomial", h.Budget{Quick: 300, Thorough: 3000}, genTP, runTP)

func TestPropTestPolynomial(t *testing.T) { propTP.Check(t) }

// ---------------------------------------------------------------------------------------------------------------
// TestPropBlindRotation

// Slot is one requested look-up: coefficient index of the LWE-side ciphertext and grid point p (x = a + (p+N/2)(b-a)/N).
type Slot struct {
	Index int `json:"index"`
	P     int `json:"p"`
	Fn    int `json:"fn,omitempty"`
}

// BRCall is one Evaluate call.
type BRCall struct {
	Slots []Slot `json:"slots"`
	Fill  uint64 `json:"fill"`
}

type BRCase struct {
	LWE h.RLWESpec `json:"lwe"`
	// level of the LWE-side ciphertext (-1 or absent in old replays: maximum)
	LWELevel int        `json:"lweLevel"`
	BR       h.RLWESpec `json:"br"`
	W        int        `json:"w"`
	// levels of Q and P the blind-rotation keys are generated at, counted down from the maximum (0: default)
	KeyDropQ int     `json:"keyDropQ,omitempty"`
	KeyDropP int     `json:"keyDropP,omitempty"`
	F        FSpec   `json:"f"`
	A        float64 `json:"a"`
	B        float64 `json:"b"`
	F2       *FSpec  `json:"f2,omitempty"` // second function, for the slots with fn = 1
	// Calls are evaluated one after the other with the SAME evaluator and key set, each on its own ciphertext
	Calls []BRCall `json:"calls,omitempty"`
	Slots []Slot   `json:"slots,omitempty"` // single call (replays written before Calls existed)
	Fill  uint64   `json:"fill,omitempty"`  // seed of the values in the slots that are not requested
	Seed  uint64   `json:"seed"`
}

func (c BRCase) RandSeed() uint64 { return c.Seed }

func genBR(t *rapid.T) BRCase {
	var c BRCase
	maxLWE, maxBR := 7, 9
	if h.Thorough() {
		maxLWE, maxBR = 9, 10
	}
	// LWE side: one small modulus
	c.LWE.LogN = rapid.IntRange(4, maxLWE).Draw(t, "lweLogN")
	lo := c.LWE.LogN
	if lo < 5 {
		lo = 5
	}
	c.BR.LogN = rapid.IntRange(lo, maxBR).Draw(t, "brLogN")
	if rapid.IntRange(0, 3).Draw(t, "brsmall") > 0 && c.BR.LogN > lo+2 {
		c.BR.LogN = lo + rapid.IntRange(0, 2).Draw(t, "brLogN2")
	}
	c.LWE.NTT = rapid.Bool().Draw(t, "lweNTT")
	c.BR.NTT = rapid.IntRange(0, 3).Draw(t, "brNTT") > 0
	nLWE := c.LWE.N()
	lweBits := rapid.IntRange(c.BR.LogN+3, 30).Draw(t, "lweQbits")
	if rapid.IntRange(0, 3).Draw(t, "lweQbig") == 0 {
		lweBits = rapid.IntRange(31, 58).Draw(t, "lweQbits2")
	}
	c.LWE.Q = h.GenPrimes(t, []int{lweBits}, c.LWE.NthRoot(), nil, "lweq")
	hs := []int{1, 2, 3, 4, 8, nLWE / 2, nLWE}
	switch rapid.IntRange(0, 6).Draw(t, "lweXs") {
	case 0:
		c.LWE.Xs = h.DefaultXs
	case 6:
		// non-ternary secret: GenEvaluationKeyNew encrypts X^{s_i} for any small s_i
		c.LWE.Xs = h.DistSpec{Kind: "gauss", Sigma: []float64{1, 3.2}[rapid.IntRange(0, 1).Draw(t, "lweGs")], Bound: 0}
		c.LWE.Xs.Bound = 6 * c.LWE.Xs.Sigma
	default:
		c.LWE.Xs = h.DistSpec{Kind: "ternaryH", H: hs[rapid.IntRange(0, len(hs)-1).Draw(t, "lweH")]}
	}
	c.LWE.Xe = h.GenDist(t, false, nLWE, "lweXe")

	// blind-rotation side
	m := c.BR.NthRoot()
	used := map[uint64]bool{}
	nP := rapid.IntRange(0, 2).Draw(t, "brNP")
	var qsz []int
	switch rapid.IntRange(0, 4).Draw(t, "brShape") {
	case 0: // single modulus below 2^29 (fast path when there is no P)
		qsz = []int{rapid.IntRange(24, 28).Draw(t, "brq32")}
	case 1:
		qsz = []int{rapid.IntRange(36, 58).Draw(t, "brq1")}
	case 4:
		qsz = []int{rapid.IntRange(25, 58).Draw(t, "brq3a"), rapid.IntRange(25, 58).Draw(t, "brq3b"), rapid.IntRange(25, 58).Draw(t, "brq3c")}
	default:
		qsz = []int{rapid.IntRange(30, 58).Draw(t, "brq2a"), rapid.IntRange(30, 58).Draw(t, "brq2b")}
	}
	c.BR.Q = h.GenPrimes(t, qsz, m, used, "brq")
	if nP > 0 {
		maxq := 0
		for _, q := range c.BR.Q {
			if b := bits.Len64(q); b > maxq {
				maxq = b
			}
		}
		psz := make([]int, nP)
		for i := range psz {
			psz[i] = rapid.IntRange(maxq, 61).Draw(t, fmt.Sprintf("brp%d", i))
		}
		c.BR.P = h.GenPrimes(t, psz, m, used, "brp")
	}
	if len(c.BR.Q) >= 2 && rapid.IntRange(0, 2).Draw(t, "lwe2") == 0 {
		// two-prime LWE side (the accumulator of the evaluator has room for it), at level 1 or 0
		c.LWE.Q = h.GenPrimes(t, []int{lweBits, rapid.IntRange(c.LWE.LogN+3, 40).Draw(t, "lweQ2bits")}, c.LWE.NthRoot(), nil, "lweq2")
		c.LWELevel = rapid.IntRange(0, 1).Draw(t, "lweLevel")
	}
	c.BR.Xs = h.DefaultXs
	if rapid.IntRange(0, 3).Draw(t, "brXs") == 0 {
		c.BR.Xs = h.DistSpec{Kind: "ternaryH", H: []int{4, c.BR.N() / 2}[rapid.IntRange(0, 1).Draw(t, "brH")]}
	}
	c.BR.Xe = h.GenDist(t, false, c.BR.N(), "brXe")
	if len(c.BR.Q) >= 2 && rapid.IntRange(0, 3).Draw(t, "keyDropQk") == 0 {
		c.KeyDropQ = rapid.IntRange(1, len(c.BR.Q)-1).Draw(t, "keyDropQ")
	}
	if nP > 0 && rapid.IntRange(0, 3).Draw(t, "keyDropPk") == 0 {
		c.KeyDropP = rapid.IntRange(1, nP).Draw(t, "keyDropP")
	}
	if nP-c.KeyDropP == 0 || rapid.Bool().Draw(t, "wk") {
		c.W = rapid.IntRange(4, 12).Draw(t, "w")
		// keep to decompositions whose digits cover the moduli (the short-digit finding is asserted by the product check)
		for !wCovers(c.BR.Q, c.W) {
			c.W++
		}
	}

	c.F = genF(t)
	c.A, c.B = genInterval(t)
	if rapid.IntRange(0, 2).Draw(t, "f2k") == 0 {
		f2 := genF(t)
		c.F2 = &f2
	}
	ncalls := []int{1, 1, 2, 2, 3}[rapid.IntRange(0, 4).Draw(t, "ncalls")]
	for k := 0; k < ncalls; k++ {
		c.Calls = append(c.Calls, genCall(t, &c, fmt.Sprintf("c%d", k)))
	}
	c.Seed = rapid.Uint64().Draw(t, "seed")
	return c
}

// genCall draws one Evaluate call: a slot index subset (contiguous prefix, contiguous run, strided, or scattered; first
// and last index favoured) and a grid point for every slot.
func genCall(t *rapid.T, c *BRCase, l string) BRCall {
	nLWE, nBR := c.LWE.N(), c.BR.N()
	var idx []int
	ns := rapid.IntRange(1, 5).Draw(t, l+"_n")
	switch rapid.IntRange(0, 4).Draw(t, l+"_shape") {
	case 0: // contiguous prefix
		for i := 0; i < ns; i++ {
			idx = append(idx, i)
		}
	case 1: // contiguous run somewhere
		st := rapid.IntRange(0, nLWE-ns).Draw(t, l+"_start")
		for i := 0; i < ns; i++ {
			idx = append(idx, st+i)
		}
	case 2: // strided
		gap := rapid.IntRange(2, nLWE/ns).Draw(t, l+"_gap")
		st := rapid.IntRange(0, nLWE-1-(ns-1)*gap).Draw(t, l+"_start")
		for i := 0; i < ns; i++ {
			idx = append(idx, st+i*gap)
		}
	default: // scattered
		seen := map[int]bool{}
		for i := 0; i < ns; i++ {
			var x int
			if rapid.IntRange(0, 3).Draw(t, fmt.Sprintf("%s_i%dk", l, i)) == 0 {
				x = []int{0, nLWE - 1}[rapid.IntRange(0, 1).Draw(t, fmt.Sprintf("%s_i%db", l, i))]
			} else {
				x = rapid.IntRange(0, nLWE-1).Draw(t, fmt.Sprintf("%s_i%d", l, i))
			}
			if !seen[x] {
				seen[x] = true
				idx = append(idx, x)
			}
		}
	}
	call := BRCall{Fill: rapid.Uint64().Draw(t, l+"_fill")}
	for i, x := range idx {
		s := Slot{Index: x}
		sl := fmt.Sprintf("%s_s%d", l, i)
		if c.F2 != nil {
			s.Fn = rapid.IntRange(0, 1).Draw(t, sl+"_fn")
		}
		switch rapid.IntRange(0, 6).Draw(t, sl+"_pk") {
		case 0:
			s.P = -nBR / 2 // x = a
		case 1:
			s.P = nBR/2 - 1 // last grid point below b
		case 2:
			s.P = rapid.IntRange(-2, 2).Draw(t, sl+"_pz") // around the middle of the interval
		case 3:
			// around the sign change of x when the interval contains 0
			z := int(math.Round((-c.A-c.B)/(c.B-c.A)*float64(nBR)/2)) + rapid.IntRange(-2, 2).Draw(t, sl+"_p0")
			if z < -nBR/2 {
				z = -nBR / 2
			}
			if z > nBR/2-1 {
				z = nBR/2 - 1
			}
			s.P = z
		case 4:
			if rapid.IntRange(0, 1).Draw(t, sl+"_pb") == 0 {
				s.P = nBR / 2 // x = b itself: the grid is half-open, the rotation wraps
			} else {
				s.P = rapid.IntRange(-nBR/2, nBR/2-1).Draw(t, sl+"_p")
			}
		default:
			s.P = rapid.IntRange(-nBR/2, nBR/2-1).Draw(t, sl+"_p")
		}
		call.Slots = append(call.Slots, s)
	}
	return call
}

func wCovers(Q []uint64, w int) bool {
	for _, q := range Q {
		logq := int(math.Round(math.Log2(float64(q))))
		if ((logq+w-1)/w)*w < bits.Len64(q) {
			return false
		}
	}
	return true
}

// recording key set ---------------------------------------------------------------------------------------------

type recKeys struct {
	inner   blindrot.MemBlindRotationEvaluationKeySet
	brk     map[int]int
	gal     map[uint64]int
	outside []string
}

func (r *recKeys) GetBlindRotationKey(i int) (*rgsw.Ciphertext, error) {
	r.brk[i]++
	if i < 0 || i >= len(r.inner.BlindRotationKeys) {
		r.outside = append(r.outside, fmt.Sprintf("rgsw[%d]", i))
		return nil, fmt.Errorf("blind rotation key %d requested, %d generated", i, len(r.inner.BlindRotationKeys))
	}
	return r.inner.BlindRotationKeys[i], nil
}

func (r *recKeys) GetEvaluationKeySet() (rlwe.EvaluationKeySet, error) {
	in, err := r.inner.GetEvaluationKeySet()
	if err != nil {
		return nil, err
	}
	return &recEvk{in: in, r: r}, nil
}

type recEvk struct {
	in rlwe.EvaluationKeySet
	r  *recKeys
}

func (e *recEvk) GetGaloisKey(galEl uint64) (*rlwe.GaloisKey, error) {
	e.r.gal[galEl]++
	k, err := e.in.GetGaloisKey(galEl)
	if err != nil {
		e.r.outside = append(e.r.outside, fmt.Sprintf("galois[%d]", galEl))
	}
	return k, err
}
func (e *recEvk) GetGaloisKeysList() []uint64 { return e.in.GetGaloisKeysList() }
func (e *recEvk) GetRelinearizationKey() (*rlwe.RelinearizationKey, error) {
	e.r.outside = append(e.r.outside, "relinearization-key")
	return e.in.GetRelinearizationKey()
}
func (e *recEvk) ShallowCopy() rlwe.EvaluationKeySet { return &recEvk{in: e.in.ShallowCopy(), r: e.r} }

// ---------------------------------------------------------------------------------------------------------------

func hClass(l1 float64, n int) string {
	switch {
	case l1 <= 4:
		return "H<=4"
	case l1 <= 16:
		return "H<=16"
	case l1 < float64(n)/3:
		return "H<N/3"
	default:
		return "H>=N/3"
	}
}

func runBR(c BRCase, rec *h.Rec) error {
	lwe, err := newEnv(c.LWE)
	if err != nil {
		return h.Failf("C20:harness:params", "LWE parameters rejected: %v", err)
	}
	br, err := newEnv(c.BR)
	if err != nil {
		return h.Failf("C20:harness:params", "BR parameters rejected: %v", err)
	}
	calls := c.Calls
	if len(calls) == 0 {
		calls = []BRCall{{Slots: c.Slots, Fill: c.Fill}}
	}
	nL, nB := lwe.n, br.n
	lvlL := c.LWELevel
	if lvlL < 0 || lvlL >= len(c.LWE.Q) {
		lvlL = len(c.LWE.Q) - 1
	}
	QL := h.ProdU(c.LWE.Q[:lvlL+1])
	QLf := bigF(QL)
	keyLQ := len(c.BR.Q) - 1 - c.KeyDropQ
	if keyLQ < 0 {
		keyLQ = 0
	}
	keyLP := len(c.BR.P) - 1 - c.KeyDropP
	if keyLP < -1 {
		keyLP = -1
	}
	QB := h.ProdU(c.BR.Q[:keyLQ+1])
	QBf := bigF(QB)
	twoN := 2 * nB

	// test polynomials: function 0 for every slot, function 1 (when present) for the slots that ask for it
	type tp struct {
		spec  FSpec
		g     func(float64) float64
		fmax  float64
		scale float64
		F     ring.Poly
		FIn   ring.Poly
	}
	specs := []FSpec{c.F}
	if c.F2 != nil {
		specs = append(specs, *c.F2)
	}
	tps := make([]*tp, len(specs))
	minAmp := math.Inf(1)
	for i, sp := range specs {
		t := &tp{spec: sp}
		t.g, t.fmax = sp.fn(c.A, c.B)
		t.scale = QBf / 4 / t.fmax
		t.F = blindrot.InitTestPolynomial(t.g, rlwe.NewScale(t.scale), br.params.RingQ().AtLevel(keyLQ), c.A, c.B)
		t.FIn = *t.F.CopyNew()
		tps[i] = t
		minAmp = math.Min(minAmp, t.scale*t.fmax)
	}

	// keys
	var evkParams []rlwe.EvaluationKeyParameters
	if c.W > 0 || c.KeyDropQ > 0 || c.KeyDropP > 0 {
		ep := rlwe.EvaluationKeyParameters{}
		if c.W > 0 {
			ep.BaseTwoDecomposition = utils.Pointy(c.W)
		}
		if c.KeyDropQ > 0 {
			ep.LevelQ = utils.Pointy(keyLQ)
		}
		if c.KeyDropP > 0 {
			ep.LevelP = utils.Pointy(keyLP)
		}
		evkParams = append(evkParams, ep)
	}
	skLIn, skBIn := lwe.sk.CopyNew(), br.sk.CopyNew()
	brk := blindrot.GenEvaluationKeyNew(br.params, br.sk, lwe.params, lwe.sk, evkParams...)
	if !lwe.sk.Equal(skLIn) || !br.sk.Equal(skBIn) {
		return h.Failf("C20:blindrot.GenEvaluationKeyNew:secret-key-modified", "GenEvaluationKeyNew modified a secret key")
	}

	// exactly one RGSW key per LWE secret coefficient, each an RGSW encryption of X^{s_i}; Galois keys g^1..g^W and -g
	if len(brk.BlindRotationKeys) != nL {
		return h.Failf("C20:blindrot.GenEvaluationKeyNew:rgsw-key-count", "%d RGSW keys for an LWE secret with %d coefficients", len(brk.BlindRotationKeys), nL)
	}
	E := br.spec.Xe.AbsBound()
	levelP := keyLP
	manual := false
	// content of every key for small secrets, of 24 drawn keys (always the first and the last) beyond 64 coefficients
	checkContent := map[int]bool{0: true, nL - 1: true}
	pick := h.NewSplitMix(c.Seed ^ 0x6b65)
	for len(checkContent) < 24 && len(checkContent) < nL {
		checkContent[pick.Intn(nL)] = true
	}
	for i, k := range brk.BlindRotationKeys {
		if k.LevelQ() != keyLQ || k.LevelP() != levelP || k.Value[0].BaseTwoDecomposition != c.W {
			return h.Failf("C20:blindrot.GenEvaluationKeyNew:rgsw-key-shape", "key %d has levelQ=%d levelP=%d w=%d", i, k.LevelQ(), k.LevelP(), k.Value[0].BaseTwoDecomposition)
		}
		if nL > 64 && !checkContent[i] {
			continue
		}
		si := int(lwe.s[i].Int64())
		worst, where := br.checkRGSW(k, GSpec{Kind: "mono", A: si}.ints(nB))
		if bigF(worst) > E {
			msg := fmt.Sprintf("RGSW key %d is not an encryption of X^%d: %s at distance 2^%.1f (bound %.0f), levelP=%d w=%d", i, si, where, math.Log2(bigF(worst)), E, levelP, c.W)
			if levelP < 0 {
				if !rec.Known(keyBRKNoP, msg) {
					return h.Failf(keyBRKNoP, "%s", msg)
				}
				rec.Class("known=brk-noP")
				manual = true
				break
			}
			return h.Failf("C20:blindrot.GenEvaluationKeyNew:rgsw-key-content", "%s", msg)
		}
	}
	if manual {
		// same Galois keys, RGSW keys rebuilt from public rlwe primitives, to keep testing Evaluate behind the finding
		for i := range brk.BlindRotationKeys {
			brk.BlindRotationKeys[i] = br.manualRGSW(GSpec{Kind: "mono", A: int(lwe.s[i].Int64())}.ints(nB), keyLQ, c.W)
		}
	}
	W := len(brk.AutomorphismKeys) - 1
	wantGal := map[uint64]bool{uint64(twoN) - ring.GaloisGen: true}
	for v := 1; v <= W; v++ {
		wantGal[br.params.GaloisElement(v)] = true
	}
	haveGal := map[uint64]bool{}
	for _, gk := range brk.AutomorphismKeys {
		if haveGal[gk.GaloisElement] || !wantGal[gk.GaloisElement] {
			return h.Failf("C20:blindrot.GenEvaluationKeyNew:galois-key-set", "Galois key for %d is duplicated or not of the form 5^v (1<=v<=%d) / -5 (mod %d)", gk.GaloisElement, W, twoN)
		}
		haveGal[gk.GaloisElement] = true
	}
	// snapshot of the key material (first / last RGSW key, every Galois key)
	snapRGSW := []*rgsw.Ciphertext{copyRGSW(brk.BlindRotationKeys[0]), copyRGSW(brk.BlindRotationKeys[nL-1])}
	snapGal := make([]*rlwe.GadgetCiphertext, len(brk.AutomorphismKeys))
	for i, gk := range brk.AutomorphismKeys {
		snapGal[i] = gk.GadgetCiphertext.CopyNew()
	}

	// noise of one blind rotation
	gm := geometry(brk.BlindRotationKeys[0])
	var acc noiseAcc
	acc.add(productNoise(br.params, gm, E, 2), float64(nL))
	nAuto := float64(nL + 2*(nB/2/10+2) + 2)
	acc.add(productNoise(br.params, gm, E, 1), nAuto)
	noise := afterModDown(br.params, gm, acc.bound(), br.sL1, float64(nL)+nAuto)
	informative := noise < minAmp/16

	// ONE evaluator and ONE (recording) key set for all the calls of the case
	rk := &recKeys{inner: brk}
	eval := blindrot.NewEvaluator(br.params, lwe.params)
	rqL := lwe.params.RingQ().AtLevel(lvlL)
	slotClasses := map[string]bool{}
	exact, nslots := 0, 0
	allGalSeen := map[uint64]bool{}

	for ci, call := range calls {
		if len(call.Slots) == 0 {
			continue
		}
		// LWE-side ciphertext: coefficient i holds y_i * Q/4 with y = 2p/N_BR the normalised input
		rng := h.NewSplitMix(call.Fill)
		enc := make([]*big.Int, nL)
		for i := range enc {
			v := h.BU(rng.Uint64())
			v.Lsh(v, 64).Or(v, h.BU(rng.Uint64()))
			enc[i] = v.Mod(v, QL)
		}
		testPolys := map[int]*ring.Poly{}
		slotFn := map[int]*tp{}
		for _, s := range call.Slots {
			v := new(big.Int).Mul(big.NewInt(int64(s.P)), QL)
			enc[s.Index] = h.Mod(h.RoundDiv(v, big.NewInt(int64(twoN))), QL)
			t := tps[0]
			if s.Fn > 0 && len(tps) > 1 {
				t = tps[1]
			}
			testPolys[s.Index] = &t.F
			slotFn[s.Index] = t
		}
		ptL := rlwe.NewPlaintext(lwe.params, lvlL)
		setPoly(lwe.params, lvlL, enc, ptL.Value)
		if ptL.IsNTT {
			rqL.NTT(ptL.Value, ptL.Value)
		}
		ctL := rlwe.NewCiphertext(lwe.params, 1, lvlL)
		if err := rlwe.NewEncryptor(lwe.params, lwe.sk).Encrypt(ptL, ctL); err != nil {
			return h.Failf("C20:harness:encrypt", "%v", err)
		}
		ctLIn := ctL.CopyNew()
		decL := lwe.decryptBig(ctL)

		rk.brk, rk.gal, rk.outside = map[int]int{}, map[uint64]int{}, nil
		var res map[int]*rlwe.Ciphertext
		if keyLP < 0 && len(c.BR.P) > 0 {
			// keys without auxiliary modulus under parameters that have one: the key switch of every automorphism asks
			// Parameters.PiOverflowMargin(-1)
			var pmsg string
			func() {
				defer func() {
					if r := recover(); r != nil {
						pmsg = fmt.Sprint(r)
					}
				}()
				res, err = eval.Evaluate(ctL, testPolys, rk)
			}()
			if pmsg != "" {
				msg := fmt.Sprintf("Evaluate with keys at LevelP=-1 under parameters with %d auxiliary primes panics: %s", len(c.BR.P), pmsg)
				if rec.Known(keyLevelPNone, msg) {
					rec.Class("known=keyLevelP-1-panic")
					return nil
				}
				return h.Failf(keyLevelPNone, "%s", msg)
			}
		} else {
			res, err = eval.Evaluate(ctL, testPolys, rk)
		}
		if err != nil {
			return h.Failf("C20:blindrot.Evaluate:error", "call %d: Evaluate returned %v (lookups outside the key set: %v)", ci, err, rk.outside)
		}
		if len(rk.outside) > 0 {
			return h.Failf("C20:blindrot.Evaluate:key-outside-generated-set", "call %d requested %v", ci, rk.outside)
		}
		if !polysEqual(ctL, ctLIn) {
			return h.Failf("C20:blindrot.Evaluate:input-modified", "call %d: Evaluate modified its ciphertext", ci)
		}
		for _, t := range tps {
			if !t.F.Equal(&t.FIn) {
				return h.Failf("C20:blindrot.Evaluate:input-modified", "call %d: Evaluate modified a test polynomial", ci)
			}
		}
		if len(res) != len(call.Slots) {
			return h.Failf("C20:blindrot.Evaluate:output-slots", "call %d: %d outputs for %d requested slots", ci, len(res), len(call.Slots))
		}
		for g := range rk.gal {
			allGalSeen[g] = true
		}

		// reference model of the modulus switch (documented on modSwitchRLWETo2NLvl: round(x*2N/Q), odd by xor 1 unless zero)
		ctc := ctL.CopyNew()
		if ctc.IsNTT {
			rqL.INTT(ctc.Value[0], ctc.Value[0])
			rqL.INTT(ctc.Value[1], ctc.Value[1])
		}
		c0L := polyToBig(lwe.params, lvlL, ctc.Value[0])
		c1L := polyToBig(lwe.params, lvlL, ctc.Value[1])
		sw := func(x *big.Int, odd bool) int {
			v := new(big.Int).Mul(x, big.NewInt(int64(twoN)))
			r := int(new(big.Int).And(h.RoundDiv(v, QL), big.NewInt(int64(twoN-1))).Int64())
			if odd && r&1 == 0 && r != 0 {
				r ^= 1
			}
			return r
		}
		aSw := make([]int, nL)
		for k := range aSw {
			aSw[k] = sw(c1L[k], true)
		}

		// every RGSW key is used once per slot, except that a key whose mask coefficient switches to 0 may be skipped
		// (X^{0*s_i} = 1); key 0 is read once more at the start of Evaluate to learn the level
		for j := 0; j < nL; j++ {
			zeros := 0
			for _, s := range call.Slots {
				if aSw[((s.Index-j)%nL+nL)%nL] == 0 {
					zeros++
				}
			}
			used := rk.brk[j]
			if j == 0 {
				used--
			}
			if used < len(call.Slots)-zeros || used > len(call.Slots) {
				return h.Failf("C20:blindrot.Evaluate:rgsw-key-usage", "call %d: RGSW key %d requested %d times for %d slots (%d with a zero mask coefficient)", ci, j, used, len(call.Slots), zeros)
			}
		}

		slots := append([]Slot(nil), call.Slots...)
		sort.Slice(slots, func(i, j int) bool { return slots[i].Index < slots[j].Index })
		rec.Classf("subset=%s", subsetClass(slots))
		for _, s := range slots {
			nslots++
			t := slotFn[s.Index]
			out, ok := res[s.Index]
			if !ok {
				return h.Failf("C20:blindrot.Evaluate:output-slots", "call %d: no output for requested slot %d", ci, s.Index)
			}
			if out.IsNTT != c.BR.NTT {
				return h.Failf("C20:blindrot.Evaluate:output-domain", "output IsNTT=%v under parameters with NTTFlag=%v", out.IsNTT, c.BR.NTT)
			}
			if out.Level() != keyLQ {
				// the accumulator is allocated at the maximum level; only the limbs of the key level carry the result
				rec.Class("output-level>key-level")
				out = out.CopyNew()
				out.Resize(out.Degree(), keyLQ)
			}
			dec := br.decryptBig(out)
			have := h.Center(dec[0], QB)

			// phase of the model and of the model with the two former quirks (mask coefficient 0 or -1 handled as +1)
			pm := sw(c0L[s.Index], false)
			pq := pm
			for j := 0; j < nL; j++ {
				sj := int(lwe.s[j].Int64())
				if sj == 0 {
					continue
				}
				var a int
				if j <= s.Index {
					a = aSw[s.Index-j]
				} else {
					a = (twoN - aSw[nL+s.Index-j]) & (twoN - 1)
				}
				pm += a * sj
				if a == 0 || a == twoN-1 {
					a = 1
				}
				pq += a * sj
			}
			// discretisation: the model stays within D grid steps of x (rounding of b: 1/2, of every mask coefficient to
			// an odd value: 3/2, LWE noise scaled to the grid)
			eL := h.Center(new(big.Int).Sub(decL[s.Index], enc[s.Index]), QL)
			D := math.Ceil(0.5 + 1.5*lwe.sL1 + (math.Abs(bigF(eL))+1)*float64(twoN)/QLf)
			drift := ((pm-s.P)%twoN + twoN) % twoN
			if drift > nB {
				drift -= twoN
			}
			if math.Abs(float64(drift)) > D {
				return h.Failf("C20:harness:drift-model", "model phase %d is %d steps from x (p=%d), bound %v", pm, drift, s.P, D)
			}

			pm = ((pm % twoN) + twoN) % twoN
			pq = ((pq % twoN) + twoN) % twoN
			want := lookup(t.g, t.scale, c.A, c.B, nB, pm)
			tol := noise + 1 + math.Abs(want)*math.Exp2(-50)
			dist := math.Abs(bigF(have) - want)
			where := "interior"
			switch {
			case s.P == -nB/2:
				where = "x=a"
			case s.P == nB/2:
				// the grid is half-open: a rotation by N/2 wraps negacyclically and selects -f(a), not f(b)
				where = "x=b(wraps)"
			case s.P == nB/2-1:
				where = "x=b-step"
			case c.A < 0 && c.B > 0 && math.Abs(float64(s.P)-(-c.A-c.B)/(c.B-c.A)*float64(nB)/2) <= 2:
				where = "sign-change"
			}
			slotClasses[where] = true
			rec.Classf("slot=%s", where)
			if s.P == nB/2 && drift == 0 && informative {
				// record what the end point b itself returns
				fb, fa := t.g(c.B), t.g(c.A)
				isFb := math.Abs(bigF(have)-t.scale*fb) <= tol
				isMinusFa := math.Abs(bigF(have)+t.scale*fa) <= tol
				switch {
				case isFb && isMinusFa:
					rec.Class("x=b exactly: f(b) = -f(a), returned")
				case isMinusFa:
					rec.Class("x=b exactly: returns -f(a), not f(b)")
				case isFb:
					rec.Class("x=b exactly: returns f(b)")
				}
			}
			if D*8 >= float64(nB) {
				rec.Class("drift>=interval/8")
			}
			if dist <= tol {
				exact++
				continue
			}
			wantQ := lookup(t.g, t.scale, c.A, c.B, nB, pq)
			msg := fmt.Sprintf("call %d of %d, N_LWE=%d N_BR=%d nQ=%d nP=%d w=%d f=%s [%g,%g] slot %d p=%d: constant coefficient %.0f, model phase %d expects %.0f (noise bound %.0f, Q=2^%.1f)",
				ci+1, len(calls), nL, nB, len(c.BR.Q), len(c.BR.P), c.W, t.spec.Kind, c.A, c.B, s.Index, s.P, bigF(have), pm, want, noise, math.Log2(QBf))
			if pq != pm && math.Abs(bigF(have)-wantQ) <= noise+1+math.Abs(wantQ)*math.Exp2(-50) {
				msg += fmt.Sprintf("; matches phase %d obtained when mask coefficients equal to 0 or -1 mod 2N are processed as +1", pq)
				if rec.Known(keyMaskQuirk, msg) {
					rec.Class("known=mask-0-or-minus-1")
					continue
				}
				return h.Failf(keyMaskQuirk, "%s", msg)
			}
			if !informative {
				rec.Class("uninformative-miss")
				continue
			}
			key := "C20:blindrot.Evaluate:" + pathBR(c) + ":wrong-lookup"
			if ci > 0 {
				key = "C20:blindrot.Evaluate:" + pathBR(c) + ":reused-evaluator:wrong-lookup"
			}
			return h.Failf(key, "%s", msg)
		}
	}

	// key material and secrets untouched by the evaluations
	if !lwe.sk.Equal(skLIn) || !br.sk.Equal(skBIn) {
		return h.Failf("C20:blindrot.Evaluate:secret-key-modified", "a secret key changed during the case")
	}
	for i, k := range []*rgsw.Ciphertext{brk.BlindRotationKeys[0], brk.BlindRotationKeys[nL-1]} {
		if !k.Value[0].Equal(&snapRGSW[i].Value[0]) || !k.Value[1].Equal(&snapRGSW[i].Value[1]) {
			return h.Failf("C20:blindrot.Evaluate:keys-modified", "an RGSW key was modified by Evaluate")
		}
	}
	for i, gk := range brk.AutomorphismKeys {
		if !gk.GadgetCiphertext.Equal(snapGal[i]) {
			return h.Failf("C20:blindrot.Evaluate:keys-modified", "the Galois key for %d was modified by Evaluate", gk.GaloisElement)
		}
	}
	allGal := true
	for g := range wantGal {
		if !allGalSeen[g] {
			allGal = false
		}
	}

	rec.Classf("N=%d->%d", nL, nB)
	rec.Classf("path=%s", pathBR(c))
	rec.Classf("brQ=%d", len(c.BR.Q))
	for _, t := range tps {
		rec.Classf("f=%s", t.spec.Kind)
	}
	rec.Classf("functions=%d", len(tps))
	rec.Classf("lwe-%s", hClass(lwe.sL1, nL))
	rec.Classf("ntt=%v/%v", c.LWE.NTT, c.BR.NTT)
	rec.Classf("calls=%d", len(calls))
	rec.Classf("keyLevels=Q-%d/P-%d", c.KeyDropQ, c.KeyDropP)
	rec.Classf("lweXs=%s", c.LWE.Xs.Kind)
	rec.Classf("lweQ=%d/level=%d", len(c.LWE.Q), lvlL)
	if allGal {
		rec.Class("galois=all-requested")
	}
	if manual {
		rec.Class("keys=manual")
	}
	if !informative {
		rec.Class("noise>=scale/16")
	}
	rec.Note("log2_noise_bound", math.Log2(noise+1))
	rec.Note("exact_slots", exact)
	if informative && nslots > 0 {
		var sc []string
		for k := range slotClasses {
			sc = append(sc, k)
		}
		sort.Strings(sc)
		rec.NonTrivial(fmt.Sprintf("br|%d->%d|%s|nQ%d|w%s|f=%s/%d|%s|ntt%v%v|%v|calls%d|drop%d%d", nL, nB, pathBR(c), len(c.BR.Q), wClass(c.W), c.F.Kind, len(tps), hClass(lwe.sL1, nL), c.LWE.NTT, c.BR.NTT, sc, len(calls), c.KeyDropQ, c.KeyDropP))
	}
	return nil
}

// subsetClass names the shape of a sorted slot index subset.
func subsetClass(slots []Slot) string {
	if len(slots) == 1 {
		if slots[0].Index <= 1 {
			return "single<=1"
		}
		return "single>1"
	}
	gaps := false
	for i := 1; i < len(slots); i++ {
		if slots[i].Index != slots[i-1].Index+1 {
			gaps = true
		}
	}
	switch {
	case !gaps && slots[0].Index <= 1:
		return "contiguous-prefix"
	case !gaps:
		return "contiguous-offset"
	default:
		return "gaps"
	}
}

func pathBR(c BRCase) string {
	switch {
	case len(c.BR.P) >= 2:
		return "multipleP"
	case len(c.BR.P) == 1:
		return "singleP"
	case len(c.BR.Q) == 1 && c.BR.Q[0]>>29 == 0:
		return "32bit"
	default:
		return "noP"
	}
}

var propBR = h.NewProp("TestPropBlindRotation", h.Budget{Quick: 200, Thorough: 400}, genBR, runBR)

func TestPropBlindRotation(t *testing.T) { propBR.Check(t) }
