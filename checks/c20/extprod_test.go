package c20

import (
	"fmt"
	"math"
	"math/big"
	"math/bits"
	"testing"

	"verif/internal/h"

	"github.com/tuneinsight/lattigo/v6/core/rgsw"
	"github.com/tuneinsight/lattigo/v6/core/rlwe"
	"pgregory.net/rapid"
)

// MSpec describes the RLWE message.
type MSpec struct {
	Kind string `json:"kind"` // zero | const | mono | small | uniform
	A    int    `json:"a,omitempty"`
	Seed uint64 `json:"seed,omitempty"`
}

// EPCase is one external product.
type EPCase struct {
	Params  h.RLWESpec `json:"params"`
	LevelQ  int        `json:"levelQ"`
	LevelP  int        `json:"levelP"` // level of P of the RGSW ciphertext, -1: none
	W       int        `json:"w"`      // BaseTwoDecomposition
	PK      bool       `json:"pk,omitempty"`
	G       GSpec      `json:"g"`
	PtNil   bool       `json:"ptNil,omitempty"` // Encrypt(nil, ct) for g = 0
	PtNTT   bool       `json:"ptNTT"`
	PtMont  bool       `json:"ptMont"`
	M       MSpec      `json:"m"`
	CtKind  string     `json:"ct"` // sk | trivial
	InPlace bool       `json:"inPlace"`
	Warm    bool       `json:"warm,omitempty"` // the evaluator first computes the product in the other mode
	Seed    uint64     `json:"seed"`
}

func (c EPCase) RandSeed() uint64 { return c.Seed }

// genEPParams draws parameters for the three code paths of ExternalProduct.
func genEPParams(t *rapid.T, maxLogN int, fast32 int) (spec h.RLWESpec, levelQ, levelP, w int) {
	spec.LogN = rapid.IntRange(4, maxLogN).Draw(t, "logN")
	spec.NTT = true
	m := spec.NthRoot()
	minb := h.MinPrimeBits(m) + 6
	shape := rapid.IntRange(0, 9).Draw(t, "shape")
	used := map[uint64]bool{}
	var nQ, nP int
	var qsz []int
	deep := false
	switch {
	case shape >= 10-fast32: // single modulus below 2^29 without P: 32-bit fast path
		nQ, nP = 1, 0
		qsz = []int{rapid.IntRange(minb+4, 28).Draw(t, "q32bits")}
		if rapid.IntRange(0, 3).Draw(t, "q32top") == 0 {
			qsz[0] = 28
		}
	case shape == 3 && fast32 >= 3 && rapid.IntRange(0, 2).Draw(t, "deepk") != 2:
		// long chain of 58..61-bit primes with 2-3 auxiliary primes: the lazy accumulation of the multiple-P path has to
		// reduce in the middle (QiOverflowMargin/2 is 4 for 61-bit primes, 8 for 60-bit primes)
		spec.LogN = 4
		m = spec.NthRoot()
		// MRedLazy of reduced operands stays below q + q^2/2^64, so the lazy sums only come close to 2^64 with about a
		// dozen accumulations of 61-bit limbs: 10..13 primes over 2 auxiliary primes
		maxQ := 13
		if h.Thorough() {
			maxQ = 16
		}
		nQ = rapid.IntRange(5, maxQ).Draw(t, "deepNQ")
		if rapid.Bool().Draw(t, "deepLong") {
			nQ = rapid.IntRange(10, maxQ).Draw(t, "deepNQ2")
		}
		nP = rapid.IntRange(2, 3).Draw(t, "deepNP")
		qsz = make([]int, nQ)
		for i := range qsz {
			qsz[i] = 61
			if rapid.IntRange(0, 2).Draw(t, fmt.Sprintf("deepqk%d", i)) == 0 {
				qsz[i] = rapid.IntRange(58, 60).Draw(t, fmt.Sprintf("deepq%d", i))
			}
		}
		deep = true
	default:
		nQ = rapid.IntRange(1, 3).Draw(t, "nQ")
		nP = rapid.IntRange(0, 2).Draw(t, "nP")
		qsz = h.GenSizes(t, nQ, 30, 60, "q")
		if rapid.IntRange(0, 5).Draw(t, "qsmall") == 0 {
			qsz[rapid.IntRange(0, nQ-1).Draw(t, "qsmallidx")] = rapid.IntRange(minb, 29).Draw(t, "qsmallbits")
		}
	}
	spec.Q = h.GenPrimes(t, qsz, m, used, "q")
	if nP > 0 {
		maxq := 0
		for _, q := range spec.Q {
			if b := bits.Len64(q); b > maxq {
				maxq = b
			}
		}
		psz := make([]int, nP)
		for i := range psz {
			if deep {
				psz[i] = rapid.IntRange(59, 61).Draw(t, fmt.Sprintf("deepp%d", i))
			} else if rapid.IntRange(0, 7).Draw(t, fmt.Sprintf("pk%d", i)) == 0 {
				psz[i] = rapid.IntRange(minb, 61).Draw(t, fmt.Sprintf("pany%d", i))
			} else {
				lo := maxq
				if lo > 61 {
					lo = 61
				}
				psz[i] = rapid.IntRange(lo, 61).Draw(t, fmt.Sprintf("pbig%d", i))
			}
		}
		spec.P = h.GenPrimes(t, psz, m, used, "p")
	}
	spec.Xs = h.GenDist(t, true, spec.N(), "xs")
	spec.Xe = h.GenDist(t, false, spec.N(), "xe")

	levelQ = nQ - 1
	if nQ > 1 && rapid.IntRange(0, 2).Draw(t, "lvlk") == 0 {
		levelQ = rapid.IntRange(0, nQ-1).Draw(t, "levelQ")
	}
	levelP = nP - 1
	if nP > 0 && rapid.IntRange(0, 3).Draw(t, "lvlpk") == 0 {
		levelP = rapid.IntRange(-1, nP-1).Draw(t, "levelP")
	}
	switch {
	case levelP < 0:
		// a digit decomposition is needed for a usable noise level without P; w = 0 is still legal
		switch rapid.IntRange(0, 9).Draw(t, "wk") {
		case 0:
			w = 0
		case 1:
			w = rapid.IntRange(1, 3).Draw(t, "wsmall")
		default:
			w = rapid.IntRange(4, 16).Draw(t, "w")
		}
	default:
		if rapid.IntRange(0, 1).Draw(t, "wk") == 0 {
			w = 0
		} else {
			w = rapid.IntRange(4, 16).Draw(t, "w")
		}
	}
	return
}

func genEP(t *rapid.T) EPCase {
	var c EPCase
	maxLogN := 6
	if h.Thorough() {
		maxLogN = 7
	}
	c.Params, c.LevelQ, c.LevelP, c.W = genEPParams(t, maxLogN, 3)
	n := c.Params.N()
	c.PK = rapid.IntRange(0, 4).Draw(t, "pk") == 0
	c.G = genG(t, n, "g")
	if c.G.Kind == "zero" {
		c.PtNil = rapid.Bool().Draw(t, "ptNil")
	}
	c.PtNTT = rapid.Bool().Draw(t, "ptNTT")
	c.PtMont = rapid.Bool().Draw(t, "ptMont")
	c.M.Kind = []string{"zero", "const", "mono", "small", "uniform", "uniform"}[rapid.IntRange(0, 5).Draw(t, "m_kind")]
	switch c.M.Kind {
	case "const":
		c.M.A = rapid.IntRange(-1000, 1000).Draw(t, "m_c")
	case "mono":
		c.M.A = rapid.IntRange(0, 2*n-1).Draw(t, "m_a")
	case "small", "uniform":
		c.M.Seed = rapid.Uint64().Draw(t, "m_seed")
	}
	c.CtKind = []string{"sk", "sk", "sk", "trivial"}[rapid.IntRange(0, 3).Draw(t, "ct")]
	c.InPlace = rapid.Bool().Draw(t, "inPlace")
	c.Warm = rapid.Bool().Draw(t, "warm")
	c.Seed = rapid.Uint64().Draw(t, "seed")
	return c
}

// message expands the message into integers modulo Q; monomials and constants are scaled by about Q/8 so that they sit
// well above the noise.
func (m MSpec) ints(n int, Q *big.Int) []*big.Int {
	out := make([]*big.Int, n)
	for i := range out {
		out[i] = new(big.Int)
	}
	delta := new(big.Int).Rsh(Q, 3)
	switch m.Kind {
	case "const":
		out[0].Mul(delta, big.NewInt(int64(m.A)))
		out[0].Div(out[0], big.NewInt(1000))
	case "mono":
		a := m.A % (2 * n)
		if a >= n {
			out[a-n].Neg(delta)
		} else {
			out[a].Set(delta)
		}
	case "small":
		rng := h.NewSplitMix(m.Seed)
		for i := range out {
			out[i].SetInt64(int64(rng.Intn(33)) - 16)
		}
	case "uniform":
		rng := h.NewSplitMix(m.Seed)
		words := (Q.BitLen() + 63) / 64
		for i := range out {
			v := new(big.Int)
			for k := 0; k <= words; k++ {
				v.Lsh(v, 64)
				v.Or(v, h.BU(rng.Uint64()))
			}
			out[i].Mod(v, Q)
		}
	}
	return out
}

func epPath(params rlwe.Parameters, levelQ, levelP int) string {
	switch {
	case levelP >= 1:
		return "multipleP"
	case levelQ == 0 && levelP == -1 && params.Q()[0]>>29 == 0:
		return "32bit"
	case levelP == 0:
		return "singleP"
	default:
		return "noP"
	}
}

func polysEqual(a, b *rlwe.Ciphertext) bool {
	if len(a.Value) != len(b.Value) {
		return false
	}
	for i := range a.Value {
		if !a.Value[i].Equal(&b.Value[i]) {
			return false
		}
	}
	return true
}

func runEP(c EPCase, rec *h.Rec) error {
	e, err := newEnv(c.Params)
	if err != nil {
		return h.Failf("C20:harness:params", "parameters rejected: %v", err)
	}
	params := e.params
	n := e.n
	Q := h.ProdU(qs(params, c.LevelQ))

	// RGSW(g)
	g := c.G.ints(n)
	var pt *rlwe.Plaintext
	if !(c.PtNil && c.G.Kind == "zero") {
		pt = e.rlwePlaintext(g, c.LevelQ, c.PtNTT, c.PtMont)
	}
	ctG, manual, err := e.encryptRGSW(rec, g, pt, c.LevelQ, c.LevelP, c.W, c.PK)
	if err != nil {
		return err
	}
	gm := geometry(ctG)
	path := epPath(params, c.LevelQ, c.LevelP)

	// RLWE(m), NTT domain
	m := c.M.ints(n, Q)
	ptM := rlwe.NewPlaintext(params, c.LevelQ)
	setPoly(params, c.LevelQ, m, ptM.Value)
	rq := params.RingQ().AtLevel(c.LevelQ)
	rq.NTT(ptM.Value, ptM.Value)
	ptM.IsNTT = true
	ct := rlwe.NewCiphertext(params, 1, c.LevelQ)
	ct.IsNTT = true
	Ect := 0.0
	if c.CtKind == "trivial" {
		ct.Value[0].CopyLvl(c.LevelQ, ptM.Value)
	} else {
		if err := rlwe.NewEncryptor(params, e.sk).Encrypt(ptM, ct); err != nil {
			return h.Failf("C20:harness:encrypt", "rlwe encrypt: %v", err)
		}
		Ect = e.spec.Xe.AbsBound()
	}
	decIn := e.decryptBig(ct)
	if d := bigF(h.InfNorm(h.VecCenter(h.VecSub(decIn, m), Q))); d > Ect {
		return h.Failf("C20:harness:fresh-rlwe", "fresh RLWE ciphertext is at distance %.0f from its message (bound %.0f)", d, Ect)
	}

	// the product(s): ONE evaluator; when c.Warm is set it first computes the same product in the other mode, so that
	// the drawn mode runs on an evaluator whose buffers had an earlier life
	ev := rgsw.NewEvaluator(params, nil)
	ctIn := ct.CopyNew()
	ctGIn := &rgsw.Ciphertext{Value: [2]rlwe.GadgetCiphertext{*ctG.Value[0].CopyNew(), *ctG.Value[1].CopyNew()}}
	skIn := e.sk.CopyNew()
	rng := h.NewSplitMix(c.Seed ^ 0x5bd1)
	product := func(inPlace bool) (*rlwe.Ciphertext, string, error) {
		op0 := ct.CopyNew()
		if inPlace {
			ev.ExternalProduct(op0, ctG, op0)
			return op0, "inplace", nil
		}
		// receiver with a history: allocated at the maximum level, filled, then resized to the level of the product;
		// the product must overwrite, not accumulate
		out := rlwe.NewCiphertext(params, 1, params.MaxLevel())
		for i := range out.Value {
			for u := range out.Value[i].Coeffs {
				q := params.Q()[u]
				for k := range out.Value[i].Coeffs[u] {
					out.Value[i].Coeffs[u][k] = rng.Uint64() % q
				}
			}
		}
		out.Resize(1, c.LevelQ)
		*out.MetaData = *ct.MetaData
		ev.ExternalProduct(op0, ctG, out)
		if !polysEqual(op0, ctIn) {
			return nil, "outofplace", h.Failf("C20:ExternalProduct:"+path+":outofplace:input-modified", "op0 was modified by an out-of-place product")
		}
		return out, "outofplace", nil
	}
	want := h.VecMod(h.NegacyclicMul(g, decIn), Q)
	var warmDist float64
	warmMode := ""
	if c.Warm {
		w, wm, err := product(!c.InPlace)
		if err != nil {
			return err
		}
		warmMode = wm
		warmDist = bigF(h.InfNorm(h.VecCenter(h.VecSub(e.decryptBig(w), want), Q)))
	}
	out, mode, err := product(c.InPlace)
	if err != nil {
		return err
	}
	if !ctG.Value[0].Equal(&ctGIn.Value[0]) || !ctG.Value[1].Equal(&ctGIn.Value[1]) {
		return h.Failf("C20:ExternalProduct:"+path+":rgsw-operand-modified", "the RGSW operand was modified")
	}
	if !e.sk.Equal(skIn) {
		return h.Failf("C20:harness:secret-key-modified", "the secret key changed during the case")
	}

	// oracle: Dec(out) - g * Dec(in) is the noise of the two gadget products
	got := e.decryptBig(out)
	dist := bigF(h.InfNorm(h.VecCenter(h.VecSub(got, want), Q)))

	E := e.encErrBound(c.PK, c.LevelP)
	if manual {
		E = e.spec.Xe.AbsBound()
	}
	pre := productNoise(params, gm, E, 2)
	bound := afterModDown(params, gm, pre.bound(), e.sL1, 1)
	QF := bigF(Q)
	cover := digitsCover(params, gm)

	rec.Classf("path=%s", path)
	rec.Classf("mode=%s", mode)
	rec.Classf("nP=%d/levelP=%d", len(c.Params.P), c.LevelP)
	rec.Classf("levelQ=%d/%d", c.LevelQ, len(c.Params.Q)-1)
	if path == "multipleP" {
		// number of lazy accumulations of externalProductInPlaceMultipleP against its reduction period
		acc := 2 * gm.rows
		period := params.QiOverflowMargin(c.LevelQ) >> 1
		if pp := params.PiOverflowMargin(c.LevelP) >> 1; pp < period {
			period = pp
		}
		if acc > period {
			rec.Class("multipleP:lazy-reduction-mid-loop")
		}
	}
	rec.Classf("w=%s", wClass(c.W))
	rec.Classf("g=%s", c.G.class())
	rec.Classf("m=%s", c.M.Kind)
	rec.Classf("ct=%s", c.CtKind)
	rec.Classf("enc=%s", map[bool]string{false: "sk", true: "pk"}[c.PK])
	if !cover {
		rec.Class("digits-short")
	}
	informative := bound < QF/16
	if !informative {
		rec.Class("bound>=Q/16")
	}
	rec.Note("log2_dist", math.Log2(dist+1))
	rec.Note("log2_bound", math.Log2(bound+1))
	rec.Note("log2_Q", math.Log2(QF))

	if c.Warm {
		rec.Class("evaluator=reused")
		if warmDist > bound && dist <= bound {
			// the first product of the evaluator is the wrong one: report it under its own mode
			dist, mode = warmDist, warmMode
		} else if dist > bound && warmDist <= bound {
			mode += ":reused-evaluator"
		}
	}
	if dist > bound {
		msg := fmt.Sprintf("N=%d path=%s %s levelQ=%d levelP=%d w=%d g=%s: |Dec(out) - g*Dec(in)| = 2^%.2f exceeds the decomposition bound 2^%.2f (Q=2^%.1f)",
			n, path, mode, c.LevelQ, c.LevelP, c.W, c.G.class(), math.Log2(dist), math.Log2(bound+1), math.Log2(QF))
		if !cover {
			if rec.Known(keyDigitsShort, msg) {
				rec.Class("known=digits-short")
				return nil
			}
			return h.Failf(keyDigitsShort, "%s", msg)
		}
		key := fmt.Sprintf("C20:ExternalProduct:%s:%s:noise-above-bound", path, mode)
		if path == "32bit" && lazy32Overflows(params.Q()[0], gm) {
			// 2 * digits products below q*(6q-2) (documented NTTLazy range) are accumulated without reduction
			key = key32Overflow
		}
		if rec.Known(key, msg) {
			rec.Classf("known=%s:%s", path, mode)
			return nil
		}
		return h.Failf(key, "%s", msg)
	}

	// the message view: Dec(out) = g*m up to the product noise plus g times the fresh noise
	wantM := h.VecMod(h.NegacyclicMul(g, m), Q)
	if d := bigF(h.InfNorm(h.VecCenter(h.VecSub(got, wantM), Q))); d > bound+l1Norm(g)*Ect {
		return h.Failf("C20:ExternalProduct:"+path+":message", "Dec(out) is at 2^%.2f from g*m, bound 2^%.2f", math.Log2(d), math.Log2(bound+l1Norm(g)*Ect+1))
	}

	nontrivialRule := len(c.Params.P) != 2 || c.W > 0 || !c.InPlace || c.G.class() != "one"
	if informative && cover && nontrivialRule && !isZero(want) {
		rec.NonTrivial(fmt.Sprintf("ep|%s|%s|N%d|nQ%d|lq%d|nP%d|lp%d|w%s|g=%s|m=%s|ct=%s|pk=%v|pt=%v%v", path, mode, n, len(c.Params.Q), c.LevelQ,
			len(c.Params.P), c.LevelP, wClass(c.W), c.G.class(), c.M.Kind, c.CtKind, c.PK, c.PtNTT, c.PtMont))
	}
	return nil
}

// lazy32Overflows reports whether the unreduced accumulator of externalProduct32Bit can exceed 2^64: it sums, for both
// ciphertext components and every digit, a product of an RGSW coefficient (< q) and an NTTLazy output (documented range
// [0, 6q-2]).
func lazy32Overflows(q uint64, gm geom) bool {
	terms := new(big.Int).SetInt64(int64(2 * gm.digits[0]))
	terms.Mul(terms, h.BU(q-1))
	terms.Mul(terms, h.BU(6*q-2))
	return terms.BitLen() > 64
}

func wClass(w int) string {
	switch {
	case w == 0:
		return "0"
	case w < 4:
		return "1-3"
	case w <= 8:
		return "4-8"
	default:
		return "9-16"
	}
}

var propEP = h.NewProp("TestPropExternalProduct", h.Budget{Quick: 1500, Thorough: 12000}, genEP, runEP)

func TestPropExternalProduct(t *testing.T) { propEP.Check(t) }
