package c20

import (
	"fmt"
	"math"
	"math/big"
	"strings"
	"testing"

	"verif/internal/h"

	"github.com/tuneinsight/lattigo/v6/core/rgsw"
	"github.com/tuneinsight/lattigo/v6/core/rlwe"
	"github.com/tuneinsight/lattigo/v6/ring"
	"github.com/tuneinsight/lattigo/v6/ring/ringqp"
	"pgregory.net/rapid"
)

// RGSW ciphertexts add and multiply by X^a - 1 as their plaintexts do: a short program over an accumulator is
// interpreted on ciphertexts and on plaintext polynomials; every gadget row of the result must decrypt to
// P * w_ij * g_model * s^k up to the tracked noise.

// ROp is one step of the program. The accumulator starts as a copy of register 0.
type ROp struct {
	Kind string `json:"kind"` // addct | addpt | mulx | mulxself | mulxadd | reduce
	Reg  int    `json:"reg,omitempty"`
	A    int    `json:"a,omitempty"`    // exponent of X^a - 1
	Pt   GSpec  `json:"pt,omitempty"`   // plaintext of addpt
	PtAs string `json:"ptAs,omitempty"` // poly | int64 | uint64
	// the rgsw.Plaintext is built at the maximum level of Q although the ciphertext lives at a lower one
	PtMax bool `json:"ptMax,omitempty"`
}

// OpsCase is one program.
type OpsCase struct {
	Params h.RLWESpec `json:"params"`
	LevelQ int        `json:"levelQ"`
	LevelP int        `json:"levelP"`
	W      int        `json:"w"`
	PK     bool       `json:"pk,omitempty"`
	Regs   []GSpec    `json:"regs"`
	Ops    []ROp      `json:"ops"`
	Seed   uint64     `json:"seed"`
}

func (c OpsCase) RandSeed() uint64 { return c.Seed }

var ropKinds = []string{"addct", "addpt", "mulx", "mulxself", "mulxadd", "reduce"}

func genOps(t *rapid.T) OpsCase {
	var c OpsCase
	c.Params, c.LevelQ, c.LevelP, c.W = genEPParams(t, 5, 1)
	n := c.Params.N()
	c.PK = rapid.IntRange(0, 5).Draw(t, "pk") == 0
	nreg := rapid.IntRange(1, 3).Draw(t, "nreg")
	for i := 0; i < nreg; i++ {
		c.Regs = append(c.Regs, genG(t, n, fmt.Sprintf("r%d", i)))
	}
	nops := rapid.IntRange(0, 6).Draw(t, "nops")
	for i := 0; i < nops; i++ {
		l := fmt.Sprintf("op%d", i)
		op := ROp{Kind: ropKinds[rapid.IntRange(0, len(ropKinds)-1).Draw(t, l+"_kind")]}
		switch op.Kind {
		case "addct", "mulx", "mulxadd":
			op.Reg = rapid.IntRange(0, nreg-1).Draw(t, l+"_reg")
		}
		switch op.Kind {
		case "mulx", "mulxself", "mulxadd":
			if rapid.IntRange(0, 3).Draw(t, l+"_ak") == 0 {
				op.A = []int{0, 1, n - 1, n, n + 1, 2*n - 1}[rapid.IntRange(0, 5).Draw(t, l+"_ab")]
			} else {
				op.A = rapid.IntRange(0, 2*n-1).Draw(t, l+"_a")
			}
		case "addpt":
			op.PtAs = []string{"poly", "poly", "int64", "uint64"}[rapid.IntRange(0, 3).Draw(t, l+"_as")]
			switch op.PtAs {
			case "poly":
				op.Pt = genG(t, n, l+"_pt")
			case "int64":
				op.Pt = GSpec{Kind: "const", A: rapid.IntRange(-9, 9).Draw(t, l+"_c")}
			default:
				op.Pt = GSpec{Kind: "const", A: rapid.IntRange(0, 9).Draw(t, l+"_c")}
			}
			if c.LevelQ < len(c.Params.Q)-1 {
				op.PtMax = rapid.Bool().Draw(t, l+"_ptmax")
			}
		}
		c.Ops = append(c.Ops, op)
	}
	c.Seed = rapid.Uint64().Draw(t, "seed")
	return c
}

func copyRGSW(ct *rgsw.Ciphertext) *rgsw.Ciphertext {
	return &rgsw.Ciphertext{Value: [2]rlwe.GadgetCiphertext{*ct.Value[0].CopyNew(), *ct.Value[1].CopyNew()}}
}

// xPowMinusOne returns X^a - 1 in the NTT and Montgomery domain over QP.
func xPowMinusOne(params rlwe.Parameters, rqp ringqp.Ring, a int) ringqp.Poly {
	n := params.N()
	coeffs := GSpec{Kind: "monom1", A: a}.ints(n)
	set := func(r *ring.Ring, p ring.Poly) {
		mods := r.ModuliChain()[:r.Level()+1]
		limbs := h.ToRNS(coeffs, mods)
		for i := range limbs {
			copy(p.Coeffs[i], limbs[i])
		}
		r.NTT(p, p)
		r.MForm(p, p)
	}
	var out ringqp.Poly
	out.Q = rqp.RingQ.NewPoly()
	set(rqp.RingQ, out.Q)
	if rqp.RingP != nil {
		out.P = rqp.RingP.NewPoly()
		set(rqp.RingP, out.P)
	}
	return out
}

func runOps(c OpsCase, rec *h.Rec) error {
	e, err := newEnv(c.Params)
	if err != nil {
		return h.Failf("C20:harness:params", "parameters rejected: %v", err)
	}
	params := e.params
	n := e.n
	rqp := params.RingQP().AtLevel(c.LevelQ, c.LevelP)

	// registers
	regs := make([]*rgsw.Ciphertext, len(c.Regs))
	regG := make([][]*big.Int, len(c.Regs))
	regE := make([]float64, len(c.Regs))
	usedManual := false
	for i, gs := range c.Regs {
		regG[i] = gs.ints(n)
		// NTT / Montgomery representations alternate over the registers
		pt := e.rlwePlaintext(regG[i], c.LevelQ, i%2 == 0, i == 1)
		ct, manual, err := e.encryptRGSW(rec, regG[i], pt, c.LevelQ, c.LevelP, c.W, c.PK)
		if err != nil {
			return err
		}
		regs[i] = ct
		regE[i] = e.encErrBound(c.PK, c.LevelP)
		if manual {
			regE[i] = e.spec.Xe.AbsBound()
			usedManual = true
		}
	}

	acc := copyRGSW(regs[0])
	accG := regG[0]
	accE := regE[0]
	lazy := 1 // the accumulator's coefficients are below lazy*q
	const maxLazy = 6
	reduce := func() {
		rgsw.Reduce(acc, rqp, acc)
		lazy = 1
	}
	room := func(inc int) {
		if lazy+inc > maxLazy {
			reduce()
		}
	}
	var trace []string
	xm1 := func(a int) []*big.Int { return GSpec{Kind: "monom1", A: a}.ints(n) }
	for _, op := range c.Ops {
		trace = append(trace, op.Kind)
		switch op.Kind {
		case "addct":
			room(1)
			rgsw.AddLazy(regs[op.Reg], rqp, acc)
			lazy++
			accG = h.VecAdd(accG, regG[op.Reg])
			accE += regE[op.Reg]
		case "addpt":
			room(1)
			g := op.Pt.ints(n)
			var value interface{}
			switch op.PtAs {
			case "int64":
				value = int64(op.Pt.A)
			case "uint64":
				value = uint64(op.Pt.A)
			}
			ptLevel := c.LevelQ
			if op.PtMax {
				ptLevel = params.MaxLevelQ()
				rec.Class("addpt:plaintext-level>ciphertext-level")
			}
			switch op.PtAs {
			case "int64", "uint64":
			default:
				p := params.RingQ().AtLevel(ptLevel).NewPoly()
				setPoly(params, ptLevel, g, p)
				value = p
			}
			pt, err := rgsw.NewPlaintext(params, value, ptLevel, c.LevelP, c.W)
			if err != nil {
				return h.Failf("C20:rgsw.NewPlaintext:error", "NewPlaintext(%s): %v", op.PtAs, err)
			}
			rgsw.AddLazy(pt, rqp, acc)
			lazy++
			accG = h.VecAdd(accG, g)
		case "mulx":
			// out-of-place: acc = reg * (X^a - 1)
			rgsw.MulByXPowAlphaMinusOneLazy(regs[op.Reg], xPowMinusOne(params, rqp, op.A), rqp, acc)
			lazy = 2
			accG = h.NegacyclicMul(regG[op.Reg], xm1(op.A))
			accE = 2 * regE[op.Reg]
		case "mulxself":
			// in place on a reduced accumulator
			if lazy > 1 {
				reduce()
			}
			rgsw.MulByXPowAlphaMinusOneLazy(acc, xPowMinusOne(params, rqp, op.A), rqp, acc)
			lazy = 2
			accG = h.NegacyclicMul(accG, xm1(op.A))
			accE = 2 * accE
		case "mulxadd":
			room(2)
			rgsw.MulByXPowAlphaMinusOneThenAddLazy(regs[op.Reg], xPowMinusOne(params, rqp, op.A), rqp, acc)
			lazy += 2
			accG = h.VecAdd(accG, h.NegacyclicMul(regG[op.Reg], xm1(op.A)))
			accE += 2 * regE[op.Reg]
		case "reduce":
			reduce()
		}
	}
	// final out-of-place reduction
	out := rgsw.NewCiphertext(params, c.LevelQ, c.LevelP, c.W)
	rgsw.Reduce(acc, rqp, out)

	// reduced means reduced
	mods := qps(params, c.LevelQ, c.LevelP)
	for k := 0; k < 2; k++ {
		for i := range out.Value[k].Value {
			for j := range out.Value[k].Value[i] {
				for u := 0; u < 2; u++ {
					p := out.Value[k].Value[i][j][u]
					limbs := append([][]uint64{}, p.Q.Coeffs[:c.LevelQ+1]...)
					if c.LevelP >= 0 {
						limbs = append(limbs, p.P.Coeffs[:c.LevelP+1]...)
					}
					for l, limb := range limbs {
						for _, v := range limb {
							if v >= mods[l] {
								return h.Failf("C20:rgsw.Reduce:not-reduced", "coefficient %d >= modulus %d after Reduce (Value[%d] row(%d,%d))", v, mods[l], k, i, j)
							}
						}
					}
				}
			}
		}
	}
	// registers untouched
	for i := range regs {
		if worst, where := e.checkRGSW(regs[i], regG[i]); bigF(worst) > regE[i] {
			return h.Failf("C20:rgsw-ops:operand-modified", "register %d no longer encrypts its plaintext after %v (%s)", i, trace, where)
		}
	}

	worst, where := e.checkRGSW(out, accG)
	dist := bigF(worst)
	QP := bigF(h.ProdU(mods))
	rec.Classf("nops=%d", len(c.Ops))
	for _, k := range trace {
		rec.Classf("op=%s", k)
	}
	rec.Classf("nP=%d/levelP=%d", len(c.Params.P), c.LevelP)
	rec.Classf("w=%s", wClass(c.W))
	if usedManual {
		rec.Class("enc=manual")
	}
	rec.Note("log2_dist", math.Log2(dist+1))
	rec.Note("bound", accE)
	if dist > accE {
		key := "C20:rgsw-ops:" + lastOpsKey(trace) + ":plaintext-relation"
		return h.Failf(key, "after %v (levelQ=%d levelP=%d w=%d): %s is at distance 2^%.1f from P*w_ij*g*s^k, tracked noise bound %.0f (QP=2^%.1f)",
			trace, c.LevelQ, c.LevelP, c.W, where, math.Log2(dist), accE, math.Log2(QP))
	}
	if accE < QP/16 && len(trace) > 0 && !isZero(accG) {
		rec.NonTrivial(fmt.Sprintf("ops|%s|nQ%d|lq%d|nP%d|lp%d|w%s|pk=%v", strings.Join(trace, ","), len(c.Params.Q), c.LevelQ, len(c.Params.P), c.LevelP, wClass(c.W), c.PK))
	}
	return nil
}

// lastOpsKey names the set of operation kinds of a program (stable under reordering).
func lastOpsKey(trace []string) string {
	seen := map[string]bool{}
	var ks []string
	for _, k := range ropKinds {
		for _, t := range trace {
			if t == k && !seen[k] {
				seen[k] = true
				ks = append(ks, k)
			}
		}
	}
	if len(ks) == 0 {
		return "fresh"
	}
	return strings.Join(ks, "+")
}

var propOps = h.NewProp("TestPropRGSWOps", h.Budget{Quick: 600, Thorough: 6000}, genOps, runOps)

func TestPropRGSWOps(t *testing.T) { propOps.Check(t) }
