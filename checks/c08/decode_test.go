package c08

import (
	"bufio"
	"bytes"
	"fmt"
	"io"
	"runtime"
	"strings"

	"verif/internal/h"

	"github.com/tuneinsight/lattigo/v6/core/rlwe"
	"github.com/tuneinsight/lattigo/v6/utils/buffer"
)

// ReaderSpec describes the reading entry point and the transport.
type ReaderSpec struct {
	Kind  string    `json:"kind"`           // "buffer" (buffer.NewBuffer) | "bufio" (one bufio.Reader for the whole stream) | "raw" (plain io.Reader) | "unmarshal"
	Size  int       `json:"size,omitempty"` // bufio.NewReaderSize
	Chunk ChunkSpec `json:"chunk"`
}

// CorruptSpec selects one header byte (a byte that does not depend on the coefficient content) and how it is changed.
type CorruptSpec struct {
	Pos  int `json:"pos"`  // index into the list of header bytes, reduced modulo its length
	Mode int `json:"mode"` // 0: 0x00, 1: 0x01, 2: 0xff, 3: flip bit 7, 4: +1, 5: -1, 6: flip bit 0, 7: 0x7f
	// Bin restricts the choice to the non-zero header bytes outside printable ASCII context, i.e. the significant
	// bytes of binary length prefixes, presence bytes and counts (the JSON metadata text is then skipped).
	Bin bool `json:"bin,omitempty"`
}

// DecodeReq is one decoding experiment; it is plain data so that it can be shipped to the child process.
type DecodeReq struct {
	Params  h.RLWESpec   `json:"params"`
	Objs    []ObjSpec    `json:"objs"`
	Dirty   []*ObjSpec   `json:"dirty,omitempty"` // per object: value the receiver held before (nil: fresh receiver)
	Reader  ReaderSpec   `json:"reader"`
	Trunc   int          `json:"trunc"` // stream is cut to this many bytes (-1: no truncation)
	Corrupt *CorruptSpec `json:"corrupt,omitempty"`
	// RawType/Raw: decode these bytes as they are into a fresh receiver of the registered type (fuzzing); the other
	// object fields are then unused and the corrupted-input oracle applies.
	RawType string `json:"rawtype,omitempty"`
	Raw     []byte `json:"raw,omitempty"`
}

// StepRes is the outcome of decoding one object of the stream.
type StepRes struct {
	N      int64  `json:"n"`
	Err    string `json:"err,omitempty"`
	Panic  string `json:"panic,omitempty"`
	LibEq  int    `json:"libeq"`            // 1 equal, 0 not equal, -1 the type has no Equal
	Diff   string `json:"diff,omitempty"`   // structural difference with the original
	ReDiff string `json:"rediff,omitempty"` // re-encoding differs from the original bytes (or, for corrupted input, does not round-trip)
	Alloc  uint64 `json:"alloc,omitempty"`  // bytes allocated during the decode (measured for corrupted input only)
	// HugeScale: the decoded object carries a scale outside the range of the fixed-size text encoding of rlwe.Scale
	HugeScale bool `json:"hugescale,omitempty"`
}

// DecodeRes is the outcome of a DecodeReq.
type DecodeRes struct {
	Err      string    `json:"err,omitempty"` // harness-side problem (building the objects)
	Lens     []int     `json:"lens"`
	Steps    []StepRes `json:"steps"`
	Rest     int       `json:"rest"`               // bytes of the stream not consumed after the last step (-1: not applicable)
	OverRead int       `json:"overread,omitempty"` // raw reader: bytes pulled from the transport beyond the object
	CorrAt   int       `json:"corr_at,omitempty"`
	CorrOld  byte      `json:"corr_old,omitempty"`
	CorrNew  byte      `json:"corr_new,omitempty"`
	Died     string    `json:"died,omitempty"` // set by the parent when the child process died or hung
	Slow     bool      `json:"slow,omitempty"` // set by the parent: answered only after the first timeout / after a repetition
	Note     string    `json:"note,omitempty"`
}

func panicSite() string {
	pcs := make([]uintptr, 64)
	n := runtime.Callers(3, pcs)
	frames := runtime.CallersFrames(pcs[:n])
	for {
		f, more := frames.Next()
		if strings.Contains(f.Function, "tuneinsight/lattigo") {
			return f.Function[strings.LastIndex(f.Function, "/")+1:]
		}
		if !more {
			return "harness"
		}
	}
}

// guarded runs f and converts a panic into (site, message).
func guarded(f func() error) (err error, pmsg string) {
	defer func() {
		if r := recover(); r != nil {
			pmsg = fmt.Sprintf("%s: %v", panicSite(), r)
		}
	}()
	return f(), ""
}

func encode(p rlwe.Parameters, s ObjSpec) (codec, []byte, error) {
	v, _, err := buildObj(p, s)
	if err != nil {
		return nil, nil, err
	}
	var b []byte
	err, pm := guarded(func() (e error) { b, e = v.MarshalBinary(); return })
	if pm != "" {
		return nil, nil, fmt.Errorf("MarshalBinary panicked: %s", pm)
	}
	return v, b, err
}

// headerBytes returns the offsets of the bytes of the encoding of s that do not depend on the coefficient content.
func headerBytes(p rlwe.Parameters, s ObjSpec, enc []byte) []int {
	s1, s2 := s, s
	s1.Salt, s2.Salt = s.Salt+1, s.Salt+2
	_, e1, err1 := encode(p, s1)
	_, e2, err2 := encode(p, s2)
	var pos []int
	if err1 != nil || err2 != nil || len(e1) != len(enc) || len(e2) != len(enc) {
		for i := 0; i < len(enc) && i < 64; i++ {
			pos = append(pos, i)
		}
		return pos
	}
	for i := range enc {
		if enc[i] == e1[i] && enc[i] == e2[i] {
			pos = append(pos, i)
		}
	}
	return pos
}

func corruptByte(b byte, mode int) byte {
	switch mod(mode, 8) {
	case 0:
		return 0x00
	case 1:
		return 0x01
	case 2:
		return 0xff
	case 3:
		return b ^ 0x80
	case 4:
		return b + 1
	case 5:
		return b - 1
	case 6:
		return b ^ 1
	default:
		return 0x7f
	}
}

// runDecode executes the experiment. It never asserts anything: the oracles live in the parent.
func runDecode(req DecodeReq) (res DecodeRes) {
	res.Rest = -1
	if req.RawType != "" {
		return runRaw(req)
	}
	p, err := req.Params.Build()
	if err != nil {
		res.Err = "parameters: " + err.Error()
		return
	}
	objs := make([]codec, len(req.Objs))
	encs := make([][]byte, len(req.Objs))
	var stream []byte
	offs := make([]int, len(req.Objs))
	for i, s := range req.Objs {
		if objs[i], encs[i], err = encode(p, s); err != nil {
			res.Err = fmt.Sprintf("encode %s: %v", s.T, err)
			return
		}
		offs[i] = len(stream)
		stream = append(stream, encs[i]...)
		res.Lens = append(res.Lens, len(encs[i]))
	}
	if req.Corrupt != nil && len(stream) > 0 {
		hp := headerBytes(p, req.Objs[0], encs[0])
		if req.Corrupt.Bin {
			var sel []int
			for _, i := range hp {
				if b := stream[i]; b != 0 && (b < 0x20 || b >= 0x7f) {
					sel = append(sel, i)
				}
			}
			if len(sel) > 0 {
				hp = sel
			}
		}
		if len(hp) > 0 {
			at := hp[mod(req.Corrupt.Pos, len(hp))]
			res.CorrAt, res.CorrOld = at, stream[at]
			nb := corruptByte(stream[at], req.Corrupt.Mode)
			if nb == stream[at] {
				nb ^= 0x40
			}
			stream = append([]byte(nil), stream...)
			stream[at] = nb
			res.CorrNew = nb
		}
	}
	if req.Trunc >= 0 && req.Trunc < len(stream) {
		stream = stream[:req.Trunc]
	}

	var shared io.Reader
	var transport *chunkReader
	var bufr *bufio.Reader
	var lbuf *buffer.Buffer
	switch req.Reader.Kind {
	case "buffer":
		lbuf = buffer.NewBuffer(stream)
		shared = lbuf
	case "bufio":
		transport = newChunkReader(stream, req.Reader.Chunk)
		bufr = bufio.NewReaderSize(transport, req.Reader.Size)
		shared = bufr
	}

	for i := range req.Objs {
		var recv codec
		if i < len(req.Dirty) && req.Dirty[i] != nil {
			d := *req.Dirty[i]
			d.T = req.Objs[i].T
			if recv, _, err = buildObj(p, d); err != nil {
				res.Err = err.Error()
				return
			}
		} else {
			recv = registry[req.Objs[i].T].fresh()
		}
		var st StepRes
		var ms0, ms1 runtime.MemStats
		if req.Corrupt != nil {
			runtime.ReadMemStats(&ms0)
		}
		var rd *chunkReader
		derr, pm := guarded(func() (e error) {
			switch req.Reader.Kind {
			case "raw":
				start := offs[i]
				if start > len(stream) {
					start = len(stream)
				}
				rd = newChunkReader(stream[start:], req.Reader.Chunk)
				st.N, e = recv.ReadFrom(rd)
			case "unmarshal":
				start, end := offs[i], offs[i]+len(encs[i])
				if start > len(stream) {
					start = len(stream)
				}
				if end > len(stream) {
					end = len(stream)
				}
				e = recv.UnmarshalBinary(stream[start:end])
				st.N = int64(len(encs[i]))
			default:
				st.N, e = recv.ReadFrom(shared)
			}
			return
		})
		if req.Corrupt != nil {
			runtime.ReadMemStats(&ms1)
			st.Alloc = ms1.TotalAlloc - ms0.TotalAlloc
		}
		st.Panic = pm
		if derr != nil {
			st.Err = derr.Error()
			if st.Err == "" {
				st.Err = "error with empty message"
			}
		}
		if st.Err == "" && st.Panic == "" {
			if rd != nil {
				res.OverRead = rd.off - len(encs[i])
			}
			st.HugeScale = hasUnencodableScale(recv)
			_, pm := guarded(func() error {
				if self, ok := libEqual(objs[i], objs[i]); !ok || !self {
					// the library's Equal is unusable on this value (e.g. Element.Equal dereferences a nil MetaData)
					st.LibEq = -1
				} else if eq, ok := libEqual(objs[i], recv); !ok {
					st.LibEq = -1
				} else if eq {
					st.LibEq = 1
				}
				st.Diff = deepDiff(objs[i], recv)
				re, e := recv.MarshalBinary()
				switch {
				case e != nil:
					st.ReDiff = "re-encoding failed: " + e.Error()
				case req.Corrupt == nil:
					if !bytes.Equal(re, encs[i]) {
						st.ReDiff = firstDiff(re, encs[i])
					}
				default:
					// corrupted input that was accepted: the object must at least be self-consistent
					if len(re) != recv.BinarySize() {
						st.ReDiff = fmt.Sprintf("accepted object: len(MarshalBinary)=%d but BinarySize=%d", len(re), recv.BinarySize())
						break
					}
					again := registry[req.Objs[i].T].fresh()
					if e := again.UnmarshalBinary(re); e != nil {
						st.ReDiff = "accepted object does not decode after re-encoding: " + e.Error()
					} else if re2, e := again.MarshalBinary(); e != nil || !bytes.Equal(re, re2) {
						// (structural equality would be too strict here: e.g. a Scale whose Mod decodes to a non-nil zero
						// re-encodes like a nil Mod; the encoding being a fixpoint is what "self-consistent" means)
						st.ReDiff = fmt.Sprintf("accepted object does not round-trip: encode(decode(encode(x))) != encode(x) (err=%v, structural difference %s)", e, deepDiff(recv, again))
					}
				}
				return nil
			})
			if pm != "" {
				st.ReDiff = "panic while comparing/re-encoding the decoded object: " + pm
			}
		}
		res.Steps = append(res.Steps, st)
		if st.Err != "" || st.Panic != "" {
			return
		}
		if shared != nil && int(st.N) != len(encs[i]) {
			return // the position on the shared stream is lost; decoding misaligned bytes would only add noise (or kill the process)
		}
	}
	switch req.Reader.Kind {
	case "buffer":
		res.Rest = lbuf.Size()
	case "bufio":
		res.Rest = bufr.Buffered() + len(transport.data) - transport.off
	}
	return
}

// runRaw decodes arbitrary bytes into a fresh receiver (same measurements as a corrupted-input step).
func runRaw(req DecodeReq) (res DecodeRes) {
	res.Rest = -1
	e := registry[req.RawType]
	if e == nil {
		res.Err = "unknown type " + req.RawType
		return
	}
	res.Lens = []int{len(req.Raw)}
	recv := e.fresh()
	var st StepRes
	var ms0, ms1 runtime.MemStats
	runtime.ReadMemStats(&ms0)
	derr, pm := guarded(func() (err error) {
		switch req.Reader.Kind {
		case "unmarshal":
			err = recv.UnmarshalBinary(req.Raw)
			st.N = int64(len(req.Raw))
		case "bufio":
			st.N, err = recv.ReadFrom(bufio.NewReaderSize(newChunkReader(req.Raw, req.Reader.Chunk), req.Reader.Size))
		default:
			st.N, err = recv.ReadFrom(buffer.NewBuffer(req.Raw))
		}
		return
	})
	runtime.ReadMemStats(&ms1)
	st.Alloc = ms1.TotalAlloc - ms0.TotalAlloc
	st.Panic = pm
	if derr != nil {
		st.Err = derr.Error()
		if st.Err == "" {
			st.Err = "error with empty message"
		}
	}
	if st.Err == "" && st.Panic == "" {
		st.Diff = "raw" // there is no original to compare with
		st.HugeScale = hasUnencodableScale(recv)
		_, pm := guarded(func() error {
			re, err := recv.MarshalBinary()
			if err != nil {
				st.ReDiff = "re-encoding failed: " + err.Error()
				return nil
			}
			if len(re) != recv.BinarySize() {
				st.ReDiff = fmt.Sprintf("accepted object: len(MarshalBinary)=%d but BinarySize=%d", len(re), recv.BinarySize())
				return nil
			}
			again := e.fresh()
			if err := again.UnmarshalBinary(re); err != nil {
				st.ReDiff = "accepted object does not decode after re-encoding: " + err.Error()
			} else if re2, err := again.MarshalBinary(); err != nil || !bytes.Equal(re, re2) {
				st.ReDiff = fmt.Sprintf("accepted object does not round-trip: encode(decode(encode(x))) != encode(x) (err=%v)", err)
			}
			return nil
		})
		if pm != "" {
			st.ReDiff = "panic while re-encoding the decoded object: " + pm
		}
	}
	res.Steps = []StepRes{st}
	return
}
