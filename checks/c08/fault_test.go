package c08

import (
	"bufio"
	"fmt"
	"io"
	"strings"
	"testing"

	"verif/internal/h"

	"github.com/tuneinsight/lattigo/v6/utils/buffer"
	"pgregory.net/rapid"
)

// FaultCase: a stream of 1-3 objects that ends early (trunc) or a writer that fails after At bytes (wfail).
type FaultCase struct {
	Params h.RLWESpec `json:"params"`
	Objs   []ObjSpec  `json:"objs"`
	Dirty  []*ObjSpec `json:"dirty"`
	Kind   string     `json:"kind"`   // "trunc" | "wfail"
	Where  string     `json:"where"`  // "uniform" | "head" | "tail" | "boundary"
	At     int        `json:"at"`     // reduced to an offset in [0, len) according to Where
	Reader ReaderSpec `json:"reader"` // trunc
	WKind  string     `json:"wkind"`  // wfail: "sink" (plain io.Writer failing at the offset) | "buffer" (buffer.Buffer of that capacity) | "bufio" (bufio.Writer over the failing sink)
}

func genFault(t *rapid.T) FaultCase {
	var c FaultCase
	c.Params = genParams(t)
	n := rapid.SampledFrom([]int{1, 1, 2, 3}).Draw(t, "nobj")
	for i := 0; i < n; i++ {
		o := genObj(t, fmt.Sprintf("o%d", i), "")
		c.Objs = append(c.Objs, o)
		var d *ObjSpec
		if rapid.IntRange(0, 3).Draw(t, "dirty") == 0 {
			dd := genObj(t, fmt.Sprintf("d%d", i), o.T)
			d = &dd
		}
		c.Dirty = append(c.Dirty, d)
	}
	c.Kind = rapid.SampledFrom([]string{"trunc", "trunc", "trunc", "wfail"}).Draw(t, "kind")
	c.Where = rapid.SampledFrom([]string{"uniform", "uniform", "head", "tail", "boundary"}).Draw(t, "where")
	c.At = rapid.IntRange(0, 1<<20).Draw(t, "at")
	if c.Kind == "trunc" {
		c.Reader = genReader(t, false)
	} else {
		c.Reader.Kind, c.Reader.Chunk.Mode = "buffer", "all"
		c.WKind = rapid.SampledFrom([]string{"sink", "sink", "buffer", "bufio"}).Draw(t, "wkind")
	}
	return c
}

// faultOffset maps (Where, At) to an offset k with 0 <= k < total.
func faultOffset(where string, at int, lens []int) int {
	total := 0
	for _, l := range lens {
		total += l
	}
	if total == 0 {
		return 0
	}
	k := at % total
	switch where {
	case "head":
		k = at % 24 % total
	case "tail":
		k = total - 1 - at%24%total
	case "boundary":
		// within 9 bytes after the start of one of the objects, or just before it
		j := at % len(lens)
		start := 0
		for _, l := range lens[:j] {
			start += l
		}
		k = start + (at/len(lens))%11 - 1
		if k < 0 {
			k = 0
		}
		if k >= total {
			k = total - 1
		}
	}
	return k
}

func objectAt(k int, lens []int) int {
	end := 0
	for j, l := range lens {
		end += l
		if k < end {
			return j
		}
	}
	return len(lens) - 1
}

func runFault(c FaultCase, rec *h.Rec) error {
	p, err := c.Params.Build()
	if err != nil {
		return h.Failf("C08:harness:params", "%v", err)
	}
	objs := make([]codec, len(c.Objs))
	lens := make([]int, len(c.Objs))
	for i, s := range c.Objs {
		if objs[i], _, err = buildObj(p, s); err != nil {
			return h.Failf("C08:harness:build", "%v", err)
		}
		lens[i] = objs[i].BinarySize()
		rec.Class("type=" + s.T)
	}
	k := faultOffset(c.Where, c.At, lens)
	j := objectAt(k, lens)
	T := c.Objs[j].T
	start := 0
	for _, l := range lens[:j] {
		start += l
	}
	inside := k > start
	rec.Class("kind=" + c.Kind)
	rec.Class("where=" + c.Where)
	rec.Classf("inside-object=%v", inside)
	desc := fmt.Sprintf("%s;%s;obj=%d/%d;%s;inside=%v;", c.Kind, T, j, len(c.Objs), c.Where, inside)

	if c.Kind == "wfail" {
		rec.Class("wkind=" + c.WKind)
		if err := checkWriterFailure(objs, c.Objs, lens, k, j, c.WKind, rec); err != nil {
			return err
		}
		if inside {
			rec.NonTrivial(desc + c.WKind)
		}
		return nil
	}

	rc := readerClass(c.Reader)
	rec.Class("reader=" + rc)
	req := DecodeReq{Params: c.Params, Objs: c.Objs, Dirty: c.Dirty, Reader: c.Reader, Trunc: k}
	res := execDecode(req)
	if res.Err != "" {
		return h.Failf("C08:harness", "%s", res.Err)
	}
	if err := preJudge(res, rec); err != nil {
		return err
	}
	known := func(key, msg string) (bool, error) {
		if rec.Known(key, msg) {
			rec.Class("known=" + key)
			return true, nil
		}
		return false, h.Failf(key, "stream of %d object(s) cut at byte %d (object %d = %s starts at %d, has %d bytes), reader %s: %s", len(c.Objs), k, j, T, start, lens[j], rc, msg)
	}
	if res.Died != "" {
		if c.Reader.Kind == "bufio" {
			for i := 0; i < j; i++ {
				if strings.HasPrefix(c.Objs[i].T, "structs.Vector[uint8]") || strings.HasPrefix(c.Objs[i].T, "structs.Vector[int8]") {
					// listed defect C08:read:short-read:uint8-slice silently shifts the shared stream: the death is
					// the decoding of misaligned bytes, not of the truncated object
					rec.Class("cut-object-not-reached")
					return nil
				}
			}
		}
		key := "C08:trunc:" + c.Reader.Kind + ":" + diedClass(res.Died)
		if _, err := known(key, "the process died: "+res.Died); err != nil {
			return err
		}
		if inside {
			rec.NonTrivial(desc + rc)
		}
		return nil
	}
	// objects that lie entirely before the cut decode as on the undamaged stream
	pre := res
	if len(pre.Steps) > j {
		pre.Steps = pre.Steps[:j]
	}
	pre.Rest = -1
	preReq := req
	if err := checkCleanDecode(preReq, pre, rec); err != nil {
		return err
	}
	lost := len(res.Steps) <= j
	for i := 0; i < j && i < len(res.Steps); i++ {
		if res.Steps[i].Err != "" || int(res.Steps[i].N) != res.Lens[i] {
			lost = true // a listed defect shifted the stream position: what follows is not the cut object
		}
	}
	if lost {
		// an earlier object failed for a listed reason; the cut object was not reached
		rec.Class("cut-object-not-reached")
		return nil
	}
	st := res.Steps[j]
	switch {
	case st.Panic != "":
		if _, err := known("C08:trunc:"+rc+":"+T+":panic", st.Panic); err != nil {
			return err
		}
	case st.Err == "":
		key := rootCause(req, T, "C08:trunc:"+rc+":"+T+":accepted-truncated", "")
		if _, err := known(key, fmt.Sprintf("no error although only %d of the %d bytes of the object were available (returned n=%d)", k-start, lens[j], st.N)); err != nil {
			return err
		}
	default:
		rec.Class("trunc=error")
	}
	if inside {
		rec.NonTrivial(desc + rc)
	}
	return nil
}

// checkWriterFailure: the transport accepts k bytes and then fails; the WriteTo of the object that covers byte k must
// return an error (earlier objects must succeed).
func checkWriterFailure(objs []codec, specs []ObjSpec, lens []int, k, j int, wkind string, rec *h.Rec) error {
	sk := &sink{failAt: k}
	var dst io.Writer = sk
	var lb *buffer.Buffer
	switch wkind {
	case "buffer":
		lb = buffer.NewBufferSize(k)
		dst = lb
	case "bufio":
		dst = bufio.NewWriter(sk)
	}
	for i := 0; i <= j; i++ {
		T := specs[i].T
		var n int64
		err, pm := guarded(func() (e error) { n, e = objs[i].WriteTo(dst); return })
		if pm != "" {
			return h.Failf("C08:wfail:"+wkind+":"+T+":panic", "writer failing after %d bytes, object %d: %s", k, i, pm)
		}
		if i < j {
			if err != nil {
				return h.Failf("C08:wfail:"+wkind+":"+T+":early-error", "object %d lies entirely before the failure offset %d but WriteTo failed: %v", i, k, err)
			}
			if wkind != "buffer" && len(sk.buf) != sumInts(lens[:i+1]) {
				// a listed defect (structs.Map.WriteTo without Flush) lost bytes of an earlier object: the failure
				// offset no longer falls into object j
				rec.Class("wfail=position-lost")
				return nil
			}
			continue
		}
		if err == nil {
			if wkind == "bufio" {
				// the error may legitimately stay latent in the caller's bufio.Writer until its Flush
				if ferr := dst.(interface{ Flush() error }).Flush(); ferr == nil {
					return h.Failf("C08:wfail:bufio:"+T+":error-lost", "sink failed after %d bytes, neither WriteTo nor Flush reported it", k)
				}
				rec.Class("wfail=latent-in-bufio")
				return nil
			}
			key := "C08:wfail:" + wkind + ":" + T + ":no-error"
			msg := fmt.Sprintf("the writer accepts only %d bytes, the object %d needs bytes up to %d, but WriteTo returned n=%d, err=nil", k, i, sumInts(lens[:i+1]), n)
			if strings.HasPrefix(T, "structs.Map[") && lens[i] == 4 {
				key = "C08:write:" + T + ":WriteTo(io.Writer):bytes-missing" // the empty map never reaches the writer at all
			}
			if rec.Known(key, msg) {
				rec.Class("known=" + key)
				return nil
			}
			return h.Failf(key, "%s", msg)
		}
		rec.Class("wfail=error")
	}
	return nil
}

func sumInts(a []int) (s int) {
	for _, x := range a {
		s += x
	}
	return
}

var propFault = h.NewProp("TestPropFault", h.Budget{Quick: 1600, Thorough: 48000}, genFault, runFault)

func TestPropFault(t *testing.T) { propFault.Check(t); stopChild() }

// ---------------------------------------------------------------------------------------------------------------
// single-field header corruption

// CorruptCase: one object, one header byte changed, decoded into a fresh receiver in the child process.
type CorruptCase struct {
	Params  h.RLWESpec  `json:"params"`
	Obj     ObjSpec     `json:"obj"`
	Corrupt CorruptSpec `json:"corrupt"`
	Reader  string      `json:"reader"` // "buffer" | "bufio" | "unmarshal"
}

func genCorrupt(t *rapid.T) CorruptCase {
	var c CorruptCase
	c.Params = genParams(t)
	c.Obj = genObj(t, "o", "")
	c.Corrupt.Pos = rapid.IntRange(0, 4095).Draw(t, "pos")
	if rapid.IntRange(0, 2).Draw(t, "early") == 0 {
		c.Corrupt.Pos = rapid.IntRange(0, 40).Draw(t, "pos_early")
	}
	c.Corrupt.Mode = rapid.IntRange(0, 7).Draw(t, "mode")
	c.Corrupt.Bin = rapid.Bool().Draw(t, "bin")
	c.Reader = rapid.SampledFrom([]string{"buffer", "bufio", "unmarshal"}).Draw(t, "reader")
	return c
}

const allocSlack = 1 << 20

// scaleRangeKey: a Scale >= 1e100 (or < 1e-99) needs three exponent digits, BinarySize() is a constant.
const scaleRangeKey = "C08:size:scale-outside-fixed-width-range"

func runCorrupt(c CorruptCase, rec *h.Rec) error {
	req := DecodeReq{Params: c.Params, Objs: []ObjSpec{c.Obj}, Reader: ReaderSpec{Kind: c.Reader, Size: 4096, Chunk: ChunkSpec{Mode: "all"}}, Trunc: -1, Corrupt: &c.Corrupt}
	res := inChild(req)
	T := c.Obj.T
	rec.Class("type=" + T)
	rec.Class("reader=" + c.Reader)
	rec.Classf("binary-header-byte=%v", c.Corrupt.Bin)
	if res.Err != "" {
		return h.Failf("C08:harness", "%s", res.Err)
	}
	where := fmt.Sprintf("%s, header byte %d changed %#02x -> %#02x, reader %s", T, res.CorrAt, res.CorrOld, res.CorrNew, c.Reader)
	desc := fmt.Sprintf("%s;%s;", T, c.Reader)
	if err := judgeDamaged(T, where, res, rec); err != nil {
		return err
	}
	if res.Died != "" {
		rec.NonTrivial(desc + "died")
	} else {
		rec.NonTrivial(desc + fmt.Sprintf("mode=%d;early=%v", c.Corrupt.Mode, res.CorrAt < 24))
	}
	return nil
}

// judgeDamaged is the oracle for damaged input (single-byte corruption, fuzzing): an error, or an accepted object whose
// encoding is a fixpoint; never a panic, a dead process, or an allocation above 64*len + 1 MiB. Listed findings are
// booked in rec and skipped.
func judgeDamaged(T, where string, res DecodeRes, rec *h.Rec) error {
	if err := preJudge(res, rec); err != nil {
		return err
	}
	known := func(key, msg string) error {
		if rec.Known(key, msg) {
			rec.Class("known=" + key)
			return nil
		}
		return h.Failf(key, "%s: %s", where, msg)
	}
	if res.Died != "" {
		rec.Class("outcome=died")
		return known("C08:corrupt:"+diedClass(res.Died), "the process died: "+res.Died)
	}
	if len(res.Steps) == 0 {
		return h.Failf("C08:harness", "no decode step reported")
	}
	st := res.Steps[0]
	limit := uint64(64*res.Lens[0] + allocSlack)
	var err error
	switch {
	case st.Panic != "":
		rec.Class("outcome=panic")
		site := st.Panic
		if i := strings.Index(site, ":"); i >= 0 {
			site = site[:i]
		}
		err = known("C08:corrupt:panic@"+site, st.Panic)
	case st.Err != "":
		rec.Class("outcome=error")
	case st.ReDiff != "":
		rec.Class("outcome=accepted-inconsistent")
		key := "C08:corrupt:" + T + ":accepted-inconsistent"
		if st.HugeScale {
			// root cause: rlwe.Scale accepts / writes values that its fixed-size encoding cannot hold
			key = scaleRangeKey
		}
		err = known(key, st.ReDiff)
	case st.Diff == "":
		rec.Class("outcome=accepted-same-object") // the changed byte does not influence the value (e.g. insignificant JSON digit)
	default:
		rec.Class("outcome=accepted-different-valid-object")
	}
	if err != nil {
		return err
	}
	// rlwe.Parameters: a few hundred bytes of literal legitimately expand to megabytes of ring tables (a changed digit of
	// LogN or of a modulus gives other, valid parameters), so the allocation bound says nothing there; process death
	// under the child's address-space limit still counts.
	if st.Alloc > limit && T != "rlwe.Parameters" {
		rec.Class("outcome=alloc-over-bound")
		if err := known("C08:corrupt:alloc-unbounded", fmt.Sprintf("decoding %d input bytes allocated %d bytes (> 64*len + 1 MiB = %d)", res.Lens[0], st.Alloc, limit)); err != nil {
			return err
		}
	}
	return nil
}

var propCorrupt = h.NewProp("TestPropCorrupt", h.Budget{Quick: 1600, Thorough: 48000}, genCorrupt, runCorrupt)

func TestPropCorrupt(t *testing.T) { propCorrupt.Check(t); stopChild() }
