package c08

import (
	"errors"
	"fmt"
	"io"

	"pgregory.net/rapid"
)

// ChunkSpec describes how a transport fragments the byte stream.
type ChunkSpec struct {
	Mode string `json:"mode"`           // "all" | "one" | "half" | "list"
	List []int  `json:"list,omitempty"` // chunk sizes, cycled (mode "list")
	Zero bool   `json:"zero,omitempty"` // deliver an empty read (0, nil) before every third chunk
}

func (c ChunkSpec) trivial() bool { return c.Mode == "all" && !c.Zero }

func (c ChunkSpec) class() string {
	s := c.Mode
	if c.Zero {
		s += "+zero"
	}
	return s
}

func genChunk(t *rapid.T, label string) ChunkSpec {
	var c ChunkSpec
	switch rapid.IntRange(0, 5).Draw(t, label+"_mode") {
	case 0, 1:
		c.Mode = "all"
	case 2:
		c.Mode = "one"
	case 3:
		c.Mode = "half"
	default:
		c.Mode = "list"
		c.List = rapid.SliceOfN(rapid.IntRange(1, 96), 1, 5).Draw(t, label+"_list")
	}
	if c.Mode != "all" {
		c.Zero = rapid.IntRange(0, 4).Draw(t, label+"_zero") == 0
	}
	return c
}

// chunkReader is a transport: a plain io.Reader (it deliberately does not implement buffer.Reader) that returns the
// data in the fragments described by the spec.
type chunkReader struct {
	data  []byte
	off   int
	spec  ChunkSpec
	calls int
	zero  bool
}

func newChunkReader(data []byte, spec ChunkSpec) *chunkReader {
	return &chunkReader{data: data, spec: spec}
}

func (r *chunkReader) Read(p []byte) (int, error) {
	if len(p) == 0 {
		return 0, nil
	}
	if r.off >= len(r.data) {
		return 0, io.EOF
	}
	r.calls++
	if r.spec.Zero && r.calls%3 == 0 && !r.zero {
		r.zero = true // never two empty reads in a row
		return 0, nil
	}
	r.zero = false
	n := len(r.data) - r.off
	switch r.spec.Mode {
	case "one":
		n = 1
	case "half":
		if n > 1 {
			n = (n + 1) / 2
		}
	case "list":
		if len(r.spec.List) > 0 {
			if k := r.spec.List[r.calls%len(r.spec.List)]; k > 0 && k < n {
				n = k
			}
		}
	}
	if n > len(p) {
		n = len(p)
	}
	copy(p, r.data[r.off:r.off+n])
	r.off += n
	return n, nil
}

var errSink = errors.New("sink: injected write failure")

// sink is a plain io.Writer that records what reaches it and fails once failAt bytes were accepted (failAt < 0: never).
type sink struct {
	buf    []byte
	failAt int
	writes int
}

func (s *sink) Write(p []byte) (int, error) {
	s.writes++
	if s.failAt >= 0 && len(s.buf)+len(p) > s.failAt {
		n := s.failAt - len(s.buf)
		if n < 0 {
			n = 0
		}
		s.buf = append(s.buf, p[:n]...)
		return n, errSink
	}
	s.buf = append(s.buf, p...)
	return len(p), nil
}

func firstDiff(a, b []byte) string {
	n := len(a)
	if len(b) < n {
		n = len(b)
	}
	for i := 0; i < n; i++ {
		if a[i] != b[i] {
			return fmt.Sprintf("first difference at byte %d (%#x vs %#x), lengths %d vs %d", i, a[i], b[i], len(a), len(b))
		}
	}
	return fmt.Sprintf("lengths %d vs %d, common prefix equal", len(a), len(b))
}
