package c08

import (
	"bufio"
	"bytes"
	"fmt"
	"io"
	"strings"
	"testing"

	"verif/internal/h"

	"github.com/tuneinsight/lattigo/v6/utils/buffer"
	"pgregory.net/rapid"
)

// WriterSpec describes the writing entry point for the whole stream.
type WriterSpec struct {
	Kind string `json:"kind"`           // "bytes" (bytes.Buffer) | "sink" (plain io.Writer) | "bufio" (one bufio.Writer over a sink) | "buffer" (buffer.Buffer of the exact size)
	Size int    `json:"size,omitempty"` // bufio.NewWriterSize
}

// StreamCase: 1-4 objects of mixed types written back-to-back on one stream and read back into fresh or dirty receivers.
type StreamCase struct {
	Params h.RLWESpec `json:"params"`
	Objs   []ObjSpec  `json:"objs"`
	Dirty  []*ObjSpec `json:"dirty"`
	Writer WriterSpec `json:"writer"`
	Reader ReaderSpec `json:"reader"`
}

var bufioSizes = []int{16, 24, 32, 64, 256, 1024, 4096, 17, 20, 100, 1001}

func genWriter(t *rapid.T) WriterSpec {
	var w WriterSpec
	w.Kind = rapid.SampledFrom([]string{"bytes", "sink", "bufio", "bufio", "buffer"}).Draw(t, "wkind")
	if w.Kind == "bufio" {
		w.Size = rapid.SampledFrom([]int{16, 17, 23, 24, 64, 100, 4096}).Draw(t, "wsize")
	}
	return w
}

func genReader(t *rapid.T, allowUnaligned bool) ReaderSpec {
	var r ReaderSpec
	r.Kind = rapid.SampledFrom([]string{"buffer", "bufio", "bufio", "raw", "raw", "unmarshal"}).Draw(t, "rkind")
	r.Chunk.Mode = "all"
	switch r.Kind {
	case "bufio":
		n := 7
		if allowUnaligned && rapid.IntRange(0, 5).Draw(t, "unaligned") == 0 {
			n = len(bufioSizes)
		}
		r.Size = bufioSizes[rapid.IntRange(0, n-1).Draw(t, "rsize")]
		r.Chunk = genChunk(t, "rchunk")
	case "raw":
		r.Chunk = genChunk(t, "rchunk")
	}
	return r
}

func genStream(t *rapid.T) StreamCase {
	var c StreamCase
	c.Params = genParams(t)
	n := rapid.SampledFrom([]int{1, 1, 2, 2, 3, 4}).Draw(t, "nobj")
	for i := 0; i < n; i++ {
		o := genObj(t, fmt.Sprintf("o%d", i), "")
		o.Huge = rapid.IntRange(0, 15).Draw(t, "huge") == 0
		c.Objs = append(c.Objs, o)
		var d *ObjSpec
		if rapid.IntRange(0, 2).Draw(t, "dirty") != 0 {
			dd := genObj(t, fmt.Sprintf("d%d", i), o.T)
			d = &dd
		}
		c.Dirty = append(c.Dirty, d)
	}
	c.Writer = genWriter(t)
	c.Reader = genReader(t, true)
	return c
}

// checkWrite is oracle 1: announced size, byte-identical output through every writing entry point, everything
// delivered to a plain io.Writer when WriteTo returns.
func checkWrite(objs []codec, specs []ObjSpec, w WriterSpec, rec *h.Rec) ([][]byte, error) {
	encs := make([][]byte, len(objs))
	total := 0
	for i, o := range objs {
		T := specs[i].T
		b, err := o.MarshalBinary()
		if err != nil {
			return nil, h.Failf("C08:write:"+T+":MarshalBinary-error", "%v", err)
		}
		if len(b) != o.BinarySize() {
			return nil, h.Failf("C08:size:"+T+":BinarySize!=len(MarshalBinary)", "BinarySize()=%d, len(MarshalBinary())=%d", o.BinarySize(), len(b))
		}
		var bb bytes.Buffer
		n, err := o.WriteTo(&bb)
		if err != nil {
			return nil, h.Failf("C08:write:"+T+":WriteTo(bytes.Buffer)-error", "%v", err)
		}
		if int(n) != len(b) || bb.Len() != len(b) {
			key := "C08:write:" + T + ":WriteTo(io.Writer):bytes-missing"
			msg := fmt.Sprintf("WriteTo(bytes.Buffer) returned n=%d, delivered %d bytes, BinarySize=%d", n, bb.Len(), len(b))
			if !rec.Known(key, msg) {
				return nil, h.Failf(key, "%s", msg)
			}
			rec.Class("known=write-bytes-missing")
		} else if !bytes.Equal(bb.Bytes(), b) {
			return nil, h.Failf("C08:write:"+T+":WriteTo!=MarshalBinary", "%s", firstDiff(bb.Bytes(), b))
		}
		encs[i] = b
		total += len(b)
	}
	want := bytes.Join(encs, nil)

	// the whole stream through one writer
	var got []byte
	switch w.Kind {
	case "bytes", "sink":
		var dst io.Writer
		var bb bytes.Buffer
		sk := &sink{failAt: -1}
		if w.Kind == "bytes" {
			dst = &bb
		} else {
			dst = sk
		}
		pos := 0
		for i, o := range objs {
			n, err := o.WriteTo(dst)
			if err != nil {
				return nil, h.Failf("C08:write:"+specs[i].T+":WriteTo-error", "object %d: %v", i, err)
			}
			pos += len(encs[i])
			have := bb.Len() + len(sk.buf)
			if int(n) != len(encs[i]) || have != pos {
				key := "C08:write:" + specs[i].T + ":WriteTo(io.Writer):bytes-missing"
				msg := fmt.Sprintf("object %d of the stream: WriteTo returned n=%d (encoding has %d bytes); the plain io.Writer holds %d bytes, expected %d (missing Flush of the internal bufio.Writer?)", i, n, len(encs[i]), have, pos)
				if !rec.Known(key, msg) {
					return nil, h.Failf(key, "%s", msg)
				}
				rec.Class("known=write-bytes-missing")
				return encs, nil // the rest of the stream is shifted: nothing more to compare
			}
		}
		got = append(bb.Bytes(), sk.buf...)
	case "bufio":
		sk := &sink{failAt: -1}
		bw := bufio.NewWriterSize(sk, w.Size)
		for i, o := range objs {
			n, err := o.WriteTo(bw)
			if err != nil {
				return nil, h.Failf("C08:write:"+specs[i].T+":WriteTo(bufio)-error", "object %d: %v", i, err)
			}
			if int(n) != len(encs[i]) {
				return nil, h.Failf("C08:write:"+specs[i].T+":WriteTo(bufio):n", "object %d: n=%d, encoding has %d bytes", i, n, len(encs[i]))
			}
		}
		if err := bw.Flush(); err != nil {
			return nil, h.Failf("C08:write:bufio-flush", "%v", err)
		}
		got = sk.buf
	case "buffer":
		lb := buffer.NewBufferSize(total)
		for i, o := range objs {
			n, err := o.WriteTo(lb)
			if err != nil {
				return nil, h.Failf("C08:write:"+specs[i].T+":WriteTo(buffer.Buffer)-error", "object %d: %v", i, err)
			}
			if int(n) != len(encs[i]) {
				return nil, h.Failf("C08:write:"+specs[i].T+":WriteTo(buffer.Buffer):n", "object %d: n=%d, encoding has %d bytes", i, n, len(encs[i]))
			}
		}
		got = lb.Bytes()
	}
	if !bytes.Equal(got, want) {
		return nil, h.Failf("C08:write:stream-bytes-differ:"+w.Kind, "writer %+v: %s", w, firstDiff(got, want))
	}
	return encs, nil
}

// staleKey names what was left over from the previous content of the receiver.
func staleKey(T, diff string) string {
	if strings.Contains(diff, ":maplen") || strings.Contains(diff, ":missing-key") {
		return "structs.Map-entries"
	}
	t := pathTail(diff)
	if !strings.Contains(t, ".") {
		base := T
		if i := strings.Index(base, "["); i >= 0 {
			base = base[:i]
		}
		t = base[strings.LastIndex(base, ".")+1:] + "." + t // "rlwe.CiphertextMetaData" + "IsNTT" -> "CiphertextMetaData.IsNTT"
	}
	return t
}

func isJSONErr(e string) bool {
	for _, w := range []string{"invalid character", "unexpected end of JSON", "json:", "hexconv", "unexpected EOF"} {
		if strings.Contains(e, w) {
			return true
		}
	}
	return false
}

func readerClass(r ReaderSpec) string {
	switch r.Kind {
	case "bufio":
		if r.Size%8 != 0 {
			return "bufio-unaligned"
		}
		if !r.Chunk.trivial() {
			return "bufio-fragmented"
		}
		return "bufio"
	case "raw":
		if !r.Chunk.trivial() {
			return "raw-fragmented"
		}
	}
	return r.Kind
}

// checkCleanDecode is oracles 2 and 3 on the result of an undamaged stream.
// rootCause replaces a symptom key by the key of a known shared root cause when the case lies in its input class.
func rootCause(req DecodeReq, T, key, msg string) string {
	kind := req.Reader.Kind
	switch {
	case readerClass(req.Reader) == "bufio-unaligned":
		// buffer.ReadUintNSlice discards a partial word when the bufio.Reader size is not a multiple of the word size;
		// symptoms: error, wrong n, wrong value, fatal out-of-memory on a garbage length
		return "C08:read:bufio-unaligned:misdecoded"
	case (kind == "bufio" || kind == "raw") && (strings.HasPrefix(T, "structs.Vector[uint8]") || strings.HasPrefix(T, "structs.Vector[int8]")):
		// buffer.ReadUint8Slice is a single Read call
		return "C08:read:short-read:uint8-slice"
	case (kind == "bufio" || kind == "raw") && T == "rlwe.Parameters" && strings.HasSuffix(key, ":error"):
		// the JSON body is read with a single Read call
		return "C08:read:short-read:rlwe.Parameters"
	case (kind == "bufio" || kind == "raw") && strings.HasSuffix(key, ":error") && isJSONErr(msg):
		// the fixed-size JSON metadata block is read with a single Read call
		return "C08:read:short-read:json-metadata"
	case kind == "bufio" && req.Reader.Size < 32 && strings.Contains(msg, "bufio: buffer full"):
		return "C08:read:bufio-small:buffer-full"
	}
	return key
}

func checkCleanDecode(req DecodeReq, res DecodeRes, rec *h.Rec) error {
	return checkCleanDecode1(req, res, rec)
}

func checkCleanDecode1(req DecodeReq, res DecodeRes, rec *h.Rec) error {
	rc := readerClass(req.Reader)
	if res.Err != "" {
		return h.Failf("C08:harness", "%s", res.Err)
	}
	if err := preJudge(res, rec); err != nil {
		return err
	}
	if res.Died != "" {
		key := rootCause(req, req.Objs[0].T, "C08:read:"+rc+":"+diedClass(res.Died), res.Died)
		msg := fmt.Sprintf("decoding an undamaged stream of %d object(s) (first %s) killed the process: %s", len(req.Objs), req.Objs[0].T, res.Died)
		if rec.Known(key, msg) {
			rec.Class("known=" + rc + "-fatal")
			return nil
		}
		return h.Failf(key, "%s", msg)
	}
	for i, st := range res.Steps {
		T := req.Objs[i].T
		dirty := i < len(req.Dirty) && req.Dirty[i] != nil
		fail := func(key, msg string) error {
			key = rootCause(req, T, key, msg)
			if rec.Known(key, msg) {
				rec.Class("known=" + key)
				return nil
			}
			return h.Failf(key, "object %d (%s, reader %s, dirty=%v): %s", i, T, rc, dirty, msg)
		}
		if st.Panic != "" {
			return fail("C08:read:"+rc+":"+T+":panic", st.Panic)
		}
		if st.Err != "" {
			if err := fail("C08:read:"+rc+":"+T+":error", st.Err); err != nil {
				return err
			}
			return nil // the stream position is lost
		}
		stop := false
		if int(st.N) != res.Lens[i] {
			if err := fail("C08:read:"+rc+":"+T+":n-mismatch", fmt.Sprintf("ReadFrom returned n=%d, the encoding has %d bytes", st.N, res.Lens[i])); err != nil {
				return err
			}
			stop = true
		}
		if st.Diff != "" {
			var err error
			if dirty {
				err = fail("C08:read:dirty:stale:"+staleKey(T, st.Diff), "decoded into a receiver that held another value, differs from the original at "+st.Diff)
			} else {
				err = fail("C08:read:fresh:"+T+":differs:"+pathTail(st.Diff), "decoded value differs from the original at "+st.Diff)
			}
			if err != nil {
				return err
			}
		} else {
			if st.LibEq == 0 {
				if err := fail("C08:read:"+T+":Equal-false", "structurally identical but the library's Equal returns false (or panics)"); err != nil {
					return err
				}
			}
			if st.ReDiff != "" {
				key := "C08:read:" + T + ":re-encoding-differs"
				if dirty {
					key = "C08:read:dirty:" + T + ":re-encoding-differs"
					if T == "rlwe.MemEvaluationKeySet" {
						// a stale EMPTY map where the original had a nil map: invisible structurally, but the presence byte differs
						key = "C08:read:dirty:stale:MemEvaluationKeySet.GaloisKeys"
					}
				}
				if err := fail(key, st.ReDiff); err != nil {
					return err
				}
			}
		}
		if stop {
			return nil
		}
	}
	if len(res.Steps) == len(req.Objs) && res.Rest > 0 {
		return h.Failf("C08:read:"+rc+":stream-not-exhausted", "%d bytes left after reading all %d objects", res.Rest, len(req.Objs))
	}
	if req.Reader.Kind == "raw" && res.OverRead > 0 {
		rec.Class("raw-overread") // observation: the internal bufio.Reader pulled more than the object from the transport
	}
	return nil
}

func runStream(c StreamCase, rec *h.Rec) error {
	p, err := c.Params.Build()
	if err != nil {
		return h.Failf("C08:harness:params", "%v", err)
	}
	objs := make([]codec, len(c.Objs))
	desc := ""
	anyDirty := false
	for i, s := range c.Objs {
		var cls string
		if objs[i], cls, err = buildObj(p, s); err != nil {
			return h.Failf("C08:harness:build", "%v", err)
		}
		rec.Class("type=" + s.T)
		rec.Class(s.T + ":" + cls)
		d := "fresh"
		if c.Dirty[i] != nil {
			d = "dirty"
			anyDirty = true
		}
		desc += s.T + "/" + d + ";"
	}
	rec.Classf("objects=%d", len(c.Objs))
	rec.Class("writer=" + c.Writer.Kind)
	rec.Class("reader=" + readerClass(c.Reader))
	if c.Reader.Kind == "bufio" || c.Reader.Kind == "raw" {
		rec.Class("chunks=" + c.Reader.Chunk.class())
	}

	// An object whose scale does not fit the fixed-size text encoding cannot be written: EVERY writing entry point must
	// then return an error (no bytes beyond BinarySize, no object that cannot be read back); nothing is decoded.
	for i, o := range objs {
		if !hasUnencodableScale(o) {
			continue
		}
		rec.Class("unencodable-scale")
		T := c.Objs[i].T
		var b []byte
		var bb bytes.Buffer
		var n int64
		merr, pm1 := guarded(func() (e error) { b, e = o.MarshalBinary(); return })
		werr, pm2 := guarded(func() (e error) { n, e = o.WriteTo(&bb); return })
		if pm1 != "" || pm2 != "" || merr == nil || werr == nil {
			msg := fmt.Sprintf("%s with a scale outside [1e-99, 1e100): BinarySize()=%d; MarshalBinary: %d bytes, err=%v %s; WriteTo(io.Writer): n=%d, %d bytes delivered, err=%v %s", T, o.BinarySize(), len(b), merr, pm1, n, bb.Len(), werr, pm2)
			if rec.Known(scaleRangeKey, msg) {
				rec.Class("known=" + scaleRangeKey)
				return nil
			}
			return h.Failf(scaleRangeKey, "%s", msg)
		}
		return nil
	}

	if _, err := checkWrite(objs, c.Objs, c.Writer, rec); err != nil {
		return err
	}

	req := DecodeReq{Params: c.Params, Objs: c.Objs, Dirty: c.Dirty, Reader: c.Reader, Trunc: -1}
	res := execDecode(req)
	if err := checkCleanDecode(req, res, rec); err != nil {
		return err
	}
	if anyDirty || len(c.Objs) >= 2 || !c.Reader.Chunk.trivial() {
		rec.NonTrivial(desc + "w=" + c.Writer.Kind + ";r=" + readerClass(c.Reader) + ";" + c.Reader.Chunk.class())
	}
	return nil
}

var propStream = h.NewProp("TestPropStream", h.Budget{Quick: 3000, Thorough: 90000}, genStream, runStream)

func TestPropStream(t *testing.T) {
	recordDiscovery("TestPropStream")
	propStream.Check(t)
	stopChild()
}
